(* C19 - the local-variable tables after the first pass, as far as the outline reads their identity:
   per scope frame and name the sequence of (VarInfo.Loc, IsParam, Loc of the function literal if function-valued).
   Expressions, nested blocks and function bodies leave the signature of every enclosing frame unchanged; a statement
   appends exactly its own `local` declarations to the current frame.  No hypothesis on the program. *)
From Coq Require Import List NArith ZArith Bool Lia.
From LH Require Import Base.Bytes Base.Res Model.Lexer Model.Ast Model.Symbols Spec.SymbolSpec
  Proofs.SymbolsRange Proofs.SymbolsLocs Proofs.SymbolsMerge.
Import ListNotations.

Definition vsig : Type := (loc * bool * option loc)%type.
Definition vsig_of (v : vinfo) : vsig := (v_loc v, v_param v, option_map f_loc (v_func v)).
Definition fsig (fr : scope) : list (bytes * list vsig) := map (fun kv => (fst kv, map vsig_of (snd kv))) (s_vars fr).
Definition esig (e : list scope) : list (list (bytes * list vsig)) := map fsig e.

Definition sig_add (d : bytes * vsig) (sg : list (bytes * list vsig)) : list (bytes * list vsig) :=
  assoc_set (fst d) (match assoc_get (fst d) sg with Some xs => xs ++ [snd d] | None => [snd d] end) sg.
Definition sig_adds (ds : list (bytes * vsig)) (sg : list (bytes * list vsig)) := fold_left (fun g d => sig_add d g) ds sg.
Definition esig_adds (ds : list (bytes * vsig)) (E : list (list (bytes * list vsig))) :=
  match E with fr :: rest => sig_adds ds fr :: rest | [] => [] end.

(* the `local` declarations of one statement, in the order in which they are added to the scope *)
Fixpoint local_sigs (nms : list bytes) (ls : list loc) (es : list exp) {struct nms} : list (bytes * vsig) :=
  match nms, ls with
  | nm :: nms', l :: ls' =>
    (nm, (l, false, match es with e :: _ => if is_func e then Some (exp_loc e) else None | [] => None end))
      :: local_sigs nms' ls' (tl es)
  | _, _ => []
  end.

Definition decl_locals (st : stat) : list (bytes * vsig) :=
  match st with
  | SLocal nms ls _ es _ => local_sigs nms ls es
  | SLocalFunc nm nl f _ => [(nm, (nl, false, Some (exp_loc f)))]
  | _ => []
  end.

(* ------------------------------------------------------------------ association lists under a map of the values *)
Lemma assoc_get_map : forall {A B} (g : A -> B) k (l : list (bytes * A)),
    assoc_get k (map (fun kv => (fst kv, g (snd kv))) l) = option_map g (assoc_get k l).
Proof.
  intros A B g k l. induction l as [|[k' a] l IH]; [reflexivity|]. cbn [map assoc_get fst snd].
  destruct (beq_bytes k k'); [reflexivity | exact IH].
Qed.

Lemma assoc_set_map : forall {A B} (g : A -> B) k a (l : list (bytes * A)),
    map (fun kv => (fst kv, g (snd kv))) (assoc_set k a l) = assoc_set k (g a) (map (fun kv => (fst kv, g (snd kv))) l).
Proof.
  intros A B g k a l. induction l as [|[k' a'] l IH]; [reflexivity|]. cbn [map assoc_set fst snd].
  destruct (beq_bytes k k'); cbn [map fst snd]; [reflexivity | rewrite IH; reflexivity].
Qed.

Lemma assoc_set_same_map : forall {A B} (g : A -> B) k a a' (l : list (bytes * A)),
    assoc_get k l = Some a -> g a' = g a ->
    map (fun kv => (fst kv, g (snd kv))) (assoc_set k a' l) = map (fun kv => (fst kv, g (snd kv))) l.
Proof.
  intros A B g k a a' l. induction l as [|[k' a0] l IH]; intros Hg He; [discriminate|].
  cbn [assoc_get] in Hg. cbn [assoc_set]. destruct (beq_bytes k k').
  - injection Hg as ->. cbn [map fst snd]. rewrite He. reflexivity.
  - cbn [map fst snd]. rewrite IH; auto.
Qed.

Lemma upd_nth_map_same : forall {A B} (g : A -> B) (f : A -> A) l i,
    (forall a, g (f a) = g a) -> map g (upd_nth i f l) = map g l.
Proof.
  intros A B g f l. induction l as [|a l IH]; intros i Hf; destruct i; cbn [upd_nth map]; auto.
  - rewrite Hf. reflexivity.
  - rewrite IH; auto.
Qed.

(* ------------------------------------------------------------------ primitives *)
Lemma fsig_add_var_scope : forall nm v fr, fsig (add_var_scope nm v fr) = sig_add (nm, vsig_of v) (fsig fr).
Proof.
  intros nm v [f vars subs]. unfold fsig, sig_add. cbn [add_var_scope s_vars fst snd].
  rewrite (assoc_set_map (map vsig_of)), (assoc_get_map (map vsig_of)).
  destruct (assoc_get nm vars) as [vs|]; cbn [option_map]; [rewrite map_app|]; reflexivity.
Qed.

Lemma esig_add_loc_var : forall nm v s, esig (env (add_loc_var nm v s)) = esig_adds [(nm, vsig_of v)] (esig (env s)).
Proof.
  intros nm v s. unfold add_loc_var. destruct (env s) as [|fr rest] eqn:E; [rewrite E; reflexivity|].
  cbn [env esig map esig_adds sig_adds fold_left]. rewrite fsig_add_var_scope. reflexivity.
Qed.

Lemma esig_update_var : forall r f s, (forall v, vsig_of (f v) = vsig_of v) -> esig (env (update_var r f s)) = esig (env s).
Proof.
  intros r f s Hf. destruct r as [d nm i|nm|nm]; cbn [update_var env]; try reflexivity.
  unfold esig. apply upd_nth_map_same. intros [fid vars subs]. unfold fsig. cbn [s_vars].
  destruct (assoc_get nm vars) as [vs|] eqn:E; [|reflexivity].
  apply (assoc_set_same_map (map vsig_of) nm vs); [exact E|]. apply upd_nth_map_same. exact Hf.
Qed.

Lemma esig_note_nodefine : forall nm l s, env (note_nodefine nm l s) = env s.
Proof.
  intros nm l s. unfold note_nodefine. destruct (find_loc_var (env s) nm l 0); [reflexivity|].
  destruct (assoc_mem nm (globs s) || assoc_mem nm (nodefs s)); reflexivity.
Qed.

Lemma esig_note_G : forall p k s, env (note_G p k s) = env s.
Proof.
  intros p k s. unfold note_G. destruct p; try reflexivity. destruct k; try reflexivity.
  destruct (_ && _); [apply esig_note_nodefine | reflexivity].
Qed.

Lemma member_assign_vsig : forall keys j locl l nw v, vsig_of (member_assign keys j locl l nw v) = vsig_of v.
Proof.
  intros keys j locl l nw v. destruct keys as [|k rest]; [reflexivity|]. destruct v as [vl vf vs vp vg vr ve].
  cbn [member_assign]. destruct (assoc_get k vs); [reflexivity|]. destruct rest; reflexivity.
Qed.

Lemma esig_adds_app : forall ds1 ds2 E, esig_adds (ds1 ++ ds2) E = esig_adds ds2 (esig_adds ds1 E).
Proof. intros ds1 ds2 [|fr rest]; [reflexivity|]. cbn [esig_adds]. unfold sig_adds. rewrite fold_left_app. reflexivity. Qed.

Lemma esig_adds_nil : forall E, esig_adds [] E = E.
Proof. intros [|fr rest]; reflexivity. Qed.

(* same tail, same number of frames *)
Definition tl_eq {A} (E1 E0 : list A) : Prop := tl E1 = tl E0 /\ length E1 = length E0.
Lemma tl_eq_refl : forall {A} (E : list A), tl_eq E E.
Proof. intros; split; reflexivity. Qed.
Lemma tl_eq_trans : forall {A} (E1 E2 E3 : list A), tl_eq E1 E2 -> tl_eq E2 E3 -> tl_eq E1 E3.
Proof. intros A E1 E2 E3 [H1 H2] [H3 H4]. split; congruence. Qed.
Lemma tl_eq_of_eq : forall {A} (E1 E0 : list A), E1 = E0 -> tl_eq E1 E0.
Proof. intros; subst; apply tl_eq_refl. Qed.
Lemma esig_adds_tl_eq : forall ds E, tl_eq (esig_adds ds E) E.
Proof. intros ds [|fr rest]; split; reflexivity. Qed.

Lemma pop_scope_esig : forall s1 s2 x E, esig (env s1) = x :: E -> pop_scope s1 = Ok s2 -> esig (env s2) = E.
Proof.
  intros s1 s2 x E He H. unfold pop_scope in H. destruct (env s1) as [|fr [|[fid vars subs] rest]]; try discriminate.
  injection H as <-. cbn [env]. cbn [esig map] in *. injection He as _ <-. reflexivity.
Qed.

Lemma scoped_esig : forall f s s',
    (forall s0 s1, f s0 = Ok s1 -> tl_eq (esig (env s1)) (esig (env s0))) -> scoped f s = Ok s' -> esig (env s') = esig (env s).
Proof.
  intros f s s' Hf H. unfold scoped in H. inv_bind H. specialize (Hf _ _ Hb). destruct Hf as [H1 H2].
  cbn [push_scope env esig map] in H1, H2.
  destruct (esig (env a)) as [|x E] eqn:Ea; [discriminate|]. cbn [tl] in H1. subst E.
  eapply pop_scope_esig; eauto.
Qed.

(* ------------------------------------------------------------------ statements, for an abstract cgExp *)
Definition ofn_loc (ofn : option finfo) (e : exp) : Prop :=
  option_map f_loc ofn = if is_func e then Some (exp_loc e) else None.

Definition ce_sig (ce : exp -> pvar -> state -> Res r3) : Prop :=
  forall e pv s s' ofn pv', ce e pv s = Ok (s', ofn, pv') -> esig (env s') = esig (env s) /\ ofn_loc ofn e.

Section StatSig.
  Variable ce : exp -> pvar -> state -> Res r3.
  Variable flv slv : N.
  Hypothesis Hce : ce_sig ce.

  Lemma ce_nil_sig : forall e s s', ce_nil ce e s = Ok s' -> esig (env s') = esig (env s).
  Proof.
    intros e s s' H. unfold ce_nil in H. apply drop3_ok in H. destruct H as [f [p H]]. apply Hce in H. tauto.
  Qed.

  Lemma cg_table_sig : forall ks vs pv s s' pv', cg_table ce ks vs pv s = Ok (s', pv') -> esig (env s') = esig (env s).
  Proof.
    induction ks as [|k ks IH]; intros vs pv s s' pv' H.
    - cbn [cg_table] in H. injection H as <- <-. reflexivity.
    - destruct vs as [|v vs]; [cbn [cg_table] in H; injection H as <- <-; reflexivity|].
      destruct k as [ke|].
      + rewrite cg_table_some in H. inv_bind H. apply ce_nil_sig in Hb. inv_bind H. destruct a0 as [[s2 ofn] sub].
        apply Hce in Hb0. destruct Hb0 as [Hb0 _]. apply IH in H. congruence.
      + cbn [cg_table] in H. inv_bind H. apply ce_nil_sig in Hb. apply IH in H. congruence.
  Qed.

  Lemma add_plain_locals_sig : forall names locs r em s,
      esig (env (add_plain_locals names locs r em s)) = esig_adds (local_sigs names locs []) (esig (env s)).
  Proof.
    induction names as [|nm names IH]; intros locs r em s; cbn [add_plain_locals local_sigs].
    - rewrite esig_adds_nil. reflexivity.
    - destruct locs as [|l locs]; [rewrite esig_adds_nil; reflexivity|].
      rewrite IH, esig_add_loc_var. cbn [tl].
      change ((nm, (l, false, None)) :: local_sigs names locs []) with ([(nm, (l, false, @None loc))] ++ local_sigs names locs []).
      rewrite esig_adds_app. reflexivity.
  Qed.

  Lemma local_eval_sig : forall es names locs s s1 rs,
      local_eval ce names locs es s = Ok (s1, rs) ->
      esig (env s1) = esig (env s) /\ rs_match (fun e r => ofn_loc (fst r) e) names locs es rs.
  Proof.
    induction es as [|e es IH]; intros names locs s s1 rs H.
    - cbn [local_eval] in H. injection H as <- <-. split; reflexivity.
    - cbn [local_eval] in H. inv_bind H. destruct a as [[s2 ofn] sub]. apply Hce in Hb. destruct Hb as [Hb Hofn].
      destruct names as [|nm names];
        [inv_bind H; destruct a as [s3 rs0]; injection H as <- <-;
         destruct (IH _ _ _ _ _ Hb0) as [E _]; split; [congruence|reflexivity]|].
      destruct locs as [|l locs];
        [inv_bind H; destruct a as [s3 rs0]; injection H as <- <-;
         destruct (IH _ _ _ _ _ Hb0) as [E _]; split; [congruence|reflexivity]|].
      inv_bind H. destruct a as [s3 rs0]. injection H as <- <-.
      destruct (IH _ _ _ _ _ Hb0) as [E Hrs]. split; [congruence|].
      cbn [rs_match]. exists (ofn, sub), rs0. repeat split; auto.
  Qed.

  Lemma local_adds_sig : forall es names locs rs s s' rn rl flag,
      rs_match (fun e r => ofn_loc (fst r) e) names locs es rs ->
      local_adds names locs es rs s = (s', rn, rl, flag) ->
      esig_adds (local_sigs rn rl []) (esig (env s')) = esig_adds (local_sigs names locs es) (esig (env s)).
  Proof.
    induction es as [|e es IH]; intros names locs rs s s' rn rl flag Hrs H.
    - cbn [local_adds] in H. injection H as <- <- <- <-. destruct names; reflexivity.
    - cbn [local_adds rs_match] in H, Hrs.
      destruct names as [|nm names]; [subst rs; injection H as <- <- <- <-; cbn [local_sigs]; reflexivity|].
      destruct locs as [|l locs]; [subst rs; injection H as <- <- <- <-; cbn [local_sigs]; reflexivity|].
      destruct Hrs as [[ofn sub] [rs' [-> [Hofn Hrs']]]]. cbn [fst] in Hofn.
      destruct (local_adds names locs es rs' _) as [[[s3 rn0] rl0] flag0] eqn:E.
      injection H as <- <- <- <-.
      rewrite (IH _ _ _ _ _ _ _ _ Hrs' E), esig_add_loc_var. cbn [local_sigs tl].
      match goal with |- _ = esig_adds (?x :: ?r) _ => change (x :: r) with ([x] ++ r) end.
      rewrite esig_adds_app. unfold vsig_of. cbn [v_loc v_param v_func].
      unfold ofn_loc in Hofn. destruct (is_func e); [rewrite Hofn|]; reflexivity.
  Qed.

  Lemma local_loop_sig : forall es names locs s s' rn rl flag,
      local_loop ce names locs es s = Ok (s', rn, rl, flag) ->
      esig_adds (local_sigs rn rl []) (esig (env s')) = esig_adds (local_sigs names locs es) (esig (env s)).
  Proof.
    intros es names locs s s' rn rl flag H. unfold local_loop in H. inv_bind H. destruct a as [s1 rs].
    injection H as H. destruct (local_eval_sig _ _ _ _ _ _ Hb) as [E Hrs].
    rewrite (local_adds_sig _ _ _ _ _ _ _ _ _ Hrs H), E. reflexivity.
  Qed.

  Lemma cg_local_sig : forall names locs es s s',
      cg_local ce names locs es s = Ok s' -> esig (env s') = esig_adds (local_sigs names locs es) (esig (env s)).
  Proof.
    intros names locs es s s' H. unfold cg_local in H. inv_bind H. destruct a as [[[s1 rn] rl] flag].
    injection H as <-. rewrite add_plain_locals_sig. eapply local_loop_sig. exact Hb.
  Qed.

  Lemma assign_one_sig : forall t oe ofn sub lastcall s s',
      assign_one ce flv slv t oe ofn sub lastcall s = Ok s' -> esig (env s') = esig (env s).
  Proof.
    intros t oe ofn sub lastcall s s' H.
    destruct t; try (cbn [assign_one] in H; injection H as <-; reflexivity).
    - cbn [assign_one] in H.
      destruct (find_loc_var (env s) n l 0) as [[[d i] v]|].
      + ok_inj H. destruct (v_empty v && _); [|reflexivity].
        apply esig_update_var. intros [l0 f s1 p g r0 e0]. reflexivity.
      + destruct (find_global n flv slv l (globs s)) as [v|].
        * ok_inj H. destruct (v_empty v && _); [|reflexivity].
          apply esig_update_var. intros [l0 f s1 p g r0 e0]. reflexivity.
        * ok_inj H. reflexivity.
    - cbn [assign_one] in H. inv_bind H. apply ce_nil_sig in Hb. inv_bind H. apply ce_nil_sig in Hb0.
      assert (E0 : esig (env a0) = esig (env s)) by congruence.
      destruct (negb (simple_str (exp_name t2))); [ok_inj H; exact E0|].
      destruct (beq_bytes (exp_name t1) (c_bang :: Symbols.s_G)).
      { destruct (find_global (exp_name t2) flv slv _ (globs a0)) as [v|].
        - ok_inj H. destruct (v_empty v && _); [|exact E0].
          rewrite esig_update_var; [exact E0|]. intros [l0 f s1 p g r0 e0]. reflexivity.
        - ok_inj H. exact E0. }
      destruct (split_dot (exp_name t1)) as [|p0 ps]; [ok_inj H; exact E0|].
      destruct (negb (forallb simple_str ps)); [ok_inj H; exact E0|].
      destruct (if beq_bytes (trim_bang p0) Symbols.s_G then ps else []) as [|g0 gs].
      + destruct (find_loc_var (env a0) (trim_bang p0) _ 0) as [[[d i] v]|].
        * ok_inj H. rewrite esig_update_var; [exact E0|]. intros v0. apply member_assign_vsig.
        * destruct (find_global (trim_bang p0) flv slv _ (globs a0)); ok_inj H;
            (rewrite esig_update_var; [exact E0|]; intros v0; apply member_assign_vsig).
      + destruct (find_global g0 flv slv _ (globs a0)); ok_inj H;
          (rewrite esig_update_var; [exact E0|]; intros v0; apply member_assign_vsig).
  Qed.

  Lemma assign_loop_sig : forall vars i es lastcall s s',
      assign_loop ce flv slv i vars es lastcall s = Ok s' -> esig (env s') = esig (env s).
  Proof.
    induction vars as [|t vars IH]; intros i es lastcall s s' H; cbn [assign_loop] in H.
    - injection H as <-. reflexivity.
    - inv_bind H. destruct a as [[s1 ofn] sub]. inv_bind H.
      assert (H1 : esig (env s1) = esig (env s)).
      { destruct (nth_error es i) as [e|]; [apply Hce in Hb; tauto | injection Hb as <- <- <-; reflexivity]. }
      apply assign_one_sig in Hb0. apply IH in H. congruence.
  Qed.

  Lemma cg_assign_sig : forall vars es s s', cg_assign ce flv slv vars es s = Ok s' -> esig (env s') = esig (env s).
  Proof.
    intros vars es s s' H. unfold cg_assign in H. inv_bind H. apply assign_loop_sig in Hb.
    rewrite <- Hb. eapply (iter_res_inv (fun s0 => esig (env s0) = esig (env a))); [| reflexivity | exact H].
    intros e s0 s1 _ Hs0 He. apply ce_nil_sig in He. congruence.
  Qed.
End StatSig.

Lemma param_vars_subs : forall pars plocs acc, exists vars, param_vars pars plocs acc = Scope (s_fid acc) vars (s_subs acc).
Proof.
  induction pars as [|p pars IH]; intros plocs acc; cbn [param_vars]; [destruct acc; eexists; reflexivity|].
  destruct plocs as [|l plocs]; [destruct acc; eexists; reflexivity|].
  destruct (IH plocs (add_var_scope p (VI l None [] true None RkNone false) acc)) as [vars H]. rewrite H.
  destruct acc. cbn. eexists. reflexivity.
Qed.

(* ------------------------------------------------------------------ the whole analysis *)
Definition exp_sig (n : nat) : Prop := forall flv slv, ce_sig (cg_exp n flv slv).
Definition func_sig (n : nat) : Prop :=
  forall flv e s s' fi, cg_func n flv e s = Ok (s', fi) -> esig (env s') = esig (env s) /\ f_loc fi = exp_loc e.
Definition stat_sig (n : nat) : Prop :=
  forall flv slv st s s', cg_stat n flv slv st s = Ok s' -> esig (env s') = esig_adds (decl_locals st) (esig (env s)).
Definition block_sig (n : nat) : Prop :=
  forall flv slv b s s', cg_block n flv slv b s = Ok s' ->
                         esig (env s') = esig_adds (flat_map decl_locals (block_stats b)) (esig (env s)).

Lemma iter_stats_sig : forall (f : stat -> state -> Res state) stats s s',
    (forall st s0 s1, f st s0 = Ok s1 -> esig (env s1) = esig_adds (decl_locals st) (esig (env s0))) ->
    iter_res f stats s = Ok s' -> esig (env s') = esig_adds (flat_map decl_locals stats) (esig (env s)).
Proof.
  intros f stats. induction stats as [|st stats IH]; intros s s' Hf H; cbn [iter_res] in H.
  - injection H as <-. cbn [flat_map]. rewrite esig_adds_nil. reflexivity.
  - inv_bind H. cbn [flat_map]. rewrite esig_adds_app. rewrite (IH _ _ Hf H). rewrite (Hf _ _ _ Hb). reflexivity.
Qed.

Lemma all_sig : forall n, exp_sig n /\ func_sig n /\ stat_sig n /\ block_sig n.
Proof.
  induction n as [|n [IHe [IHf [IHs IHb]]]].
  - repeat split; repeat intro; cbn in *; discriminate.
  - assert (Hnil : forall flv slv e s s', drop3 (cg_exp n flv slv e None s) = Ok s' -> esig (env s') = esig (env s)).
    { intros flv slv e s s' H. apply drop3_ok in H. destruct H as [f [p H]]. apply IHe in H. tauto. }
    assert (Hnils : forall flv slv es s s', iter_res (fun e1 s1 => drop3 (cg_exp n flv slv e1 None s1)) es s = Ok s' ->
                                            esig (env s') = esig (env s)).
    { intros flv slv es s s' H. eapply (iter_res_inv (fun s0 => esig (env s0) = esig (env s))); [|reflexivity|exact H].
      intros e s0 s1 _ Hs0 He. apply Hnil in He. congruence. }
    assert (Hblk : forall flv slv b s0 s1, cg_block n flv slv b s0 = Ok s1 -> tl_eq (esig (env s1)) (esig (env s0))).
    { intros flv slv b s0 s1 H. apply IHb in H. rewrite H. apply esig_adds_tl_eq. }
    split; [|split; [|split]].
    + (* cg_exp *)
      intros flv slv e pv s s' ofn pv' H. cbn [cg_exp] in H. unfold ofn_loc.
      destruct e; cbn [is_func];
        try (injection H as <- <- <-; split; reflexivity).
      * inv_bind H. injection H as <- <- <-. apply Hnil in Hb. auto.
      * inv_bind H. destruct a as [[s1 f1] pv1]. inv_bind H. destruct a as [[s2 f2] pv2]. injection H as <- <- <-.
        apply IHe in Hb. apply IHe in Hb0. split; [|reflexivity]. destruct Hb, Hb0. congruence.
      * inv_bind H. destruct a as [s1 pv1]. injection H as <- <- <-.
        apply (cg_table_sig _ (IHe flv slv)) in Hb. auto.
      * inv_bind H. destruct a as [s1 fi]. injection H as <- <- <-. apply IHf in Hb. destruct Hb as [Hb Hfi].
        split; [exact Hb|]. cbn [option_map]. rewrite Hfi. reflexivity.
      * injection H as <- <- <-. rewrite esig_note_nodefine. auto.
      * inv_bind H. destruct a as [[s1 f1] pv1]. injection H as <- <- <-. apply IHe in Hb. destruct Hb. auto.
      * inv_bind H. inv_bind H. injection H as <- <- <-. apply Hnil in Hb. apply Hnil in Hb0. rewrite esig_note_G. split; [congruence|reflexivity].
      * inv_bind H. inv_bind H. injection H as <- <- <-. apply Hnil in Hb. apply Hnils in Hb0. split; [congruence|reflexivity].
    + (* cg_func *)
      intros flv e s s' fi H. cbn [cg_func] in H. destruct e; try discriminate.
      destruct (negb (Nat.eqb (length pars) (length parlocs))); [discriminate|].
      inv_bind H. inv_bind H. injection H as <- <-. cbn [f_loc exp_loc]. split; [|reflexivity].
      apply Hblk in Hb. destruct Hb as [H1 H2]. cbn [env esig map] in H1, H2.
      destruct (esig (env a)) as [|x E] eqn:Ea; [discriminate|]. cbn [tl] in H1. subst E.
      eapply pop_scope_esig; eauto.
    + (* cg_stat *)
      intros flv slv st s s' H. cbn [cg_stat] in H.
      destruct st; cbn [decl_locals]; try rewrite esig_adds_nil; try (injection H as <-; reflexivity).
      * (* SDo *) eapply scoped_esig; [|exact H]. intros s0 s1 H0. eapply Hblk; eauto.
      * (* SCall *) eapply Hnil; eauto.
      * (* SIf *)
        eapply (iter_res_inv (fun s0 => esig (env s0) = esig (env s))); [|reflexivity|exact H].
        intros [e0 b0] s0 s1 _ Hs0 H0. cbn [fst snd] in H0. inv_bind H0. apply Hnil in Hb.
        apply scoped_esig in H0; [congruence|]. intros s2 s3 H2. eapply Hblk; eauto.
      * (* SWhile *)
        inv_bind H. apply Hnil in Hb. apply scoped_esig in H; [congruence|]. intros s2 s3 H2. eapply Hblk; eauto.
      * (* SRepeat *)
        eapply scoped_esig; [|exact H]. intros s0 s1 H0. inv_bind H0. apply Hblk in Hb. apply Hnil in H0.
        rewrite H0. exact Hb.
      * (* SForNum *)
        eapply scoped_esig; [|exact H]. intros s0 s1 H0. inv_bind H0. inv_bind H0. inv_bind H0.
        apply Hnil in Hb. apply Hnil in Hb0. apply Hnil in Hb1. apply Hblk in H0.
        eapply tl_eq_trans; [exact H0|]. rewrite esig_add_loc_var.
        eapply tl_eq_trans; [apply esig_adds_tl_eq|]. apply tl_eq_of_eq. congruence.
      * (* SForIn *)
        eapply scoped_esig; [|exact H]. intros s0 s1 H0. inv_bind H0. apply Hnils in Hb. apply Hblk in H0.
        eapply tl_eq_trans; [exact H0|]. rewrite add_plain_locals_sig.
        eapply tl_eq_trans; [apply esig_adds_tl_eq|]. apply tl_eq_of_eq. exact Hb.
      * (* SAssign *) eapply cg_assign_sig; [apply IHe | exact H].
      * (* SLocal *) eapply cg_local_sig; [apply IHe | exact H].
      * (* SLocalFunc *)
        destruct f; try discriminate. inv_bind H. destruct a as [s1 fi]. injection H as <-.
        apply IHf in Hb. destruct Hb as [Hb _]. rewrite Hb, esig_add_loc_var. reflexivity.
    + (* cg_block *)
      intros flv slv b s s' H. cbn [cg_block] in H. destruct b as [stats ret l]. cbn [block_stats].
      inv_bind H. apply (iter_stats_sig _ _ _ _ (IHs flv slv)) in Hb.
      destruct ret as [es|]; [|injection H as <-; exact Hb]. apply Hnils in H. congruence.
Qed.

(* ------------------------------------------------------------------ reading the signature of the main scope *)
Definition last_opt {A} (l : list A) : option A := match rev l with x :: _ => Some x | [] => None end.

Definition decls_named (nm : bytes) (ds : list (bytes * vsig)) : list vsig :=
  map snd (filter (fun d => beq_bytes nm (fst d)) ds).

Lemma bb_refl : forall a, beq_bytes a a = true.
Proof. intros a. apply beq_bytes_eq. reflexivity. Qed.

Lemma assoc_get_set_same : forall {A} k (a : A) l, assoc_get k (assoc_set k a l) = Some a.
Proof.
  intros A k a l. induction l as [|[k' a'] l IH]; cbn [assoc_set assoc_get]; [rewrite bb_refl; reflexivity|].
  destruct (beq_bytes k k') eqn:E; cbn [assoc_get]; rewrite E; [reflexivity | exact IH].
Qed.

Lemma assoc_get_set_other : forall {A} k k' (a : A) l, beq_bytes k k' = false -> assoc_get k (assoc_set k' a l) = assoc_get k l.
Proof.
  intros A k k' a l Hne. induction l as [|[k0 a0] l IH]; cbn [assoc_set assoc_get].
  - rewrite Hne. reflexivity.
  - destruct (beq_bytes k' k0) eqn:E; cbn [assoc_get].
    + apply beq_bytes_eq in E. subst k0. rewrite Hne. reflexivity.
    + destruct (beq_bytes k k0); [reflexivity | exact IH].
Qed.

Definition got (o : option (list vsig)) : list vsig := match o with Some xs => xs | None => [] end.

Lemma sig_adds_get : forall ds sg nm,
    got (assoc_get nm (sig_adds ds sg)) = got (assoc_get nm sg) ++ decls_named nm ds.
Proof.
  induction ds as [|[k x] ds IH]; intros sg nm; cbn [sig_adds fold_left decls_named filter map].
  - rewrite app_nil_r. reflexivity.
  - change (fold_left (fun g d => sig_add d g) ds (sig_add (k, x) sg)) with (sig_adds ds (sig_add (k, x) sg)).
    rewrite IH. unfold sig_add. cbn [fst snd]. destruct (beq_bytes nm k) eqn:E.
    + apply beq_bytes_eq in E. subst k. rewrite assoc_get_set_same. cbn [map snd got].
      destruct (assoc_get nm sg); cbn [got]; [rewrite <- app_assoc|]; reflexivity.
    + rewrite (assoc_get_set_other _ _ _ _ E). reflexivity.
Qed.

Lemma assoc_get_key : forall {A} k (l : list (bytes * A)) a, assoc_get k l = Some a -> In (k, a) l.
Proof.
  intros A k l. induction l as [|[k' a'] l IH]; intros a H; cbn [assoc_get] in H; [discriminate|].
  destruct (beq_bytes k k') eqn:E.
  - apply beq_bytes_eq in E. subst k'. injection H as <-. left; reflexivity.
  - right. apply IH. exact H.
Qed.

Lemma last_opt_map : forall {A B} (g : A -> B) l, last_opt (map g l) = option_map g (last_opt l).
Proof. intros A B g l. unfold last_opt. rewrite <- map_rev. destruct (rev l); reflexivity. Qed.

(* the top-level `local` declarations of a file *)
Definition top_locals (b : block) : list (bytes * vsig) := flat_map decl_locals (block_stats b).

Lemma local_sigs_param : forall nms ls es d, In d (local_sigs nms ls es) -> snd (fst (snd d)) = false.
Proof.
  induction nms as [|nm nms IH]; intros ls es d H; cbn [local_sigs] in H; [destruct H|].
  destruct ls as [|l ls]; [destruct H|]. destruct H as [<-|H]; [reflexivity | eapply IH; exact H].
Qed.

Lemma top_locals_param : forall b nm x, In x (decls_named nm (top_locals b)) -> snd (fst x) = false.
Proof.
  intros b nm x H. unfold decls_named in H. apply in_map_iff in H. destruct H as [d [<- H]].
  apply filter_In in H. destruct H as [H _]. unfold top_locals in H. apply in_flat_map in H. destruct H as [st [_ H]].
  destruct st; cbn [decl_locals] in H; try contradiction.
  - eapply local_sigs_param; exact H.
  - destruct H as [<-|[]]; reflexivity.
Qed.

Theorem main_scope_sig : forall n b st,
    analyse n b = Ok st -> esig (env st) = [sig_adds (top_locals b) []].
Proof.
  intros n b st H. unfold analyse in H. destruct (all_sig n) as [_ [_ [_ Hb]]]. apply Hb in H. exact H.
Qed.

(* every top-level `local` declaration has its own entry (repaired code: one entry per declaration) *)
Theorem outline_top_local : forall fx n b st nm l ofl,
    fx_alldecl fx = true ->
    analyse n b = Ok st ->
    In (l, false, ofl) (decls_named nm (top_locals b)) ->
    exists s, In s (find_all_symbol fx (finalize st)) /\
              s_local s = true /\ s_undecl s = false /\ s_key s = nm /\ s_decl s = l /\ s_fn s = is_some ofl /\
              (forall fl, ofl = Some fl -> s_loc s = fn_range fx fl l).
Proof.
  intros fx n b st nm l ofl Hfx Ha Hin. pose proof (main_scope_sig _ _ _ Ha) as Hsig.
  destruct (env st) as [|fr rest] eqn:Ee; [discriminate|]. cbn [esig map] in Hsig. injection Hsig as Hfr Hrest.
  assert (Hget : got (assoc_get nm (fsig fr)) = decls_named nm (top_locals b)).
  { rewrite Hfr, sig_adds_get. reflexivity. }
  unfold fsig in Hget. rewrite (assoc_get_map (map vsig_of)) in Hget.
  destruct (assoc_get nm (s_vars fr)) as [vs|] eqn:Eg; cbn [option_map got] in Hget;
    [|rewrite <- Hget in Hin; destruct Hin].
  rewrite <- Hget in Hin. apply in_map_iff in Hin. destruct Hin as [v [Hv Hvin]].
  unfold vsig_of in Hv. injection Hv as Hl Hp Hf.
  exists (var_sym fx true nm v).
  split; [|rewrite var_sym_local, var_sym_undecl, var_sym_key, var_sym_decl, var_sym_fn; repeat split; auto].
  - unfold find_all_symbol. apply in_or_app. left. rewrite finalize_main_scope. unfold main_scope. rewrite Ee.
    destruct fr as [f vars subs]. rewrite find_all_local_unfold. apply in_or_app. left.
    apply in_map_iff. exists (nm, v). split; [reflexivity|]. unfold listed_locals. apply in_flat_map.
    exists (nm, vs). split; [apply assoc_get_key; exact Eg|]. cbn [fst snd].
    apply in_map. unfold listed_of. rewrite Hfx. apply filter_In. split; [exact Hvin|]. rewrite Hp. reflexivity.
  - rewrite <- Hf. destruct (v_func v); reflexivity.
  - intros fl Hfl. subst ofl. destruct (v_func v) as [fi|] eqn:Efn; [|discriminate].
    cbn [option_map] in Hfl. injection Hfl as Hfl. rewrite (var_sym_fn_loc fx true nm v fi Efn), Hfl, Hl. reflexivity.
Qed.
