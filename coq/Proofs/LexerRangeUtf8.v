(* C04, part (a): Go's rune counting on valid UTF-8, and where ASCII bytes sit in an encoded text.
   - rune_len / rune_count (utf8.RuneCountInString) of the encoding of scalar values = number of code points;
   - conv_rune_count = number of code points when there is no two-byte character (the UTF-8 detector accepts);
   - an ASCII byte of `utf8_of post` sits at a code-point boundary (multi-byte encodings consist of bytes >= 128). *)
From Coq Require Import List NArith ZArith Bool Lia ZifyN ZifyNat ZifyBool.
From LH Require Import Base.Bytes Base.Utf8 Model.Codec Model.Lexer Proofs.CodecProofs.
Import ListNotations.
Local Open Scope N_scope.

(* ------------------------------------------------------------------ rune_len on one encoded scalar value *)
Ltac Zify.zify_post_hook ::= Z.to_euclidean_division_equations.

Lemma rune_len_enc c rest : scalar c = true -> rune_len (utf8_encode c ++ rest) = length (utf8_encode c).
Proof.
  unfold scalar, utf8_encode. intros Hs.
  destruct (c <? 128) eqn:E1.
  { cbn [app rune_len length]. rewrite E1. reflexivity. }
  destruct (c <? 2048) eqn:E2.
  { cbn [app rune_len length]. unfold in_rng, cont.
    replace (192 + c / 64 <? 128) with false by lia.
    replace ((194 <=? 192 + c / 64) && (192 + c / 64 <=? 223)) with true by lia.
    unfold in_rng. replace ((128 <=? 128 + c mod 64) && (128 + c mod 64 <=? 191)) with true by lia. reflexivity. }
  destruct (c <? 65536) eqn:E3.
  { cbn [app rune_len length]. unfold in_rng, cont.
    replace (224 + c / 4096 <? 128) with false by lia.
    replace ((194 <=? 224 + c / 4096) && (224 + c / 4096 <=? 223)) with false by lia.
    replace ((224 <=? 224 + c / 4096) && (224 + c / 4096 <=? 239)) with true by lia.
    unfold in_rng.
    destruct (224 + c / 4096 =? 224) eqn:A; destruct (224 + c / 4096 =? 237) eqn:B;
    match goal with |- (if ?x then _ else _) = _ => replace x with true by lia end; reflexivity. }
  cbn [app rune_len length]. unfold in_rng, cont.
  replace (240 + c / 262144 <? 128) with false by lia.
  replace ((194 <=? 240 + c / 262144) && (240 + c / 262144 <=? 223)) with false by lia.
  replace ((224 <=? 240 + c / 262144) && (240 + c / 262144 <=? 239)) with false by lia.
  replace ((240 <=? 240 + c / 262144) && (240 + c / 262144 <=? 244)) with true by lia.
  unfold in_rng.
  destruct (240 + c / 262144 =? 240) eqn:A; destruct (240 + c / 262144 =? 244) eqn:B;
  match goal with |- (if ?x then _ else _) = _ => replace x with true by lia end; reflexivity.
Qed.

(* the only scalar value whose encoding starts EF BB BF is U+FEFF *)
Lemma cons_eq {A} (a b : A) l m : a :: l = b :: m -> a = b /\ l = m.
Proof. intros H. inversion H. split; reflexivity. Qed.

Lemma enc_bom c rest t : utf8_encode c ++ rest = 239 :: 187 :: 191 :: t -> c = 65279.
Proof.
  unfold utf8_encode.
  destruct (c <? 128) eqn:E1; [cbn [app]; intros H; apply cons_eq in H as [H _]; lia|].
  destruct (c <? 2048) eqn:E2; [cbn [app]; intros H; apply cons_eq in H as [H _]; lia|].
  destruct (c <? 65536) eqn:E3; cbn [app]; intros H.
  - apply cons_eq in H as [H1 H]. apply cons_eq in H as [H2 H]. apply cons_eq in H as [H3 _]. lia.
  - apply cons_eq in H as [H1 _]. lia.
Qed.

Ltac Zify.zify_post_hook ::= idtac.

(* ------------------------------------------------------------------ shapes of an encoding *)
Lemma enc_ascii c : c < 128 -> utf8_encode c = [c].
Proof. intros H. unfold utf8_encode. replace (c <? 128) with true by lia. reflexivity. Qed.

Lemma enc_cons c : exists b t, utf8_encode c = b :: t.
Proof.
  unfold utf8_encode. destruct (c <? 128); [eauto|]. destruct (c <? 2048); [eauto|].
  destruct (c <? 65536); eauto.
Qed.

Lemma enc_high c : 128 <= c -> Forall (fun b => 128 <= b) (utf8_encode c).
Proof.
  intros H. unfold utf8_encode. replace (c <? 128) with false by lia.
  destruct (c <? 2048); [repeat constructor; lia|]. destruct (c <? 65536); repeat constructor; lia.
Qed.

Lemma utf8_of_cons c l : utf8_of (c :: l) = utf8_encode c ++ utf8_of l.
Proof. reflexivity. Qed.

Lemma utf8_of_app a b : utf8_of (a ++ b) = utf8_of a ++ utf8_of b.
Proof. unfold utf8_of. apply flat_map_app. Qed.

Lemma utf8_of_ascii l : forallb (fun c => c <? 128) l = true -> utf8_of l = l.
Proof.
  induction l as [|c l IH]; cbn [forallb]; [reflexivity|]. intros H. apply andb_true_iff in H as [H1 H2].
  rewrite utf8_of_cons, enc_ascii by lia. cbn [app]. rewrite IH by exact H2. reflexivity.
Qed.

(* ------------------------------------------------------------------ rune_count *)
Lemma rune_count_f_utf8 l : forallb scalar l = true ->
  forall fuel acc, (length (utf8_of l) <= fuel)%nat ->
  rune_count_f fuel (utf8_of l) acc = (acc + Z.of_nat (length l))%Z.
Proof.
  induction l as [|c l IH]; intros Hs fuel acc Hf.
  - destruct fuel; cbn [utf8_of flat_map rune_count_f length]; lia.
  - cbn [forallb] in Hs. apply andb_true_iff in Hs as [Hc Hs].
    rewrite utf8_of_cons in *. rewrite app_length in Hf.
    destruct (enc_cons c) as (b & t & Eb).
    destruct fuel as [|f]; [rewrite Eb in Hf; cbn [length] in Hf; lia|].
    cbn [rune_count_f]. rewrite (rune_len_enc c _ Hc).
    assert (Esk : skipn (length (utf8_encode c)) (utf8_encode c ++ utf8_of l) = utf8_of l).
    { rewrite skipn_app, skipn_all, Nat.sub_diag. reflexivity. }
    rewrite Esk. rewrite Eb at 1. cbn [app].
    rewrite IH; [cbn [length]; lia|exact Hs|]. rewrite Eb in Hf. cbn [length] in Hf. lia.
Qed.

Theorem rune_count_utf8 l : forallb scalar l = true -> rune_count (utf8_of l) = Z.of_nat (length l).
Proof. intros H. unfold rune_count. rewrite rune_count_f_utf8; [lia|exact H|lia]. Qed.

Theorem conv_rune_count_utf8 gbk l :
  forallb scalar l = true -> existsb is_two_byte l = false ->
  conv_rune_count gbk (utf8_of l) = Z.of_nat (length l).
Proof.
  intros Hs H2. unfold conv_rune_count.
  destruct (utf8_of l) as [|b t] eqn:E.
  - destruct l as [|c l]; [reflexivity|]. rewrite utf8_of_cons in E. destruct (enc_cons c) as (b & t & Eb).
    rewrite Eb in E. discriminate.
  - rewrite <- E. rewrite is_utf8_no_two_byte by assumption. apply rune_count_utf8, Hs.
Qed.

(* ------------------------------------------------------------------ ASCII bytes sit at boundaries *)
Lemma nth_error_enc_high c k b : 128 <= c -> nth_error (utf8_encode c) k = Some b -> 128 <= b.
Proof.
  intros Hc Hn. pose proof (enc_high c Hc) as Hf. rewrite Forall_forall in Hf. apply Hf.
  eapply nth_error_In, Hn.
Qed.

Lemma ascii_at_boundary : forall post k b, nth_error (utf8_of post) k = Some b -> b < 128 ->
  exists blk post', post = blk ++ b :: post' /\ length (utf8_of blk) = k.
Proof.
  induction post as [|c post IH]; intros k b Hn Hb.
  - destruct k; discriminate.
  - rewrite utf8_of_cons in Hn.
    destruct (lt_dec k (length (utf8_encode c))) as [Hlt|Hge].
    + rewrite nth_error_app1 in Hn by exact Hlt.
      destruct (N.ltb_spec c 128) as [Hc|Hc].
      * rewrite enc_ascii in Hn, Hlt by exact Hc. cbn [length] in Hlt.
        assert (k = 0%nat) by lia. subst k. cbn [nth_error] in Hn. injection Hn as ->.
        exists [], post. split; reflexivity.
      * pose proof (nth_error_enc_high _ _ _ Hc Hn). lia.
    + rewrite nth_error_app2 in Hn by lia.
      destruct (IH _ _ Hn Hb) as (blk & post' & -> & Hl).
      exists (c :: blk), post'. split; [reflexivity|]. rewrite utf8_of_cons, app_length. lia.
Qed.

(* a byte of the encoding that is < 128 is a code point of the text *)
Lemma ascii_byte_in post b : In b (utf8_of post) -> b < 128 -> In b post.
Proof.
  intros Hin Hb. apply In_nth_error in Hin as [k Hk].
  destruct (ascii_at_boundary _ _ _ Hk Hb) as (blk & post' & -> & _). apply in_or_app. right. left. reflexivity.
Qed.

Lemma in_utf8_of c l : In c l -> c < 128 -> In c (utf8_of l).
Proof.
  intros Hin Hc. apply in_split in Hin as (a & b & ->). rewrite utf8_of_app, utf8_of_cons, enc_ascii by exact Hc.
  apply in_or_app. right. left. reflexivity.
Qed.

(* split of the byte text at an ASCII byte *)
Lemma split_at_ascii post k b : nth_error (utf8_of post) k = Some b -> b < 128 ->
  exists blk post', post = blk ++ b :: post' /\ utf8_of blk = firstn k (utf8_of post) /\
                    b :: utf8_of post' = skipn k (utf8_of post).
Proof.
  intros Hn Hb. destruct (ascii_at_boundary _ _ _ Hn Hb) as (blk & post' & -> & Hl).
  exists blk, post'. split; [reflexivity|].
  rewrite utf8_of_app, utf8_of_cons, enc_ascii by exact Hb. cbn [app]. subst k.
  rewrite firstn_app, firstn_all, Nat.sub_diag, skipn_app, skipn_all, Nat.sub_diag. cbn [firstn skipn app].
  rewrite app_nil_r. split; reflexivity.
Qed.

(* ------------------------------------------------------------------ plain prefixes (ASCII, no line end) *)
Definition plain (b : N) : bool := (b <? 128) && negb (is_newline b).

Definition PlainTo (ch : list N) (n : nat) : Prop :=
  forall k, (k < n)%nat -> exists b, nth_error ch k = Some b /\ plain b = true.

Lemma PlainTo_0 ch : PlainTo ch 0. Proof. intros k Hk. lia. Qed.

Lemma PlainTo_S ch n b : PlainTo ch n -> nth_error ch n = Some b -> plain b = true -> PlainTo ch (S n).
Proof.
  intros Hp Hn Hb k Hk. destruct (Nat.eq_dec k n) as [->|Hne]; [eauto|]. apply Hp. lia.
Qed.

Lemma PlainTo_le ch n m : PlainTo ch n -> (m <= n)%nat -> PlainTo ch m.
Proof. intros Hp Hle k Hk. apply Hp. lia. Qed.

Lemma plain_prefix : forall n post, PlainTo (utf8_of post) n ->
  exists blk post', post = blk ++ post' /\ blk = firstn n (utf8_of post) /\ utf8_of blk = blk /\
                    utf8_of post' = skipn n (utf8_of post) /\ length blk = n /\ forallb plain blk = true.
Proof.
  induction n as [|n IH]; intros post Hp.
  - exists [], post. repeat split.
  - destruct (Hp 0%nat ltac:(lia)) as (b & Hn & Hb).
    assert (Hb128 : b < 128) by (unfold plain in Hb; lia).
    destruct (split_at_ascii _ _ _ Hn Hb128) as (blk0 & post0 & -> & Hf & Hs).
    cbn [firstn] in Hf. destruct blk0 as [|x blk0].
    2:{ rewrite utf8_of_cons in Hf. destruct (enc_cons x) as (y & t & Ey). rewrite Ey in Hf. discriminate. }
    cbn [app] in *. clear Hf Hs Hn.
    rewrite utf8_of_cons, enc_ascii in Hp by exact Hb128. cbn [app] in Hp.
    assert (Hp' : PlainTo (utf8_of post0) n).
    { intros k Hk. destruct (Hp (S k) ltac:(lia)) as (b' & Hn' & Hb'). cbn [nth_error] in Hn'. eauto. }
    destruct (IH _ Hp') as (blk & post' & -> & Eb & Eu & Es & El & Ef).
    exists (b :: blk), post'. rewrite utf8_of_cons, enc_ascii by exact Hb128. cbn [app firstn skipn length forallb].
    rewrite utf8_of_app in Eb |- *. rewrite <- Eb. rewrite utf8_of_app in Es. rewrite Hb, Ef, El.
    rewrite utf8_of_cons, enc_ascii, Eu by exact Hb128. repeat split. rewrite Eu in Es. exact Es.
Qed.

Lemma plain_not_nl blk c : forallb plain blk = true -> In c blk -> c < 128 /\ c <> 10 /\ c <> 13.
Proof.
  intros Hf Hin. rewrite forallb_forall in Hf. apply Hf in Hin. unfold plain, is_newline in Hin. lia.
Qed.
