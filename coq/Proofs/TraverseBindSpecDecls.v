(* Two facts about the reference binder of Spec/LuaScope.v itself (no model involved), for EVERY chunk:
   - a declaration occurrence is bound to its own Loc;
   - every local binding of the chunk points at the Loc of a declaration occurrence of the chunk.
   They make the guard `decl_self_ok` of Proofs/TraverseBindRefs.v unconditional. *)
From Coq Require Import List NArith ZArith Bool Lia.
From LH Require Import Base.Bytes Model.Lexer Model.Ast Model.Scope Model.Globals Model.Resolve Spec.LuaScope
  Proofs.TraverseBindDefs Proofs.TraverseBindSim Proofs.TraverseBindLoops Proofs.TraverseBindLocal
  Proofs.TraverseBindRefs.
Import ListNotations.
Local Open Scope Z_scope.

Definition elocs (en : env) : list (list N * loc) := map fst en.
Definition dl (os : list socc) : list (list N * loc) :=
  map (fun s => (s_name s, s_loc s)) (filter (fun s => is_decl (s_role s)) os).

Definition GoodOcc (D : list (list N * loc)) (s : socc) : Prop :=
  (is_decl (s_role s) = true -> s_bind s = BLocal (s_loc s)) /\ (forall d, s_bind s = BLocal d -> In (s_name s, d) D).
Definition Good (D : list (list N * loc)) (os : list socc) : Prop := Forall (GoodOcc D) os.
(* the occurrences os, produced in environment en, only point into en or at their own declarations *)
Definition GoodIn (en : env) (os : list socc) : Prop := Good (elocs en ++ dl os) os.

Lemma dl_app a b : dl (a ++ b) = dl a ++ dl b.
Proof. unfold dl. rewrite filter_app, map_app. reflexivity. Qed.

Lemma dl_tag_if c t os : dl (tag_if c t os) = dl os.
Proof.
  unfold dl, tag_if. induction os as [|o r IH]; [reflexivity|]. cbn [map filter].
  destruct (c o); cbn [add_tag s_role s_loc s_name]; destruct (is_decl (s_role o)); cbn [map]; rewrite IH; reflexivity.
Qed.

Lemma Good_mono D D' os : incl D D' -> Good D os -> Good D' os.
Proof.
  intros Hi H. unfold Good in *. eapply Forall_impl; [|exact H]. intros s [H1 H2]. split; [exact H1|].
  intros d Hd. apply Hi. apply H2. exact Hd.
Qed.

Lemma Good_tag_if D c t os : Good D os -> Good D (tag_if c t os).
Proof.
  unfold Good, tag_if. intros H. induction H as [|o r Ho Hr IH]; [constructor|]. cbn [map].
  constructor; [|exact IH]. destruct (c o); exact Ho.
Qed.

Lemma GoodIn_tag_if en c t os : GoodIn en os -> GoodIn en (tag_if c t os).
Proof. unfold GoodIn. intros H. rewrite dl_tag_if. apply Good_tag_if. exact H. Qed.

Lemma incl_mid {A} (E a b : list A) : incl (E ++ a) (E ++ a ++ b).
Proof. intros x Hx. apply in_app_or in Hx. apply in_or_app. destruct Hx; [left|right; apply in_or_app; left]; assumption. Qed.
Lemma incl_mid_r {A} (E a b : list A) : incl (E ++ b) (E ++ a ++ b).
Proof. intros x Hx. apply in_app_or in Hx. apply in_or_app. destruct Hx; [left|right; apply in_or_app; right]; assumption. Qed.

Lemma GoodIn_app en a b : GoodIn en a -> GoodIn en b -> GoodIn en (a ++ b).
Proof.
  unfold GoodIn, Good. intros Ha Hb. rewrite dl_app. apply Forall_app. split.
  - exact (Good_mono _ _ _ (incl_mid _ _ _) Ha).
  - exact (Good_mono _ _ _ (incl_mid_r _ _ _) Hb).
Qed.

Lemma GoodIn_nil en : GoodIn en [].
Proof. constructor. Qed.

Lemma GoodIn_flat_map {A} en (f : A -> list socc) xs : (forall x, In x xs -> GoodIn en (f x)) -> GoodIn en (flat_map f xs).
Proof.
  induction xs as [|x r IH]; intros H; [apply GoodIn_nil|]. cbn [flat_map]. apply GoodIn_app.
  - apply H. left. reflexivity.
  - apply IH. intros y Hy. apply H. right. exact Hy.
Qed.

Lemma GoodIn_concat_index {A} en (f : nat -> A -> list socc) : forall xs k,
  (forall i x, In x xs -> GoodIn en (f i x)) -> GoodIn en (concat (index_map f k xs)).
Proof.
  induction xs as [|x r IH]; intros k H; [apply GoodIn_nil|]. cbn [index_map concat]. apply GoodIn_app.
  - apply H. left. reflexivity.
  - apply IH. intros i y Hy. apply H. right. exact Hy.
Qed.

Lemma resolve_in_elocs en n d : resolve en n = BLocal d -> In (n, d) (elocs en).
Proof.
  unfold resolve, env_find. destruct (find (fun x => beq_bytes (fst (fst x)) n) en) as [[[a d'] f]|] eqn:E; [|discriminate].
  intros H. injection H as <-. apply find_some in E. destruct E as [Hin Hb]. cbn in Hb. apply beq_bytes_eq in Hb. subst a.
  unfold elocs. apply in_map_iff. exists (n, d', f). split; [reflexivity|exact Hin].
Qed.

Lemma GoodIn_use en l n r flv slv reg tg envf :
  r <> RDecl -> GoodIn en [mkS l n (resolve en n) r flv slv reg false tg envf].
Proof.
  intros Hr. constructor; [|constructor]. split.
  - cbn. destruct r; try discriminate. contradiction.
  - cbn [s_bind]. intros d Hd. apply in_or_app. left. exact (resolve_in_elocs en n d Hd).
Qed.

Lemma dl_decls en flv slv reg e pl : dl (map (decl_occ en flv slv reg e) pl) = pl.
Proof. unfold dl. induction pl as [|[n l] r IH]; [reflexivity|]. cbn. rewrite IH. reflexivity. Qed.

Lemma elocs_push_decls nls emp en : incl (elocs (push_decls en nls emp)) (nls ++ elocs en).
Proof.
  rewrite push_decls_rev. unfold elocs. rewrite map_app. intros d Hd.
  apply in_app_or in Hd. apply in_or_app. destruct Hd as [Hd|Hd]; [left|right; exact Hd].
  apply in_map_iff in Hd. destruct Hd as [[[n l] f] [Hl Hin]]. cbn in Hl. subst d.
  apply in_rev in Hin. apply in_combine_l in Hin. exact Hin.
Qed.

(* declarations followed by a body evaluated under them *)
Lemma GoodIn_scope en flv slv reg e pl emp body :
  GoodIn (push_decls en pl emp) body -> GoodIn en (map (decl_occ en flv slv reg e) pl ++ body).
Proof.
  unfold GoodIn, Good. intros Hb. rewrite dl_app, dl_decls. apply Forall_app. split.
  - apply Forall_forall. intros s Hs. apply in_map_iff in Hs. destruct Hs as [p [<- Hp]].
    split; [reflexivity|]. cbn. intros d Hd. injection Hd as <-.
    apply in_or_app. right. apply in_or_app. left. destruct p as [n0 l0]. exact Hp.
  - eapply Good_mono; [|exact Hb]. intros d Hd. apply in_app_or in Hd. destruct Hd as [Hd|Hd].
    + apply elocs_push_decls in Hd. apply in_app_or in Hd. apply in_or_app.
      destruct Hd as [Hd|Hd]; [right; apply in_or_app; left; exact Hd|left; exact Hd].
    + apply in_or_app. right. apply in_or_app. right. exact Hd.
Qed.

(* the environment a statement returns only adds declarations listed in its output *)
Definition EnvOK (en en' : env) (os : list socc) : Prop := incl (elocs en') (elocs en ++ dl os).

Lemma GoodIn_env en en' os1 os2 : EnvOK en en' os1 -> GoodIn en' os2 -> GoodIn en os1 -> GoodIn en (os1 ++ os2).
Proof.
  unfold GoodIn, Good, EnvOK. intros He H2 H1. rewrite dl_app. apply Forall_app. split.
  - exact (Good_mono _ _ _ (incl_mid _ _ _) H1).
  - eapply Good_mono; [|exact H2]. intros d Hd. apply in_app_or in Hd. destruct Hd as [Hd|Hd].
    + apply He in Hd. apply incl_mid. exact Hd.
    + apply incl_mid_r. apply in_or_app. right. exact Hd.
Qed.

Lemma EnvOK_refl en os : EnvOK en en os.
Proof. intros d Hd. apply in_or_app. left. exact Hd. Qed.
Lemma EnvOK_trans en en1 en2 os1 os2 : EnvOK en en1 os1 -> EnvOK en1 en2 os2 -> EnvOK en en2 (os1 ++ os2).
Proof.
  unfold EnvOK. intros H1 H2 d Hd. rewrite dl_app. apply H2 in Hd. apply in_app_or in Hd. destruct Hd as [Hd|Hd].
  - apply H1 in Hd. apply incl_mid. exact Hd.
  - apply incl_mid_r. apply in_or_app. right. exact Hd.
Qed.

(* ------------------------------------------------------------------ the statements *)
Definition GE (e : exp) : Prop := forall flv slv reg en, GoodIn en (b_exp flv slv reg e en).
Definition GS (s : stat) : Prop :=
  forall flv slv reg en, GoodIn en (snd (b_stat flv slv reg s en)) /\
                         EnvOK en (fst (b_stat flv slv reg s en)) (snd (b_stat flv slv reg s en)).
Definition GB (b : block) : Prop :=
  forall flv slv reg en, GoodIn en (snd (b_block flv slv reg b en)) /\
                         EnvOK en (fst (b_block flv slv reg b en)) (snd (b_block flv slv reg b en)).

Lemma exps_good flv slv reg en es : Forall GE es -> GoodIn en (flat_map (fun e => b_exp flv slv reg e en) es).
Proof. intros H. apply GoodIn_flat_map. intros e He. rewrite Forall_forall in H. apply H. exact He. Qed.

Lemma stats_good flv slv reg : forall ss en,
  Forall GS ss ->
  GoodIn en (snd (seq_stats (map (fun s => b_stat flv slv reg s) ss) en)) /\
  EnvOK en (fst (seq_stats (map (fun s => b_stat flv slv reg s) ss) en))
        (snd (seq_stats (map (fun s => b_stat flv slv reg s) ss) en)).
Proof.
  induction ss as [|s r IH]; intros en Hall.
  - split; [apply GoodIn_nil|apply EnvOK_refl].
  - inversion Hall as [|? ? Hs Hr]; subst. cbn [map]. rewrite seq_stats_cons. cbn [fst snd].
    destruct (Hs flv slv reg en) as [A1 A2]. destruct (IH (fst (b_stat flv slv reg s en)) Hr) as [B1 B2].
    split; [exact (GoodIn_env _ _ _ _ A2 B1 A1)|exact (EnvOK_trans _ _ _ _ _ A2 B2)].
Qed.

Theorem good_all : (forall e, GE e) /\ (forall s, GS s) /\ (forall b, GB b).
Proof.
  apply tb_ast_ind; unfold GE, GS, GB.
  - intros; apply GoodIn_nil.
  - intros; apply GoodIn_nil.
  - intros; apply GoodIn_nil.
  - intros; apply GoodIn_nil.
  - intros; apply GoodIn_nil.
  - intros; apply GoodIn_nil.
  - intros; apply GoodIn_nil.
  - intros; apply GoodIn_nil.
  - (* EName *) intros n l flv slv reg en. apply GoodIn_use. discriminate.
  - intros o x l IH flv slv reg en. exact (IH flv slv reg en).
  - intros o a b l IHa IHb flv slv reg en. cbn [b_exp]. apply GoodIn_app; [apply IHa|apply IHb].
  - intros x l IH flv slv reg en. exact (IH flv slv reg en).
  - intros p k l IHp IHk flv slv reg en. cbn [b_exp]. apply GoodIn_app; [apply IHp|apply IHk].
  - (* ECall *) intros p nm args l IHp IHa flv slv reg en. cbn [b_exp]. apply GoodIn_app; [apply IHp|apply exps_good; exact IHa].
  - (* ETable *) intros ks vs l IHk IHv flv slv reg en. cbn [b_exp]. apply GoodIn_app; [|apply exps_good; exact IHv].
    apply GoodIn_flat_map. intros k Hk. rewrite Forall_forall in IHk. specialize (IHk k Hk).
    destruct k as [k'|]; [apply IHk|apply GoodIn_nil].
  - (* EFunc *) intros c f ps pl b l va co IHb flv slv reg en. cbn [b_exp]. eapply GoodIn_scope. exact (proj1 (IHb _ _ _ _)).
  - intros flv slv reg en. split; [apply GoodIn_nil|apply EnvOK_refl].
  - intros n l flv slv reg en. split; [apply GoodIn_nil|apply EnvOK_refl].
  - intros n l flv slv reg en. split; [apply GoodIn_nil|apply EnvOK_refl].
  - (* SDo *) intros b l IHb flv slv reg en. cbn [b_stat fst snd]. split; [apply IHb|apply EnvOK_refl].
  - (* SCall *) intros e IHe flv slv reg en. cbn [b_stat fst snd]. split; [apply IHe|apply EnvOK_refl].
  - (* SIf *) intros es bs l IHe IHb flv slv reg en. cbn [b_stat fst snd]. split; [|apply EnvOK_refl].
    apply GoodIn_app; [apply exps_good; exact IHe|]. apply GoodIn_flat_map. intros b Hb.
    rewrite Forall_forall in IHb. apply IHb. exact Hb.
  - (* SWhile *) intros e b l IHe IHb flv slv reg en. cbn [b_stat fst snd]. split; [|apply EnvOK_refl].
    apply GoodIn_app; [apply IHe|apply IHb].
  - (* SRepeat *) intros b e l IHb IHe flv slv reg en. cbn [b_stat].
    destruct (IHb flv (slv + 1) l en) as [B1 B2].
    destruct (b_block flv (slv + 1) l b en) as [en1 os]. cbn [fst snd] in *. split; [|apply EnvOK_refl].
    exact (GoodIn_env _ _ _ _ B2 (IHe flv (slv + 1) l en1) B1).
  - (* SForNum *) intros n vl e1 e2 e3 b l IH1 IH2 IH3 IHb flv slv reg en. cbn [b_stat fst snd]. split; [|apply EnvOK_refl].
    apply GoodIn_app.
    + apply GoodIn_tag_if. apply GoodIn_app; [apply IH1|]. apply GoodIn_app; [apply IH2|apply IH3].
    + exact (GoodIn_scope en flv (slv + 1) l false [(n, vl)] [false] _ (proj1 (IHb flv (slv + 1) l _))).
  - (* SForIn *) intros ns ls es b l IHe IHb flv slv reg en. cbn [b_stat fst snd]. split; [|apply EnvOK_refl].
    apply GoodIn_app; [apply GoodIn_tag_if; apply exps_good; exact IHe|].
    eapply GoodIn_scope. exact (proj1 (IHb _ _ _ _)).
  - (* SAssign *) intros vars es l IHv IHe flv slv reg en. rewrite b_stat_assign_eq. cbn [fst snd].
    split; [|apply EnvOK_refl].
    assert (Hb4 : forall i os, GoodIn en os -> GoodIn en (b4f vars es en i os)).
    { intros i os Hos. unfold b4f. destruct (nth_error vars i) as [v|]; [|exact Hos]. destruct v; try exact Hos.
      destruct (nth_error es i) as [e|]; [|exact Hos].
      destruct (env_find en n) as [[[a d] f]|]; [|exact Hos]. destruct f; [|exact Hos].
      destruct (ref_of_exp e); try exact Hos; apply GoodIn_tag_if; exact Hos. }
    apply GoodIn_app.
    + apply GoodIn_concat_index. intros i v Hv. rewrite Forall_forall in IHv. specialize (IHv v Hv).
      destruct v; try apply GoodIn_nil.
      * apply Hb4. apply GoodIn_use. discriminate.
      * exact (IHv flv slv reg en).
    + apply GoodIn_concat_index. intros i eo Heo. apply Hb4. apply in_map_iff in Heo.
      destruct Heo as [e [<- He]]. cbn [snd]. rewrite Forall_forall in IHe. apply IHe. exact He.
  - (* SLocal *) intros ns ls ats es l IHe flv slv reg en. cbn [b_stat fst snd].
    assert (Hinit : GoodIn en (concat (index_map (fun i eo => tag_local_init en ns i (fst eo) (snd eo)) O
                                                 (map (fun e => (e, b_exp flv slv reg e en)) es)))).
    { apply GoodIn_concat_index. intros i eo Heo. apply in_map_iff in Heo. destruct Heo as [e [<- He]]. cbn [fst snd].
      unfold tag_local_init. rewrite Forall_forall in IHe. apply IHe. exact He. }
    set (pl := combine (combine ns ls) (local_empties ns es)).
    assert (Hdl : dl (map (fun x => decl_occ en flv slv reg (snd x) (fst x)) pl) = map fst pl).
    { unfold dl. induction pl as [|[[n0 l0] f0] r IH]; [reflexivity|]. cbn. rewrite IH. reflexivity. }
    split.
    + unfold GoodIn, Good. rewrite dl_app. apply Forall_app. split.
      * exact (Good_mono _ _ _ (incl_mid _ _ _) Hinit).
      * apply Forall_forall. intros s Hs. apply in_map_iff in Hs. destruct Hs as [p [<- Hp]].
        split; [reflexivity|]. cbn. intros d Hd. injection Hd as <-.
        apply in_or_app. right. apply in_or_app. right. rewrite Hdl.
        destruct p as [[n0 l0] f0]. exact (in_map fst pl _ Hp).
    + unfold EnvOK. intros d Hd. rewrite push_decls_rev in Hd. unfold elocs in Hd. rewrite map_app in Hd.
      apply in_app_or in Hd. rewrite dl_app. apply in_or_app. destruct Hd as [Hd|Hd]; [right|left; exact Hd].
      apply in_or_app. right. rewrite Hdl. rewrite map_rev in Hd. apply in_rev in Hd. exact Hd.
  - (* SLocalFunc *) intros n nl f l IHf flv slv reg en. cbn [b_stat fst snd]. split.
    + exact (GoodIn_scope en flv slv reg false [(n, nl)] [false] _ (IHf flv slv reg _)).
    + unfold EnvOK. intros d Hd. cbn in Hd. destruct Hd as [<-|Hd].
      * apply in_or_app. right. left. reflexivity.
      * apply in_or_app. left. exact Hd.
  - (* Block *) intros ss ret l IHs IHr flv slv reg en. cbn [b_block].
    destruct (stats_good flv slv reg ss en IHs) as [A1 A2].
    destruct (seq_stats (map (fun s => b_stat flv slv reg s) ss) en) as [en1 os]. cbn [fst snd] in *.
    destruct ret as [es|]; cbn [fst snd].
    + split.
      * exact (GoodIn_env _ _ _ _ A2 (exps_good flv slv reg en1 es IHr) A1).
      * unfold EnvOK in *. intros d Hd. apply A2 in Hd. rewrite dl_app. apply incl_mid. exact Hd.
    + split; assumption.
Qed.

(* ------------------------------------------------------------------ on whole chunks *)
Theorem bound_has_named_decl P o d :
  In o (bind_file P) -> s_bind o = BLocal d ->
  exists sd, In sd (bind_file P) /\ is_decl (s_role sd) = true /\ s_loc sd = d /\ s_name sd = s_name o /\
             s_bind sd = BLocal d.
Proof.
  intros Hin Hb. destruct good_all as [_ [_ HB]]. destruct (HB P 0 0 (block_loc P) []) as [Hg _].
  fold (bind_file P) in Hg. unfold GoodIn, Good in Hg. cbn [elocs map app] in Hg. rewrite Forall_forall in Hg.
  destruct (Hg o Hin) as [_ H2]. specialize (H2 d Hb). unfold dl in H2. apply in_map_iff in H2.
  destruct H2 as [sd [Hl Hsd]]. apply filter_In in Hsd. destruct Hsd as [Hsin Hdecl]. injection Hl as Hn Hl'.
  exists sd. repeat split; auto. destruct (Hg sd Hsin) as [H1 _]. rewrite (H1 Hdecl), Hl'. reflexivity.
Qed.

Lemma decl_occ_selfbound P s : In s (bind_file P) -> is_decl (s_role s) = true -> s_bind s = BLocal (s_loc s).
Proof.
  intros Hin Hd. destruct good_all as [_ [_ HB]]. destruct (HB P 0 0 (block_loc P) []) as [Hg _].
  fold (bind_file P) in Hg. unfold GoodIn, Good in Hg. rewrite Forall_forall in Hg. exact (proj1 (Hg s Hin) Hd).
Qed.

Theorem decl_self_always P o d :
  In o (bind_file P) -> s_bind o = BLocal d -> decl_self_ok (bind_file P) d = true.
Proof.
  intros Hin Hb. destruct (bound_has_named_decl P o d Hin Hb) as [sd [Hsin [Hdecl [Hl [_ Hsb]]]]].
  unfold decl_self_ok. apply andb_true_iff. split.
  - apply existsb_exists. exists sd. split; [exact Hsin|].
    rewrite Hdecl, Hsb, Hl, binding_eqb_refl, loc_eqb_refl. reflexivity.
  - apply forallb_forall. intros s Hs. destruct (is_decl (s_role s)) eqn:Ed; [|reflexivity].
    rewrite (decl_occ_selfbound P s Hs Ed). cbn [andb negb binding_eqb].
    destruct (loc_eqb (s_loc s) d); reflexivity.
Qed.
