(* The plain printer (no parentheses around an array inside an array: `T[][]`) is the canonical printer on every
   statement without a nested array; with a nested array the two texts differ, both are read back
   (Proofs/AnnStat.v).  Here: the documented rule TYPE[] applied n times to any documented type, as a text. *)
From Coq Require Import String Ascii List Arith NArith Bool Lia.
From LH Require Import Base.Bytes Base.Res Model.AnnLexer Model.AnnAst Model.AnnParser Spec.AnnGrammar
  Proofs.AnnRoundtrip Proofs.AnnStat Proofs.AnnPrinter.
Import ListNotations.

Lemma existsb_false_in {A} (p : A -> bool) l x : existsb p l = false -> In x l -> p x = false.
Proof.
  intros H Hin. destruct (p x) eqn:E; [|reflexivity].
  assert (existsb p l = true) by (apply existsb_exists; eauto). congruence.
Qed.

Lemma show_plain_eq : forall n t, tsize t <= n -> has_nested_array t = false -> show_bare false t = show_bare true t.
Proof.
  induction n as [|n IH]; intros t Hs Hn; [pose proof (tsize_pos t); lia|].
  destruct t as [nm|s q|i| |k v|ps rs|ts]; cbn [show_bare]; try reflexivity.
  - cbn [tsize has_nested_array] in Hs, Hn. apply orb_false_iff in Hn as [Ha Hn].
    unfold item_paren. rewrite Ha. cbn [andb]. rewrite (IH i ltac:(lia) Hn). reflexivity.
  - cbn [tsize has_nested_array] in Hs, Hn. apply orb_false_iff in Hn as [Hk Hv].
    rewrite (IH k ltac:(lia) Hk), (IH v ltac:(lia) Hv). reflexivity.
  - cbn [tsize has_nested_array] in Hs, Hn. apply orb_false_iff in Hn as [Hp Hr].
    f_equal. f_equal; [f_equal|f_equal].
    + apply map_ext_in. intros [[pn po] pot] Hin. destruct pot as [pt|]; [|reflexivity].
      pose proof (existsb_false_in _ _ _ Hp Hin) as Hpt. cbn beta iota in Hpt.
      pose proof (list_sum_in (fun p : bytes * bool * option dtype =>
                                 match p with (_, _, Some t) => S (tsize t) | _ => 1 end) _ _ Hin) as Hsz.
      cbn beta iota in Hsz. rewrite (IH pt ltac:(lia) Hpt). reflexivity.
    + destruct (is_nil rs); [reflexivity|]. f_equal. f_equal. apply map_ext_in. intros r Hin.
      pose proof (list_sum_in tsize _ _ Hin) as Hsz.
      rewrite (IH r ltac:(lia) (existsb_false_in _ _ _ Hr Hin)). reflexivity.
  - cbn [tsize has_nested_array] in Hs, Hn. f_equal. apply map_ext_in. intros m Hin.
    pose proof (list_sum_in tsize _ _ Hin) as Hsz.
    rewrite (IH m ltac:(lia) (existsb_false_in _ _ _ Hn Hin)). reflexivity.
Qed.

Lemma show_bare_plain t : has_nested_array t = false -> show_bare false t = show_bare true t.
Proof. apply (show_plain_eq (tsize t)). apply le_n. Qed.

Lemma show_sub_plain t : has_nested_array t = false -> show_sub false t = show_sub true t.
Proof. intros H. unfold show_sub. rewrite show_bare_plain by exact H. reflexivity. Qed.

Lemma show_tlist_plain {A} (pre : A -> bytes) ty post (l : list A) :
  existsb has_nested_array (map ty l) = false ->
  show_tlist false pre ty post l = show_tlist true pre ty post l.
Proof.
  induction l as [|a [|b l] IH]; intros H; [reflexivity| |].
  - cbn [show_tlist]. cbn [map existsb] in H. apply orb_false_iff in H as [H _].
    rewrite show_bare_plain by exact H. reflexivity.
  - cbn [map existsb] in H. apply orb_false_iff in H as [Ha Hr].
    change (show_tlist false pre ty post (a :: b :: l))
      with (pre a ++ show_sub false (ty a) ++ post a ++ t_comma ++ show_tlist false pre ty post (b :: l)).
    rewrite show_tlist_cons2. rewrite show_sub_plain by exact Ha. rewrite IH by exact Hr. reflexivity.
Qed.

Theorem show_line_plain_eq : forall s, stat_nested_array s = false -> show_line_plain s = show_line s.
Proof.
  intros s H. unfold show_line_plain, show_line, stat_nested_array in *.
  destruct s; cbn [show_stat stat_types] in *; try reflexivity.
  - rewrite show_tlist_plain by exact H. reflexivity.
  - cbn [existsb] in H. apply orb_false_iff in H as [H _]. rewrite show_bare_plain by exact H. reflexivity.
  - cbn [existsb] in H. apply orb_false_iff in H as [H _]. rewrite show_bare_plain by exact H. reflexivity.
  - cbn [existsb] in H. apply orb_false_iff in H as [H _]. rewrite show_bare_plain by exact H. reflexivity.
  - cbn [existsb] in H. apply orb_false_iff in H as [H _]. rewrite show_bare_plain by exact H. reflexivity.
  - rewrite show_tlist_plain by exact H. reflexivity.
  - cbn [existsb] in H. apply orb_false_iff in H as [H _]. rewrite show_bare_plain by exact H. reflexivity.
Qed.

(* ------------------------------------------------------------------ T[][]...[] of any depth *)
Fixpoint darrs (n : nat) (t : dtype) : dtype := match n with O => t | S n => DArray (darrs n t) end.

Lemma brs_snoc n : brs n ++ t_brackets = brs (S n).
Proof. induction n as [|n IH]; [reflexivity|]. cbn [brs] in *. rewrite <- app_assoc, IH. reflexivity. Qed.

(* the plain text of t with n + 1 array suffixes: t itself is parenthesised only when it is a union or a fun type *)
Lemma show_plain_darrs n t :
  show_type_plain (darrs (S n) t) = paren (item_paren false t) (show_type_plain t) ++ brs (S n).
Proof.
  unfold show_type_plain. induction n as [|n IH].
  - cbn [darrs show_bare brs]. rewrite app_nil_r. reflexivity.
  - change (darrs (S (S n)) t) with (DArray (darrs (S n) t)). cbn [show_bare].
    change (item_paren false (darrs (S n) t)) with false. cbn [paren].
    rewrite IH, <- app_assoc, brs_snoc. reflexivity.
Qed.

Lemma doc_type_darrs n t : doc_type (darrs n t) = doc_type t.
Proof. induction n as [|n IH]; [reflexivity|exact IH]. Qed.

(* `T[][]...[]` (n + 1 suffixes, any n, any documented T) is read as the (n+1)-dimensional array of T, nothing left *)
Theorem nested_array_depth : forall t n, doc_type t = true ->
  let txt := paren (item_paren false t) (show_type_plain t) ++ brs (S n) in
  exists a, parse_type (fuel_of txt) txt = Ok (inl (a, [])) /\ abs a = darrs (S n) t.
Proof.
  intros t n Hd txt. subst txt. rewrite <- show_plain_darrs.
  assert (Hd' : doc_type (darrs (S n) t) = true) by (rewrite doc_type_darrs; exact Hd).
  exists (embed_type_plain (darrs (S n) t)).
  split; [apply type_roundtrip_plain; exact Hd' | apply abs_embed_one_plain; exact Hd'].
Qed.
