(* C08 - file sets as strictly increasing lists (Model/Events.v fadd / frem / fset_of): membership, canonicity. *)
From Coq Require Import List NArith Bool Lia Sorted.
From LH Require Import Model.Diag Model.Events Proofs.DiagProofs.
Import ListNotations.
Local Open Scope N_scope.

Lemma fmem_in f l : fmem f l = true <-> In f l.
Proof. unfold fmem. apply existsb_eqb_in. Qed.

Lemma fmem_false f l : fmem f l = false <-> ~ In f l.
Proof. rewrite <- fmem_in. destruct (fmem f l); split; intros; congruence. Qed.

Lemma fadd_in x f l : In x (fadd f l) <-> x = f \/ In x l.
Proof.
  induction l as [|y r IH]; cbn [fadd In].
  - split; [intros [H|[]]; auto|intros [H|[]]; auto].
  - destruct (f <? y) eqn:E1; cbn [In].
    + split; [intros [H|[H|H]]; auto|intros [H|[H|H]]; auto].
    + destruct (f =? y) eqn:E2; cbn [In].
      * apply N.eqb_eq in E2. subst y. split; [auto|intros [H|H]; auto].
      * rewrite IH. split; [intros [H|[H|H]]; auto|intros [H|[H|H]]; auto].
Qed.

Lemma frem_in x f l : In x (frem f l) <-> x <> f /\ In x l.
Proof.
  induction l as [|y r IH]; cbn [frem In]; [tauto|].
  destruct (f =? y) eqn:E.
  - apply N.eqb_eq in E. subst y. rewrite IH. split; [intros [H1 H2]; auto|intros [H1 [H2|H2]]; [congruence|auto]].
  - cbn [In]. rewrite IH. split.
    + intros [H|[H1 H2]]; [subst; split; [intros ->; rewrite N.eqb_refl in E; discriminate|auto]|auto].
    + intros [H1 [H2|H2]]; auto.
Qed.

Definition ssorted (l : list file) : Prop := StronglySorted N.lt l.

Lemma fadd_sorted f l : ssorted l -> ssorted (fadd f l).
Proof.
  unfold ssorted. induction l as [|y r IH]; intros H; cbn [fadd].
  - constructor; constructor.
  - inversion H as [|? ? Hr Hy]; subst. destruct (f <? y) eqn:E1.
    + apply N.ltb_lt in E1. constructor; [exact H|]. constructor; [exact E1|].
      eapply Forall_impl; [|exact Hy]. intros a Ha. cbn in Ha. lia.
    + destruct (f =? y) eqn:E2; [exact H|]. apply N.ltb_ge in E1. apply N.eqb_neq in E2.
      constructor; [apply IH; exact Hr|]. apply Forall_forall. intros x Hx. apply fadd_in in Hx.
      destruct Hx as [->|Hx]; [lia|]. rewrite Forall_forall in Hy. apply Hy. exact Hx.
Qed.

Lemma frem_sorted f l : ssorted l -> ssorted (frem f l).
Proof.
  unfold ssorted. induction l as [|y r IH]; intros H; cbn [frem]; [constructor|].
  inversion H as [|? ? Hr Hy]; subst. destruct (f =? y); [apply IH; exact Hr|].
  constructor; [apply IH; exact Hr|]. apply Forall_forall. intros x Hx. apply frem_in in Hx.
  rewrite Forall_forall in Hy. apply Hy. tauto.
Qed.

Lemma sorted_ext l1 : forall l2, ssorted l1 -> ssorted l2 -> (forall x, In x l1 <-> In x l2) -> l1 = l2.
Proof.
  unfold ssorted. induction l1 as [|a r1 IH]; intros [|b r2] H1 H2 Hext.
  - reflexivity.
  - exfalso. apply (proj2 (Hext b)). left. reflexivity.
  - exfalso. apply (proj1 (Hext a)). left. reflexivity.
  - inversion H1 as [|? ? Hr1 Ha]; inversion H2 as [|? ? Hr2 Hb]; subst.
    rewrite Forall_forall in Ha, Hb.
    assert (a = b).
    { destruct (proj1 (Hext a) (or_introl eq_refl)) as [E|E]; [auto|].
      destruct (proj2 (Hext b) (or_introl eq_refl)) as [E2|E2]; [auto|].
      specialize (Ha _ E2). specialize (Hb _ E). cbn in *. lia. }
    subst b. f_equal. apply IH; [exact Hr1|exact Hr2|]. intros x. split; intros Hx.
    + destruct (proj1 (Hext x) (or_intror Hx)) as [E|E]; [|exact E]. subst x. specialize (Ha _ Hx). cbn in Ha. lia.
    + destruct (proj2 (Hext x) (or_intror Hx)) as [E|E]; [|exact E]. subst x. specialize (Hb _ Hx). cbn in Hb. lia.
Qed.

Lemma fset_of_in x l : In x (fset_of l) <-> In x l.
Proof.
  unfold fset_of. induction l as [|y r IH]; cbn [fold_right In]; [tauto|].
  rewrite fadd_in, IH. split; intros [H|H]; auto.
Qed.

Lemma fset_of_sorted l : ssorted (fset_of l).
Proof.
  unfold fset_of. induction l as [|y r IH]; cbn [fold_right]; [constructor|]. apply fadd_sorted. exact IH.
Qed.

Lemma fadd_id f l : ssorted l -> In f l -> fadd f l = l.
Proof.
  intros Hs Hin. apply sorted_ext; [apply fadd_sorted; exact Hs|exact Hs|].
  intros x. rewrite fadd_in. split; [intros [->|H]; auto|auto].
Qed.

Lemma frem_id f l : ~ In f l -> frem f l = l.
Proof.
  induction l as [|y r IH]; intros H; cbn [frem]; [reflexivity|].
  destruct (f =? y) eqn:E.
  - apply N.eqb_eq in E. subst. exfalso. apply H. left. reflexivity.
  - f_equal. apply IH. intros Hin. apply H. right. exact Hin.
Qed.

Lemma ssorted_nodup l : ssorted l -> NoDup l.
Proof.
  unfold ssorted. induction 1 as [|a r Hr IH Ha]; constructor; [|exact IH].
  intros Hin. rewrite Forall_forall in Ha. specialize (Ha _ Hin). cbn in Ha. lia.
Qed.
