(* C13 - the comment grouping of skipWhiteSpaces (Model/Lexer.v skip_ws) on a structured gap = Spec.CommentSpec.spec_entries *)
From Coq Require Import List NArith ZArith Bool Lia ZifyN ZifyNat ZifyBool.
From LH Require Import Base.Bytes Base.Res Model.Lexer Spec.CommentSpec.
Import ListNotations.
Local Open Scope N_scope.

Definition pline (prev1 : option tok) : Z := match prev1 with Some t => tline t | None => 0%Z end.

Lemma el_prev : forall prev2 prev1,
  el (match prev1 with
      | Some t => tok_loc (match prev2 with Some p => p | None => zero_tok end) t
      | None => zero_loc end) = pline prev1.
Proof.
  intros prev2 [t|]; [|reflexivity]. unfold tok_loc, pline.
  destruct (tlsp t >? tfrom t)%Z; reflexivity.
Qed.

Lemma white_facts : forall c, is_white c = true -> is_newline c = false /\ c <> 13 /\ c <> 10 /\ c <> 45.
Proof.
  intros c H. unfold is_white in H. unfold is_newline.
  repeat (apply orb_true_iff in H; destruct H as [H|H]); apply N.eqb_eq in H; subst c; repeat split; discriminate.
Qed.

Lemma skipn_add : forall (A : Type) (a b : nat) (l : list A), skipn b (skipn a l) = skipn (a + b) l.
Proof.
  intros A a. induction a as [|a IH]; intros b l; [reflexivity|].
  destruct l as [|x l]; [cbn [skipn plus]; destruct b; reflexivity|]. cbn [skipn plus]. apply IH.
Qed.

Lemma adv_adv : forall s a b, adv (adv s a) b = adv s (a + b).
Proof.
  intros [ch ln ls p] a b. unfold adv. cbn [chunk line lsp pos]. f_equal.
  - apply skipn_add.
  - lia.
Qed.

Lemma skipn_app_len : forall (A : Type) (a b : list A), skipn (length a) (a ++ b) = b.
Proof. intros A a b. induction a as [|x a IH]; [reflexivity|]. cbn [length app skipn]. exact IH. Qed.

Lemma firstn_app_len : forall (A : Type) (a b : list A), firstn (length a) (a ++ b) = a.
Proof. intros A a b. induction a as [|x a IH]; [reflexivity|]. cbn [length app firstn]. f_equal. exact IH. Qed.

(* ---- the loop on indentation *)
Lemma indent_steps : forall ind fuel p2 p1 s X cs errs,
  forallb is_white ind = true -> chunk s = ind ++ X -> (length ind <= fuel)%nat ->
  skip_ws_f fuel p2 p1 s cs errs = skip_ws_f (fuel - length ind) p2 p1 (adv s (length ind)) cs errs.
Proof.
  induction ind as [|c ind IH]; intros fuel p2 p1 s X cs errs Hw Hc Hf.
  - cbn [length]. rewrite Nat.sub_0_r. destruct s as [ch ln ls p]. unfold adv. cbn [chunk line lsp pos skipn].
    replace (p + Z.of_nat 0)%Z with p by lia. reflexivity.
  - cbn [forallb] in Hw. apply andb_true_iff in Hw. destruct Hw as [Hc0 Hw].
    destruct (white_facts c Hc0) as [Hnl [H13 [H10 _]]].
    cbn [length] in Hf |- *. destruct fuel as [|f]; [lia|].
    cbn [skip_ws_f]. rewrite Hc. cbn [app].
    assert (Hwrap : (match ind ++ X with
                     | c1 :: _ => (c =? 13) && (c1 =? 10) || (c =? 10) && (c1 =? 13)
                     | [] => false end) = false).
    { apply N.eqb_neq in H13. apply N.eqb_neq in H10. rewrite H13, H10. destruct (ind ++ X); reflexivity. }
    rewrite Hwrap, Hnl, Hc0.
    rewrite (IH f p2 p1 (adv s 1) X cs errs Hw).
    + rewrite adv_adv. cbn [Nat.sub]. reflexivity.
    + destruct s as [ch ln ls p]. cbn [adv chunk] in *. rewrite Hc. reflexivity.
    + lia.
Qed.

(* ---- one line comment *)
Definition nl_first (X : list N) : bool := match X with [] => true | c :: _ => is_newline c end.

Lemma until_newline_text : forall t X,
  forallb (fun c => negb (is_newline c)) t = true -> nl_first X = true -> until_newline (t ++ X) = length t.
Proof.
  induction t as [|c t IH]; intros X Ht HX.
  - cbn [app length]. destruct X as [|x X]; [reflexivity|]. cbn [nl_first] in HX. cbn [until_newline]. rewrite HX. reflexivity.
  - cbn [forallb] in Ht. apply andb_true_iff in Ht. destruct Ht as [Hc Ht]. apply negb_true_iff in Hc.
    cbn [app until_newline length]. rewrite Hc. f_equal. apply IH; assumption.
Qed.

Lemma trim_suffix_id : forall t, forallb (fun c => negb (is_newline c)) t = true -> trim_suffix_nl_dashes t = t.
Proof.
  induction t as [|c t IH]; intros Ht; [reflexivity|].
  cbn [forallb] in Ht. apply andb_true_iff in Ht. destruct Ht as [Hc Ht]. apply negb_true_iff in Hc.
  assert (c <> 10). { intros ->. discriminate Hc. }
  specialize (IH Ht).
  destruct c as [|p]; cbn [trim_suffix_nl_dashes].
  - destruct t; rewrite ?IH; reflexivity.
  - do 4 (destruct p as [p|p|]; try (destruct t as [|? [|? [|? ?]]]; rewrite ?IH; try reflexivity; fail)).
    all: try (exfalso; apply H; reflexivity).
    all: destruct t as [|? [|? [|? ?]]]; rewrite ?IH; reflexivity.
Qed.

Lemma comment_iter : forall f p2 p1 s t X cs errs,
  chunk s = 45 :: 45 :: t ++ X ->
  forallb (fun c => negb (is_newline c)) t = true ->
  (match t with 91 :: _ => true | _ => false end) = false ->
  nl_first X = true ->
  skip_ws_f (S f) p2 p1 s cs errs =
  skip_ws_f f p2 p1 (adv s (2 + length t))
            (comment_step cs true (negb (pline p1 =? line s)%Z) t (line s) (pos s - lsp s + 2)%Z) errs.
Proof.
  intros f p2 p1 s t X cs errs Hc Ht Hb HX.
  cbn [skip_ws_f]. rewrite Hc.
  change ((45 =? 13) && (45 =? 10) || (45 =? 10) && (45 =? 13)) with false.
  change (is_newline 45) with false. change (is_white 45) with false.
  change ((45 =? 45) && (45 =? 45)) with true. cbn [negb].
  rewrite el_prev.
  assert (Hsk : skip_comment s = (true, t, adv s (2 + length t), [])).
  { unfold skip_comment.
    assert (Hc1 : chunk (adv s 2) = t ++ X).
    { destruct s as [ch ln ls p]. cbn [adv chunk] in *. rewrite Hc. reflexivity. }
    rewrite Hc1.
    assert (Hl : (match t ++ X with
                  | 91 :: _ => match fst (match_long_bracket (t ++ X)) with [] => false | _ => true end
                  | _ => false end) = false).
    { destruct t as [|c t].
      - cbn [app]. destruct X as [|x X]; [reflexivity|]. cbn [nl_first] in HX.
        destruct (N.eq_dec x 91) as [->|Hx]; [discriminate HX|].
        destruct x as [|q]; [reflexivity|]. do 7 (destruct q as [q|q|]; try reflexivity). exfalso. apply Hx. reflexivity.
      - cbn [app]. destruct (N.eq_dec c 91) as [->|Hx]; [discriminate Hb|].
        destruct c as [|q]; [reflexivity|]. do 7 (destruct q as [q|q|]; try reflexivity). exfalso. apply Hx. reflexivity. }
    rewrite Hl. rewrite until_newline_text by assumption. rewrite firstn_app_len. rewrite adv_adv. reflexivity. }
  rewrite Hsk. rewrite trim_suffix_id by exact Ht. rewrite app_nil_r.
  destruct s as [ch ln ls p]. reflexivity.
Qed.

Lemma lf_iter : forall f p2 p1 ch ln ls p Y cs errs,
  ch = 10 :: Y -> starts_with_cr Y = false ->
  skip_ws_f (S f) p2 p1 (mkLst ch ln ls p) cs errs =
  skip_ws_f f p2 p1 (mkLst Y (ln + 1)%Z (p + 1)%Z (p + 1)%Z) cs errs.
Proof.
  intros f p2 p1 ch ln ls p Y cs errs -> HY.
  cbn [skip_ws_f chunk].
  assert (Hw : (match Y with c1 :: _ => (10 =? 13) && (c1 =? 10) || (10 =? 10) && (c1 =? 13) | [] => false end) = false).
  { destruct Y as [|y Y]; [reflexivity|]. cbn [starts_with_cr] in HY.
    change (10 =? 13) with false. change (10 =? 10) with true. cbn [andb orb].
    destruct (N.eqb_spec y 13) as [->|Hn]; [discriminate HY|reflexivity]. }
  rewrite Hw. change (is_newline 10) with true.
  unfold adv. cbn [chunk line lsp pos skipn]. replace (p + Z.of_nat 1)%Z with (p + 1)%Z by lia. reflexivity.
Qed.

Lemma crlf_iter : forall f p2 p1 ch ln ls p Y cs errs,
  ch = 13 :: 10 :: Y ->
  skip_ws_f (S f) p2 p1 (mkLst ch ln ls p) cs errs =
  skip_ws_f f p2 p1 (mkLst Y (ln + 1)%Z (p + 2)%Z (p + 2)%Z) cs errs.
Proof.
  intros f p2 p1 ch ln ls p Y cs errs ->.
  cbn [skip_ws_f chunk]. change ((13 =? 13) && (10 =? 10) || (13 =? 10) && (10 =? 13)) with true.
  unfold adv. cbn [chunk line lsp pos skipn]. replace (p + Z.of_nat 2)%Z with (p + 2)%Z by lia. reflexivity.
Qed.

Lemma tail_stop : forall fuel p2 p1 s cs errs,
  tail_ok (chunk s) = true -> skip_ws_f fuel p2 p1 s cs errs = (s, cs, errs).
Proof.
  intros [|f] p2 p1 s cs errs H; [reflexivity|].
  cbn [skip_ws_f]. destruct (chunk s) as [|c0 r]; [reflexivity|].
  cbn [tail_ok] in H. apply andb_true_iff in H. destruct H as [H Hpc]. apply andb_true_iff in H. destruct H as [Hw Hn].
  apply negb_true_iff in Hw. apply negb_true_iff in Hn. apply negb_true_iff in Hpc.
  assert (Hwrap : (match r with c1 :: _ => (c0 =? 13) && (c1 =? 10) || (c0 =? 10) && (c1 =? 13) | [] => false end) = false).
  { destruct r as [|c1 r]; [reflexivity|]. unfold is_newline in Hn. apply orb_false_iff in Hn. destruct Hn as [H13 H10].
    rewrite H13, H10. reflexivity. }
  rewrite Hwrap, Hn, Hw, Hpc. reflexivity.
Qed.

(* ---- the grouping state, abstractly: the pending block and the map writes so far *)
Definition dfl : cline := mkCline [] 0 0.
Definition dfl_nl : nlk * gline := (NlLF, mkGl [] None).
Definition glen (l : gline) : nat := length (render_gline l).
Definition cst_of (pend : list cline) (last : Z) (em : list (Z * cinfo)) : cstate :=
  mkCst (match pend with [] => None | _ => Some (mkCinfo pend true true) end) last em.
Definition finish (cs : cstate) : list (Z * cinfo) :=
  match cur cs with Some ci => emitted cs ++ [(last_line cs, ci)] | None => emitted cs end.
Definition pend_ok (pend : list cline) (last : Z) : Prop := pend = [] \/ last = cl_line (List.last pend dfl).

Lemma last_snoc : forall (A : Type) (l : list A) (x d : A), List.last (l ++ [x]) d = x.
Proof.
  intros A l x d. induction l as [|a l IH]; [reflexivity|].
  cbn [app]. destruct (l ++ [x]) eqn:E; [destruct l; discriminate E|]. cbn [List.last]. exact IH.
Qed.

Lemma block_entry_eq : forall pend last, last = cl_line (List.last pend dfl) ->
  block_entry pend = (last, mkCinfo pend true true).
Proof. intros pend last ->. reflexivity. Qed.

Lemma cstep_head : forall pend last em t ln col,
  pend_ok pend last ->
  exists pend' em',
    comment_step (cst_of pend last em) true true t ln col = cst_of pend' ln em' /\ pend_ok pend' ln /\
    forall rest, em' ++ map block_entry (runs rest pend' ln)
                 = em ++ map block_entry (runs (mkCline t ln col :: rest) pend last).
Proof.
  intros pend last em t ln col Hp. set (c := mkCline t ln col).
  destruct pend as [|c0 pend].
  - exists [c], em. split; [reflexivity|]. split; [right; reflexivity|]. intros rest. reflexivity.
  - destruct Hp as [Hp|Hp]; [discriminate Hp|].
    unfold comment_step, cst_of. cbn [cur last_line emitted ci_short ci_head ci_lines].
    change (Bool.eqb true true) with true. cbn [negb orb andb].
    destruct (ln =? last + 1)%Z eqn:E; cbn [negb].
    + exists ((c0 :: pend) ++ [c]), em. split.
      * unfold add_line. cbn [ci_lines ci_short ci_head]. cbn [app]. reflexivity.
      * split; [right; rewrite last_snoc; reflexivity|]. intros rest. unfold c. cbn [runs cl_line]. rewrite E. reflexivity.
    + exists [c], (em ++ [(last, mkCinfo (c0 :: pend) true true)]). split; [reflexivity|].
      split; [right; reflexivity|]. intros rest. unfold c. cbn [runs cl_line]. rewrite E. cbn [map].
      rewrite <- app_assoc. cbn [app]. rewrite (block_entry_eq _ _ Hp). reflexivity.
Qed.

Lemma finish_cst : forall pend last em, pend_ok pend last ->
  finish (cst_of pend last em) = em ++ map block_entry (runs [] pend last).
Proof.
  intros pend last em Hp. unfold finish, cst_of. cbn [cur emitted last_line runs].
  destruct pend as [|c0 pend]; [cbn [flush_run map]; rewrite app_nil_r; reflexivity|].
  destruct Hp as [Hp|Hp]; [discriminate Hp|]. cbn [flush_run map]. rewrite (block_entry_eq _ _ Hp). reflexivity.
Qed.

Lemma nl_first_rest : forall t tail, rest_ok true t tail = true -> nl_first (render_rest t ++ tail) = true.
Proof.
  intros [|[k l] t] tail H.
  - cbn [rest_ok] in H. destruct tail; [reflexivity|discriminate H].
  - cbn [render_rest]. destruct k; reflexivity.
Qed.

Lemma nl_first_rest_any : forall pc t tail, rest_ok pc t tail = true -> tail_ok tail = true ->
  starts_with_cr (render_rest t ++ tail) = true -> exists l t', t = (NlCRLF, l) :: t'.
Proof.
  intros pc [|[k l] t] tail H Ht Hs.
  - cbn [render_rest app] in Hs. destruct tail as [|c r]; [discriminate Hs|].
    cbn [tail_ok] in Ht. cbn [starts_with_cr] in Hs. destruct c as [|q]; [discriminate Hs|].
    do 4 (destruct q as [q|q|]; try discriminate Hs). discriminate Ht.
  - destruct k; [discriminate Hs|]. exists l, t. reflexivity.
Qed.

Lemma rest_steps : forall r fuel p2 p1 s tail pend last em errs pc,
  chunk s = render_rest r ++ tail -> rest_ok pc r tail = true -> tail_ok tail = true ->
  (length (render_rest r) <= fuel)%nat -> (pline p1 <= line s)%Z -> pend_ok pend last ->
  exists s' cs', skip_ws_f fuel p2 p1 s (cst_of pend last em) errs = (s', cs', errs)
    /\ chunk s' = tail /\ line s' = (line s + Z.of_nat (length r))%Z
    /\ finish cs' = em ++ map block_entry (runs (rest_clines (line s) r) pend last)
    /\ pos s' = (pos s + Z.of_nat (length (render_rest r)))%Z
    /\ lsp s' = match r with [] => lsp s | _ => (pos s' - Z.of_nat (glen (snd (List.last r dfl_nl))))%Z end.
Proof.
  induction r as [|[k l] t IH]; intros fuel p2 p1 s tail pend last em errs pc Hc Hr Ht Hf Hp Hpe.
  - cbn [render_rest app] in Hc. exists s, (cst_of pend last em).
    split; [apply tail_stop; rewrite Hc; exact Ht|]. split; [exact Hc|].
    split; [cbn [length]; lia|]. split; [cbn [rest_clines]; apply finish_cst; exact Hpe|].
    split; [cbn [render_rest length]; lia|reflexivity].
  - cbn [rest_ok] in Hr. apply andb_true_iff in Hr. destruct Hr as [Hr Hr3]. apply andb_true_iff in Hr. destruct Hr as [Hl Hk].
    unfold gline_ok in Hl. apply andb_true_iff in Hl. destruct Hl as [Hind Hcm].
    cbn [render_rest] in Hc, Hf. rewrite !app_length in Hf.
    destruct s as [ch ln ls p]. cbn [chunk line pos lsp] in *.
    (* the line break *)
    assert (Hnl : exists f p', fuel = S f /\ (length (render_gline l) + length (render_rest t) <= f)%nat /\
              p' = (p + Z.of_nat (length (nl_bytes k)))%Z /\
              skip_ws_f fuel p2 p1 (mkLst ch ln ls p) (cst_of pend last em) errs =
              skip_ws_f f p2 p1 (mkLst (render_gline l ++ render_rest t ++ tail) (ln + 1)%Z p' p') (cst_of pend last em) errs).
    { destruct k; cbn [nl_bytes length] in Hf.
      - destruct fuel as [|f]; [lia|]. exists f, (p + 1)%Z. split; [reflexivity|]. split; [lia|]. split; [reflexivity|].
        apply lf_iter; [rewrite Hc, <- !app_assoc; reflexivity|]. apply negb_true_iff in Hk. exact Hk.
      - destruct fuel as [|f]; [lia|]. exists f, (p + 2)%Z. split; [reflexivity|]. split; [lia|]. split; [reflexivity|].
        apply crlf_iter. rewrite Hc, <- !app_assoc. reflexivity. }
    destruct Hnl as [f [p' [-> [Hf1 [Hp' Hnl]]]]]. rewrite Hnl. clear Hnl Hc Hf ch.
    unfold render_gline in Hf1 |- *. rewrite app_length in Hf1. rewrite <- app_assoc.
    (* the indentation *)
    match goal with
    | |- context [mkLst (gl_indent l ++ ?Y) _ _ _] =>
      rewrite (indent_steps (gl_indent l) f p2 p1 (mkLst (gl_indent l ++ Y) (ln + 1)%Z p' p') Y _ errs Hind eq_refl) by lia
    end.
    unfold adv at 1. cbn [chunk line lsp pos]. rewrite skipn_app_len.
    destruct (gl_comment l) as [tx|] eqn:Ecm.
    + (* a comment line *)
      apply andb_true_iff in Hcm. destruct Hcm as [Htx Hbr]. apply negb_true_iff in Hbr.
      cbn [length] in Hf1.
      destruct (f - length (gl_indent l))%nat as [|f2] eqn:Ef; [lia|].
      rewrite (comment_iter f2 p2 p1 _ tx (render_rest t ++ tail) _ errs);
        [| cbn [chunk app]; reflexivity | exact Htx | exact Hbr | apply nl_first_rest; exact Hr3].
      cbn [line pos lsp].
      assert (Hhead : negb (pline p1 =? ln + 1)%Z = true) by (apply negb_true_iff; apply Z.eqb_neq; lia).
      rewrite Hhead.
      destruct (cstep_head pend last em tx (ln + 1)%Z (p' + Z.of_nat (length (gl_indent l)) - p' + 2)%Z Hpe)
        as [pend' [em' [Hcs [Hpe' Hruns]]]].
      rewrite Hcs.
      match goal with
      | |- context [skip_ws_f f2 p2 p1 ?S _ errs] =>
        assert (HIH := IH f2 p2 p1 S tail pend' (ln + 1)%Z em' errs true)
      end.
      destruct HIH as [s' [cs' [H1 [H2 [H3 [H4 [H5 H6]]]]]]]; [ | exact Hr3 | exact Ht | | | exact Hpe' | ].
      * unfold adv. cbn [chunk]. cbn [plus skipn]. apply skipn_app_len.
      * lia.
      * unfold adv. cbn [line]. lia.
      * exists s', cs'. split; [exact H1|]. split; [exact H2|].
        unfold adv in H3, H4, H5, H6. cbn [line pos lsp] in H3, H4, H5, H6. split; [rewrite H3; cbn [length]; lia|].
        split.
        { rewrite H4. rewrite Hruns. cbn [rest_clines]. unfold cline_of. rewrite Ecm. cbn [app].
          replace (p' + Z.of_nat (length (gl_indent l)) - p' + 2)%Z with (0 + Z.of_nat (length (gl_indent l)) + 2)%Z by lia.
          reflexivity. }
        assert (Hlen : length (render_rest ((k, l) :: t))
                       = (length (nl_bytes k) + (length (gl_indent l) + (2 + length tx)) + length (render_rest t))%nat).
        { cbn [render_rest]. rewrite !app_length. unfold render_gline. rewrite Ecm, app_length. cbn [length]. lia. }
        rewrite Hlen. split; [lia|].
        destruct t as [|kl t'].
        { cbn [List.last snd]. unfold glen, render_gline. rewrite Ecm, app_length. cbn [length render_rest] in *. lia. }
        change (List.last ((k, l) :: kl :: t') dfl_nl) with (List.last (kl :: t') dfl_nl). exact H6.
    + (* a blank line *)
      rewrite app_nil_l.
      match goal with
      | |- context [skip_ws_f ?F p2 p1 ?S _ errs] =>
        assert (HIH := IH F p2 p1 S tail pend last em errs false)
      end.
      destruct HIH as [s' [cs' [H1 [H2 [H3 [H4 [H5 H6]]]]]]]; [ | exact Hr3 | exact Ht | | | exact Hpe | ].
      * cbn [chunk]. reflexivity.
      * cbn [length] in Hf1. lia.
      * cbn [line]. lia.
      * exists s', cs'. split; [exact H1|]. split; [exact H2|]. cbn [line pos lsp] in H3, H4, H5, H6.
        split; [rewrite H3; cbn [length]; lia|].
        split; [rewrite H4; cbn [rest_clines]; unfold cline_of; rewrite Ecm; reflexivity|].
        assert (Hlen : length (render_rest ((k, l) :: t))
                       = (length (nl_bytes k) + length (gl_indent l) + length (render_rest t))%nat).
        { cbn [render_rest]. rewrite !app_length. unfold render_gline. rewrite Ecm, app_length. cbn [length]. lia. }
        rewrite Hlen. split; [lia|].
        destruct t as [|kl t'].
        { cbn [List.last snd]. unfold glen, render_gline. rewrite Ecm, app_length. cbn [length render_rest] in *. lia. }
        change (List.last ((k, l) :: kl :: t') dfl_nl) with (List.last (kl :: t') dfl_nl). exact H6.
Qed.

Lemma runs_nil_last : forall cs a b, runs cs [] a = runs cs [] b.
Proof. intros [|c cs] a b; reflexivity. Qed.

Lemma last_map_snd : forall (r : list (nlk * gline)) d d', r <> [] -> snd (List.last r d) = List.last (map snd r) d'.
Proof.
  induction r as [|x r IH]; intros d d' Hne; [congruence|].
  destruct r as [|y r]; [reflexivity|].
  change (List.last (x :: y :: r) d) with (List.last (y :: r) d).
  change (List.last (map snd (x :: y :: r)) d') with (List.last (map snd (y :: r)) d').
  apply IH. discriminate.
Qed.

Lemma after_gap_eq : forall s' ch ln ls p l0 r tail,
  chunk s' = tail -> line s' = (ln + Z.of_nat (length r))%Z ->
  pos s' = (p + Z.of_nat (length (render_gline l0)) + Z.of_nat (length (render_rest r)))%Z ->
  lsp s' = match r with [] => ls | _ => (pos s' - Z.of_nat (glen (snd (List.last r dfl_nl))))%Z end ->
  s' = after_gap (mkLst ch ln ls p) (mkGap l0 r) tail.
Proof.
  intros [ch' ln' ls' p'] ch ln ls p l0 r tail H1 H2 H3 H4. cbn [chunk line lsp pos] in *.
  unfold after_gap, render_gap, last_gline. cbn [g_first g_rest chunk line lsp pos]. rewrite app_length.
  subst ch' ln'. f_equal; [|lia].
  destruct r as [|x r]; [exact H4|]. rewrite H4.
  rewrite (last_map_snd (x :: r) dfl_nl l0) by discriminate. unfold glen. lia.
Qed.

(* ---- the theorem: skipWhiteSpaces on a well-formed gap records exactly the entries of the description and leaves the
   scanner in the state `after_gap` *)
Theorem skip_ws_gap_state : forall p2 p1 s g tail,
  chunk s = render_gap g ++ tail -> gap_ok g tail = true -> (pline p1 <= line s)%Z ->
  skip_ws p2 p1 s = (after_gap s g tail, spec_entries (pline p1) (line s) (pos s - lsp s)%Z g, []).
Proof.
  intros p2 p1 s [l0 r] tail Hc Hok Hp. unfold gap_ok in Hok. cbn [g_first g_rest] in *.
  apply andb_true_iff in Hok. destruct Hok as [Hok Hr]. apply andb_true_iff in Hok. destruct Hok as [Hl Ht].
  unfold gline_ok in Hl. apply andb_true_iff in Hl. destruct Hl as [Hind Hcm].
  unfold render_gap, render_gline in Hc. cbn [g_first g_rest] in Hc. rewrite <- !app_assoc in Hc.
  unfold skip_ws, spec_entries. cbn [g_first g_rest].
  assert (Hlen : (length (gl_indent l0) + length (render_rest r) + length tail
                  + match gl_comment l0 with Some t => 2 + length t | None => 0 end = length (chunk s))%nat).
  { rewrite Hc. rewrite !app_length. destruct (gl_comment l0); cbn [length]; lia. }
  change (mkCst None 0 []) with (cst_of [] 0 []).
  remember (S (length (chunk s))) as fuel eqn:Efuel.
  rewrite (indent_steps (gl_indent l0) fuel p2 p1 s _ (cst_of [] 0 []) [] Hind Hc) by lia.
  destruct s as [ch ln ls p]. cbn [chunk line lsp pos] in *.
  unfold adv at 1. cbn [chunk line lsp pos]. rewrite Hc, skipn_app_len.
  destruct (gl_comment l0) as [tx|] eqn:Ecm.
  - apply andb_true_iff in Hcm. destruct Hcm as [Htx Hbr]. apply negb_true_iff in Hbr.
    cbn [length] in Hlen.
    assert (Hgl : length (render_gline l0) = (length (gl_indent l0) + (2 + length tx))%nat).
    { unfold render_gline. rewrite Ecm, app_length. reflexivity. }
    destruct (fuel - length (gl_indent l0))%nat as [|f2] eqn:Ef; [lia|].
    rewrite (comment_iter f2 p2 p1 _ tx (render_rest r ++ tail) _ []);
      [| cbn [chunk app]; reflexivity | exact Htx | exact Hbr | apply nl_first_rest; exact Hr].
    cbn [line pos lsp]. unfold cline_of. rewrite Ecm.
    replace (p + Z.of_nat (length (gl_indent l0)) - ls + 2)%Z with (p - ls + Z.of_nat (length (gl_indent l0)) + 2)%Z by lia.
    set (c := mkCline tx ln (p - ls + Z.of_nat (length (gl_indent l0)) + 2)%Z).
    destruct (pline p1 =? ln)%Z eqn:Ehead; cbn [negb].
    + (* trailing comment *)
      change (comment_step (cst_of [] 0 []) true false tx ln (p - ls + Z.of_nat (length (gl_indent l0)) + 2)%Z)
        with (cst_of [] ln [trailing_entry c]).
      match goal with
      | |- context [skip_ws_f f2 p2 p1 ?S _ []] =>
        assert (HIH := rest_steps r f2 p2 p1 S tail [] ln [trailing_entry c] [] true)
      end.
      destruct HIH as [s' [cs' [H1 [H2 [H3 [H4 [H5 H6]]]]]]]; [ | exact Hr | exact Ht | | | left; reflexivity | ].
      * unfold adv. cbn [chunk]. cbn [plus skipn]. apply skipn_app_len.
      * lia.
      * unfold adv. cbn [line]. exact Hp.
      * rewrite H1. unfold finish in H4. unfold adv in H3, H4, H5, H6. cbn [line pos lsp] in H3, H4, H5, H6.
        f_equal. f_equal.
        { apply after_gap_eq; [exact H2|exact H3|rewrite H5, Hgl; lia|exact H6]. }
        cbn [map]. rewrite (runs_nil_last _ 0%Z ln).
        destruct (cur cs'); exact H4.
    + (* first line of a block *)
      change (comment_step (cst_of [] 0 []) true true tx ln (p - ls + Z.of_nat (length (gl_indent l0)) + 2)%Z)
        with (cst_of [c] ln []).
      match goal with
      | |- context [skip_ws_f f2 p2 p1 ?S _ []] =>
        assert (HIH := rest_steps r f2 p2 p1 S tail [c] ln [] [] true)
      end.
      destruct HIH as [s' [cs' [H1 [H2 [H3 [H4 [H5 H6]]]]]]]; [ | exact Hr | exact Ht | | | right; reflexivity | ].
      * unfold adv. cbn [chunk]. cbn [plus skipn]. apply skipn_app_len.
      * lia.
      * unfold adv. cbn [line]. exact Hp.
      * rewrite H1. unfold finish in H4. unfold adv in H3, H4, H5, H6. cbn [line pos lsp] in H3, H4, H5, H6.
        f_equal. f_equal.
        { apply after_gap_eq; [exact H2|exact H3|rewrite H5, Hgl; lia|exact H6]. }
        cbn [app runs]. change (cl_line c) with ln.
        destruct (cur cs'); exact H4.
  - rewrite app_nil_l.
    assert (Hgl : length (render_gline l0) = length (gl_indent l0)).
    { unfold render_gline. rewrite Ecm, app_length. cbn [length]. lia. }
    match goal with
    | |- context [skip_ws_f ?F p2 p1 ?S _ []] =>
      assert (HIH := rest_steps r F p2 p1 S tail [] 0%Z [] [] false)
    end.
    destruct HIH as [s' [cs' [H1 [H2 [H3 [H4 [H5 H6]]]]]]]; [ | exact Hr | exact Ht | | | left; reflexivity | ].
    + cbn [chunk]. reflexivity.
    + cbn [length] in Hlen. lia.
    + cbn [line]. exact Hp.
    + rewrite H1. unfold finish in H4. cbn [line pos lsp] in H3, H4, H5, H6.
      f_equal. f_equal.
      { apply after_gap_eq; [exact H2|exact H3|rewrite H5, Hgl; lia|exact H6]. }
      unfold cline_of. rewrite Ecm. cbn [map app].
      destruct (pline p1 =? ln)%Z; destruct (cur cs'); exact H4.
Qed.

Theorem skip_ws_gap : forall p2 p1 s g tail,
  chunk s = render_gap g ++ tail -> gap_ok g tail = true -> (pline p1 <= line s)%Z ->
  exists s', skip_ws p2 p1 s = (s', spec_entries (pline p1) (line s) (pos s - lsp s)%Z g, [])
             /\ chunk s' = tail /\ line s' = (line s + Z.of_nat (length (g_rest g)))%Z.
Proof.
  intros p2 p1 s g tail Hc Hok Hp. exists (after_gap s g tail).
  split; [apply skip_ws_gap_state; assumption|]. split; reflexivity.
Qed.
