(* C19 - shape of the outline entries: every entry is `var_sym` of a variable stored in the symbol tables, and the
   range rule of the repaired code (fx = true): an entry that is not function-valued starts at its declaring
   identifier and extends to the largest end among itself and its children. These lemmas hold for EVERY state
   (no hypothesis on the program). *)
From Coq Require Import List NArith ZArith Bool Lia ZifyBool.
From LH Require Import Base.Bytes Base.Res Model.Lexer Model.Ast Model.Symbols Spec.SymbolSpec.
Import ListNotations.

(* ------------------------------------------------------------------ induction over nested scopes / variables *)
Section ScopeInd.
  Variable P : scope -> Prop.
  Hypothesis Hstep : forall f vars subs, Forall P subs -> P (Scope f vars subs).
  Fixpoint scope_ind' (s : scope) {struct s} : P s :=
    match s with
    | Scope f vars subs =>
      Hstep f vars subs
            ((fix go (l : list scope) {struct l} : Forall P l :=
                match l with
                | [] => Forall_nil P
                | x :: l' => Forall_cons x (scope_ind' x) (go l')
                end) subs)
    end.
End ScopeInd.

Section VinfoInd.
  Variable P : vinfo -> Prop.
  Hypothesis Hstep : forall l f subs p g r e, Forall (fun kv => P (snd kv)) subs -> P (VI l f subs p g r e).
  Fixpoint vinfo_ind' (v : vinfo) {struct v} : P v :=
    match v with
    | VI l f subs p g r e =>
      Hstep l f subs p g r e
            ((fix go (s : list (bytes * vinfo)) {struct s} : Forall (fun kv => P (snd kv)) s :=
                match s with
                | [] => Forall_nil _
                | kv :: s' => Forall_cons kv (vinfo_ind' (snd kv)) (go s')
                end) subs)
    end.
End VinfoInd.

(* every variable of a scope tree (all VarVec elements, all sub-scopes) satisfies Q *)
Section ScopeAll.
  Variable Q : vinfo -> Prop.
  Fixpoint scope_all (s : scope) {struct s} : Prop :=
    match s with
    | Scope _ vars subs =>
      Forall (fun kv => Forall Q (snd kv)) vars /\
      (fix go (l : list scope) {struct l} : Prop :=
         match l with [] => True | x :: l' => scope_all x /\ go l' end) subs
    end.

  Lemma scope_all_go : forall l,
      (fix go (l : list scope) {struct l} : Prop :=
         match l with [] => True | x :: l' => scope_all x /\ go l' end) l <-> Forall scope_all l.
  Proof.
    induction l as [|x l IH]; cbn; split; intros H; auto.
    - destruct H as [H1 H2]. constructor; [exact H1 | apply IH; exact H2].
    - inversion H as [|? ? H1 H2]; subst. split; [exact H1 | apply IH; exact H2].
  Qed.

  Lemma scope_all_unfold : forall f vars subs,
      scope_all (Scope f vars subs) <-> Forall (fun kv => Forall Q (snd kv)) vars /\ Forall scope_all subs.
  Proof.
    intros f vars subs. cbn [scope_all]. rewrite scope_all_go. tauto.
  Qed.
End ScopeAll.

(* ------------------------------------------------------------------ every entry is var_sym of a stored variable *)
Lemma last_var_in : forall vs v, last_var vs = Some v -> In v vs.
Proof.
  intros vs v H. unfold last_var in H. destruct (rev vs) as [|x r] eqn:E; [discriminate|].
  injection H as <-. apply in_rev. rewrite E. left; reflexivity.
Qed.

Lemma listed_locals_in : forall vars nm v,
    In (nm, v) (listed_locals vars) -> exists vs, In (nm, vs) vars /\ last_var vs = Some v /\ v_param v = false.
Proof.
  intros vars nm v H. unfold listed_locals in H. apply in_flat_map in H. destruct H as [[k vs] [Hin H]].
  cbn [fst snd] in H. destruct (last_var vs) as [v0|] eqn:E; [|destruct H].
  destruct (v_param v0) eqn:Ep; [destruct H|]. destruct H as [H|[]]. injection H as <- <-.
  exists vs. auto.
Qed.

Lemma find_all_local_unfold : forall fx gs f vars subs,
    find_all_local fx gs (Scope f vars subs) =
    map (fun kv => var_sym fx true (fst kv) (snd kv)) (listed_locals vars) ++
    flat_map (fun sub => match s_fid sub with
                         | Some id => if memN id (gs ++ flat_map (fun kv => claimed_fids (snd kv)) (listed_locals vars))
                                      then [] else find_all_local fx [] sub
                         | None => find_all_local fx [] sub
                         end) subs.
Proof.
  intros fx gs f vars subs. reflexivity.
Qed.

Lemma find_all_local_entry : forall (Q : vinfo -> Prop) fx scp gs s,
    scope_all Q scp -> In s (find_all_local fx gs scp) ->
    exists nm v, Q v /\ v_param v = false /\ s = var_sym fx true nm v.
Proof.
  intros Q fx scp. induction scp as [f vars subs IH] using scope_ind'. intros gs s Hall Hin.
  apply scope_all_unfold in Hall. destruct Hall as [Hv Hs].
  rewrite find_all_local_unfold in Hin. apply in_app_or in Hin. destruct Hin as [Hin|Hin].
  - apply in_map_iff in Hin. destruct Hin as [[nm v] [Heq Hl]]. cbn [fst snd] in Heq.
    apply listed_locals_in in Hl. destruct Hl as [vs [Hvs [Hlast Hp]]].
    exists nm, v. split; [|split; [exact Hp | symmetry; exact Heq]].
    rewrite Forall_forall in Hv. specialize (Hv _ Hvs). cbn [snd] in Hv. rewrite Forall_forall in Hv.
    apply Hv. apply last_var_in. exact Hlast.
  - apply in_flat_map in Hin. destruct Hin as [sub [Hsub Hin]].
    rewrite Forall_forall in IH, Hs. specialize (IH _ Hsub). specialize (Hs _ Hsub).
    destruct (s_fid sub) as [id|].
    + destruct (memN id _); [destruct Hin|]. eapply IH; eauto.
    + eapply IH; eauto.
Qed.

Lemma find_all_symbol_entry : forall (Q : vinfo -> Prop) fx st s,
    scope_all Q (main_scope st) -> Forall (fun kv => Q (snd kv)) (globs st) ->
    In s (find_all_symbol fx st) ->
    exists lc nm v, Q v /\ s = var_sym fx lc nm v.
Proof.
  intros Q fx st s Hm Hg Hin. unfold find_all_symbol in Hin. apply in_app_or in Hin. destruct Hin as [Hin|Hin].
  - destruct (find_all_local_entry Q fx _ _ _ Hm Hin) as [nm [v [HQ [_ Heq]]]]. exists true, nm, v. auto.
  - apply in_map_iff in Hin. destruct Hin as [[nm v] [Heq Hl]]. cbn [fst snd] in Heq.
    rewrite Forall_forall in Hg. specialize (Hg _ Hl). exists false, nm, v. auto.
Qed.

Lemma scope_all_True : forall scp, scope_all (fun _ => True) scp.
Proof.
  induction scp as [f vars subs IH] using scope_ind'. apply scope_all_unfold. split; [|exact IH].
  apply Forall_forall. intros kv _. apply Forall_forall. auto.
Qed.

Lemma find_all_symbol_var_sym : forall fx st s,
    In s (find_all_symbol fx st) -> exists lc nm v, s = var_sym fx lc nm v.
Proof.
  intros fx st s Hin.
  destruct (find_all_symbol_entry (fun _ => True) fx st s (scope_all_True _)) as [lc [nm [v [_ H]]]]; auto.
  - apply Forall_forall. auto.
  - eauto.
Qed.

(* ------------------------------------------------------------------ positions *)
Lemma pos_le_refl : forall l c, pos_le l c l c = true.
Proof. intros. unfold pos_le. lia. Qed.

Lemma pos_le_trans : forall l1 c1 l2 c2 l3 c3,
    pos_le l1 c1 l2 c2 = true -> pos_le l2 c2 l3 c3 = true -> pos_le l1 c1 l3 c3 = true.
Proof. unfold pos_le. intros. lia. Qed.

Lemma end_gt_pos_le : forall l1 c1 l2 c2, end_gt l1 c1 l2 c2 = true -> pos_le l2 c2 l1 c1 = true.
Proof. unfold end_gt, pos_le. intros. lia. Qed.

Lemma not_end_gt_pos_le : forall l1 c1 l2 c2, end_gt l1 c1 l2 c2 = false -> pos_le l1 c1 l2 c2 = true.
Proof. unfold end_gt, pos_le. intros. lia. Qed.

Lemma contains_refl : forall l, contains l l = true.
Proof. intros. unfold contains. rewrite !pos_le_refl. reflexivity. Qed.

(* max_end is an upper bound of its start value and of every child's end *)
Lemma max_end_ge_start : forall cs l c, pos_le l c (fst (max_end cs l c)) (snd (max_end cs l c)) = true.
Proof.
  induction cs as [|x cs IH]; intros l c; cbn [max_end fst snd].
  - apply pos_le_refl.
  - destruct (end_gt (el (c_loc x)) (ec (c_loc x)) l c) eqn:E.
    + eapply pos_le_trans; [apply end_gt_pos_le; exact E | apply IH].
    + apply IH.
Qed.

Lemma max_end_ge_child : forall cs l c x,
    In x cs -> pos_le (el (c_loc x)) (ec (c_loc x)) (fst (max_end cs l c)) (snd (max_end cs l c)) = true.
Proof.
  induction cs as [|y cs IH]; intros l c x Hin; [destruct Hin|]. cbn [max_end].
  destruct Hin as [->|Hin].
  - destruct (end_gt (el (c_loc x)) (ec (c_loc x)) l c) eqn:E.
    + apply max_end_ge_start.
    + eapply pos_le_trans; [apply not_end_gt_pos_le; exact E | apply max_end_ge_start].
  - destruct (end_gt (el (c_loc y)) (ec (c_loc y)) l c); apply IH; exact Hin.
Qed.

(* the value of max_end is its start value or the end of one of the children *)
Lemma max_end_source : forall cs l c,
    max_end cs l c = (l, c) \/ exists x, In x cs /\ max_end cs l c = (el (c_loc x), ec (c_loc x)).
Proof.
  induction cs as [|y cs IH]; intros l c; cbn [max_end]; [left; reflexivity|].
  destruct (end_gt (el (c_loc y)) (ec (c_loc y)) l c).
  - destruct (IH (el (c_loc y)) (ec (c_loc y))) as [H|[x [Hx H]]].
    + right. exists y. split; [left; reflexivity | exact H].
    + right. exists x. split; [right; exact Hx | exact H].
  - destruct (IH l c) as [H|[x [Hx H]]]; [left; exact H|].
    right. exists x. split; [right; exact Hx | exact H].
Qed.

Lemma parent_loc_fixed : forall l cs,
    parent_loc true l cs = mkLoc (sl l) (sc l) (fst (max_end cs (el l) (ec l))) (snd (max_end cs (el l) (ec l))).
Proof. intros. unfold parent_loc. destruct (max_end cs (el l) (ec l)). reflexivity. Qed.

(* ------------------------------------------------------------------ the range rule of one entry (fx = true) *)
(* fields that do not depend on the range rule *)
Lemma var_sym_decl : forall fx lc nm v, s_decl (var_sym fx lc nm v) = v_loc v.
Proof. intros. unfold var_sym. destruct (v_func v); [reflexivity|]. destruct (v_sub v); reflexivity. Qed.

Lemma var_sym_key : forall fx lc nm v, s_key (var_sym fx lc nm v) = nm.
Proof. intros. unfold var_sym. destruct (v_func v); [reflexivity|]. destruct (v_sub v); reflexivity. Qed.

Lemma var_sym_local : forall fx lc nm v, s_local (var_sym fx lc nm v) = lc.
Proof. intros. unfold var_sym. destruct (v_func v); [reflexivity|]. destruct (v_sub v); reflexivity. Qed.

Lemma var_sym_fn : forall fx lc nm v, s_fn (var_sym fx lc nm v) = is_some (v_func v).
Proof. intros. unfold var_sym. destruct (v_func v); [reflexivity|]. destruct (v_sub v); reflexivity. Qed.

Lemma var_sym_fn_loc : forall fx lc nm v fi, v_func v = Some fi -> s_loc (var_sym fx lc nm v) = f_loc fi.
Proof. intros fx lc nm v fi H. unfold var_sym. rewrite H. reflexivity. Qed.

Lemma var_sym_children : forall fx lc nm v,
    s_children (var_sym fx lc nm v) =
    match v_func v with Some _ => [] | None => map (fun kv => child_sym nm (fst kv) (snd kv)) (v_sub v) end.
Proof. intros. unfold var_sym. destruct (v_func v); [reflexivity|]. destruct (v_sub v); reflexivity. Qed.

Lemma var_sym_nonfn_loc : forall lc nm v,
    v_func v = None ->
    s_loc (var_sym true lc nm v) = parent_loc true (v_loc v) (s_children (var_sym true lc nm v)).
Proof.
  intros lc nm v H. rewrite var_sym_children. unfold var_sym. rewrite H.
  destruct (v_sub v) as [|kv r]; [|reflexivity].
  cbn [s_loc map]. rewrite parent_loc_fixed. cbn [max_end fst snd]. destruct (v_loc v); reflexivity.
Qed.

(* an entry that is not function-valued: starts at the declaring identifier, ends at the largest end *)
Lemma var_sym_nonfn_range : forall lc nm v,
    s_fn (var_sym true lc nm v) = false ->
    let s := var_sym true lc nm v in
    sl (s_loc s) = sl (s_decl s) /\ sc (s_loc s) = sc (s_decl s) /\
    pos_le (el (s_decl s)) (ec (s_decl s)) (el (s_loc s)) (ec (s_loc s)) = true /\
    (forall c, In c (s_children s) -> pos_le (el (c_loc c)) (ec (c_loc c)) (el (s_loc s)) (ec (s_loc s)) = true) /\
    ((el (s_loc s), ec (s_loc s)) = (el (s_decl s), ec (s_decl s)) \/
     exists c, In c (s_children s) /\ (el (s_loc s), ec (s_loc s)) = (el (c_loc c), ec (c_loc c))).
Proof.
  intros lc nm v Hfn s. subst s. rewrite var_sym_fn in Hfn.
  destruct (v_func v) as [fi|] eqn:Ef; [discriminate|].
  rewrite (var_sym_nonfn_loc lc nm v Ef), var_sym_decl, parent_loc_fixed. cbn [sl sc el ec].
  repeat split.
  - apply max_end_ge_start.
  - intros c Hc. apply max_end_ge_child. exact Hc.
  - destruct (max_end_source (s_children (var_sym true lc nm v)) (el (v_loc v)) (ec (v_loc v))) as [H|[x [Hx H]]].
    + left. rewrite H. reflexivity.
    + right. exists x. split; [exact Hx|]. rewrite H. reflexivity.
Qed.

Lemma var_sym_nonfn_contains : forall lc nm v,
    s_fn (var_sym true lc nm v) = false ->
    contains (s_loc (var_sym true lc nm v)) (s_decl (var_sym true lc nm v)) = true.
Proof.
  intros lc nm v Hfn. destruct (var_sym_nonfn_range lc nm v Hfn) as [H1 [H2 [H3 _]]].
  unfold contains. rewrite H1, H2, pos_le_refl, H3. reflexivity.
Qed.

(* children that are not function-valued are located at their declaring identifier *)
Lemma child_sym_nonfn : forall pre k v, c_fn (child_sym pre k v) = false -> c_loc (child_sym pre k v) = c_decl (child_sym pre k v).
Proof. intros pre k v. unfold child_sym. destruct (v_func v); cbn; [discriminate | reflexivity]. Qed.

Lemma var_sym_child_form : forall fx lc nm v c,
    In c (s_children (var_sym fx lc nm v)) -> exists k sv, In (k, sv) (v_sub v) /\ v_func v = None /\ c = child_sym nm k sv.
Proof.
  intros fx lc nm v c H. rewrite var_sym_children in H. destruct (v_func v); [destruct H|].
  apply in_map_iff in H. destruct H as [[k sv] [Heq Hin]]. exists k, sv. cbn [fst snd] in Heq. auto.
Qed.
