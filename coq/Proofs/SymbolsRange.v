(* C19 - shape of the outline entries: every entry is `var_sym` of a variable stored in the symbol tables, and the
   range rules of the repaired code (fx_all): a function-valued entry is the Union of the function literal and the
   declaring identifier, an entry with children the Union of its identifier and all children (the smallest range that
   contains them). These lemmas hold for EVERY state (no hypothesis on the program). *)
From Coq Require Import List NArith ZArith Bool Lia ZifyBool.
From LH Require Import Base.Bytes Base.Res Model.Lexer Model.Ast Model.Symbols Spec.SymbolSpec.
Import ListNotations.

(* ------------------------------------------------------------------ induction over nested scopes / variables *)
Section ScopeInd.
  Variable P : scope -> Prop.
  Hypothesis Hstep : forall f vars subs, Forall P subs -> P (Scope f vars subs).
  Fixpoint scope_ind' (s : scope) {struct s} : P s :=
    match s with
    | Scope f vars subs =>
      Hstep f vars subs
            ((fix go (l : list scope) {struct l} : Forall P l :=
                match l with
                | [] => Forall_nil P
                | x :: l' => Forall_cons x (scope_ind' x) (go l')
                end) subs)
    end.
End ScopeInd.

Section VinfoInd.
  Variable P : vinfo -> Prop.
  Hypothesis Hstep : forall l f subs p g r e, Forall (fun kv => P (snd kv)) subs -> P (VI l f subs p g r e).
  Fixpoint vinfo_ind' (v : vinfo) {struct v} : P v :=
    match v with
    | VI l f subs p g r e =>
      Hstep l f subs p g r e
            ((fix go (s : list (bytes * vinfo)) {struct s} : Forall (fun kv => P (snd kv)) s :=
                match s with
                | [] => Forall_nil _
                | kv :: s' => Forall_cons kv (vinfo_ind' (snd kv)) (go s')
                end) subs)
    end.
End VinfoInd.

(* every variable of a scope tree (all VarVec elements, all sub-scopes) satisfies Q *)
Section ScopeAll.
  Variable Q : vinfo -> Prop.
  Fixpoint scope_all (s : scope) {struct s} : Prop :=
    match s with
    | Scope _ vars subs =>
      Forall (fun kv => Forall Q (snd kv)) vars /\
      (fix go (l : list scope) {struct l} : Prop :=
         match l with [] => True | x :: l' => scope_all x /\ go l' end) subs
    end.

  Lemma scope_all_go : forall l,
      (fix go (l : list scope) {struct l} : Prop :=
         match l with [] => True | x :: l' => scope_all x /\ go l' end) l <-> Forall scope_all l.
  Proof.
    induction l as [|x l IH]; cbn; split; intros H; auto.
    - destruct H as [H1 H2]. constructor; [exact H1 | apply IH; exact H2].
    - inversion H as [|? ? H1 H2]; subst. split; [exact H1 | apply IH; exact H2].
  Qed.

  Lemma scope_all_unfold : forall f vars subs,
      scope_all (Scope f vars subs) <-> Forall (fun kv => Forall Q (snd kv)) vars /\ Forall scope_all subs.
  Proof.
    intros f vars subs. cbn [scope_all]. rewrite scope_all_go. tauto.
  Qed.
End ScopeAll.

(* ------------------------------------------------------------------ every entry is var_sym of a stored variable *)
Lemma last_var_in : forall vs v, last_var vs = Some v -> In v vs.
Proof.
  intros vs v H. unfold last_var in H. destruct (rev vs) as [|x r] eqn:E; [discriminate|].
  injection H as <-. apply in_rev. rewrite E. left; reflexivity.
Qed.

Lemma listed_of_in : forall fx vs v, In v (listed_of fx vs) -> In v vs /\ v_param v = false.
Proof.
  intros fx vs v H. unfold listed_of in H. apply filter_In in H. destruct H as [H Hp].
  split; [|destruct (v_param v); [discriminate | reflexivity]].
  destruct (fx_alldecl fx); [exact H|]. destruct (last_var vs) as [v0|] eqn:E; [|destruct H].
  destruct H as [<-|[]]. apply last_var_in. exact E.
Qed.

Lemma listed_locals_in : forall fx vars nm v,
    In (nm, v) (listed_locals fx vars) -> exists vs, In (nm, vs) vars /\ In v (listed_of fx vs) /\ v_param v = false.
Proof.
  intros fx vars nm v H. unfold listed_locals in H. apply in_flat_map in H. destruct H as [[k vs] [Hin H]].
  cbn [fst snd] in H. apply in_map_iff in H. destruct H as [v0 [Heq Hv0]]. injection Heq as <- <-.
  exists vs. split; [exact Hin|]. split; [exact Hv0|]. apply (listed_of_in fx vs v0 Hv0).
Qed.

Lemma find_all_local_unfold : forall fx gs f vars subs,
    find_all_local fx gs (Scope f vars subs) =
    map (fun kv => var_sym fx true (fst kv) (snd kv)) (listed_locals fx vars) ++
    flat_map (fun sub => match s_fid sub with
                         | Some id => if memN id (gs ++ flat_map (fun kv => claimed_fids (snd kv)) (listed_locals fx vars))
                                      then [] else find_all_local fx [] sub
                         | None => find_all_local fx [] sub
                         end) subs.
Proof.
  intros fx gs f vars subs. reflexivity.
Qed.

Lemma find_all_local_entry : forall (Q : vinfo -> Prop) fx scp gs s,
    scope_all Q scp -> In s (find_all_local fx gs scp) ->
    exists nm v, Q v /\ v_param v = false /\ s = var_sym fx true nm v.
Proof.
  intros Q fx scp. induction scp as [f vars subs IH] using scope_ind'. intros gs s Hall Hin.
  apply scope_all_unfold in Hall. destruct Hall as [Hv Hs].
  rewrite find_all_local_unfold in Hin. apply in_app_or in Hin. destruct Hin as [Hin|Hin].
  - apply in_map_iff in Hin. destruct Hin as [[nm v] [Heq Hl]]. cbn [fst snd] in Heq.
    apply listed_locals_in in Hl. destruct Hl as [vs [Hvs [Hlast Hp]]].
    exists nm, v. split; [|split; [exact Hp | symmetry; exact Heq]].
    rewrite Forall_forall in Hv. specialize (Hv _ Hvs). cbn [snd] in Hv. rewrite Forall_forall in Hv.
    apply Hv. apply (listed_of_in fx vs v Hlast).
  - apply in_flat_map in Hin. destruct Hin as [sub [Hsub Hin]].
    rewrite Forall_forall in IH, Hs. specialize (IH _ Hsub). specialize (Hs _ Hsub).
    destruct (s_fid sub) as [id|].
    + destruct (memN id _); [destruct Hin|]. eapply IH; eauto.
    + eapply IH; eauto.
Qed.

(* the ghost mark of an entry; every projection the theorems read is unchanged by it *)
Definition set_undecl (u : bool) (s : sym) : sym :=
  mkS (s_key s) (s_name s) (s_fn s) (s_loc s) (s_decl s) (s_children s) (s_local s) u.

Lemma var_sym_set_undecl : forall fx lc nm v, set_undecl false (var_sym fx lc nm v) = var_sym fx lc nm v.
Proof. intros. unfold var_sym. destruct (v_func v); [reflexivity|]. destruct (v_sub v); reflexivity. Qed.

Lemma undeclared_syms_in : forall fx st s,
    In s (undeclared_syms fx st) ->
    fx_undecl fx = true /\
    exists nm v, In (nm, v) (nodefs st) /\ assoc_mem nm (globs st) = false /\ v_sub v <> [] /\
                 s = set_undecl true (var_sym fx false nm v).
Proof.
  intros fx st s H. unfold undeclared_syms in H. destruct (fx_undecl fx); [|destruct H]. split; [reflexivity|].
  apply in_flat_map in H. destruct H as [[nm v] [Hin H]]. cbn [fst snd] in H.
  destruct (v_sub v) as [|m ms] eqn:Es; [destruct H|].
  destruct (assoc_mem nm (globs st)) eqn:Eg; [destruct H|]. destruct H as [<-|[]].
  exists nm, v. repeat split; auto. rewrite Es. discriminate.
Qed.

Lemma find_all_symbol_parts : forall fx st s,
    In s (find_all_symbol fx st) ->
    In s (find_all_local fx (gmaps_fids (globs st)) (main_scope st)) \/
    (exists nm v, In (nm, v) (globs st) /\ s = var_sym fx false nm v) \/
    In s (undeclared_syms fx st).
Proof.
  intros fx st s Hin. unfold find_all_symbol in Hin. apply in_app_or in Hin. destruct Hin as [Hin|Hin]; [left; exact Hin|].
  apply in_app_or in Hin. destruct Hin as [Hin|Hin]; [|right; right; exact Hin].
  right; left. apply in_map_iff in Hin. destruct Hin as [[nm v] [Heq Hl]]. cbn [fst snd] in Heq. exists nm, v. auto.
Qed.

Lemma find_all_symbol_entry : forall (Q : vinfo -> Prop) fx st s,
    scope_all Q (main_scope st) -> Forall (fun kv => Q (snd kv)) (globs st) -> Forall (fun kv => Q (snd kv)) (nodefs st) ->
    In s (find_all_symbol fx st) ->
    exists lc nm v u, Q v /\ s = set_undecl u (var_sym fx lc nm v).
Proof.
  intros Q fx st s Hm Hg Hn Hin. apply find_all_symbol_parts in Hin. destruct Hin as [Hin|[Hin|Hin]].
  - destruct (find_all_local_entry Q fx _ _ _ Hm Hin) as [nm [v [HQ [_ Heq]]]]. exists true, nm, v, false.
    rewrite var_sym_set_undecl. auto.
  - destruct Hin as [nm [v [Hl ->]]].
    rewrite Forall_forall in Hg. specialize (Hg _ Hl). exists false, nm, v, false. rewrite var_sym_set_undecl. auto.
  - apply undeclared_syms_in in Hin. destruct Hin as [_ [nm [v [Hl [_ [_ ->]]]]]].
    rewrite Forall_forall in Hn. specialize (Hn _ Hl). exists false, nm, v, true. auto.
Qed.

Lemma scope_all_True : forall scp, scope_all (fun _ => True) scp.
Proof.
  induction scp as [f vars subs IH] using scope_ind'. apply scope_all_unfold. split; [|exact IH].
  apply Forall_forall. intros kv _. apply Forall_forall. auto.
Qed.

Lemma find_all_symbol_var_sym : forall fx st s,
    In s (find_all_symbol fx st) -> exists lc nm v u, s = set_undecl u (var_sym fx lc nm v).
Proof.
  intros fx st s Hin.
  destruct (find_all_symbol_entry (fun _ => True) fx st s (scope_all_True _)) as [lc [nm [v [u [_ H]]]]]; auto.
  - apply Forall_forall. auto.
  - apply Forall_forall. auto.
  - eauto.
Qed.

(* ------------------------------------------------------------------ positions *)
Lemma pos_le_refl : forall l c, pos_le l c l c = true.
Proof. intros. unfold pos_le. lia. Qed.

Lemma pos_le_trans : forall l1 c1 l2 c2 l3 c3,
    pos_le l1 c1 l2 c2 = true -> pos_le l2 c2 l3 c3 = true -> pos_le l1 c1 l3 c3 = true.
Proof. unfold pos_le. intros. lia. Qed.

Lemma end_gt_pos_le : forall l1 c1 l2 c2, end_gt l1 c1 l2 c2 = true -> pos_le l2 c2 l1 c1 = true.
Proof. unfold end_gt, pos_le. intros. lia. Qed.

Lemma not_end_gt_pos_le : forall l1 c1 l2 c2, end_gt l1 c1 l2 c2 = false -> pos_le l1 c1 l2 c2 = true.
Proof. unfold end_gt, pos_le. intros. lia. Qed.

Lemma contains_refl : forall l, contains l l = true.
Proof. intros. unfold contains. rewrite !pos_le_refl. reflexivity. Qed.

Lemma contains_trans : forall a b c, contains a b = true -> contains b c = true -> contains a c = true.
Proof. unfold contains, pos_le. intros. lia. Qed.

(* ------------------------------------------------------------------ Location.Union *)
Lemma loc_union_contains_l : forall a b, contains (loc_union a b) a = true.
Proof.
  intros a b. unfold loc_union, loc_before, end_gt, contains, pos_le.
  destruct ((sl a <? sl b)%Z || (sl a =? sl b)%Z && (sc a <=? sc b)%Z) eqn:E1; cbn [sl sc el ec];
    match goal with |- context [if ?c then _ else _] => destruct c eqn:E2 end; cbn [sl sc el ec]; lia.
Qed.

Lemma loc_union_contains_r : forall a b, contains (loc_union a b) b = true.
Proof.
  intros a b. unfold loc_union, loc_before, end_gt, contains, pos_le.
  destruct ((sl a <? sl b)%Z || (sl a =? sl b)%Z && (sc a <=? sc b)%Z) eqn:E1; cbn [sl sc el ec];
    match goal with |- context [if ?c then _ else _] => destruct c eqn:E2 end; cbn [sl sc el ec]; lia.
Qed.

(* it is the smallest such range: each of its two ends is an end of one of the arguments *)
Lemma loc_union_ends : forall a b,
    ((sl (loc_union a b), sc (loc_union a b)) = (sl a, sc a) \/ (sl (loc_union a b), sc (loc_union a b)) = (sl b, sc b)) /\
    ((el (loc_union a b), ec (loc_union a b)) = (el a, ec a) \/ (el (loc_union a b), ec (loc_union a b)) = (el b, ec b)).
Proof.
  intros a b. unfold loc_union.
  destruct (loc_before a b); cbn [sl sc el ec];
    match goal with |- context [if ?c then _ else _] => destruct c end; cbn [sl sc el ec]; auto.
Qed.

Lemma loc_union_wf : forall a b, well_formed a = true -> well_formed b = true -> well_formed (loc_union a b) = true.
Proof.
  intros a b. unfold loc_union, loc_before, end_gt, well_formed, pos_le.
  destruct ((sl a <? sl b)%Z || (sl a =? sl b)%Z && (sc a <=? sc b)%Z) eqn:E1; cbn [sl sc el ec];
    match goal with |- context [if ?c then _ else _] => destruct c eqn:E2 end; cbn [sl sc el ec]; lia.
Qed.

(* the Union of an identifier with all children *)
Definition hull (l : loc) (cs : list csym) : loc := fold_left (fun acc c => loc_union acc (c_loc c)) cs l.

Lemma hull_contains_acc : forall cs l x, contains l x = true -> contains (hull l cs) x = true.
Proof.
  induction cs as [|c cs IH]; intros l x H; cbn [hull fold_left]; [exact H|].
  apply (IH (loc_union l (c_loc c))). eapply contains_trans; [apply loc_union_contains_l | exact H].
Qed.

Lemma hull_contains_self : forall cs l, contains (hull l cs) l = true.
Proof. intros. apply hull_contains_acc. apply contains_refl. Qed.

Lemma hull_contains_child : forall cs l c, In c cs -> contains (hull l cs) (c_loc c) = true.
Proof.
  induction cs as [|y cs IH]; intros l c Hin; [destruct Hin|]. cbn [hull fold_left].
  destruct Hin as [->|Hin].
  - apply (hull_contains_acc cs). apply loc_union_contains_r.
  - apply (IH (loc_union l (c_loc y))). exact Hin.
Qed.

Lemma hull_wf : forall cs l, well_formed l = true -> (forall c, In c cs -> well_formed (c_loc c) = true) ->
                             well_formed (hull l cs) = true.
Proof.
  induction cs as [|y cs IH]; intros l Hl Hc; cbn [hull fold_left]; [exact Hl|].
  apply (IH (loc_union l (c_loc y))).
  - apply loc_union_wf; [exact Hl | apply Hc; left; reflexivity].
  - intros c Hin. apply Hc. right; exact Hin.
Qed.

(* smallest: its start is the start of the identifier or of a child, and so is its end *)
Lemma hull_ends : forall cs l,
    ((sl (hull l cs), sc (hull l cs)) = (sl l, sc l) \/ exists c, In c cs /\ (sl (hull l cs), sc (hull l cs)) = (sl (c_loc c), sc (c_loc c))) /\
    ((el (hull l cs), ec (hull l cs)) = (el l, ec l) \/ exists c, In c cs /\ (el (hull l cs), ec (hull l cs)) = (el (c_loc c), ec (c_loc c))).
Proof.
  induction cs as [|y cs IH]; intros l; cbn [hull fold_left]; [auto|].
  destruct (IH (loc_union l (c_loc y))) as [Hs He]. destruct (loc_union_ends l (c_loc y)) as [Us Ue]. split.
  - destruct Hs as [Hs|[c [Hc Hs]]].
    + unfold hull in Hs. rewrite Hs. destruct Us as [Us|Us]; [left; exact Us | right; exists y; split; [left; reflexivity | exact Us]].
    + right. exists c. split; [right; exact Hc | exact Hs].
  - destruct He as [He|[c [Hc He]]].
    + unfold hull in He. rewrite He. destruct Ue as [Ue|Ue]; [left; exact Ue | right; exists y; split; [left; reflexivity | exact Ue]].
    + right. exists c. split; [right; exact Hc | exact He].
Qed.

Lemma parent_loc_all : forall l cs, parent_loc fx_all l cs = hull l cs.
Proof. reflexivity. Qed.

(* ------------------------------------------------------------------ the range rule of one entry *)
(* fields that do not depend on the range rule *)
Lemma var_sym_decl : forall fx lc nm v, s_decl (var_sym fx lc nm v) = v_loc v.
Proof. intros. unfold var_sym. destruct (v_func v); [reflexivity|]. destruct (v_sub v); reflexivity. Qed.

Lemma var_sym_key : forall fx lc nm v, s_key (var_sym fx lc nm v) = nm.
Proof. intros. unfold var_sym. destruct (v_func v); [reflexivity|]. destruct (v_sub v); reflexivity. Qed.

Lemma var_sym_local : forall fx lc nm v, s_local (var_sym fx lc nm v) = lc.
Proof. intros. unfold var_sym. destruct (v_func v); [reflexivity|]. destruct (v_sub v); reflexivity. Qed.

Lemma var_sym_undecl : forall fx lc nm v, s_undecl (var_sym fx lc nm v) = false.
Proof. intros. unfold var_sym. destruct (v_func v); [reflexivity|]. destruct (v_sub v); reflexivity. Qed.

Lemma var_sym_fn : forall fx lc nm v, s_fn (var_sym fx lc nm v) = is_some (v_func v).
Proof. intros. unfold var_sym. destruct (v_func v); [reflexivity|]. destruct (v_sub v); reflexivity. Qed.

Lemma var_sym_fn_loc : forall fx lc nm v fi,
    v_func v = Some fi -> s_loc (var_sym fx lc nm v) = fn_range fx (f_loc fi) (v_loc v).
Proof. intros fx lc nm v fi H. unfold var_sym. rewrite H. reflexivity. Qed.

Lemma var_sym_children : forall fx lc nm v,
    s_children (var_sym fx lc nm v) =
    match v_func v with Some _ => [] | None => map (fun kv => child_sym fx nm (fst kv) (snd kv)) (v_sub v) end.
Proof. intros. unfold var_sym. destruct (v_func v); [reflexivity|]. destruct (v_sub v); reflexivity. Qed.

Lemma var_sym_nonfn_loc : forall lc nm v,
    v_func v = None ->
    s_loc (var_sym fx_all lc nm v) = hull (v_loc v) (s_children (var_sym fx_all lc nm v)).
Proof.
  intros lc nm v H. rewrite var_sym_children. unfold var_sym. rewrite H.
  destruct (v_sub v) as [|kv r]; reflexivity.
Qed.

(* every entry contains its declaring identifier and each of its children; it is the smallest such range *)
Lemma var_sym_contains_decl : forall lc nm v,
    contains (s_loc (var_sym fx_all lc nm v)) (s_decl (var_sym fx_all lc nm v)) = true.
Proof.
  intros lc nm v. rewrite var_sym_decl. destruct (v_func v) as [fi|] eqn:Ef.
  - rewrite (var_sym_fn_loc fx_all lc nm v fi Ef). apply loc_union_contains_r.
  - rewrite (var_sym_nonfn_loc lc nm v Ef). apply hull_contains_self.
Qed.

Lemma var_sym_contains_child : forall lc nm v c,
    In c (s_children (var_sym fx_all lc nm v)) -> contains (s_loc (var_sym fx_all lc nm v)) (c_loc c) = true.
Proof.
  intros lc nm v c Hc. destruct (v_func v) as [fi|] eqn:Ef.
  - rewrite var_sym_children, Ef in Hc. destruct Hc.
  - rewrite (var_sym_nonfn_loc lc nm v Ef). apply hull_contains_child. exact Hc.
Qed.

Lemma var_sym_nonfn_ends : forall lc nm v,
    s_fn (var_sym fx_all lc nm v) = false ->
    let s := var_sym fx_all lc nm v in
    ((sl (s_loc s), sc (s_loc s)) = (sl (s_decl s), sc (s_decl s)) \/
     exists c, In c (s_children s) /\ (sl (s_loc s), sc (s_loc s)) = (sl (c_loc c), sc (c_loc c))) /\
    ((el (s_loc s), ec (s_loc s)) = (el (s_decl s), ec (s_decl s)) \/
     exists c, In c (s_children s) /\ (el (s_loc s), ec (s_loc s)) = (el (c_loc c), ec (c_loc c))).
Proof.
  intros lc nm v Hfn s. subst s. rewrite var_sym_fn in Hfn.
  destruct (v_func v) as [fi|] eqn:Ef; [discriminate|].
  rewrite (var_sym_nonfn_loc lc nm v Ef), var_sym_decl. apply hull_ends.
Qed.

Lemma child_sym_contains_decl : forall pre k v, contains (c_loc (child_sym fx_all pre k v)) (c_decl (child_sym fx_all pre k v)) = true.
Proof.
  intros pre k v. unfold child_sym. destruct (v_func v); cbn [c_loc c_decl]; [apply loc_union_contains_r | apply contains_refl].
Qed.

(* children that are not function-valued are located at their declaring identifier *)
Lemma child_sym_nonfn : forall fx pre k v, c_fn (child_sym fx pre k v) = false -> c_loc (child_sym fx pre k v) = c_decl (child_sym fx pre k v).
Proof. intros fx pre k v. unfold child_sym. destruct (v_func v); cbn; [discriminate | reflexivity]. Qed.

Lemma var_sym_child_form : forall fx lc nm v c,
    In c (s_children (var_sym fx lc nm v)) -> exists k sv, In (k, sv) (v_sub v) /\ v_func v = None /\ c = child_sym fx nm k sv.
Proof.
  intros fx lc nm v c H. rewrite var_sym_children in H. destruct (v_func v); [destruct H|].
  apply in_map_iff in H. destruct H as [[k sv] [Heq Hin]]. exists k, sv. cbn [fst snd] in Heq. auto.
Qed.
