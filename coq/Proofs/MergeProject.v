(* C09, project mode (check_second_project.go, findMaxSecondProject): the first-phase _G table of a project, the
   provider of a member added by other files and the choice among the projects a file belongs to are functions of
   the project once the files are visited in name order (fixes/C09-project-order.diff, fx = true). *)
From Coq Require Import List Arith PeanoNat NArith ZArith Bool Lia ZifyN ZifyNat ZifyBool Permutation.
From LH Require Import Base.Bytes Model.FileIndex Model.ModulePath Model.Merge Proofs.FileIndexProofs
  Proofs.MergeProofs Proofs.MergeDet.
Import ListNotations.
Local Open Scope N_scope.

(* ------------------------------------------------------------------ the table, name by name *)
Lemma vecof_project_step t m v n :
  vecof (project_step t (m, v)) n = if beq_bytes m n then vecof t n ++ [v] else vecof t n.
Proof.
  unfold project_step, vecof. destruct (beq_bytes m n) eqn:E.
  - apply beq_bytes_eq in E. subst m. destruct (aget n t) as [vec|] eqn:Ea.
    + rewrite aget_aset, beq_refl. reflexivity.
    + rewrite aget_aset, beq_refl. reflexivity.
  - destruct (aget m t) as [vec|] eqn:Ea.
    + rewrite aget_aset, (beq_sym n m), E. reflexivity.
    + rewrite aget_aset, (beq_sym n m), E. reflexivity.
Qed.

Lemma vecof_project_fold items : forall t n,
  vecof (fold_left project_step items t) n = vecof t n ++ vars_of n items.
Proof.
  induction items as [|[m v] items IH]; intros t n; [cbn; rewrite app_nil_r; reflexivity|].
  cbn [fold_left]. rewrite IH, vecof_project_step. unfold vars_of. cbn [filter fst].
  destruct (beq_bytes m n); [|reflexivity]. cbn [map snd]. rewrite <- app_assoc. reflexivity.
Qed.

(* FindGlobalGInfo on the finished table: the last insertion made for the name *)
Theorem project_winner_last items n : winner (project_merge items) n = last_opt (vars_of n items).
Proof.
  unfold winner, project_merge. pose proof (vecof_project_fold items [] n) as H. unfold vecof at 2 in H.
  cbn [aget app] in H. rewrite <- H. unfold vecof, last_opt.
  destruct (aget n (fold_left project_step items [])); reflexivity.
Qed.

(* ------------------------------------------------------------------ generateRequireFileGlobalGmaps *)
(* the files whose plain globals are inserted, in insertion order: a function of the references and FirstRequireFileMap *)
Fixpoint picked (rs : list refer) (seen : list (list N)) {struct rs} : list (list N) :=
  match rs with
  | [] => []
  | (isreq, f) :: t =>
    if isreq then (if mem_path f seen then picked t seen else f :: picked t (f :: seen))
    else f :: picked t seen
  end.

Lemma require_fold plain rs : forall seen acc,
  snd (fold_left (require_step plain) rs (seen, acc)) = acc ++ flat_map plain (picked rs seen).
Proof.
  induction rs as [|[isreq f] rs IH]; intros seen acc; [cbn; rewrite app_nil_r; reflexivity|].
  cbn [fold_left picked]. unfold require_step at 2. destruct isreq.
  - destruct (mem_path f seen); [apply IH|]. rewrite IH. cbn [flat_map]. rewrite <- app_assoc. reflexivity.
  - rewrite IH. cbn [flat_map]. rewrite <- app_assoc. reflexivity.
Qed.

Lemma require_items_picked plain refers order :
  require_items plain refers order = flat_map plain (picked (flat_map refers order) []).
Proof. unfold require_items. rewrite require_fold. reflexivity. Qed.

Lemma picked_incl rs : forall seen f, In f (picked rs seen) -> In f (map snd rs).
Proof.
  induction rs as [|[isreq g] rs IH]; intros seen f H; [contradiction|]. cbn [picked] in H. cbn [map snd].
  destruct isreq.
  - destruct (mem_path g seen); [right; apply (IH _ _ H)|].
    destruct H as [H|H]; [left; exact H|right; apply (IH _ _ H)].
  - destruct H as [H|H]; [left; exact H|right; apply (IH _ _ H)].
Qed.

(* ------------------------------------------------------------------ the repaired loops *)
(* the order in which the map hands out the project's files does not matter at all: even the tables are equal *)
Theorem project_merge_ws_perm_table g p r files files' :
  Permutation files files' -> project_merge_ws true g p r files = project_merge_ws true g p r files'.
Proof.
  intros Hp. unfold project_merge_ws, project_items, visit_order. rewrite (sort_paths_perm_eq _ _ Hp). reflexivity.
Qed.

Theorem project_merge_ws_perm_files g p r files files' :
  Permutation files files' ->
  forall n, winner (project_merge_ws true g p r files) n = winner (project_merge_ws true g p r files') n.
Proof. intros Hp n. rewrite (project_merge_ws_perm_table g p r _ _ Hp). reflexivity. Qed.

(* the files the second loop can take plain globals from *)
Definition refer_targets (r : list N -> list refer) (files : list (list N)) : list (list N) :=
  map snd (flat_map r files).

Lemma visit_order_in fx files k : In k (visit_order fx files) -> In k files.
Proof.
  destruct fx; cbn [visit_order]; [|exact (fun H => H)].
  apply (Permutation_in _ (sort_paths_perm files)).
Qed.

Lemma refer_targets_visit fx r files k :
  In k (refer_targets r (visit_order fx files)) -> In k (refer_targets r files).
Proof.
  unfold refer_targets. intros H. apply in_map_iff in H as [x [Hx Hin]]. apply in_map_iff. exists x. split; [exact Hx|].
  apply in_flat_map in Hin as [f [Hf Hxf]]. apply in_flat_map. exists f. split; [|exact Hxf].
  apply (visit_order_in fx). exact Hf.
Qed.

(* the inner maps (one file's GlobalMaps, keyed by name) in any order: same winners, before and after the repair *)
Theorem project_merge_ws_inner_perm fx g g' p p' r files :
  map_shaped g files = true -> map_shaped p (refer_targets r files) = true ->
  (forall k, In k files -> Permutation (g k) (g' k)) ->
  (forall k, In k (refer_targets r files) -> Permutation (p k) (p' k)) ->
  forall n, winner (project_merge_ws fx g p r files) n = winner (project_merge_ws fx g' p' r files) n.
Proof.
  intros Hsg Hsp Hg Hpp n. unfold project_merge_ws, project_items.
  rewrite !project_winner_last, !vars_of_app, !require_items_picked, !vars_of_flat_map. f_equal. f_equal.
  - apply flat_map_ext_in. intros k Hk. apply visit_order_in in Hk.
    apply vars_of_inner_perm; [apply (map_shaped_nodup g files k Hsg Hk)|apply Hg; exact Hk].
  - apply flat_map_ext_in. intros k Hk. apply picked_incl in Hk.
    assert (In k (refer_targets r files)) as Hk' by (apply (refer_targets_visit fx); exact Hk).
    apply vars_of_inner_perm; [apply (map_shaped_nodup p _ k Hsp Hk')|apply Hpp; exact Hk'].
Qed.

(* both map levels at once *)
Theorem project_merge_ws_perm_full g g' p p' r files files' :
  Permutation files files' ->
  map_shaped g files = true -> map_shaped p (refer_targets r files) = true ->
  (forall k, In k files -> Permutation (g k) (g' k)) ->
  (forall k, In k (refer_targets r files) -> Permutation (p k) (p' k)) ->
  forall n, winner (project_merge_ws true g p r files) n = winner (project_merge_ws true g' p' r files') n.
Proof.
  intros Hp Hsg Hsp Hg Hpp n. rewrite <- (project_merge_ws_perm_table g' p' r _ _ Hp).
  apply project_merge_ws_inner_perm; assumption.
Qed.

(* what the repaired table answers, without the table: the last definition along the sorted files, the plain globals
   of referenced files after all `_G.` ones *)
Theorem project_merge_ws_winner fx g p r files n :
  winner (project_merge_ws fx g p r files) n =
  last_opt (flat_map (fun k => vars_of n (g k)) (visit_order fx files) ++
            flat_map (fun k => vars_of n (p k)) (picked (flat_map r (visit_order fx files)) [])).
Proof.
  unfold project_merge_ws, project_items.
  rewrite project_winner_last, vars_of_app, require_items_picked, !vars_of_flat_map. reflexivity.
Qed.

(* ------------------------------------------------------------------ handleOtherFileInsertSub *)
Theorem member_provider_perm adds files files' key :
  Permutation files files' -> member_provider true adds files key = member_provider true adds files' key.
Proof. intros Hp. unfold member_provider, visit_order. rewrite (sort_paths_perm_eq _ _ Hp). reflexivity. Qed.

(* ------------------------------------------------------------------ findMaxSecondProject *)
(* c is preferred to b: more files, or equally many and the smaller entry name *)
Definition pbetter (c b : list N * N) : bool :=
  (snd b <? snd c) || ((snd c =? snd b) && bytes_ltb (fst c) (fst b)).

Definition pmax (o : option (list N * N)) (c : list N * N) : option (list N * N) :=
  match o with None => Some c | Some b => if pbetter c b then Some c else Some b end.

Definition enc (o : option (list N * N)) : option (list N) * N :=
  match o with None => (None, 0) | Some (e, n) => (Some e, n) end.

(* every project that contains the file has at least one file: a representation invariant, boolean *)
Definition sizes_pos (ps : list (list N * N)) : bool := forallb (fun c => 1 <=? snd c) ps.

Lemma pick_step_pmax o c : (1 <=? snd c) = true -> pick_step true (enc o) c = enc (pmax o c).
Proof.
  intros Hc. destruct c as [e n]. cbn [snd] in Hc. destruct o as [[b mx]|]; cbn [enc pmax pick_step].
  - unfold pbetter. cbn [fst snd andb]. destruct ((mx <? n) || ((n =? mx) && bytes_ltb e b)); reflexivity.
  - assert ((0 <? n) = true) as -> by lia. reflexivity.
Qed.

Lemma pick_fold_pmax ps : forall o, sizes_pos ps = true ->
  fold_left (pick_step true) ps (enc o) = enc (fold_left pmax ps o).
Proof.
  induction ps as [|c ps IH]; intros o Hs; [reflexivity|]. cbn [sizes_pos forallb] in Hs.
  apply andb_true_iff in Hs as [Hc Hs]. cbn [fold_left]. rewrite (pick_step_pmax o c Hc). apply IH. exact Hs.
Qed.

Lemma pick_project_pmax ps : sizes_pos ps = true ->
  pick_project true ps = option_map fst (fold_left pmax ps None).
Proof.
  intros Hs. unfold pick_project. change (None, 0) with (enc None). rewrite (pick_fold_pmax ps None Hs).
  destruct (fold_left pmax ps None) as [[e n]|]; reflexivity.
Qed.

Lemma pbetter_trans a b c : pbetter a b = true -> pbetter b c = true -> pbetter a c = true.
Proof.
  unfold pbetter. destruct a as [ea na], b as [eb nb], c as [ec nc]. cbn [fst snd]. intros H1 H2.
  apply orb_true_iff in H1. apply orb_true_iff in H2. apply orb_true_iff.
  destruct H1 as [H1|H1]; destruct H2 as [H2|H2].
  - left. lia.
  - apply andb_true_iff in H2 as [H2 _]. left. lia.
  - apply andb_true_iff in H1 as [H1 _]. left. lia.
  - apply andb_true_iff in H1 as [H1 H1']. apply andb_true_iff in H2 as [H2 H2']. right.
    apply andb_true_iff. split; [lia|]. apply (bytes_ltb_trans _ _ _ H1' H2').
Qed.

Lemma pbetter_total a b : pbetter a b = false -> pbetter b a = false -> a = b.
Proof.
  unfold pbetter. destruct a as [ea na], b as [eb nb]. cbn [fst snd]. intros H1 H2.
  apply orb_false_iff in H1 as [H1 H1']. apply orb_false_iff in H2 as [H2 H2'].
  assert (na = nb) as -> by lia. rewrite N.eqb_refl in H1', H2'. cbn [andb] in H1', H2'.
  rewrite (bytes_le_antisym _ _ H1' H2'). reflexivity.
Qed.

(* the fold keeps an element that nothing seen so far is preferred to *)
Lemma pmax_fold_spec ps : forall o,
  match fold_left pmax ps o with
  | None => o = None /\ ps = []
  | Some m => (o = Some m \/ In m ps) /\ forall c, o = Some c \/ In c ps -> pbetter c m = false
  end.
Proof.
  induction ps as [|c ps IH]; intros o.
  - cbn [fold_left]. destruct o as [m|]; [|split; reflexivity].
    split; [left; reflexivity|]. intros c [Hc|[]]. injection Hc as <-.
    unfold pbetter. destruct m as [e n]. cbn [fst snd]. rewrite bytes_ltb_irrefl. lia.
  - cbn [fold_left]. specialize (IH (pmax o c)). destruct (fold_left pmax ps (pmax o c)) as [m|].
    + destruct IH as [Hin Hmax]. split.
      * destruct Hin as [Hin|Hin]; [|right; right; exact Hin].
        unfold pmax in Hin. destruct o as [b|]; [|inversion Hin; right; left; reflexivity].
        destruct (pbetter c b); inversion Hin; subst; [right; left; reflexivity|left; reflexivity].
      * intros x Hx. destruct Hx as [Hx|[Hx|Hx]]; [| |apply Hmax; right; exact Hx].
        -- subst o. unfold pmax in Hmax. destruct (pbetter c x) eqn:Ecx.
           ++ destruct (pbetter x m) eqn:Exm; [|reflexivity].
              rewrite <- (Hmax c (or_introl eq_refl)). symmetry. apply (pbetter_trans _ _ _ Ecx Exm).
           ++ apply Hmax. left. reflexivity.
        -- subst x. unfold pmax in Hmax. destruct o as [b|]; [|apply Hmax; left; reflexivity].
           destruct (pbetter c b) eqn:Ecb; [apply Hmax; left; reflexivity|].
           destruct (pbetter c m) eqn:Ecm; [|reflexivity].
           assert (pbetter b m = false) as Hbm by (apply Hmax; left; reflexivity).
           (* c is preferred to m, b is not: were b preferred to c ... *)
           destruct (pbetter b c) eqn:Ebc.
           ++ rewrite (pbetter_trans _ _ _ Ebc Ecm) in Hbm. discriminate.
           ++ rewrite (pbetter_total _ _ Ecb Ebc) in Ecm. rewrite Ecm in Hbm. discriminate.
    + destruct IH as [Ho _]. unfold pmax in Ho. destruct o as [b|]; [destruct (pbetter c b)|]; discriminate.
Qed.

Lemma pmax_perm ps ps' : Permutation ps ps' -> fold_left pmax ps None = fold_left pmax ps' None.
Proof.
  intros Hp. pose proof (pmax_fold_spec ps None) as H1. pose proof (pmax_fold_spec ps' None) as H2.
  destruct (fold_left pmax ps None) as [m|]; destruct (fold_left pmax ps' None) as [m'|].
  - destruct H1 as [[H1|H1] M1]; [discriminate|]. destruct H2 as [[H2|H2] M2]; [discriminate|].
    f_equal. apply pbetter_total.
    + apply M2. right. apply (Permutation_in _ Hp). exact H1.
    + apply M1. right. apply (Permutation_in _ (Permutation_sym Hp)). exact H2.
  - destruct H2 as [_ H2]. subst ps'. apply Permutation_sym, Permutation_nil in Hp. subst ps.
    destruct H1 as [[H1|[]] _]. discriminate.
  - destruct H1 as [_ H1]. subst ps. apply Permutation_nil in Hp. subst ps'.
    destruct H2 as [[H2|[]] _]. discriminate.
  - reflexivity.
Qed.

(* the repaired choice is the same whatever order the map hands out the projects in *)
Theorem pick_project_perm ps ps' :
  Permutation ps ps' -> sizes_pos ps = true -> pick_project true ps = pick_project true ps'.
Proof.
  intros Hp Hs.
  assert (sizes_pos ps' = true) as Hs'.
  { unfold sizes_pos in *. rewrite forallb_forall in *. intros c Hc. apply Hs.
    apply (Permutation_in _ (Permutation_sym Hp)). exact Hc. }
  rewrite (pick_project_pmax ps Hs), (pick_project_pmax ps' Hs'), (pmax_perm ps ps' Hp). reflexivity.
Qed.

(* the repair keeps the preference: the chosen project is one of those with the most files *)
Theorem pick_project_most ps e : sizes_pos ps = true -> pick_project true ps = Some e ->
  exists n, In (e, n) ps /\ forall c, In c ps -> snd c <= n.
Proof.
  intros Hs H. rewrite (pick_project_pmax ps Hs) in H. pose proof (pmax_fold_spec ps None) as Hm.
  destruct (fold_left pmax ps None) as [[e' n]|]; [|discriminate]. cbn [option_map fst] in H. inversion H; subst e'.
  destruct Hm as [[Hm|Hm] Hmax]; [discriminate|]. exists n. split; [exact Hm|].
  intros c Hc. specialize (Hmax c (or_intror Hc)). unfold pbetter in Hmax. cbn [fst snd] in Hmax.
  apply orb_false_iff in Hmax as [Hmax _]. lia.
Qed.
