(* C02, URI -> key: the repaired decode (url.PathUnescape) inverts the client's percent-encoder, hence it is injective
   on canonical URIs; the boolean `inj_on` means what it says. *)
From Coq Require Import List NArith Bool Lia ZifyN ZifyNat ZifyBool.
From LH Require Import Base.Bytes Base.Res Base.Utf8 Model.TextSync Model.TextSyncUri Spec.LspText Spec.LspTextUri.
Import ListNotations.
Local Open Scope N_scope.

(* ---------- strings.Replace(s, prefix, "", 1) on a string that starts with the prefix ---------- *)
Lemma strip_prefix_app p : forall r, strip_prefix p (p ++ r) = Some r.
Proof.
  induction p as [|a p IH]; intros r; cbn [strip_prefix app]; [reflexivity|].
  rewrite N.eqb_refl. apply IH.
Qed.

Lemma strip_prefix_inv p : forall u r, strip_prefix p u = Some r -> u = p ++ r.
Proof.
  induction p as [|a p IH]; intros u r H; cbn [strip_prefix app] in *.
  - injection H as <-. reflexivity.
  - destruct u as [|b u]; [discriminate|]. destruct (a =? b) eqn:E; [|discriminate].
    apply N.eqb_eq in E. subst b. f_equal. apply IH, H.
Qed.

Lemma remove_first_strip p u r : strip_prefix p u = Some r -> remove_first p u = r.
Proof. intros H. destruct u as [|c t]; cbn [remove_first]; rewrite H; reflexivity. Qed.

(* ---------- hex digits ---------- *)
Lemma uphex_roundtrip a : isuphex a = true -> hexdigit (unhex a) = a /\ unhex a < 16 /\ ishex a = true.
Proof.
  unfold isuphex, hexdigit, unhex, ishex. intros H.
  destruct ((48 <=? a) && (a <=? 57)) eqn:E1.
  - repeat split; try lia. destruct (a - 48 <? 10) eqn:E; lia.
  - destruct ((97 <=? a) && (a <=? 102)) eqn:E2; [lia|].
    destruct ((65 <=? a) && (a <=? 70)) eqn:E3; [|lia].
    repeat split; try lia. destruct (a - 55 <? 10) eqn:E; lia.
Qed.

Lemma hexdigit_up x : x < 16 -> isuphex (hexdigit x) = true /\ unhex (hexdigit x) = x.
Proof.
  unfold isuphex, hexdigit, unhex. intros H. destruct (x <? 10) eqn:E.
  - replace ((48 <=? 48 + x) && (48 + x <=? 57)) with true by lia. split; lia.
  - replace ((48 <=? 55 + x) && (55 + x <=? 57)) with false by lia.
    replace ((97 <=? 55 + x) && (55 + x <=? 102)) with false by lia.
    replace ((65 <=? 55 + x) && (55 + x <=? 70)) with true by lia. split; lia.
Qed.

Lemma div_mod_16 x y : y < 16 -> (x * 16 + y) / 16 = x /\ (x * 16 + y) mod 16 = y.
Proof.
  intros H. split.
  - rewrite N.div_add_l by lia. rewrite N.div_small by exact H. lia.
  - rewrite N.add_comm, N.mod_add by lia. apply N.mod_small, H.
Qed.

(* ---------- the decode inverts the encoder on canonical paths ---------- *)
Definition no_bs (k : list N) : bool := forallb (fun c => negb (c =? 92)) k.

Lemma replace_bs_id k : no_bs k = true -> replace_bs k = k.
Proof.
  unfold no_bs, replace_bs. induction k as [|c k IH]; cbn [forallb map]; [reflexivity|].
  intros H. apply andb_true_iff in H as [H1 H2]. rewrite (IH H2).
  destruct (c =? 92); [discriminate|reflexivity].
Qed.

Lemma canon_path_decode_len raw (H37 : raw 37 = false) (H92 : raw 92 = false) : forall n s,
  (length s <= n)%nat -> canon_path raw s = true ->
  exists k, unescape true s = Some k /\ encode_path raw k = s /\ no_bs k = true.
Proof.
  induction n as [|n IH]; intros s Hn Hc.
  - destruct s; [|cbn [length] in Hn; lia]. exists []. repeat split.
  - destruct s as [|c t]; [exists []; repeat split|].
    cbn [canon_path unescape] in *. destruct (c =? 37) eqn:E37.
    + destruct t as [|a [|b t2]]; try discriminate.
      apply andb_true_iff in Hc as [Hc Hrest]. apply andb_true_iff in Hc as [Hc Hv92].
      apply andb_true_iff in Hc as [Hc Hraw]. apply andb_true_iff in Hc as [Ha Hb].
      destruct (uphex_roundtrip a Ha) as (Ha1 & Ha2 & Ha3).
      destruct (uphex_roundtrip b Hb) as (Hb1 & Hb2 & Hb3).
      destruct (IH t2 ltac:(cbn [length] in Hn; lia) Hrest) as (k & Hk1 & Hk2 & Hk3).
      rewrite Ha3, Hb3, Hk1. cbn [andb option_map].
      exists (unhex a * 16 + unhex b :: k). split; [reflexivity|]. split.
      * unfold encode_path in *. cbn [flat_map]. unfold enc_byte at 1.
        apply negb_true_iff in Hraw. rewrite Hraw.
        destruct (div_mod_16 (unhex a) (unhex b) Hb2) as [-> ->].
        rewrite Ha1, Hb1, Hk2. apply N.eqb_eq in E37. subst c. reflexivity.
      * unfold no_bs in *. cbn [forallb]. rewrite Hv92, Hk3. reflexivity.
    + apply andb_true_iff in Hc as [Hraw Hrest].
      destruct (IH t ltac:(cbn [length] in Hn; lia) Hrest) as (k & Hk1 & Hk2 & Hk3).
      assert (Hc92 : (c =? 92) = false).
      { destruct (c =? 92) eqn:E; [|reflexivity]. apply N.eqb_eq in E. subst c. congruence. }
      exists (c :: k). split; [|split].
      * rewrite Hk1. destruct (c =? 43) eqn:E43; [|reflexivity].
        apply N.eqb_eq in E43. subst c. reflexivity.
      * unfold encode_path in *. cbn [flat_map]. unfold enc_byte at 1. rewrite Hraw, Hk2. reflexivity.
      * unfold no_bs in *. cbn [forallb]. rewrite Hc92, Hk3. reflexivity.
Qed.

Lemma canon_path_decode raw s : raw_ok raw = true -> canon_path raw s = true ->
  exists k, unescape true s = Some k /\ encode_path raw k = s /\ no_bs k = true.
Proof.
  unfold raw_ok. intros H Hc. apply andb_true_iff in H as [H1 H2].
  apply negb_true_iff in H1. apply negb_true_iff in H2.
  exact (canon_path_decode_len raw H1 H2 (length s) s (le_n _) Hc).
Qed.

(* a canonical URI is the prefix followed by the encoding of its own key *)
Lemma canonical_key raw prefix u : canonical raw prefix u = true ->
  u = prefix ++ encode_path raw (uri_key true prefix u).
Proof.
  unfold canonical. intros H. apply andb_true_iff in H as [Hr H].
  destruct (strip_prefix prefix u) as [rest|] eqn:Hs; [|discriminate].
  destruct (canon_path_decode raw rest Hr H) as (k & Hk1 & Hk2 & Hk3).
  unfold uri_key. rewrite (remove_first_strip _ _ _ Hs), Hk1, (replace_bs_id k Hk3), Hk2.
  apply strip_prefix_inv, Hs.
Qed.

Theorem key_injective_canonical : forall raw prefix u1 u2,
  canonical raw prefix u1 = true -> canonical raw prefix u2 = true ->
  uri_key true prefix u1 = uri_key true prefix u2 -> u1 = u2.
Proof.
  intros raw prefix u1 u2 H1 H2 E.
  rewrite (canonical_key raw prefix u1 H1), (canonical_key raw prefix u2 H2), E. reflexivity.
Qed.

(* ---------- and the encoder produces canonical URIs that decode to the path they were made from ---------- *)
Lemma unescape_encode raw (H37 : raw 37 = false) (H92 : raw 92 = false) : forall k,
  bytes_ok k = true -> no_bs k = true ->
  canon_path raw (encode_path raw k) = true /\ unescape true (encode_path raw k) = Some k.
Proof.
  unfold bytes_ok, is_byte, no_bs, encode_path.
  induction k as [|c k IH]; intros Hb Hn; cbn [forallb flat_map] in *; [split; reflexivity|].
  apply andb_true_iff in Hb as [Hb1 Hb2]. apply andb_true_iff in Hn as [Hn1 Hn2].
  destruct (IH Hb2 Hn2) as [IH1 IH2]. unfold enc_byte at 1 3. destruct (raw c) eqn:Hraw.
  - assert (E37 : (c =? 37) = false).
    { destruct (c =? 37) eqn:E; [|reflexivity]. apply N.eqb_eq in E. subst c. congruence. }
    cbn [app canon_path unescape]. rewrite E37, Hraw, IH1, IH2. split; [reflexivity|].
    destruct (c =? 43) eqn:E43; [|reflexivity]. apply N.eqb_eq in E43. subst c. reflexivity.
  - assert (Hq : c / 16 < 16) by (apply N.div_lt_upper_bound; lia).
    assert (Hr : c mod 16 < 16) by (apply N.mod_lt; lia).
    destruct (hexdigit_up _ Hq) as [Hq1 Hq2]. destruct (hexdigit_up _ Hr) as [Hr1 Hr2].
    destruct (uphex_roundtrip _ Hq1) as (_ & _ & Hq3). destruct (uphex_roundtrip _ Hr1) as (_ & _ & Hr3).
    assert (Hv : c / 16 * 16 + c mod 16 = c) by (pose proof (N.div_mod c 16 ltac:(lia)); lia).
    cbn [app canon_path unescape]. rewrite N.eqb_refl, Hq1, Hr1, Hq2, Hr2, Hq3, Hr3, Hv, Hraw, Hn1, IH1, IH2.
    split; reflexivity.
Qed.

Theorem encode_canonical : forall raw prefix k,
  raw_ok raw = true -> bytes_ok k = true -> no_bs k = true ->
  canonical raw prefix (prefix ++ encode_path raw k) = true /\
  uri_key true prefix (prefix ++ encode_path raw k) = k.
Proof.
  intros raw prefix k Hr Hb Hn. unfold canonical, uri_key. rewrite Hr.
  rewrite (remove_first_strip _ _ _ (strip_prefix_app prefix _)), strip_prefix_app.
  unfold raw_ok in Hr. apply andb_true_iff in Hr as [H1 H2].
  apply negb_true_iff in H1. apply negb_true_iff in H2.
  destruct (unescape_encode raw H1 H2 k Hb Hn) as [-> ->].
  split; [reflexivity|apply replace_bs_id, Hn].
Qed.

(* ---------- the boolean inj_on ---------- *)
Lemma inj_on_spec ux prefix us : inj_on ux prefix us = true ->
  forall u1 u2, In u1 us -> In u2 us -> uri_key ux prefix u1 = uri_key ux prefix u2 -> u1 = u2.
Proof.
  unfold inj_on. intros H u1 u2 H1 H2 E.
  rewrite forallb_forall in H. specialize (H u1 H1). rewrite forallb_forall in H. specialize (H u2 H2).
  rewrite E in H. replace (beq_bytes (uri_key ux prefix u2) (uri_key ux prefix u2)) with true in H
    by (symmetry; apply beq_bytes_eq; reflexivity).
  cbn [negb orb] in H. apply beq_bytes_eq, H.
Qed.

Lemma inj_on_canonical raw prefix us :
  forallb (canonical raw prefix) us = true -> inj_on true prefix us = true.
Proof.
  intros H. rewrite forallb_forall in H. unfold inj_on.
  apply forallb_forall. intros u1 H1. apply forallb_forall. intros u2 H2.
  destruct (beq_bytes (uri_key true prefix u1) (uri_key true prefix u2)) eqn:E; [|reflexivity].
  apply beq_bytes_eq in E. cbn [negb orb]. apply beq_bytes_eq.
  exact (key_injective_canonical raw prefix u1 u2 (H u1 H1) (H u2 H2) E).
Qed.

(* ---------- InitialRootURIAndPath: which prefix the server removes ---------- *)
Definition no_pct (k : list N) : bool := forallb (fun c => negb (c =? 37)) k.

Lemma unescape_app_no_pct a b : no_pct a = true -> unescape true (a ++ b) = option_map (app a) (unescape true b).
Proof.
  unfold no_pct. induction a as [|c a IH]; cbn [forallb app]; intros H.
  - destruct (unescape true b); reflexivity.
  - apply andb_true_iff in H as [H1 H2]. cbn [unescape]. apply negb_true_iff in H1. rewrite H1, (IH H2).
    destruct (unescape true b) as [t|]; cbn [option_map]; destruct (c =? 43) eqn:E; try reflexivity.
    apply N.eqb_eq in E. subst c. reflexivity.
Qed.

Lemma unescape_no_pct k : no_pct k = true -> unescape true k = Some k.
Proof.
  intros H. pose proof (unescape_app_no_pct k [] H) as E. rewrite app_nil_r in E. rewrite E.
  cbn [unescape option_map]. rewrite app_nil_r. reflexivity.
Qed.

(* a root directory (no backslash), its URI made by the client's encoder: the server finds file:// *)
Theorem init_prefix_canonical : forall raw cur k,
  raw_ok raw = true -> bytes_ok k = true -> no_bs k = true -> k <> [] ->
  init_prefix true cur (prefix2 ++ encode_path raw k) k = prefix2.
Proof.
  intros raw cur k Hr Hb Hn Hk. unfold init_prefix.
  unfold raw_ok in Hr. apply andb_true_iff in Hr as [H1 H2].
  apply negb_true_iff in H1. apply negb_true_iff in H2.
  destruct (unescape_encode raw H1 H2 k Hb Hn) as [_ Hdec].
  rewrite (unescape_app_no_pct prefix2 _ eq_refl), Hdec. cbn [option_map].
  assert (Hnb : no_bs (prefix2 ++ k) = true) by (unfold no_bs in *; rewrite forallb_app, Hn; reflexivity).
  rewrite (replace_bs_id _ Hnb), (replace_bs_id _ Hn).
  replace (N.of_nat (length (prefix2 ++ k)) <? 8) with false.
  - unfold prefix2. cbn [app skipn].
    replace (beq_bytes k k) with true by (symmetry; apply beq_bytes_eq; reflexivity). reflexivity.
  - rewrite app_length. change (length prefix2) with 7%nat. destruct k as [|c k]; [contradiction|].
    cbn [length]. lia.
Qed.
