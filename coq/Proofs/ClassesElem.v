(* C15 / C01: element, value and key type resolution through aliases (GetAllArrayType / GetAllTableType /
   GetAllTableKeyType).  The code has no visited set:
     - `resolve` (the code as it is) returns r with some fuel  <->  the big-step relation elem_rel derives r;
     - the detector `detect` decides non-termination exactly: DDiverge -> OutOfFuel for EVERY fuel,
       DDone r -> Ok r; it is total with fuel_of tm;
     - the visited-set variant `resolve_fx` (the proposed fix) is total and agrees with `resolve` / elem_rel
       wherever those have a result;
     - stratified (acyclic) alias declarations never diverge. *)
From Coq Require Import List NArith ZArith Bool Lia.
From LH Require Import Base.Res Model.Classes Spec.ClassClosure Proofs.ClassesTotal Proofs.ClassesClosure.
Import ListNotations.
Local Open Scope N_scope.

(* ---------- induction on types (nested through lists) ---------- *)
Lemma ty_ind' (P : ty -> Prop) :
  (forall n, P (TName n)) ->
  (forall l, Forall P l -> P (TMulti l)) ->
  (forall e, P e -> P (TArr e)) ->
  (forall k v, P k -> P v -> P (TTable k v)) ->
  P TTableE -> P TFun -> P TConst ->
  forall t, P t.
Proof.
  intros Hn Hm Ha Ht He Hf Hc. fix IH 1. intros t. destruct t as [n|l|e|k v| | |].
  - apply Hn.
  - apply Hm. induction l as [|x r IHl]; constructor; [apply IH|exact IHl].
  - apply Ha. apply IH.
  - apply Ht; apply IH.
  - exact He.
  - exact Hf.
  - exact Hc.
Qed.

(* the union loop as a function of its own *)
Fixpoint walk_list (W : ty -> Res (option ty)) (l : list ty) : Res (option ty) :=
  match l with
  | [] => Ok None
  | x :: r => do a <- W x; match a with Some e => Ok (Some e) | None => walk_list W r end
  end.

Fixpoint walk_list_d (W : ty -> dres) (l : list ty) : dres :=
  match l with
  | [] => DDone None
  | x :: r => match W x with
              | DDone (Some e) => DDone (Some e)
              | DDone None => walk_list_d W r
              | other => other
              end
  end.

Lemma walk_multi leaf J l f : walk leaf J (TMulti l) f = walk_list (fun x => walk leaf J x f) l.
Proof.
  induction l as [|x r IH]; [reflexivity|].
  simpl. destruct (walk leaf J x f) as [[e|]|k|]; simpl; try reflexivity. exact IH.
Qed.

Lemma walk_d_multi leaf J l f : walk_d leaf J (TMulti l) f = walk_list_d (fun x => walk_d leaf J x f) l.
Proof.
  induction l as [|x r IH]; [reflexivity|].
  simpl. destruct (walk_d leaf J x f) as [[e|]| |]; simpl; try reflexivity. exact IH.
Qed.

Section Elem.
  Variable leaf : ty -> option ty.
  Variable tm : tmap.

  (* the alias jump of `resolve` with m units of fuel left *)
  Definition J (m : nat) : name -> N -> Res (option ty) := fun n f' =>
    match first_alias (elem_lookup tm f' n) with
    | Some (d, t') => resolve leaf tm m t' (d_file d)
    | None => Ok None
    end.

  Lemma resolve_S m t f : resolve leaf tm (S m) t f = walk leaf (J m) t f.
  Proof. reflexivity. Qed.

  Definition Jd (k : nat) (stack : list N) : name -> N -> dres := fun n f' =>
    match first_alias (elem_lookup tm f' n) with
    | Some (d, t') => if mem (d_id d) stack then DDiverge else detect leaf tm k (d_id d :: stack) t' (d_file d)
    | None => DDone None
    end.

  Lemma detect_S k stack t f : detect leaf tm (S k) stack t f = walk_d leaf (Jd k stack) t f.
  Proof. reflexivity. Qed.

  Definition Jfx (k : nat) (stack : list N) : name -> N -> Res (option ty) := fun n f' =>
    match first_alias (elem_lookup tm f' n) with
    | Some (d, t') => if mem (d_id d) stack then Ok None else resolve_fx leaf tm k (d_id d :: stack) t' (d_file d)
    | None => Ok None
    end.

  Lemma resolve_fx_S k stack t f : resolve_fx leaf tm (S k) stack t f = walk leaf (Jfx k stack) t f.
  Proof. reflexivity. Qed.

  (* ---------- facts about lookups ---------- *)
  Lemma first_alias_in ds d t' : first_alias ds = Some (d, t') -> In d ds /\ alias_ty d = Some t'.
  Proof.
    induction ds as [|x r IH]; simpl; [discriminate|].
    destruct (alias_ty x) as [tx|] eqn:Hx.
    - intros H. injection H as <- <-. split; [left; reflexivity|exact Hx].
    - intros H. destruct (IH H) as [H1 H2]. split; [right; exact H1|exact H2].
  Qed.

  Lemma elem_lookup_in f n d : In d (elem_lookup tm f n) -> In d tm /\ d_name d = n.
  Proof.
    unfold elem_lookup. destruct (file_defs tm f n) as [|x r] eqn:Hf.
    - intros H. apply global_defs_in in H. exact H.
    - rewrite <- Hf. intros H. apply file_defs_in in H. tauto.
  Qed.

  Lemma alias_kind d t' : alias_ty d = Some t' -> d_kind d = DAlias t'.
  Proof. unfold alias_ty. destruct (d_kind d); [discriminate|]. intros H. injection H as ->. reflexivity. Qed.

  (* ---------- generic facts about walk ---------- *)
  Lemma walk_mono (J1 J2 : name -> N -> Res (option ty)) :
    (forall n f r, J1 n f = Ok r -> J2 n f = Ok r) ->
    forall t f r, walk leaf J1 t f = Ok r -> walk leaf J2 t f = Ok r.
  Proof.
    intros HJ t. induction t as [n|l IHl| | | | |] using ty_ind'; intros f r H; try exact H.
    - simpl in *. apply HJ. exact H.
    - rewrite walk_multi in *. revert H. induction IHl as [|x rest Hx _ IHrest]; simpl; intros H; [exact H|].
      apply rbind_ok in H. destruct H as [a [Ea H]]. rewrite (Hx f a Ea). simpl.
      destruct a as [e|]; [exact H|apply IHrest; exact H].
  Qed.

  Lemma walk_no_fault (J0 : name -> N -> Res (option ty)) :
    (forall n f k, J0 n f <> Fault k) -> forall t f k, walk leaf J0 t f <> Fault k.
  Proof.
    intros HJ t. induction t as [n|l IHl| | | | |] using ty_ind'; intros f k; try discriminate.
    - simpl. apply HJ.
    - rewrite walk_multi. induction IHl as [|x rest Hx _ IHrest]; simpl; [discriminate|].
      destruct (walk leaf J0 x f) as [[e|]|k'|] eqn:E; simpl; try discriminate; [exact IHrest|].
      exfalso. apply (Hx f k'). exact E.
  Qed.

  Lemma resolve_no_fault m t f k : resolve leaf tm m t f <> Fault k.
  Proof.
    revert t f k. induction m as [|m IH]; intros t f k; [discriminate|].
    rewrite resolve_S. apply walk_no_fault. intros n f' k'. unfold J.
    destruct (first_alias (elem_lookup tm f' n)) as [[d t']|]; [apply IH|discriminate].
  Qed.

  Lemma resolve_step m t f r : resolve leaf tm m t f = Ok r -> resolve leaf tm (S m) t f = Ok r.
  Proof.
    revert t f r. induction m as [|m IH]; intros t f r H; [discriminate|].
    rewrite resolve_S in *. eapply walk_mono; [|exact H].
    intros n f' r'. unfold J. destruct (first_alias (elem_lookup tm f' n)) as [[d t']|]; [apply IH|tauto].
  Qed.

  Lemma resolve_le m m' t f r : (m <= m')%nat -> resolve leaf tm m t f = Ok r -> resolve leaf tm m' t f = Ok r.
  Proof. intros Hle H. induction Hle; [exact H|apply resolve_step; exact IHHle]. Qed.

  Lemma resolve_det m m' t f r r' :
    resolve leaf tm m t f = Ok r -> resolve leaf tm m' t f = Ok r' -> r = r'.
  Proof.
    intros H H'. apply (resolve_le m (max m m')) in H; [|lia]. apply (resolve_le m' (max m m')) in H'; [|lia].
    congruence.
  Qed.

  (* ---------- resolve <-> elem_rel ---------- *)
  Lemma walk_sound (J0 : name -> N -> Res (option ty)) :
    (forall n f r, J0 n f = Ok r -> elem_rel leaf tm (TName n) f r) ->
    forall t f r, walk leaf J0 t f = Ok r -> elem_rel leaf tm t f r.
  Proof.
    intros HJ t. induction t as [n|l IHl|e _|k v _ _| | |] using ty_ind'; intros f r H.
    - simpl in H. apply HJ. exact H.
    - rewrite walk_multi in H. revert r H. induction IHl as [|x rest Hx _ IHrest]; simpl; intros r H.
      + injection H as <-. apply ER_nil.
      + apply rbind_ok in H. destruct H as [a [Ea H]]. destruct a as [e|].
        * injection H as <-. apply ER_hit. apply Hx. exact Ea.
        * apply ER_skip; [apply Hx; exact Ea|apply IHrest; exact H].
    - simpl in H. injection H as <-. apply ER_leaf; intros; discriminate.
    - simpl in H. injection H as <-. apply ER_leaf; intros; discriminate.
    - simpl in H. injection H as <-. apply ER_leaf; intros; discriminate.
    - simpl in H. injection H as <-. apply ER_leaf; intros; discriminate.
    - simpl in H. injection H as <-. apply ER_leaf; intros; discriminate.
  Qed.

  Theorem resolve_sound m t f r : resolve leaf tm m t f = Ok r -> elem_rel leaf tm t f r.
  Proof.
    revert t f r. induction m as [|m IH]; intros t f r H; [discriminate|].
    rewrite resolve_S in H. eapply walk_sound; [|exact H].
    intros n f' r'. unfold J. destruct (first_alias (elem_lookup tm f' n)) as [[d t']|] eqn:Hfa.
    - intros H'. eapply ER_alias; [exact Hfa|apply IH; exact H'].
    - intros H'. injection H' as <-. apply ER_noalias. exact Hfa.
  Qed.

  Theorem resolve_complete t f r : elem_rel leaf tm t f r -> exists m, resolve leaf tm m t f = Ok r.
  Proof.
    induction 1 as [t f Hn Hm|n f d t' r Hfa _ [m IH]|n f Hfa|f|x rest f e _ [m IH]|x rest f res _ [m1 IH1] _ [m2 IH2]].
    - exists 1%nat. rewrite resolve_S. destruct t; try reflexivity; [exfalso; eapply Hn; reflexivity|exfalso; eapply Hm; reflexivity].
    - exists (S m). rewrite resolve_S. simpl. unfold J. rewrite Hfa. exact IH.
    - exists 1%nat. rewrite resolve_S. simpl. unfold J. rewrite Hfa. reflexivity.
    - exists 1%nat. reflexivity.
    - destruct m as [|m]; [discriminate|]. exists (S m). rewrite resolve_S in *. rewrite walk_multi. simpl.
      rewrite IH. reflexivity.
    - exists (max m1 m2). apply (resolve_le m1 (max m1 m2)) in IH1; [|lia]. apply (resolve_le m2 (max m1 m2)) in IH2; [|lia].
      destruct (max m1 m2) as [|m]; [discriminate|]. rewrite resolve_S in *. rewrite walk_multi in *. simpl.
      rewrite IH1. simpl. exact IH2.
  Qed.

  (* ---------- the detector: DDone ---------- *)
  Lemma walk_d_done (Jd0 : name -> N -> dres) (J0 : name -> N -> Res (option ty)) :
    (forall n f r, Jd0 n f = DDone r -> J0 n f = Ok r) ->
    forall t f r, walk_d leaf Jd0 t f = DDone r -> walk leaf J0 t f = Ok r.
  Proof.
    intros HJ t. induction t as [n|l IHl| | | | |] using ty_ind'; intros f r H;
      try (simpl in *; injection H as <-; reflexivity).
    - simpl in *. apply HJ. exact H.
    - rewrite walk_multi. rewrite walk_d_multi in H. revert H.
      induction IHl as [|x rest Hx _ IHrest]; simpl; intros H.
      + injection H as <-. reflexivity.
      + destruct (walk_d leaf Jd0 x f) as [[e|]| |] eqn:E; try discriminate.
        * rewrite (Hx f _ E). simpl. injection H as <-. reflexivity.
        * rewrite (Hx f _ E). simpl. apply IHrest. exact H.
  Qed.

  Theorem detect_done k stack t f r :
    detect leaf tm k stack t f = DDone r -> resolve leaf tm k t f = Ok r.
  Proof.
    revert stack t f r. induction k as [|k IH]; intros stack t f r H; [discriminate|].
    rewrite detect_S in H. rewrite resolve_S. eapply walk_d_done; [|exact H].
    intros n f' r'. unfold Jd, J. destruct (first_alias (elem_lookup tm f' n)) as [[d t']|].
    - destruct (mem (d_id d) stack); [discriminate|]. apply IH.
    - intros H'. injection H' as <-. reflexivity.
  Qed.

  Theorem detect_done_fx k stack t f r :
    detect leaf tm k stack t f = DDone r -> resolve_fx leaf tm k stack t f = Ok r.
  Proof.
    revert stack t f r. induction k as [|k IH]; intros stack t f r H; [discriminate|].
    rewrite detect_S in H. rewrite resolve_fx_S. eapply walk_d_done; [|exact H].
    intros n f' r'. unfold Jd, Jfx. destruct (first_alias (elem_lookup tm f' n)) as [[d t']|].
    - destruct (mem (d_id d) stack); [discriminate|]. apply IH.
    - intros H'. injection H' as <-. reflexivity.
  Qed.

  (* ---------- the detector: DDiverge ---------- *)
  Definition noresult (t : ty) (f : N) : Prop := forall m r, resolve leaf tm m t f <> Ok r.

  (* what a DDiverge answer certifies: an alias definition d whose expansion is re-entered *)
  Definition Cert (stack : list N) (P : nat -> option ty -> Prop) : Prop :=
    exists d t', In d tm /\ alias_ty d = Some t' /\
      (In (d_id d) stack \/ noresult t' (d_file d)) /\
      forall m r, P m r -> exists m' r', (m' <= m)%nat /\ resolve leaf tm m' t' (d_file d) = Ok r'.

  Hypothesis Hwf : wf_tm tm.

  Lemma walk_d_diverge k stack :
    (forall n f, Jd k stack n f = DDiverge -> Cert stack (fun m r => J m n f = Ok r)) ->
    forall t f, walk_d leaf (Jd k stack) t f = DDiverge ->
      Cert stack (fun m r => walk leaf (J m) t f = Ok r).
  Proof.
    intros HJ t. induction t as [n|l IHl| | | | |] using ty_ind'; intros f H; try discriminate.
    - simpl in H. apply HJ. exact H.
    - rewrite walk_d_multi in H.
      assert (G : Cert stack (fun m r => walk_list (fun x => walk leaf (J m) x f) l = Ok r)).
      { revert H. induction IHl as [|x rest Hx _ IHrest]; simpl; intros H; [discriminate|].
        destruct (walk_d leaf (Jd k stack) x f) as [[e|]| |] eqn:E; try discriminate.
        - (* x yields nothing for the detector, hence nothing for resolve either *)
          destruct (IHrest H) as [d [t' [Hd [Ha [Hs Hp]]]]]. exists d, t'. repeat split; try assumption.
          intros m r Hm. apply rbind_ok in Hm. destruct Hm as [a [Ea Hm]].
          assert (Hnone : a = None).
          { assert (E' : walk leaf (J k) x f = Ok None).
            { eapply walk_d_done; [|exact E]. intros n0 f0 r0. unfold Jd, J.
              destruct (first_alias (elem_lookup tm f0 n0)) as [[d0 t0]|].
              - destruct (mem (d_id d0) stack); [discriminate|]. apply detect_done.
              - intros H'. injection H' as <-. reflexivity. }
            rewrite <- !resolve_S in *. symmetry. eapply resolve_det; eassumption. }
          subst a. apply Hp with r. exact Hm.
        - destruct (Hx f E) as [d [t' [Hd [Ha [Hs Hp]]]]]. exists d, t'. repeat split; try assumption.
          intros m r Hm. apply rbind_ok in Hm. destruct Hm as [a [Ea _]]. apply Hp with a. exact Ea. }
      destruct G as [d [t' [Hd [Ha [Hs Hp]]]]]. exists d, t'. repeat split; try assumption.
      intros m r Hm. rewrite walk_multi in Hm. apply Hp with r. exact Hm.
  Qed.

  Lemma noresult_of_loop t f :
    (forall m r, resolve leaf tm m t f = Ok r -> exists m' r', (m' < m)%nat /\ resolve leaf tm m' t f = Ok r') ->
    noresult t f.
  Proof.
    intros H m. induction m as [m IH] using lt_wf_ind. intros r Hr.
    destruct (H m r Hr) as [m' [r' [Hlt Hr']]]. apply (IH m' Hlt r'). exact Hr'.
  Qed.

  Lemma detect_diverge k : forall stack t f,
    detect leaf tm k stack t f = DDiverge ->
    Cert stack (fun m r => resolve leaf tm (S m) t f = Ok r).
  Proof.
    induction k as [|k IH]; intros stack t f H; [discriminate|].
    rewrite detect_S in H.
    assert (G : Cert stack (fun m r => walk leaf (J m) t f = Ok r)).
    { apply (walk_d_diverge k stack); [|exact H].
      intros n f' Hj. unfold Jd in Hj. unfold J.
      destruct (first_alias (elem_lookup tm f' n)) as [[d t']|] eqn:Hfa; [|discriminate].
      destruct (first_alias_in _ _ _ Hfa) as [Hdin Hal]. apply elem_lookup_in in Hdin. destruct Hdin as [Hdtm _].
      destruct (mem (d_id d) stack) eqn:Hm.
      - (* re-entering d *)
        exists d, t'. repeat split; try assumption.
        + left. apply mem_true_iff. exact Hm.
        + intros m r Hr. exists m, r. split; [lia|exact Hr].
      - destruct (IH _ _ _ Hj) as [d1 [t1 [Hd1 [Ha1 [Hs1 Hp1]]]]].
        destruct (N.eq_dec (d_id d1) (d_id d)) as [Eid|Nid].
        + (* the expansion of d re-enters d itself: d never returns *)
          assert (d1 = d) by (apply (id_inj tm); assumption). subst d1.
          assert (t1 = t') by congruence. subst t1.
          assert (Hnr : noresult t' (d_file d)).
          { apply noresult_of_loop. intros m r Hr. destruct m as [|m]; [discriminate|].
            destruct (Hp1 m r Hr) as [m' [r' [Hle Hr']]]. exists m', r'. split; [lia|exact Hr']. }
          exists d, t'. repeat split; try assumption.
          * right. exact Hnr.
          * intros m r Hr. exfalso. eapply Hnr. exact Hr.
        + exists d1, t1. repeat split; try assumption.
          * destruct Hs1 as [[Hx|Hx]|Hx]; [congruence|left; exact Hx|right; exact Hx].
          * intros m r Hr. destruct m as [|m]; [discriminate|].
            destruct (Hp1 m r Hr) as [m' [r' [Hle Hr']]]. exists m', r'. split; [lia|exact Hr']. }
    destruct G as [d [t' [Hd [Ha [Hs Hp]]]]]. exists d, t'. repeat split; try assumption.
  Qed.

  (* DDiverge at top level (empty stack): the unchanged code never returns, whatever the stack size *)
  Theorem detect_diverge_sound k t f :
    detect leaf tm k [] t f = DDiverge -> forall fuel, resolve leaf tm fuel t f = OutOfFuel.
  Proof.
    intros H fuel. destruct (detect_diverge k [] t f H) as [d [t' [Hd [Ha [[[]|Hnr] Hp]]]]].
    destruct (resolve leaf tm fuel t f) as [r|kf|] eqn:E; [|exfalso; eapply resolve_no_fault; exact E|reflexivity].
    exfalso. destruct fuel as [|m]; [discriminate|].
    destruct (Hp m r E) as [m' [r' [_ Hr']]]. eapply Hnr. exact Hr'.
  Qed.

  (* ---------- totality of the detector and of the fixed variant ---------- *)
  Definition stack_ok (stack : list N) : Prop := NoDup stack /\ incl stack (map d_id tm).

  Lemma stack_bound stack : stack_ok stack -> (length stack <= length tm)%nat.
  Proof. intros [Hn Hi]. rewrite <- (map_length d_id tm). apply NoDup_incl_length; assumption. Qed.

  Lemma walk_d_nofuel (Jd0 : name -> N -> dres) :
    (forall n f, Jd0 n f <> DNoFuel) -> forall t f, walk_d leaf Jd0 t f <> DNoFuel.
  Proof.
    intros HJ t. induction t as [n|l IHl| | | | |] using ty_ind'; intros f; try discriminate.
    - simpl. apply HJ.
    - rewrite walk_d_multi. induction IHl as [|x rest Hx _ IHrest]; simpl; [discriminate|].
      destruct (walk_d leaf Jd0 x f) as [[e|]| |] eqn:E; try discriminate; [exact IHrest|].
      exfalso. apply (Hx f). exact E.
  Qed.

  Lemma detect_total_gen k : forall stack t f,
    stack_ok stack -> (length tm < k + length stack)%nat -> detect leaf tm k stack t f <> DNoFuel.
  Proof.
    induction k as [|k IH]; intros stack t f Hs Hl.
    - pose proof (stack_bound stack Hs). lia.
    - rewrite detect_S. apply walk_d_nofuel. intros n f'. unfold Jd.
      destruct (first_alias (elem_lookup tm f' n)) as [[d t']|] eqn:Hfa; [|discriminate].
      destruct (mem (d_id d) stack) eqn:Hm; [discriminate|].
      apply IH.
      + destruct Hs as [Hn Hi]. split.
        * constructor; [apply mem_false_iff; exact Hm|exact Hn].
        * intros x [<-|Hx]; [|apply Hi; exact Hx].
          apply in_map. apply first_alias_in in Hfa. destruct Hfa as [Hin _].
          apply elem_lookup_in in Hin. tauto.
      + simpl. lia.
  Qed.

  Theorem detect_total t f : detect leaf tm (fuel_of tm) [] t f <> DNoFuel.
  Proof.
    apply detect_total_gen; [split; [constructor|intros x []]|]. unfold fuel_of. simpl. lia.
  Qed.

  Lemma walk_ok (J0 : name -> N -> Res (option ty)) :
    (forall n f, exists r, J0 n f = Ok r) -> forall t f, exists r, walk leaf J0 t f = Ok r.
  Proof.
    intros HJ t. induction t as [n|l IHl| | | | |] using ty_ind'; intros f; try (eexists; reflexivity).
    - simpl. apply HJ.
    - rewrite walk_multi. induction IHl as [|x rest Hx _ IHrest]; simpl; [eexists; reflexivity|].
      destruct (Hx f) as [[e|] E]; rewrite E; simpl; [eexists; reflexivity|exact IHrest].
  Qed.

  Lemma resolve_fx_total_gen k : forall stack t f,
    stack_ok stack -> (length tm < k + length stack)%nat -> exists r, resolve_fx leaf tm k stack t f = Ok r.
  Proof.
    induction k as [|k IH]; intros stack t f Hs Hl.
    - pose proof (stack_bound stack Hs). lia.
    - rewrite resolve_fx_S. apply walk_ok. intros n f'. unfold Jfx.
      destruct (first_alias (elem_lookup tm f' n)) as [[d t']|] eqn:Hfa; [|eexists; reflexivity].
      destruct (mem (d_id d) stack) eqn:Hm; [eexists; reflexivity|].
      apply IH.
      + destruct Hs as [Hn Hi]. split.
        * constructor; [apply mem_false_iff; exact Hm|exact Hn].
        * intros x [<-|Hx]; [|apply Hi; exact Hx].
          apply in_map. apply first_alias_in in Hfa. destruct Hfa as [Hin _].
          apply elem_lookup_in in Hin. tauto.
      + simpl. lia.
  Qed.

  (* the fixed variant terminates on every workspace, cyclic aliases included *)
  Theorem resolve_fx_total t f : exists r, resolve_fx leaf tm (fuel_of tm) [] t f = Ok r.
  Proof.
    apply resolve_fx_total_gen; [split; [constructor|intros x []]|]. unfold fuel_of. simpl. lia.
  Qed.

  (* ... and gives what the specification gives wherever the specification has an answer *)
  Theorem resolve_fx_correct t f r :
    elem_rel leaf tm t f r -> resolve_fx leaf tm (fuel_of tm) [] t f = Ok r.
  Proof.
    intros H. apply resolve_complete in H. destruct H as [m Hm].
    destruct (detect leaf tm (fuel_of tm) [] t f) as [r'| |] eqn:E.
    - assert (r' = r) by (eapply resolve_det; [apply (detect_done _ _ _ _ _ E)|exact Hm]). subst.
      apply detect_done_fx. exact E.
    - rewrite (detect_diverge_sound _ _ _ E m) in Hm. discriminate.
    - exfalso. eapply detect_total. exact E.
  Qed.

  (* the deciding (unfixed) model answers Ok r exactly when the code returns r, OutOfFuel exactly when it never returns *)
  Theorem cyclic_alias_exact t f :
    cyclic_alias leaf tm t f = true <-> forall fuel, resolve leaf tm fuel t f = OutOfFuel.
  Proof.
    unfold cyclic_alias. split.
    - destruct (detect leaf tm (fuel_of tm) [] t f) eqn:E; try discriminate. intros _. eapply detect_diverge_sound. exact E.
    - intros H. destruct (detect leaf tm (fuel_of tm) [] t f) as [r| |] eqn:E; [|reflexivity|].
      + apply detect_done in E. rewrite H in E. discriminate.
      + exfalso. eapply detect_total. exact E.
  Qed.

  Theorem acyclic_terminates t f r :
    cyclic_alias leaf tm t f = false ->
    (resolve leaf tm (fuel_of tm) t f = Ok r <-> elem_rel leaf tm t f r).
  Proof.
    unfold cyclic_alias. intros Hc.
    destruct (detect leaf tm (fuel_of tm) [] t f) as [r'| |] eqn:E; [|discriminate|exfalso; eapply detect_total; exact E].
    apply detect_done in E. split.
    - apply resolve_sound.
    - intros H. apply resolve_complete in H. destruct H as [m Hm].
      assert (r' = r) by (eapply resolve_det; eassumption). subst. exact E.
  Qed.

  Theorem noncyclic_result t f :
    cyclic_alias leaf tm t f = false -> exists r, resolve leaf tm (fuel_of tm) t f = Ok r.
  Proof.
    unfold cyclic_alias. intros Hc.
    destruct (detect leaf tm (fuel_of tm) [] t f) as [r'| |] eqn:E; [|discriminate|exfalso; eapply detect_total; exact E].
    exists r'. apply (detect_done _ _ _ _ _ E).
  Qed.

  (* on the inputs where the unchanged code returns, the fix changes nothing *)
  Theorem fixed_eq_unfixed t f :
    cyclic_alias leaf tm t f = false ->
    resolve_fx leaf tm (fuel_of tm) [] t f = resolve leaf tm (fuel_of tm) t f.
  Proof.
    unfold cyclic_alias. intros Hc.
    destruct (detect leaf tm (fuel_of tm) [] t f) as [r'| |] eqn:E; [|discriminate|exfalso; eapply detect_total; exact E].
    rewrite (detect_done _ _ _ _ _ E), (detect_done_fx _ _ _ _ _ E). reflexivity.
  Qed.

  (* the function the deciding model uses (resolve_model) is tied to the faithful recursion `resolve`:
     it answers Ok r iff the code returns r, OutOfFuel iff the code never returns, and nothing else *)
  Theorem resolve_model_unfixed t f :
    (forall r, resolve_model_v false leaf tm t f = Ok r <-> resolve leaf tm (fuel_of tm) t f = Ok r) /\
    (resolve_model_v false leaf tm t f = OutOfFuel <-> forall fuel, resolve leaf tm fuel t f = OutOfFuel) /\
    (forall k, resolve_model_v false leaf tm t f <> Fault k).
  Proof.
    unfold resolve_model_v.
    destruct (detect leaf tm (fuel_of tm) [] t f) as [r'| |] eqn:E.
    - pose proof (detect_done _ _ _ _ _ E) as Hd. repeat split.
      + intros H. rewrite Hd. exact H.
      + intros H. rewrite Hd in H. exact H.
      + discriminate.
      + intros H. rewrite H in Hd. discriminate.
      + discriminate.
    - pose proof (detect_diverge_sound _ _ _ E) as Hd. repeat split.
      + discriminate.
      + intros H. rewrite Hd in H. discriminate.
      + intros _. exact Hd.
      + discriminate.
    - exfalso. eapply detect_total. exact E.
  Qed.

  Theorem resolve_model_fixed t f :
    resolve_model_v true leaf tm t f = resolve_fx leaf tm (fuel_of tm) [] t f.
  Proof. reflexivity. Qed.

  (* the deployed model is the repaired variant *)
  Theorem resolve_model_deployed t f :
    resolve_model leaf tm t f = resolve_fx leaf tm (fuel_of tm) [] t f.
  Proof. reflexivity. Qed.

  (* ---------- stratified alias declarations never diverge ---------- *)
  Lemma union_names_multi l : union_names (TMulti l) = flat_map union_names l.
  Proof. induction l as [|x r IH]; [reflexivity|]. simpl in *. rewrite IH. reflexivity. Qed.

  Lemma acyclic_resolves (rank : name -> nat) :
    (forall d t, In d tm -> d_kind d = DAlias t -> forall m, In m (union_names t) -> (rank m < rank (d_name d))%nat) ->
    forall k t f, (forall m, In m (union_names t) -> (rank m < k)%nat) -> exists r, resolve leaf tm (S k) t f = Ok r.
  Proof.
    intros Hrank. induction k as [|k IH]; intros t; induction t as [n|l IHl| | | | |] using ty_ind';
      intros f Hb; try (eexists; reflexivity).
    - exfalso. specialize (Hb n (or_introl eq_refl)). lia.
    - rewrite resolve_S, walk_multi. rewrite union_names_multi in Hb.
      induction IHl as [|x rest Hx _ IHrest]; simpl; [eexists; reflexivity|].
      assert (Hbx : forall m, In m (union_names x) -> (rank m < 0)%nat) by (intros m Hm; apply Hb; simpl; apply in_or_app; left; exact Hm).
      destruct (Hx f Hbx) as [[e|] E]; rewrite resolve_S in E; rewrite E; simpl; [eexists; reflexivity|].
      apply IHrest. intros m Hm. apply Hb. simpl. apply in_or_app. right. exact Hm.
    - rewrite resolve_S. simpl. unfold J.
      destruct (first_alias (elem_lookup tm f n)) as [[d t']|] eqn:Hfa; [|eexists; reflexivity].
      destruct (first_alias_in _ _ _ Hfa) as [Hin Hal]. apply elem_lookup_in in Hin. destruct Hin as [Hdtm Hnm].
      apply IH. intros m Hm. pose proof (Hrank d t' Hdtm (alias_kind d t' Hal) m Hm) as H1.
      rewrite Hnm in H1. specialize (Hb n (or_introl eq_refl)). lia.
    - rewrite resolve_S, walk_multi. rewrite union_names_multi in Hb.
      induction IHl as [|x rest Hx _ IHrest]; simpl; [eexists; reflexivity|].
      assert (Hbx : forall m, In m (union_names x) -> (rank m < S k)%nat) by (intros m Hm; apply Hb; simpl; apply in_or_app; left; exact Hm).
      destruct (Hx f Hbx) as [[e|] E]; rewrite resolve_S in E; rewrite E; simpl; [eexists; reflexivity|].
      apply IHrest. intros m Hm. apply Hb. simpl. apply in_or_app. right. exact Hm.
  Qed.

  Theorem acyclic_alias_no_cycle t f : acyclic_alias tm -> cyclic_alias leaf tm t f = false.
  Proof.
    intros [rank Hrank]. destruct (cyclic_alias leaf tm t f) eqn:E; [|reflexivity].
    pose proof (proj1 (cyclic_alias_exact t f) E) as E'.
    set (k := S (fold_right max 0%nat (map rank (union_names t)))).
    assert (Hb : forall m, In m (union_names t) -> (rank m < k)%nat).
    { intros m Hm. unfold k. induction (union_names t) as [|x r IH]; [destruct Hm|].
      simpl. destruct Hm as [<-|Hm]; [lia|]. specialize (IH Hm). lia. }
    destruct (acyclic_resolves rank Hrank k t f Hb) as [r Hr]. rewrite E' in Hr. discriminate.
  Qed.
End Elem.
