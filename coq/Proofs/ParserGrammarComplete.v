(* C03, token level, completeness: a token list derivable in the grammar is parsed without any error,
   with an explicit fuel bound (8 per consumed token + a constant per function). *)
From Coq Require Import List NArith ZArith Bool Lia.
From LH Require Import Base.Bytes Base.Res Model.Lexer Model.Ast Model.Parser Spec.LuaGrammar.
From LH Require Import Proofs.ParserGrammarBase Proofs.ParserGrammarMono Proofs.ParserGrammarFlat.
Import ListNotations.
#[local] Opaque expect next err la.

(* the parser state is at remainder ts, has parse errors e, and the remainder is well formed *)
Definition at_ (st : pst) (ts : list ltok) (e : list perr) : Prop := rest st = ts /\ perrs st = e /\ wfl ts.

Lemma at_la st ts e : at_ st ts e -> la st = hdk ts.
Proof. intros (R & _ & _). rewrite la_hdk, R. reflexivity. Qed.

Lemma at_eat st ts e k r :
  at_ st ts e -> T k ts r -> k <> TkEOF ->
  exists st1, expect k st = st1 /\ next st = st1 /\ at_ st1 r e /\ length ts = S (length r) /\
              forall t r', ts = t :: r' -> now_tok st1 = lt t.
Proof.
  intros (R & P & W) (t & -> & K) N.
  destruct (next_cons st t r R W) as (R1 & W1 & N1); [congruence|].
  exists (next st). split; [eapply expect_ok; eauto|]. split; [reflexivity|].
  split; [repeat split; auto; rewrite perrs_next; auto|]. split; [reflexivity|].
  intros t' r' Et. injection Et as <- <-. exact N1.
Qed.

Lemma unop_not_eof k : unop k = true -> k <> TkEOF.
Proof. destruct k; simpl; congruence. Qed.
Lemma binop_not_eof k : binop k = true -> k <> TkEOF.
Proof. destruct k; simpl; congruence. Qed.

(* consume the terminal H : T k ts r at the state that is at ts *)
Ltac eat H :=
  lazymatch type of H with
  | T ?k ?ts ?r =>
    lazymatch goal with
    | A : at_ ?st ts ?e |- _ =>
      let st1 := fresh "st" in let E1 := fresh "E" in let E2 := fresh "E" in let A1 := fresh "A" in
      let L := fresh "L" in let Nw := fresh "Nw" in
      destruct (at_eat st ts e k r A H ltac:(first [discriminate | assumption])) as
          (st1 & E1 & E2 & A1 & L & Nw);
      progress (rewrite ?E1, ?E2); clear E1 E2
    end
  end.

(* decide tk_eqb on the kind at hand *)
Ltac tkb :=
  repeat match goal with
         | |- context [tk_eqb ?a ?a] => rewrite (tk_eqb_refl a)
         | H : ?a <> ?b |- context [tk_eqb ?a ?b] => rewrite (proj2 (tk_eqb_neq a b) H)
         | H : ?a = ?b |- context [tk_eqb ?a ?b] => rewrite (proj2 (tk_eqb_eq a b) H)
         | |- context [tk_eqb ?a ?b] =>
           is_constructor a; is_constructor b;
           let v := eval vm_compute in (tk_eqb a b) in change (tk_eqb a b) with v
         end.

(* replace `la st` by the kind of the head of the remainder *)
Ltac look :=
  repeat match goal with
         | A : at_ ?st ?ts _ |- context [la ?st] => rewrite (at_la st ts _ A)
         end;
  repeat match goal with
         | H : T ?k ?ts _ |- context [hdk ?ts] => rewrite (T_hdk k ts _ H)
         | H : hdk ?ts = _ |- context [hdk ?ts] => rewrite H
         end.

Ltac fin := eexists; eexists; split; [reflexivity | first [assumption | eauto]].

(* ------------------------------------------------------------------ helpers outside the mutual block *)
Lemma c_namelist_tail ts r : NameTail ts r ->
  length r <= length ts /\
  forall f st e names locs, at_ st ts e -> 8 * length ts + 1 <= f + 8 * length r ->
  exists v st', p_namelist_tail f st names locs = Ok (v, st') /\ at_ st' r e.
Proof.
  induction 1 as [ts N | ts r1 r2 r H1 H2 H3 [IHl IH]].
  - split; [lia|]. intros f st e names locs A B. destruct f; [lia|]. rewrite namelist_tail_eq.
    look. tkb. fin.
  - pose proof (T_len _ _ _ H1). pose proof (T_len _ _ _ H2). split; [lia|].
    intros f st e names locs A B. destruct f; [lia|]. rewrite namelist_tail_eq.
    look. tkb. eat H1. eat H2. apply IH; [assumption | lia].
Qed.

Lemma c_local_attr c ts r : Attrib c ts r ->
  length r <= length ts /\
  forall st e, at_ st ts e ->
  exists a st', p_local_attr st = (a, st') /\ at_ st' r e /\ (c = 1 <-> a = AttrClose) /\ c <= 1.
Proof.
  intros H. destruct H as [ts N | ts r1 t r2 r H1 E K S H2 | ts r1 t r2 r H1 E K S H2].
  - split; [lia|]. intros st e A. unfold p_local_attr. look. tkb. eexists; eexists; split; [reflexivity|].
    split; [exact A|]. split; [split; intros; [lia|congruence] | lia].
  - pose proof (T_len _ _ _ H1). pose proof (T_len _ _ _ H2). subst r1. simpl in *. split; [lia|].
    intros st e A. unfold p_local_attr. look. tkb. eat H1.
    assert (H3 : T TkIdentifier (t :: r2) r2) by (exists t; auto). eat H3.
    unfold now_str. rewrite (Nw0 _ _ eq_refl), S.
    change (beq_bytes txt_const s_close) with false. change (beq_bytes txt_const s_const) with true. cbv iota.
    eat H2. eexists; eexists; split; [reflexivity|].
    split; [assumption|]. split; [split; intros; [lia|congruence] | lia].
  - pose proof (T_len _ _ _ H1). pose proof (T_len _ _ _ H2). subst r1. simpl in *. split; [lia|].
    intros st e A. unfold p_local_attr. look. tkb. eat H1.
    assert (H3 : T TkIdentifier (t :: r2) r2) by (exists t; auto). eat H3.
    unfold now_str. rewrite (Nw0 _ _ eq_refl), S.
    change (beq_bytes txt_close s_close) with true. cbv iota.
    eat H2. eexists; eexists; split; [reflexivity|].
    split; [assumption|]. split; [split; intros; auto | lia].
Qed.

Lemma c_local_namelist_tail n ts r : AttTail n ts r ->
  length r <= length ts /\
  forall f st e sc names locs attrs, at_ st ts e -> 8 * length ts + 1 <= f + 8 * length r ->
  n <= 1 -> (sc = true -> n = 0) ->
  exists v st', p_local_namelist_tail f st sc names locs attrs = Ok (v, st') /\ at_ st' r e.
Proof.
  induction 1 as [ts N | c n ts r1 r2 r3 r H1 H2 H3 H4 [IHl IH]].
  - split; [lia|]. intros f st e sc names locs attrs A B _ _. destruct f; [lia|]. rewrite local_namelist_tail_eq.
    look. tkb. fin.
  - pose proof (T_len _ _ _ H1). pose proof (T_len _ _ _ H2).
    destruct (c_local_attr _ _ _ H3) as [L3 C3]. split; [lia|].
    intros f st e sc names locs attrs A B Hn Hsc. destruct f; [lia|]. rewrite local_namelist_tail_eq.
    look. tkb. eat H1. eat H2.
    destruct (C3 _ _ A1) as (a & st' & Ea & A' & Hc & Hc1). rewrite Ea.
    assert (Hno : (match a with AttrClose => true | _ => false end) && sc = false).
    { destruct sc; [|apply andb_false_r]. specialize (Hsc eq_refl).
      destruct a; try reflexivity. assert (c = 1) by (apply Hc; reflexivity). lia. }
    rewrite Hno. apply IH; [assumption | lia | lia |].
    intros Hs. apply orb_true_iff in Hs. destruct Hs as [Hs|Hs]; [apply Hsc in Hs; lia|].
    destruct a; try discriminate. assert (c = 1) by (apply Hc; reflexivity). lia.
Qed.

Lemma c_parlist_tail ts r : ParTail ts r ->
  length r <= length ts /\
  forall f st e names locs, at_ st ts e -> 8 * length ts + 1 <= f + 8 * length r ->
  exists v st', p_parlist_tail f st names locs = Ok (v, st') /\ at_ st' r e.
Proof.
  induction 1 as [ts N | ts r1 r2 r H1 H2 H3 [IHl IH] | ts r1 r H1 H2].
  - split; [lia|]. intros f st e names locs A B. destruct f; [lia|]. rewrite parlist_tail_eq. look. tkb. fin.
  - pose proof (T_len _ _ _ H1). pose proof (T_len _ _ _ H2). split; [lia|].
    intros f st e names locs A B. destruct f; [lia|]. rewrite parlist_tail_eq.
    look. tkb. eat H1. look. tkb. eat H2. apply IH; [assumption | lia].
  - pose proof (T_len _ _ _ H1). pose proof (T_len _ _ _ H2). split; [lia|].
    intros f st e names locs A B. destruct f; [lia|]. rewrite parlist_tail_eq.
    look. tkb. eat H1. look. tkb. eat H2. fin.
Qed.

Lemma c_parlist ts r : ParList ts r ->
  length r <= length ts /\
  forall f st e, at_ st ts e -> 8 * length ts + 1 <= f + 8 * length r ->
  exists v st', p_parlist f st = Ok (v, st') /\ at_ st' r e.
Proof.
  intros H. destruct H as [ts N | ts r H1 | ts r1 r H1 H2].
  - split; [lia|]. intros f st e A B. unfold p_parlist. look. fin.
  - pose proof (T_len _ _ _ H1). split; [lia|]. intros f st e A B. unfold p_parlist. look. eat H1. fin.
  - pose proof (T_len _ _ _ H1). destruct (c_parlist_tail _ _ H2) as [L2 C2]. split; [lia|].
    intros f st e A B. unfold p_parlist. look. eat H1. apply C2; [assumption | lia].
Qed.

Lemma c_funcname_dots ts r : DotNames ts r ->
  length r <= length ts /\
  forall f st e b fi ex c fn, at_ st ts e -> 8 * length ts + 1 <= f + 8 * length r ->
  exists v st', p_funcname_dots f st b fi ex c fn = Ok (v, st') /\ at_ st' r e.
Proof.
  induction 1 as [ts N | ts r1 r2 r H1 H2 H3 [IHl IH]].
  - split; [lia|]. intros f st e b fi ex c fn A B. destruct f; [lia|]. rewrite funcname_dots_eq. look. tkb. fin.
  - pose proof (T_len _ _ _ H1). pose proof (T_len _ _ _ H2). split; [lia|].
    intros f st e b fi ex c fn A B. destruct f; [lia|]. rewrite funcname_dots_eq.
    look. tkb. eat H1. eat H2. apply IH; [assumption | lia].
Qed.

Lemma c_funcname ts r : FuncName ts r ->
  length r < length ts /\
  forall f st e, at_ st ts e -> 8 * length ts + 1 <= f + 8 * length r ->
  exists v st', p_funcname f st = Ok (v, st') /\ at_ st' r e.
Proof.
  intros (r1 & r2 & H1 & H2 & H3). pose proof (T_len _ _ _ H1).
  destruct (c_funcname_dots _ _ H2) as [L2 C2].
  assert (L3 : length r <= length r2).
  { destruct H3 as [? ?|? ? ? Ha Hb]; [lia|]. apply T_len in Ha. apply T_len in Hb. lia. }
  split; [lia|]. intros f st e A B. unfold p_funcname. eat H1.
  edestruct C2 as (v & st' & Ev & A'); [eassumption | | rewrite Ev]; [lia|].
  destruct v as [[ex cls] fname]. destruct H3 as [ts0 N | ts0 r3 r Ha Hb].
  - look. tkb. fin.
  - look. tkb. eat Ha. eat Hb. fin.
Qed.

Ltac run C :=
  let v := fresh "v" in let st' := fresh "st" in let Ev := fresh "Ev" in let A' := fresh "A" in
  edestruct C as (v & st' & Ev & A'); [eassumption | lia | rewrite Ev; clear Ev].

Lemma climb_cond_true p lim : lim < p -> Nat.ltb 0 p && negb (Nat.leb p lim) = true.
Proof.
  intros H. apply andb_true_iff. split; [apply Nat.ltb_lt; lia|].
  apply negb_true_iff. apply Nat.leb_gt. lia.
Qed.
Lemma climb_cond_false p lim : p <= lim -> Nat.ltb 0 p && negb (Nat.leb p lim) = false.
Proof.
  intros H. apply andb_false_iff. right. apply negb_false_iff. apply Nat.leb_le. lia.
Qed.

(* ------------------------------------------------------------------ precedence climbing consumes the flat form *)
Section Climb.
  Variable classify : list N -> numcls.

  (* what the induction knows about a simple expression *)
  Definition PSimple (ts r : list ltok) : Prop :=
    Simple classify ts r /\ length r < length ts /\
    forall f st e, at_ st ts e -> 8 * length ts + 2 <= f + 8 * length r ->
    exists v st', p_exp0 classify f st = Ok (v, st') /\ at_ st' r e.

  Lemma psimple_len ts r : PSimple ts r -> length r < length ts.
  Proof. intros (_ & L & _). exact L. Qed.

  Definition climb_at (n : nat) : Prop :=
    (forall ts r1 r lim st e f, length ts <= n -> lim <= 11 ->
       OperandQ PSimple ts r1 -> OpsQ PSimple lim r1 r -> at_ st ts e -> 8 * length ts + 3 <= f + 8 * length r ->
       exists v st', p_subexp classify f lim st = Ok (v, st') /\ at_ st' r e) /\
    (forall r1 r lim st e f bbl e0, length r1 <= n -> lim <= 11 ->
       OpsQ PSimple lim r1 r -> at_ st r1 e -> 8 * length r1 + 1 <= f + 8 * length r ->
       exists v st', p_binop_loop classify f lim bbl e0 st = Ok (v, st') /\ at_ st' r e).

  Lemma climb : forall n, climb_at n.
  Proof.
    induction n as [|n [IHs IHl]].
    - split.
      + intros ts r1 r lim st e f Ln _ Ho _ _ _. apply (operandq_len _ psimple_len) in Ho. lia.
      + intros r1 r lim st e f bbl e0 Ln _ Ho (_ & _ & W) _. apply wfl_nonempty in W. destruct r1; [congruence|].
        simpl in Ln. lia.
    - split.
      + intros ts r1 r lim st e f Ln Hlim Ho Hops A B.
        pose proof (operandq_len _ psimple_len _ _ Ho) as Lo.
        pose proof (opsq_len _ psimple_len _ _ _ Hops) as Lops.
        destruct f; [lia|]. rewrite subexp_eq. look.
        destruct Ho as [ts t ts' r1 E U Ho | ts r1 HQ].
        * (* unary operator *)
          subst ts. simpl hdk. rewrite is_unop_unop, U.
          pose proof (T_of_hd t ts') as HT. pose proof (unop_not_eof _ U) as NE. eat HT.
          change unary_limit with 10.
          pose proof (operandq_len _ psimple_len _ _ Ho) as Lo'. cbn [length] in *.
          destruct (Nat.le_gt_cases lim 10) as [Hle|Hgt].
          -- destruct (ops_split _ lim 10 _ _ Hle Hops) as (r2 & H1 & H2).
             pose proof (opsq_len _ psimple_len _ _ _ H1). pose proof (opsq_len _ psimple_len _ _ _ H2).
             edestruct (IHs ts' r1 r2 10 st0 e f) as (v & st2 & Ev & A2); try eassumption; try lia.
             rewrite Ev. apply (IHl r2 r); try assumption; lia.
          -- assert (lim = 11) by lia. subst lim.
             apply ops_10_11 in Hops.
             edestruct (IHs ts' r1 r 10 st0 e f) as (v & st2 & Ev & A2); try eassumption; try lia.
             rewrite Ev. apply (IHl r r); try assumption; try lia.
             apply OpsQ_end. pose proof (ops_end _ _ _ _ Hops). lia.
        * (* simple expression *)
          destruct HQ as (HS & LS & CS).
          rewrite is_unop_unop, (simple_not_unop _ _ _ HS).
          edestruct (CS f st e) as (v & st1 & Ev & A1); [assumption | lia |]. rewrite Ev.
          apply (IHl r1 r); try assumption; lia.
      + intros r1 r lim st e f bbl e0 Ln Hlim Hops A B.
        pose proof (opsq_len _ psimple_len _ _ _ Hops) as Lops0.
        destruct f; [lia|]. rewrite binop_loop_eq. look.
        destruct Hops as [r1 Hp | r1 t r2 r3 r E Hp Ho Hops].
        * rewrite climb_cond_false by assumption. fin.
        * subst r1. simpl hdk. rewrite climb_cond_true by assumption.
          pose proof (T_of_hd t r2) as HT.
          assert (NE : kd t <> TkEOF) by (intros EQ; rewrite EQ in Hp; simpl in Hp; lia).
          eat HT.
          pose proof (operandq_len _ psimple_len _ _ Ho) as Lo.
          pose proof (opsq_len _ psimple_len _ _ _ Hops) as Lops. cbn [length] in *.
          pose proof (prio_sub (kd t)) as Hp11. pose proof (prio_sub_ge (kd t) lim Hp) as Hpge.
          set (p' := if is_right_assoc (kd t) then Nat.pred (prio (kd t)) else prio (kd t)) in *.
          destruct (ops_split _ lim p' _ _ Hpge Hops) as (r4 & H1 & H2).
          pose proof (opsq_len _ psimple_len _ _ _ H1). pose proof (opsq_len _ psimple_len _ _ _ H2).
          edestruct (IHs r2 r3 r4 p' st0 e f) as (v & st2 & Ev & A2); try eassumption; try lia.
          rewrite Ev. apply (IHl r4 r); try assumption; lia.
  Qed.
End Climb.
