(* Position resolver = Lua's binder, part 5: from the order of the marks to FindMinScope / IsCorrectPosition facts at
   a cursor, and the invariant `Concl` of the main induction with its structural rules. *)
From Coq Require Import List NArith ZArith Bool Lia.
From LH Require Import Base.Bytes Model.Lexer Model.Ast Model.Scope Model.Globals Model.Resolve Spec.LuaScope
  Proofs.PositionBindBase Proofs.PositionBindKeys Proofs.PositionBindFacts Proofs.PositionBindLook.
Import ListNotations.
Local Open Scope Z_scope.

Section Pos.
  Variable W : Z.
  Hypothesis HW : 0 < W.
  Variable line col : Z.
  Hypothesis Hcol : 0 <= col < W.
  Variable n : list N.

  Notation K := (K W line col).
  Notation pl := (pl line col).
  Notation CUR := (CUR W line col).
  Notation hit := (hit line col n).
  Notation before := (before W line col).
  Notation okhit := (okhit line col n).
  Notation passes := (passes line col).
  Notation notin := (notin line col).
  Notation mok := (fun ms : list mark => forall m, In m ms -> mark_ok W m = true).

  Definition at_cur (o : socc) : Prop := sl (s_loc o) = line /\ sc (s_loc o) <= col <= ec (s_loc o).

  Lemma ids_ok l : mark_ok W (MIdS l) = true -> sl l = el l /\ sc l < ec l /\ cok W l.
  Proof.
    cbn [mark_ok]. intros H. apply andb_true_iff in H. destruct H as [H H3]. apply andb_true_iff in H. destruct H as [H1 H2].
    apply Z.eqb_eq in H1. apply Z.ltb_lt in H2. auto.
  Qed.

  Lemma cur_keys l : mark_ok W (MIdS l) = true -> sl l = line -> sc l <= col <= ec l -> CUR l.
  Proof.
    intros Hm Hs Hc. destruct (ids_ok l Hm) as (He & _ & _). unfold PositionBindLook.CUR, lo, hi, PositionBindKeys.K, key.
    rewrite <- He, Hs. lia.
  Qed.

  Lemma passes_keys x : cok W (scope_loc x) -> lo W (scope_loc x) <= K -> hi W (scope_loc x) < K -> passes x.
  Proof.
    intros Hc Hlo Hhi. destruct (cok_bounds W _ Hc) as [Hs He]. unfold lo, hi, PositionBindKeys.K in *.
    apply (key_le W HW _ _ _ _ Hs Hcol) in Hlo. apply (key_lt W HW _ _ _ _ He Hcol) in Hhi.
    unfold PositionBindKeys.passes. destruct (el (scope_loc x) <? line) eqn:E; [left; reflexivity|right]. split; [|lia].
    unfold in_location.
    destruct (line <? sl (scope_loc x)) eqn:E1; destruct (line >? el (scope_loc x)) eqn:E2; cbn [orb]; try reflexivity.
    destruct (line =? sl (scope_loc x)) eqn:E3; destruct (col <? sc (scope_loc x)) eqn:E4; cbn [andb]; try reflexivity;
      destruct (line =? el (scope_loc x)) eqn:E5; destruct (col >? ec (scope_loc x)) eqn:E6; cbn [andb]; try reflexivity; lia.
  Qed.

  Lemma passes_from ma mo l ss :
    mok ma -> cross W ma mo -> In (MIdS l) mo -> CUR l -> Forall (scm ma) ss -> Forall passes ss.
  Proof.
    intros Hm Hc Hin [Hl _] Hs. eapply Forall_impl; [|exact Hs]. intros x [Ho Hcl].
    destruct (Hc _ _ Ho Hin) as [H1 _]. destruct (Hc _ _ Hcl Hin) as [_ H2]. cbn [mark_key ends begins] in *.
    apply passes_keys; [exact (Hm _ Ho)|lia|]. specialize (H2 eq_refl eq_refl). lia.
  Qed.

  Lemma notin_from_after mo mb l ss :
    mok mb -> cross W mo mb -> In (MIdE l) mo -> CUR l -> Forall (scm mb) ss -> Forall notin ss.
  Proof.
    intros Hm Hc Hin [_ Hh] Hs. eapply Forall_impl; [|exact Hs]. intros x [Ho _].
    destruct (Hc _ _ Hin Ho) as [_ H2]. cbn [mark_key ends begins] in *. specialize (H2 eq_refl eq_refl).
    apply (notin_of_after W HW line col Hcol); [exact (Hm _ Ho)|lia].
  Qed.

  Lemma notin_from_before ma mo l ss :
    mok ma -> cross W ma mo -> In (MIdS l) mo -> CUR l -> Forall (scm ma) ss -> Forall notin ss.
  Proof.
    intros Hm Hc Hin [Hl _] Hs. eapply Forall_impl; [|exact Hs]. intros x [Ho Hcl].
    destruct (Hc _ _ Hcl Hin) as [_ H2]. cbn [mark_key ends begins] in *. specialize (H2 eq_refl eq_refl).
    apply (notin_of_before W HW line col Hcol); [exact (Hm _ Ho)|lia].
  Qed.

  Lemma icp_before v : 0 <= sc (v_loc v) < W -> lo W (v_loc v) <= K ->
    match v_ref v with
    | RNone => True
    | RFunc fl => loc_contains fl (v_loc v) = true \/ loc_contains fl pl = false
    | RName fl | RCall fl => loc_contains fl pl = false
    end -> init_hides v pl = false -> is_correct_position v pl = true.
  Proof.
    intros Hs Hl Hr Hih. unfold is_correct_position.
    rewrite (proj2 (loc_before_iff W HW line col Hcol (v_loc v) Hs) Hl). cbn [negb]. rewrite Hih.
    destruct (v_ref v); auto; try (rewrite Hr; reflexivity).
    destruct Hr as [Hr|Hr]; rewrite Hr; [reflexivity|]. destruct (loc_contains l (v_loc v)); reflexivity.
  Qed.

  Lemma not_contains_before fl : cok W fl -> hi W fl < K -> loc_contains fl pl = false.
  Proof.
    intros Hc Hk. destruct (loc_contains fl pl) eqn:E; [|reflexivity].
    apply (loc_contains_iff W HW line col Hcol fl Hc) in E. lia.
  Qed.
  Lemma not_contains_after fl : cok W fl -> K < lo W fl -> loc_contains fl pl = false.
  Proof.
    intros Hc Hk. destruct (loc_contains fl pl) eqn:E; [|reflexivity].
    apply (loc_contains_iff W HW line col Hcol fl Hc) in E. lia.
  Qed.

  Lemma vars_before ma mo l vs :
    mok ma -> cross W ma mo -> In (MIdS l) mo -> CUR l -> Forall (vm ma) vs -> Forall before vs /\ Forall okhit vs.
  Proof.
    intros Hm Hc Hin [Hl _] Hv.
    assert (Hb : Forall before vs).
    { eapply Forall_impl; [|exact Hv]. intros v [[Hs _] _]. destruct (Hc _ _ Hs Hin) as [H1 _]. cbn [mark_key] in H1.
      destruct (ids_ok _ (Hm _ Hs)) as (_ & _ & Hck). split; [apply (cok_bounds W _ Hck)|lia]. }
    split; [exact Hb|]. rewrite Forall_forall in *. intros v Hvin _. destruct (Hb v Hvin) as [Hs Hlo].
    destruct (Hv v Hvin) as [_ [Hr [_ Hi]]].
    apply icp_before; auto.
    - destruct (v_ref v) as [|fl|fl|fl]; cbn [refm] in Hr; auto.
      + right. destruct Hr as [Ho Hcl]. destruct (Hc _ _ Hcl Hin) as [_ H2]. specialize (H2 eq_refl eq_refl). cbn [mark_key] in H2.
        apply not_contains_before; [exact (Hm _ Ho)|lia].
      + destruct Hr as [Ho Hcl]. destruct (Hc _ _ Hcl Hin) as [_ H2]. specialize (H2 eq_refl eq_refl). cbn [mark_key] in H2.
        destruct (ids_ok _ (Hm _ Ho)) as (_ & _ & Hck). apply not_contains_before; [exact Hck|lia].
      + destruct Hr as [Ho Hcl]. destruct (Hc _ _ Hcl Hin) as [_ H2]. specialize (H2 eq_refl eq_refl). cbn [mark_key] in H2.
        apply not_contains_before; [exact (Hm _ Ho)|lia].
    - (* the initialiser region of an earlier declaration is closed before the cursor *)
      unfold init_hides. destruct (v_init v) as [il|]; [|reflexivity].
      destruct Hi as [Ho Hcl]. destruct (Hc _ _ Hcl Hin) as [_ H2]. specialize (H2 eq_refl eq_refl). cbn [mark_key] in H2.
      rewrite (not_contains_before il (Hm _ Ho)) by lia. reflexivity.
  Qed.

  Lemma nohit_after v : 0 <= sc (v_loc v) < W -> K < lo W (v_loc v) -> hit v = false.
  Proof.
    intros Hs Hk. unfold PositionBindLook.hit, var_hit, is_correct_position.
    destruct (loc_before (v_loc v) pl) eqn:E.
    - apply (loc_before_iff W HW line col Hcol _ Hs) in E. lia.
    - cbn [negb]. apply andb_false_r.
  Qed.

  Lemma vars_after mo mb l vs :
    mok mb -> cross W mo mb -> In (MIdE l) mo -> CUR l -> Forall (fun v => idm (v_loc v) mb) vs ->
    Forall (fun v => hit v = false) vs.
  Proof.
    intros Hm Hc Hin [_ Hh] Hv. eapply Forall_impl; [|exact Hv]. intros v [Hs _].
    destruct (Hc _ _ Hin Hs) as [_ H2]. specialize (H2 eq_refl eq_refl). cbn [mark_key] in H2.
    destruct (ids_ok _ (Hm _ Hs)) as (_ & _ & Hck). apply nohit_after; [apply (cok_bounds W _ Hck)|lia].
  Qed.

  Lemma vm_idm ms vs : Forall (vm ms) vs -> Forall (fun v => idm (v_loc v) ms) vs.
  Proof. apply Forall_impl. intros v [H _]. exact H. Qed.

  Lemma open_close_cur l mid lo0 :
    MG W (MOpen l :: mid ++ [MClose l]) -> idm lo0 mid -> CUR lo0 -> CUR l /\ cok W l.
  Proof.
    intros HM [Hs He] [Hl Hh]. destruct (MG_cons W _ _ HM) as (HM2 & Hc1 & Hok).
    destruct (MG_app W _ _ HM2) as (_ & _ & Hc2).
    split; [|exact Hok]. split.
    - destruct (Hc1 (MOpen l) (MIdS lo0)) as [H _]; [left; reflexivity|apply in_or_app; left; exact Hs|]. cbn [mark_key] in H. lia.
    - destruct (Hc2 (MIdE lo0) (MClose l)) as [H _]; [exact He|left; reflexivity|]. cbn [mark_key] in H. lia.
  Qed.

  Lemma loc_contains_keys a b : cok W a -> cok W b -> lo W a <= lo W b -> hi W b <= hi W a -> loc_contains a b = true.
  Proof.
    intros Ha Hb H1 H2. destruct (cok_bounds W _ Ha) as [Has Hae]. destruct (cok_bounds W _ Hb) as [Hbs Hbe].
    unfold lo, hi in *. apply (key_le W HW _ _ _ _ Has Hbs) in H1. apply (key_le W HW _ _ _ _ Hbe Hae) in H2.
    unfold loc_contains.
    destruct (sl a >? sl b) eqn:E1; destruct (el a <? el b) eqn:E2; cbn [orb];
      destruct (sl a =? sl b) eqn:E3; destruct (sc a >? sc b) eqn:E4; cbn [andb];
      destruct (el a =? el b) eqn:E5; destruct (ec a <? ec b) eqn:E6; cbn [andb]; try reflexivity; lia.
  Qed.

  (* a declaration under the cursor: everything declared after it in the same statement / header does not hit *)
  Lemma decl_self vs v0 :
    G W (flat_map id_marks (map v_loc vs)) -> mok (flat_map id_marks (map v_loc vs)) ->
    In v0 vs -> CUR (v_loc v0) ->
    exists inv rest, rev vs = inv ++ v0 :: rest /\ Forall (fun v => hit v = false) inv.
  Proof.
    intros HG Hm Hin Hcur. apply in_split in Hin. destruct Hin as (A & B & E). subst vs.
    exists (rev B), (rev A). split; [rewrite rev_app_distr; cbn [rev]; rewrite <- app_assoc; reflexivity|].
    rewrite map_app, flat_map_app in HG, Hm. cbn [map flat_map] in HG, Hm.
    rewrite app_assoc in HG. destruct (G_app W _ _ HG) as (_ & _ & Hc).
    apply Forall_rev.
    apply (vars_after (flat_map id_marks (map v_loc A) ++ id_marks (v_loc v0)) (flat_map id_marks (map v_loc B)) (v_loc v0)).
    - intros m Hmi. apply Hm. apply in_or_app. right. apply in_or_app. right. exact Hmi.
    - exact Hc.
    - apply in_or_app. right. right. left. reflexivity.
    - exact Hcur.
    - apply Forall_forall. intros v Hv. eapply idm_mono; [|apply id_marks_idm].
      apply (incl_flat_map_in id_marks (map v_loc B) (v_loc v)). apply in_map. exact Hv.
  Qed.

  (* ------------------------------------------------------------------ the invariant of the main induction *)
  Definition Concl (ms : list mark) (sks : list scope) (f : list ventry) (en : env) (o : socc) : Prop :=
    idm (s_loc o) ms /\
    forall pre post, Forall passes pre -> Forall notin post ->
      exists c, ipath line col (pre ++ sks ++ post) c /\ EnvC W line col n en o (c ++ [f]).

  Lemma concl_mono ms ms' sks f en o : incl ms ms' -> Concl ms sks f en o -> Concl ms' sks f en o.
  Proof. intros Hi [H1 H2]. split; [eapply idm_mono; eauto|exact H2]. Qed.

  Lemma concl_embed ms sks f en o sa sb :
    Concl ms sks f en o -> Forall passes sa -> Forall notin sb -> Concl ms (sa ++ sks ++ sb) f en o.
  Proof.
    intros [H1 H2] Ha Hb. split; [exact H1|]. intros pre post Hpre Hpost.
    destruct (H2 (pre ++ sa) (sb ++ post)) as (c & Hc & He).
    - apply Forall_app. split; assumption.
    - apply Forall_app. split; assumption.
    - exists c. split; [|exact He]. rewrite <- !app_assoc in Hc. rewrite <- !app_assoc. exact Hc.
  Qed.

  Lemma concl_retag ms sks f en o0 o : retag o0 o -> Concl ms sks f en o0 -> Concl ms sks f en o.
  Proof.
    intros Hr [H1 H2]. split; [destruct Hr as (Hl & _); rewrite Hl; exact H1|].
    intros pre post Hpre Hpost. destruct (H2 pre post Hpre Hpost) as (c & Hc & He).
    exists c. split; [exact Hc|]. eapply EnvC_retag; eauto.
  Qed.

  Lemma concl_ext ms sks f en o earlier later :
    Concl ms sks f (map ent earlier ++ en) o ->
    Forall (fun v => hit v = false) later -> Forall before earlier -> Forall okhit earlier ->
    Concl ms sks (later ++ f ++ earlier) en o.
  Proof.
    intros [H1 H2] Hl Hb Ho. split; [exact H1|]. intros pre post Hpre Hpost.
    destruct (H2 pre post Hpre Hpost) as (c & Hc & He). exists c. split; [exact Hc|].
    apply EnvC_ext; assumption.
  Qed.

  Lemma concl_hidden ms sks f en o H :
    Concl ms sks f en o ->
    (is_decl (s_role o) = false -> forall ien, s_env o = ien ++ en -> classB_ok o = true -> env_find ien n = None ->
                                    Forall (fun v => hit v = false) H) ->
    Concl ms sks (f ++ H) en o.
  Proof.
    intros [H1 H2] HH. split; [exact H1|]. intros pre post Hpre Hpost.
    destruct (H2 pre post Hpre Hpost) as (c & Hc & He). exists c. split; [exact Hc|].
    apply EnvC_hidden; assumption.
  Qed.

  Lemma concl_wrap ms sks f en o l :
    Concl ms sks f en o -> CUR l -> cok W l -> Concl ms [Scope l f sks] [] en o.
  Proof.
    intros [H1 H2] [Hlo Hhi] Hc. split; [exact H1|]. intros pre post Hpre Hpost.
    destruct (H2 [] [] (Forall_nil _) (Forall_nil _)) as (c & Hip & He). cbn [app] in Hip. rewrite app_nil_r in Hip.
    exists (c ++ [f]). split.
    - right. exists (Scope l f sks). split; [|apply path_of_ipath; exact Hip].
      cbn [app]. apply (scan_single W HW line col Hcol); assumption.
    - apply EnvC_nil. exact He.
  Qed.

  (* the occurrence is not inside any of the sibling scopes *)
  Lemma concl_leaf ms sks en o :
    idm (s_loc o) ms -> Forall notin sks -> EnvC W line col n en o [[]] -> Concl ms sks [] en o.
  Proof.
    intros H1 Hs He. split; [exact H1|]. intros pre post Hpre Hpost. exists []. split; [|exact He].
    left. split; [|reflexivity]. rewrite scan_skip by exact Hpre. apply scan_none_notin.
    apply Forall_app. split; assumption.
  Qed.
End Pos.
