(* C20 - check 5 after C20-t5-string-key and C20-t5-int-key-place: the key strings of the code ("#int" + decimal,
   double quote + string, "!" + name) are an injective code of the normal forms of the specification (integer / string
   / name), never empty, and the report sits on the key: the check is exactly Pattern5. *)
From Coq Require Import List NArith ZArith Bool Arith Lia ZifyN ZifyNat ZifyBool.
From LH Require Import Base.Bytes Model.Lexer Model.Ast Model.Parser Spec.PatternSpec Model.Patterns
  Proofs.PatternsLocal.
Import ListNotations.
Local Open Scope N_scope.

(* ------------------------------------------------------------------ strconv.FormatInt is injective *)
Definition dval (l : list N) : N := fold_left (fun a d => a * 10 + (d - 48)) l 0.
Definition is_digit (d : N) : Prop := 48 <= d /\ d <= 57.

Lemma dval_snoc l d : dval (l ++ [d]) = dval l * 10 + (d - 48).
Proof. unfold dval. rewrite fold_left_app. reflexivity. Qed.

Lemma dec_digits_app f : forall n acc, dec_digits f n acc = dec_digits f n [] ++ acc.
Proof.
  induction f as [|f IH]; intros n acc; [reflexivity|].
  cbn [dec_digits]. destruct (n / 10 =? 0).
  - reflexivity.
  - rewrite (IH (n / 10) ((48 + n mod 10) :: acc)), (IH (n / 10) [48 + n mod 10]).
    rewrite <- app_assoc. reflexivity.
Qed.

Lemma dec_digits_val f : forall n, n < 2 ^ N.of_nat f -> dval (dec_digits f n []) = n.
Proof.
  induction f as [|f IH]; intros n Hn.
  - change (2 ^ N.of_nat 0) with 1 in Hn. unfold dval. cbn [dec_digits fold_left]. lia.
  - cbn [dec_digits]. destruct (n / 10 =? 0) eqn:E.
    + apply N.eqb_eq in E. unfold dval. cbn [fold_left]. pose proof (N.div_mod n 10). lia.
    + rewrite dec_digits_app, dval_snoc, IH.
      * pose proof (N.div_mod n 10). pose proof (N.mod_lt n 10). lia.
      * rewrite Nat2N.inj_succ, N.pow_succ_r' in Hn.
        apply N.div_lt_upper_bound; [lia|]. lia.
Qed.

Lemma dec_digits_digits f : forall n acc, Forall is_digit acc -> Forall is_digit (dec_digits f n acc).
Proof.
  induction f as [|f IH]; intros n acc Ha; [exact Ha|].
  cbn [dec_digits].
  assert (Hd : Forall is_digit ((48 + n mod 10) :: acc)).
  { constructor; auto. unfold is_digit. pose proof (N.mod_lt n 10). lia. }
  destruct (n / 10 =? 0); auto.
Qed.

Lemma dec_N_val n : dval (dec_N n) = n.
Proof.
  unfold dec_N. apply dec_digits_val.
  destruct n as [|p]; [cbn; lia|].
  rewrite Nat2N.inj_succ, N2Nat.id. apply N.log2_spec. lia.
Qed.
Lemma dec_N_digits n : Forall is_digit (dec_N n).
Proof. unfold dec_N. apply dec_digits_digits. constructor. Qed.

Lemma dec_N_inj n m : dec_N n = dec_N m -> n = m.
Proof. intros H. rewrite <- (dec_N_val n), <- (dec_N_val m), H. reflexivity. Qed.

Lemma dec_N_head_not n c r : dec_N n = c :: r -> is_digit c.
Proof. intros H. pose proof (dec_N_digits n) as F. rewrite H in F. inversion F; auto. Qed.

Lemma dec_Z_inj v w : dec_Z v = dec_Z w -> v = w.
Proof.
  destruct v as [|p|p], w as [|q|q]; cbn [dec_Z]; intros H; try reflexivity.
  - exfalso. assert (Hv : dval (dec_N (N.pos q)) = 0) by (rewrite <- H; reflexivity).
    rewrite dec_N_val in Hv. discriminate.
  - discriminate.
  - exfalso. assert (Hv : dval (dec_N (N.pos p)) = 0) by (rewrite H; reflexivity).
    rewrite dec_N_val in Hv. discriminate.
  - apply dec_N_inj in H. congruence.
  - exfalso. apply dec_N_head_not in H. unfold is_digit in H. lia.
  - discriminate.
  - exfalso. symmetry in H. apply dec_N_head_not in H. unfold is_digit in H. lia.
  - inversion H as [H1]. apply dec_N_inj in H1. congruence.
Qed.

(* ------------------------------------------------------------------ key strings = normal forms *)
(* the key string of a normal form, after C20-t5-string-key *)
Definition enc (nf : keynf) : list N :=
  match nf with
  | KInt v => s_int ++ dec_Z v
  | KStr s => 34 :: s
  | KName n => 33 :: n
  end.

Lemma enc_inj a b : enc a = enc b -> a = b.
Proof.
  destruct a, b; cbn; intros H; try discriminate; inversion H; subst; try reflexivity.
  f_equal. apply dec_Z_inj. auto.
Qed.

Lemma keynf_eqb_eq a b : keynf_eqb a b = true <-> a = b.
Proof.
  destruct a, b; cbn; try (split; [discriminate|intros H; inversion H]).
  - rewrite Z.eqb_eq. split; [intros ->; auto|intros H; inversion H; auto].
  - rewrite beq_bytes_eq. split; [intros ->; auto|intros H; inversion H; auto].
  - rewrite beq_bytes_eq. split; [intros ->; auto|intros H; inversion H; auto].
Qed.

Section Keys.
  Variable fx : fixes.
  Hypothesis Hstr : fx_str_key fx = true.
  Hypothesis Hint : fx_int_key fx = true.

  Lemma code_key_fixed parent k key L :
    code_key fx parent k = Some (key, L)
    <-> exists ke nf, k = Some ke /\ key_nf k = Some nf /\ key = enc nf /\ L = exp_loc ke.
  Proof.
    destruct k as [ke|]; [|cbn; split; [discriminate|intros [ke [nf [H _]]]; discriminate]].
    destruct ke; cbn [code_key key_str key_nf];
      try (split; [discriminate|intros [ke0 [nf [_ [H _]]]]; discriminate]).
    - (* integer *) rewrite Hint. cbn [s_int s_hash app]. split.
      + intros H. inversion H; subst. eexists; eexists. repeat split.
      + intros [ke0 [nf [H1 [H2 [H3 H4]]]]]. inversion H1; inversion H2; subst. reflexivity.
    - (* string *) rewrite Hstr. split.
      + intros H. inversion H; subst. eexists; eexists. repeat split.
      + intros [ke0 [nf [H1 [H2 [H3 H4]]]]]. inversion H1; inversion H2; subst. reflexivity.
    - (* name *) split.
      + intros H. inversion H; subst. eexists; eexists. repeat split.
      + intros [ke0 [nf [H1 [H2 [H3 H4]]]]]. inversion H1; inversion H2; subst. reflexivity.
  Qed.

  Lemma nth_code_key parent ks j key L :
    option_map (code_key fx parent) (nth_error ks j) = Some (Some (key, L))
    <-> exists k, nth_error ks j = Some k /\ code_key fx parent k = Some (key, L).
  Proof.
    destruct (nth_error ks j) as [k|]; cbn [option_map].
    - split; [intros H; inversion H; eauto|intros [k' [H1 H2]]; inversion H1; subst; congruence].
    - split; [discriminate|intros [k' [H _]]; discriminate].
  Qed.

  (* 5, repaired: key j is reported iff an earlier key has the same normal form; the report sits on key j *)
  Lemma t5_iff_fixed ks parent L :
    reported 5 L (table_checks fx ks parent [])
    <-> exists j ke, Pattern5 ks j /\ nth_error ks j = Some (Some ke) /\ L = exp_loc ke.
  Proof.
    rewrite t5_iff. unfold Pattern5. split.
    - intros [j [key [Hj [i [l' [Hlt Hi]]]]]].
      apply nth_code_key in Hj as [k [Hkj Hj]]. apply code_key_fixed in Hj as [ke [nf [-> [Hnf [-> ->]]]]].
      apply nth_code_key in Hi as [k' [Hki Hi]]. apply code_key_fixed in Hi as [ke' [nf' [-> [Hnf' [He _]]]]].
      apply enc_inj in He. subst nf'.
      exists j, ke. split; [|split; auto].
      exists (Some ke), nf. split; auto. split; auto. exists i, (Some ke'). auto.
    - intros [j [ke [[k [nf [Hkj [Hnf [i [k' [Hlt [Hki Hnf']]]]]]]] [Hj ->]]]].
      assert (k = Some ke) by congruence. subst k.
      destruct k' as [ke'|]; [|discriminate].
      exists j, (enc nf). split.
      + apply nth_code_key. exists (Some ke). split; auto. apply code_key_fixed. eauto 8.
      + exists i, (exp_loc ke'). split; auto.
        apply nth_code_key. exists (Some ke'). split; auto. apply code_key_fixed. eauto 8.
  Qed.
End Keys.
