(* C07, traversal resolver of Model/Usage.v = the reference binder of Spec/LuaUsage.v, part 1:
   the scope machine run over a concatenation of action lists, the relation between the scope stack and the binder's
   environment (names and declaration Locs; IsUse / ReferExp mutations are invisible to it), and what a position-clean
   look-up returns. *)
From Coq Require Import List NArith ZArith Bool Lia.
From LH Require Import Base.Bytes Model.Lexer Model.Ast Spec.LuaUsage Model.Usage.
Import ListNotations.
Local Open Scope N_scope.

(* ------------------------------------------------------------------ runs *)
Definition stack_run (acts : list action) (st : stack) : stack :=
  fold_left (fun s a => step_stack true a s) acts st.

Fixpoint log_run (acts : list action) (st : stack) {struct acts} : list occ :=
  match acts with
  | [] => []
  | a :: r => step_log true a st ++ log_run r (step_stack true a st)
  end.

Lemma stack_run_app a b st : stack_run (a ++ b) st = stack_run b (stack_run a st).
Proof. unfold stack_run. apply fold_left_app. Qed.

Lemma log_run_app a b st : log_run (a ++ b) st = log_run a st ++ log_run b (stack_run a st).
Proof.
  revert st. induction a as [|x r IH]; intros st; [reflexivity|].
  cbn [app log_run]. rewrite IH, <- app_assoc. reflexivity.
Qed.

Lemma clean_run_app a b st : clean_run true (a ++ b) st = clean_run true a st && clean_run true b (stack_run a st).
Proof.
  revert st. induction a as [|x r IH]; intros st; [reflexivity|].
  cbn [app clean_run]. rewrite IH, andb_assoc. reflexivity.
Qed.

(* ------------------------------------------------------------------ stack vs environment *)
Definition proj (v : var) : name * loc := (v_name v, v_loc v).
Definition SRel (st : stack) (ens : list env) : Prop := Forall2 (fun sc seg => map proj sc = seg) st ens.

Lemma upd_sc_proj p f sc : (forall v, proj (f v) = proj v) -> map proj (upd_sc p f sc) = map proj sc.
Proof.
  intros Hf. induction sc as [|v r IH]; [reflexivity|]. cbn. destruct (p v); cbn; [rewrite Hf; reflexivity|].
  rewrite IH. reflexivity.
Qed.

Lemma upd_st_SRel p f st ens : (forall v, proj (f v) = proj v) -> SRel st ens -> SRel (upd_st p f st) ens.
Proof.
  intros Hf H. induction H as [|sc seg st' ens' Hs Hr IH]; [constructor|].
  cbn. destruct (existsb p sc).
  - constructor; [rewrite upd_sc_proj; assumption|exact Hr].
  - constructor; assumption.
Qed.

Lemma mark_proj v : proj (mark v) = proj v.
Proof. reflexivity. Qed.
Lemma assign_to_proj l rhs v : proj (assign_to l rhs v) = proj v.
Proof. reflexivity. Qed.

Lemma SRel_read n l flv su ci st ens : SRel st ens -> SRel (step_stack true (ARead n l flv su ci) st) ens.
Proof. intros H. cbn. apply upd_st_SRel; [apply mark_proj|exact H]. Qed.
Lemma SRel_write n l flv slv rhs st ens : SRel st ens -> SRel (step_stack true (AWrite n l flv slv rhs) st) ens.
Proof. intros H. cbn. apply upd_st_SRel; [intros; apply assign_to_proj|exact H]. Qed.
Lemma SRel_push st ens : SRel st ens -> SRel (step_stack true APush st) ([] :: ens).
Proof. intros H. cbn. constructor; [reflexivity|exact H]. Qed.
Lemma SRel_pop st seg ens : SRel st (seg :: ens) -> SRel (step_stack true APop st) ens.
Proof. intros H. inversion H; subst. cbn. assumption. Qed.
Lemma SRel_add v st seg ens : SRel st (seg :: ens) -> SRel (step_stack true (AAdd v) st) ((proj v :: seg) :: ens).
Proof. intros H. inversion H; subst. cbn. constructor; [reflexivity|assumption]. Qed.

(* ---- a clean look-up is the environment look-up *)
Lemma find_st_concat p st : find_st p st = find p (concat st).
Proof.
  induction st as [|sc r IH]; [reflexivity|]. cbn. rewrite IH.
  induction sc as [|v sc' IHs]; [reflexivity|]. cbn. destruct (p v); [reflexivity|exact IHs].
Qed.

Lemma find_ext_in {A} (p q : A -> bool) l : (forall x, In x l -> p x = q x) -> find p l = find q l.
Proof.
  induction l as [|x r IH]; intros H; [reflexivity|]. cbn. rewrite (H x (or_introl eq_refl)).
  destruct (q x); [reflexivity|]. apply IH. intros y Hy. apply H. right. exact Hy.
Qed.

Lemma binding_find_lookup n vs :
  binding_of (find (fun v => name_eqb (v_name v) n) vs) = lookup n (map proj vs).
Proof.
  induction vs as [|v r IH]; [reflexivity|]. cbn. destruct (name_eqb (v_name v) n); [reflexivity|exact IH].
Qed.

Definition clean_lookup (n : name) (l : loc) (st : stack) : bool :=
  forallb (forallb (fun v => negb (name_eqb (v_name v) n) || correct_position v l)) st.

Lemma SRel_concat st ens : SRel st ens -> map proj (concat st) = concat ens.
Proof. induction 1 as [|sc seg st' ens' Hs Hr IH]; [reflexivity|]. cbn. rewrite map_app, Hs, IH. reflexivity. Qed.

Lemma clean_binding n l st ens :
  SRel st ens -> clean_lookup n l st = true ->
  binding_of (find_st (hit true n l) st) = lookup n (concat ens).
Proof.
  intros Hr Hc. rewrite find_st_concat, <- (SRel_concat _ _ Hr), <- binding_find_lookup. f_equal.
  apply find_ext_in. intros v Hv. unfold hit.
  unfold clean_lookup in Hc. rewrite forallb_forall in Hc.
  apply in_concat in Hv. destruct Hv as [sc [Hsc Hv]]. specialize (Hc sc Hsc). rewrite forallb_forall in Hc.
  specialize (Hc v Hv). destruct (name_eqb (v_name v) n); [cbn in *; rewrite Hc; reflexivity|reflexivity].
Qed.

(* ------------------------------------------------------------------ environments equal outside a set of names *)
Definition EQX (X : list name) (ent ens : env) : Prop :=
  forall n, name_mem n X = false -> lookup n ent = lookup n ens.

Lemma EQX_cons X p ent ens : EQX X ent ens -> EQX X (p :: ent) (p :: ens).
Proof. intros H n Hn. destruct p as [m l]. cbn. destruct (name_eqb m n); [reflexivity|apply H; exact Hn]. Qed.

Lemma EQX_app X pre ent ens : EQX X ent ens -> EQX X (pre ++ ent) (pre ++ ens).
Proof. intros H. induction pre as [|p r IH]; [exact H|]. cbn. apply EQX_cons. exact IH. Qed.

Lemma name_eqb_eq a b : name_eqb a b = true <-> a = b.
Proof. unfold name_eqb. apply beq_bytes_eq. Qed.
Lemma name_eqb_refl a : name_eqb a a = true.
Proof. apply name_eqb_eq. reflexivity. Qed.
Lemma name_eqb_sym a b : name_eqb a b = name_eqb b a.
Proof.
  destruct (name_eqb a b) eqn:E.
  - apply name_eqb_eq in E. subst. symmetry. apply name_eqb_refl.
  - destruct (name_eqb b a) eqn:E'; [|reflexivity]. apply name_eqb_eq in E'. subst.
    rewrite name_eqb_refl in E. discriminate.
Qed.

(* an extra entry whose name is in X does not disturb the agreement *)
Lemma EQX_extra X m l ent ens : name_mem m X = true -> EQX X ent ens -> EQX X ((m, l) :: ent) ens.
Proof.
  intros Hm H n Hn. cbn. destruct (name_eqb m n) eqn:E; [|apply H; exact Hn].
  apply name_eqb_eq in E. subst. rewrite Hm in Hn. discriminate.
Qed.

Lemma EQX_weaken X Y ent ens :
  (forall n, name_mem n X = true -> name_mem n Y = true) -> EQX X ent ens -> EQX Y ent ens.
Proof.
  intros Hs H n Hn. apply H. destruct (name_mem n X) eqn:E; [|reflexivity]. rewrite (Hs n E) in Hn. discriminate.
Qed.
