(* C01, Lua parser model: the six helper loops outside the mutual fixpoint (name lists, parameter lists, function
   names) terminate with fuel 1 + m st: every iteration consumes a ',' or '.' token. *)
From Coq Require Import List NArith ZArith Bool Arith Lia ZifyNat.
From LH Require Import Base.Bytes Base.Res Model.Lexer Model.Ast Model.Parser.
From LH Require Import Proofs.LexerTotalWf Proofs.ParserTotalBase Proofs.ParserTotalTac.
Import ListNotations.
Set Default Proof Using "Type".

Lemma T_namelist_tail : forall n st names locs,
  wfst st -> 1 + m st <= n -> okp False (p_namelist_tail n st names locs) st.
Proof.
  induction n as [|n IH]; intros st names locs Hw Hf; [lia|]. cbn [p_namelist_tail].
  destruct (tk_eqb (la st) TkSepComma) eqn:Hc; [|finish]. la_norm.
  eapply okp_weaken; [apply IH; [wf|fuel]|fuel|intros []].
Qed.

Lemma T_local_namelist_tail : forall n st sc names locs attrs,
  wfst st -> 1 + m st <= n -> okp False (p_local_namelist_tail n st sc names locs attrs) st.
Proof.
  induction n as [|n IH]; intros st sc names locs attrs Hw Hf; [lia|]. cbn [p_local_namelist_tail].
  destruct (tk_eqb (la st) TkSepComma) eqn:Hc; [|finish]. la_norm.
  destruct (p_local_attr (expect TkIdentifier (next st))) as [a st2] eqn:Ha.
  apply local_attr_ok in Ha; [|wf]. destruct Ha as [Hw2 Hm2].
  eapply okp_weaken; [apply IH; [wf|fuel]|fuel|intros []].
Qed.

Lemma T_parlist_tail : forall n st names locs,
  wfst st -> 1 + m st <= n -> okp False (p_parlist_tail n st names locs) st.
Proof.
  induction n as [|n IH]; intros st names locs Hw Hf; [lia|]. cbn [p_parlist_tail].
  destruct (tk_eqb (la st) TkSepComma) eqn:Hc; [|finish]. la_norm.
  destruct (tk_eqb (la (next st)) TkIdentifier) eqn:Hi; [|finish].
  eapply okp_weaken; [apply IH; [wf|fuel]|fuel|intros []].
Qed.

Lemma T_parlist n st : wfst st -> 1 + m st <= n -> okp False (p_parlist n st) st.
Proof.
  intros Hw Hf. unfold p_parlist.
  destruct (la st); try finish;
    (eapply okp_weaken; [apply T_parlist_tail; [wf|fuel]|fuel|intros []]).
Qed.

Lemma T_funcname_dots : forall n st b f e c fn,
  wfst st -> 1 + m st <= n -> okp False (p_funcname_dots n st b f e c fn) st.
Proof.
  induction n as [|n IH]; intros st b f e c fn Hw Hf; [lia|]. cbn [p_funcname_dots].
  destruct (tk_eqb (la st) TkSepDot) eqn:Hc; [|finish]. la_norm.
  eapply okp_weaken; [apply IH; [wf|fuel]|fuel|intros []].
Qed.

Lemma T_funcname n st : wfst st -> 1 + m st <= n -> okp False (p_funcname n st) st.
Proof.
  intros Hw Hf. unfold p_funcname. cbv zeta.
  edestruct (T_funcname_dots n (expect TkIdentifier st)) as (a & st2 & E & Hw2 & Hm2 & _); [wf|fuel|].
  rewrite E. destruct a as [[e cls] fname]. cbv beta iota.
  destruct (tk_eqb (la st2) TkSepColon) eqn:Hc; finish.
Qed.
