(* C08 - the strong invariant of conformant, guarded histories and the theorems that follow from it:
   the project state is characterised by the disk (Proofs/EventsRefine.v good_proj), the saved map is the project's
   error collection, and the client view of every file is exactly what the property demands. *)
From Coq Require Import List NArith Bool Lia Permutation Sorted PeanoNat.
From LH Require Import Model.Diag Model.Events Spec.FreshStart Proofs.DiagProofs Proofs.EventsSets Proofs.EventsRefine Proofs.EventsTracks Proofs.EventsBatch Proofs.EventsIndex.
Import ListNotations.
Local Open Scope N_scope.

Lemma has_syn_false_nonsyn l : has_syn l = false -> nonsyn l = l.
Proof.
  unfold has_syn, nonsyn. induction l as [|e r IH]; intros H; [reflexivity|].
  cbn [existsb] in H. apply orb_false_iff in H as [H1 H2]. cbn [filter]. rewrite H1. cbn [negb]. rewrite IH; [reflexivity|exact H2].
Qed.

(* what the view of one file must be, given: has unsaved edits?, syntax errors of its buffer, live entry, saved list *)
Definition file_ok (isdirty : bool) (synb : list err) (lv : option (list err)) (sl vf : list err) : Prop :=
  if isdirty then (if is_nil synb then lv = None /\ vf = nonsyn sl else lv = Some synb /\ vf = synb)
  else lv = None /\ vf = sl.

Definition nonempty_entries (m : emap) : Prop := forall f l, aget m f = Some l -> l <> [].

Lemma vget_some m f l : aget m f = Some l -> vget m f = l.
Proof. unfold vget. intros ->. reflexivity. Qed.
Lemma vget_none m f : aget m f = None -> vget m f = [].
Proof. unfold vget. intros ->. reflexivity. Qed.

(* pushAllDiagnosticsAgain keeps a file's view right, provided the two finding classes do not strike at this file
   (the class unhidden cannot strike when the repaired code re-hides the files of the clean set) *)
Lemma push_all_file_ok fix12a fixun d new v g dty synb :
  file_ok dty synb (aget (live d) g) (vget (saved d) g) (vget v g) ->
  nonempty_entries (saved d) -> nonempty_entries new ->
  fmem g (clean d) = dty && is_nil synb ->
  (dty = true -> aget (live d) g <> None -> is_nil new || fix12a = true \/ vget (saved d) g = vget new g) ->
  (dty = true -> aget (live d) g = None -> fixun = false -> vget (saved d) g = vget new g \/ has_syn (vget new g) = false) ->
  file_ok dty synb (aget (live d) g) (vget new g) (vget (vapply v (snd (push_all_again fix12a fixun d new))) g).
Proof.
  intros Hok Hne_old Hne_new Hclean Hlive Hhid0. rewrite push_all_again_view.
  destruct (fixun && fmem g (clean d) && ahas new g) eqn:Ecl.
  { apply andb_true_iff in Ecl as [Ecl _]. apply andb_true_iff in Ecl as [_ Ecl]. rewrite Ecl in Hclean. symmetry in Hclean.
    apply andb_true_iff in Hclean as [-> Hs]. unfold file_ok in *. rewrite Hs in *. destruct Hok as [Hl _]. auto. }
  assert (Hhid : dty = true -> aget (live d) g = None -> is_nil synb = true ->
                 vget (saved d) g = vget new g \/ has_syn (vget new g) = false).
  { intros Hd Hl Hs. destruct fixun; [|apply Hhid0; auto]. right. rewrite Hd, Hs in Hclean. cbn [andb] in Hclean, Ecl.
    rewrite Hclean in Ecl. cbn [andb] in Ecl. unfold ahas in Ecl. unfold vget. destruct (aget new g); [discriminate|reflexivity]. }
  clear Hhid0 Ecl.
  (* the value pushAll leaves when the live entry is not re-pushed *)
  assert (Hbase : forall same : vget (saved d) g = vget new g \/ True,
      match aget new g, aget (saved d) g with
      | Some l, None => l
      | Some l, Some old => if errs_eqb old l then vget v g else l
      | None, Some _ => []
      | None, None => vget v g
      end = if errs_eqb (vget (saved d) g) (vget new g) then vget v g else vget new g).
  { intros _. destruct (aget new g) as [l|] eqn:En; destruct (aget (saved d) g) as [old|] eqn:Eo;
      rewrite ?(vget_some _ _ _ En), ?(vget_some _ _ _ Eo), ?(vget_none _ _ En), ?(vget_none _ _ Eo).
    - reflexivity.
    - destruct (errs_eqb [] l) eqn:E; [|reflexivity]. apply errs_eqb_eq in E. exfalso. apply (Hne_new g l En). auto.
    - destruct (errs_eqb old []) eqn:E; [|reflexivity]. apply errs_eqb_eq in E. exfalso. apply (Hne_old g old Eo). auto.
    - reflexivity. }
  rewrite (Hbase (or_intror I)). clear Hbase.
  unfold file_ok in *. destruct dty.
  - destruct (is_nil synb) eqn:Esyn.
    + destruct Hok as [Hl Hv]. rewrite Hl. destruct (is_nil new || fix12a); cbn iota; (split; [reflexivity|]).
      * destruct (errs_eqb (vget (saved d) g) (vget new g)) eqn:E.
        -- apply errs_eqb_eq in E. rewrite <- E. exact Hv.
        -- destruct (Hhid eq_refl Hl eq_refl) as [H|H]; [rewrite H, errs_eqb_refl in E; discriminate|].
           symmetry. apply has_syn_false_nonsyn. exact H.
      * destruct (errs_eqb (vget (saved d) g) (vget new g)) eqn:E.
        -- apply errs_eqb_eq in E. rewrite <- E. exact Hv.
        -- destruct (Hhid eq_refl Hl eq_refl) as [H|H]; [rewrite H, errs_eqb_refl in E; discriminate|].
           symmetry. apply has_syn_false_nonsyn. exact H.
    + destruct Hok as [Hl Hv]. rewrite Hl. split; [reflexivity|].
      destruct (is_nil new || fix12a) eqn:Eb; [reflexivity|].
      destruct (Hlive eq_refl) as [H|H]; [rewrite Hl; discriminate|discriminate|].
      rewrite H, errs_eqb_refl. exact Hv.
  - destruct Hok as [Hl Hv]. rewrite Hl. split; [reflexivity|].
    assert (Hx : (if errs_eqb (vget (saved d) g) (vget new g) then vget v g else vget new g) = vget new g).
    { destruct (errs_eqb (vget (saved d) g) (vget new g)) eqn:E; [|reflexivity]. apply errs_eqb_eq in E. rewrite <- E. exact Hv. }
    destruct (is_nil new || fix12a); exact Hx.
Qed.

Section Inv.
  Variable A : analysis.
  Variable fx : fixes.
  Hypothesis HA : analysis_ok A.
  Local Notation txt := (text A).

  (* ---------- GetAllFileErrorInfo as a lookup ---------- *)
  Lemma all_errs_get p f :
    aget (all_errs A p) f = match errs_of A p f with [] => None | l => Some l end.
  Proof.
    unfold all_errs. set (KS := fset_of (akeys (p_fsm p) ++ akeys (p_terrs p))).
    rewrite (flat_map_ext_in' _ (fun g => match (match errs_of A p g with [] => None | l => Some l end) with
                                          | Some v => [(g, v)] | None => [] end)).
    2:{ intros g _. destruct (errs_of A p g); reflexivity. }
    rewrite aget_flat_map_keys. destruct (existsb (N.eqb f) KS) eqn:E; [reflexivity|].
    assert (Hn : ~ In f KS) by (intros H; apply existsb_eqb_in in H; congruence).
    unfold KS in Hn. rewrite fset_of_in, in_app_iff in Hn.
    assert (H1 : aget (p_fsm p) f = None).
    { destruct (aget (p_fsm p) f) eqn:E1; [|reflexivity]. exfalso. apply Hn. left. apply aget_in_keys. congruence. }
    assert (H2 : aget (p_terrs p) f = None).
    { destruct (aget (p_terrs p) f) eqn:E2; [|reflexivity]. exfalso. apply Hn. right. apply aget_in_keys. congruence. }
    unfold errs_of, first_errs, res_of, vget. rewrite H1, H2. reflexivity.
  Qed.

  Lemma vget_all_errs p f : vget (all_errs A p) f = errs_of A p f.
  Proof. unfold vget. rewrite all_errs_get. destruct (errs_of A p f); reflexivity. Qed.

  Lemma all_errs_nonempty p : nonempty_entries (all_errs A p).
  Proof. intros f l H. rewrite all_errs_get in H. destruct (errs_of A p f); [discriminate|]. injection H as <-. discriminate. Qed.

  (* ---------- the invariant ---------- *)
  Definition syn_of (w : world A) (f : file) : list err :=
    match aget (ebuf w) f with Some b => syn A b | None => [] end.

  (* ---------- the files of the project ---------- *)
  Definition mem_eb (eb : amap txt) (f : file) : bool := in_dir A f || (fix_outside fx && ahas eb f).

  Lemma member_eb w : member A fx w = mem_eb (ebuf w).
  Proof. reflexivity. Qed.

  Lemma mem_eb_in_dir eb f : in_dir A f = true -> mem_eb eb f = true.
  Proof. intros H. unfold mem_eb. rewrite H. reflexivity. Qed.

  Lemma mem_eb_ext eb eb' : (forall g, in_dir A g = false -> ahas eb' g = ahas eb g) -> forall g, mem_eb eb g = mem_eb eb' g.
  Proof. intros H g. unfold mem_eb. destruct (in_dir A g) eqn:E; [reflexivity|]. rewrite (H g E). reflexivity. Qed.

  Lemma good_ebuf_ext (w : world A) eb' p :
    good_proj A (member A fx w) (disk w) p ->
    (forall g, in_dir A g = false -> ahas eb' g = ahas (ebuf w) g) -> good_proj A (mem_eb eb') (disk w) p.
  Proof. intros G H. apply (good_proj_mem_ext A (member A fx w)); [|exact G]. apply mem_eb_ext. exact H. Qed.

  Record inv (w : world A) (v : emap) : Prop := {
    i_good : good_proj A (member A fx w) (disk w) (pj (sv w));
    i_saved : forall f, vget (saved (ds (sv w))) f = errs_of A (pj (sv w)) f;
    i_saved_ne : nonempty_entries (saved (ds (sv w)));
    i_cache : forall f, aget (cache (sv w)) f = aget (ebuf w) f;
    i_open : forall f, In f (dirty w) -> aget (ebuf w) f <> None;
    i_view : forall f, file_ok (fmem f (dirty w)) (syn_of w f) (aget (live (ds (sv w))) f)
                               (vget (saved (ds (sv w))) f) (vget v f);
    (* the clean set of the repaired code: the files with unsaved edits whose buffer has no syntax error *)
    i_clean : forall f, fmem f (clean (ds (sv w))) = fmem f (dirty w) && is_nil (syn_of w f);
    (* the repaired index holds the project files only *)
    i_idx : fix_index fx = true -> idx_eq A (pj (sv w))
  }.

  Lemma live_none_of_clean w v f : inv w v -> ~ In f (dirty w) -> aget (live (ds (sv w))) f = None.
  Proof.
    intros I Hn. pose proof (i_view _ _ I f) as H. apply fmem_false in Hn. rewrite Hn in H. exact (proj1 H).
  Qed.

  Lemma live_some_dirty w v f l : inv w v -> aget (live (ds (sv w))) f = Some l -> In f (dirty w) /\ l = syn_of w f /\ l <> [].
  Proof.
    intros I Hl. pose proof (i_view _ _ I f) as H. unfold file_ok in H. destruct (fmem f (dirty w)) eqn:E.
    - split; [apply fmem_in; exact E|]. destruct (is_nil (syn_of w f)) eqn:Es.
      + destruct H as [H _]. congruence.
      + destruct H as [H _]. rewrite Hl in H. injection H as ->. split; [reflexivity|]. intros Hnil. rewrite Hnil in Es. discriminate.
    - destruct H as [H _]. congruence.
  Qed.

  (* ---------- server start ---------- *)
  Lemma init_inv dk : inv (fst (init_world A fx dk)) (vapply [] (snd (init_world A fx dk))).
  Proof.
    unfold init_world, init_server. cbn [fst snd]. constructor; cbn [disk sv pj ds saved live cache ebuf dirty].
    - apply (good_proj_mem_ext A (in_dir A)); [|exact (init_good A fx (in_dir A) dk)].
      intros f. unfold member. cbn [ebuf ahas aget]. rewrite andb_false_r, orb_false_r. reflexivity.
    - intros f. apply vget_all_errs.
    - apply all_errs_nonempty.
    - reflexivity.
    - intros f [].
    - intros f. cbn [fmem existsb file_ok aget]. split; [reflexivity|]. apply push_all_init_view.
    - intros f. reflexivity.
    - intros _. apply init_idx.
  Qed.

  (* ---------- from the class predicates to the hypotheses of the lemmas ---------- *)
  Lemma stale_ref_false w' :
    k_stale_ref A fx w' = false -> (fix_index fx = true -> idx_eq A (pj (sv w'))) ->
    nostale_p A (pj (sv w')) \/ idx_sub A (pj (sv w')).
  Proof.
    intros H Hidx. destruct (fix_index fx) eqn:Efix; [right; apply idx_eq_sub; apply Hidx; reflexivity|left].
    revert H. unfold k_stale_ref, nostale_p. rewrite Efix. cbn [negb andb]. intros H g r t Hg Hr Hin.
    destruct (fmem t (p_files (pj (sv w')))) eqn:E; [apply fmem_in; exact E|]. exfalso.
    assert (existsb (fun f => match res_of A (pj (sv w')) f with
                              | Some r => existsb (fun ot => match ot with Some t => negb (fmem t (p_files (pj (sv w')))) | None => false end) (r_refs r)
                              | None => false end) (p_files (pj (sv w'))) = true); [|congruence].
    apply existsb_exists. exists g. split; [exact Hg|]. rewrite Hr. apply existsb_exists. exists (Some t). split; [exact Hin|].
    rewrite E. reflexivity.
  Qed.

  Lemma app_nil_inv {X} (a b : list X) : a ++ b = [] -> a = [] /\ b = [].
  Proof. destruct a; [auto|discriminate]. Qed.

  Lemma classes_step_nil w a w' :
    classes_step A fx w a w' = [] ->
    k_outside A fx a = false /\ k_live_cleared A fx w w' = false /\ k_unhidden A fx w w' = false /\
    k_close_revert A fx w a = false /\ k_watched_dirty A fx w a = false /\ k_stale_ref A fx w' = false /\
    k_empty_shortcut A fx w a = false /\ k_open_text A fx w a = false.
  Proof.
    unfold classes_step. intros H.
    repeat (apply app_nil_inv in H; destruct H as [?H H]).
    repeat match goal with
           | HH : (if ?c then [_] else []) = [] |- _ => destruct c eqn:?; [discriminate HH|clear HH]
           end.
    destruct (k_open_text A fx w a); [discriminate|]. auto 12.
  Qed.

  (* ---------- didOpen of a known file ---------- *)
  (* the carried text is the file's text (or the code is the one before the didOpen repair): nothing is analysed *)
  Lemma did_open_same dk (s : server A) f t :
    fix_didopen fx && open_differs A dk f t = false -> did_open A fx dk s f t = did_open_base A fx dk s f t.
  Proof. intros H. unfold did_open. rewrite H. destruct (did_open_base A fx dk s f t). reflexivity. Qed.

  Lemma open_differs_disk dk f t : aget dk f = Some t -> fix_didopen fx && open_differs A dk f t = false.
  Proof. intros H. unfold open_differs. rewrite H, (ok_teqb_refl A HA). apply andb_false_r. Qed.

  Lemma did_open_known dk (s : server A) f t :
    fmem f (p_files (pj s)) = true -> aget (live (ds s)) f = None -> ~ In f (clean (ds s)) ->
    did_open_base A fx dk s f t =
    ({| pj := set_lru A (pj s) (frem f (p_lru (pj s))); cache := aset (cache s) f t; ds := ds s |}, []).
  Proof.
    intros H1 H2 H3. unfold did_open_base. cbn [pj set_lru p_files cache ds]. rewrite H1.
    assert (E : unmark_clean (ds s) f = ds s).
    { unfold unmark_clean, set_clean. rewrite frem_id by exact H3. destruct (ds s). reflexivity. }
    rewrite E. unfold clear_change, ahas. cbn [ds]. rewrite H2. reflexivity.
  Qed.

  Lemma in_files_of_disk w v f : inv w v -> in_dir A f = true -> aget (disk w) f <> None -> In f (p_files (pj (sv w))).
  Proof.
    intros I Hd Hp. rewrite (gp_files _ _ _ _ (i_good _ _ I)). apply dfiles_in. split; [|exact Hp].
    apply mem_eb_in_dir. exact Hd.
  Qed.

  Lemma fmem_frem_notin x f l : ~ In f l -> fmem x (frem f l) = fmem x l.
  Proof. intros H. rewrite frem_id by exact H. reflexivity. Qed.

  Lemma act_open_inv w v f :
    inv w v -> in_dir A f = true ->
    inv (fst (act A fx w (AOpen f))) (vapply v (snd (act A fx w (AOpen f)))).
  Proof.
    intros I Hd. cbn [act]. destruct (aget (disk w) f) as [t|] eqn:Edk; [|exact I].
    destruct (aget (ebuf w) f) eqn:Eb; [exact I|].
    assert (Hnd : ~ In f (dirty w)) by (intros H; apply (i_open _ _ I) in H; congruence).
    assert (Hlive : aget (live (ds (sv w))) f = None) by (apply (live_none_of_clean w v); assumption).
    assert (Hfin : fmem f (p_files (pj (sv w))) = true).
    { apply fmem_in. apply (in_files_of_disk w v); [assumption|assumption|congruence]. }
    assert (Hncl : ~ In f (clean (ds (sv w)))).
    { intros H. apply fmem_in in H. rewrite (i_clean _ _ I) in H. apply fmem_false in Hnd. rewrite Hnd in H. discriminate. }
    unfold steps. cbn [fold_left fst snd step set_editor disk sv ebuf dirty].
    rewrite (did_open_same _ _ _ _ (open_differs_disk _ _ _ Edk)).
    rewrite (did_open_known _ _ _ _ Hfin Hlive Hncl). cbn [fst snd app vapply fold_left].
    destruct I as [Ig Is Ine Ic Io Iv Icl Iidx]. constructor; cbn [disk sv pj ds cache ebuf dirty].
    - apply good_set_lru. apply (good_proj_mem_ext A (member A fx w)); [|exact Ig].
      apply mem_eb_ext. cbn [ebuf]. intros g Hg. unfold ahas. rewrite aget_aset_other; [reflexivity|]. intros ->. congruence.
    - intros g. rewrite errs_of_set_lru. apply Is.
    - exact Ine.
    - intros g. rewrite !aget_aset, Ic. reflexivity.
    - intros g Hg. apply frem_in in Hg. destruct Hg as [Hne Hg]. rewrite aget_aset_other by congruence. apply Io. exact Hg.
    - intros g. rewrite (fmem_frem_notin g f _ Hnd). specialize (Iv g). unfold syn_of in *. cbn [ebuf].
      destruct (N.eq_dec f g) as [<-|Hne].
      + apply fmem_false in Hnd. rewrite Hnd in *. exact Iv.
      + rewrite aget_aset_other by exact Hne. exact Iv.
    - intros g. rewrite (fmem_frem_notin g f _ Hnd), Icl. unfold syn_of. cbn [ebuf].
      destruct (N.eq_dec f g) as [<-|Hne].
      + apply fmem_false in Hnd. rewrite Hnd. reflexivity.
      + rewrite aget_aset_other by exact Hne. reflexivity.
    - intros Hfix. apply set_lru_idx. apply Iidx. exact Hfix.
  Qed.

  (* ---------- didChange ---------- *)
  Lemma did_change_eq (s : server A) f t c : aget (cache s) f = Some c ->
    did_change A s f t =
    if is_nil (syn A t) then
      ({| pj := set_lru A (pj s) (fadd f (p_lru (pj s))); cache := aset (cache s) f t;
          ds := mark_clean (fst (clear_change (ds s) f)) f |},
       snd (clear_change (ds s) f) ++ clear_syntax (fst (clear_change (ds s) f)) f)
    else
      ({| pj := set_lru A (pj s) (fadd f (p_lru (pj s))); cache := aset (cache s) f t; ds := fst (insert_change (ds s) f (syn A t)) |},
       snd (insert_change (ds s) f (syn A t))).
  Proof.
    intros H. unfold did_change. rewrite H. unfold analyse_buffer. destruct (is_nil (syn A t)).
    - destruct (clear_change (ds s) f). reflexivity.
    - destruct (insert_change (ds s) f (syn A t)). reflexivity.
  Qed.

  Lemma act_change_inv w v f t :
    inv w v -> inv (fst (act A fx w (AChange f t))) (vapply v (snd (act A fx w (AChange f t)))).
  Proof.
    intros I. cbn [act]. destruct (aget (ebuf w) f) as [c|] eqn:Eb; [|exact I].
    assert (Hc : aget (cache (sv w)) f = Some c) by (rewrite (i_cache _ _ I); exact Eb).
    unfold steps. cbn [fold_left fst snd step set_editor disk sv ebuf dirty].
    rewrite (did_change_eq _ _ _ _ Hc). cbn [app].
    pose proof (i_view _ _ I) as Iv.
    destruct (is_nil (syn A t)) eqn:Esyn; cbn [fst snd].
    - (* clean buffer: the live entry goes, the saved list is shown without its syntax errors *)
      destruct I as [Ig Is Ine Ic Io _ Icl Iidx].
      constructor; cbn [disk sv pj ds cache ebuf dirty mark_clean set_clean saved live clean].
      + apply good_set_lru. apply (good_ebuf_ext w); [exact Ig|]. intros g _. cbn [ebuf]. unfold ahas. rewrite aget_aset.
        destruct (f =? g) eqn:E; [apply N.eqb_eq in E; subst g; rewrite Eb; reflexivity|reflexivity].
      + intros g. rewrite clear_change_saved, errs_of_set_lru. apply Is.
      + rewrite clear_change_saved. exact Ine.
      + intros g. rewrite !aget_aset, Ic. reflexivity.
      + intros g Hg. apply fadd_in in Hg. rewrite aget_aset. destruct (f =? g) eqn:E; [discriminate|].
        destruct Hg as [->|Hg]; [rewrite N.eqb_refl in E; discriminate|]. apply Io. exact Hg.
      + intros g. rewrite clear_change_live, clear_change_saved, vapply_app, clear_syntax_view, clear_change_saved, clear_change_view.
        unfold syn_of. cbn [ebuf]. rewrite aget_aset, fmem_fadd. specialize (Iv g). destruct (f =? g) eqn:E.
        * apply N.eqb_eq in E. subst g. rewrite N.eqb_refl. cbn [orb andb file_ok]. rewrite Esyn. split; [reflexivity|].
          destruct (ahas (saved (ds (sv w))) f) eqn:Eh; [reflexivity|].
          assert (Hs0 : vget (saved (ds (sv w))) f = []).
          { unfold ahas in Eh. apply vget_none. destruct (aget (saved (ds (sv w))) f); [discriminate|reflexivity]. }
          destruct (ahas (live (ds (sv w))) f) eqn:El; [rewrite Hs0; reflexivity|]. rewrite Hs0. cbn [nonsyn filter].
          unfold file_ok in Iv. rewrite Hs0 in Iv. unfold ahas in El.
          destruct (fmem f (dirty w)).
          -- destruct (is_nil (syn_of w f)); destruct Iv as [Iv1 Iv2]; [exact Iv2|rewrite Iv1 in El; discriminate].
          -- exact (proj2 Iv).
        * cbn [andb]. assert (Hgf : (g =? f) = false) by (rewrite N.eqb_sym; exact E). rewrite Hgf. cbn [orb]. exact Iv.
      + intros g. rewrite clear_change_clean, !fmem_fadd, Icl. unfold syn_of. cbn [ebuf]. rewrite aget_aset.
        destruct (f =? g) eqn:E.
        * apply N.eqb_eq in E. subst g. rewrite N.eqb_refl, Esyn. reflexivity.
        * assert (Hgf : (g =? f) = false) by (rewrite N.eqb_sym; exact E). rewrite Hgf. reflexivity.
      + intros Hfix. apply set_lru_idx. apply Iidx. exact Hfix.
    - (* the buffer has syntax errors: they are the live entry and the view *)
      destruct I as [Ig Is Ine Ic Io _ Icl Iidx].
      constructor; cbn [disk sv pj ds cache ebuf dirty insert_change fst saved live clean].
      + apply good_set_lru. apply (good_ebuf_ext w); [exact Ig|]. intros g _. cbn [ebuf]. unfold ahas. rewrite aget_aset.
        destruct (f =? g) eqn:E; [apply N.eqb_eq in E; subst g; rewrite Eb; reflexivity|reflexivity].
      + intros g. rewrite errs_of_set_lru. apply Is.
      + exact Ine.
      + intros g. rewrite !aget_aset, Ic. reflexivity.
      + intros g Hg. apply fadd_in in Hg. rewrite aget_aset. destruct (f =? g) eqn:E; [discriminate|].
        destruct Hg as [->|Hg]; [rewrite N.eqb_refl in E; discriminate|]. apply Io. exact Hg.
      + intros g. rewrite insert_change_view, aget_aset. unfold syn_of. cbn [ebuf]. rewrite aget_aset, fmem_fadd.
        specialize (Iv g). destruct (f =? g) eqn:E.
        * apply N.eqb_eq in E. subst g. rewrite N.eqb_refl. cbn [orb file_ok]. rewrite Esyn. auto.
        * assert (Hgf : (g =? f) = false) by (rewrite N.eqb_sym; exact E). rewrite Hgf. cbn [orb]. exact Iv.
      + intros g. rewrite fmem_frem, fmem_fadd, Icl. unfold syn_of. cbn [ebuf]. rewrite aget_aset.
        destruct (f =? g) eqn:E.
        * apply N.eqb_eq in E. subst g. rewrite N.eqb_refl, Esyn. reflexivity.
        * assert (Hgf : (g =? f) = false) by (rewrite N.eqb_sym; exact E). rewrite Hgf. reflexivity.
      + intros Hfix. apply set_lru_idx. apply Iidx. exact Hfix.
  Qed.

  (* ---------- didClose of a workspace file ---------- *)
  Lemma did_close_in dk (s : server A) f : in_dir A f = true ->
    did_close A fx dk s f =
    ({| pj := set_lru A (pj s) (frem f (p_lru (pj s))); cache := adel (cache s) f;
        ds := unmark_clean (fst (clear_change (ds s) f)) f |},
     snd (clear_change (ds s) f) ++ (if fix12b fx then push_file_diag (fst (clear_change (ds s) f)) f false else [])).
  Proof. intros H. unfold did_close. rewrite H. destruct (clear_change (ds s) f). reflexivity. Qed.

  Lemma fmem_frem_other x f l : x <> f -> fmem x (frem f l) = fmem x l.
  Proof. intros H. rewrite fmem_frem. apply N.eqb_neq in H. rewrite H. reflexivity. Qed.

  Lemma fmem_frem_same f l : fmem f (frem f l) = false.
  Proof. rewrite fmem_frem, N.eqb_refl. reflexivity. Qed.

  Lemma act_close_inv w v f :
    inv w v -> in_dir A f = true -> k_close_revert A fx w (AClose f) = false ->
    inv (fst (act A fx w (AClose f))) (vapply v (snd (act A fx w (AClose f)))).
  Proof.
    intros I Hd Hk. cbn [act]. destruct (aget (ebuf w) f) as [c|] eqn:Eb; [|exact I].
    unfold steps. cbn [fold_left fst snd step set_editor disk sv ebuf dirty].
    rewrite (did_close_in _ _ _ Hd). cbn [fst snd app].
    pose proof (i_view _ _ I) as Iv.
    unfold k_close_revert, saved_of, ahas in Hk. rewrite Eb in Hk. cbn [andb] in Hk.
    destruct I as [Ig Is Ine Ic Io _ Icl Iidx].
    constructor; cbn [disk sv pj ds cache ebuf dirty unmark_clean set_clean saved live clean].
    - apply good_set_lru. apply (good_ebuf_ext w); [exact Ig|]. intros g Hg. cbn [ebuf]. unfold ahas.
      rewrite aget_adel_other; [reflexivity|]. intros ->. congruence.
    - intros g. rewrite clear_change_saved, errs_of_set_lru. apply Is.
    - rewrite clear_change_saved. exact Ine.
    - intros g. rewrite !aget_adel, Ic. reflexivity.
    - intros g Hg. apply frem_in in Hg. destruct Hg as [Hne Hg]. rewrite aget_adel_other by congruence. apply Io. exact Hg.
    - intros g. rewrite clear_change_live, clear_change_saved, vapply_app.
      assert (Hv2 : vget (vapply (vapply v (snd (clear_change (ds (sv w)) f)))
                            (if fix12b fx then push_file_diag (fst (clear_change (ds (sv w)) f)) f false else [])) g =
                    if fix12b fx && (f =? g) && ahas (saved (ds (sv w))) f then vget (saved (ds (sv w))) f
                    else vget (vapply v (snd (clear_change (ds (sv w)) f))) g).
      { destruct (fix12b fx); cbn [andb]; [|reflexivity]. rewrite push_file_diag_full_view, clear_change_saved. reflexivity. }
      rewrite Hv2, clear_change_view. unfold syn_of. cbn [ebuf]. rewrite aget_adel. specialize (Iv g).
      destruct (f =? g) eqn:E.
      + apply N.eqb_eq in E. subst g. rewrite fmem_frem_same. cbn [file_ok andb]. split; [reflexivity|].
        rewrite andb_true_r.
        set (sl := vget (saved (ds (sv w))) f) in *.
        assert (Hns : fix12b fx = false -> fmem f (dirty w) = true -> nonsyn sl = sl).
        { intros H1 H2. rewrite H1, H2 in Hk. cbn [negb andb] in Hk. apply has_syn_false_nonsyn. exact Hk. }
        assert (Hempty : ahas (saved (ds (sv w))) f = false -> sl = []).
        { intros H. unfold sl. apply vget_none. unfold ahas in H. destruct (aget (saved (ds (sv w))) f); [discriminate|reflexivity]. }
        unfold file_ok, syn_of in Iv. rewrite Eb in Iv. unfold ahas at 2.
        destruct (fmem f (dirty w)) eqn:Edty.
        * destruct (is_nil (syn A c)); destruct Iv as [Iv1 Iv2]; rewrite Iv1.
          -- destruct (fix12b fx) eqn:Efix; cbn [andb].
             ++ destruct (ahas (saved (ds (sv w))) f) eqn:Eh; [reflexivity|]. rewrite Iv2, (Hempty eq_refl). reflexivity.
             ++ rewrite Iv2. apply Hns; reflexivity.
          -- destruct (fix12b fx) eqn:Efix; cbn [andb].
             ++ destruct (ahas (saved (ds (sv w))) f) eqn:Eh; [reflexivity|]. rewrite (Hempty eq_refl). reflexivity.
             ++ apply Hns; reflexivity.
        * destruct Iv as [Iv1 Iv2]. rewrite Iv1.
          destruct (fix12b fx && ahas (saved (ds (sv w))) f); [reflexivity|exact Iv2].
      + rewrite andb_false_r. cbn [andb]. rewrite fmem_frem_other; [exact Iv|].
        intros ->. rewrite N.eqb_refl in E. discriminate.
    - intros g. rewrite clear_change_clean, !fmem_frem, Icl. unfold syn_of. cbn [ebuf]. rewrite aget_adel.
      destruct (f =? g) eqn:E.
      + apply N.eqb_eq in E. subst g. rewrite N.eqb_refl. reflexivity.
      + assert (Hgf : (g =? f) = false) by (rewrite N.eqb_sym; exact E). rewrite Hgf. reflexivity.
    - intros Hfix. apply set_lru_idx. apply Iidx. exact Hfix.
  Qed.

  (* ---------- what the two pushAll classes give for one file ---------- *)
  Lemma class_conds w w' g :
    k_live_cleared A fx w w' = false -> k_unhidden A fx w w' = false ->
    fmem g (dirty w) = true -> fmem g (dirty w') = true ->
    (aget (live (ds (sv w))) g <> None -> live_has A w' g = true) ->
    (aget (live (ds (sv w))) g <> None ->
       is_nil (saved (ds (sv w'))) || fix12a fx = true \/ saved_of A w g = saved_of A w' g) /\
    (aget (live (ds (sv w))) g = None -> fix_unhidden fx = false ->
       saved_of A w g = saved_of A w' g \/ has_syn (saved_of A w' g) = false).
  Proof.
    intros Hlc Hun Hd Hd' Hlive. split.
    - intros Hl. unfold k_live_cleared in Hlc.
      destruct (fix12a fx); [left; apply orb_true_r|]. destruct (is_nil (saved (ds (sv w')))); [left; reflexivity|].
      cbn [negb andb] in Hlc. right.
      destruct (errs_eqb (saved_of A w g) (saved_of A w' g)) eqn:E; [apply errs_eqb_eq; exact E|]. exfalso.
      assert (existsb (fun f => live_has A w' f && negb (errs_eqb (saved_of A w f) (saved_of A w' f))) (akeys (live (ds (sv w)))) = true);
        [|congruence].
      apply existsb_exists. exists g. split; [apply aget_in_keys; exact Hl|]. rewrite (Hlive Hl), E. reflexivity.
    - intros Hl Hfu. unfold k_unhidden in Hun. rewrite Hfu in Hun. cbn [negb andb] in Hun.
      destruct (errs_eqb (saved_of A w g) (saved_of A w' g)) eqn:E; [left; apply errs_eqb_eq; exact E|].
      destruct (has_syn (saved_of A w' g)) eqn:Es; [|right; reflexivity]. exfalso.
      assert (existsb (fun f => fmem f (dirty w') && negb (live_has A w f) && negb (errs_eqb (saved_of A w f) (saved_of A w' f)) &&
                                has_syn (saved_of A w' f)) (dirty w) = true); [|congruence].
      apply existsb_exists. exists g. split; [apply fmem_in; exact Hd|]. rewrite Hd', E, Es. unfold live_has, ahas. rewrite Hl. reflexivity.
  Qed.

  (* ---------- didSave ---------- *)
  Lemma did_save_eq dk (s : server A) f t :
    did_save A fx dk s f t =
    let pc := handle_events A fx dk (pj s) [(f, KChanged)] in
    let d1 := if snd pc then fst (push_all_again (fix12a fx) (fix_unhidden fx) (ds s) (all_errs A (fst pc))) else ds s in
    let ps1 := if snd pc then snd (push_all_again (fix12a fx) (fix_unhidden fx) (ds s) (all_errs A (fst pc))) else [] in
    ({| pj := fst pc; cache := aset (cache s) f t; ds := fst (save_push_again d1 f) |}, ps1 ++ snd (save_push_again d1 f)).
  Proof.
    unfold did_save. cbn [pj cache ds]. destruct (handle_events A fx dk (pj s) [(f, KChanged)]) as [p1 chg]. cbn [fst snd].
    destruct chg.
    - rewrite push_again_eq. cbn [ds pj cache]. destruct (save_push_again _ f). reflexivity.
    - cbn [ds pj cache]. destruct (save_push_again (ds s) f). reflexivity.
  Qed.

  Lemma act_save_inv w v f :
    inv w v -> (aget (ebuf w) f <> None -> member A fx w f = true) -> conf_action A fx w (ASave f) = true ->
    let w' := fst (act A fx w (ASave f)) in
    k_live_cleared A fx w w' = false -> k_unhidden A fx w w' = false -> k_stale_ref A fx w' = false ->
    k_empty_shortcut A fx w (ASave f) = false ->
    inv w' (vapply v (snd (act A fx w (ASave f)))).
  Proof.
    intros I Hd0 Hconf. cbn zeta. cbn [act]. destruct (aget (ebuf w) f) as [t|] eqn:Eb; [|intros; exact I].
    assert (Hd : member A fx w f = true) by (apply Hd0; discriminate). clear Hd0.
    unfold conf_action, ahas in Hconf. rewrite Eb in Hconf. cbn [negb orb andb] in Hconf.
    rewrite orb_false_r in Hconf.
    assert (Hpres : aget (disk w) f <> None \/ fix_changed_unknown fx = true).
    { destruct (fix_changed_unknown fx); [right; reflexivity|left]. cbn [orb] in Hconf.
      destruct (aget (disk w) f); [discriminate|discriminate]. }
    assert (Hshape : in_dir A f || fix_outside fx = true).
    { unfold member in Hd. destruct (in_dir A f); [reflexivity|]. cbn [orb] in *. apply andb_true_iff in Hd. apply Hd. }
    unfold steps. cbn [fold_left fst snd step set_editor disk sv ebuf dirty app].
    rewrite did_save_eq. cbn zeta.
    unfold k_empty_shortcut. rewrite Eb. unfold empty_hit.
    set (p := pj (sv w)). set (dk := aset (disk w) f t).
    set (pc := handle_events A fx dk p [(f, KChanged)]).
    set (new := all_errs A (fst pc)).
    set (d1 := if snd pc then fst (push_all_again (fix12a fx) (fix_unhidden fx) (ds (sv w)) new) else ds (sv w)).
    set (ps1 := if snd pc then snd (push_all_again (fix12a fx) (fix_unhidden fx) (ds (sv w)) new) else []).
    cbn [fst snd].
    set (w' := {| disk := dk; sv := {| pj := fst pc; cache := aset (cache (sv w)) f t; ds := fst (save_push_again d1 f) |};
                  ebuf := ebuf w; dirty := frem f (dirty w) |}).
    intros Hlc Hun Hst Hemp.
    pose proof (he_changed_gen A fx HA (member A fx w) (disk w) p f t (i_good _ _ I) Hd Hshape Hpres Hemp) as HE. cbn zeta in HE. fold dk pc in HE.
    destruct HE as [HE1 HE2].
    assert (Hidx' : fix_index fx = true -> idx_eq A (fst pc)).
    { intros Hfix. apply handle_events_idx; [exact Hfix|]. apply (i_idx _ _ I). exact Hfix. }
    assert (Hgood : good_proj A (member A fx w) dk (fst pc)) by (apply HE1; apply (stale_ref_false w'); [exact Hst|exact Hidx']).
    assert (Hsaved1 : saved d1 = if snd pc then new else saved (ds (sv w))) by (unfold d1; destruct (snd pc); reflexivity).
    assert (Hlive1 : live d1 = live (ds (sv w))) by (unfold d1; destruct (snd pc); reflexivity).
    assert (Hclean1 : clean d1 = clean (ds (sv w))) by (unfold d1; destruct (snd pc); reflexivity).
    assert (Hs1 : forall g, vget (saved d1) g = errs_of A (fst pc) g).
    { intros g. rewrite Hsaved1. destruct (snd pc) eqn:Ec; [apply vget_all_errs|]. rewrite (i_saved _ _ I). symmetry. apply HE2. reflexivity. }
    pose proof (i_view _ _ I) as Iv.
    assert (Hsaved_w' : forall g, saved_of A w' g = vget (saved d1) g) by reflexivity.
    constructor; cbn [w' disk sv pj ds cache ebuf dirty].
    - exact Hgood.
    - intros g. unfold save_push_again. cbn [fst saved]. apply Hs1.
    - unfold save_push_again. cbn [fst saved]. rewrite Hsaved1. destruct (snd pc); [apply all_errs_nonempty|apply (i_saved_ne _ _ I)].
    - intros g. rewrite aget_aset, (i_cache _ _ I). destruct (f =? g) eqn:E; [|reflexivity]. apply N.eqb_eq in E. subst g. symmetry. exact Eb.
    - intros g Hg. apply frem_in in Hg. apply (i_open _ _ I). tauto.
    - intros g. rewrite save_push_again_live, vapply_app, save_push_again_view. unfold save_push_again at 1. cbn [fst saved].
      destruct (f =? g) eqn:E.
      + apply N.eqb_eq in E. subst g. rewrite fmem_frem_same. cbn [file_ok]. auto.
      + assert (Hne : g <> f) by (intros ->; rewrite N.eqb_refl in E; discriminate).
        rewrite (fmem_frem_other g f _ Hne). rewrite Hlive1. change (syn_of w' g) with (syn_of w g).
        specialize (Iv g). unfold ps1. destruct (snd pc) eqn:Ec.
        * rewrite Hsaved1.
          apply push_all_file_ok; [exact Iv|apply (i_saved_ne _ _ I)|apply all_errs_nonempty|apply (i_clean _ _ I)| |].
          -- intros Hdty Hl.
             destruct (class_conds w w' g Hlc Hun Hdty) as [C1 _].
             { cbn [w' dirty]. rewrite (fmem_frem_other g f _ Hne). exact Hdty. }
             { intros _. unfold live_has, ahas. cbn [w' sv ds]. rewrite save_push_again_live, E, Hlive1.
               destruct (aget (live (ds (sv w))) g); [reflexivity|contradiction]. }
             specialize (C1 Hl). rewrite Hsaved_w' in C1. cbn [w' sv ds] in C1. unfold save_push_again in C1. cbn [fst saved] in C1.
             rewrite Hsaved1 in C1. exact C1.
          -- intros Hdty Hl Hfu.
             destruct (class_conds w w' g Hlc Hun Hdty) as [_ C2].
             { cbn [w' dirty]. rewrite (fmem_frem_other g f _ Hne). exact Hdty. }
             { intros Hx. contradiction. }
             specialize (C2 Hl Hfu). rewrite !Hsaved_w' in C2. rewrite Hsaved1 in C2. exact C2.
        * cbn [vapply fold_left]. rewrite Hsaved1. exact Iv.
    - intros g. rewrite save_push_again_clean, Hclean1, !fmem_frem, (i_clean _ _ I). change (syn_of w' g) with (syn_of w g).
      rewrite andb_assoc. reflexivity.
    - exact Hidx'.
  Qed.

  (* ---------- didChangeWatchedFiles ---------- *)
  (* ---------- HandleFileEventChanges followed by pushAllDiagnosticsAgain, from any intermediate diagnostics state ----------
     d0 / v0 / dty' / eb' / cch' = the diagnostics state, the client view, the unsaved set and the buffers just before the
     pushAll; w = the world before the action (only the class predicates look at it) *)
  Definition syn_eb (eb : amap txt) (f : file) : list err := match aget eb f with Some b => syn A b | None => [] end.

  Lemma push_common (d0 : dstate) (v0 : emap) (dty' : list file) (eb' cch' : amap txt) dk' (pc : proj A * bool) :
    good_proj A (mem_eb eb') dk' (fst pc) ->
    (fix_index fx = true -> idx_eq A (fst pc)) ->
    (snd pc = false -> forall g, errs_of A (fst pc) g = vget (saved d0) g) ->
    nonempty_entries (saved d0) ->
    (forall g, aget cch' g = aget eb' g) ->
    (forall g, In g dty' -> aget eb' g <> None) ->
    (forall g, file_ok (fmem g dty') (syn_eb eb' g) (aget (live d0) g) (vget (saved d0) g) (vget v0 g)) ->
    (forall g, fmem g (clean d0) = fmem g dty' && is_nil (syn_eb eb' g)) ->
    let new := all_errs A (fst pc) in
    (snd pc = true -> forall g, fmem g dty' = true ->
       (aget (live d0) g <> None -> is_nil new || fix12a fx = true \/ vget (saved d0) g = vget new g) /\
       (aget (live d0) g = None -> fix_unhidden fx = false -> vget (saved d0) g = vget new g \/ has_syn (vget new g) = false)) ->
    let d1 := if snd pc then fst (push_all_again (fix12a fx) (fix_unhidden fx) d0 new) else d0 in
    let ps1 := if snd pc then snd (push_all_again (fix12a fx) (fix_unhidden fx) d0 new) else [] in
    inv {| disk := dk'; sv := {| pj := fst pc; cache := cch'; ds := d1 |}; ebuf := eb'; dirty := dty' |} (vapply v0 ps1).
  Proof.
    intros Hgood Hidx' Hsame Hne Hc Ho Hv Hcl new Hcls d1 ps1.
    assert (Hsaved1 : saved d1 = if snd pc then new else saved d0) by (unfold d1; destruct (snd pc); reflexivity).
    assert (Hlive1 : live d1 = live d0) by (unfold d1; destruct (snd pc); reflexivity).
    assert (Hclean1 : clean d1 = clean d0) by (unfold d1; destruct (snd pc); reflexivity).
    constructor; cbn [disk sv pj ds cache ebuf dirty].
    - exact Hgood.
    - intros g. rewrite Hsaved1. destruct (snd pc) eqn:Ec; [apply vget_all_errs|]. symmetry. apply Hsame. reflexivity.
    - rewrite Hsaved1. destruct (snd pc); [apply all_errs_nonempty|exact Hne].
    - exact Hc.
    - exact Ho.
    - intros g. rewrite Hlive1. change (syn_of _ g) with (syn_eb eb' g). specialize (Hv g).
      unfold ps1. destruct (snd pc) eqn:Ec.
      + rewrite Hsaved1. apply push_all_file_ok; [exact Hv|exact Hne|apply all_errs_nonempty|apply Hcl| |].
        * intros Hdty Hl. destruct (Hcls eq_refl g Hdty) as [C1 _]. exact (C1 Hl).
        * intros Hdty Hl Hfu. destruct (Hcls eq_refl g Hdty) as [_ C2]. exact (C2 Hl Hfu).
      + cbn [vapply fold_left]. rewrite Hsaved1. exact Hv.
    - intros g. rewrite Hclean1. change (syn_of _ g) with (syn_eb eb' g). apply Hcl.
    - exact Hidx'.
  Qed.

  Lemma watched_common w v dk' (pc : proj A * bool) :
    inv w v -> good_proj A (member A fx w) dk' (fst pc) ->
    (fix_index fx = true -> idx_eq A (fst pc)) ->
    (snd pc = false -> forall g, errs_of A (fst pc) g = errs_of A (pj (sv w)) g) ->
    let d1 := if snd pc then fst (push_all_again (fix12a fx) (fix_unhidden fx) (ds (sv w)) (all_errs A (fst pc))) else ds (sv w) in
    let ps1 := if snd pc then snd (push_all_again (fix12a fx) (fix_unhidden fx) (ds (sv w)) (all_errs A (fst pc))) else [] in
    let w' := {| disk := dk'; sv := {| pj := fst pc; cache := cache (sv w); ds := d1 |}; ebuf := ebuf w; dirty := dirty w |} in
    k_live_cleared A fx w w' = false -> k_unhidden A fx w w' = false ->
    inv w' (vapply v ps1).
  Proof.
    intros I Hgood Hidx' Hsame. cbn zeta. intros Hlc Hun.
    set (w' := {| disk := dk'; sv := {| pj := fst pc; cache := cache (sv w); ds := _ |}; ebuf := ebuf w; dirty := dirty w |}) in *.
    apply (push_common (ds (sv w)) v (dirty w) (ebuf w) (cache (sv w)) dk' pc).
    - exact Hgood.
    - exact Hidx'.
    - intros Ec g. rewrite (i_saved _ _ I). apply Hsame. exact Ec.
    - apply (i_saved_ne _ _ I).
    - apply (i_cache _ _ I).
    - apply (i_open _ _ I).
    - apply (i_view _ _ I).
    - apply (i_clean _ _ I).
    - intros Ec g Hdty.
      assert (Hsw' : saved_of A w' g = vget (all_errs A (fst pc)) g) by (unfold saved_of; cbn [w' sv ds]; rewrite Ec; reflexivity).
      assert (Hsv' : saved (ds (sv w')) = all_errs A (fst pc)) by (cbn [w' sv ds]; rewrite Ec; reflexivity).
      destruct (class_conds w w' g Hlc Hun Hdty Hdty) as [C1 C2].
      { intros Hl. unfold live_has, ahas. cbn [w' sv ds]. rewrite Ec. cbn [fst push_all_again live].
        destruct (aget (live (ds (sv w))) g); [reflexivity|contradiction]. }
      rewrite Hsw', Hsv' in C1. rewrite Hsw' in C2. split; assumption.
  Qed.

  Definition item_disk (dk : amap txt) (i : witem A) : amap txt :=
    match i with WC f t | WM f t => aset dk f t | WD f => adel dk f end.
  Definition items_disk (dk : amap txt) (l : list (witem A)) : amap txt := fold_left item_disk l dk.
  Definition item_value (i : witem A) : option txt := match i with WC _ t | WM _ t => Some t | WD _ => None end.

  Lemma item_disk_get dk i g :
    aget (item_disk dk i) g = if witem_file A i =? g then item_value i else aget dk g.
  Proof. destruct i as [f t|f t|f]; cbn [item_disk witem_file item_value]; [apply aget_aset|apply aget_aset|apply aget_adel]. Qed.

  Lemma items_disk_spec l : forall dk,
    NoDup (map (witem_file A) l) ->
    (forall g, ~ In g (map (witem_file A) l) -> aget (items_disk dk l) g = aget dk g) /\
    (forall i, In i l -> aget (items_disk dk l) (witem_file A i) = item_value i).
  Proof.
    induction l as [|i l IH]; intros dk Hnd; [split; [reflexivity|intros i []]|].
    cbn [map] in Hnd. apply NoDup_cons_iff in Hnd as [Hnin Hnd]. cbn [items_disk fold_left].
    fold (items_disk (item_disk dk i) l). destruct (IH (item_disk dk i) Hnd) as [I1 I2]. split.
    - intros g Hg. cbn [map In] in Hg. rewrite I1 by tauto. rewrite item_disk_get.
      destruct (witem_file A i =? g) eqn:E; [|reflexivity]. apply N.eqb_eq in E. tauto.
    - intros j [<-|Hj]; [|apply I2; exact Hj]. rewrite I1 by exact Hnin. rewrite item_disk_get, N.eqb_refl. reflexivity.
  Qed.

  (* the silent disk writes of a watched action *)
  Lemma steps_disk l : forall (w : world A) rest ps0,
    fold_left (fun (wp : world A * list publish) e => let '(w', ps) := step A fx (fst wp) e in (w', snd wp ++ ps))
              (map (witem_disk A) l ++ rest) (w, ps0) =
    fold_left (fun (wp : world A * list publish) e => let '(w', ps) := step A fx (fst wp) e in (w', snd wp ++ ps))
              rest ({| disk := items_disk (disk w) l; sv := sv w; ebuf := ebuf w; dirty := dirty w |}, ps0).
  Proof.
    induction l as [|i l IH]; intros w rest ps0.
    - cbn [map app items_disk fold_left]. destruct w. reflexivity.
    - cbn [map app fold_left fst snd]. destruct i as [f t|f t|f]; cbn [witem_disk step fst snd];
        rewrite app_nil_r, IH; cbn [disk sv ebuf dirty items_disk fold_left item_disk]; reflexivity.
  Qed.

  Lemma clear_fold_noop (evs : list (file * kind)) : forall d ps,
    (forall f, In f (map fst evs) -> aget (live d) f = None) ->
    fold_left (fun (dp : dstate * list publish) (ev : file * kind) =>
                 let '(d', ps') := clear_change (fst dp) (fst ev) in (d', snd dp ++ ps')) evs (d, ps) = (d, ps).
  Proof.
    induction evs as [|ev evs IH]; intros d ps H; [reflexivity|]. cbn [fold_left fst snd].
    unfold clear_change, ahas. rewrite (H (fst ev)) by (left; reflexivity). rewrite app_nil_r. apply IH.
    intros f Hf. apply H. right. exact Hf.
  Qed.

  Lemma did_watched_quiet dk (s : server A) evs :
    fix_watched fx = true \/ (forall f, In f (map fst evs) -> aget (live (ds s)) f = None) -> evs <> [] ->
    did_watched A fx dk s evs =
    let pc := handle_events A fx dk (pj s) evs in
    ({| pj := fst pc; cache := cache s;
        ds := if snd pc then fst (push_all_again (fix12a fx) (fix_unhidden fx) (ds s) (all_errs A (fst pc))) else ds s |},
     if snd pc then snd (push_all_again (fix12a fx) (fix_unhidden fx) (ds s) (all_errs A (fst pc))) else []).
  Proof.
    intros Hl Hne. unfold did_watched.
    assert (E : (if fix_watched fx then (ds s, [])
                 else fold_left (fun (dp : dstate * list publish) (ev : file * kind) =>
                        let '(d', ps') := clear_change (fst dp) (fst ev) in (d', snd dp ++ ps')) evs (ds s, [])) = (ds s, [])).
    { destruct (fix_watched fx); [reflexivity|]. destruct Hl as [Hl|Hl]; [discriminate|]. apply (clear_fold_noop evs (ds s) [] Hl). }
    rewrite E. clear E.
    destruct evs as [|e evs]; [congruence|]. cbn [is_nil pj cache ds].
    destruct (handle_events A fx dk (pj s) (e :: evs)) as [p1 chg]. cbn [fst snd]. destruct chg.
    - rewrite push_again_eq. cbn [ds pj cache app]. reflexivity.
    - reflexivity.
  Qed.

  Lemma did_watched_nil dk (s : server A) :
    did_watched A fx dk s [] = ({| pj := pj s; cache := cache s; ds := ds s |}, []).
  Proof. unfold did_watched. destruct (fix_watched fx); reflexivity. Qed.

  Lemma act_watched_eq w l :
    fix_watched fx = true \/ (forall i, In i l -> aget (live (ds (sv w))) (witem_file A i) = None) -> l <> [] ->
    act A fx w (AWatched l) =
    let dk' := items_disk (disk w) l in
    let pc := handle_events A fx dk' (pj (sv w)) (map (witem_ev A) l) in
    ({| disk := dk';
        sv := {| pj := fst pc; cache := cache (sv w);
                 ds := if snd pc then fst (push_all_again (fix12a fx) (fix_unhidden fx) (ds (sv w)) (all_errs A (fst pc))) else ds (sv w) |};
        ebuf := ebuf w; dirty := dirty w |},
     if snd pc then snd (push_all_again (fix12a fx) (fix_unhidden fx) (ds (sv w)) (all_errs A (fst pc))) else []).
  Proof.
    intros Hl Hne. cbn [act]. unfold steps. rewrite steps_disk. cbn [fold_left fst snd step disk sv ebuf dirty].
    rewrite did_watched_quiet.
    - cbn zeta. reflexivity.
    - destruct Hl as [Hl|Hl]; [left; exact Hl|right].
      intros f Hf. apply in_map_iff in Hf as [[f' k] [E Hf]]. cbn [fst] in E. subst f'.
      apply in_map_iff in Hf as [i [E Hi]]. specialize (Hl i Hi). destruct i; cbn [witem_ev witem_file] in *; injection E as <- _; exact Hl.
    - destruct l; [congruence|discriminate].
  Qed.

  Lemma fnodup_nodup l : fnodup l = true -> NoDup l.
  Proof.
    induction l as [|x r IH]; intros H; [constructor|]. cbn [fnodup] in H. apply andb_true_iff in H as [H1 H2].
    constructor; [|apply IH; exact H2]. apply negb_true_iff, fmem_false in H1. exact H1.
  Qed.

  Lemma map_fst_ev l : map fst (map (witem_ev A) l) = map (witem_file A) l.
  Proof. rewrite map_map. apply map_ext. intros [f t|f t|f]; reflexivity. Qed.

  Lemma in_ev_item l f k : In (f, k) (map (witem_ev A) l) ->
    exists i, In i l /\ witem_file A i = f /\
              match k with KCreated => exists t, i = WC f t | KChanged => exists t, i = WM f t | KDeleted => i = WD f end.
  Proof.
    intros H. apply in_map_iff in H as [i [E Hi]]. exists i. split; [exact Hi|].
    destruct i as [f0 t|f0 t|f0]; cbn [witem_ev witem_file] in *; injection E as <- <-; split; try reflexivity; eauto.
  Qed.

  Lemma act_watched_inv w v l :
    inv w v -> conf_action A fx w (AWatched l) = true ->
    let w' := fst (act A fx w (AWatched l)) in
    k_live_cleared A fx w w' = false -> k_unhidden A fx w w' = false -> k_watched_dirty A fx w (AWatched l) = false ->
    k_stale_ref A fx w' = false -> k_empty_shortcut A fx w (AWatched l) = false ->
    inv w' (vapply v (snd (act A fx w (AWatched l)))).
  Proof.
    intros I Hconf. cbn zeta. unfold conf_action in Hconf. apply andb_true_iff in Hconf as [Hnd Hwm].
    apply andb_true_iff in Hnd as [Hnd Hind].
    destruct l as [|i0 l0] eqn:El.
    - (* empty notification: nothing happens *)
      intros _ _ _ _ _. cbn [act map app]. unfold steps. cbn [fold_left fst snd step]. rewrite did_watched_nil.
      cbn [fst snd app vapply fold_left].
      destruct I as [Ig Is Ine Ic Io Iv Icl Iidx]; constructor; cbn [disk sv pj ds cache ebuf dirty]; assumption.
    - rewrite <- El in *. assert (Hne : l <> []) by (rewrite El; discriminate). clear El i0 l0.
      intros Hlc Hun Hwd Hst Hemp.
      apply fnodup_nodup in Hnd.
      assert (Hdir : forall i, In i l -> in_dir A (witem_file A i) = true).
      { intros i Hi. rewrite forallb_forall in Hind. apply Hind. exact Hi. }
      assert (Hl : fix_watched fx = true \/ forall i, In i l -> aget (live (ds (sv w))) (witem_file A i) = None).
      { unfold k_watched_dirty in Hwd. destruct (fix_watched fx) eqn:Efw; [left; reflexivity|right]. cbn [negb andb] in Hwd.
        intros i Hi. destruct (aget (live (ds (sv w))) (witem_file A i)) as [l0|] eqn:E; [|reflexivity]. exfalso.
        destruct (live_some_dirty w v _ l0 I E) as [Hdty _].
        assert (existsb (fun i => fmem (witem_file A i) (dirty w) && live_has A w (witem_file A i)) l = true); [|congruence].
        apply existsb_exists. exists i. split; [exact Hi|]. apply fmem_in in Hdty. rewrite Hdty. unfold live_has, ahas. rewrite E. reflexivity. }
      revert Hlc Hun Hst. rewrite (act_watched_eq w l Hl Hne). cbn zeta. cbn [fst snd]. intros Hlc Hun Hst.
      set (dk' := items_disk (disk w) l) in *.
      set (pc := handle_events A fx dk' (pj (sv w)) (map (witem_ev A) l)) in *.
      assert (Hidx' : fix_index fx = true -> idx_eq A (fst pc)).
      { intros Hfix. apply handle_events_idx; [exact Hfix|]. apply (i_idx _ _ I). exact Hfix. }
      apply stale_ref_false in Hst; [|exact Hidx']. cbn [sv pj] in Hst.
      destruct (items_disk_spec l (disk w) Hnd) as [D1 D2]. fold dk' in D1, D2.
      assert (B : batch_ok A fx (disk w) dk' (map (witem_ev A) l)).
      { constructor.
        - rewrite map_fst_ev. exact Hnd.
        - intros f k Hin. destruct (in_ev_item l f k Hin) as [i [Hi [<- _]]]. apply Hdir. exact Hi.
        - intros g Hg. rewrite map_fst_ev in Hg. apply D1. exact Hg.
        - intros f Hin. destruct (in_ev_item l f _ Hin) as [i [Hi [Hf [t Hit]]]]. rewrite <- Hf, (D2 _ Hi), Hit. discriminate.
        - intros f Hin. destruct (in_ev_item l f _ Hin) as [i [Hi [Hf [t Hit]]]]. split.
          + rewrite <- Hf, (D2 _ Hi), Hit. discriminate.
          + rewrite forallb_forall in Hwm. specialize (Hwm _ Hi). rewrite Hit in Hwm. unfold ahas in Hwm.
            destruct (fix_changed_unknown fx); [right; reflexivity|left]. cbn [orb] in Hwm.
            destruct (aget (disk w) f); [discriminate|discriminate].
        - intros f Hin. destruct (in_ev_item l f _ Hin) as [i [Hi [Hf Hit]]]. rewrite <- Hf, (D2 _ Hi), Hit. reflexivity. }
      assert (Hemp' : forall f k t, In (f, k) (map (witem_ev A) l) -> aget dk' f = Some t -> empty_hit_p A fx (pj (sv w)) f t = false).
      { intros f k t Hin Hd. destruct (in_ev_item l f k Hin) as [i [Hi [Hf Hk]]]. subst f.
        rewrite (D2 _ Hi) in Hd. unfold k_empty_shortcut in Hemp.
        destruct (empty_hit_p A fx (pj (sv w)) (witem_file A i) t) eqn:E; [|reflexivity]. exfalso.
        assert (existsb (fun i => match i with WC f t | WM f t => empty_hit A fx w f t | WD _ => false end) l = true); [|congruence].
        apply existsb_exists. exists i. split; [exact Hi|]. destruct i as [f0 t0|f0 t0|f0]; cbn [item_value witem_file] in *.
        - injection Hd as ->. exact E.
        - injection Hd as ->. exact E.
        - discriminate. }
      pose proof (he_batch A fx HA (member A fx w) (fun f Hf => mem_eb_in_dir (ebuf w) f Hf)
                           (disk w) dk' (pj (sv w)) (map (witem_ev A) l) (i_good _ _ I) B Hemp') as HE.
      cbn zeta in HE. fold pc in HE. destruct HE as [HE1 HE2].
      apply (watched_common w v dk' pc I); [apply HE1; exact Hst|exact Hidx'|exact HE2|exact Hlc|exact Hun].
  Qed.

  (* ---------- a document outside the workspace joins the project (repaired code: flag fix_outside) ---------- *)
  Lemma disk_readd (dk : amap txt) f t : aget dk f = Some t -> forall g, aget (aset (adel dk f) f t) g = aget dk g.
  Proof.
    intros H g. rewrite aget_aset. destruct (f =? g) eqn:E.
    - apply N.eqb_eq in E. subst g. symmetry. exact H.
    - apply aget_adel_other. intros ->. rewrite N.eqb_refl in E. discriminate.
  Qed.

  Lemma file_ok_clean_irrel s1 s2 lv sl vf : file_ok false s1 lv sl vf -> file_ok false s2 lv sl vf.
  Proof. intros H. exact H. Qed.

  Lemma did_open_new dk (s : server A) f t :
    fmem f (p_files (pj s)) = false -> aget (live (ds s)) f = None -> ~ In f (clean (ds s)) ->
    did_open_base A fx dk s f t =
    let pc := handle_events A fx dk (set_lru A (pj s) (frem f (p_lru (pj s)))) [(f, KCreated)] in
    ({| pj := fst pc; cache := aset (cache s) f t;
        ds := if snd pc then fst (push_all_again (fix12a fx) (fix_unhidden fx) (ds s) (all_errs A (fst pc))) else ds s |},
     if snd pc then snd (push_all_again (fix12a fx) (fix_unhidden fx) (ds s) (all_errs A (fst pc))) else []).
  Proof.
    intros H1 H2 H3. unfold did_open_base. cbn [pj set_lru p_files cache ds]. rewrite H1.
    assert (E : unmark_clean (ds s) f = ds s).
    { unfold unmark_clean, set_clean. rewrite frem_id by exact H3. destruct (ds s). reflexivity. }
    rewrite E. cbn zeta.
    destruct (handle_events A fx dk _ [(f, KCreated)]) as [p1 chg]. cbn [fst snd]. destruct chg.
    - rewrite push_again_eq. cbn [ds pj cache fst snd]. unfold clear_change, ahas. cbn [live fst push_all_again].
      rewrite H2. rewrite app_nil_r. reflexivity.
    - cbn [ds pj cache]. unfold clear_change, ahas. rewrite H2. reflexivity.
  Qed.

  Lemma act_open_out_inv w v f :
    inv w v -> in_dir A f = false -> fix_outside fx = true ->
    let w' := fst (act A fx w (AOpen f)) in
    k_live_cleared A fx w w' = false -> k_unhidden A fx w w' = false -> k_stale_ref A fx w' = false ->
    inv w' (vapply v (snd (act A fx w (AOpen f)))).
  Proof.
    intros I Hd Hfo. cbn zeta. cbn [act]. destruct (aget (disk w) f) as [t|] eqn:Edk; [|intros; exact I].
    destruct (aget (ebuf w) f) eqn:Eb; [intros; exact I|].
    assert (Hnd : ~ In f (dirty w)) by (intros H; apply (i_open _ _ I) in H; congruence).
    assert (Hlive : aget (live (ds (sv w))) f = None) by (apply (live_none_of_clean w v); assumption).
    assert (Hncl : ~ In f (clean (ds (sv w)))).
    { intros H. apply fmem_in in H. rewrite (i_clean _ _ I) in H. apply fmem_false in Hnd. rewrite Hnd in H. discriminate. }
    assert (Hmf : member A fx w f = false) by (unfold member, ahas; rewrite Hd, Eb; apply andb_false_r).
    assert (Hnf : ~ In f (p_files (pj (sv w)))).
    { rewrite (gp_files _ _ _ _ (i_good _ _ I)). intros H. apply dfiles_in in H. destruct H as [H _]. congruence. }
    unfold steps. cbn [fold_left fst snd step set_editor disk sv ebuf dirty].
    rewrite (did_open_same _ _ _ _ (open_differs_disk _ _ _ Edk)).
    rewrite (did_open_new _ _ _ _ (proj2 (fmem_false _ _) Hnf) Hlive Hncl). cbn zeta. cbn [fst snd app].
    set (p0 := set_lru A (pj (sv w)) (frem f (p_lru (pj (sv w))))).
    set (pc := handle_events A fx (disk w) p0 [(f, KCreated)]).
    set (eb' := aset (ebuf w) f t).
    rewrite (frem_id f (dirty w) Hnd).
    set (w' := {| disk := disk w; sv := _; ebuf := eb'; dirty := dirty w |}).
    intros Hlc Hun Hst.
    (* the project before, seen as a project over the disk without f and the membership that already has f *)
    assert (Hmem_other : forall g, g <> f -> mem_eb eb' g = member A fx w g).
    { intros g Hg. unfold member, mem_eb, eb', ahas. rewrite aget_aset_other by congruence. reflexivity. }
    assert (G0 : good_proj A (mem_eb eb') (adel (disk w) f) p0).
    { apply good_set_lru. apply (good_proj_transport A (member A fx w) (mem_eb eb') (disk w) (adel (disk w) f) _ (i_good _ _ I)).
      - apply dfiles_ext. intros g. rewrite aget_adel. destruct (f =? g) eqn:E.
        + apply N.eqb_eq in E. subst g. rewrite Hmf. split; intros [H1 H2]; congruence.
        + rewrite Hmem_other; [tauto|]. intros ->. rewrite N.eqb_refl in E. discriminate.
      - intros g Hg. apply aget_adel_other. intros <-. apply dfiles_in in Hg. destruct Hg as [Hg _]. congruence. }
    assert (Hshape : in_dir A f || fix_outside fx = true) by (rewrite Hfo; apply orb_true_r).
    assert (Hmf' : mem_eb eb' f = true).
    { unfold mem_eb, eb', ahas. rewrite Hfo, aget_aset_same. apply orb_true_r. }
    assert (Hemp : empty_hit_p A fx p0 f t = false).
    { unfold empty_hit_p. cbn [p0 set_lru p_fsm]. rewrite (gp_out _ _ _ _ (i_good _ _ I) f Hnf). apply andb_false_r. }
    pose proof (he_created A fx HA (mem_eb eb') (adel (disk w) f) p0 f t G0 Hshape Hmf' Hemp) as HE. cbn zeta in HE.
    assert (Hpc : handle_events A fx (aset (adel (disk w) f) f t) p0 [(f, KCreated)] = pc).
    { unfold pc. rewrite !(he_created_eq A fx _ _ _ Hshape).
      rewrite (first_one_ext A fx true (aset (adel (disk w) f) f t) (disk w)); [reflexivity|]. apply disk_readd. exact Edk. }
    rewrite Hpc in HE. destruct HE as [HE1 HE2].
    assert (Hidx' : fix_index fx = true -> idx_eq A (fst pc)).
    { intros Hfix. apply handle_events_idx; [exact Hfix|]. apply set_lru_idx. apply (i_idx _ _ I). exact Hfix. }
    assert (Hgood : good_proj A (mem_eb eb') (disk w) (fst pc)).
    { apply (good_proj_transport A (mem_eb eb') (mem_eb eb') (aset (adel (disk w) f) f t) (disk w)).
      - apply HE2. apply (stale_ref_false w'); [exact Hst|exact Hidx'].
      - apply dfiles_ext. intros g. rewrite (disk_readd _ _ _ Edk). tauto.
      - intros g _. symmetry. apply disk_readd. exact Edk. }
    apply (push_common (ds (sv w)) v (dirty w) eb' (aset (cache (sv w)) f t) (disk w) pc).
    - exact Hgood.
    - exact Hidx'.
    - intros Ec. congruence.
    - apply (i_saved_ne _ _ I).
    - intros g. unfold eb'. rewrite !aget_aset, (i_cache _ _ I). reflexivity.
    - intros g Hg. unfold eb'. rewrite aget_aset_other by (intros ->; contradiction). apply (i_open _ _ I). exact Hg.
    - intros g. pose proof (i_view _ _ I g) as Iv. destruct (N.eq_dec f g) as [<-|Hne].
      + apply fmem_false in Hnd. rewrite Hnd in *. exact Iv.
      + unfold syn_eb, eb'. rewrite aget_aset_other by exact Hne. exact Iv.
    - intros g. rewrite (i_clean _ _ I). destruct (N.eq_dec f g) as [<-|Hne].
      + apply fmem_false in Hnd. rewrite Hnd. reflexivity.
      + unfold syn_eb, syn_of, eb'. rewrite aget_aset_other by exact Hne. reflexivity.
    - intros Ec g Hdty.
      assert (Hsw' : saved_of A w' g = vget (all_errs A (fst pc)) g) by (unfold saved_of; cbn [w' sv ds]; rewrite Ec; reflexivity).
      assert (Hsv' : saved (ds (sv w')) = all_errs A (fst pc)) by (cbn [w' sv ds]; rewrite Ec; reflexivity).
      destruct (class_conds w w' g Hlc Hun Hdty Hdty) as [C1 C2].
      { intros Hl. unfold live_has, ahas. cbn [w' sv ds]. rewrite Ec. cbn [fst push_all_again live].
        destruct (aget (live (ds (sv w))) g); [reflexivity|contradiction]. }
      rewrite Hsw', Hsv' in C1. rewrite Hsw' in C2. split; assumption.
  Qed.

  (* ---------- a document outside the workspace leaves the project (repaired code) ---------- *)
  Lemma did_close_out dk (s : server A) f : in_dir A f = false -> fix_outside fx = true ->
    did_close A fx dk s f =
    let d2 := remove_saved (unmark_clean (fst (clear_change (ds s) f)) f) f in
    let pc := handle_events A fx dk (set_lru A (pj s) (frem f (p_lru (pj s)))) [(f, KDeleted)] in
    ({| pj := fst pc; cache := adel (cache s) f;
        ds := if snd pc then fst (push_all_again (fix12a fx) (fix_unhidden fx) d2 (all_errs A (fst pc))) else d2 |},
     (snd (clear_change (ds s) f) ++ (if fix12b fx then push_file_diag (fst (clear_change (ds s) f)) f false else []) ++ clear_one f) ++
     (if snd pc then snd (push_all_again (fix12a fx) (fix_unhidden fx) d2 (all_errs A (fst pc))) else [])).
  Proof.
    intros H1 H2. unfold did_close. rewrite H1, H2. destruct (clear_change (ds s) f) as [d0 ps1]. cbn [fst snd]. cbn zeta.
    destruct (handle_events A fx dk _ [(f, KDeleted)]) as [p1 chg]. cbn [fst snd]. destruct chg.
    - rewrite push_again_eq. cbn [ds pj cache fst snd]. rewrite <- !app_assoc. reflexivity.
    - cbn [ds pj cache]. rewrite app_nil_r. reflexivity.
  Qed.

  Lemma clear_one_view f v g : vget (vapply v (clear_one f)) g = if f =? g then [] else vget v g.
  Proof. unfold clear_one. rewrite vget_vapply. cbn [lastpub fst snd]. destruct (f =? g); reflexivity. Qed.

  Lemma act_close_out_inv w v f :
    inv w v -> in_dir A f = false -> fix_outside fx = true ->
    let w' := fst (act A fx w (AClose f)) in
    k_live_cleared A fx w w' = false -> k_unhidden A fx w w' = false -> k_stale_ref A fx w' = false ->
    inv w' (vapply v (snd (act A fx w (AClose f)))).
  Proof.
    intros I Hd Hfo. cbn zeta. cbn [act]. destruct (aget (ebuf w) f) as [c|] eqn:Eb; [|intros; exact I].
    unfold steps. cbn [fold_left fst snd step set_editor disk sv ebuf dirty].
    rewrite (did_close_out _ _ _ Hd Hfo). cbn zeta. cbn [fst snd app].
    set (p0 := set_lru A (pj (sv w)) (frem f (p_lru (pj (sv w))))).
    set (pc := handle_events A fx (disk w) p0 [(f, KDeleted)]).
    set (d2 := remove_saved (unmark_clean (fst (clear_change (ds (sv w)) f)) f) f).
    set (eb' := adel (ebuf w) f).
    set (pre := snd (clear_change (ds (sv w)) f) ++
                (if fix12b fx then push_file_diag (fst (clear_change (ds (sv w)) f)) f false else []) ++ clear_one f).
    set (w' := {| disk := disk w; sv := _; ebuf := eb'; dirty := frem f (dirty w) |}).
    intros Hlc Hun Hst. rewrite vapply_app.
    assert (Hshape : in_dir A f || fix_outside fx = true) by (rewrite Hfo; apply orb_true_r).
    pose proof (he_deleted A fx HA (member A fx w) (disk w) p0 f (good_set_lru A _ _ _ _ (i_good _ _ I)) Hshape) as HE. cbn zeta in HE.
    assert (Hpc : handle_events A fx (adel (disk w) f) p0 [(f, KDeleted)] = pc).
    { unfold pc. rewrite !(he_deleted_eq A fx _ _ _ Hshape). reflexivity. }
    rewrite Hpc in HE. destruct HE as [HE1 HE2].
    assert (Hidx' : fix_index fx = true -> idx_eq A (fst pc)).
    { intros Hfix. apply handle_events_idx; [exact Hfix|]. apply set_lru_idx. apply (i_idx _ _ I). exact Hfix. }
    assert (Hmf' : mem_eb eb' f = false).
    { unfold mem_eb, eb', ahas. rewrite Hd, aget_adel_same. apply andb_false_r. }
    assert (Hmem_other : forall g, g <> f -> mem_eb eb' g = member A fx w g).
    { intros g Hg. unfold member, mem_eb, eb', ahas. rewrite aget_adel_other by congruence. reflexivity. }
    assert (Hgood : good_proj A (mem_eb eb') (disk w) (fst pc)).
    { apply (good_proj_transport A (member A fx w) (mem_eb eb') (adel (disk w) f) (disk w)).
      - apply HE2. apply (stale_ref_false w'); [exact Hst|exact Hidx'].
      - apply dfiles_ext. intros g. rewrite aget_adel. destruct (f =? g) eqn:E.
        + apply N.eqb_eq in E. subst g. rewrite Hmf'. split; intros [H1 H2]; congruence.
        + rewrite Hmem_other; [tauto|]. intros ->. rewrite N.eqb_refl in E. discriminate.
      - intros g Hg. symmetry. apply aget_adel_other. intros <-. apply dfiles_in in Hg. destruct Hg as [_ Hg].
        rewrite aget_adel_same in Hg. congruence. }
    assert (Hsaved2 : forall g, vget (saved d2) g = if f =? g then [] else vget (saved (ds (sv w))) g).
    { intros g. unfold d2, remove_saved, unmark_clean, set_clean. cbn [saved]. rewrite vget_adel, clear_change_saved. reflexivity. }
    assert (Hlive2 : forall g, aget (live d2) g = if f =? g then None else aget (live (ds (sv w))) g).
    { intros g. unfold d2, remove_saved, unmark_clean, set_clean. cbn [live]. apply clear_change_live. }
    assert (Hpre : forall g, vget (vapply v pre) g = if f =? g then [] else vget v g).
    { intros g. unfold pre. rewrite !vapply_app, clear_one_view. destruct (f =? g) eqn:E; [reflexivity|].
      assert (Hb : vget (vapply (vapply v (snd (clear_change (ds (sv w)) f)))
                                (if fix12b fx then push_file_diag (fst (clear_change (ds (sv w)) f)) f false else [])) g =
                   vget (vapply v (snd (clear_change (ds (sv w)) f))) g).
      { destruct (fix12b fx); [|reflexivity]. rewrite push_file_diag_full_view, E. reflexivity. }
      rewrite Hb, clear_change_view, E. reflexivity. }
    apply (push_common d2 (vapply v pre) (frem f (dirty w)) eb' (adel (cache (sv w)) f) (disk w) pc).
    - exact Hgood.
    - exact Hidx'.
    - intros Ec. congruence.
    - intros g l Hg. unfold d2, remove_saved, unmark_clean, set_clean in Hg. cbn [saved] in Hg. rewrite aget_adel, clear_change_saved in Hg.
      destruct (f =? g); [discriminate|]. apply (i_saved_ne _ _ I g l Hg).
    - intros g. unfold eb'. rewrite !aget_adel, (i_cache _ _ I). reflexivity.
    - intros g Hg. apply frem_in in Hg. destruct Hg as [Hne Hg]. unfold eb'. rewrite aget_adel_other by congruence.
      apply (i_open _ _ I). exact Hg.
    - intros g. rewrite Hlive2, Hsaved2, Hpre. destruct (f =? g) eqn:E.
      + apply N.eqb_eq in E. subst g. rewrite fmem_frem_same. cbn [file_ok]. auto.
      + assert (Hne : g <> f) by (intros ->; rewrite N.eqb_refl in E; discriminate).
        rewrite (fmem_frem_other g f _ Hne). unfold syn_eb, eb'. rewrite aget_adel_other by congruence. exact (i_view _ _ I g).
    - intros g. unfold d2, remove_saved, unmark_clean, set_clean. cbn [clean]. rewrite clear_change_clean, !fmem_frem, (i_clean _ _ I).
      unfold syn_eb, syn_of, eb'. rewrite aget_adel. destruct (f =? g) eqn:E.
      + apply N.eqb_eq in E. subst g. rewrite N.eqb_refl. reflexivity.
      + assert (Hgf : (g =? f) = false) by (rewrite N.eqb_sym; exact E). rewrite Hgf. reflexivity.
    - intros Ec g Hdty.
      assert (Hne : g <> f) by (intros ->; rewrite fmem_frem_same in Hdty; discriminate).
      assert (Efg : (f =? g) = false) by (apply N.eqb_neq; congruence).
      assert (Hdty0 : fmem g (dirty w) = true) by (rewrite (fmem_frem_other g f _ Hne) in Hdty; exact Hdty).
      assert (Hsw' : saved_of A w' g = vget (all_errs A (fst pc)) g) by (unfold saved_of; cbn [w' sv ds]; rewrite Ec; reflexivity).
      assert (Hsv' : saved (ds (sv w')) = all_errs A (fst pc)) by (cbn [w' sv ds]; rewrite Ec; reflexivity).
      destruct (class_conds w w' g Hlc Hun Hdty0 Hdty) as [C1 C2].
      { intros Hl. unfold live_has, ahas. cbn [w' sv ds]. rewrite Ec. cbn [fst push_all_again live].
        rewrite Hlive2, Efg. destruct (aget (live (ds (sv w))) g); [reflexivity|contradiction]. }
      rewrite Hsw', Hsv' in C1. rewrite Hsw' in C2. rewrite Hlive2, Hsaved2, Efg. unfold saved_of in C1, C2. split; assumption.
  Qed.

  (* ---------- a document opened with a text that is not the file's (repaired code: flag fix_didopen):
                 the server does what it does for didOpen with the file's text followed by the first didChange ---------- *)
  Lemma adel_idem {V} (m : amap V) k : adel (adel m k) k = adel m k.
  Proof.
    induction m as [|[k' v] m IH]; [reflexivity|]. cbn [adel]. destruct (k' =? k) eqn:E; [exact IH|].
    cbn [adel]. rewrite E, IH. reflexivity.
  Qed.

  Lemma aset_aset {V} (m : amap V) k v v' : aset (aset m k v) k v' = aset m k v'.
  Proof. unfold aset. cbn [adel]. rewrite N.eqb_refl, adel_idem. reflexivity. Qed.

  (* the carried text only goes into the cache *)
  Lemma did_open_base_text dk (s : server A) f t d :
    did_open_base A fx dk s f t =
    ({| pj := pj (fst (did_open_base A fx dk s f d)); cache := aset (cache s) f t; ds := ds (fst (did_open_base A fx dk s f d)) |},
     snd (did_open_base A fx dk s f d)).
  Proof.
    unfold did_open_base. cbn [pj cache ds set_lru p_files].
    destruct (fmem f (p_files (pj s))).
    - cbn [pj cache ds]. destruct (clear_change (unmark_clean (ds s) f) f). reflexivity.
    - destruct (handle_events A fx dk _ [(f, KCreated)]) as [p1 chg]. destruct chg.
      + rewrite !push_again_eq. cbn [pj cache ds fst snd].
        destruct (clear_change (fst (push_all_again (fix12a fx) (fix_unhidden fx) (unmark_clean (ds s) f) (all_errs A p1))) f).
        reflexivity.
      + cbn [pj cache ds]. destruct (clear_change (unmark_clean (ds s) f) f). reflexivity.
  Qed.

  Lemma did_open_base_cache dk (s : server A) f t : cache (fst (did_open_base A fx dk s f t)) = aset (cache s) f t.
  Proof. rewrite (did_open_base_text dk s f t t). reflexivity. Qed.

  Lemma analyse_buffer_cache (s : server A) c f t :
    analyse_buffer A {| pj := pj s; cache := c; ds := ds s |} f t =
    ({| pj := pj (fst (analyse_buffer A s f t)); cache := aset c f t; ds := ds (fst (analyse_buffer A s f t)) |},
     snd (analyse_buffer A s f t)).
  Proof.
    unfold analyse_buffer. cbn [pj cache ds]. destruct (is_nil (syn A t)).
    - destruct (clear_change (ds s) f). reflexivity.
    - destruct (insert_change (ds s) f (syn A t)). reflexivity.
  Qed.

  Lemma act_open_with_same w f t d :
    aget (disk w) f = Some d -> teqb A d t = true -> act A fx w (AOpenWith f t) = act A fx w (AOpen f).
  Proof.
    intros Hd He. pose proof (ok_teqb A HA _ _ He) as E. subst t. cbn [act]. rewrite Hd.
    destruct (aget (ebuf w) f); [reflexivity|]. rewrite He. reflexivity.
  Qed.

  Lemma act_open_with_split w f t d :
    fix_didopen fx = true -> aget (disk w) f = Some d -> aget (ebuf w) f = None -> teqb A d t = false -> ~ In f (dirty w) ->
    act A fx w (AOpenWith f t) =
    (fst (act A fx (fst (act A fx w (AOpen f))) (AChange f t)),
     snd (act A fx w (AOpen f)) ++ snd (act A fx (fst (act A fx w (AOpen f))) (AChange f t))).
  Proof.
    intros Hfix Hd Hb He Hnd. cbn [act]. rewrite Hd, Hb, He.
    unfold steps. cbn [fold_left fst snd step set_editor disk sv ebuf dirty app].
    rewrite (did_open_same _ _ _ d (open_differs_disk _ _ _ Hd)).
    unfold did_open. rewrite Hfix. unfold open_differs. rewrite Hd, He. cbn [negb andb].
    rewrite (did_open_base_text (disk w) (sv w) f t d).
    pose proof (did_open_base_cache (disk w) (sv w) f d) as Hc.
    destruct (did_open_base A fx (disk w) (sv w) f d) as [s2 ps]. cbn [fst snd] in *.
    cbn [act ebuf]. rewrite aget_aset_same.
    unfold steps. cbn [fold_left fst snd step set_editor disk sv ebuf dirty app].
    unfold did_change. rewrite Hc, aget_aset_same.
    rewrite (analyse_buffer_cache s2 (aset (cache (sv w)) f t) f t).
    destruct s2 as [p2 c2 d2]. cbn [cache pj ds] in *. subst c2.
    pose proof (analyse_buffer_cache {| pj := p2; cache := aset (cache (sv w)) f d; ds := d2 |} (aset (cache (sv w)) f d) f t) as Hr.
    cbn [pj ds cache] in Hr.
    destruct (analyse_buffer A {| pj := p2; cache := aset (cache (sv w)) f d; ds := d2 |} f t) as [s3 ps3].
    cbn [fst snd] in *. injection Hr as Hr. rewrite Hr at 3.
    rewrite !aset_aset, (frem_id f (dirty w) Hnd). reflexivity.
  Qed.

  Lemma existsb_ext_in' {X} (p q : X -> bool) l : (forall x, In x l -> p x = q x) -> existsb p l = existsb q l.
  Proof.
    induction l as [|x l IH]; intros H; [reflexivity|]. cbn [existsb]. rewrite (H x (or_introl eq_refl)), IH; [reflexivity|].
    intros y Hy. apply H. right. exact Hy.
  Qed.

  (* what the didChange of a document leaves untouched *)
  Lemma act_change_frame w f t :
    let w2 := fst (act A fx w (AChange f t)) in
    saved (ds (sv w2)) = saved (ds (sv w)) /\
    (forall g, g <> f -> aget (live (ds (sv w2))) g = aget (live (ds (sv w))) g) /\
    (forall g, g <> f -> fmem g (dirty w2) = fmem g (dirty w)) /\
    k_stale_ref A fx w2 = k_stale_ref A fx w.
  Proof.
    cbn zeta. cbn [act]. destruct (aget (ebuf w) f); [|auto].
    unfold steps. cbn [fold_left fst snd step set_editor disk sv ebuf dirty].
    assert (Hd : forall g, g <> f -> fmem g (fadd f (dirty w)) = fmem g (dirty w)).
    { intros g Hg. rewrite fmem_fadd. apply N.eqb_neq in Hg. rewrite Hg. reflexivity. }
    unfold did_change. destruct (aget (cache (sv w)) f).
    2:{ cbn [fst sv ds dirty]. auto. }
    unfold analyse_buffer. destruct (is_nil (syn A t)).
    - pose proof (clear_change_saved (ds (sv w)) f) as H1. pose proof (clear_change_live (ds (sv w)) f) as H2.
      destruct (clear_change (ds (sv w)) f) as [d1 ps1]. cbn [fst] in H1, H2.
      cbn [fst sv ds dirty mark_clean set_clean saved live].
      split; [exact H1|]. split; [|split; [exact Hd|reflexivity]].
      intros g Hg. rewrite H2. destruct (f =? g) eqn:E; [apply N.eqb_eq in E; congruence|reflexivity].
    - cbn [insert_change fst sv ds dirty saved live].
      split; [reflexivity|]. split; [|split; [exact Hd|reflexivity]].
      intros g Hg. apply aget_aset_other. congruence.
  Qed.

  (* the class predicates of (didOpen; didChange of the same document) seen after the didOpen alone *)
  Lemma open_with_classes w f t :
    aget (live (ds (sv w))) f = None -> ~ In f (dirty w) ->
    let w1 := fst (act A fx w (AOpen f)) in
    let w2 := fst (act A fx w1 (AChange f t)) in
    k_live_cleared A fx w w2 = false -> k_unhidden A fx w w2 = false -> k_stale_ref A fx w2 = false ->
    k_live_cleared A fx w w1 = false /\ k_unhidden A fx w w1 = false /\ k_stale_ref A fx w1 = false.
  Proof.
    intros Hl Hnd w1 w2. destruct (act_change_frame w1 f t) as [Hs [Hlv [Hdt Hst]]]. fold w2 in Hs, Hlv, Hdt, Hst.
    intros Hlc Hun Hsr. split; [|split].
    - rewrite <- Hlc. unfold k_live_cleared. rewrite Hs. f_equal. apply existsb_ext_in'. intros g Hg.
      assert (Hne : g <> f) by (intros ->; apply aget_in_keys in Hg; congruence).
      unfold live_has, ahas, saved_of. rewrite Hs, (Hlv g Hne). reflexivity.
    - rewrite <- Hun. unfold k_unhidden. f_equal. apply existsb_ext_in'. intros g Hg.
      assert (Hne : g <> f) by (intros ->; contradiction).
      unfold saved_of. rewrite Hs, (Hdt g Hne). reflexivity.
    - rewrite <- Hst. exact Hsr.
  Qed.

  Lemma act_open_with_inv w v f t :
    inv w v -> in_dir A f = true \/ (in_dir A f = false /\ fix_outside fx = true) ->
    let w' := fst (act A fx w (AOpenWith f t)) in
    k_live_cleared A fx w w' = false -> k_unhidden A fx w w' = false -> k_stale_ref A fx w' = false ->
    k_open_text A fx w (AOpenWith f t) = false ->
    inv w' (vapply v (snd (act A fx w (AOpenWith f t)))).
  Proof.
    intros I Hin. cbn zeta.
    destruct (aget (disk w) f) as [d|] eqn:Edk. 2:{ intros _ _ _ _. cbn [act]. rewrite Edk. exact I. }
    destruct (aget (ebuf w) f) as [b|] eqn:Eb. { intros _ _ _ _. cbn [act]. rewrite Edk, Eb. exact I. }
    destruct (teqb A d t) eqn:Ete.
    - rewrite (act_open_with_same w f t d Edk Ete). intros Hlc Hun Hst _.
      destruct Hin as [Hd|[Hd Hfo]]; [apply act_open_inv; assumption|apply act_open_out_inv; assumption].
    - intros Hlc Hun Hst Hot.
      assert (Hfix : fix_didopen fx = true).
      { unfold k_open_text in Hot. rewrite Edk, Eb, Ete in Hot. destruct (fix_didopen fx); [reflexivity|discriminate]. }
      assert (Hnd : ~ In f (dirty w)) by (intros H; apply (i_open _ _ I) in H; congruence).
      assert (Hlive : aget (live (ds (sv w))) f = None) by (apply (live_none_of_clean w v); assumption).
      revert Hlc Hun Hst. rewrite (act_open_with_split w f t d Hfix Edk Eb Ete Hnd). cbn [fst snd]. intros Hlc Hun Hst.
      destruct (open_with_classes w f t Hlive Hnd Hlc Hun Hst) as [Hlc1 [Hun1 Hst1]].
      assert (I1 : inv (fst (act A fx w (AOpen f))) (vapply v (snd (act A fx w (AOpen f))))).
      { destruct Hin as [Hd|[Hd Hfo]]; [apply act_open_inv; assumption|apply act_open_out_inv; assumption]. }
      rewrite vapply_app. apply act_change_inv. exact I1.
  Qed.

  (* ---------- one conformant, class-free action keeps the invariant ---------- *)
  Lemma act_inv w v a :
    inv w v -> conf_action A fx w a = true -> classes_step A fx w a (fst (act A fx w a)) = [] ->
    inv (fst (act A fx w a)) (vapply v (snd (act A fx w a))).
  Proof.
    intros I Hconf Hcl. apply classes_step_nil in Hcl.
    destruct Hcl as [Hout [Hlc [Hun [Hcr [Hwd [Hst [Hemp Hot]]]]]]].
    assert (Hone : forall f, k_outside A fx (AOpen f) = false -> in_dir A f = true \/ (in_dir A f = false /\ fix_outside fx = true)).
    { intros f H. unfold k_outside, names_outside in H. cbn [action_files existsb] in H. rewrite orb_false_r in H.
      destruct (in_dir A f); [left; reflexivity|right]. destruct (fix_outside fx); [auto|discriminate]. }
    destruct a as [f|f t|f|f|l|e|f t].
    - destruct (Hone f Hout) as [Hd|[Hd Hfo]]; [apply act_open_inv; assumption|apply act_open_out_inv; assumption].
    - apply act_change_inv. exact I.
    - apply act_save_inv; try assumption. intros Hb. destruct (Hone f Hout) as [Hd|[Hd Hfo]].
      + apply mem_eb_in_dir. exact Hd.
      + unfold member, ahas. rewrite Hfo. destruct (aget (ebuf w) f); [apply orb_true_r|congruence].
    - destruct (Hone f Hout) as [Hd|[Hd Hfo]]; [apply act_close_inv; assumption|apply act_close_out_inv; assumption].
    - apply act_watched_inv; assumption.
    - discriminate Hconf.
    - apply act_open_with_inv; try assumption. apply Hone. exact Hout.
  Qed.

  Lemma history_inv h : forall w v,
    inv w v -> scan_history A fx (conf_action A fx) w h = (true, []) ->
    inv (fst (run_from A fx (w, []) h)) (vapply v (snd (run_from A fx (w, []) h))).
  Proof.
    induction h as [|a h IH]; intros w v I Hscan; [exact I|].
    cbn [scan_history] in Hscan.
    destruct (scan_history A fx (conf_action A fx) (fst (act A fx w a)) h) as [c ks] eqn:Es.
    injection Hscan as Hc Hk. apply andb_true_iff in Hc as [Hc1 Hc2]. subst c.
    apply app_nil_inv in Hk as [Hk1 Hk2]. subst ks.
    pose proof (act_inv w v a I Hc1 Hk1) as I1.
    specialize (IH _ _ I1 Es).
    unfold run_from in *. cbn [fold_left fst snd app]. destruct (act A fx w a) as [w1 ps1] eqn:Ea. cbn [fst snd] in *.
    (* the accumulated stream starts with ps1 *)
    assert (Hgen : forall l wp0 pre,
              fold_left (fun (wp : world A * list publish) a0 => let '(w', ps) := act A fx (fst wp) a0 in (w', snd wp ++ ps)) l (wp0, pre) =
              (fst (fold_left (fun (wp : world A * list publish) a0 => let '(w', ps) := act A fx (fst wp) a0 in (w', snd wp ++ ps)) l (wp0, [])),
               pre ++ snd (fold_left (fun (wp : world A * list publish) a0 => let '(w', ps) := act A fx (fst wp) a0 in (w', snd wp ++ ps)) l (wp0, [])))).
    { induction l as [|x l IHl]; intros wp0 pre; cbn [fold_left fst snd]; [rewrite app_nil_r; reflexivity|].
      destruct (act A fx wp0 x) as [w2 ps2]. rewrite (IHl w2 (pre ++ ps2)), (IHl w2 ([] ++ ps2)). cbn [fst snd app].
      rewrite app_assoc. reflexivity. }
    rewrite Hgen. cbn [fst snd]. rewrite vapply_app. exact IH.
  Qed.

  Lemma run_from_prefix h w pre :
    run_from A fx (w, pre) h = (fst (run_from A fx (w, []) h), pre ++ snd (run_from A fx (w, []) h)).
  Proof.
    unfold run_from. revert w pre. induction h as [|x l IHl]; intros w pre; cbn [fold_left fst snd]; [rewrite app_nil_r; reflexivity|].
    destruct (act A fx w x) as [w2 ps2]. rewrite (IHl w2 (pre ++ ps2)), (IHl w2 ([] ++ ps2)). cbn [fst snd app].
    rewrite app_assoc. reflexivity.
  Qed.

  (* ---------- the main theorem ---------- *)
  Theorem guarded_view (dk : amap txt) (h : list (action A)) :
    guard A fx dk h = true ->
    forall f, Permutation (view (snd (run A fx dk h)) f) (demanded A fx (fst (run A fx dk h)) f).
  Proof.
    intros Hg f. unfold guard, conformant, classes in Hg. apply andb_true_iff in Hg as [Hc Hk].
    destruct (scan_history A fx (conf_action A fx) (fst (init_world A fx dk)) h) as [c ks] eqn:Es. cbn [fst snd] in *. subst c.
    destruct ks; [|discriminate].
    pose proof (history_inv h _ _ (init_inv dk) Es) as I.
    unfold run. destruct (init_world A fx dk) as [w0 ps0] eqn:E0. cbn [fst snd] in *.
    rewrite run_from_prefix. cbn [fst snd]. unfold view. rewrite vapply_app.
    set (wf := fst (run_from A fx (w0, []) h)) in *. set (vf := vapply (vapply [] ps0) (snd (run_from A fx (w0, []) h))) in *.
    pose proof (i_view _ _ I f) as Iv. unfold demanded, fresh_view_open.
    assert (Hperm : Permutation (vget (saved (ds (sv wf))) f) (vget (all_errs A (start_on A fx (member A fx wf) (disk wf))) f)).
    { rewrite (i_saved _ _ I), vget_all_errs. apply good_fresh. apply (i_good _ _ I). }
    unfold file_ok, syn_of in Iv. destruct (fmem f (dirty wf)) eqn:Ed.
    - destruct (aget (ebuf wf) f) as [b|] eqn:Eb.
      + destruct (is_nil (syn A b)); destruct Iv as [_ Iv]; rewrite Iv; [|apply Permutation_refl].
        unfold nonsyn. apply perm_filter. exact Hperm.
      + exfalso. apply fmem_in in Ed. apply (i_open _ _ I) in Ed. congruence.
    - destruct Iv as [_ Iv]. rewrite Iv. exact Hperm.
  Qed.

  Lemma guarded_inv (dk : amap txt) (h : list (action A)) :
    guard A fx dk h = true -> inv (fst (run A fx dk h)) (vapply [] (snd (run A fx dk h))).
  Proof.
    intros Hg. unfold guard, conformant, classes in Hg. apply andb_true_iff in Hg as [Hc Hk].
    destruct (scan_history A fx (conf_action A fx) (fst (init_world A fx dk)) h) as [c ks] eqn:Es. cbn [fst snd] in *. subst c.
    destruct ks; [|discriminate].
    pose proof (history_inv h _ _ (init_inv dk) Es) as I.
    unfold run. destruct (init_world A fx dk) as [w0 ps0] eqn:E0. cbn [fst snd] in *.
    rewrite run_from_prefix. cbn [fst snd]. rewrite vapply_app. exact I.
  Qed.

  (* the view in terms of the server's own maps, exactly *)
  Theorem guarded_exact (dk : amap txt) (h : list (action A)) :
    guard A fx dk h = true ->
    let w := fst (run A fx dk h) in
    forall f, view (snd (run A fx dk h)) f =
              match aget (live (ds (sv w))) f with
              | Some e => e
              | None => if fmem f (dirty w) then nonsyn (vget (saved (ds (sv w))) f) else vget (saved (ds (sv w))) f
              end.
  Proof.
    intros Hg w f. pose proof (i_view _ _ (guarded_inv dk h Hg) f) as Iv. fold w in Iv. unfold view.
    unfold file_ok in Iv. destruct (fmem f (dirty w)).
    - destruct (is_nil (syn_of w f)); destruct Iv as [Iv1 Iv2]; rewrite Iv1; exact Iv2.
    - destruct Iv as [Iv1 Iv2]. rewrite Iv1. exact Iv2.
  Qed.

  Theorem incremental_eq_fresh (dk : amap txt) (h : list (action A)) :
    guard A fx dk h = true -> dirty (fst (run A fx dk h)) = [] ->
    forall f, Permutation (view (snd (run A fx dk h)) f) (fresh_view_open A fx (fst (run A fx dk h)) f).
  Proof.
    intros Hg Hd f. pose proof (guarded_view dk h Hg f) as H. unfold demanded in H. rewrite Hd in H. exact H.
  Qed.

  Theorem unsaved_view (dk : amap txt) (h : list (action A)) (f : file) :
    guard A fx dk h = true -> In f (dirty (fst (run A fx dk h))) ->
    exists b, aget (ebuf (fst (run A fx dk h))) f = Some b /\
              Permutation (view (snd (run A fx dk h)) f)
                          (if is_nil (syn A b) then nonsyn (fresh_view_open A fx (fst (run A fx dk h)) f) else syn A b).
  Proof.
    intros Hg Hd. pose proof (guarded_view dk h Hg f) as H. pose proof (i_open _ _ (guarded_inv dk h Hg) f Hd) as Ho.
    unfold demanded in H. apply fmem_in in Hd. rewrite Hd in H.
    destruct (aget (ebuf (fst (run A fx dk h))) f) as [b|]; [|congruence]. exists b. auto.
  Qed.
End Inv.

(* the boolean comparison used by the executable observables is complete for permutations *)
Lemma ecount_perm e a b : Permutation a b -> ecount e a = ecount e b.
Proof. intros H. unfold ecount. apply Permutation_length. apply perm_filter. exact H. Qed.

Lemma perm_eqb_of_perm a b : Permutation a b -> perm_eqb a b = true.
Proof.
  intros H. unfold perm_eqb. apply forallb_forall. intros e _. apply Nat.eqb_eq. apply ecount_perm. exact H.
Qed.

(* ---------- the class predicates of repaired findings are constantly false when their flags are on ---------- *)
Definition six_on (fx : fixes) : bool :=
  fix12a fx && fix12b fx && fix_index fx && fix_empty fx && fix_unhidden fx && fix_watched fx.

Lemma six_on_inv fx : six_on fx = true ->
  fix12a fx = true /\ fix12b fx = true /\ fix_index fx = true /\ fix_empty fx = true /\ fix_unhidden fx = true /\ fix_watched fx = true.
Proof. unfold six_on. intros H. repeat (apply andb_true_iff in H; destruct H as [H ?]). auto 10. Qed.

Lemma repaired_classes_gone (A : analysis) (fx : fixes) (w w' : world A) (a : action A) : six_on fx = true ->
  k_live_cleared A fx w w' = false /\ k_close_revert A fx w a = false /\
  k_empty_shortcut A fx w a = false /\ k_unhidden A fx w w' = false /\
  k_watched_dirty A fx w a = false /\ k_stale_ref A fx w' = false.
Proof.
  intros H. apply six_on_inv in H. destruct H as [H1 [H2 [H3 [H4 [H5 H6]]]]].
  unfold k_live_cleared, k_close_revert, k_unhidden, k_watched_dirty, k_stale_ref. rewrite H1, H2, H3, H5, H6. cbn [negb andb].
  repeat split.
  unfold k_empty_shortcut, empty_hit, empty_hit_p. rewrite H4. cbn [negb andb].
  destruct a as [f|f t|f|f|l|e|f t]; try reflexivity.
  - destruct (aget (ebuf w) f); reflexivity.
  - induction l as [|i l IH]; [reflexivity|]. cbn [existsb]. rewrite IH. destruct i; reflexivity.
Qed.

(* hence the only classes such a history can meet are outside_file and open_text *)
Lemma repaired_classes_step (A : analysis) (fx : fixes) (w w' : world A) (a : action A) : six_on fx = true ->
  classes_step A fx w a w' = (if k_outside A fx a then [1] else []) ++ (if k_open_text A fx w a then [8] else []).
Proof.
  intros H. destruct (repaired_classes_gone A fx w w' a H) as [H1 [H2 [H3 [H4 [H5 H6]]]]].
  unfold classes_step. rewrite H1, H2, H3, H4, H5, H6. destruct (k_outside A fx a); reflexivity.
Qed.

Lemma repaired_scan (A : analysis) (fx : fixes) cf (h : list (action A)) : six_on fx = true ->
  fix_outside fx = true \/ inside_only A h = true -> fix_didopen fx = true \/ opens_disk_text A h = true ->
  forall w, snd (scan_history A fx cf w h) = [].
Proof.
  intros H6. induction h as [|a h IH]; intros Hin Hop w; [reflexivity|]. cbn [scan_history].
  assert (Hin' : fix_outside fx = true \/ inside_only A h = true).
  { destruct Hin as [Hin|Hin]; [left; exact Hin|right]. cbn [inside_only forallb] in Hin. apply andb_true_iff in Hin. apply Hin. }
  assert (Hop' : fix_didopen fx = true \/ opens_disk_text A h = true).
  { destruct Hop as [Hop|Hop]; [left; exact Hop|right]. cbn [opens_disk_text forallb] in Hop. apply andb_true_iff in Hop. apply Hop. }
  assert (Ha : k_outside A fx a = false).
  { unfold k_outside. destruct Hin as [Hin|Hin]; [rewrite Hin; reflexivity|].
    cbn [inside_only forallb] in Hin. apply andb_true_iff in Hin as [Ha _]. apply negb_true_iff in Ha. rewrite Ha. apply andb_false_r. }
  assert (Hb : k_open_text A fx w a = false).
  { unfold k_open_text. destruct Hop as [Hop|Hop]; [rewrite Hop; reflexivity|].
    cbn [opens_disk_text forallb] in Hop. apply andb_true_iff in Hop as [Hb _].
    destruct a; try apply andb_false_r. discriminate Hb. }
  specialize (IH Hin' Hop' (fst (act A fx w a))).
  destruct (scan_history A fx cf (fst (act A fx w a)) h) as [c ks]. cbn [snd] in *. subst ks.
  rewrite (repaired_classes_step A fx _ _ _ H6), Ha, Hb. reflexivity.
Qed.

Lemma repaired_guard (A : analysis) (fx : fixes) (dk : amap (text A)) (h : list (action A)) : six_on fx = true ->
  fix_outside fx = true \/ inside_only A h = true -> fix_didopen fx = true \/ opens_disk_text A h = true ->
  conformant A fx dk h = true -> guard A fx dk h = true.
Proof.
  intros H6 Hin Hop Hc. unfold guard, classes. rewrite Hc, (repaired_scan A fx _ h H6 Hin Hop). reflexivity.
Qed.

(* when no document outside the workspace is open, fresh_view_open is the view of a plain server start *)
Lemma fresh_view_open_plain (A : analysis) (fx : fixes) (w : world A) (f : file) :
  (forall g, member A fx w g = in_dir A g) -> fresh_view_open A fx w f = fresh_view A fx (disk w) f.
Proof.
  intros H. unfold fresh_view_open, fresh_view, start_on, init_proj.
  rewrite (filter_ext (member A fx w) (in_dir A) H). reflexivity.
Qed.

Lemma member_plain_old (A : analysis) (fx : fixes) (w : world A) : fix_outside fx = false -> forall g, member A fx w g = in_dir A g.
Proof. intros H g. unfold member. rewrite H. apply orb_false_r. Qed.

(* ---------- the changed-unknown repair weakens the conformance predicate ---------- *)
Lemma conformance_widened (A : analysis) (w : world A) (a : action A) :
  conf_action A round4 w a = true -> conf_action A deployed w a = true.
Proof.
  destruct a as [f|f t|f|f|l|e|f t]; try (intros H; exact H); [reflexivity|].
  unfold conf_action. cbn [fix_changed_unknown round4 deployed orb]. intros H.
  apply andb_true_iff in H as [H _]. rewrite H. cbn [andb].
  apply forallb_forall. intros i _. destruct i; reflexivity.
Qed.

(* ---------- the deployed model: all nine repairs ---------- *)
Lemma deployed_guard (A : analysis) (dk : amap (text A)) (h : list (action A)) :
  conformant A deployed dk h = true -> guard A deployed dk h = true.
Proof. intros Hc. apply repaired_guard; [reflexivity|left; reflexivity|left; reflexivity|exact Hc]. Qed.

Theorem deployed_view (A : analysis) (HA : analysis_ok A) (dk : amap (text A)) (h : list (action A)) :
  conformant A deployed dk h = true ->
  forall f, Permutation (view (snd (run A deployed dk h)) f) (demanded A deployed (fst (run A deployed dk h)) f).
Proof. intros Hc. apply (guarded_view A deployed HA). apply deployed_guard. exact Hc. Qed.

(* ---------- fresh_view_open is what a freshly started server shows once it has been told about the open documents ---------- *)
Section Reopen.
  Variable A : analysis.
  Variable fx : fixes.

  Lemma act_open_dirty (w : world A) f : dirty w = [] -> dirty (fst (act A fx w (AOpen f))) = [].
  Proof.
    intros H. cbn [act]. destruct (aget (disk w) f) as [t|]; [|exact H]. destruct (aget (ebuf w) f); [exact H|].
    unfold steps. cbn [fold_left fst snd step set_editor disk sv ebuf dirty].
    destruct (did_open A fx (disk w) (sv w) f t). cbn [fst dirty]. rewrite H. reflexivity.
  Qed.

  Lemma opens_dirty l : forall (wp : world A * list publish),
    dirty (fst wp) = [] -> dirty (fst (run_from A fx wp (map (@AOpen A) l))) = [].
  Proof.
    induction l as [|f l IH]; intros wp H; [exact H|]. unfold run_from. cbn [map fold_left].
    apply IH. pose proof (act_open_dirty (fst wp) f H) as HH. destruct (act A fx (fst wp) (AOpen f)). exact HH.
  Qed.

  Lemma opens_conformant l : forall (w : world A), fst (scan_history A fx (conf_action A fx) w (map (@AOpen A) l)) = true.
  Proof.
    induction l as [|f l IH]; intros w; [reflexivity|]. cbn [map scan_history].
    specialize (IH (fst (act A fx w (AOpen f)))).
    destruct (scan_history A fx (conf_action A fx) (fst (act A fx w (AOpen f))) (map (@AOpen A) l)) as [c ks].
    cbn [fst] in *. subst c. reflexivity.
  Qed.
End Reopen.

Theorem fresh_reopen (A : analysis) (HA : analysis_ok A) (dk : amap (text A)) (l : list file) :
  forall f, Permutation (view (snd (run A deployed dk (map (@AOpen A) l))) f)
                        (fresh_view_open A deployed (fst (run A deployed dk (map (@AOpen A) l))) f).
Proof.
  intros f. assert (Hc : conformant A deployed dk (map (@AOpen A) l) = true) by (unfold conformant; apply opens_conformant).
  pose proof (deployed_view A HA dk _ Hc f) as H. unfold demanded in H.
  assert (Hd : dirty (fst (run A deployed dk (map (@AOpen A) l))) = []).
  { unfold run. apply opens_dirty. unfold init_world. destruct (init_server A deployed dk). reflexivity. }
  rewrite Hd in H. exact H.
Qed.

(* ---------- a document opened with a text that is not the file's text has unsaved edits from that moment on: the client
              is shown the syntax errors of the opened text if it has any, else the non-syntax diagnostics of the fresh
              start (instance of the full theorem for a history that ends with such a didOpen) ---------- *)
Lemma run_snoc (A : analysis) (fx : fixes) (dk : amap (text A)) (h : list (action A)) (a : action A) :
  run A fx dk (h ++ [a]) =
  (fst (act A fx (fst (run A fx dk h)) a), snd (run A fx dk h) ++ snd (act A fx (fst (run A fx dk h)) a)).
Proof.
  unfold run, run_from. rewrite fold_left_app. cbn [fold_left].
  destruct (act A fx (fst (fold_left _ h (init_world A fx dk))) a). reflexivity.
Qed.

Lemma open_with_unsaved (A : analysis) (fx : fixes) (w : world A) f t d :
  aget (disk w) f = Some d -> aget (ebuf w) f = None -> teqb A d t = false ->
  In f (dirty (fst (act A fx w (AOpenWith f t)))) /\ aget (ebuf (fst (act A fx w (AOpenWith f t)))) f = Some t.
Proof.
  intros Hd Hb He. cbn [act]. rewrite Hd, Hb, He. unfold steps. cbn [fold_left fst snd step set_editor disk sv ebuf dirty].
  destruct (did_open A fx (disk w) (sv w) f t). cbn [fst dirty ebuf]. split; [apply fadd_in; left; reflexivity|apply aget_aset_same].
Qed.

Theorem open_text_view (A : analysis) (HA : analysis_ok A) (dk : amap (text A)) (h : list (action A)) (f : file) (t d : text A) :
  conformant A deployed dk (h ++ [AOpenWith f t]) = true ->
  aget (disk (fst (run A deployed dk h))) f = Some d -> aget (ebuf (fst (run A deployed dk h))) f = None -> teqb A d t = false ->
  let r := run A deployed dk (h ++ [AOpenWith f t]) in
  In f (dirty (fst r)) /\
  Permutation (view (snd r) f) (if is_nil (syn A t) then nonsyn (fresh_view_open A deployed (fst r) f) else syn A t).
Proof.
  intros Hc Hd Hb He. cbn zeta.
  pose proof (open_with_unsaved A deployed _ f t d Hd Hb He) as [H1 H2].
  assert (Hdty : In f (dirty (fst (run A deployed dk (h ++ [AOpenWith f t]))))) by (rewrite run_snoc; exact H1).
  split; [exact Hdty|].
  destruct (unsaved_view A deployed HA dk _ f (deployed_guard A dk _ Hc) Hdty) as [b [Hb' Hp]].
  rewrite run_snoc in Hb'. cbn [fst] in Hb'. rewrite H2 in Hb'. injection Hb' as <-. exact Hp.
Qed.
