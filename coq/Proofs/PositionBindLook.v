(* Position resolver = Lua's binder, part 4: what "the chain of FindMinScope agrees with the environment of the
   reference binder at an occurrence" means (COVER / LOOK / selffound), and how that statement moves through frames. *)
From Coq Require Import List NArith ZArith Bool Lia.
From LH Require Import Base.Bytes Model.Lexer Model.Ast Model.Scope Model.Globals Model.Resolve Spec.LuaScope
  Proofs.PositionBindBase Proofs.PositionBindKeys Proofs.PositionBindFacts.
Import ListNotations.
Local Open Scope Z_scope.

Lemma beq_bytes_refl' a : beq_bytes a a = true.
Proof. apply beq_bytes_eq. reflexivity. Qed.

Section Look.
  Variable W : Z.
  Hypothesis HW : 0 < W.
  Variable line col : Z.
  Hypothesis Hcol : 0 <= col < W.
  Variable n : list N.

  Notation K := (K W line col).
  Notation pl := (pl line col).

  Definition hit (v : ventry) : bool := var_hit n pl v.
  Definition before (v : ventry) : Prop := 0 <= sc (v_loc v) < W /\ lo W (v_loc v) <= K.
  Definition okhit (v : ventry) : Prop := beq_bytes (v_name v) n = true -> is_correct_position v pl = true.
  Definition CUR (l : loc) : Prop := lo W l <= K /\ K <= hi W l.

  Definition selffound (l : loc) (ch : list (list ventry)) : Prop :=
    exists v, find_loc_var ch n pl = Some v /\ v_loc v = l.
  Definition COVER (ien : env) (ch : list (list ventry)) : Prop :=
    forall x, In x ien -> exists f v, In f ch /\ In v f /\ ent v = x /\ before v.
  Definition LOOK (tg : bool) (ien : env) (ch : list (list ventry)) : Prop :=
    tg = true ->
    match env_find ien n with
    | Some (_, d, _) => exists v, find_loc_var ch n pl = Some v /\ v_loc v = d
    | None => find_loc_var ch n pl = None
    end.

  Definition EnvC (en : env) (o : socc) (ch : list (list ventry)) : Prop :=
    if is_decl (s_role o) then selffound (s_loc o) ch
    else exists ien, s_env o = ien ++ en /\ COVER ien ch /\ LOOK (classB_ok o) ien ch.

  (* ---- find_loc_var / env_find over concatenations *)
  Lemma flv_app c1 c2 :
    find_loc_var (c1 ++ c2) n pl = match find_loc_var c1 n pl with Some v => Some v | None => find_loc_var c2 n pl end.
  Proof.
    induction c1 as [|f r IH]; [reflexivity|]. cbn [app find_loc_var].
    destruct (find (var_hit n pl) f); [reflexivity|exact IH].
  Qed.
  Lemma flv_single f : find_loc_var [f] n pl = find hit f.
  Proof. cbn. unfold hit. destruct (find (var_hit n pl) f); reflexivity. Qed.
  Lemma flv_last c f :
    find_loc_var (c ++ [f]) n pl = match find_loc_var c n pl with Some v => Some v | None => find hit f end.
  Proof. rewrite flv_app, flv_single. reflexivity. Qed.
  Lemma find_app {X} (p : X -> bool) a b : find p (a ++ b) = match find p a with Some v => Some v | None => find p b end.
  Proof. induction a as [|x r IH]; [reflexivity|]. cbn. destruct (p x); [reflexivity|exact IH]. Qed.
  Lemma find_none_all {X} (p : X -> bool) a : Forall (fun x => p x = false) a -> find p a = None.
  Proof. intros H. induction H as [|x r Hx Hr IH]; [reflexivity|]. cbn. rewrite Hx. exact IH. Qed.
  Lemma env_find_app (a b : env) :
    env_find (a ++ b) n = match env_find a n with Some x => Some x | None => env_find b n end.
  Proof. unfold env_find. apply find_app. Qed.

  (* visible entries: the newest one of the name is found *)
  Lemma vis_find vs : Forall before vs -> Forall okhit vs ->
    match env_find (map ent vs) n with
    | Some (_, d, _) => exists v, find hit vs = Some v /\ v_loc v = d
    | None => find hit vs = None
    end.
  Proof.
    intros Hb Ho. induction vs as [|v r IH]; [reflexivity|].
    inversion Hb as [|? ? Hbv Hbr]; inversion Ho as [|? ? Hov Hor]; subst.
    unfold env_find in *. cbn [map find]. unfold ent at 1. cbn [fst].
    unfold hit at 1 3. unfold var_hit. destruct (beq_bytes (v_name v) n) eqn:E.
    - rewrite (Hov E). cbn [andb]. exists v. split; reflexivity.
    - cbn [andb]. apply IH; assumption.
  Qed.

  (* ---- moving EnvC through frames *)
  Lemma selffound_ext l c f later earlier :
    selffound l (c ++ [f]) -> Forall (fun v => hit v = false) later -> selffound l (c ++ [later ++ f ++ earlier]).
  Proof.
    intros (v & Hf & Hl) Hlater. exists v. split; [|exact Hl]. rewrite flv_last in *.
    destruct (find_loc_var c n pl); [exact Hf|].
    rewrite find_app, (find_none_all _ _ Hlater), find_app, Hf. reflexivity.
  Qed.

  Lemma cover_mono ien (ch ch' : list (list ventry)) : (forall f, In f ch -> exists f', In f' ch' /\ incl f f') -> COVER ien ch -> COVER ien ch'.
  Proof.
    intros H Hc x Hx. destruct (Hc x Hx) as (f & v & Hf & Hv & He & Hb). destruct (H f Hf) as (f' & Hf' & Hi).
    exists f', v. auto.
  Qed.

  Lemma chain_ext_incl (c : list (list ventry)) (f later earlier : list ventry) :
    forall g, In g (c ++ [f]) -> exists g', In g' (c ++ [later ++ f ++ earlier]) /\ incl g g'.
  Proof.
    intros g Hg. apply in_app_or in Hg. destruct Hg as [Hg|[Hg|[]]].
    - exists g. split; [apply in_or_app; left; exact Hg|apply incl_refl].
    - subst g. exists (later ++ f ++ earlier). split; [apply in_or_app; right; left; reflexivity|].
      intros y Hy. apply in_or_app. right. apply in_or_app. left. exact Hy.
  Qed.

  Lemma EnvC_ext earlier en o c f later :
    EnvC (map ent earlier ++ en) o (c ++ [f]) ->
    Forall (fun v => hit v = false) later -> Forall before earlier -> Forall okhit earlier ->
    EnvC en o (c ++ [later ++ f ++ earlier]).
  Proof.
    unfold EnvC. intros H Hl Hb Ho. destruct (is_decl (s_role o)).
    - apply selffound_ext; assumption.
    - destruct H as (ien & He & Hc & Hk). exists (ien ++ map ent earlier). split; [rewrite He, app_assoc; reflexivity|]. split.
      + intros x Hx. apply in_app_or in Hx. destruct Hx as [Hx|Hx].
        * apply (cover_mono ien (c ++ [f])); [apply chain_ext_incl|exact Hc|exact Hx].
        * apply in_map_iff in Hx. destruct Hx as (v & Ev & Hv). exists (later ++ f ++ earlier), v.
          split; [apply in_or_app; right; left; reflexivity|]. split; [do 2 (apply in_or_app; right); exact Hv|].
          split; [exact Ev|]. rewrite Forall_forall in Hb. apply Hb. exact Hv.
      + intros Ht. specialize (Hk Ht). rewrite env_find_app. rewrite flv_last in *.
        destruct (env_find ien n) as [[[n' d] fl]|].
        * destruct Hk as (v & Hf & Hd). exists v. split; [|exact Hd].
          destruct (find_loc_var c n pl); [exact Hf|].
          rewrite find_app, (find_none_all _ _ Hl), find_app, Hf. reflexivity.
        * destruct (find_loc_var c n pl); [discriminate|].
          rewrite find_app, (find_none_all _ _ Hl), find_app, Hk. apply vis_find; assumption.
  Qed.

  (* a new (empty) current frame part on top of a closed chain *)
  Lemma EnvC_nil en o ch : EnvC en o ch -> EnvC en o (ch ++ [[]]).
  Proof.
    unfold EnvC. destruct (is_decl (s_role o)).
    - intros (v & Hf & Hl). exists v. split; [|exact Hl]. rewrite flv_last, Hf. reflexivity.
    - intros (ien & He & Hc & Hk). exists ien. split; [exact He|]. split.
      + eapply cover_mono; [|exact Hc]. intros f Hf. exists f. split; [apply in_or_app; left; exact Hf|apply incl_refl].
      + intros Ht. specialize (Hk Ht). rewrite flv_last.
        destruct (env_find ien n) as [[[n' d] fl]|].
        * destruct Hk as (v & Hf & Hd). exists v. rewrite Hf. auto.
        * rewrite Hk. reflexivity.
  Qed.

  (* entries that the reference binder does not see yet (own initialiser, loop header) *)
  Lemma EnvC_hidden en o c f H :
    EnvC en o (c ++ [f]) ->
    (is_decl (s_role o) = false -> forall ien, s_env o = ien ++ en -> classB_ok o = true -> env_find ien n = None ->
                                    Forall (fun v => hit v = false) H) ->
    EnvC en o (c ++ [f ++ H]).
  Proof.
    unfold EnvC. intros HE HH. destruct (is_decl (s_role o)).
    - destruct HE as (v & Hf & Hl). exists v. split; [|exact Hl]. rewrite flv_last in *.
      destruct (find_loc_var c n pl); [exact Hf|]. rewrite find_app, Hf. reflexivity.
    - destruct HE as (ien & He & Hc & Hk). exists ien. split; [exact He|]. split.
      + eapply cover_mono; [|exact Hc]. intros g Hg. apply in_app_or in Hg. destruct Hg as [Hg|[Hg|[]]].
        * exists g. split; [apply in_or_app; left; exact Hg|apply incl_refl].
        * subst g. exists (f ++ H). split; [apply in_or_app; right; left; reflexivity|apply incl_appl; apply incl_refl].
      + intros Ht. specialize (Hk Ht). rewrite flv_last in *.
        destruct (env_find ien n) as [[[n' d] fl]|] eqn:Een.
        * destruct Hk as (v & Hf & Hd). exists v. split; [|exact Hd].
          destruct (find_loc_var c n pl); [exact Hf|]. rewrite find_app, Hf. reflexivity.
        * destruct (find_loc_var c n pl); [discriminate|]. rewrite find_app, Hk.
          apply find_none_all. apply (HH eq_refl ien He Ht Een).
  Qed.

  Lemma EnvC_retag en o0 o ch : retag o0 o -> EnvC en o0 ch -> EnvC en o ch.
  Proof.
    intros (Hl & Hn & Hb & Hr & Hf & He & Hc). unfold EnvC. rewrite Hr, Hl, He.
    destruct (is_decl (s_role o0)); [auto|].
    intros (ien & E & Hcov & Hk). exists ien. split; [exact E|]. split; [exact Hcov|].
    intros Ht. unfold classB_ok in Ht. destruct (s_cls o) eqn:Ec; [|discriminate].
    pose proof (Hc eq_refl) as Eo. subst o0. apply Hk. unfold classB_ok. rewrite Ec. reflexivity.
  Qed.
End Look.
