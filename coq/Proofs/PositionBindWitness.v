(* Position resolver = Lua's binder: witnesses.
   (1) `C05_define_local_partial_stmt` (Proofs/ResolveWitness.v) is FALSE as stated: `Laid` says nothing about the Loc
       of an EMPTY if-branch, but the traversal creates a scope with that Loc and FindMinScope's early exit
       (`subScope.StartLine > line => break`) looks at it.  A hand-built AST (not a parser output: the parser puts the Loc
       of an empty branch at the following keyword) whose empty first branch carries a Loc far below refutes it.
       `Laid2` (Proofs/PositionBindBase.v) closes the gap (marks for empty branches, one block per condition, one Loc
       per local name).
   (2) the guards of the positive theorems are satisfiable by non-trivial parsed programs. *)
From Coq Require Import List NArith ZArith Bool.
From LH Require Import Base.Bytes Base.Res Model.Lexer Model.Ast Model.Scope Model.Globals Model.Resolve Spec.LuaScope
  Proofs.ResolveRun Proofs.ResolveWitness Proofs.PositionBindBase Proofs.PositionBindFinal.
Import ListNotations.
Local Open Scope Z_scope.

(* if true then <empty, Loc on line 50> elseif true then local x  f(x) end *)
Definition P_empty_branch : block :=
  Block [SIf [ETrue (mkLoc 1 3 1 7); ETrue (mkLoc 2 7 2 11)]
             [Block [] None (mkLoc 50 0 50 0);
              Block [SLocal [[120%N]] [mkLoc 2 23 2 24] [AttrReg] [] (mkLoc 2 17 2 24);
                     SCall (ECall (EName [102%N] (mkLoc 3 0 3 1)) None [EName [120%N] (mkLoc 3 2 3 3)] (mkLoc 3 0 3 4))]
                    None (mkLoc 2 17 3 4)]
             (mkLoc 1 0 4 3)] None (mkLoc 1 0 4 3).

Definition untagged_deviation (P : block) : bool :=
  existsb (fun o => classB_ok o && deviates_at_start P o) (bind_file P).

Lemma partial_refuted_by P W :
  in_fragment P = true -> laid_b W P = true -> untagged_deviation P = true -> ~ C05_define_local_partial_stmt.
Proof.
  intros Hf Hl Hd Hpart.
  unfold untagged_deviation in Hd. apply existsb_exists in Hd. destruct Hd as [o [Hin Ho]].
  apply andb_true_iff in Ho. destruct Ho as [Hc Ho].
  unfold deviates_at_start in Ho. destruct (s_bind o) as [d|n] eqn:Hb; [|discriminate].
  apply andb_true_iff in Ho. destruct Ho as [Hne Hle].
  assert (HL : Laid P) by (exists W; exact Hl).
  specialize (Hpart P Hf HL o Hin Hc d Hb (sc (s_loc o))).
  rewrite Hpart in Hne; [| apply Z.leb_le in Hle; split; [apply Z.le_refl|exact Hle] ].
  cbn in Hne. rewrite loc_eqb_refl in Hne. discriminate.
Qed.

Theorem define_local_partial_stmt_refuted : ~ C05_define_local_partial_stmt.
Proof. apply (partial_refuted_by P_empty_branch 1000); vm_compute; reflexivity. Qed.

(* the same AST is rejected by Laid2 *)
Example P_empty_branch_not_laid2 : laid_b 1000 P_empty_branch = true /\ laid2_b 1000 P_empty_branch = false.
Proof. vm_compute. split; reflexivity. Qed.

(* local t = 1 / function foo(a, b) local c = a + b return c end / for i = 1, t, 2 do local k = i * t use(k) end /
   for k, v in pairs(t) do if k then use(v) elseif v then else use(k, t) end end /
   while use(function(q) return q end) do local z = t t = z end / local p, q = foo(t) / local e / e = 1 + p /
   repeat local r = e until r *)
Definition src_core : list N :=
  [108; 111; 99; 97; 108; 32; 116; 32; 61; 32; 49; 10; 102; 117; 110; 99; 116; 105; 111; 110; 32; 102; 111; 111; 40; 97;
   44; 32; 98; 41; 32; 108; 111; 99; 97; 108; 32; 99; 32; 61; 32; 97; 32; 43; 32; 98; 32; 114; 101; 116; 117; 114; 110;
   32; 99; 32; 101; 110; 100; 10; 102; 111; 114; 32; 105; 32; 61; 32; 49; 44; 32; 116; 44; 32; 50; 32; 100; 111; 32; 108;
   111; 99; 97; 108; 32; 107; 32; 61; 32; 105; 32; 42; 32; 116; 32; 117; 115; 101; 40; 107; 41; 32; 101; 110; 100; 10;
   102; 111; 114; 32; 107; 44; 32; 118; 32; 105; 110; 32; 112; 97; 105; 114; 115; 40; 116; 41; 32; 100; 111; 32; 105; 102;
   32; 107; 32; 116; 104; 101; 110; 32; 117; 115; 101; 40; 118; 41; 32; 101; 108; 115; 101; 105; 102; 32; 118; 32; 116;
   104; 101; 110; 32; 101; 108; 115; 101; 32; 117; 115; 101; 40; 107; 44; 32; 116; 41; 32; 101; 110; 100; 32; 101; 110;
   100; 10; 119; 104; 105; 108; 101; 32; 117; 115; 101; 40; 102; 117; 110; 99; 116; 105; 111; 110; 40; 113; 41; 32; 114;
   101; 116; 117; 114; 110; 32; 113; 32; 101; 110; 100; 41; 32; 100; 111; 32; 108; 111; 99; 97; 108; 32; 122; 32; 61; 32;
   116; 32; 116; 32; 61; 32; 122; 32; 101; 110; 100; 10; 108; 111; 99; 97; 108; 32; 112; 44; 32; 113; 32; 61; 32; 102; 111;
   111; 40; 116; 41; 10; 108; 111; 99; 97; 108; 32; 101; 10; 101; 32; 61; 32; 49; 32; 43; 32; 112; 10; 114; 101; 112; 101;
   97; 116; 32; 108; 111; 99; 97; 108; 32; 114; 32; 61; 32; 101; 32; 117; 110; 116; 105; 108; 32; 114; 10]%N.

Definition core_guards_b (W : Z) (P : block) : bool := in_fragment P && laid2_b W P && no_repoint P.

Lemma core_guards_ok W P : core_guards_b W P = true -> in_fragment P = true /\ Laid2 P /\ no_repoint P = true.
Proof.
  unfold core_guards_b. intros H. apply andb_true_iff in H. destruct H as [H H3]. apply andb_true_iff in H. destruct H as [H1 H2].
  split; [exact H1|]. split; [exists W; exact H2|exact H3].
Qed.

Example core_guards_src_core :
  core_guards_b 1000 (chunk_of src_core) = true /\ all_class_ok (chunk_of src_core) = true /\
  length (bind_file (chunk_of src_core)) = 43%nat.
Proof. vm_compute. repeat split. Qed.
