(* C08 - project-level refinement: the incremental project state is characterised by the current disk
   (good_proj), the characterisation determines every file's diagnostics up to order (good_unique), a server start
   establishes it (init_good) and each single file event re-establishes it (he_created / he_changed / he_deleted). *)
From Coq Require Import List NArith Bool Lia Permutation Sorted.
From LH Require Import Model.Diag Model.Events Spec.FreshStart Proofs.DiagProofs Proofs.EventsSets.
Import ListNotations.
Local Open Scope N_scope.

(* ---------- lists ---------- *)
Lemma flat_map_ext_in' {X Y} (f g : X -> list Y) l : (forall x, In x l -> f x = g x) -> flat_map f l = flat_map g l.
Proof.
  induction l as [|a r IH]; intros H; [reflexivity|]. cbn [flat_map]. rewrite (H a (or_introl eq_refl)), IH; [reflexivity|].
  intros x Hx. apply H. right. exact Hx.
Qed.

Lemma perm_filter {X} (p : X -> bool) l l' : Permutation l l' -> Permutation (filter p l) (filter p l').
Proof.
  induction 1 as [|x l l' H IH|x y l|l l' l'' H1 IH1 H2 IH2]; cbn [filter].
  - constructor.
  - destruct (p x); [constructor; exact IH|exact IH].
  - destruct (p x), (p y); try apply Permutation_refl. apply perm_swap.
  - eapply Permutation_trans; eassumption.
Qed.

(* ---------- de-duplication ---------- *)
Lemma existsb_err_in e s : existsb (err_eqb e) s = true <-> In e s.
Proof.
  rewrite existsb_exists. split.
  - intros [x [Hx E]]. apply err_eqb_eq in E. subst. exact Hx.
  - intros H. exists e. split; [exact H|apply err_eqb_refl].
Qed.

Lemma dedupe_in l : forall s x, In x (dedupe s l) <-> In x l /\ ~ In x s.
Proof.
  induction l as [|e r IH]; intros s x; cbn [dedupe In]; [tauto|].
  destruct (existsb (err_eqb e) s) eqn:E.
  - apply existsb_err_in in E. rewrite IH. split.
    + intros [H1 H2]. auto.
    + intros [[H1|H1] H2]; [subst; contradiction|auto].
  - assert (Hn : ~ In e s) by (intros H; apply existsb_err_in in H; congruence).
    cbn [In]. rewrite IH. cbn [In]. split.
    + intros [H|[H1 H2]]; [subst; auto|]. split; [auto|]. intros H3. apply H2. right. exact H3.
    + intros [[H1|H1] H2]; [auto|]. destruct (err_eqb e x) eqn:E2.
      * apply err_eqb_eq in E2. auto.
      * right. split; [exact H1|]. intros [H3|H3]; [subst; rewrite err_eqb_refl in E2; discriminate|contradiction].
Qed.

Lemma dedupe_nodup l : forall s, NoDup (dedupe s l).
Proof.
  induction l as [|e r IH]; intros s; cbn [dedupe]; [constructor|].
  destruct (existsb (err_eqb e) s); [apply IH|]. constructor; [|apply IH].
  intros H. apply dedupe_in in H. apply (proj2 H). left. reflexivity.
Qed.

Lemma dedupe_perm a b : Permutation a b -> Permutation (dedupe [] a) (dedupe [] b).
Proof.
  intros H. apply NoDup_Permutation; [apply dedupe_nodup|apply dedupe_nodup|].
  intros x. rewrite !dedupe_in. split; intros [H1 H2]; split; auto.
  - eapply Permutation_in; eassumption.
  - eapply Permutation_in; [apply Permutation_sym|]; eassumption.
Qed.

(* ---------- first-pass error lists ---------- *)
Definition owns (its : list item) : list err :=
  flat_map (fun i => match i with Own e => [e] | Req _ _ => [] end) its.
Definition wf_items (its : list item) : Prop :=
  forall i, In i its -> match i with Own e => etype e <> 6 | Req _ e => etype e = 6 end.

Lemma wf_items_tail i its : wf_items (i :: its) -> wf_items its.
Proof. intros H j Hj. apply H. right. exact Hj. Qed.

Lemma non6_true e : etype e <> 6 -> non6 e = true.
Proof. intros H. unfold non6. destruct (etype e =? 6) eqn:E; [apply N.eqb_eq in E; contradiction|reflexivity]. Qed.
Lemma non6_false e : etype e = 6 -> non6 e = false.
Proof. intros H. unfold non6. rewrite H. reflexivity. Qed.

Lemma ferrs_non6 idx its : wf_items its -> filter non6 (ferrs idx its) = owns its.
Proof.
  induction its as [|i r IH]; intros H; [reflexivity|].
  specialize (IH (wf_items_tail _ _ H)). pose proof (H i (or_introl eq_refl)) as Hi.
  unfold ferrs, owns in *. cbn [flat_map]. rewrite filter_app, IH. destruct i as [e|t e].
  - cbn [filter]. rewrite (non6_true _ Hi). reflexivity.
  - destruct (resolve idx t); cbn [filter app]; [reflexivity|]. rewrite (non6_false _ Hi). reflexivity.
Qed.

Lemma ferrs_split idx its : Permutation (ferrs idx its) (owns its ++ errs6 idx its).
Proof.
  induction its as [|i r IH]; [constructor|].
  unfold ferrs, owns, errs6, reqs_of in *. cbn [flat_map]. destruct i as [e|t e].
  - cbn [app]. constructor. exact IH.
  - cbn [app flat_map fst snd]. destruct (resolve idx t); cbn [app]; [exact IH|].
    eapply Permutation_trans; [constructor; exact IH|]. apply Permutation_middle.
Qed.

Lemma errs6_all6 idx its : wf_items its -> filter non6 (errs6 idx its) = [].
Proof.
  induction its as [|i r IH]; intros H; [reflexivity|].
  specialize (IH (wf_items_tail _ _ H)). pose proof (H i (or_introl eq_refl)) as Hi.
  unfold errs6, reqs_of in *. cbn [flat_map]. destruct i as [e|t e]; [exact IH|].
  cbn [app flat_map fst snd]. rewrite filter_app, IH, app_nil_r.
  destruct (resolve idx t); cbn [filter]; [reflexivity|]. rewrite (non6_false _ Hi). reflexivity.
Qed.

Lemma reresolve_perm idx0 idx1 its l :
  wf_items its -> Permutation l (ferrs idx0 its) ->
  Permutation (filter non6 l ++ errs6 idx1 its) (ferrs idx1 its).
Proof.
  intros Hwf Hp. eapply Permutation_trans; [|apply Permutation_sym, ferrs_split].
  apply Permutation_app_tail. rewrite <- (ferrs_non6 idx0 its Hwf). apply perm_filter. exact Hp.
Qed.

Lemma has6_false_no_unresolved idx its :
  has6 (ferrs idx its) = false -> wf_items its -> errs6 idx its = [].
Proof.
  induction its as [|i r IH]; intros H Hwf; [reflexivity|].
  pose proof (Hwf i (or_introl eq_refl)) as Hi. unfold ferrs, errs6, reqs_of, has6 in *. cbn [flat_map] in *.
  rewrite existsb_app in H. apply orb_false_iff in H as [H1 H2]. specialize (IH H2 (wf_items_tail _ _ Hwf)).
  destruct i as [e|t e]; [exact IH|]. cbn [app flat_map fst snd]. rewrite IH.
  destruct (resolve idx t); [reflexivity|]. cbn [existsb] in H1. rewrite Hi in H1. discriminate.
Qed.

(* resolution only looks at membership of the target *)
Lemma resolve_ext idx idx' t : fmem t idx = fmem t idx' -> resolve idx t = resolve idx' t.
Proof. unfold resolve. intros ->. reflexivity. Qed.

Lemma refs_of_ext idx idx' its :
  (forall t e, In (t, e) (reqs_of its) -> fmem t idx = fmem t idx') -> refs_of idx its = refs_of idx' its.
Proof.
  intros H. unfold refs_of. apply map_ext_in. intros [t e] Hin. apply resolve_ext. eapply H. exact Hin.
Qed.

Lemma in_reqs_of t e its : In (t, e) (reqs_of its) <-> In (Req t e) its.
Proof.
  unfold reqs_of. rewrite in_flat_map. split.
  - intros [i [Hi Hin]]. destruct i as [e0|t0 e0]; [destruct Hin|]. destruct Hin as [Heq|[]]. injection Heq as -> ->. exact Hi.
  - intros H. exists (Req t e). split; [exact H|left; reflexivity].
Qed.

Lemma ferrs_ext idx idx' its :
  (forall t e, In (t, e) (reqs_of its) -> fmem t idx = fmem t idx') -> ferrs idx its = ferrs idx' its.
Proof.
  intros H. unfold ferrs. apply flat_map_ext_in'. intros [e|t e] Hin; [reflexivity|].
  rewrite (resolve_ext idx idx' t); [reflexivity|]. eapply H. apply in_reqs_of. exact Hin.
Qed.

Lemma errs6_ext idx idx' its :
  (forall t e, In (t, e) (reqs_of its) -> fmem t idx = fmem t idx') -> errs6 idx its = errs6 idx' its.
Proof.
  intros H. unfold errs6. apply flat_map_ext_in'. intros [t e] Hin. cbn [fst snd].
  rewrite (resolve_ext idx idx' t); [reflexivity|]. eapply H. exact Hin.
Qed.

Lemma in_refs_of idx its t : In (Some t) (refs_of idx its) <-> (exists e, In (t, e) (reqs_of its)) /\ fmem t idx = true.
Proof.
  unfold refs_of. rewrite in_map_iff. split.
  - intros [[t0 e] [Hr Hin]]. cbn [fst] in Hr. unfold resolve in Hr. destruct (fmem t0 idx) eqn:E; [|discriminate].
    injection Hr as ->. split; [exists e; exact Hin|exact E].
  - intros [[e Hin] Hm]. exists (t, e). split; [|exact Hin]. cbn [fst]. unfold resolve. rewrite Hm. reflexivity.
Qed.

Lemma refer_hit_false f its : refer_hit [f] its = false -> forall t e, In (t, e) (reqs_of its) -> t <> f.
Proof.
  unfold refer_hit. intros H t e Hin ->. assert (existsb (fun te : file * err => fmem (fst te) [f]) (reqs_of its) = true).
  { apply existsb_exists. exists (f, e). split; [exact Hin|]. cbn. rewrite N.eqb_refl. reflexivity. }
  congruence.
Qed.

Section Refine.
  Variable A : analysis.
  Variable fx : fixes.
  Hypothesis HA : analysis_ok A.
  Local Notation txt := (text A).

  Lemma first_wf t : wf_items (first A t).
  Proof. intros i Hi. exact (ok_first A HA t i Hi). Qed.

  (* ---------- the characterisation ---------- *)
  Definition good_file (idx : list file) (t : txt) (s : fstruct A) : Prop :=
    (exists r, s_res s = Some r /\ r_text r = t /\ r_refs r = refs_of idx (first A t) /\
               Permutation (r_errs r) (ferrs idx (first A t))) /\
    (s_contents s = None \/ s_contents s = Some t).

  Definition dfiles (dk : amap txt) : list file := fset_of (filter (in_dir A) (akeys dk)).

  Lemma dfiles_in dk f : In f (dfiles dk) <-> in_dir A f = true /\ aget dk f <> None.
  Proof.
    unfold dfiles. rewrite fset_of_in, filter_In, aget_in_keys. tauto.
  Qed.

  Lemma dfiles_sorted dk : ssorted (dfiles dk).
  Proof. apply fset_of_sorted. Qed.

  Record good_proj (dk : amap txt) (p : proj A) : Prop := {
    gp_files : p_files p = dfiles dk;
    gp_isup : forall f, In f (p_files p) -> In f (p_index p);
    gp_in : forall f, In f (p_files p) ->
            exists t s, aget dk f = Some t /\ aget (p_fsm p) f = Some s /\ good_file (p_index p) t s;
    gp_out : forall f, ~ In f (p_files p) -> aget (p_fsm p) f = None;
    gp_nostale : forall f r t, In f (p_files p) -> res_of A p f = Some r -> In (Some t) (r_refs r) -> In t (p_files p);
    gp_tincl : p_tincl p = p_files p;
    gp_terrs : forall f, vget (p_terrs p) f = if fmem f (p_files p) then cross A (psums A p (p_files p)) f else []
  }.

  Lemma good_res dk p f : good_proj dk p -> In f (p_files p) ->
    exists t r, aget dk f = Some t /\ res_of A p f = Some r /\ r_text r = t /\
                r_refs r = refs_of (p_index p) (first A t) /\ Permutation (r_errs r) (ferrs (p_index p) (first A t)).
  Proof.
    intros G Hin. destruct (gp_in _ _ G f Hin) as [t [s [Hd [Hs [[r [Hr [Ht [Hrefs Herrs]]]] _]]]]].
    exists t, r. unfold res_of. rewrite Hs. auto.
  Qed.

  (* under the characterisation, resolving against the index = resolving against the file set *)
  Lemma resolve_agree dk p f t : good_proj dk p -> In f (p_files p) -> aget dk f = Some t ->
    forall t' e, In (t', e) (reqs_of (first A t)) -> fmem t' (p_index p) = fmem t' (p_files p).
  Proof.
    intros G Hin Hd t' e Hreq. destruct (good_res dk p f G Hin) as [t0 [r [Hd0 [Hr [Ht [Hrefs _]]]]]].
    rewrite Hd in Hd0. injection Hd0 as <-.
    destruct (fmem t' (p_index p)) eqn:E.
    - symmetry. apply fmem_in. apply (gp_nostale _ _ G f r t' Hin Hr). rewrite Hrefs. apply in_refs_of.
      split; [exists e; exact Hreq|exact E].
    - symmetry. apply fmem_false. intros H. apply (gp_isup _ _ G) in H. apply fmem_in in H. congruence.
  Qed.

  Lemma good_psums dk p p' : good_proj dk p -> good_proj dk p' ->
    psums A p (p_files p) = psums A p' (p_files p').
  Proof.
    intros G G'. rewrite (gp_files _ _ G), (gp_files _ _ G'). unfold psums. apply flat_map_ext_in'. intros f Hin.
    assert (Hin1 : In f (p_files p)) by (rewrite (gp_files _ _ G); exact Hin).
    assert (Hin2 : In f (p_files p')) by (rewrite (gp_files _ _ G'); exact Hin).
    destruct (good_res dk p f G Hin1) as [t [r [Hd [Hr [Ht [_ _]]]]]].
    destruct (good_res dk p' f G' Hin2) as [t' [r' [Hd' [Hr' [Ht' [_ _]]]]]].
    rewrite Hd in Hd'. injection Hd' as <-. rewrite Hr, Hr', Ht, Ht'.
    rewrite (refs_of_ext (p_index p) (p_files p) (first A t)) by (apply (resolve_agree dk p f t G Hin1 Hd)).
    rewrite (refs_of_ext (p_index p') (p_files p') (first A t)) by (apply (resolve_agree dk p' f t G' Hin2 Hd)).
    rewrite (gp_files _ _ G), (gp_files _ _ G'). reflexivity.
  Qed.

  (* the characterisation determines every file's diagnostics up to order *)
  Lemma good_unique dk p p' : good_proj dk p -> good_proj dk p' ->
    forall f, Permutation (errs_of A p f) (errs_of A p' f).
  Proof.
    intros G G' f. unfold errs_of. apply dedupe_perm.
    rewrite (gp_terrs _ _ G f), (gp_terrs _ _ G' f), (good_psums dk p p' G G').
    rewrite (gp_files _ _ G), (gp_files _ _ G'). apply Permutation_app_tail.
    unfold first_errs. destruct (fmem f (dfiles dk)) eqn:E.
    - apply fmem_in in E.
      assert (Hin1 : In f (p_files p)) by (rewrite (gp_files _ _ G); exact E).
      assert (Hin2 : In f (p_files p')) by (rewrite (gp_files _ _ G'); exact E).
      destruct (good_res dk p f G Hin1) as [t [r [Hd [Hr [Ht [_ Hp]]]]]].
      destruct (good_res dk p' f G' Hin2) as [t' [r' [Hd' [Hr' [Ht' [_ Hp']]]]]].
      rewrite Hd in Hd'. injection Hd' as <-. rewrite Hr, Hr'.
      eapply Permutation_trans; [exact Hp|]. eapply Permutation_trans; [|apply Permutation_sym; exact Hp'].
      rewrite (ferrs_ext (p_index p) (p_files p) (first A t)) by (apply (resolve_agree dk p f t G Hin1 Hd)).
      rewrite (ferrs_ext (p_index p') (p_files p') (first A t)) by (apply (resolve_agree dk p' f t G' Hin2 Hd)).
      rewrite (gp_files _ _ G), (gp_files _ _ G'). apply Permutation_refl.
    - apply fmem_false in E. unfold res_of. rewrite (gp_out _ _ G f), (gp_out _ _ G' f).
      + apply Permutation_refl.
      + rewrite (gp_files _ _ G'). exact E.
      + rewrite (gp_files _ _ G). exact E.
  Qed.

  (* ---------- the closure is the file set when every reference stays inside it ---------- *)
  Lemma add_targets_id a refs : ssorted a -> (forall t, In (Some t) refs -> In t a) -> add_targets a refs = a.
  Proof.
    unfold add_targets. intros Hs. induction refs as [|ot r IH]; intros H; [reflexivity|].
    cbn [fold_left]. destruct ot as [t|].
    - rewrite fadd_id; [|exact Hs|apply H; left; reflexivity]. apply IH. intros t' Ht'. apply H. right. exact Ht'.
    - apply IH. intros t' Ht'. apply H. right. exact Ht'.
  Qed.

  Lemma expand_id (p : proj A) l :
    ssorted l -> (forall f r t, In f l -> res_of A p f = Some r -> In (Some t) (r_refs r) -> In t l) ->
    expand A p l = l.
  Proof.
    intros Hs H. unfold expand.
    assert (Hgen : forall l', (forall f, In f l' -> In f l) ->
              fold_left (fun a f => match res_of A p f with Some r => add_targets a (r_refs r) | None => a end) l' l = l).
    { induction l' as [|f l' IH]; intros Hsub; [reflexivity|]. cbn [fold_left].
      destruct (res_of A p f) as [r|] eqn:Er.
      - rewrite add_targets_id; [|exact Hs|intros t Ht; apply (H f r t); [apply Hsub; left; reflexivity|exact Er|exact Ht]].
        apply IH. intros g Hg. apply Hsub. right. exact Hg.
      - apply IH. intros g Hg. apply Hsub. right. exact Hg. }
    apply Hgen. auto.
  Qed.

  Lemma iterate_id {X} n (g : X -> X) x : g x = x -> iterate n g x = x.
  Proof. intros H. induction n as [|n IH]; [reflexivity|]. cbn [iterate]. rewrite H. exact IH. Qed.

  Lemma third_incl_id (p : proj A) :
    ssorted (p_files p) ->
    (forall f r t, In f (p_files p) -> res_of A p f = Some r -> In (Some t) (r_refs r) -> In t (p_files p)) ->
    third_incl A p = p_files p.
  Proof. intros Hs H. unfold third_incl. apply iterate_id. apply expand_id; assumption. Qed.

  (* ---------- recompute_third establishes the third-pass part ---------- *)
  Lemma recompute_third_fields p :
    p_files (recompute_third A p) = p_files p /\ p_index (recompute_third A p) = p_index p /\
    p_fsm (recompute_third A p) = p_fsm p /\ p_lru (recompute_third A p) = p_lru p.
  Proof. unfold recompute_third. cbn. auto. Qed.

  Lemma res_of_recompute p f : res_of A (recompute_third A p) f = res_of A p f.
  Proof. reflexivity. Qed.

  Lemma psums_recompute p l : psums A (recompute_third A p) l = psums A p l.
  Proof. reflexivity. Qed.

  Lemma recompute_third_terrs p f :
    (forall g, In g (p_files p) -> res_of A p g <> None) ->
    vget (p_terrs (recompute_third A p)) f =
    if fmem f (p_files p) then cross A (psums A p (third_incl A p)) f else [].
  Proof.
    intros Hres. unfold recompute_third. cbn [p_terrs]. unfold vget.
    rewrite (flat_map_ext_in' _ (fun g => match (match cross A (psums A p (third_incl A p)) g with [] => None | l => Some l end) with
                                          | Some v => [(g, v)] | None => [] end)).
    - rewrite aget_flat_map_keys. fold (fmem f (p_files p)). destruct (fmem f (p_files p)); [|reflexivity].
      destruct (cross A (psums A p (third_incl A p)) f); reflexivity.
    - intros g Hg. destruct (res_of A p g) eqn:E; [|exfalso; exact (Hres g Hg E)].
      destruct (cross A (psums A p (third_incl A p)) g); reflexivity.
  Qed.

  (* a project whose first-pass part is right becomes good once the third pass has run *)
  Lemma good_after_third dk p :
    p_files p = dfiles dk ->
    (forall f, In f (p_files p) -> In f (p_index p)) ->
    (forall f, In f (p_files p) -> exists t s, aget dk f = Some t /\ aget (p_fsm p) f = Some s /\ good_file (p_index p) t s) ->
    (forall f, ~ In f (p_files p) -> aget (p_fsm p) f = None) ->
    (forall f r t, In f (p_files p) -> res_of A p f = Some r -> In (Some t) (r_refs r) -> In t (p_files p)) ->
    good_proj dk (recompute_third A p).
  Proof.
    intros Hf Hsup Hin Hout Hns.
    assert (Hs : ssorted (p_files p)) by (rewrite Hf; apply dfiles_sorted).
    assert (Hincl : third_incl A p = p_files p) by (apply third_incl_id; assumption).
    constructor.
    - exact Hf.
    - exact Hsup.
    - exact Hin.
    - exact Hout.
    - exact Hns.
    - exact Hincl.
    - intros f. rewrite recompute_third_terrs.
      + cbn [recompute_third p_files]. rewrite psums_recompute, Hincl. reflexivity.
      + intros g Hg. destruct (Hin g Hg) as [t [s [_ [Hs' [[r [Hr _]] _]]]]]. unfold res_of. rewrite Hs', Hr. discriminate.
  Qed.
End Refine.
