(* C08 - project-level refinement: the incremental project state is characterised by the current disk
   (good_proj), the characterisation determines every file's diagnostics up to order (good_unique), a server start
   establishes it (init_good) and each single file event re-establishes it (he_created / he_changed / he_deleted). *)
From Coq Require Import List NArith Bool Lia Permutation Sorted.
From LH Require Import Model.Diag Model.Events Spec.FreshStart Proofs.DiagProofs Proofs.EventsSets.
Import ListNotations.
Local Open Scope N_scope.

(* ---------- lists ---------- *)
Lemma flat_map_ext_in' {X Y} (f g : X -> list Y) l : (forall x, In x l -> f x = g x) -> flat_map f l = flat_map g l.
Proof.
  induction l as [|a r IH]; intros H; [reflexivity|]. cbn [flat_map]. rewrite (H a (or_introl eq_refl)), IH; [reflexivity|].
  intros x Hx. apply H. right. exact Hx.
Qed.

Lemma perm_filter {X} (p : X -> bool) l l' : Permutation l l' -> Permutation (filter p l) (filter p l').
Proof.
  induction 1 as [|x l l' H IH|x y l|l l' l'' H1 IH1 H2 IH2]; cbn [filter].
  - constructor.
  - destruct (p x); [constructor; exact IH|exact IH].
  - destruct (p x), (p y); try apply Permutation_refl. apply perm_swap.
  - eapply Permutation_trans; eassumption.
Qed.

(* ---------- de-duplication ---------- *)
Lemma existsb_err_in e s : existsb (err_eqb e) s = true <-> In e s.
Proof.
  rewrite existsb_exists. split.
  - intros [x [Hx E]]. apply err_eqb_eq in E. subst. exact Hx.
  - intros H. exists e. split; [exact H|apply err_eqb_refl].
Qed.

Lemma dedupe_in l : forall s x, In x (dedupe s l) <-> In x l /\ ~ In x s.
Proof.
  induction l as [|e r IH]; intros s x; cbn [dedupe In]; [tauto|].
  destruct (existsb (err_eqb e) s) eqn:E.
  - apply existsb_err_in in E. rewrite IH. split.
    + intros [H1 H2]. auto.
    + intros [[H1|H1] H2]; [subst; contradiction|auto].
  - assert (Hn : ~ In e s) by (intros H; apply existsb_err_in in H; congruence).
    cbn [In]. rewrite IH. cbn [In]. split.
    + intros [H|[H1 H2]]; [subst; auto|]. split; [auto|]. intros H3. apply H2. right. exact H3.
    + intros [[H1|H1] H2]; [auto|]. destruct (err_eqb e x) eqn:E2.
      * apply err_eqb_eq in E2. auto.
      * right. split; [exact H1|]. intros [H3|H3]; [subst; rewrite err_eqb_refl in E2; discriminate|contradiction].
Qed.

Lemma dedupe_nodup l : forall s, NoDup (dedupe s l).
Proof.
  induction l as [|e r IH]; intros s; cbn [dedupe]; [constructor|].
  destruct (existsb (err_eqb e) s); [apply IH|]. constructor; [|apply IH].
  intros H. apply dedupe_in in H. apply (proj2 H). left. reflexivity.
Qed.

Lemma dedupe_perm a b : Permutation a b -> Permutation (dedupe [] a) (dedupe [] b).
Proof.
  intros H. apply NoDup_Permutation; [apply dedupe_nodup|apply dedupe_nodup|].
  intros x. rewrite !dedupe_in. split; intros [H1 H2]; split; auto.
  - eapply Permutation_in; eassumption.
  - eapply Permutation_in; [apply Permutation_sym|]; eassumption.
Qed.

(* ---------- first-pass error lists ---------- *)
Definition owns (its : list item) : list err :=
  flat_map (fun i => match i with Own e => [e] | Req _ _ => [] end) its.
Definition wf_items (its : list item) : Prop :=
  forall i, In i its -> match i with Own e => etype e <> 6 | Req _ e => etype e = 6 end.

Lemma wf_items_tail i its : wf_items (i :: its) -> wf_items its.
Proof. intros H j Hj. apply H. right. exact Hj. Qed.

Lemma non6_true e : etype e <> 6 -> non6 e = true.
Proof. intros H. unfold non6. destruct (etype e =? 6) eqn:E; [apply N.eqb_eq in E; contradiction|reflexivity]. Qed.
Lemma non6_false e : etype e = 6 -> non6 e = false.
Proof. intros H. unfold non6. rewrite H. reflexivity. Qed.

Lemma ferrs_non6 idx its : wf_items its -> filter non6 (ferrs idx its) = owns its.
Proof.
  induction its as [|i r IH]; intros H; [reflexivity|].
  specialize (IH (wf_items_tail _ _ H)). pose proof (H i (or_introl eq_refl)) as Hi.
  unfold ferrs, owns in *. cbn [flat_map]. rewrite filter_app, IH. destruct i as [e|t e].
  - cbn [filter]. rewrite (non6_true _ Hi). reflexivity.
  - destruct (resolve idx t); cbn [filter app]; [reflexivity|]. rewrite (non6_false _ Hi). reflexivity.
Qed.

Lemma ferrs_split idx its : Permutation (ferrs idx its) (owns its ++ errs6 idx its).
Proof.
  induction its as [|i r IH]; [constructor|].
  unfold ferrs, owns, errs6, reqs_of in *. cbn [flat_map]. destruct i as [e|t e].
  - cbn [app]. constructor. exact IH.
  - cbn [app flat_map fst snd]. destruct (resolve idx t); cbn [app]; [exact IH|].
    eapply Permutation_trans; [constructor; exact IH|]. apply Permutation_middle.
Qed.

Lemma errs6_all6 idx its : wf_items its -> filter non6 (errs6 idx its) = [].
Proof.
  induction its as [|i r IH]; intros H; [reflexivity|].
  specialize (IH (wf_items_tail _ _ H)). pose proof (H i (or_introl eq_refl)) as Hi.
  unfold errs6, reqs_of in *. cbn [flat_map]. destruct i as [e|t e]; [exact IH|].
  cbn [app flat_map fst snd]. rewrite filter_app, IH, app_nil_r.
  destruct (resolve idx t); cbn [filter]; [reflexivity|]. rewrite (non6_false _ Hi). reflexivity.
Qed.

Lemma reresolve_perm idx0 idx1 its l :
  wf_items its -> Permutation l (ferrs idx0 its) ->
  Permutation (filter non6 l ++ errs6 idx1 its) (ferrs idx1 its).
Proof.
  intros Hwf Hp. eapply Permutation_trans; [|apply Permutation_sym, ferrs_split].
  apply Permutation_app_tail. rewrite <- (ferrs_non6 idx0 its Hwf). apply perm_filter. exact Hp.
Qed.

Lemma has6_false_no_unresolved idx its :
  has6 (ferrs idx its) = false -> wf_items its -> errs6 idx its = [].
Proof.
  induction its as [|i r IH]; intros H Hwf; [reflexivity|].
  pose proof (Hwf i (or_introl eq_refl)) as Hi. unfold ferrs, errs6, reqs_of, has6 in *. cbn [flat_map] in *.
  rewrite existsb_app in H. apply orb_false_iff in H as [H1 H2]. specialize (IH H2 (wf_items_tail _ _ Hwf)).
  destruct i as [e|t e]; [exact IH|]. cbn [app flat_map fst snd]. rewrite IH.
  destruct (resolve idx t); [reflexivity|]. cbn [existsb] in H1. rewrite Hi in H1. discriminate.
Qed.

(* resolution only looks at membership of the target *)
Lemma resolve_ext idx idx' t : fmem t idx = fmem t idx' -> resolve idx t = resolve idx' t.
Proof. unfold resolve. intros ->. reflexivity. Qed.

Lemma refs_of_ext idx idx' its :
  (forall t e, In (t, e) (reqs_of its) -> fmem t idx = fmem t idx') -> refs_of idx its = refs_of idx' its.
Proof.
  intros H. unfold refs_of. apply map_ext_in. intros [t e] Hin. apply resolve_ext. eapply H. exact Hin.
Qed.

Lemma in_reqs_of t e its : In (t, e) (reqs_of its) <-> In (Req t e) its.
Proof.
  unfold reqs_of. rewrite in_flat_map. split.
  - intros [i [Hi Hin]]. destruct i as [e0|t0 e0]; [destruct Hin|]. destruct Hin as [Heq|[]]. injection Heq as -> ->. exact Hi.
  - intros H. exists (Req t e). split; [exact H|left; reflexivity].
Qed.

Lemma ferrs_ext idx idx' its :
  (forall t e, In (t, e) (reqs_of its) -> fmem t idx = fmem t idx') -> ferrs idx its = ferrs idx' its.
Proof.
  intros H. unfold ferrs. apply flat_map_ext_in'. intros [e|t e] Hin; [reflexivity|].
  rewrite (resolve_ext idx idx' t); [reflexivity|]. eapply H. apply in_reqs_of. exact Hin.
Qed.

Lemma errs6_ext idx idx' its :
  (forall t e, In (t, e) (reqs_of its) -> fmem t idx = fmem t idx') -> errs6 idx its = errs6 idx' its.
Proof.
  intros H. unfold errs6. apply flat_map_ext_in'. intros [t e] Hin. cbn [fst snd].
  rewrite (resolve_ext idx idx' t); [reflexivity|]. eapply H. exact Hin.
Qed.

Lemma in_refs_of idx its t : In (Some t) (refs_of idx its) <-> (exists e, In (t, e) (reqs_of its)) /\ fmem t idx = true.
Proof.
  unfold refs_of. rewrite in_map_iff. split.
  - intros [[t0 e] [Hr Hin]]. cbn [fst] in Hr. unfold resolve in Hr. destruct (fmem t0 idx) eqn:E; [|discriminate].
    injection Hr as ->. split; [exists e; exact Hin|exact E].
  - intros [[e Hin] Hm]. exists (t, e). split; [|exact Hin]. cbn [fst]. unfold resolve. rewrite Hm. reflexivity.
Qed.

Lemma refer_hit_false f its : refer_hit [f] its = false -> forall t e, In (t, e) (reqs_of its) -> t <> f.
Proof.
  unfold refer_hit. intros H t e Hin ->. assert (existsb (fun te : file * err => fmem (fst te) [f]) (reqs_of its) = true).
  { apply existsb_exists. exists (f, e). split; [exact Hin|]. cbn. rewrite N.eqb_refl. reflexivity. }
  congruence.
Qed.

Section Refine.
  Variable A : analysis.
  Variable fx : fixes.
  Hypothesis HA : analysis_ok A.
  (* which files of the disk the project consists of: in_dir A for the workspace alone; Spec/FreshStart.v `member w`
     when the open documents outside the workspace take part *)
  Variable mem : file -> bool.
  Local Notation txt := (text A).

  Lemma first_wf t : wf_items (first A t).
  Proof. intros i Hi. exact (ok_first A HA t i Hi). Qed.

  (* ---------- the characterisation ---------- *)
  Definition good_file (idx : list file) (t : txt) (s : fstruct A) : Prop :=
    (exists r, s_res s = Some r /\ r_text r = t /\ r_refs r = refs_of idx (first A t) /\
               Permutation (r_errs r) (ferrs idx (first A t))) /\
    (s_contents s = None \/ s_contents s = Some t).

  Definition dfiles (dk : amap txt) : list file := fset_of (filter mem (akeys dk)).

  Lemma dfiles_in dk f : In f (dfiles dk) <-> mem f = true /\ aget dk f <> None.
  Proof.
    unfold dfiles. rewrite fset_of_in, filter_In, aget_in_keys. tauto.
  Qed.

  Lemma dfiles_sorted dk : ssorted (dfiles dk).
  Proof. apply fset_of_sorted. Qed.

  Record good_proj (dk : amap txt) (p : proj A) : Prop := {
    gp_files : p_files p = dfiles dk;
    gp_isup : forall f, In f (p_files p) -> In f (p_index p);
    gp_in : forall f, In f (p_files p) ->
            exists t s, aget dk f = Some t /\ aget (p_fsm p) f = Some s /\ good_file (p_index p) t s;
    gp_out : forall f, ~ In f (p_files p) -> aget (p_fsm p) f = None;
    gp_nostale : forall f r t, In f (p_files p) -> res_of A p f = Some r -> In (Some t) (r_refs r) -> In t (p_files p);
    gp_tincl : p_tincl p = p_files p;
    gp_terrs : forall f, vget (p_terrs p) f = if fmem f (p_files p) then cross A (psums A p (p_files p)) f else []
  }.

  Lemma good_res dk p f : good_proj dk p -> In f (p_files p) ->
    exists t r, aget dk f = Some t /\ res_of A p f = Some r /\ r_text r = t /\
                r_refs r = refs_of (p_index p) (first A t) /\ Permutation (r_errs r) (ferrs (p_index p) (first A t)).
  Proof.
    intros G Hin. destruct (gp_in _ _ G f Hin) as [t [s [Hd [Hs [[r [Hr [Ht [Hrefs Herrs]]]] _]]]]].
    exists t, r. unfold res_of. rewrite Hs. auto.
  Qed.

  (* under the characterisation, resolving against the index = resolving against the file set *)
  Lemma resolve_agree dk p f t : good_proj dk p -> In f (p_files p) -> aget dk f = Some t ->
    forall t' e, In (t', e) (reqs_of (first A t)) -> fmem t' (p_index p) = fmem t' (p_files p).
  Proof.
    intros G Hin Hd t' e Hreq. destruct (good_res dk p f G Hin) as [t0 [r [Hd0 [Hr [Ht [Hrefs _]]]]]].
    rewrite Hd in Hd0. injection Hd0 as <-.
    destruct (fmem t' (p_index p)) eqn:E.
    - symmetry. apply fmem_in. apply (gp_nostale _ _ G f r t' Hin Hr). rewrite Hrefs. apply in_refs_of.
      split; [exists e; exact Hreq|exact E].
    - symmetry. apply fmem_false. intros H. apply (gp_isup _ _ G) in H. apply fmem_in in H. congruence.
  Qed.

  Lemma good_psums dk p p' : good_proj dk p -> good_proj dk p' ->
    psums A p (p_files p) = psums A p' (p_files p').
  Proof.
    intros G G'. rewrite (gp_files _ _ G), (gp_files _ _ G'). unfold psums. apply flat_map_ext_in'. intros f Hin.
    assert (Hin1 : In f (p_files p)) by (rewrite (gp_files _ _ G); exact Hin).
    assert (Hin2 : In f (p_files p')) by (rewrite (gp_files _ _ G'); exact Hin).
    destruct (good_res dk p f G Hin1) as [t [r [Hd [Hr [Ht [_ _]]]]]].
    destruct (good_res dk p' f G' Hin2) as [t' [r' [Hd' [Hr' [Ht' [_ _]]]]]].
    rewrite Hd in Hd'. injection Hd' as <-. rewrite Hr, Hr', Ht, Ht'.
    rewrite (refs_of_ext (p_index p) (p_files p) (first A t)) by (apply (resolve_agree dk p f t G Hin1 Hd)).
    rewrite (refs_of_ext (p_index p') (p_files p') (first A t)) by (apply (resolve_agree dk p' f t G' Hin2 Hd)).
    rewrite (gp_files _ _ G), (gp_files _ _ G'). reflexivity.
  Qed.

  (* the characterisation determines every file's diagnostics up to order *)
  Lemma good_unique dk p p' : good_proj dk p -> good_proj dk p' ->
    forall f, Permutation (errs_of A p f) (errs_of A p' f).
  Proof.
    intros G G' f. unfold errs_of. apply dedupe_perm.
    rewrite (gp_terrs _ _ G f), (gp_terrs _ _ G' f), (good_psums dk p p' G G').
    rewrite (gp_files _ _ G), (gp_files _ _ G'). apply Permutation_app_tail.
    unfold first_errs. destruct (fmem f (dfiles dk)) eqn:E.
    - apply fmem_in in E.
      assert (Hin1 : In f (p_files p)) by (rewrite (gp_files _ _ G); exact E).
      assert (Hin2 : In f (p_files p')) by (rewrite (gp_files _ _ G'); exact E).
      destruct (good_res dk p f G Hin1) as [t [r [Hd [Hr [Ht [_ Hp]]]]]].
      destruct (good_res dk p' f G' Hin2) as [t' [r' [Hd' [Hr' [Ht' [_ Hp']]]]]].
      rewrite Hd in Hd'. injection Hd' as <-. rewrite Hr, Hr'.
      eapply Permutation_trans; [exact Hp|]. eapply Permutation_trans; [|apply Permutation_sym; exact Hp'].
      rewrite (ferrs_ext (p_index p) (p_files p) (first A t)) by (apply (resolve_agree dk p f t G Hin1 Hd)).
      rewrite (ferrs_ext (p_index p') (p_files p') (first A t)) by (apply (resolve_agree dk p' f t G' Hin2 Hd)).
      rewrite (gp_files _ _ G), (gp_files _ _ G'). apply Permutation_refl.
    - apply fmem_false in E. unfold res_of. rewrite (gp_out _ _ G f), (gp_out _ _ G' f).
      + apply Permutation_refl.
      + rewrite (gp_files _ _ G'). exact E.
      + rewrite (gp_files _ _ G). exact E.
  Qed.

  (* ---------- the closure is the file set when every reference stays inside it ---------- *)
  Lemma add_targets_id a refs : ssorted a -> (forall t, In (Some t) refs -> In t a) -> add_targets a refs = a.
  Proof.
    unfold add_targets. intros Hs. induction refs as [|ot r IH]; intros H; [reflexivity|].
    cbn [fold_left]. destruct ot as [t|].
    - rewrite fadd_id; [|exact Hs|apply H; left; reflexivity]. apply IH. intros t' Ht'. apply H. right. exact Ht'.
    - apply IH. intros t' Ht'. apply H. right. exact Ht'.
  Qed.

  Lemma expand_id (p : proj A) l :
    ssorted l -> (forall f r t, In f l -> res_of A p f = Some r -> In (Some t) (r_refs r) -> In t l) ->
    expand A p l = l.
  Proof.
    intros Hs H. unfold expand.
    assert (Hgen : forall l', (forall f, In f l' -> In f l) ->
              fold_left (fun a f => match res_of A p f with Some r => add_targets a (r_refs r) | None => a end) l' l = l).
    { induction l' as [|f l' IH]; intros Hsub; [reflexivity|]. cbn [fold_left].
      destruct (res_of A p f) as [r|] eqn:Er.
      - rewrite add_targets_id; [|exact Hs|intros t Ht; apply (H f r t); [apply Hsub; left; reflexivity|exact Er|exact Ht]].
        apply IH. intros g Hg. apply Hsub. right. exact Hg.
      - apply IH. intros g Hg. apply Hsub. right. exact Hg. }
    apply Hgen. auto.
  Qed.

  Lemma iterate_id {X} n (g : X -> X) x : g x = x -> iterate n g x = x.
  Proof. intros H. induction n as [|n IH]; [reflexivity|]. cbn [iterate]. rewrite H. exact IH. Qed.

  Lemma third_incl_id (p : proj A) :
    ssorted (p_files p) ->
    (forall f r t, In f (p_files p) -> res_of A p f = Some r -> In (Some t) (r_refs r) -> In t (p_files p)) ->
    third_incl A p = p_files p.
  Proof. intros Hs H. unfold third_incl. apply iterate_id. apply expand_id; assumption. Qed.

  (* ---------- recompute_third establishes the third-pass part ---------- *)
  Lemma recompute_third_fields p :
    p_files (recompute_third A p) = p_files p /\ p_index (recompute_third A p) = p_index p /\
    p_fsm (recompute_third A p) = p_fsm p /\ p_lru (recompute_third A p) = p_lru p.
  Proof. unfold recompute_third. cbn. auto. Qed.

  Lemma res_of_recompute p f : res_of A (recompute_third A p) f = res_of A p f.
  Proof. reflexivity. Qed.

  Lemma psums_recompute p l : psums A (recompute_third A p) l = psums A p l.
  Proof. reflexivity. Qed.

  Lemma recompute_third_terrs p f :
    (forall g, In g (p_files p) -> res_of A p g <> None) ->
    vget (p_terrs (recompute_third A p)) f =
    if fmem f (p_files p) then cross A (psums A p (third_incl A p)) f else [].
  Proof.
    intros Hres. unfold recompute_third. cbn [p_terrs]. unfold vget.
    rewrite (flat_map_ext_in' _ (fun g => match (match cross A (psums A p (third_incl A p)) g with [] => None | l => Some l end) with
                                          | Some v => [(g, v)] | None => [] end)).
    - rewrite aget_flat_map_keys. fold (fmem f (p_files p)). destruct (fmem f (p_files p)); [|reflexivity].
      destruct (cross A (psums A p (third_incl A p)) f); reflexivity.
    - intros g Hg. destruct (res_of A p g) eqn:E; [|exfalso; exact (Hres g Hg E)].
      destruct (cross A (psums A p (third_incl A p)) g); reflexivity.
  Qed.

  (* no stale reference: every resolved require of a project file names a project file; it follows from the
     first-pass part when the index holds nothing but project files (the repaired RemoveOneFile) *)
  Definition nostale_p (p : proj A) : Prop :=
    forall g r t, In g (p_files p) -> res_of A p g = Some r -> In (Some t) (r_refs r) -> In t (p_files p).
  Definition idx_sub (p : proj A) : Prop := forall x, In x (p_index p) -> In x (p_files p).

  Lemma nostale_of_sub dk p :
    (forall f, In f (p_files p) -> exists t s, aget dk f = Some t /\ aget (p_fsm p) f = Some s /\ good_file (p_index p) t s) ->
    idx_sub p -> nostale_p p.
  Proof.
    intros Hin Hsub g r t Hg Hr Ht. destruct (Hin g Hg) as [t0 [s [_ [Hs [[r0 [Hr0 [_ [Hrefs _]]]] _]]]]].
    unfold res_of in Hr. rewrite Hs, Hr0 in Hr. injection Hr as <-. rewrite Hrefs in Ht. apply in_refs_of in Ht.
    apply Hsub. apply fmem_in. tauto.
  Qed.

  (* a project whose first-pass part is right becomes good once the third pass has run *)
  Lemma good_after_third dk p :
    p_files p = dfiles dk ->
    (forall f, In f (p_files p) -> In f (p_index p)) ->
    (forall f, In f (p_files p) -> exists t s, aget dk f = Some t /\ aget (p_fsm p) f = Some s /\ good_file (p_index p) t s) ->
    (forall f, ~ In f (p_files p) -> aget (p_fsm p) f = None) ->
    nostale_p p \/ idx_sub p ->
    good_proj dk (recompute_third A p).
  Proof.
    intros Hf Hsup Hin Hout Hns0.
    assert (Hns : nostale_p p) by (destruct Hns0 as [H|H]; [exact H|exact (nostale_of_sub dk p Hin H)]).
    assert (Hs : ssorted (p_files p)) by (rewrite Hf; apply dfiles_sorted).
    assert (Hincl : third_incl A p = p_files p) by (apply third_incl_id; assumption).
    constructor.
    - exact Hf.
    - exact Hsup.
    - exact Hin.
    - exact Hout.
    - exact Hns.
    - exact Hincl.
    - intros f. rewrite recompute_third_terrs.
      + cbn [recompute_third p_files]. rewrite psums_recompute, Hincl. reflexivity.
      + intros g Hg. destruct (Hin g Hg) as [t [s [_ [Hs' [[r [Hr _]] _]]]]]. unfold res_of. rewrite Hs', Hr. discriminate.
  Qed.

  (* ---------- first_one ---------- *)
  Lemma first_one_fields save dk p f :
    let p' := fst (first_one A fx save dk p f) in
    p_files p' = p_files p /\ p_index p' = p_index p /\ p_lru p' = p_lru p /\ p_tincl p' = p_tincl p /\ p_terrs p' = p_terrs p.
  Proof.
    unfold first_one. destruct (aget dk f) as [data|]; [|cbn; auto].
    destruct (aget (p_fsm p) f) as [s|]; [|cbn; auto].
    destruct (contents_same A fx (s_contents s) data); cbn; auto.
  Qed.

  Lemma first_one_other save dk p f g : f <> g ->
    aget (p_fsm (fst (first_one A fx save dk p f))) g = aget (p_fsm p) g.
  Proof.
    intros Hne. unfold first_one. destruct (aget dk f) as [data|].
    - destruct (aget (p_fsm p) f) as [s|].
      + destruct (contents_same A fx (s_contents s) data); cbn [fst set_fsm p_fsm]; [reflexivity|].
        apply aget_aset_other. exact Hne.
      + cbn [fst set_fsm p_fsm]. apply aget_aset_other. exact Hne.
    - cbn [fst set_fsm p_fsm]. apply aget_aset_other. exact Hne.
  Qed.

  (* the unchanged-content shortcut is right unless the empty-file case strikes *)
  Lemma contents_same_text idx t0 (s : fstruct A) p f data :
    aget (p_fsm p) f = Some s -> good_file idx t0 s ->
    contents_same A fx (s_contents s) data = true -> empty_hit_p A fx p f data = false -> t0 = data.
  Proof.
    intros Hs [[r [Hr [Ht _]]] Hc] Hsame Hemp. unfold contents_same in Hsame. unfold empty_hit_p in Hemp. rewrite Hs, Hr in Hemp.
    destruct Hc as [Hc|Hc]; rewrite Hc in *.
    - destruct (fix_empty fx); [discriminate|]. rewrite Hsame in Hemp. cbn [negb andb] in Hemp.
      apply negb_false_iff in Hemp. rewrite <- Ht. apply (ok_tempty A HA); assumption.
    - apply (ok_teqb A HA). exact Hsame.
  Qed.

  Lemma good_file_ext idx idx' t (s : fstruct A) :
    (forall x, fmem x idx = fmem x idx') -> good_file idx t s -> good_file idx' t s.
  Proof.
    intros H [[r [Hr [Ht [Hrefs Hp]]]] Hc]. split; [|exact Hc]. exists r. repeat split; try assumption.
    - rewrite Hrefs. apply refs_of_ext. intros. apply H.
    - rewrite (ferrs_ext idx' idx); [exact Hp|]. intros. symmetry. apply H.
  Qed.

  (* the entry of f after the first pass on f, when the disk has text t *)
  Lemma first_one_self dk p f t :
    aget dk f = Some t ->
    (forall s, aget (p_fsm p) f = Some s -> exists t0, good_file (p_index p) t0 s) ->
    empty_hit_p A fx p f t = false ->
    exists s', aget (p_fsm (fst (first_one A fx true dk p f))) f = Some s' /\ good_file (p_index p) t s'.
  Proof.
    intros Hd Hold Hemp. unfold first_one. rewrite Hd.
    assert (Hnew : good_file (p_index p) t {| s_contents := Some t; s_res := Some (analyse A (p_index p) t) |}).
    { split; [|right; reflexivity]. exists (analyse A (p_index p) t). unfold analyse. cbn. auto. }
    destruct (aget (p_fsm p) f) as [s|] eqn:Es.
    - destruct (contents_same A fx (s_contents s) t) eqn:Ec; cbn [fst set_fsm p_fsm].
      + destruct (Hold s eq_refl) as [t0 Hg]. pose proof (contents_same_text (p_index p) t0 s p f t Es Hg Ec Hemp) as ->.
        exists s. split; [exact Es|exact Hg].
      + rewrite aget_aset_same. eexists. split; [reflexivity|exact Hnew].
    - cbn [fst set_fsm p_fsm]. rewrite aget_aset_same. eexists. split; [reflexivity|exact Hnew].
  Qed.

  Lemma first_one_unchanged dk p f :
    snd (first_one A fx true dk p f) = false -> fst (first_one A fx true dk p f) = p.
  Proof.
    unfold first_one. destruct (aget dk f) as [data|]; [|discriminate].
    destruct (aget (p_fsm p) f) as [s|]; [|discriminate].
    destruct (contents_same A fx (s_contents s) data); [reflexivity|discriminate].
  Qed.

  (* ---------- ReanalyseReferInfo keeps / re-establishes the first-pass part ---------- *)
  Lemma reanalyse_good idx0 idx1 f t (s : fstruct A) :
    (forall x, x <> f -> fmem x idx1 = fmem x idx0) ->
    good_file idx0 t s -> good_file idx1 t (reanalyse_one A idx1 [f] s).
  Proof.
    intros Hidx [[r [Hr [Ht [Hrefs Hp]]]] Hc]. unfold reanalyse_one. rewrite Hr, Ht.
    destruct (has6 (r_errs r) || refer_hit [f] (first A t)) eqn:E.
    - split; [|exact Hc]. eexists. split; [reflexivity|]. cbn [r_text r_refs r_errs].
      split; [reflexivity|]. split; [reflexivity|].
      eapply reresolve_perm; [apply first_wf|exact Hp].
    - apply orb_false_iff in E as [_ E]. pose proof (refer_hit_false f _ E) as Hne.
      split; [|exact Hc]. exists r. repeat split; try assumption.
      + rewrite Hrefs. apply refs_of_ext. intros x e Hin. symmetry. apply Hidx. eapply Hne. exact Hin.
      + rewrite (ferrs_ext idx1 idx0); [exact Hp|]. intros x e Hin. apply Hidx. eapply Hne. exact Hin.
  Qed.

  Lemma reanalyse_all_fields p need :
    let p' := reanalyse_all A p need in
    p_files p' = p_files p /\ p_index p' = p_index p /\ p_lru p' = p_lru p /\ p_tincl p' = p_tincl p /\ p_terrs p' = p_terrs p.
  Proof. cbn. auto. Qed.

  Lemma reanalyse_all_fsm p need g :
    aget (p_fsm (reanalyse_all A p need)) g = option_map (reanalyse_one A (p_index p) need) (aget (p_fsm p) g).
  Proof. unfold reanalyse_all. cbn [set_fsm p_fsm]. apply aget_map_snd. Qed.

  (* ---------- singleton batches: what HandleFileEventChanges reduces to ---------- *)
  Definition lru_after (p2 : proj A) (f : file) : proj A :=
    set_lru A p2 (match res_of A p2 f with Some _ => frem f (p_lru p2) | None => p_lru p2 end).

  (* "changed" said of a file of the project is handled as such (also by the code with the changed-unknown repair) *)
  Lemma eff_kind_known (p : proj A) f : fmem f (p_files p) = true -> eff_kind A fx p (f, KChanged) = KChanged.
  Proof. intros H. unfold eff_kind. cbn [fst snd]. rewrite H, andb_false_r. reflexivity. Qed.

  Lemma he_changed_eq dk p f : fmem f (p_files p) = true ->
    handle_events A fx dk p [(f, KChanged)] =
    let pc := first_one A fx true dk p f in
    let p3 := lru_after (fst pc) f in
    if snd pc then ((if fmem f (p_tincl p) then recompute_third A p3 else p3), true) else (p3, false).
  Proof.
    intros Hknown.
    unfold handle_events, lru_after. cbn [fold_left]. unfold classify_one. cbn [fst snd]. rewrite (eff_kind_known _ _ Hknown).
    cbn [classify_base fst snd h_again h_refer h_all h_third app is_nil negb].
    unfold first_many. cbn [fold_left fst snd].
    destruct (first_one A fx true dk p f) as [p2 c]. cbn [fst snd orb]. destruct c; reflexivity.
  Qed.

  Definition created_proj (p : proj A) (f : file) : proj A :=
    {| p_files := fadd f (p_files p); p_index := fadd f (p_index p); p_fsm := p_fsm p;
       p_lru := p_lru p; p_tincl := p_tincl p; p_terrs := p_terrs p |}.

  Lemma he_created_eq dk p f : in_dir A f || fix_outside fx = true ->
    handle_events A fx dk p [(f, KCreated)] =
    (recompute_third A (reanalyse_all A (lru_after (fst (first_one A fx true dk (created_proj p f) f)) f) [f]), true).
  Proof.
    intros Hd. unfold handle_events, lru_after, created_proj. cbn [fold_left classify_one classify_base eff_kind fst snd]. rewrite Hd.
    cbn [h_again h_refer h_all h_third app is_nil negb fadd orb]. unfold first_many. cbn [fold_left fst snd].
    destruct (first_one A fx true dk _ f) as [p2 c]. cbn [fst snd orb negb andb is_nil].
    rewrite andb_false_r. reflexivity.
  Qed.

  Lemma he_deleted_eq dk p f : in_dir A f || fix_outside fx = true ->
    handle_events A fx dk p [(f, KDeleted)] =
    (recompute_third A (reanalyse_all A (set_lru A (remove_file A fx p f) (p_lru (remove_file A fx p f))) [f]), true).
  Proof.
    intros Hd. unfold handle_events. cbn [fold_left classify_one classify_base eff_kind fst snd]. rewrite Hd.
    cbn [h_again h_refer h_all h_third app is_nil negb fadd orb]. unfold first_many. cbn [fold_left fst snd negb andb is_nil].
    reflexivity.
  Qed.

  Lemma set_lru_fields (p : proj A) l :
    p_files (set_lru A p l) = p_files p /\ p_index (set_lru A p l) = p_index p /\ p_fsm (set_lru A p l) = p_fsm p /\
    p_tincl (set_lru A p l) = p_tincl p /\ p_terrs (set_lru A p l) = p_terrs p.
  Proof. cbn. auto. Qed.

  (* good_proj does not look at the LRU *)
  Lemma good_set_lru dk p l : good_proj dk p -> good_proj dk (set_lru A p l).
  Proof. intros G. destruct G. constructor; assumption. Qed.

  Lemma errs_of_set_lru p l g : errs_of A (set_lru A p l) g = errs_of A p g.
  Proof. reflexivity. Qed.

  (* ---------- the workspace file set after a disk change ---------- *)
  Lemma dfiles_aset dk0 f t : mem f = true -> dfiles (aset dk0 f t) = fadd f (dfiles dk0).
  Proof.
    intros Hd. apply sorted_ext; [apply dfiles_sorted|apply fadd_sorted, dfiles_sorted|].
    intros x. rewrite fadd_in, !dfiles_in, aget_aset. destruct (f =? x) eqn:E.
    - apply N.eqb_eq in E. subst x. split; [auto|]. intros _. split; [exact Hd|discriminate].
    - split; [intros H; right; exact H|]. intros [->|H]; [rewrite N.eqb_refl in E; discriminate|exact H].
  Qed.

  Lemma dfiles_aset_present dk0 f t : mem f = true -> aget dk0 f <> None -> dfiles (aset dk0 f t) = dfiles dk0.
  Proof.
    intros Hd Hp. rewrite dfiles_aset by exact Hd. apply fadd_id; [apply dfiles_sorted|]. apply dfiles_in. auto.
  Qed.

  Lemma dfiles_adel dk0 f : dfiles (adel dk0 f) = frem f (dfiles dk0).
  Proof.
    apply sorted_ext; [apply dfiles_sorted|apply frem_sorted, dfiles_sorted|].
    intros x. rewrite frem_in, !dfiles_in, aget_adel. destruct (f =? x) eqn:E.
    - apply N.eqb_eq in E. subst x. split; [intros [_ H]; congruence|intros [H _]; congruence].
    - split; [intros H; split; [intros ->; rewrite N.eqb_refl in E; discriminate|exact H]|intros [_ H]; exact H].
  Qed.

  (* ---------- Changed f (didSave, watched change): disk f := t, f was there ---------- *)
  Lemma he_changed dk0 p f t :
    good_proj dk0 p -> mem f = true -> aget dk0 f <> None -> empty_hit_p A fx p f t = false ->
    let r := handle_events A fx (aset dk0 f t) p [(f, KChanged)] in
    (nostale_p (fst r) \/ idx_sub (fst r) -> good_proj (aset dk0 f t) (fst r)) /\
    (snd r = false -> forall g, errs_of A (fst r) g = errs_of A p g).
  Proof.
    intros G Hd Hpres Hemp. cbn zeta.
    assert (Hfin : In f (p_files p)) by (rewrite (gp_files _ _ G); apply dfiles_in; auto).
    rewrite he_changed_eq by (apply fmem_in; exact Hfin). cbn zeta.
    set (dk := aset dk0 f t).
    assert (Hdkf : aget dk f = Some t) by (apply aget_aset_same).
    pose proof (first_one_fields true dk p f) as Hfld. cbn zeta in Hfld. destruct Hfld as [F1 [F2 [F3 [F4 F5]]]].
    destruct (first_one_self dk p f t Hdkf) as [s' [Hs' Hg']].
    { intros s Hs. destruct (gp_in _ _ G f Hfin) as [t0 [s0 [_ [Hs0 Hg0]]]]. rewrite Hs in Hs0. injection Hs0 as <-. exists t0. exact Hg0. }
    { exact Hemp. }
    set (p2 := fst (first_one A fx true dk p f)) in *.
    assert (Hfiles : p_files p2 = dfiles dk).
    { rewrite F1, (gp_files _ _ G). unfold dk. symmetry. apply dfiles_aset_present; assumption. }
    assert (Hin2 : forall g, In g (p_files p2) ->
              exists t1 s1, aget dk g = Some t1 /\ aget (p_fsm p2) g = Some s1 /\ good_file (p_index p2) t1 s1).
    { intros g Hg. rewrite F2. destruct (N.eq_dec f g) as [<-|Hne].
      - exists t, s'. auto.
      - rewrite F1 in Hg. destruct (gp_in _ _ G g Hg) as [t1 [s1 [H1 [H2 H3]]]]. exists t1, s1.
        unfold dk. rewrite aget_aset_other by exact Hne. unfold p2. rewrite first_one_other by exact Hne. auto. }
    assert (Hout2 : forall g, ~ In g (p_files p2) -> aget (p_fsm p2) g = None).
    { intros g Hg. rewrite F1 in Hg. assert (f <> g) by (intros <-; contradiction).
      unfold p2. rewrite first_one_other by assumption. apply (gp_out _ _ G). exact Hg. }
    assert (Hsup2 : forall g, In g (p_files p2) -> In g (p_index p2)).
    { intros g. rewrite F1, F2. apply (gp_isup _ _ G). }
    destruct (snd (first_one A fx true dk p f)) eqn:Esnd.
    - (* re-analysed: the third pass runs because f is a known file *)
      assert (Hm : fmem f (p_tincl p) = true) by (rewrite (gp_tincl _ _ G); apply fmem_in; exact Hfin).
      rewrite Hm. cbn [fst snd]. split; [|discriminate].
      intros Hns. apply good_after_third; try assumption.
    - (* unchanged-content shortcut taken *)
      cbn [fst snd]. pose proof (first_one_unchanged dk p f Esnd) as Hp2. fold p2 in Hp2.
      split; [|intros _ g; unfold lru_after; rewrite errs_of_set_lru, Hp2; reflexivity].
      intros _. unfold lru_after. apply good_set_lru. constructor; try assumption.
      + rewrite Hp2. apply (gp_nostale _ _ G).
      + rewrite Hp2. apply (gp_tincl _ _ G).
      + rewrite Hp2. apply (gp_terrs _ _ G).
  Qed.

  Lemma fmem_fadd x f l : fmem x (fadd f l) = (x =? f) || fmem x l.
  Proof.
    destruct (fmem x (fadd f l)) eqn:E.
    - apply fmem_in, fadd_in in E. symmetry. destruct E as [->|E]; [rewrite N.eqb_refl; reflexivity|].
      apply fmem_in in E. rewrite E. apply orb_true_r.
    - symmetry. apply orb_false_iff. apply fmem_false in E. rewrite fadd_in in E. split.
      + apply N.eqb_neq. intros ->. apply E. left. reflexivity.
      + apply fmem_false. intros H. apply E. right. exact H.
  Qed.

  Lemma fmem_frem x f l : fmem x (frem f l) = negb (x =? f) && fmem x l.
  Proof.
    destruct (fmem x (frem f l)) eqn:E.
    - apply fmem_in, frem_in in E. destruct E as [E1 E2]. apply fmem_in in E2. rewrite E2.
      apply N.eqb_neq in E1. rewrite E1. reflexivity.
    - symmetry. apply fmem_false in E. rewrite frem_in in E. destruct (x =? f) eqn:E1; [reflexivity|]. cbn [negb andb].
      apply fmem_false. intros H. apply E. split; [apply N.eqb_neq; exact E1|exact H].
  Qed.

  (* ---------- Created f (watched create): disk f := t ---------- *)
  Lemma empty_hit_created p f t : empty_hit_p A fx (created_proj p f) f t = empty_hit_p A fx p f t.
  Proof. reflexivity. Qed.

  Lemma he_created dk0 p f t :
    good_proj dk0 p -> in_dir A f || fix_outside fx = true -> mem f = true -> empty_hit_p A fx p f t = false ->
    let r := handle_events A fx (aset dk0 f t) p [(f, KCreated)] in
    snd r = true /\ (nostale_p (fst r) \/ idx_sub (fst r) -> good_proj (aset dk0 f t) (fst r)).
  Proof.
    intros G Hsh Hd Hemp. cbn zeta. rewrite (he_created_eq _ _ _ Hsh). cbn [fst snd]. split; [reflexivity|]. intros Hns.
    set (dk := aset dk0 f t) in *. set (p1 := created_proj p f) in *.
    assert (Hdkf : aget dk f = Some t) by (apply aget_aset_same).
    pose proof (first_one_fields true dk p1 f) as Hfld. cbn zeta in Hfld. destruct Hfld as [F1 [F2 [F3 [F4 F5]]]].
    assert (Hidx : forall x, x <> f -> fmem x (p_index p1) = fmem x (p_index p)).
    { intros x Hx. unfold p1, created_proj. cbn [p_index]. rewrite fmem_fadd. apply N.eqb_neq in Hx. rewrite Hx. reflexivity. }
    destruct (first_one_self dk p1 f t Hdkf) as [s' [Hs' Hg']].
    { intros s Hs. unfold p1, created_proj in Hs. cbn [p_fsm] in Hs.
      destruct (in_dec N.eq_dec f (p_files p)) as [Hf|Hf].
      - destruct (gp_in _ _ G f Hf) as [t0 [s0 [_ [Hs0 Hg0]]]]. rewrite Hs in Hs0. injection Hs0 as <-. exists t0.
        apply (good_file_ext (p_index p)); [|exact Hg0]. intros x. unfold p1, created_proj. cbn [p_index]. rewrite fmem_fadd.
        destruct (x =? f) eqn:E; [|reflexivity]. apply N.eqb_eq in E. subst x. cbn [orb]. apply fmem_in. apply (gp_isup _ _ G). exact Hf.
      - rewrite (gp_out _ _ G f Hf) in Hs. discriminate. }
    { exact Hemp. }
    set (p2 := fst (first_one A fx true dk p1 f)) in *.
    set (p3 := lru_after p2 f) in *.
    assert (E3 : p_files p3 = p_files p2 /\ p_index p3 = p_index p2 /\ p_fsm p3 = p_fsm p2) by (cbn; auto).
    destruct E3 as [E3a [E3b E3c]].
    apply good_after_third.
    - cbn [reanalyse_all set_fsm p_files]. rewrite E3a, F1. unfold p1, created_proj. cbn [p_files].
      rewrite (gp_files _ _ G). unfold dk. symmetry. apply dfiles_aset. exact Hd.
    - cbn [reanalyse_all set_fsm p_files p_index]. rewrite E3a, E3b, F1, F2. unfold p1, created_proj. cbn [p_files p_index].
      intros g. rewrite !fadd_in. intros [->|Hg]; [left; reflexivity|right; apply (gp_isup _ _ G); exact Hg].
    - intros g Hg. cbn [reanalyse_all set_fsm p_files] in Hg. rewrite E3a, F1 in Hg. unfold p1, created_proj in Hg. cbn [p_files] in Hg.
      rewrite reanalyse_all_fsm. cbn [reanalyse_all set_fsm p_index]. rewrite E3b, E3c, F2.
      destruct (N.eq_dec f g) as [<-|Hne].
      + exists t, (reanalyse_one A (p_index p1) [f] s'). fold p2. rewrite Hs'. cbn [option_map].
        split; [exact Hdkf|]. split; [reflexivity|].
        apply (reanalyse_good (p_index p1)); [reflexivity|exact Hg'].
      + apply fadd_in in Hg. destruct Hg as [->|Hg]; [contradiction|].
        destruct (gp_in _ _ G g Hg) as [t1 [s1 [H1 [H2 H3]]]].
        exists t1, (reanalyse_one A (p_index p1) [f] s1). unfold p2. rewrite first_one_other by exact Hne.
        unfold p1 at 2, created_proj. cbn [p_fsm]. rewrite H2. cbn [option_map]. split; [|split; [reflexivity|]].
        * unfold dk. rewrite aget_aset_other by exact Hne. exact H1.
        * apply (reanalyse_good (p_index p)); [exact Hidx|exact H3].
    - intros g Hg. cbn [reanalyse_all set_fsm p_files] in Hg. rewrite E3a, F1 in Hg. unfold p1, created_proj in Hg. cbn [p_files] in Hg.
      rewrite fadd_in in Hg. rewrite reanalyse_all_fsm. rewrite E3c.
      assert (Hne : f <> g) by (intros <-; apply Hg; left; reflexivity).
      unfold p2. rewrite first_one_other by exact Hne. unfold p1, created_proj. cbn [p_fsm].
      rewrite (gp_out _ _ G g); [reflexivity|]. intros H. apply Hg. right. exact H.
    - exact Hns.
  Qed.

  (* ---------- Changed f for a file that may be new (didSave of a buffer whose file was deleted; a watcher reporting a new
     file as changed): with the changed-unknown repair it is handled like Created ---------- *)
  Lemma he_changed_new_eq dk p f : fix_changed_unknown fx = true -> fmem f (p_files p) = false ->
    handle_events A fx dk p [(f, KChanged)] = handle_events A fx dk p [(f, KCreated)].
  Proof.
    intros Hfx Hn. unfold handle_events. cbn [fold_left]. unfold classify_one. cbn [fst snd]. unfold eff_kind. cbn [fst snd].
    rewrite Hfx, Hn. reflexivity.
  Qed.

  Lemma he_changed_gen dk0 p f t :
    good_proj dk0 p -> mem f = true -> in_dir A f || fix_outside fx = true ->
    aget dk0 f <> None \/ fix_changed_unknown fx = true -> empty_hit_p A fx p f t = false ->
    let r := handle_events A fx (aset dk0 f t) p [(f, KChanged)] in
    (nostale_p (fst r) \/ idx_sub (fst r) -> good_proj (aset dk0 f t) (fst r)) /\
    (snd r = false -> forall g, errs_of A (fst r) g = errs_of A p g).
  Proof.
    intros G Hd Hsh Hpres Hemp.
    destruct (aget dk0 f) as [t0|] eqn:E0.
    - apply he_changed; try assumption. rewrite E0. discriminate.
    - destruct Hpres as [Hpres|Hfx]; [congruence|].
      assert (Hn : fmem f (p_files p) = false).
      { apply fmem_false. rewrite (gp_files _ _ G). intros Hin. apply dfiles_in in Hin. destruct Hin as [_ Hin]. congruence. }
      cbn zeta. rewrite (he_changed_new_eq _ _ _ Hfx Hn).
      destruct (he_created dk0 p f t G Hsh Hd Hemp) as [H1 H2]. split; [exact H2|]. rewrite H1. discriminate.
  Qed.

  (* ---------- Deleted f (watched delete): disk f removed ---------- *)
  Lemma he_deleted dk0 p f :
    good_proj dk0 p -> in_dir A f || fix_outside fx = true ->
    let r := handle_events A fx (adel dk0 f) p [(f, KDeleted)] in
    snd r = true /\ (nostale_p (fst r) \/ idx_sub (fst r) -> good_proj (adel dk0 f) (fst r)).
  Proof.
    intros G Hd. cbn zeta. rewrite (he_deleted_eq _ _ _ Hd). cbn [fst snd]. split; [reflexivity|]. intros Hns.
    set (p1 := remove_file A fx p f) in *.
    assert (Hidx : forall x, x <> f -> fmem x (p_index p1) = fmem x (p_index p)).
    { intros x Hx. unfold p1, remove_file. cbn [p_index]. destruct (fix_index fx); [|reflexivity].
      rewrite fmem_frem. apply N.eqb_neq in Hx. rewrite Hx. reflexivity. }
    apply good_after_third.
    - cbn [reanalyse_all set_fsm set_lru p_files]. unfold p1, remove_file. cbn [p_files].
      rewrite (gp_files _ _ G). symmetry. apply dfiles_adel.
    - cbn [reanalyse_all set_fsm set_lru p_files p_index]. unfold p1, remove_file. cbn [p_files p_index].
      intros g Hg. apply frem_in in Hg. destruct Hg as [Hne Hg]. apply (gp_isup _ _ G) in Hg.
      destruct (fix_index fx); [apply frem_in; auto|exact Hg].
    - intros g Hg. cbn [reanalyse_all set_fsm set_lru p_files] in Hg. unfold p1, remove_file in Hg. cbn [p_files] in Hg.
      apply frem_in in Hg. destruct Hg as [Hne Hg]. rewrite reanalyse_all_fsm. cbn [set_lru p_fsm p_index reanalyse_all set_fsm].
      destruct (gp_in _ _ G g Hg) as [t1 [s1 [H1 [H2 H3]]]].
      exists t1, (reanalyse_one A (p_index p1) [f] s1). unfold p1 at 2, remove_file. cbn [p_fsm].
      rewrite !aget_adel_other by (intros ->; apply Hne; reflexivity). rewrite H2. cbn [option_map]. split; [|split; [reflexivity|]].
      + exact H1.
      + apply (reanalyse_good (p_index p)); [exact Hidx|exact H3].
    - intros g Hg. cbn [reanalyse_all set_fsm set_lru p_files] in Hg. unfold p1, remove_file in Hg. cbn [p_files] in Hg.
      rewrite frem_in in Hg. rewrite reanalyse_all_fsm. cbn [set_lru p_fsm]. unfold p1, remove_file. cbn [p_fsm].
      destruct (N.eq_dec f g) as [<-|Hne].
      + rewrite aget_adel_same. reflexivity.
      + rewrite aget_adel_other by exact Hne. rewrite (gp_out _ _ G g); [reflexivity|]. intros H. apply Hg. split; [congruence|exact H].
    - exact Hns.
  Qed.

  (* ---------- a server start establishes the characterisation ---------- *)
  Definition first_fold (save : bool) (dk : amap txt) (p : proj A) (l : list file) : proj A :=
    fold_left (fun p f => fst (first_one A fx save dk p f)) l p.

  Lemma first_many_fst save dk l : forall p c,
    fst (fold_left (fun (pc : proj A * bool) f => let '(p', c) := first_one A fx save dk (fst pc) f in (p', snd pc || c)) l (p, c))
    = first_fold save dk p l.
  Proof.
    induction l as [|f l IH]; intros p c; [reflexivity|]. cbn [fold_left first_fold fst snd].
    destruct (first_one A fx save dk p f) as [p' c'] eqn:E. cbn [fst]. rewrite IH. reflexivity.
  Qed.

  Lemma first_fold_init dk idx : forall l p,
    NoDup l -> (forall f, In f l -> aget (p_fsm p) f = None) -> (forall f, In f l -> aget dk f <> None) -> p_index p = idx ->
    let p' := first_fold false dk p l in
    p_files p' = p_files p /\ p_index p' = idx /\
    (forall g, aget (p_fsm p') g =
               if fmem g l then match aget dk g with
                                | Some t => Some {| s_contents := None; s_res := Some (analyse A idx t) |}
                                | None => None
                                end
               else aget (p_fsm p) g).
  Proof.
    induction l as [|f l IH]; intros p Hnd Hnone Hdk Hidx; cbn zeta.
    - cbn. auto.
    - apply NoDup_cons_iff in Hnd as [Hnin Hnd']. cbn [first_fold fold_left].
      assert (Hp1 : fst (first_one A fx false dk p f) =
                    match aget dk f with
                    | Some t => set_fsm A p (aset (p_fsm p) f {| s_contents := None; s_res := Some (analyse A (p_index p) t) |})
                    | None => fst (first_one A fx false dk p f)
                    end).
      { unfold first_one. destruct (aget dk f) as [t|] eqn:Ed; [|reflexivity].
        rewrite (Hnone f (or_introl eq_refl)). reflexivity. }
      destruct (aget dk f) as [t|] eqn:Ed; [|exfalso; exact (Hdk f (or_introl eq_refl) Ed)].
      set (p1 := fst (first_one A fx false dk p f)) in *.
      specialize (IH p1 Hnd').
      assert (H1 : forall g, In g l -> aget (p_fsm p1) g = None).
      { intros g Hg. rewrite Hp1. cbn [set_fsm p_fsm]. rewrite aget_aset_other by (intros ->; contradiction).
        apply Hnone. right. exact Hg. }
      assert (H2 : forall g, In g l -> aget dk g <> None) by (intros g Hg; apply Hdk; right; exact Hg).
      assert (H3 : p_index p1 = idx) by (rewrite Hp1; cbn [set_fsm p_index]; exact Hidx).
      specialize (IH H1 H2 H3). cbn zeta in IH. destruct IH as [I1 [I2 I3]].
      fold (first_fold false dk p1 l). split; [rewrite I1, Hp1; reflexivity|]. split; [exact I2|].
      intros g. rewrite I3. unfold fmem. cbn [existsb]. fold (fmem g l). destruct (g =? f) eqn:E.
      + apply N.eqb_eq in E. subst g. cbn [orb]. apply fmem_false in Hnin. rewrite Hnin.
        rewrite Hp1. cbn [set_fsm p_fsm]. rewrite aget_aset_same, Ed, Hidx. reflexivity.
      + cbn [orb]. destruct (fmem g l); [reflexivity|]. rewrite Hp1. cbn [set_fsm p_fsm].
        apply aget_aset_other. intros ->. rewrite N.eqb_refl in E. discriminate.
  Qed.

  Lemma init_good dk : good_proj dk (start_on A fx mem dk).
  Proof.
    unfold start_on. fold (dfiles dk). set (fl := dfiles dk).
    set (p0 := {| p_files := fl; p_index := fl; p_fsm := []; p_lru := []; p_tincl := []; p_terrs := [] |}).
    unfold first_many. rewrite first_many_fst.
    pose proof (first_fold_init dk fl fl p0 (ssorted_nodup _ (dfiles_sorted dk))) as H. cbn zeta in H.
    destruct H as [H1 [H2 H3]].
    { intros f _. reflexivity. }
    { intros f Hf. apply dfiles_in in Hf. tauto. }
    { reflexivity. }
    set (p1 := first_fold false dk p0 fl) in *.
    apply good_after_third.
    - rewrite H1. reflexivity.
    - intros f. rewrite H1, H2. cbn [p0 p_files]. auto.
    - intros f Hf. rewrite H1 in Hf. cbn [p0 p_files] in Hf. pose proof Hf as Hf'. apply dfiles_in in Hf'. destruct Hf' as [_ Hd].
      destruct (aget dk f) as [t|] eqn:Ed; [|congruence]. exists t. eexists. split; [reflexivity|]. rewrite H3.
      apply fmem_in in Hf. fold fl. rewrite Hf, Ed. split; [reflexivity|]. rewrite H2.
      split; [|left; reflexivity]. eexists. split; [reflexivity|]. unfold analyse. cbn. auto.
    - intros f Hf. rewrite H1 in Hf. cbn [p0 p_files] in Hf. rewrite H3. apply fmem_false in Hf. rewrite Hf. reflexivity.
    - left. intros f r t Hf Hr Hin. rewrite H1 in *. cbn [p0 p_files] in *. unfold res_of in Hr. rewrite H3 in Hr.
      pose proof Hf as Hf'. apply fmem_in in Hf'. rewrite Hf' in Hr. destruct (aget dk f) as [t0|]; [|discriminate].
      cbn [s_res] in Hr. injection Hr as <-. unfold analyse in Hin. cbn [r_refs] in Hin. apply in_refs_of in Hin.
      apply fmem_in. tauto.
  Qed.

  (* hence: any project satisfying the characterisation of disk dk shows, per file, a permutation of what a fresh start shows *)
  Lemma good_fresh dk p f : good_proj dk p -> Permutation (errs_of A p f) (errs_of A (start_on A fx mem dk) f).
  Proof. intros G. apply (good_unique dk); [exact G|apply init_good]. Qed.
End Refine.

(* ---------- changing the membership predicate / the disk without changing what the project sees ---------- *)
Lemma dfiles_ext (A : analysis) (mem mem' : file -> bool) (dk dk' : amap (text A)) :
  (forall f, (mem f = true /\ aget dk f <> None) <-> (mem' f = true /\ aget dk' f <> None)) ->
  dfiles A mem dk = dfiles A mem' dk'.
Proof.
  intros H. apply sorted_ext; [apply dfiles_sorted|apply dfiles_sorted|]. intros x. rewrite !dfiles_in. apply H.
Qed.

Lemma good_proj_transport (A : analysis) (mem mem' : file -> bool) (dk dk' : amap (text A)) (p : proj A) :
  good_proj A mem dk p -> dfiles A mem dk = dfiles A mem' dk' ->
  (forall f, In f (dfiles A mem dk) -> aget dk' f = aget dk f) ->
  good_proj A mem' dk' p.
Proof.
  intros G Hf Hd. destruct G as [G1 G2 G3 G4 G5 G6 G7]. constructor; try assumption.
  - rewrite G1. exact Hf.
  - intros f Hin. destruct (G3 f Hin) as [t [s0 [H1 H2]]]. exists t, s0. split; [|exact H2].
    rewrite Hd; [exact H1|]. rewrite <- G1. exact Hin.
Qed.

Lemma good_proj_mem_ext (A : analysis) (mem mem' : file -> bool) (dk : amap (text A)) (p : proj A) :
  (forall f, mem f = mem' f) -> good_proj A mem dk p -> good_proj A mem' dk p.
Proof.
  intros H G. apply (good_proj_transport A mem mem' dk dk p G); [|reflexivity].
  apply dfiles_ext. intros f. rewrite H. tauto.
Qed.

Lemma first_one_ext (A : analysis) fx save (dk dk' : amap (text A)) (p : proj A) f :
  aget dk f = aget dk' f -> first_one A fx save dk p f = first_one A fx save dk' p f.
Proof. intros H. unfold first_one. rewrite H. reflexivity. Qed.
