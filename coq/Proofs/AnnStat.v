(* C16 round trip for whole annotation statements: parsing the line of a documented statement (printed by either
   printer, `nested`) gives back exactly embed_stat nested (incl. the trailing comment, verbatim). *)
From Coq Require Import String Ascii List Arith NArith Bool Lia ZifyN ZifyNat ZifyBool.
From LH Require Import Base.Bytes Base.Res Model.AnnLexer Model.AnnAst Model.AnnParser Spec.AnnGrammar
  Proofs.AnnLexFacts Proofs.AnnRoundtrip.
Import ListNotations.
Local Open Scope nat_scope.

Section Stat.
Variable nested : bool.
Notation shw := (show_bare nested).
Notation show_line := (show_stat nested).

(* ------------------------------------------------------------------ the first token of a type *)
Definition type_start (k : akind) : Prop :=
  k = KIdent \/ k = KVararg \/ k = KString \/ k = KLparen \/ k = KTable \/ k = KFun.

Lemma lex_const s q rest : doc_type (DConst s q) = true ->
  exists x, lex_token (show_const s q ++ rest) = Ok (mkTok KString x, rest).
Proof.
  cbn [doc_type]. intros Hd. apply andb_true_iff in Hd as [Hnq Hq]. unfold show_const. destruct q.
  - exists (34%N :: s ++ [34%N]).
    replace (([39; 34]%N ++ s ++ [34; 39]%N) ++ rest) with (39%N :: (34%N :: s ++ [34%N]) ++ 39%N :: rest)
      by (cbn [app]; rewrite <- !app_assoc; reflexivity).
    apply lex_string; [reflexivity|]. cbn [forallb app]. rewrite forallb_app. cbn [forallb].
    rewrite (no_quote_no 39%N s (or_introl eq_refl) Hnq). reflexivity.
  - exists s.
    replace (([39%N] ++ s ++ [39%N]) ++ rest) with (39%N :: s ++ 39%N :: rest)
      by (cbn [app]; rewrite <- !app_assoc; reflexivity).
    apply lex_string; [reflexivity|]. apply no_quote_no; [left; reflexivity | exact Hnq].
Qed.

Lemma first_token : forall n t, tsize t <= n -> doc_type t = true ->
  forall rest, stop rest = true ->
  exists tk c, lex_token (shw t ++ rest) = Ok (tk, c) /\ type_start (tkind tk).
Proof.
  induction n as [|n IH]; intros t Hs Hd rest Hstop; [pose proof (tsize_pos t); lia|].
  destruct t as [nm|s q|i| |k v|ps rs|ts]; cbn [show_bare].
  - cbn [doc_type] in Hd. destruct (lex_type_name nm rest Hd Hstop) as (k & Hk & Hcase).
    eexists. eexists. split; [exact Hk|]. unfold type_start. cbn [tkind]. destruct Hcase as [->|[-> _]]; tauto.
  - destruct (lex_const s q rest Hd) as [x Hx]. eexists. eexists. split; [exact Hx|]. unfold type_start. cbn. tauto.
  - cbn [tsize doc_type] in Hs, Hd. rewrite <- app_assoc.
    destruct (item_paren nested i); cbn [paren].
    + cbn [app]. eexists. eexists. split; [apply lex_lparen|]. unfold type_start. cbn. tauto.
    + assert (Hi : tsize i <= n) by lia. apply (IH i Hi Hd). reflexivity.
  - eexists. eexists. split; [apply lex_kw_table; exact Hstop|]. unfold type_start. cbn. tauto.
  - rewrite <- !app_assoc. eexists. eexists. split; [apply (lex_kw_table (60%N :: _)); reflexivity|].
    unfold type_start. cbn. tauto.
  - rewrite <- !app_assoc. eexists. eexists. split; [apply lex_kw_fun|]. unfold type_start. cbn. tauto.
  - cbn [tsize doc_type] in Hs, Hd. apply andb_true_iff in Hd as [Hlen Hdt]. apply Nat.leb_le in Hlen.
    destruct ts as [|m [|m2 ts]]; cbn [length] in Hlen; try lia.
    cbn [map]. rewrite join_cons2. rewrite <- !app_assoc.
    destruct (member_paren m); cbn [paren].
    + cbn [app]. eexists. eexists. split; [apply lex_lparen|]. unfold type_start. cbn. tauto.
    + cbn [forallb] in Hdt. apply andb_true_iff in Hdt as [Hdm _].
      change (list_sum (map tsize (m :: m2 :: ts))) with (tsize m + list_sum (map tsize (m2 :: ts))) in Hs.
      assert (Hm : tsize m <= n) by lia. apply (IH m Hm Hdm). reflexivity.
Qed.

Lemma first_token_bare t rest : doc_type t = true -> stop rest = true ->
  exists tk c, lex_token (shw t ++ rest) = Ok (tk, c) /\ type_start (tkind tk).
Proof. intros. eapply first_token; eauto. Qed.

Lemma first_token_sub t rest : doc_type t = true -> stop rest = true ->
  exists tk c, lex_token (show_sub nested t ++ rest) = Ok (tk, c) /\ type_start (tkind tk).
Proof.
  intros Hd Hs. unfold show_sub. destruct (sub_paren t); cbn [paren].
  - cbn [app]. eexists. eexists. split; [apply lex_lparen|]. unfold type_start. cbn. tauto.
  - apply first_token_bare; assumption.
Qed.

(* ------------------------------------------------------------------ the trailing comment *)
Lemma comment_fol c :
  exists tk rest', Fol (show_comment c) tk rest' /\ (tkind tk = KEOF \/ tkind tk = KAt) /\
                   get_comment (StA rest' tk) = comment_of c.
Proof.
  destruct c as [x|]; cbn [show_comment comment_of].
  - exists (mkTok KAt [64%N]), x. split; [split; reflexivity|]. split; [right; reflexivity|]. reflexivity.
  - exists (mkTok KEOF s_EOF), []. split; [split; reflexivity|]. split; [left; reflexivity|]. reflexivity.
Qed.

Lemma tail_kind_facts k : (k = KEOF \/ k = KAt) ->
  ok_follow k /\ k <> KColon /\ k <> KComma /\ k <> KOption /\ (forall t, cond_prim t k).
Proof.
  intros [-> | ->]; (split; [repeat split; discriminate|]); repeat split; try discriminate;
    intros _; repeat split; discriminate.
Qed.

(* a type in a "last" position (bare text) followed by the comment *)
Lemma one_type_last t c f l :
  doc_type t = true -> At (shw t ++ show_comment c) l -> 2 * length (shw t) + 18 <= f ->
  exists tk rest', parse_one_type f l = POk (embed_one nested t) (StA rest' tk) /\
                   (tkind tk = KEOF \/ tkind tk = KAt) /\ get_comment (StA rest' tk) = comment_of c.
Proof.
  intros Hd Hat Hf. destruct (comment_fol c) as (tk & rest' & Hfol & Hk & Hc).
  exists tk, rest'. split; [|split; assumption].
  destruct (tail_kind_facts _ Hk) as ((K1 & K2 & K3) & _ & _ & _ & Hcp).
  apply (claimC_all nested t Hd f l (show_comment c) tk rest' Hat Hfol (Hcp t) K1 K2 Hf).
Qed.

(* ------------------------------------------------------------------ statement keywords *)
Ltac kw_lex b r := intros; apply (lex_word b r (32%N :: _)); reflexivity.
Lemma lex_k_type c : lex_token (k_type ++ c) = Ok (mkTok KType [116; 121; 112; 101]%N, 32%N :: c).
Proof. kw_lex 116%N [121; 112; 101]%N. Qed.
Lemma lex_k_alias c : lex_token (k_alias ++ c) = Ok (mkTok KAlias [97; 108; 105; 97; 115]%N, 32%N :: c).
Proof. kw_lex 97%N [108; 105; 97; 115]%N. Qed.
Lemma lex_k_class c : lex_token (k_class ++ c) = Ok (mkTok KClass [99; 108; 97; 115; 115]%N, 32%N :: c).
Proof. kw_lex 99%N [108; 97; 115; 115]%N. Qed.
Lemma lex_k_overload c :
  lex_token (k_overload ++ c) = Ok (mkTok KOverload [111; 118; 101; 114; 108; 111; 97; 100]%N, 32%N :: c).
Proof. kw_lex 111%N [118; 101; 114; 108; 111; 97; 100]%N. Qed.
Lemma lex_k_field c : lex_token (k_field ++ c) = Ok (mkTok KField [102; 105; 101; 108; 100]%N, 32%N :: c).
Proof. kw_lex 102%N [105; 101; 108; 100]%N. Qed.
Lemma lex_k_param c : lex_token (k_param ++ c) = Ok (mkTok KParam [112; 97; 114; 97; 109]%N, 32%N :: c).
Proof. kw_lex 112%N [97; 114; 97; 109]%N. Qed.
Lemma lex_k_return c : lex_token (k_return ++ c) = Ok (mkTok KReturn [114; 101; 116; 117; 114; 110]%N, 32%N :: c).
Proof. kw_lex 114%N [101; 116; 117; 114; 110]%N. Qed.
Lemma lex_k_generic c :
  lex_token (k_generic ++ c) = Ok (mkTok KGeneric [103; 101; 110; 101; 114; 105; 99]%N, 32%N :: c).
Proof. kw_lex 103%N [101; 110; 101; 114; 105; 99]%N. Qed.
Lemma lex_k_vararg c : lex_token (k_vararg ++ c) = Ok (mkTok KVarargKw [118; 97; 114; 97; 114; 103]%N, 32%N :: c).
Proof. kw_lex 118%N [97; 114; 97; 114; 103]%N. Qed.
Lemma lex_k_const c : lex_token (k_const ++ c) = Ok (mkTok KConst [99; 111; 110; 115; 116]%N, 32%N :: c).
Proof. kw_lex 99%N [111; 110; 115; 116]%N. Qed.
Lemma lex_k_enum c : lex_token (k_enum ++ c) = Ok (mkTok KEnum [101; 110; 117; 109]%N, 32%N :: c).
Proof. kw_lex 101%N [110; 117; 109]%N. Qed.

(* running a statement parser = ParserLine on the text *)
Lemma run_line fuel line s l' :
  parse_one_state fuel (St line) = POk s l' -> ann_parse_line fuel line = Ok (inl s).
Proof. unfold ann_parse_line. intros ->. reflexivity. Qed.

(* ------------------------------------------------------------------ helpers *)
Lemma lak_At text l tk c :
  At text l -> lex_token text = Ok (tk, c) ->
  look_ahead_kind l = POk (tkind tk) (StA c tk) /\ At text (StA c tk).
Proof.
  intros Hat Hlex. split.
  - apply lak_of. eapply At_la; eassumption.
  - eapply la_At; [apply la_StA | exact Hlex].
Qed.

Lemma stop_comment c : stop (show_comment c) = true.
Proof. destruct c; reflexivity. Qed.

Lemma type_start_neq k : type_start k ->
  k <> KEOF /\ k <> KAt /\ k <> KColon /\ k <> KOption /\ k <> KConst /\ k <> KEnum /\ k <> KComma.
Proof. intros [->|[->|[->|[->|[->| ->]]]]]; repeat split; discriminate. Qed.

Lemma fuel_of_app a b : fuel_of (a ++ b) = 6 * length a + fuel_of b.
Proof. unfold fuel_of. rewrite app_length. lia. Qed.

Lemma fuel_of_ge b : 24 <= fuel_of b.
Proof. unfold fuel_of. lia. Qed.

Lemma fuel_of_len b : 6 * length b + 24 = fuel_of b.
Proof. reflexivity. Qed.

(* parserOneType at a last position, from a state positioned before a blank *)
Lemma one_type_last_sp t c f :
  doc_type t = true -> 2 * length (shw t) + 18 <= f ->
  exists tk rest', parse_one_type f (St (32%N :: shw t ++ show_comment c)) = POk (embed_one nested t) (StA rest' tk) /\
                   (tkind tk = KEOF \/ tkind tk = KAt) /\ get_comment (StA rest' tk) = comment_of c.
Proof. intros Hd Hf. apply one_type_last; [exact Hd | apply At_sp | exact Hf]. Qed.

(* ------------------------------------------------------------------ vararg *)
Lemma stat_vararg t c : doc_type t = true ->
  exists l', parse_one_state (fuel_of (show_line (DSVararg t c))) (St (show_line (DSVararg t c)))
             = POk (embed_stat nested (DSVararg t c)) l'.
Proof.
  intros Hd. unfold show_line. cbn [show_stat embed_stat].
  set (fuel := fuel_of _).
  assert (Hfuel : 2 * length (shw t) + 18 <= fuel).
  { subst fuel. rewrite !fuel_of_app. pose proof (fuel_of_ge (show_comment c)). lia. }
  unfold parse_one_state. rewrite (lak_St _ _ _ (lex_k_vararg _)). cbn [pbind tkind].
  unfold parse_vararg_state. rewrite nok_StA by reflexivity. cbn [pbind].
  destruct (one_type_last_sp t c fuel Hd Hfuel) as (tk & rest' & -> & _ & Hc). cbn [pbind].
  rewrite Hc. eexists. reflexivity.
Qed.

(* ------------------------------------------------------------------ alias *)
Lemma stat_alias n t c : doc_stat (DSAlias n t c) = true ->
  exists l', parse_one_state (fuel_of (show_line (DSAlias n t c))) (St (show_line (DSAlias n t c)))
             = POk (embed_stat nested (DSAlias n t c)) l'.
Proof.
  cbn [doc_stat]. intros Hd. apply andb_true_iff in Hd as [Hn Hd].
  cbn [show_stat embed_stat].
  set (fuel := fuel_of _).
  assert (Hfuel : 2 * length (shw t) + 18 <= fuel).
  { subst fuel. rewrite !fuel_of_app. pose proof (fuel_of_ge (show_comment c)). lia. }
  unfold parse_one_state. rewrite (lak_St _ _ _ (lex_k_alias _)). cbn [pbind tkind].
  unfold parse_alias_state. rewrite nok_StA by reflexivity. cbn [pbind].
  assert (Hname : lex_token (32%N :: n ++ [32%N] ++ shw t ++ show_comment c)
                  = Ok (mkTok KIdent n, [32%N] ++ shw t ++ show_comment c)).
  { rewrite lex_token_sp. apply lex_plain_name; [exact Hn | reflexivity]. }
  rewrite (nok_St _ _ _ _ Hname) by reflexivity. cbn [pbind tstr].
  destruct (first_token_bare t (show_comment c) Hd (stop_comment c)) as (tk1 & c1 & Hlex1 & Hts).
  destruct (type_start_neq _ Hts) as (E1 & E2 & _).
  cbn [app]. destruct (lak_At _ _ _ _ (At_sp _) Hlex1) as [-> Hat1]. cbn [pbind].
  rewrite (kind_neq_false _ _ E1), (kind_neq_false _ _ E2).
  destruct (one_type_last t c fuel _ Hd Hat1 Hfuel) as (tk & rest' & -> & _ & Hc). cbn [pbind].
  rewrite Hc. eexists. reflexivity.
Qed.

(* ------------------------------------------------------------------ names that may be keywords *)
Lemma kw_lookup_inv s k : kw_lookup s = Some k -> In (s, k) keyword_bytes.
Proof. apply assoc_bytes_in. Qed.

Ltac kw_cases H :=
  apply kw_lookup_inv in H; unfold keyword_bytes in H;
  repeat (destruct H as [H|H]; [inversion H; subst; clear H|]); try (destruct H).

Lemma kw_const s : kw_lookup s = Some KConst -> s = s_const.
Proof. intros H. kw_cases H. reflexivity. Qed.

Lemma kw_scope s k : kw_lookup s = Some k -> (k = KPublic \/ k = KProtected \/ k = KPrivate) -> is_scope_word s = true.
Proof. intros H Hk. kw_cases H; try reflexivity; destruct Hk as [Hk|[Hk|Hk]]; discriminate Hk. Qed.

(* the token a name is lexed as *)
Lemma lex_name n X : ident_shape n = true -> stop X = true ->
  lex_token (n ++ X) = Ok (mkTok (match kw_lookup n with Some k => k | None => KIdent end) n, X).
Proof.
  intros Hn HX. destruct (ident_shape_inv _ Hn) as (b & r & -> & Hb & Hr). apply lex_word; assumption.
Qed.

Lemma nfn_word n X l :
  ident_shape n = true -> stop X = true -> At (n ++ X) l -> next_field_name l = POk n (St X).
Proof.
  intros Hn HX Hat. pose proof (At_la _ _ _ _ Hat (lex_name n X Hn HX)) as Hl.
  unfold next_field_name. rewrite (ntp_of _ _ _ Hl). cbn [pbind tkind tstr].
  destruct (kw_lookup n) as [k|] eqn:Ek; [|reflexivity].
  destruct (kind_eqb k KIdent); [reflexivity|].
  unfold keyword_name. cbn [tstr tkind]. rewrite Ek, kind_eqb_refl. reflexivity.
Qed.

Lemma lex_param_name n X : param_name_ok n = true -> stop X = true ->
  exists k, lex_token (n ++ X) = Ok (mkTok k n, X) /\
            (k = KIdent \/ k = KVararg \/ kw_lookup n = Some k).
Proof.
  intros Hn HX. unfold param_name_ok in Hn. apply orb_true_iff in Hn as [Hn|Hn].
  - rewrite (lex_name n X Hn HX). eexists. split; [reflexivity|].
    destruct (kw_lookup n); [right; right; reflexivity | left; reflexivity].
  - apply beq_bytes_eq in Hn. subst n. exists KVararg. split; [apply lex_dots | right; left; reflexivity].
Qed.

(* ------------------------------------------------------------------ param *)
Lemma stat_param isc n opt t c : doc_stat (DSParam isc n opt t c) = true ->
  exists l', parse_one_state (fuel_of (show_line (DSParam isc n opt t c))) (St (show_line (DSParam isc n opt t c)))
             = POk (embed_stat nested (DSParam isc n opt t c)) l'.
Proof.
  cbn [doc_stat]. intros Hd. apply andb_true_iff in Hd as [Hd Hdt]. apply andb_true_iff in Hd as [Hn Hc0].
  cbn [show_stat embed_stat].
  set (fuel := fuel_of _).
  assert (Hfuel : 2 * length (shw t) + 18 <= fuel).
  { subst fuel. rewrite !fuel_of_app. pose proof (fuel_of_ge (show_comment c)). lia. }
  unfold parse_one_state. rewrite (lak_St _ _ _ (lex_k_param _)). cbn [pbind tkind].
  unfold parse_param_state. rewrite nok_StA by reflexivity. cbn [pbind].
  set (X := (if opt then [63%N; 32%N] else [32%N]) ++ shw t ++ show_comment c).
  assert (HX : stop X = true) by (subst X; destruct opt; reflexivity).
  (* everything after the optional const *)
  assert (Htail : forall isc0 l0, At (n ++ X) l0 ->
            exists l',
              (let* (name, l) := next_param_name l0 in
               let* (k, l) := look_ahead_kind l in
               let* (opt0, l) := (if kind_eqb k KOption
                                  then let* (_, l) := next_token_p l in POk true l else POk false l) in
               let* (t0, l) := parse_one_type fuel l in
               POk (SParam isc0 opt0 name t0 (get_comment l)) l)
              = POk (SParam isc0 opt n (embed_one nested t) (comment_of c)) l').
  { intros isc0 l0 Hat0. rewrite (npn_word n X l0 Hn HX Hat0). cbn [pbind]. subst X.
    destruct opt; cbn [app].
    - rewrite (lak_St _ _ _ (lex_option _)). cbn [pbind tkind]. kcomp. rewrite ntp_StA. cbn [pbind].
      destruct (one_type_last_sp t c fuel Hdt Hfuel) as (tk & rest' & -> & _ & Hc). cbn [pbind].
      rewrite Hc. eexists. reflexivity.
    - destruct (first_token_bare t (show_comment c) Hdt (stop_comment c)) as (tk1 & c1 & Hlex1 & Hts).
      destruct (type_start_neq _ Hts) as (_ & _ & _ & E4 & _).
      destruct (lak_At _ _ _ _ (At_sp _) Hlex1) as [-> Hat1]. cbn [pbind]. rewrite (kind_neq_false _ _ E4).
      cbn [pbind].
      destruct (one_type_last t c fuel _ Hdt Hat1 Hfuel) as (tk & rest' & -> & _ & Hc). cbn [pbind].
      rewrite Hc. eexists. reflexivity. }
  destruct (lex_param_name n X Hn HX) as (k & Hk & Hkc).
  destruct isc; cbn [app].
  - assert (H1 : lex_token (32%N :: k_const ++ n ++ X) = Ok (mkTok KConst [99; 111; 110; 115; 116]%N, 32%N :: n ++ X))
      by (rewrite lex_token_sp; apply lex_k_const).
    rewrite (lak_St _ _ _ H1). cbn [pbind tkind]. kcomp. rewrite nok_StA by reflexivity. cbn [pbind].
    apply Htail. apply At_sp.
  - assert (H1 : lex_token (32%N :: n ++ X) = Ok (mkTok k n, X)) by (rewrite lex_token_sp; exact Hk).
    rewrite (lak_St _ _ _ H1). cbn [pbind tkind].
    assert (Hnc : kind_eqb k KConst = false).
    { apply kind_neq_false. intros ->. cbn [orb] in Hc0. apply negb_true_iff in Hc0.
      destruct Hkc as [Hk1|[Hk1|Hk1]]; try discriminate Hk1.
      apply kw_const in Hk1. subst n. discriminate Hc0. }
    rewrite Hnc. cbn [pbind].
    apply Htail. eapply la_At; [apply la_StA | exact Hk].
Qed.

(* ------------------------------------------------------------------ field *)
Lemma lex_scope_word k X : (k <=? 2)%N = true ->
  exists kd s, lex_token (32%N :: show_scope (Some k) ++ X) = Ok (mkTok kd s, 32%N :: X) /\
               (kind_eqb kd KPublic || kind_eqb kd KProtected || kind_eqb kd KPrivate) = true /\
               (if kind_eqb kd KProtected then 1%N else if kind_eqb kd KPrivate then 2%N else 0%N) = k.
Proof.
  intros Hk. rewrite lex_token_sp. unfold show_scope.
  assert (Hc : k = 0%N \/ k = 1%N \/ k = 2%N) by lia.
  destruct Hc as [->|[->| ->]]; cbn [N.eqb Pos.eqb]; rewrite <- app_assoc.
  - exists KPublic. eexists. split; [apply (lex_word 112%N [117; 98; 108; 105; 99]%N (32%N :: X)); reflexivity|].
    split; reflexivity.
  - exists KProtected. eexists.
    split; [apply (lex_word 112%N [114; 111; 116; 101; 99; 116; 101; 100]%N (32%N :: X)); reflexivity|].
    split; reflexivity.
  - exists KPrivate. eexists.
    split; [apply (lex_word 112%N [114; 105; 118; 97; 116; 101]%N (32%N :: X)); reflexivity|].
    split; reflexivity.
Qed.

Lemma stat_field sc colon n t c : doc_stat (DSField sc colon n t c) = true ->
  exists l', parse_one_state (fuel_of (show_line (DSField sc colon n t c))) (St (show_line (DSField sc colon n t c)))
             = POk (embed_stat nested (DSField sc colon n t c)) l'.
Proof.
  cbn [doc_stat]. intros Hd. apply andb_true_iff in Hd as [Hd Hsc]. apply andb_true_iff in Hd as [Hn Hdt].
  cbn [show_stat embed_stat].
  set (fuel := fuel_of _).
  assert (Hfuel : 2 * length (shw t) + 18 <= fuel).
  { subst fuel. rewrite !fuel_of_app. pose proof (fuel_of_ge (show_comment c)). lia. }
  unfold parse_one_state. rewrite (lak_St _ _ _ (lex_k_field _)). cbn [pbind tkind].
  unfold parse_field_state. rewrite nok_StA by reflexivity. cbn [pbind].
  set (X := (if colon then k_sp_colon_sp else [32%N]) ++ shw t ++ show_comment c).
  assert (HX : stop X = true) by (subst X; destruct colon; reflexivity).
  assert (Htail : forall sc0 l0, At (n ++ X) l0 ->
            exists l',
              (let* (name, l) := next_field_name l0 in
               let* (k, l) := look_ahead_kind l in
               let* (colon0, l) := (if kind_eqb k KColon
                                    then let* (_, l) := next_token_p l in POk 1%N l else POk 0%N l) in
               let* (t0, l) := parse_one_type fuel l in
               POk (SField sc0 colon0 name t0 (get_comment l)) l)
              = POk (SField sc0 (if colon then 1%N else 0%N) n (embed_one nested t) (comment_of c)) l').
  { intros sc0 l0 Hat0. rewrite (nfn_word n X l0 Hn HX Hat0). cbn [pbind]. subst X.
    destruct colon; cbn [app].
    - unfold k_sp_colon_sp. cbn [app].
      assert (H1 : lex_token (32%N :: 58%N :: 32%N :: shw t ++ show_comment c)
                   = Ok (mkTok KColon [58%N], 32%N :: shw t ++ show_comment c))
        by (rewrite lex_token_sp; apply lex_colon).
      rewrite (lak_St _ _ _ H1). cbn [pbind tkind]. kcomp. rewrite ntp_StA. cbn [pbind].
      destruct (one_type_last_sp t c fuel Hdt Hfuel) as (tk & rest' & -> & _ & Hc). cbn [pbind].
      rewrite Hc. eexists. reflexivity.
    - destruct (first_token_bare t (show_comment c) Hdt (stop_comment c)) as (tk1 & c1 & Hlex1 & Hts).
      destruct (type_start_neq _ Hts) as (_ & _ & E3 & _).
      destruct (lak_At _ _ _ _ (At_sp _) Hlex1) as [-> Hat1]. cbn [pbind]. rewrite (kind_neq_false _ _ E3).
      cbn [pbind].
      destruct (one_type_last t c fuel _ Hdt Hat1 Hfuel) as (tk & rest' & -> & _ & Hc). cbn [pbind].
      rewrite Hc. eexists. reflexivity. }
  destruct sc as [k|].
  - destruct (lex_scope_word k (n ++ X) Hsc) as (kd & s & Hlex & Hkd & Hval).
    rewrite (lak_St _ _ _ Hlex). cbn [pbind tkind]. rewrite Hkd. rewrite ntp_StA. cbn [pbind]. rewrite Hval.
    apply Htail. apply At_sp.
  - cbn [show_scope app].
    assert (H1 : lex_token (32%N :: n ++ X)
                 = Ok (mkTok (match kw_lookup n with Some k => k | None => KIdent end) n, X))
      by (rewrite lex_token_sp; apply lex_name; assumption).
    rewrite (lak_St _ _ _ H1). cbn [pbind tkind].
    assert (Hns : forall kd, kd = KPublic \/ kd = KProtected \/ kd = KPrivate ->
                             kind_eqb (match kw_lookup n with Some k => k | None => KIdent end) kd = false).
    { intros kd Hkd. apply kind_neq_false. intros E. destruct (kw_lookup n) as [k|] eqn:Ek.
      - subst k. rewrite (kw_scope n kd Ek Hkd) in Hsc. discriminate Hsc.
      - destruct Hkd as [->|[->| ->]]; discriminate E. }
    rewrite (Hns KPublic), (Hns KProtected), (Hns KPrivate) by tauto. cbn [orb pbind].
    apply Htail. eapply la_At; [apply la_StA | apply lex_name; assumption].
Qed.

(* ------------------------------------------------------------------ overload *)
Lemma doc_fun_claims ps rs : doc_type (DFun ps rs) = true -> Forall (PClaim nested) ps /\ Forall (ClaimC nested) rs.
Proof.
  cbn [doc_type]. intros Hd. apply andb_true_iff in Hd as [Hdp Hdr]. split.
  - apply Forall_forall. intros [[pn po] pot] Hin. rewrite forallb_forall in Hdp. specialize (Hdp _ Hin).
    cbn [doc_param] in Hdp. apply andb_true_iff in Hdp as [Hpn Hpt]. split; [exact Hpn|].
    destruct pot as [pt|]; [apply claimC_all; exact Hpt | exact I].
  - apply Forall_forall. intros r Hin. rewrite forallb_forall in Hdr. apply claimC_all. apply Hdr. exact Hin.
Qed.

Lemma stat_overload ps rs c : doc_stat (DSOverload ps rs c) = true ->
  exists l', parse_one_state (fuel_of (show_line (DSOverload ps rs c))) (St (show_line (DSOverload ps rs c)))
             = POk (embed_stat nested (DSOverload ps rs c)) l'.
Proof.
  cbn [doc_stat]. intros Hd. destruct (doc_fun_claims ps rs Hd) as [HP HR].
  cbn [show_stat embed_stat].
  set (fuel := fuel_of _).
  assert (Hfuel : 2 * length (shw (DFun ps rs)) + 12 <= fuel).
  { subst fuel. rewrite !fuel_of_app. pose proof (fuel_of_ge (show_comment c)). lia. }
  unfold parse_one_state. rewrite (lak_St _ _ _ (lex_k_overload _)). cbn [pbind tkind].
  unfold parse_overload_state. rewrite nok_StA by reflexivity. cbn [pbind].
  destruct (comment_fol c) as (tk & rest' & Hfol & Hk & Hc).
  destruct (tail_kind_facts _ Hk) as ((K1 & K2 & K3) & Kc & Kcm & _ & _).
  rewrite (fun_type_rt nested ps rs HP HR fuel _ (show_comment c) tk rest' (At_sp _) Hfol K3 Kc Kcm K2 K1 Hfuel).
  cbn [pbind]. rewrite Hc. eexists. reflexivity.
Qed.

(* ------------------------------------------------------------------ enum (with any trailing comment) *)
Lemma stat_enum st c :
  exists l', parse_one_state (fuel_of (show_line (DSEnum st c))) (St (show_line (DSEnum st c)))
             = POk (embed_stat nested (DSEnum st c)) l'.
Proof.
  cbn [show_stat embed_stat]. set (fuel := fuel_of _).
  destruct (comment_fol c) as (tk & rest' & [Hlex Hstop] & _ & Hc).
  set (w := if st then s_start else s_end).
  assert (Htxt : (if st then k_enum_start else k_enum_end) ++ show_comment c = k_enum ++ w ++ show_comment c)
    by (subst w; destruct st; reflexivity).
  rewrite Htxt.
  unfold parse_one_state. rewrite (lak_St _ _ _ (lex_k_enum _)). cbn [pbind tkind].
  unfold parse_enum_state. rewrite nok_StA by reflexivity. cbn [pbind].
  assert (Hw : lex_token (32%N :: w ++ show_comment c) = Ok (mkTok KIdent w, show_comment c)).
  { rewrite lex_token_sp. apply lex_plain_name; [subst w; destruct st; reflexivity | apply stop_comment]. }
  rewrite (lak_St _ _ _ Hw). cbn [pbind tkind]. kcomp.
  rewrite nti_StA by reflexivity. cbn [pbind tstr].
  assert (Hsel : (beq_bytes w s_start || beq_bytes w s_end = true) /\
                 (if beq_bytes w s_start then 1%N else 2%N) = (if st then 1%N else 2%N))
    by (subst w; destruct st; split; reflexivity).
  destruct Hsel as [-> ->].
  rewrite (lak_St _ _ _ Hlex). cbn [pbind]. rewrite Hc. eexists. reflexivity.
Qed.

(* ------------------------------------------------------------------ class *)
Lemma lex_sp_colon X : lex_token (k_sp_colon_sp ++ X) = Ok (mkTok KColon [58%N], 32%N :: X).
Proof. reflexivity. Qed.

Lemma class_loop ps cname c : ps <> [] ->
  Forall (fun p => ident_shape p = true /\ beq_bytes p cname = false) ps ->
  forall f acc l,
    At (join t_comma ps ++ show_comment c) l -> length ps + 1 <= f ->
    exists tk rest', class_parents_loop f cname acc l = POk (acc ++ ps) (StA rest' tk) /\
                     get_comment (StA rest' tk) = comment_of c.
Proof.
  induction ps as [|p ps IH]; [congruence|]. intros _ HF f acc l Hat Hf.
  inversion HF as [|? ? [Hp Hne] HF']; subst.
  destruct f as [|f]; [cbn in Hf; lia|]. cbn [class_parents_loop].
  destruct ps as [|p2 ps].
  - cbn [join] in Hat. rewrite (nfn_word p _ l Hp (stop_comment c) Hat). cbn [pbind]. rewrite Hne.
    destruct (comment_fol c) as (tk & rest' & [Hlex Hstop] & Hk & Hc).
    destruct (tail_kind_facts _ Hk) as (_ & _ & Kcm & _).
    rewrite (lak_St _ _ _ Hlex). cbn [pbind]. rewrite (kind_neq_false _ _ Kcm).
    exists tk, rest'. split; [reflexivity | exact Hc].
  - rewrite join_cons2 in Hat. rewrite <- !app_assoc in Hat.
    pose proof (fun HX => nfn_word p _ l Hp HX Hat) as Hnfn. rewrite Hnfn by reflexivity. clear Hnfn.
    cbn [pbind]. rewrite Hne.
    destruct (fol_comma (join t_comma (p2 :: ps) ++ show_comment c)) as [Hlex _].
    rewrite (lak_St _ _ _ Hlex). cbn [pbind tkind]. kcomp. rewrite nok_StA by reflexivity. cbn [pbind].
    destruct (IH ltac:(discriminate) HF' f (acc ++ [p]) _ (At_sp _) ltac:(cbn [length] in *; lia))
      as (tk & rest' & -> & Hc).
    exists tk, rest'. rewrite <- app_assoc. split; [reflexivity | exact Hc].
Qed.

Lemma stat_class n ps c : doc_stat (DSClass n ps c) = true ->
  exists l', parse_one_state (fuel_of (show_line (DSClass n ps c))) (St (show_line (DSClass n ps c)))
             = POk (embed_stat nested (DSClass n ps c)) l'.
Proof.
  cbn [doc_stat]. intros Hd. apply andb_true_iff in Hd as [Hn Hps].
  cbn [show_stat embed_stat].
  set (fuel := fuel_of _).
  unfold parse_one_state. rewrite (lak_St _ _ _ (lex_k_class _)). cbn [pbind tkind].
  unfold parse_class_state. rewrite nok_StA by reflexivity. cbn [pbind].
  set (X := (if is_nil ps then [] else k_sp_colon_sp ++ join t_comma ps) ++ show_comment c).
  assert (HX : stop X = true) by (subst X; destruct (is_nil ps); [apply stop_comment | reflexivity]).
  rewrite (nfn_word n X _ Hn HX (At_sp _)). cbn [pbind]. subst X.
  destruct ps as [|p ps]; cbn [is_nil app].
  - destruct (comment_fol c) as (tk & rest' & [Hlex Hstop] & Hk & Hc).
    destruct (tail_kind_facts _ Hk) as (_ & Kc & _).
    rewrite (lak_St _ _ _ Hlex). cbn [pbind]. rewrite (kind_neq_false _ _ Kc). cbn [pbind].
    rewrite Hc. eexists. reflexivity.
  - rewrite <- !app_assoc. rewrite (lak_St _ _ _ (lex_sp_colon _)). cbn [pbind tkind]. kcomp.
    rewrite nok_StA by reflexivity. cbn [pbind].
    assert (HF : Forall (fun q => ident_shape q = true /\ beq_bytes q n = false) (p :: ps)).
    { apply Forall_forall. intros q Hin. rewrite forallb_forall in Hps. specialize (Hps _ Hin).
      apply andb_true_iff in Hps as [H1 H2]. apply negb_true_iff in H2. split; assumption. }
    destruct (class_loop (p :: ps) n c ltac:(discriminate) HF fuel [] _ (At_sp _)) as (tk & rest' & -> & Hc).
    { subst fuel. rewrite !fuel_of_app. rewrite <- fuel_of_len.
      assert (length (p :: ps) <= length (join t_comma (p :: ps)) + 1).
      { clear. induction ps as [|q ps IH] in p |- *; [cbn [length join]; lia|].
        rewrite join_cons2, !app_length. specialize (IH q). change (length t_comma) with 2. cbn [length] in *. lia. }
      cbn [is_nil]. rewrite app_length. lia. }
    cbn [pbind app]. rewrite Hc. eexists. reflexivity.
Qed.

(* ------------------------------------------------------------------ generic *)
Definition gtext (it : bytes * option bytes) : bytes :=
  fst it ++ match snd it with Some p => k_sp_colon_sp ++ p | None => [] end.
Definition gembed (it : bytes * option bytes) : bytes * bytes :=
  (fst it, match snd it with Some p => p | None => [] end).
Definition gok (it : bytes * option bytes) : Prop :=
  plain_name (fst it) = true /\ match snd it with Some p => plain_name p = true | None => True end.

Lemma generic_body n op Z tz Z' f acc l :
  gok (n, op) -> At (gtext (n, op) ++ Z) l -> Fol Z tz Z' -> tkind tz <> KColon ->
  generic_items_loop (S f) acc l =
  (if kind_eqb (tkind tz) KComma
   then let* (_, l) := next_of_kind KComma (StA Z' tz) in generic_items_loop f (acc ++ [gembed (n, op)]) l
   else POk (acc ++ [gembed (n, op)]) (StA Z' tz)).
Proof.
  intros [Hn Hop] Hat [HlexZ HstopZ] Kc. unfold gtext, gembed in *. cbn [fst snd] in *. rewrite <- app_assoc in Hat.
  cbn [generic_items_loop].
  destruct op as [p|].
  - rewrite <- app_assoc in Hat.
    rewrite (nok_of _ _ _ (At_la _ _ _ _ Hat (lex_plain_name n (k_sp_colon_sp ++ p ++ Z) Hn eq_refl)) KIdent eq_refl).
    cbn [pbind tstr].
    rewrite (lak_St _ _ _ (lex_sp_colon _)). cbn [pbind tkind]. kcomp. rewrite nok_StA by reflexivity. cbn [pbind].
    assert (H1 : lex_token (32%N :: p ++ Z) = Ok (mkTok KIdent p, Z))
      by (rewrite lex_token_sp; apply lex_plain_name; assumption).
    rewrite (nok_St _ _ _ _ H1) by reflexivity. cbn [pbind tstr].
    rewrite (lak_St _ _ _ HlexZ). reflexivity.
  - cbn [app] in Hat.
    rewrite (nok_of _ _ _ (At_la _ _ _ _ Hat (lex_plain_name n _ Hn HstopZ)) KIdent eq_refl). cbn [pbind tstr].
    rewrite (lak_St _ _ _ HlexZ). cbn [pbind]. rewrite (kind_neq_false _ _ Kc). cbn [pbind].
    rewrite lak_StA. reflexivity.
Qed.

Lemma generic_loop items c : items <> [] -> Forall gok items ->
  forall f acc l,
    At (join t_comma (map gtext items) ++ show_comment c) l -> length items + 1 <= f ->
    exists tk rest', generic_items_loop f acc l = POk (acc ++ map gembed items) (StA rest' tk) /\
                     get_comment (StA rest' tk) = comment_of c.
Proof.
  induction items as [|[n op] items IH]; [congruence|]. intros _ HF f acc l Hat Hf.
  inversion HF as [|? ? Hit HF']; subst.
  destruct f as [|f]; [cbn in Hf; lia|].
  destruct items as [|it2 items].
  - cbn [map join] in Hat.
    destruct (comment_fol c) as (tk & rest' & Hfol & Hk & Hc).
    destruct (tail_kind_facts _ Hk) as (_ & Kc & Kcm & _).
    rewrite (generic_body n op _ tk rest' f acc l Hit Hat Hfol Kc). rewrite (kind_neq_false _ _ Kcm).
    exists tk, rest'. split; [reflexivity | exact Hc].
  - cbn [map] in *. rewrite join_cons2 in Hat. rewrite <- !app_assoc in Hat.
    rewrite (generic_body n op _ _ _ f acc l Hit Hat (fol_comma _) ltac:(discriminate)).
    cbn [tkind]. kcomp. rewrite nok_StA by reflexivity. cbn [pbind].
    destruct (IH ltac:(discriminate) HF' f (acc ++ [gembed (n, op)]) _ (At_sp _) ltac:(cbn [length] in *; lia))
      as (tk & rest' & -> & Hc).
    exists tk, rest'. rewrite <- app_assoc. split; [reflexivity | exact Hc].
Qed.

Lemma join_length_ge {A} (g : A -> bytes) sep (l : list A) : length l <= length (join sep (map g l)) + 1 + length l * 0
                                                              \/ length sep = 0.
Proof. destruct (length sep) eqn:E; [right; reflexivity|left]. 
  induction l as [|a [|b l] IH]; cbn [map length join] in *; try lia.
  rewrite !app_length. rewrite E. cbn [map length] in IH. lia.
Qed.

Lemma stat_generic items c : doc_stat (DSGeneric items c) = true ->
  exists l', parse_one_state (fuel_of (show_line (DSGeneric items c))) (St (show_line (DSGeneric items c)))
             = POk (embed_stat nested (DSGeneric items c)) l'.
Proof.
  cbn [doc_stat]. intros Hd. apply andb_true_iff in Hd as [Hne Hit].
  cbn [show_stat embed_stat].
  change (map (fun it : bytes * option bytes => fst it ++ match snd it with
                                                         | Some p => k_sp_colon_sp ++ p
                                                         | None => []
                                                         end) items) with (map gtext items).
  change (map (fun it : bytes * option bytes => (fst it, match snd it with Some p => p | None => [] end)) items)
    with (map gembed items).
  set (fuel := fuel_of _).
  unfold parse_one_state. rewrite (lak_St _ _ _ (lex_k_generic _)). cbn [pbind tkind].
  unfold parse_generic_state. rewrite nok_StA by reflexivity. cbn [pbind].
  assert (HF : Forall gok items).
  { apply Forall_forall. intros it Hin. rewrite forallb_forall in Hit. specialize (Hit _ Hin).
    apply andb_true_iff in Hit as [H1 H2]. split; [exact H1|]. destruct (snd it); [exact H2|exact I]. }
  destruct (generic_loop items c ltac:(destruct items; [discriminate Hne|discriminate]) HF fuel [] _ (At_sp _))
    as (tk & rest' & -> & Hc).
  { subst fuel. rewrite !fuel_of_app. rewrite <- fuel_of_len.
    destruct (join_length_ge gtext t_comma items) as [H|H]; [|discriminate H]. lia. }
  cbn [pbind app]. rewrite Hc. eexists. reflexivity.
Qed.

(* ------------------------------------------------------------------ type *)
Definition tpre (it : bool * bool * dtype) : bytes :=
  (if fst (fst it) then k_const else []) ++ (if snd (fst it) then k_enum else []).

(* one iteration of the loop of parserTypeState; T is the text of the type, E what it is read as *)
Lemma type_body (co en : bool) (T : bytes) (E : atype) (Z : bytes) tz Z' f
      (acc : list (bool * bool * atype)) l :
  (exists tk c, lex_token (T ++ Z) = Ok (tk, c) /\ type_start (tkind tk)) ->
  (forall l1, At (T ++ Z) l1 -> parse_one_type f l1 = POk E (StA Z' tz)) ->
  At (((if co then k_const else []) ++ (if en then k_enum else [])) ++ T ++ Z) l ->
  type_items_loop (S f) acc l =
  (if kind_eqb (tkind tz) KComma
   then let* (_, l) := next_of_kind KComma (StA Z' tz) in type_items_loop f (acc ++ [(co, en, E)]) l
   else POk (acc ++ [(co, en, E)]) (StA Z' tz)).
Proof.
  intros (tk1 & c1 & Hlex1 & Hts) Hone Hat.
  destruct (type_start_neq _ Hts) as (_ & _ & _ & _ & E5 & E6 & _).
  pose proof (kind_neq_false _ _ E5) as N5. pose proof (kind_neq_false _ _ E6) as N6.
  assert (Hlex1s : lex_token (32%N :: T ++ Z) = Ok (tk1, c1)) by (rewrite lex_token_sp; exact Hlex1).
  assert (HatA : At (T ++ Z) (StA c1 tk1)) by (eapply la_At; [apply la_StA | exact Hlex1]).
  cbn [type_items_loop].
  destruct co, en; cbn [app] in Hat; rewrite <- ?app_assoc in Hat; cbn [app] in Hat.
  - destruct (lak_At _ _ _ _ Hat (lex_k_const _)) as [-> _]. cbn [pbind tkind]. kcomp.
    rewrite nok_StA by reflexivity. cbn [pbind].
    assert (H2 : lex_token (32%N :: k_enum ++ T ++ Z) = Ok (mkTok KEnum [101; 110; 117; 109]%N, 32%N :: T ++ Z))
      by (rewrite lex_token_sp; apply lex_k_enum).
    rewrite (lak_St _ _ _ H2). cbn [pbind tkind]. kcomp. rewrite nok_StA by reflexivity. cbn [pbind fst snd].
    rewrite (Hone _ (At_sp _)). cbn [pbind]. rewrite lak_StA. reflexivity.
  - destruct (lak_At _ _ _ _ Hat (lex_k_const _)) as [-> _]. cbn [pbind tkind]. kcomp.
    rewrite nok_StA by reflexivity. cbn [pbind].
    rewrite (lak_St _ _ _ Hlex1s). cbn [pbind]. rewrite N6. cbn [pbind fst snd].
    rewrite (Hone _ HatA). cbn [pbind]. rewrite lak_StA. reflexivity.
  - destruct (lak_At _ _ _ _ Hat (lex_k_enum _)) as [-> _]. cbn [pbind tkind]. kcomp.
    rewrite lak_StA. cbn [pbind tkind]. kcomp. rewrite nok_StA by reflexivity. cbn [pbind].
    rewrite (lak_St _ _ _ Hlex1s). cbn [pbind]. rewrite N5. cbn [pbind fst snd].
    rewrite (Hone _ HatA). cbn [pbind]. rewrite lak_StA. reflexivity.
  - destruct (lak_At _ _ _ _ Hat Hlex1) as [-> _]. cbn [pbind]. rewrite N5.
    rewrite lak_StA. cbn [pbind]. rewrite N6. cbn [pbind fst snd].
    rewrite (Hone _ HatA). cbn [pbind]. rewrite lak_StA. reflexivity.
Qed.

Definition tmk (it : bool * bool * dtype) (a : atype) : bool * bool * atype := (fst (fst it), snd (fst it), a).

Lemma show_tlist_cons2 {A} (pre : A -> bytes) ty post a b r :
  show_tlist nested pre ty post (a :: b :: r) =
  pre a ++ show_sub nested (ty a) ++ post a ++ t_comma ++ show_tlist nested pre ty post (b :: r).
Proof. reflexivity. Qed.

Lemma show_tlist_length {A} (pre : A -> bytes) ty post (l : list A) :
  length l <= length (show_tlist nested pre ty post l) + 1.
Proof.
  induction l as [|a [|b l] IH]; cbn [length show_tlist] in *; try lia.
  rewrite !app_length. change (length t_comma) with 2. cbn [length show_tlist] in IH. lia.
Qed.

Lemma type_loop items c : items <> [] -> Forall (fun it => doc_type (snd it) = true) items ->
  forall f acc l,
    At (show_tlist nested tpre (fun it => snd it) (fun _ => []) items ++ show_comment c) l ->
    2 * length (show_tlist nested tpre (fun it => snd it) (fun _ => []) items) + 19 <= f ->
    exists tk rest', type_items_loop f acc l
                     = POk (acc ++ embed_tlist nested tmk (fun it => snd it) items) (StA rest' tk) /\
                     get_comment (StA rest' tk) = comment_of c.
Proof.
  induction items as [|[[co en] t] items IH]; [congruence|]. intros _ HF f acc l Hat Hf.
  inversion HF as [|? ? Hdt HF']; subst. cbn [snd] in Hdt.
  destruct f as [|f]; [lia|].
  destruct items as [|it2 items].
  - cbn [show_tlist embed_tlist] in *. unfold tpre in Hat, Hf. cbn [fst snd] in *.
    rewrite app_nil_r in *. rewrite <- !app_assoc in Hat.
    rewrite !app_length in Hf.
    destruct (comment_fol c) as (tk & rest' & Hfol & Hk & Hc).
    destruct (tail_kind_facts _ Hk) as ((K1 & K2 & K3) & _ & Kcm & _ & Hcp).
    rewrite (type_body co en (shw t) (embed_one nested t) (show_comment c) tk rest' f acc l).
    + rewrite (kind_neq_false _ _ Kcm). exists tk, rest'. split; [reflexivity | exact Hc].
    + apply first_token_bare; [exact Hdt | apply stop_comment].
    + intros l1 Hat1. apply (claimC_all nested t Hdt f l1 _ tk rest' Hat1 Hfol (Hcp t) K1 K2). lia.
    + rewrite <- !app_assoc. exact Hat.
  - rewrite show_tlist_cons2 in Hat, Hf. cbn [embed_tlist]. unfold tpre at 1 in Hat. unfold tpre at 1 in Hf.
    cbn [fst snd] in Hat, Hf.
    rewrite app_nil_l in Hat, Hf. rewrite <- !app_assoc in Hat. rewrite !app_length in Hf.
    change (length t_comma) with 2 in Hf.
    set (more := show_tlist nested tpre (fun it : bool * bool * dtype => snd it) (fun _ => []) (it2 :: items)
                 ++ show_comment c) in *.
    rewrite (type_body co en (show_sub nested t) (embed_sub nested t) (t_comma ++ more) (mkTok KComma [44%N]) (32%N :: more) f acc l).
    + cbn [tkind]. kcomp. rewrite nok_StA by reflexivity. cbn [pbind].
      destruct (IH ltac:(discriminate) HF' f (acc ++ [(co, en, embed_sub nested t)]) _ (At_sp _) ltac:(lia))
        as (tk & rest' & -> & Hc).
      exists tk, rest'. rewrite <- app_assoc. split; [reflexivity | exact Hc].
    + apply first_token_sub; [exact Hdt | reflexivity].
    + intros l1 Hat1. apply (sub_one nested t (claimC_all nested t Hdt) f l1 _ _ _ Hat1 (fol_comma _) ok_follow_comma). lia.
    + rewrite <- !app_assoc. exact Hat.
Qed.

Lemma stat_type items c : doc_stat (DSType items c) = true ->
  exists l', parse_one_state (fuel_of (show_line (DSType items c))) (St (show_line (DSType items c)))
             = POk (embed_stat nested (DSType items c)) l'.
Proof.
  cbn [doc_stat]. intros Hd. apply andb_true_iff in Hd as [Hne Hit].
  cbn [show_stat embed_stat].
  change (fun it : bool * bool * dtype =>
            (if fst (fst it) then k_const else []) ++ (if snd (fst it) then k_enum else [])) with tpre.
  change (fun (it : bool * bool * dtype) (a : atype) => (fst (fst it), snd (fst it), a)) with tmk.
  set (fuel := fuel_of _).
  unfold parse_one_state. rewrite (lak_St _ _ _ (lex_k_type _)). cbn [pbind tkind].
  unfold parse_type_state. rewrite nok_StA by reflexivity. cbn [pbind].
  assert (HF : Forall (fun it : bool * bool * dtype => doc_type (snd it) = true) items).
  { apply Forall_forall. intros it Hin. rewrite forallb_forall in Hit. apply Hit. exact Hin. }
  destruct (type_loop items c ltac:(destruct items; [discriminate Hne|discriminate]) HF fuel [] _ (At_sp _))
    as (tk & rest' & -> & Hc).
  { subst fuel. rewrite !fuel_of_app. pose proof (fuel_of_ge (show_comment c)). lia. }
  cbn [pbind app]. rewrite Hc. eexists. reflexivity.
Qed.

(* ------------------------------------------------------------------ return *)
Lemma return_body (T : bytes) (E : atype) (opt : bool) (Z : bytes) tz Z' f (acc : list (atype * bool)) l :
  lex_token Z = Ok (tz, Z') -> tkind tz <> KOption ->
  (forall l1 rest, At (T ++ 63%N :: rest) l1 -> parse_one_type f l1 = POk E (StA rest (mkTok KOption [63%N]))) ->
  (forall l1, At (T ++ Z) l1 -> parse_one_type f l1 = POk E (StA Z' tz)) ->
  At (T ++ (if opt then [63%N] else []) ++ Z) l ->
  return_items_loop (S f) acc l =
  (if kind_eqb (tkind tz) KComma
   then let* (_, l) := next_of_kind KComma (StA Z' tz) in return_items_loop f (acc ++ [(E, opt)]) l
   else POk (acc ++ [(E, opt)]) (StA Z' tz)).
Proof.
  intros HlexZ Ko Hopt Hz Hat. cbn [return_items_loop]. destruct opt; cbn [app] in Hat.
  - rewrite (Hopt _ _ Hat). cbn [pbind]. rewrite lak_StA. cbn [pbind tkind]. kcomp.
    rewrite ntp_StA. cbn [pbind]. rewrite (lak_St _ _ _ HlexZ). reflexivity.
  - rewrite (Hz _ Hat). cbn [pbind]. rewrite lak_StA. cbn [pbind]. rewrite (kind_neq_false _ _ Ko). cbn [pbind].
    rewrite lak_StA. reflexivity.
Qed.

Notation rpost := (fun it : dtype * bool => if snd it then [63%N] else []).
Notation rmk := (fun (it : dtype * bool) (a : atype) => (a, snd it)).

Lemma fol_option rest : Fol (63%N :: rest) (mkTok KOption [63%N]) rest.
Proof. split; reflexivity. Qed.
Lemma ok_follow_option : ok_follow KOption. Proof. repeat split; discriminate. Qed.
Lemma cond_prim_option t : cond_prim t KOption.
Proof. split; [discriminate|]. intros _. repeat split; discriminate. Qed.

Lemma return_loop items c : items <> [] -> Forall (fun it => doc_type (fst it) = true) items ->
  forall f acc l,
    At (show_tlist nested (fun _ => []) (fun it => fst it) rpost items ++ show_comment c) l ->
    2 * length (show_tlist nested (fun _ => []) (fun it : dtype * bool => fst it) rpost items) + 19 <= f ->
    exists tk rest', return_items_loop f acc l
                     = POk (acc ++ embed_tlist nested rmk (fun it => fst it) items) (StA rest' tk) /\
                     get_comment (StA rest' tk) = comment_of c.
Proof.
  induction items as [|[t opt] items IH]; [congruence|]. intros _ HF f acc l Hat Hf.
  inversion HF as [|? ? Hdt HF']; subst. cbn [fst] in Hdt.
  destruct f as [|f]; [lia|].
  destruct items as [|it2 items].
  - cbn [show_tlist embed_tlist] in *. cbn [fst snd] in *.
    rewrite app_nil_l in *. rewrite <- !app_assoc in Hat. rewrite !app_length in Hf.
    destruct (comment_fol c) as (tk & rest' & [Hlex Hstop] & Hk & Hc).
    destruct (tail_kind_facts _ Hk) as ((K1 & K2 & K3) & _ & Kcm & Ko & Hcp).
    rewrite (return_body (shw t) (embed_one nested t) opt (show_comment c) tk rest' f acc l Hlex Ko).
    + rewrite (kind_neq_false _ _ Kcm). exists tk, rest'. split; [reflexivity | exact Hc].
    + intros l1 rest Hat1.
      apply (claimC_all nested t Hdt f l1 _ _ _ Hat1 (fol_option rest) (cond_prim_option t)); [discriminate|discriminate|lia].
    + intros l1 Hat1. apply (claimC_all nested t Hdt f l1 _ tk rest' Hat1 (conj Hlex Hstop) (Hcp t) K1 K2). lia.
    + exact Hat.
  - rewrite show_tlist_cons2 in Hat, Hf. cbn [embed_tlist]. cbn beta in Hat, Hf. cbn [fst snd] in *.
    rewrite app_nil_l in Hat, Hf. rewrite <- !app_assoc in Hat. rewrite !app_length in Hf.
    change (length t_comma) with 2 in Hf.
    set (more := show_tlist nested (fun _ => []) (fun it : dtype * bool => fst it) rpost (it2 :: items)
                 ++ show_comment c) in *.
    rewrite (return_body (show_sub nested t) (embed_sub nested t) opt (t_comma ++ more) (mkTok KComma [44%N]) (32%N :: more)
                         f acc l eq_refl ltac:(discriminate)).
    + cbn [tkind]. kcomp. rewrite nok_StA by reflexivity. cbn [pbind].
      destruct (IH ltac:(discriminate) HF' f (acc ++ [(embed_sub nested t, opt)]) _ (At_sp _) ltac:(lia))
        as (tk & rest' & -> & Hc).
      exists tk, rest'. rewrite <- app_assoc. split; [reflexivity | exact Hc].
    + intros l1 rest Hat1.
      apply (sub_one nested t (claimC_all nested t Hdt) f l1 _ _ _ Hat1 (fol_option rest) ok_follow_option). lia.
    + intros l1 Hat1. apply (sub_one nested t (claimC_all nested t Hdt) f l1 _ _ _ Hat1 (fol_comma _) ok_follow_comma). lia.
    + exact Hat.
Qed.

Lemma stat_return items c : doc_stat (DSReturn items c) = true ->
  exists l', parse_one_state (fuel_of (show_line (DSReturn items c))) (St (show_line (DSReturn items c)))
             = POk (embed_stat nested (DSReturn items c)) l'.
Proof.
  cbn [doc_stat]. intros Hd. apply andb_true_iff in Hd as [Hne Hit].
  cbn [show_stat embed_stat].
  set (fuel := fuel_of _).
  unfold parse_one_state. rewrite (lak_St _ _ _ (lex_k_return _)). cbn [pbind tkind].
  unfold parse_return_state. rewrite nok_StA by reflexivity. cbn [pbind].
  assert (HF : Forall (fun it : dtype * bool => doc_type (fst it) = true) items).
  { apply Forall_forall. intros it Hin. rewrite forallb_forall in Hit. apply Hit. exact Hin. }
  destruct (return_loop items c ltac:(destruct items; [discriminate Hne|discriminate]) HF fuel [] _ (At_sp _))
    as (tk & rest' & -> & Hc).
  { subst fuel. rewrite !fuel_of_app. pose proof (fuel_of_ge (show_comment c)). lia. }
  cbn [pbind app]. rewrite Hc. eexists. reflexivity.
Qed.

(* ------------------------------------------------------------------ all statement forms *)
Theorem stat_roundtrip_gen : forall s, doc_stat s = true ->
  ann_parse_line (fuel_of (show_line s)) (show_line s) = Ok (inl (embed_stat nested s)).
Proof.
  intros s Hd.
  assert (H : exists l', parse_one_state (fuel_of (show_line s)) (St (show_line s)) = POk (embed_stat nested s) l').
  { destruct s.
    - apply stat_type; exact Hd.
    - apply stat_alias; exact Hd.
    - apply stat_class; exact Hd.
    - apply stat_overload; exact Hd.
    - apply stat_field; exact Hd.
    - apply stat_param; exact Hd.
    - apply stat_return; exact Hd.
    - apply stat_generic; exact Hd.
    - apply stat_vararg; exact Hd.
    - apply stat_enum. }
  destruct H as [l' H]. eapply run_line. exact H.
Qed.

(* the trailing comment is returned verbatim, whatever its bytes *)
Definition stat_comment (s : astat) : bytes :=
  match s with
  | SType _ c | SAlias _ _ c | SClass _ _ c | SOverload _ c | SField _ _ _ _ c | SParam _ _ _ _ c
  | SReturn _ c | SGeneric _ c | SVararg _ c | SEnum _ c => c
  | SNotValid => []
  end.
Definition dstat_comment (s : dstat) : option bytes :=
  match s with
  | DSType _ c | DSAlias _ _ c | DSClass _ _ c | DSOverload _ _ c | DSField _ _ _ _ c | DSParam _ _ _ _ c
  | DSReturn _ c | DSGeneric _ c | DSVararg _ c | DSEnum _ c => c
  end.

Theorem comment_kept_gen : forall s x, doc_stat s = true -> dstat_comment s = Some x ->
  exists a, ann_parse_line (fuel_of (show_line s)) (show_line s) = Ok (inl a) /\ stat_comment a = x.
Proof.
  intros s x Hd Hc. exists (embed_stat nested s). split; [apply stat_roundtrip_gen; assumption|].
  destruct s; cbn in Hc |- *; subst; reflexivity.
Qed.
End Stat.

(* the canonical printer `(T[])[]` *)
Theorem stat_roundtrip : forall s, doc_stat s = true ->
  ann_parse_line (fuel_of (show_line s)) (show_line s) = Ok (inl (embed_line s)).
Proof. exact (stat_roundtrip_gen true). Qed.

(* the plain printer `T[][]`: the documented rule TYPE[] applied repeatedly *)
Theorem stat_roundtrip_plain : forall s, doc_stat s = true ->
  ann_parse_line (fuel_of (show_line_plain s)) (show_line_plain s) = Ok (inl (embed_line_plain s)).
Proof. exact (stat_roundtrip_gen false). Qed.

(* the trailing comment is returned verbatim, whatever its bytes (enum lines included) *)
Theorem comment_kept : forall s x, doc_stat s = true -> dstat_comment s = Some x ->
  exists a, ann_parse_line (fuel_of (show_line s)) (show_line s) = Ok (inl a) /\ stat_comment a = x.
Proof. exact (comment_kept_gen true). Qed.
