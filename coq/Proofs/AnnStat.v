(* C16 round trip for whole annotation statements: parsing the canonical line of a documented statement
   gives back exactly embed_stat (incl. the trailing comment, verbatim). *)
From Coq Require Import String Ascii List Arith NArith Bool Lia ZifyN ZifyNat ZifyBool.
From LH Require Import Base.Bytes Base.Res Model.AnnLexer Model.AnnAst Model.AnnParser Spec.AnnGrammar
  Proofs.AnnLexFacts Proofs.AnnRoundtrip.
Import ListNotations.
Local Open Scope nat_scope.

Notation shw := (show_bare true).

(* ------------------------------------------------------------------ the first token of a type *)
Definition type_start (k : akind) : Prop :=
  k = KIdent \/ k = KVararg \/ k = KString \/ k = KLparen \/ k = KTable \/ k = KFun.

Lemma lex_const s q rest : doc_type (DConst s q) = true ->
  exists x, lex_token (show_const s q ++ rest) = Ok (mkTok KString x, rest).
Proof.
  cbn [doc_type]. intros Hd. apply andb_true_iff in Hd as [Hnq Hq]. unfold show_const. destruct q.
  - exists (34%N :: s ++ [34%N]).
    replace (([39; 34]%N ++ s ++ [34; 39]%N) ++ rest) with (39%N :: (34%N :: s ++ [34%N]) ++ 39%N :: rest)
      by (cbn [app]; rewrite <- !app_assoc; reflexivity).
    apply lex_string; [reflexivity|]. cbn [forallb app]. rewrite forallb_app. cbn [forallb].
    rewrite (no_quote_no 39%N s (or_introl eq_refl) Hnq). reflexivity.
  - exists s.
    replace (([34%N] ++ s ++ [34%N]) ++ rest) with (34%N :: s ++ 34%N :: rest)
      by (cbn [app]; rewrite <- !app_assoc; reflexivity).
    apply lex_string; [reflexivity|]. apply no_quote_no; [right; reflexivity | exact Hnq].
Qed.

Lemma first_token : forall n t, tsize t <= n -> doc_type t = true ->
  forall rest, stop rest = true ->
  exists tk c, lex_token (shw t ++ rest) = Ok (tk, c) /\ type_start (tkind tk).
Proof.
  induction n as [|n IH]; intros t Hs Hd rest Hstop; [pose proof (tsize_pos t); lia|].
  destruct t as [nm|s q|i| |k v|ps rs|ts]; cbn [show_bare].
  - cbn [doc_type] in Hd. destruct (lex_type_name nm rest Hd Hstop) as (k & Hk & Hcase).
    eexists. eexists. split; [exact Hk|]. unfold type_start. cbn [tkind]. destruct Hcase as [->|[-> _]]; tauto.
  - destruct (lex_const s q rest Hd) as [x Hx]. eexists. eexists. split; [exact Hx|]. unfold type_start. cbn. tauto.
  - cbn [tsize doc_type] in Hs, Hd. rewrite <- app_assoc.
    destruct (item_paren true i); cbn [paren].
    + cbn [app]. eexists. eexists. split; [apply lex_lparen|]. unfold type_start. cbn. tauto.
    + assert (Hi : tsize i <= n) by lia. apply (IH i Hi Hd). reflexivity.
  - eexists. eexists. split; [apply lex_kw_table; exact Hstop|]. unfold type_start. cbn. tauto.
  - rewrite <- !app_assoc. eexists. eexists. split; [apply (lex_kw_table (60%N :: _)); reflexivity|].
    unfold type_start. cbn. tauto.
  - rewrite <- !app_assoc. eexists. eexists. split; [apply lex_kw_fun|]. unfold type_start. cbn. tauto.
  - cbn [tsize doc_type] in Hs, Hd. apply andb_true_iff in Hd as [Hlen Hdt]. apply Nat.leb_le in Hlen.
    destruct ts as [|m [|m2 ts]]; cbn [length] in Hlen; try lia.
    cbn [map]. rewrite join_cons2. rewrite <- !app_assoc.
    destruct (member_paren m); cbn [paren].
    + cbn [app]. eexists. eexists. split; [apply lex_lparen|]. unfold type_start. cbn. tauto.
    + cbn [forallb] in Hdt. apply andb_true_iff in Hdt as [Hdm _].
      cbn [map list_sum] in Hs. assert (Hm : tsize m <= n) by lia. apply (IH m Hm Hdm). reflexivity.
Qed.

Lemma first_token_bare t rest : doc_type t = true -> stop rest = true ->
  exists tk c, lex_token (shw t ++ rest) = Ok (tk, c) /\ type_start (tkind tk).
Proof. intros. eapply first_token; eauto. Qed.

Lemma first_token_sub t rest : doc_type t = true -> stop rest = true ->
  exists tk c, lex_token (show_sub true t ++ rest) = Ok (tk, c) /\ type_start (tkind tk).
Proof.
  intros Hd Hs. unfold show_sub. destruct (sub_paren t); cbn [paren].
  - cbn [app]. eexists. eexists. split; [apply lex_lparen|]. unfold type_start. cbn. tauto.
  - apply first_token_bare; assumption.
Qed.

(* ------------------------------------------------------------------ the trailing comment *)
Lemma comment_fol c :
  exists tk rest', Fol (show_comment c) tk rest' /\ (tkind tk = KEOF \/ tkind tk = KAt) /\
                   get_comment (StA rest' tk) = comment_of c.
Proof.
  destruct c as [x|]; cbn [show_comment comment_of].
  - exists (mkTok KAt [64%N]), x. split; [split; reflexivity|]. split; [right; reflexivity|]. reflexivity.
  - exists (mkTok KEOF s_EOF), []. split; [split; reflexivity|]. split; [left; reflexivity|]. reflexivity.
Qed.

Lemma tail_kind_facts k : (k = KEOF \/ k = KAt) ->
  ok_follow k /\ k <> KColon /\ k <> KComma /\ k <> KOption /\ (forall t, cond_prim t k).
Proof.
  intros [-> | ->]; (split; [repeat split; discriminate|]); repeat split; try discriminate;
    intros _; repeat split; discriminate.
Qed.

(* a type in a "last" position (bare text) followed by the comment *)
Lemma one_type_last t c f l :
  doc_type t = true -> At (shw t ++ show_comment c) l -> 2 * length (shw t) + 18 <= f ->
  exists tk rest', parse_one_type f l = POk (embed_one t) (StA rest' tk) /\
                   (tkind tk = KEOF \/ tkind tk = KAt) /\ get_comment (StA rest' tk) = comment_of c.
Proof.
  intros Hd Hat Hf. destruct (comment_fol c) as (tk & rest' & Hfol & Hk & Hc).
  exists tk, rest'. split; [|split; assumption].
  destruct (tail_kind_facts _ Hk) as ((K1 & K2 & K3) & _ & _ & _ & Hcp).
  apply (claimC_all t Hd f l (show_comment c) tk rest' Hat Hfol (Hcp t) K1 K2 Hf).
Qed.

(* ------------------------------------------------------------------ statement keywords *)
Ltac kw_lex b r := intros; apply (lex_word b r (32%N :: _)); reflexivity.
Lemma lex_k_type c : lex_token (k_type ++ c) = Ok (mkTok KType [116; 121; 112; 101]%N, 32%N :: c).
Proof. kw_lex 116%N [121; 112; 101]%N. Qed.
Lemma lex_k_alias c : lex_token (k_alias ++ c) = Ok (mkTok KAlias [97; 108; 105; 97; 115]%N, 32%N :: c).
Proof. kw_lex 97%N [108; 105; 97; 115]%N. Qed.
Lemma lex_k_class c : lex_token (k_class ++ c) = Ok (mkTok KClass [99; 108; 97; 115; 115]%N, 32%N :: c).
Proof. kw_lex 99%N [108; 97; 115; 115]%N. Qed.
Lemma lex_k_overload c :
  lex_token (k_overload ++ c) = Ok (mkTok KOverload [111; 118; 101; 114; 108; 111; 97; 100]%N, 32%N :: c).
Proof. kw_lex 111%N [118; 101; 114; 108; 111; 97; 100]%N. Qed.
Lemma lex_k_field c : lex_token (k_field ++ c) = Ok (mkTok KField [102; 105; 101; 108; 100]%N, 32%N :: c).
Proof. kw_lex 102%N [105; 101; 108; 100]%N. Qed.
Lemma lex_k_param c : lex_token (k_param ++ c) = Ok (mkTok KParam [112; 97; 114; 97; 109]%N, 32%N :: c).
Proof. kw_lex 112%N [97; 114; 97; 109]%N. Qed.
Lemma lex_k_return c : lex_token (k_return ++ c) = Ok (mkTok KReturn [114; 101; 116; 117; 114; 110]%N, 32%N :: c).
Proof. kw_lex 114%N [101; 116; 117; 114; 110]%N. Qed.
Lemma lex_k_generic c :
  lex_token (k_generic ++ c) = Ok (mkTok KGeneric [103; 101; 110; 101; 114; 105; 99]%N, 32%N :: c).
Proof. kw_lex 103%N [101; 110; 101; 114; 105; 99]%N. Qed.
Lemma lex_k_vararg c : lex_token (k_vararg ++ c) = Ok (mkTok KVarargKw [118; 97; 114; 97; 114; 103]%N, 32%N :: c).
Proof. kw_lex 118%N [97; 114; 97; 114; 103]%N. Qed.
Lemma lex_k_const c : lex_token (k_const ++ c) = Ok (mkTok KConst [99; 111; 110; 115; 116]%N, 32%N :: c).
Proof. kw_lex 99%N [111; 110; 115; 116]%N. Qed.
Lemma lex_k_enum c : lex_token (k_enum ++ c) = Ok (mkTok KEnum [101; 110; 117; 109]%N, 32%N :: c).
Proof. kw_lex 101%N [110; 117; 109]%N. Qed.

(* running a statement parser = ParserLine on the text *)
Lemma run_line fuel line s l' :
  parse_one_state fuel (St line) = POk s l' -> ann_parse_line fuel line = Ok (inl s).
Proof. unfold ann_parse_line. intros ->. reflexivity. Qed.
