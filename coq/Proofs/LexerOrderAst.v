(* C04, token order, part 3: the token-order guard of the Loc-order theorems (ParserLocOrderMain.v) discharged from
   the file class, and what the arbitrary key of parse_tokens_locs_within gives beyond order.

   tokens_ordered_b   : the boolean guard tok_ordered_b W (parser_view ts) holds for every error-free file of the class
                        and every W >= the longest line in bytes.
   ast_locs_ordered_file / ast_locs_within_file : the Loc-order theorems without the token-order hypothesis.
   parse_tokens_locs_on_bounds : (parser level, any ordered token list) both end points of every Loc of the AST are
                        end points of tokens of the list.  Obtained from parse_tokens_locs_within by a key function
                        that sends every position that is NOT a token end point below the first token. *)
From Coq Require Import List NArith ZArith Bool Arith Lia.
From LH Require Import Base.Bytes Base.Res Base.Utf8 Model.Lexer Model.Ast Model.Parser Model.Number Model.LuaFront
     Spec.LspRange.
From LH Require Import Proofs.LexerTotalWf Proofs.LexerTotalMain Proofs.ParserTotalBase Proofs.ParserTotalMain
     Proofs.ParserLocBase Proofs.ParserLocMain Proofs.ParserLocKeys Proofs.ParserLocOrderMain Proofs.LexerOrderBase Proofs.LexerOrderMain.
Import ListNotations.
Local Open Scope Z_scope.

(* ------------------------------------------------------------------ booleans *)
Lemma parser_view_clean ts : cls_lexerr ts = false -> parser_view ts = ts.
Proof.
  unfold parser_view. destruct ts as [|t1 r]; [reflexivity|]. intros H.
  unfold cls_lexerr in H. cbn [existsb] in H. apply orb_false_iff in H as [H _].
  unfold is_unfinished_str. destruct (lerrs t1); [|discriminate]. destruct (tk (lt t1)); reflexivity.
Qed.

Lemma chain_b_complete W : forall l, chain (wkey W) l -> chain_b W l = true.
Proof.
  induction l as [|t l IH]; intros H; [reflexivity|]. destruct l as [|t' l]; [reflexivity|].
  change (hi (wkey W) (SL t) <= lo (wkey W) (SL t') /\ chain (wkey W) (t' :: l)) in H. destruct H as [H1 H2].
  change ((hi (wkey W) (SL t) <=? lo (wkey W) (SL t')) && chain_b W (t' :: l) = true).
  apply andb_true_iff. split; [apply Z.leb_le; exact H1|apply IH, H2].
Qed.

Lemma tok_ordered_b_complete W ts : TokOrd (wkey W) ts -> tok_ordered_b W ts = true.
Proof.
  intros [H1 H2]. unfold tok_ordered_b. apply andb_true_iff. split; [|apply chain_b_complete, H2].
  apply forallb_forall. intros t Ht. rewrite Forall_forall in H1. destruct (H1 t Ht) as (A & B & C).
  unfold tok1_b. apply andb_true_iff. split; [apply andb_true_iff; split; apply Z.leb_le; assumption|].
  unfold tk_eqb. destruct (tkind_eq_dec (tk t) TkEOF) as [E|E]; [|reflexivity]. cbn [negb orb]. apply Z.leb_le, C, E.
Qed.

Lemma tchain_chain W : forall l, tchain W l -> chain (wkey W) l.
Proof.
  induction l as [|t l IH]; intros H; [exact I|]. destruct l as [|t' l]; [exact I|].
  change ((thi W t <= tlo W t')%Z /\ tchain W (t' :: l)) in H. destruct H as [H1 H2].
  change (hi (wkey W) (SL t) <= lo (wkey W) (SL t') /\ chain (wkey W) (t' :: l)). split; [exact H1|apply IH, H2].
Qed.

Lemma fine_TokOrd W ts : Forall (tok_fine W) (map lt ts) -> tchain W (map lt ts) -> TokOrd (wkey W) ts.
Proof.
  intros H1 H2. split; [|apply tchain_chain, H2]. eapply Forall_impl; [|exact H1]. intros t Ht. exact Ht.
Qed.

(* ------------------------------------------------------------------ goal 1: the guard holds *)
Theorem tokens_TokOrd : forall W gbk cps ts,
  forallb scalar cps = true -> file_class_ok cps = true -> line_width_ok W cps = true ->
  lex_all gbk (utf8_of cps) = Ok ts -> cls_lexerr ts = false ->
  parser_view ts = ts /\ TokOrd (wkey W) ts.
Proof.
  intros W gbk cps ts Hsc Hg HW Hlex Herr. split; [apply parser_view_clean, Herr|].
  destruct (tokens_ordered W gbk cps ts Hsc Hg HW Hlex Herr) as [H1 H2]. apply fine_TokOrd; assumption.
Qed.

Theorem tokens_ordered_b : forall W gbk cps ts,
  forallb scalar cps = true -> file_class_ok cps = true -> line_width_ok W cps = true ->
  lex_all gbk (utf8_of cps) = Ok ts -> cls_lexerr ts = false ->
  tok_ordered_b W (parser_view ts) = true.
Proof.
  intros W gbk cps ts Hsc Hg HW Hlex Herr.
  destruct (tokens_TokOrd W gbk cps ts Hsc Hg HW Hlex Herr) as [-> H]. apply tok_ordered_b_complete, H.
Qed.

(* ------------------------------------------------------------------ goal 2: the Loc-order theorems from the file class *)
Theorem ast_locs_ordered_file : forall W gbk classify cps ts b le pe,
  forallb scalar cps = true -> file_class_ok cps = true -> line_width_ok W cps = true ->
  lex_all gbk (utf8_of cps) = Ok ts -> cls_lexerr ts = false ->
  parse_bytes gbk classify (utf8_of cps) = Ok (PR b le pe) ->
  all_locs_ordered W b = true.
Proof.
  intros W gbk classify cps ts b le pe Hsc Hg HW Hlex Herr H.
  eapply ast_locs_ordered; [exact Hlex| |exact H]. eapply tokens_ordered_b; eassumption.
Qed.

(* a parse without lexical and syntax error: no hypothesis on the lexer at all *)
Lemma clean_parse_lexed gbk classify bs b :
  parse_bytes gbk classify bs = Ok (PR b [] []) ->
  exists ts, lex_all gbk bs = Ok ts /\ cls_lexerr ts = false /\
             parse_tokens classify (fuel_of_tokens ts) ts = Ok (PR b [] []).
Proof.
  intros H. unfold parse_bytes in H.
  destruct (lex_all gbk bs) as [ts|k|] eqn:Elex; try discriminate. cbn [rbind] in H. cbv zeta in H.
  pose proof (lex_all_wf gbk _ _ Elex) as Hwt.
  pose proof (parser_view_wf ts Hwt) as Hwv.
  pose proof (parse_tokens_lexerrs classify _ (wf_tokens_wfr _ Hwv) _ _ _ Hwv H) as Hle. symmetry in Hle.
  pose proof (parser_view_noerr ts Hle) as Hv. rewrite Hv in *.
  exists ts. split; [reflexivity|]. split; [apply flat_lerrs_nil, Hle|exact H].
Qed.

Theorem ast_locs_ordered_clean : forall W gbk classify cps b,
  forallb scalar cps = true -> file_class_ok cps = true -> line_width_ok W cps = true ->
  parse_bytes gbk classify (utf8_of cps) = Ok (PR b [] []) ->
  all_locs_ordered W b = true.
Proof.
  intros W gbk classify cps b Hsc Hg HW H.
  destruct (clean_parse_lexed _ _ _ _ H) as (ts & Hlex & Herr & _).
  eapply ast_locs_ordered_file; eassumption.
Qed.

(* every Loc between the start of the first and the end of the last (EOF) token *)
Theorem ast_locs_within_file : forall W gbk classify cps ts b le pe,
  forallb scalar cps = true -> file_class_ok cps = true -> line_width_ok W cps = true ->
  lex_all gbk (utf8_of cps) = Ok ts -> cls_lexerr ts = false ->
  parse_bytes gbk classify (utf8_of cps) = Ok (PR b le pe) ->
  WithinL (wkey W) (lo (wkey W) (SL (first_tok ts))) (locs_block b) (hi (wkey W) (SL (last_tok ts))).
Proof.
  intros W gbk classify cps ts b le pe Hsc Hg HW Hlex Herr H.
  destruct (tokens_TokOrd W gbk cps ts Hsc Hg HW Hlex Herr) as [Hv Hord].
  unfold parse_bytes in H. rewrite Hlex in H. cbn [rbind] in H. cbv zeta in H. rewrite Hv in H.
  eapply parse_tokens_locs_within; [apply wf_tokens_wfr, (lex_all_wf gbk _ _ Hlex)|exact Hord|exact H].
Qed.

(* ------------------------------------------------------------------ end points of Locs are end points of tokens *)
Definition tok_bounds (t : tok) : list (Z * Z) := [(tline t, tfrom t - tlsp t); (tline t, tto t - tlsp t)].
Definition bounds (ts : list ltok) : list (Z * Z) := flat_map tok_bounds (map lt ts).
Definition is_bound (ts : list ltok) (l c : Z) : bool := existsb (fun p => (fst p =? l) && (snd p =? c)) (bounds ts).
Definition loc_on_bounds (ts : list ltok) (l : loc) : bool :=
  is_zero_loc l || (is_bound ts (sl l) (sc l) && is_bound ts (el l) (ec l)).

Lemma is_bound_in ts l c : is_bound ts l c = true <-> In (l, c) (bounds ts).
Proof.
  unfold is_bound. rewrite existsb_exists. split.
  - intros ([l' c'] & Hin & E). cbn [fst snd] in E. apply andb_true_iff in E as [E1 E2].
    apply Z.eqb_eq in E1, E2. subst. exact Hin.
  - intros Hin. exists (l, c). split; [exact Hin|]. cbn [fst snd]. rewrite !Z.eqb_refl. reflexivity.
Qed.

Section Bounds.
  Variable key : Z -> Z -> Z.
  Variable classify : list N -> numcls.
  Variable ts : list ltok.
  Hypothesis Hwf : wfr ts.
  Hypothesis Hord : TokOrd key ts.

  (* positions that are no token end point are sent below the first token *)
  Definition bkey (l c : Z) : Z := if is_bound ts l c then key l c else lo key (SL (first_tok ts)) - 1.

  Lemma bkey_tok t : In t (map lt ts) -> lo bkey (SL t) = lo key (SL t) /\ hi bkey (SL t) = hi key (SL t).
  Proof.
    intros Hin. unfold lo, hi, bkey, SL. cbn [sl sc el ec].
    assert (H1 : is_bound ts (tline t) (tfrom t - tlsp t) = true).
    { apply is_bound_in. unfold bounds. apply in_flat_map. exists t. split; [exact Hin|left; reflexivity]. }
    assert (H2 : is_bound ts (tline t) (tto t - tlsp t) = true).
    { apply is_bound_in. unfold bounds. apply in_flat_map. exists t. split; [exact Hin|right; left; reflexivity]. }
    rewrite H1, H2. split; reflexivity.
  Qed.

  Lemma chain_ext : forall l, (forall t, In t l -> In t (map lt ts)) -> chain key l -> chain bkey l.
  Proof.
    induction l as [|t l IH]; intros Hin H; [exact I|]. destruct l as [|t' l]; [exact I|].
    change (hi key (SL t) <= lo key (SL t') /\ chain key (t' :: l)) in H. destruct H as [H1 H2].
    change (hi bkey (SL t) <= lo bkey (SL t') /\ chain bkey (t' :: l)).
    destruct (bkey_tok t (Hin t (or_introl eq_refl))) as [_ ->].
    destruct (bkey_tok t' (Hin t' (or_intror (or_introl eq_refl)))) as [-> _].
    split; [exact H1|]. apply IH; [|exact H2]. intros x Hx. apply Hin. right. exact Hx.
  Qed.

  Lemma TokOrd_bkey : TokOrd bkey ts.
  Proof.
    destruct Hord as [H1 H2]. split; [|apply chain_ext; [auto|exact H2]].
    apply Forall_forall. intros t Ht. rewrite Forall_forall in H1. destruct (H1 t Ht) as (A & B & C).
    destruct (bkey_tok t Ht) as [E1 E2]. unfold tok1. rewrite E1, E2. split; [exact A|]. split; [exact B|exact C].
  Qed.

  Theorem parse_tokens_locs_on_bounds fuel b le pe :
    parse_tokens classify fuel ts = Ok (PR b le pe) ->
    forallb (loc_on_bounds ts) (locs_block b) = true.
  Proof.
    intros H.
    pose proof (parse_tokens_locs_within bkey classify ts Hwf TokOrd_bkey fuel b le pe H) as HW.
    assert (Hf : In (first_tok ts) (map lt ts)).
    { unfold first_tok. destruct Hwf as [Hne _]. destruct ts as [|t r]; [congruence|]. left. reflexivity. }
    destruct (bkey_tok _ Hf) as [E1 _]. rewrite E1 in HW.
    apply forallb_forall. intros l Hl. unfold WithinL in HW. rewrite Forall_forall in HW.
    unfold loc_on_bounds. destruct (HW l Hl) as [->|(A & B & _)]; [reflexivity|].
    apply orb_true_iff. right. unfold lo, hi, bkey in A, B. unfold lo in A, B.
    destruct (is_bound ts (sl l) (sc l)) eqn:Es; [|lia].
    destruct (is_bound ts (el l) (ec l)) eqn:Ee; [reflexivity|lia].
  Qed.
End Bounds.

Theorem ast_locs_on_bounds_file : forall gbk classify cps ts b le pe,
  forallb scalar cps = true -> file_class_ok cps = true ->
  lex_all gbk (utf8_of cps) = Ok ts -> cls_lexerr ts = false ->
  parse_bytes gbk classify (utf8_of cps) = Ok (PR b le pe) ->
  forallb (loc_on_bounds ts) (locs_block b) = true.
Proof.
  intros gbk classify cps ts b le pe Hsc Hg Hlex Herr H.
  set (W := Z.of_nat (max_line_bytes (utf8_of cps))).
  assert (HW : line_width_ok W cps = true) by (unfold line_width_ok, W; apply Z.leb_le; lia).
  destruct (tokens_TokOrd W gbk cps ts Hsc Hg HW Hlex Herr) as [Hv Hord].
  unfold parse_bytes in H. rewrite Hlex in H. cbn [rbind] in H. cbv zeta in H. rewrite Hv in H.
  eapply parse_tokens_locs_on_bounds; [apply wf_tokens_wfr, (lex_all_wf gbk _ _ Hlex)|exact Hord|exact H].
Qed.

Print Assumptions tokens_ordered_b.
Print Assumptions ast_locs_ordered_file.
Print Assumptions ast_locs_ordered_clean.
Print Assumptions ast_locs_within_file.
Print Assumptions parse_tokens_locs_on_bounds.
Print Assumptions ast_locs_on_bounds_file.
