(* C02, part 1: the position scan of offsetForStartAndEnd agrees with the LSP position table
   (for fx = false under the guard "no astral character, no lone CR"; for fx = true always). *)
From Coq Require Import List NArith Bool Lia ZifyN ZifyNat ZifyBool.
From LH Require Import Base.Bytes Base.Res Base.Utf8 Model.TextSync Spec.LspText.
Import ListNotations.
Local Open Scope N_scope.

(* ---------- getCharBytes on the lead bytes of UTF-8 ---------- *)
Lemma sweep (P : N -> bool) (n : nat) :
  forallb P (nrange_nat n) = true -> forall x, x < N.of_nat n -> P x = true.
Proof. intros H x Hx. eapply forallb_forall in H; [exact H|]. apply nrange_nat_in; exact Hx. Qed.

Lemma cb_lead2 x : x < 32 -> char_bytes (192 + x) = 2.
Proof.
  intros H. apply N.eqb_eq.
  apply (sweep (fun x => char_bytes (192 + x) =? 2) 32); [vm_compute; reflexivity|exact H].
Qed.
Lemma cb_lead3 x : x < 16 -> char_bytes (224 + x) = 3.
Proof.
  intros H. apply N.eqb_eq.
  apply (sweep (fun x => char_bytes (224 + x) =? 3) 16); [vm_compute; reflexivity|exact H].
Qed.
Lemma cb_lead4 x : x < 8 -> char_bytes (240 + x) = 4.
Proof.
  intros H. apply N.eqb_eq.
  apply (sweep (fun x => char_bytes (240 + x) =? 4) 8); [vm_compute; reflexivity|exact H].
Qed.

(* the whole table, for the record (0xFF => 8, a continuation byte => 1) *)
Lemma char_bytes_table b : b < 256 ->
  char_bytes b = if b <? 128 then 0 else if b <? 192 then 1 else if b <? 224 then 2 else if b <? 240 then 3
                 else if b <? 248 then 4 else if b <? 252 then 5 else if b <? 254 then 6 else if b <? 255 then 7 else 8.
Proof.
  intros H. apply N.eqb_eq.
  apply (sweep (fun b => char_bytes b =?
     (if b <? 128 then 0 else if b <? 192 then 1 else if b <? 224 then 2 else if b <? 240 then 3
      else if b <? 248 then 4 else if b <? 252 then 5 else if b <? 254 then 6 else if b <? 255 then 7 else 8)) 256);
    [vm_compute; reflexivity|exact H].
Qed.

Definition ucp (c : N) : bool := c <? 1114112.     (* a code point: enough for the scan; scalar values are code points *)
Definition len8 (c : N) : N := N.of_nat (length (utf8_encode c)).

Lemma scalar_ucp c : scalar c = true -> ucp c = true.
Proof. unfold scalar, ucp. lia. Qed.

Lemma forallb_scalar_ucp d : forallb scalar d = true -> forallb ucp d = true.
Proof.
  induction d as [|c t IH]; cbn [forallb]; [reflexivity|].
  intros H. apply andb_true_iff in H as [H1 H2]. rewrite (scalar_ucp _ H1), (IH H2). reflexivity.
Qed.

Lemma len8_cases c :
  len8 c = if c <? 128 then 1 else if c <? 2048 then 2 else if c <? 65536 then 3 else 4.
Proof.
  unfold len8, utf8_encode.
  destruct (c <? 128); [reflexivity|]. destruct (c <? 2048); [reflexivity|]. destruct (c <? 65536); reflexivity.
Qed.

Lemma len8_pos c : 1 <= len8 c.
Proof. rewrite len8_cases. destruct (c <? 128), (c <? 2048), (c <? 65536); lia. Qed.

(* first byte of an encoding is LF only for LF itself *)
Lemma next_is_lf_enc c rest : ucp c = true -> next_is_lf (utf8_encode c ++ rest) = (c =? 10).
Proof.
  unfold ucp, utf8_encode. intros H.
  destruct (c <? 128) eqn:E1; [reflexivity|].
  destruct (c <? 2048) eqn:E2; [cbn [app next_is_lf]; lia|].
  destruct (c <? 65536) eqn:E3; cbn [app next_is_lf]; lia.
Qed.

Lemma next_is_lf_utf8 t : forallb ucp t = true -> next_is_lf (utf8_of t) = next_is_lf t.
Proof.
  destruct t as [|c t]; [reflexivity|]. cbn [forallb utf8_of flat_map]. intros H.
  apply andb_true_iff in H as [H _]. rewrite next_is_lf_enc by exact H. reflexivity.
Qed.

Section ScanProofs.
  Variable fx : bool.
  Variables sl sc el ec : N.

  Notation check := (check sl sc el ec).
  Notation finish := (finish sl sc el ec).
  Notation scan := (scan fx sl sc el ec).

  (* the scan at the level of code points *)
  Fixpoint cscan (d : list N) (line col off : N) (sf : option N) : off_res :=
    match d with
    | [] => finish line col off sf
    | c :: t =>
      match check line col off sf with
      | Found s e => OffOk s e
      | Bad e => OffErr e
      | Go sf1 =>
        if c =? 10 then cscan t (line + 1) 0 (off + 1) sf1
        else if fx && (c =? 13) && negb (next_is_lf t) then cscan t (line + 1) 0 (off + 1) sf1
        else cscan t line (col + (if fx && is_astral c then 2 else 1)) (off + len8 c) sf1
      end
    end.

  Lemma scan_skip1 b rest line col off sf : scan (b :: rest) 1 line col off sf = scan rest 0 line col off sf.
  Proof. reflexivity. Qed.

  (* one well-formed character is consumed as a whole *)
  Lemma scan_char c rest line col off sf :
    ucp c = true ->
    scan (utf8_encode c ++ rest) 0 line col off sf =
    match check line col off sf with
    | Found s e => OffOk s e
    | Bad e => OffErr e
    | Go sf1 =>
      if c =? 10 then scan rest 0 (line + 1) 0 (off + 1) sf1
      else if fx && (c =? 13) && negb (next_is_lf rest) then scan rest 0 (line + 1) 0 (off + 1) sf1
      else scan rest 0 line (col + (if fx && is_astral c then 2 else 1)) (off + len8 c) sf1
    end.
  Proof.
    intros Hu. rewrite len8_cases. unfold ucp in Hu. unfold utf8_encode, is_astral.
    destruct (c <? 128) eqn:E1.
    { cbn [app TextSync.scan]. destruct (check line col off sf) as [s e|e|sf1]; try reflexivity.
      replace (127 <? c) with false by lia. change (N.to_nat 1 - 1)%nat with 0%nat.
      change (1 =? 4) with false. replace (65535 <? c) with false by lia. rewrite !andb_false_r. reflexivity. }
    destruct (c <? 2048) eqn:E2.
    { assert (Hq : c / 64 < 32) by (apply N.div_lt_upper_bound; lia).
      cbn [app TextSync.scan]. destruct (check line col off sf) as [s e|e|sf1]; try reflexivity.
      replace (127 <? 192 + c / 64) with true by lia. rewrite (cb_lead2 _ Hq).
      replace (192 + c / 64 =? 10) with false by lia. replace (192 + c / 64 =? 13) with false by lia.
      replace (c =? 10) with false by lia. replace (c =? 13) with false by lia.
      rewrite !andb_false_r. cbn [andb]. change (2 =? 4) with false. replace (65535 <? c) with false by lia.
      rewrite !andb_false_r. change (N.to_nat 2 - 1)%nat with 1%nat. reflexivity. }
    destruct (c <? 65536) eqn:E3.
    { assert (Hq : c / 4096 < 16) by (apply N.div_lt_upper_bound; lia).
      cbn [app TextSync.scan]. destruct (check line col off sf) as [s e|e|sf1]; try reflexivity.
      replace (127 <? 224 + c / 4096) with true by lia. rewrite (cb_lead3 _ Hq).
      replace (224 + c / 4096 =? 10) with false by lia. replace (224 + c / 4096 =? 13) with false by lia.
      replace (c =? 10) with false by lia. replace (c =? 13) with false by lia.
      rewrite !andb_false_r. cbn [andb]. change (3 =? 4) with false. replace (65535 <? c) with false by lia.
      rewrite !andb_false_r. change (N.to_nat 3 - 1)%nat with 2%nat. reflexivity. }
    assert (Hq : c / 262144 < 8) by (apply N.div_lt_upper_bound; lia).
    cbn [app TextSync.scan]. destruct (check line col off sf) as [s e|e|sf1]; try reflexivity.
    replace (127 <? 240 + c / 262144) with true by lia. rewrite (cb_lead4 _ Hq).
    replace (240 + c / 262144 =? 10) with false by lia. replace (240 + c / 262144 =? 13) with false by lia.
    replace (c =? 10) with false by lia. replace (c =? 13) with false by lia.
    rewrite !andb_false_r. cbn [andb]. change (4 =? 4) with true. replace (65535 <? c) with true by lia.
    rewrite !andb_true_r. change (N.to_nat 4 - 1)%nat with 3%nat. reflexivity.
  Qed.

  Lemma scan_cscan d : forallb ucp d = true ->
    forall line col off sf, scan (utf8_of d) 0 line col off sf = cscan d line col off sf.
  Proof.
    induction d as [|c t IH]; intros Hd line col off sf; [reflexivity|].
    cbn [forallb] in Hd. apply andb_true_iff in Hd as [Hc Ht].
    change (utf8_of (c :: t)) with (utf8_encode c ++ utf8_of t).
    rewrite scan_char by exact Hc. cbn [cscan].
    rewrite next_is_lf_utf8 by exact Ht.
    destruct (check line col off sf) as [s e|e|sf1]; try reflexivity.
    rewrite !IH by exact Ht. reflexivity.
  Qed.

  (* ---------- the check at one boundary ---------- *)
  Definition target (sf : option N) : N * N := match sf with None => (sl, sc) | Some _ => (el, ec) end.
  Definition plt (a b : N * N) : Prop := fst a < fst b \/ (fst a = fst b /\ snd a < snd b).
  Definition ple (a b : N * N) : Prop := fst a < fst b \/ (fst a = fst b /\ snd a <= snd b).

  Lemma check_go line col off sf : plt (line, col) (target sf) -> check line col off sf = Go sf.
  Proof.
    unfold plt, target, TextSync.check. destruct sf as [so|]; cbn [fst snd]; intros H.
    - replace ((line =? el) && (col =? ec)) with false by lia.
      replace ((line =? el) && (ec <? col) || (el <? line)) with false by lia. reflexivity.
    - replace ((line =? sl) && (col =? sc)) with false by lia.
      replace ((line =? sl) && (sc <? col) || (sl <? line)) with false by lia. reflexivity.
  Qed.

  Lemma check_found line col off so : line = el -> col = ec -> check line col off (Some so) = Found so off.
  Proof. intros -> ->. unfold TextSync.check. rewrite !N.eqb_refl. reflexivity. Qed.

  (* reaching the start position turns the search for the start into the search for the end, on the spot *)
  Lemma cscan_start_here d line col off :
    line = sl -> col = sc -> cscan d line col off None = cscan d line col off (Some off).
  Proof.
    intros -> ->. destruct d as [|c t]; cbn [cscan].
    - unfold TextSync.finish. rewrite !N.eqb_refl. cbn [andb]. reflexivity.
    - unfold TextSync.check. rewrite !N.eqb_refl. cbn [andb]. reflexivity.
  Qed.

  (* ---------- steps between two synchronisation points ---------- *)
  Lemma cscan_step_plain c t line col off sf :
    c <> 13 -> (fx = true \/ is_astral c = false) ->
    ple (if c =? 10 then (line + 1, 0) else (line, col + utf16_len c)) (target sf) ->
    cscan (c :: t) line col off sf =
    if c =? 10 then cscan t (line + 1) 0 (off + 1) sf else cscan t line (col + utf16_len c) (off + len8 c) sf.
  Proof.
    intros Hc Hg Hle. cbn [cscan].
    assert (Hu : 1 <= utf16_len c) by (unfold utf16_len; destruct (c <? 65536); lia).
    rewrite check_go.
    2:{ unfold plt, ple in *. destruct (c =? 10); cbn [fst snd] in *; lia. }
    destruct (c =? 10) eqn:E10; [reflexivity|].
    replace (c =? 13) with false by lia. rewrite andb_false_r. cbn [andb].
    replace (if fx && is_astral c then 2 else 1) with (utf16_len c); [reflexivity|].
    unfold utf16_len, is_astral in *. destruct Hg as [->|Hg]; cbn [andb].
    - destruct (c <? 65536) eqn:E; [replace (65535 <? c) with false by lia|replace (65535 <? c) with true by lia]; reflexivity.
    - rewrite Hg, andb_false_r. replace (c <? 65536) with true by lia. reflexivity.
  Qed.

  Lemma cscan_step_crlf t line col off sf :
    ple (line + 1, 0) (target sf) ->
    cscan (13 :: 10 :: t) line col off sf = cscan t (line + 1) 0 (off + 2) sf.
  Proof.
    intros Hle. cbn [cscan].
    rewrite check_go by (unfold plt, ple in *; cbn [fst snd] in *; lia).
    change (13 =? 10) with false. cbn [next_is_lf]. change (10 =? 10) with true. cbn [negb]. rewrite andb_false_r.
    change (is_astral 13) with false. rewrite andb_false_r.
    rewrite check_go by (unfold plt, ple in *; cbn [fst snd] in *; lia).
    change (len8 13) with 1. replace (off + 1 + 1) with (off + 2) by lia. reflexivity.
  Qed.

  Lemma cscan_step_cr t line col off sf :
    fx = true -> next_is_lf t = false -> ple (line + 1, 0) (target sf) ->
    cscan (13 :: t) line col off sf = cscan t (line + 1) 0 (off + 1) sf.
  Proof.
    intros Hfx Hn Hle. cbn [cscan].
    rewrite check_go by (unfold plt, ple in *; cbn [fst snd] in *; lia).
    change (13 =? 10) with false. rewrite Hn, Hfx. reflexivity.
  Qed.
End ScanProofs.

(* ---------- the position table ---------- *)
Lemma positions_ge d : forall ac line col idx l c i,
  In (l, c, i) (positions d ac line col idx) -> ple (line, col) (l, c) /\ idx <= i.
Proof.
  induction d as [|x t IH]; intros ac line col idx l c i Hin.
  - cbn [positions] in Hin. destruct Hin as [E|[]]. injection E as <- <- <-. unfold ple; cbn [fst snd]. lia.
  - cbn [positions] in Hin.
    destruct (ac && (x =? 10)).
    { apply IH in Hin. unfold ple in *; cbn [fst snd] in *. lia. }
    destruct Hin as [E|Hin]; [injection E as <- <- <-; unfold ple; cbn [fst snd]; lia|].
    destruct (x =? 10); [apply IH in Hin; unfold ple in *; cbn [fst snd] in *; lia|].
    destruct (x =? 13); apply IH in Hin; unfold ple in *; cbn [fst snd] in *; lia.
Qed.

Lemma lookup_in l c tab i : lookup l c tab = Some i -> In (l, c, i) tab.
Proof.
  induction tab as [|[[l' c'] i'] t IH]; cbn [lookup]; [discriminate|].
  destruct ((l' =? l) && (c' =? c)) eqn:E.
  - intros H. injection H as <-. left.
    assert (E1 : l' = l) by lia. assert (E2 : c' = c) by lia. rewrite E1, E2. reflexivity.
  - intros H. right. apply IH, H.
Qed.

Lemma lookup_ge d ac line col idx l c i :
  lookup l c (positions d ac line col idx) = Some i -> ple (line, col) (l, c) /\ idx <= i.
Proof. intros H. eapply positions_ge, lookup_in, H. Qed.

Lemma positions_ac t line col idx :
  next_is_lf t = false -> positions t true line col idx = positions t false line col idx.
Proof. destruct t as [|c t]; [reflexivity|]. cbn [next_is_lf positions]. intros ->. reflexivity. Qed.

(* the three shapes of a document head *)
Lemma positions_plain c t line col idx : c <> 13 ->
  positions (c :: t) false line col idx =
  (line, col, idx) :: (if c =? 10 then positions t false (line + 1) 0 (idx + 1)
                       else positions t false line (col + utf16_len c) (idx + 1)).
Proof. intros H. cbn [positions andb]. replace (c =? 13) with false by lia. reflexivity. Qed.

Lemma positions_crlf t line col idx :
  positions (13 :: 10 :: t) false line col idx = (line, col, idx) :: positions t false (line + 1) 0 (idx + 2).
Proof.
  cbn [positions andb]. change (13 =? 10) with false. change (13 =? 13) with true. change (10 =? 10) with true.
  cbv iota. replace (idx + 1 + 1) with (idx + 2) by lia. reflexivity.
Qed.

Lemma positions_cr t line col idx : next_is_lf t = false ->
  positions (13 :: t) false line col idx = (line, col, idx) :: positions t false (line + 1) 0 (idx + 1).
Proof.
  intros H. cbn [positions andb]. change (13 =? 10) with false. change (13 =? 13) with true. cbv iota.
  rewrite positions_ac by exact H. reflexivity.
Qed.

Lemma list_cr_ind (P : list N -> Prop) :
  P [] ->
  (forall c t, c <> 13 -> P t -> P (c :: t)) ->
  (forall t, P t -> P (13 :: 10 :: t)) ->
  (forall t, next_is_lf t = false -> P t -> P (13 :: t)) ->
  forall d, P d.
Proof.
  intros Hnil Hplain Hcrlf Hcr.
  enough (H : forall d, P d /\ forall c, P (c :: d)) by (intros d; apply H).
  induction d as [|a t [IH1 IH2]].
  - split; [exact Hnil|]. intros c. destruct (N.eq_dec c 13) as [->|Hne].
    + apply Hcr; [reflexivity|exact Hnil].
    + apply Hplain; assumption.
  - split; [apply IH2|]. intros c. destruct (N.eq_dec c 13) as [->|Hne].
    + destruct (N.eq_dec a 10) as [->|Hne10].
      * apply Hcrlf, IH1.
      * apply Hcr; [cbn [next_is_lf]; lia|apply IH2].
    + apply Hplain; [exact Hne|apply IH2].
Qed.

(* ---------- the guard on tails ---------- *)
Lemma text_ok_plain fx c t : text_ok fx (c :: t) = true -> c <> 13 ->
  text_ok fx t = true /\ (fx = true \/ is_astral c = false).
Proof.
  unfold text_ok, no_astral, no_lone_cr. cbn [existsb no_lone_cr_st]. intros H Hc.
  replace (c =? 13) with false in H by lia.
  destruct fx; [split; [reflexivity|left; reflexivity]|]. cbn [orb] in *.
  destruct (is_astral c); cbn [orb negb andb] in H; [discriminate|]. split; [exact H|right; reflexivity].
Qed.

Lemma text_ok_crlf fx t : text_ok fx (13 :: 10 :: t) = true -> text_ok fx t = true.
Proof.
  unfold text_ok, no_astral, no_lone_cr. cbn [existsb no_lone_cr_st].
  change (is_astral 13) with false. change (is_astral 10) with false.
  change (13 =? 13) with true. change (10 =? 10) with true. cbn [orb andb]. intros H; exact H.
Qed.

Lemma text_ok_cr fx t : text_ok fx (13 :: t) = true -> next_is_lf t = false -> fx = true /\ text_ok fx t = true.
Proof.
  unfold text_ok, no_astral, no_lone_cr. cbn [existsb no_lone_cr_st]. change (13 =? 13) with true.
  intros H Hn. destruct fx; [split; reflexivity|]. exfalso. cbn [orb] in H.
  apply andb_true_iff in H as [_ H]. destruct t as [|a t]; cbn [no_lone_cr_st negb] in H; [discriminate|].
  cbn [next_is_lf] in Hn. rewrite Hn in H. discriminate.
Qed.

(* ---------- lengths ---------- *)
Lemma blen_cons c l : blen (c :: l) = len8 c + blen l.
Proof. unfold blen, len8, utf8_of. cbn [flat_map]. rewrite app_length. lia. Qed.

Lemma blen_firstn_S c t k idx : idx + 1 <= k ->
  blen (firstn (N.to_nat (k - idx)) (c :: t)) = len8 c + blen (firstn (N.to_nat (k - (idx + 1))) t).
Proof.
  intros H. replace (N.to_nat (k - idx)) with (S (N.to_nat (k - (idx + 1)))) by lia.
  cbn [firstn]. apply blen_cons.
Qed.

Lemma blen_firstn_0 d k : blen (firstn (N.to_nat (k - k)) d) = 0.
Proof. rewrite N.sub_diag. reflexivity. Qed.

Section Agreement.
  Variable fx : bool.
  Variables sl sc el ec : N.
  Notation cscan := (cscan fx sl sc el ec).

  Lemma lookup_head l c line col idx tab k :
    lookup l c ((line, col, idx) :: tab) = Some k ->
    (line = l /\ col = c /\ k = idx) \/ (~ (line = l /\ col = c) /\ lookup l c tab = Some k).
  Proof.
    cbn [lookup]. destruct ((line =? l) && (col =? c)) eqn:E; intros H.
    - left. injection H as <-. lia.
    - right. split; [lia|exact H].
  Qed.

  (* phase 2: the start has been found, look for the end *)
  Lemma seek_end d : text_ok fx d = true ->
    forall line col off idx so j,
      lookup el ec (positions d false line col idx) = Some j ->
      cscan d line col off (Some so) = OffOk so (off + blen (firstn (N.to_nat (j - idx)) d)).
  Proof.
    induction d as [|c t Hc IH|t IH|t Hn IH] using list_cr_ind; intros Hg line col off idx so j Hl.
    - cbn [positions] in Hl. apply lookup_head in Hl as [(-> & -> & ->)|(_ & Hl)]; [|discriminate].
      cbn [TextSyncScan.cscan]. unfold finish. rewrite !N.eqb_refl. cbn [andb]. rewrite blen_firstn_0. f_equal. lia.
    - destruct (text_ok_plain _ _ _ Hg Hc) as [Hg' Ha].
      rewrite positions_plain in Hl by exact Hc.
      apply lookup_head in Hl as [(-> & -> & ->)|(Hne & Hl)].
      { cbn [TextSyncScan.cscan]. rewrite check_found by reflexivity. rewrite blen_firstn_0. f_equal. lia. }
      assert (Hge : ple (if c =? 10 then (line + 1, 0) else (line, col + utf16_len c)) (el, ec) /\ idx + 1 <= j).
      { destruct (c =? 10); apply lookup_ge in Hl; exact Hl. }
      destruct Hge as [Hle Hj].
      rewrite cscan_step_plain by (try exact Hc; try exact Ha; exact Hle).
      rewrite blen_firstn_S by exact Hj.
      destruct (c =? 10) eqn:E10.
      + rewrite (IH Hg' _ _ _ _ _ _ Hl). f_equal. replace c with 10 by lia. change (len8 10) with 1. lia.
      + rewrite (IH Hg' _ _ _ _ _ _ Hl). f_equal. lia.
    - pose proof (text_ok_crlf _ _ Hg) as Hg'.
      rewrite positions_crlf in Hl.
      apply lookup_head in Hl as [(-> & -> & ->)|(Hne & Hl)].
      { cbn [TextSyncScan.cscan]. rewrite check_found by reflexivity. rewrite blen_firstn_0. f_equal. lia. }
      destruct (lookup_ge _ _ _ _ _ _ _ _ Hl) as [Hle Hj].
      rewrite cscan_step_crlf by exact Hle.
      rewrite (IH Hg' _ _ _ _ _ _ Hl). f_equal.
      rewrite (blen_firstn_S 13 (10 :: t) j idx) by lia.
      rewrite (blen_firstn_S 10 t j (idx + 1)) by lia.
      change (len8 13) with 1. change (len8 10) with 1. replace (idx + 1 + 1) with (idx + 2) by lia. lia.
    - destruct (text_ok_cr _ _ Hg Hn) as [Hfx Hg'].
      rewrite positions_cr in Hl by exact Hn.
      apply lookup_head in Hl as [(-> & -> & ->)|(Hne & Hl)].
      { cbn [TextSyncScan.cscan]. rewrite check_found by reflexivity. rewrite blen_firstn_0. f_equal. lia. }
      destruct (lookup_ge _ _ _ _ _ _ _ _ Hl) as [Hle Hj].
      rewrite cscan_step_cr by (try exact Hfx; try exact Hn; exact Hle).
      rewrite (IH Hg' _ _ _ _ _ _ Hl). f_equal.
      rewrite (blen_firstn_S 13 t j idx) by lia. change (len8 13) with 1. lia.
  Qed.

  (* phase 1: look for the start, then for the end *)
  Lemma seek_start d : text_ok fx d = true ->
    forall line col off idx i j,
      lookup sl sc (positions d false line col idx) = Some i ->
      lookup el ec (positions d false line col idx) = Some j ->
      i <= j ->
      cscan d line col off None =
      OffOk (off + blen (firstn (N.to_nat (i - idx)) d)) (off + blen (firstn (N.to_nat (j - idx)) d)).
  Proof.
    induction d as [|c t Hc IH|t IH|t Hn IH] using list_cr_ind; intros Hg line col off idx i j Hi Hj Hij.
    - cbn [positions] in Hi, Hj.
      apply lookup_head in Hi as [(-> & -> & ->)|(_ & Hi)]; [|discriminate].
      apply lookup_head in Hj as [(<- & <- & ->)|(_ & Hj)]; [|discriminate].
      cbn [TextSyncScan.cscan]. unfold finish. rewrite !N.eqb_refl. cbn [andb]. rewrite blen_firstn_0. f_equal; lia.
    - destruct (text_ok_plain _ _ _ Hg Hc) as [Hg' Ha].
      pose proof Hj as Hj0.
      rewrite positions_plain in Hi, Hj by exact Hc.
      apply lookup_head in Hi as [(-> & -> & ->)|(Hne & Hi)].
      { rewrite cscan_start_here by reflexivity. rewrite (seek_end _ Hg _ _ _ _ _ _ Hj0).
        rewrite blen_firstn_0. f_equal. lia. }
      assert (Hge : ple (if c =? 10 then (line + 1, 0) else (line, col + utf16_len c)) (sl, sc) /\ idx + 1 <= i).
      { destruct (c =? 10); apply lookup_ge in Hi; exact Hi. }
      destruct Hge as [Hle Hi1].
      apply lookup_head in Hj as [(_ & _ & ->)|(_ & Hj)]; [lia|].
      assert (Hj1 : idx + 1 <= j) by lia.
      rewrite cscan_step_plain by (try exact Hc; try exact Ha; exact Hle).
      rewrite !blen_firstn_S by assumption.
      destruct (c =? 10) eqn:E10.
      + rewrite (IH Hg' _ _ _ _ _ _ Hi Hj Hij). replace c with 10 by lia. change (len8 10) with 1. f_equal; lia.
      + rewrite (IH Hg' _ _ _ _ _ _ Hi Hj Hij). f_equal; lia.
    - pose proof (text_ok_crlf _ _ Hg) as Hg'.
      pose proof Hj as Hj0.
      rewrite positions_crlf in Hi, Hj.
      apply lookup_head in Hi as [(-> & -> & ->)|(Hne & Hi)].
      { rewrite cscan_start_here by reflexivity. rewrite (seek_end _ Hg _ _ _ _ _ _ Hj0).
        rewrite blen_firstn_0. f_equal. lia. }
      destruct (lookup_ge _ _ _ _ _ _ _ _ Hi) as [Hle Hi1].
      apply lookup_head in Hj as [(_ & _ & ->)|(_ & Hj)]; [lia|].
      rewrite cscan_step_crlf by exact Hle.
      rewrite (IH Hg' _ _ _ _ _ _ Hi Hj Hij).
      rewrite (blen_firstn_S 13 (10 :: t) i idx) by lia. rewrite (blen_firstn_S 10 t i (idx + 1)) by lia.
      rewrite (blen_firstn_S 13 (10 :: t) j idx) by lia. rewrite (blen_firstn_S 10 t j (idx + 1)) by lia.
      change (len8 13) with 1. change (len8 10) with 1. replace (idx + 1 + 1) with (idx + 2) by lia. f_equal; lia.
    - destruct (text_ok_cr _ _ Hg Hn) as [Hfx Hg'].
      pose proof Hj as Hj0.
      rewrite positions_cr in Hi, Hj by exact Hn.
      apply lookup_head in Hi as [(-> & -> & ->)|(Hne & Hi)].
      { rewrite cscan_start_here by reflexivity. rewrite (seek_end _ Hg _ _ _ _ _ _ Hj0).
        rewrite blen_firstn_0. f_equal. lia. }
      destruct (lookup_ge _ _ _ _ _ _ _ _ Hi) as [Hle Hi1].
      apply lookup_head in Hj as [(_ & _ & ->)|(_ & Hj)]; [lia|].
      rewrite cscan_step_cr by (try exact Hfx; try exact Hn; exact Hle).
      rewrite (IH Hg' _ _ _ _ _ _ Hi Hj Hij).
      rewrite (blen_firstn_S 13 t i idx) by lia. rewrite (blen_firstn_S 13 t j idx) by lia.
      change (len8 13) with 1. f_equal; lia.
  Qed.
End Agreement.

Lemma range_index_inv d r i j : range_index d r = Some (i, j) ->
  pos_index d (r_start r) = Some i /\ pos_index d (r_end r) = Some j /\ i <= j.
Proof.
  unfold range_index. destruct (pos_index d (r_start r)) as [i'|]; [|discriminate].
  destruct (pos_index d (r_end r)) as [j'|]; [|discriminate].
  destruct (i' <=? j') eqn:E; [|discriminate]. intros H. injection H as <- <-. repeat split. lia.
Qed.

(* The scan agrees with the LSP reading of the range, for every document in the class `text_ok fx` *)
Theorem offset_agrees : forall fx d r i j,
  forallb scalar d = true -> text_ok fx d = true -> range_index d r = Some (i, j) ->
  offset_gen fx (utf8_of d) r = OffOk (blen (firstn (N.to_nat i) d)) (blen (firstn (N.to_nat j) d)).
Proof.
  intros fx d r i j Hs Hg Hr. apply range_index_inv in Hr as (Hi & Hj & Hij).
  unfold offset_gen. rewrite scan_cscan by (apply forallb_scalar_ucp, Hs).
  unfold pos_index in Hi, Hj.
  rewrite (seek_start fx _ _ _ _ d Hg 0 0 0 0 i j Hi Hj Hij).
  rewrite !N.sub_0_r. reflexivity.
Qed.

Lemma offset_agrees_deployed : forall d r i j,
  forallb scalar d = true -> no_astral d = true -> no_lone_cr d = true -> range_index d r = Some (i, j) ->
  offset_for_start_end (utf8_of d) r = OffOk (blen (firstn (N.to_nat i) d)) (blen (firstn (N.to_nat j) d)).
Proof.
  intros d r i j Hs Ha Hc. apply offset_agrees; [exact Hs|]. unfold text_ok. rewrite Ha, Hc. reflexivity.
Qed.

Lemma offset_agrees_fixed : forall d r i j,
  forallb scalar d = true -> range_index d r = Some (i, j) ->
  offset_gen true (utf8_of d) r = OffOk (blen (firstn (N.to_nat i) d)) (blen (firstn (N.to_nat j) d)).
Proof. intros d r i j Hs Hr. apply offset_agrees; [exact Hs|reflexivity|exact Hr]. Qed.

Corollary offset_agrees_spec : forall fx d r,
  forallb scalar d = true -> text_ok fx d = true -> spec_offsets d r <> None ->
  match offset_gen fx (utf8_of d) r with OffOk s e => Some (s, e) | OffErr _ => None end = spec_offsets d r.
Proof.
  intros fx d r Hs Hg Hn. unfold spec_offsets in *.
  destruct (range_index d r) as [[i j]|] eqn:E; [|congruence].
  rewrite (offset_agrees fx d r i j Hs Hg E). reflexivity.
Qed.

(* ---------- sanity of the specification: the position table is strictly increasing ---------- *)
From Coq Require Import Sorted.
Definition entry_lt (a b : N * N * N) : Prop :=
  plt (fst (fst a), snd (fst a)) (fst (fst b), snd (fst b)) /\ snd a < snd b.

Lemma positions_increasing d : forall ac line col idx, StronglySorted entry_lt (positions d ac line col idx).
Proof.
  induction d as [|x t IH]; intros ac line col idx.
  - cbn [positions]. constructor; constructor.
  - cbn [positions]. destruct (ac && (x =? 10)); [apply IH|].
    assert (Hu : 1 <= utf16_len x) by (unfold utf16_len; destruct (x <? 65536); lia).
    constructor.
    + destruct (x =? 10); [apply IH|]. destruct (x =? 13); apply IH.
    + apply Forall_forall. intros [[l c] i] Hin. unfold entry_lt, plt. cbn [fst snd].
      destruct (x =? 10); [apply positions_ge in Hin; unfold ple in Hin; cbn [fst snd] in Hin; lia|].
      destruct (x =? 13); apply positions_ge in Hin; unfold ple in Hin; cbn [fst snd] in Hin; lia.
Qed.
