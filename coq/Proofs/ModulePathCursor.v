(* The head of stringutil.GetOpenFileStr: which quoted module string the cursor is in (Model/ModulePath.v cursor_pick).
   The repaired code (fixes/C18-string-cursor.diff, cursor_pick true) answers by the POSITION of the literal of each
   regular-expression match: it finds a string exactly when some matched import expression has its literal around the
   cursor column, whatever the rest of the line looks like and whatever pos.Character is; the code before it
   (cursor_pick false) searched for the TEXT of the expression and of the string (witnesses in Properties/C18.v).
   features_agree_cursor composes the step with features_agree_scored: from the cursor to the file. *)
From Coq Require Import List Arith PeanoNat NArith ZArith Bool Lia.
From LH Require Import Base.Bytes Model.FileIndex Model.ModulePath Spec.ModuleSpec
  Proofs.FileIndexProofs Proofs.ModulePathStr Proofs.MergeDet Proofs.ModulePathProofs Proofs.ModulePathEvents
  Proofs.ModulePathScore.
Import ListNotations.

Definition all_occs (groups : list (ipat * list occ)) : list occ := flat_map snd groups.

Definition span_eqb (o o' : occ) : bool :=
  Nat.eqb (lit_begin o) (lit_begin o') && Nat.eqb (lit_end o) (lit_end o').

(* the matches whose literal holds column col all have the same literal (true of the oracle's answers: the matches of
   one pattern do not overlap, and two patterns that match at the same place quote the same string) *)
Definition one_span (col : nat) (groups : list (ipat * list occ)) : bool :=
  forallb (fun o => forallb (fun o' => negb (hit_pos col o && hit_pos col o') || span_eqb o o') (all_occs groups))
          (all_occs groups).

Lemma pick_pos_some line col p os r : pick_pos line col p os = Some r ->
  exists o, In o os /\ hit_pos col o = true /\ r = (p, occ_lit line o).
Proof.
  induction os as [|o os IH]; cbn [pick_pos]; [discriminate|].
  destruct (hit_pos col o) eqn:E.
  - intros H. injection H as <-. exists o. split; [left; reflexivity|]. split; [exact E|reflexivity].
  - intros H. destruct (IH H) as [o' [Hin [Hh Hr]]]. exists o'. split; [right; exact Hin|]. split; assumption.
Qed.

Lemma pick_pos_none line col p os : pick_pos line col p os = None <-> forall o, In o os -> hit_pos col o = false.
Proof.
  induction os as [|o os IH]; cbn [pick_pos].
  - split; [intros _ o []|reflexivity].
  - destruct (hit_pos col o) eqn:E.
    + split; [discriminate|]. intros H. rewrite (H o (or_introl eq_refl)) in E. discriminate.
    + rewrite IH. split.
      * intros H o' [<-|Hin]; [exact E|apply H; exact Hin].
      * intros H o' Hin. apply H. right. exact Hin.
Qed.

(* soundness: an answer is the literal of a match that holds the cursor *)
Theorem cursor_pick_fixed_sound line col ch groups p s :
  cursor_pick true line col ch groups = Some (p, s) ->
  exists os o, In (p, os) groups /\ In o os /\ hit_pos col o = true /\ s = occ_lit line o.
Proof.
  induction groups as [|[p0 os0] rest IH]; cbn [cursor_pick]; [discriminate|].
  destruct (pick_pos line col p0 os0) as [r|] eqn:E.
  - intros H. injection H as ->. apply pick_pos_some in E as [o [Hin [Hh Hr]]]. injection Hr as -> ->.
    exists os0, o. split; [left; reflexivity|]. repeat split; assumption.
  - intros H. destruct (IH H) as [os [o [Hg [Hin [Hh Hs]]]]]. exists os, o. split; [right; exact Hg|]. repeat split; assumption.
Qed.

(* completeness: nothing is answered only when no matched expression has its literal around the cursor *)
Theorem cursor_pick_fixed_none line col ch groups :
  cursor_pick true line col ch groups = None <-> forall o, In o (all_occs groups) -> hit_pos col o = false.
Proof.
  induction groups as [|[p0 os0] rest IH]; cbn [cursor_pick all_occs flat_map snd].
  - split; [intros _ o []|reflexivity].
  - destruct (pick_pos line col p0 os0) as [r|] eqn:E.
    + split; [discriminate|]. intros H. apply pick_pos_some in E as [o [Hin [Hh _]]].
      rewrite (H o) in Hh; [discriminate|]. apply in_or_app. left. exact Hin.
    + rewrite IH. rewrite pick_pos_none in E. split.
      * intros H o Hin. apply in_app_or in Hin as [Hin|Hin]; [apply E; exact Hin|apply H; exact Hin].
      * intros H o Hin. apply H. apply in_or_app. right. exact Hin.
Qed.

Lemma span_eqb_lit line o o' : span_eqb o o' = true -> occ_lit line o = occ_lit line o'.
Proof.
  unfold span_eqb, occ_lit. intros H. apply andb_true_iff in H as [H1 H2].
  apply Nat.eqb_eq in H1, H2. rewrite H1, H2. reflexivity.
Qed.

(* the cursor at ANY column of the literal of ANY matched import expression gets that literal *)
Theorem cursor_pick_fixed_exact line col ch groups o :
  one_span col groups = true -> In o (all_occs groups) -> hit_pos col o = true ->
  exists p, cursor_pick true line col ch groups = Some (p, occ_lit line o).
Proof.
  intros H1 Hin Hh. destruct (cursor_pick true line col ch groups) as [[p s]|] eqn:E.
  - exists p. apply cursor_pick_fixed_sound in E as [os [o' [Hg [Hin' [Hh' ->]]]]].
    assert (In o' (all_occs groups)) as Hall.
    { unfold all_occs. apply in_flat_map. exists (p, os). split; [exact Hg|exact Hin']. }
    unfold one_span in H1. rewrite forallb_forall in H1. specialize (H1 o Hin). rewrite forallb_forall in H1.
    specialize (H1 o' Hall). rewrite Hh, Hh' in H1. cbn in H1. rewrite (span_eqb_lit line o o' H1). reflexivity.
  - rewrite cursor_pick_fixed_none in E. rewrite (E o Hin) in Hh. discriminate.
Qed.

(* the repaired step looks at nothing but the positions: not at pos.Character, not at the text of the line *)
Theorem cursor_pick_fixed_positions line line' col ch ch' groups :
  option_map fst (cursor_pick true line col ch groups) = option_map fst (cursor_pick true line' col ch' groups) /\
  (cursor_pick true line col ch groups = None <-> cursor_pick true line' col ch' groups = None).
Proof.
  split.
  - induction groups as [|[p0 os0] rest IH]; cbn [cursor_pick]; [reflexivity|].
    assert (option_map fst (pick_pos line col p0 os0) = option_map fst (pick_pos line' col p0 os0) /\
            (pick_pos line col p0 os0 = None <-> pick_pos line' col p0 os0 = None)) as [Ha Hb].
    { split; [|rewrite !pick_pos_none; reflexivity].
      induction os0 as [|o os0 IHo]; cbn [pick_pos]; [reflexivity|]. destruct (hit_pos col o); [reflexivity|exact IHo]. }
    destruct (pick_pos line col p0 os0) as [r|], (pick_pos line' col p0 os0) as [r'|]; try exact Ha; try exact IH.
    + destruct Hb as [_ Hb]. specialize (Hb eq_refl). discriminate.
    + destruct Hb as [Hb _]. specialize (Hb eq_refl). discriminate.
  - rewrite !cursor_pick_fixed_none. reflexivity.
Qed.

(* ---- from the cursor to the file: definition / hover = analysis ---- *)
Theorem features_agree_cursor disk cfg st files cur line col ch groups m :
  index_ok true st files -> all_lua files = true ->
  exact_mode cfg = false -> dotslash_fixed cfg = true -> order_fixed cfg = true -> cursor_fixed cfg = true ->
  cursor_pick true line col ch groups = Some (PRequire, m) ->
  let m' := remove_pre_str m in
  m' <> [] ->
  mem_bytes m' (ignore_refer cfg) = false -> mem_bytes m' (ignore_modules cfg) = false ->
  disk (complete_path (main_dir cfg) (doc_so m')) = false ->
  let out := check_refer disk cfg st cur KRequire m in
  let oo := open_outcomes cfg st (fun f => fmem f files) cur (cursor_list cfg line col ch groups) in
  (r_resolved out = [] /\ oo = [None]) \/
  (exists it c, r_resolved out = [c] /\ oo = [Some (it, c)] /\ path_suffix it c = true /\ In c files /\
                (it = doc_lua m' \/ it = doc_init m')).
Proof.
  intros Hok Hlua He Hds Hfx Hcf Hpick. cbv zeta. intros Hm Hi1 Hi2 Hso.
  unfold cursor_list. rewrite Hcf, Hpick. cbn [pat_init pat_need_suffix].
  exact (features_agree_scored disk cfg st files cur m Hok Hlua He Hds Hfx Hm Hi1 Hi2 Hso).
Qed.
