(* Lemmas about Model/FileIndex.v: the index as a state machine refines "index of the set of files".
   - repaired RemoveOneFile: for every history (fixed_refines)
   - RemoveOneFile as written: removal is a no-op on absolute paths, so the index is the index of every file
     EVER created (unfixed_exact); it refines the file set exactly when no deleted file is still missing. *)
From Coq Require Import List NArith Bool Lia.
From LH Require Import Base.Bytes Model.FileIndex Spec.ModuleSpec.
Import ListNotations.
Local Open Scope N_scope.

(* ---- byte-string equality ---- *)
Lemma beq_refl a : beq_bytes a a = true.
Proof. apply beq_bytes_eq. reflexivity. Qed.

Lemma beq_false a b : beq_bytes a b = false <-> a <> b.
Proof.
  split.
  - intros H E. subst. rewrite beq_refl in H. discriminate.
  - intros H. destruct (beq_bytes a b) eqn:E; [|reflexivity]. apply beq_bytes_eq in E. contradiction.
Qed.

Lemma beq_sym a b : beq_bytes a b = beq_bytes b a.
Proof.
  destruct (beq_bytes a b) eqn:E.
  - apply beq_bytes_eq in E. subst. symmetry. apply beq_refl.
  - symmetry. apply beq_false. apply beq_false in E. congruence.
Qed.

Ltac beq_cases a b H :=
  destruct (beq_bytes a b) eqn:H;
  [apply beq_bytes_eq in H | pose proof (proj1 (beq_false _ _) H)].

(* ---- association lists ---- *)
Lemma aget_aset {V} k k' (v : V) m :
  aget k (aset k' v m) = if beq_bytes k k' then Some v else aget k m.
Proof.
  induction m as [|[k0 v0] m IH]; simpl.
  - destruct (beq_bytes k k'); reflexivity.
  - destruct (beq_bytes k' k0) eqn:E0; simpl.
    + apply beq_bytes_eq in E0. subst k0. destruct (beq_bytes k k'); reflexivity.
    + destruct (beq_bytes k k0) eqn:E1.
      * apply beq_bytes_eq in E1. subst k0. rewrite beq_sym, E0. reflexivity.
      * exact IH.
Qed.

Lemma aget_adel {V} k k' (m : amap V) :
  aget k (adel k' m) = if beq_bytes k k' then None else aget k m.
Proof.
  induction m as [|[k0 v0] m IH]; simpl.
  - destruct (beq_bytes k k'); reflexivity.
  - destruct (beq_bytes k' k0) eqn:E0; simpl.
    + apply beq_bytes_eq in E0. subst k0. rewrite IH. destruct (beq_bytes k k'); reflexivity.
    + destruct (beq_bytes k k0) eqn:E1.
      * apply beq_bytes_eq in E1. subst k0. rewrite beq_sym, E0. reflexivity.
      * exact IH.
Qed.

(* two-level lookup *)
Definition look (outer : amap (amap (list N))) (n f : list N) : option (list N) :=
  aget f (match aget n outer with Some m => m | None => [] end).

Lemma look_inner_set outer name path pre n f :
  look (inner_set outer name path pre) n f =
  if beq_bytes n name && beq_bytes f path then Some pre else look outer n f.
Proof.
  unfold look, inner_set.
  destruct (aget name outer) as [inner|] eqn:E; rewrite aget_aset;
    destruct (beq_bytes n name) eqn:En; simpl; try reflexivity.
  - apply beq_bytes_eq in En. subst n. rewrite E. rewrite aget_aset. reflexivity.
  - apply beq_bytes_eq in En. subst n. rewrite E. simpl. destruct (beq_bytes f path); reflexivity.
Qed.

Lemma look_inner_del outer name key n f :
  look (inner_del outer name key) n f =
  if beq_bytes n name && beq_bytes f key then None else look outer n f.
Proof.
  unfold look, inner_del.
  destruct (aget name outer) as [inner|] eqn:E.
  - rewrite aget_aset. destruct (beq_bytes n name) eqn:En; simpl; [|reflexivity].
    apply beq_bytes_eq in En. subst n. rewrite E. apply aget_adel.
  - destruct (beq_bytes n name) eqn:En; simpl; [|reflexivity].
    apply beq_bytes_eq in En. subst n. rewrite E. simpl. destruct (beq_bytes f key); reflexivity.
Qed.

Lemma get_name_look st n f : aget f (get_name_map st n) = look (by_name st) n f.
Proof. reflexivity. Qed.
Lemma get_pre_look st n f : aget f (get_pre_map st n) = look (by_pre st) n f.
Proof. reflexivity. Qed.

(* ---- file sets ---- *)
Lemma fmem_fadd f p s : fmem f (fadd p s) = beq_bytes f p || fmem f s.
Proof. reflexivity. Qed.

Lemma fmem_fdel f p s : fmem f (fdel p s) = negb (beq_bytes f p) && fmem f s.
Proof.
  unfold fmem, fdel. induction s as [|g s IH]; simpl.
  - rewrite andb_false_r. reflexivity.
  - destruct (beq_bytes p g) eqn:E; simpl.
    + apply beq_bytes_eq in E. subst g. rewrite IH. destruct (beq_bytes f p); reflexivity.
    + rewrite IH. destruct (beq_bytes f g) eqn:E2; simpl.
      * apply beq_bytes_eq in E2. subst g. rewrite beq_sym, E. reflexivity.
      * reflexivity.
Qed.

(* ---- one step of the index ---- *)
Lemma insert_name sfx st p n f :
  look (by_name (idx_insert sfx p st)) n f =
  if beq_bytes n (last_seg p) && beq_bytes f p then Some (complete_pre_fx sfx p) else look (by_name st) n f.
Proof.
  unfold idx_insert. destruct (suffix_index sfx (last_seg p)); simpl; apply look_inner_set.
Qed.

Lemma insert_pre sfx st p n f :
  look (by_pre (idx_insert sfx p st)) n f =
  match suffix_index sfx (last_seg p) with
  | Some i => if beq_bytes n (firstn i (last_seg p)) && beq_bytes f p then Some (complete_pre_fx sfx p)
              else look (by_pre st) n f
  | None => look (by_pre st) n f
  end.
Proof.
  unfold idx_insert. destruct (suffix_index sfx (last_seg p)); simpl; [apply look_inner_set|reflexivity].
Qed.

Lemma remove_fixed_name sfx st p n f :
  look (by_name (idx_remove_fixed sfx p st)) n f =
  if beq_bytes n (last_seg p) && beq_bytes f p then None else look (by_name st) n f.
Proof.
  unfold idx_remove_fixed. destruct (suffix_index sfx (last_seg p)); simpl; apply look_inner_del.
Qed.

Lemma remove_fixed_pre sfx st p n f :
  look (by_pre (idx_remove_fixed sfx p st)) n f =
  match suffix_index sfx (last_seg p) with
  | Some i => if beq_bytes n (firstn i (last_seg p)) && beq_bytes f p then None else look (by_pre st) n f
  | None => look (by_pre st) n f
  end.
Proof.
  unfold idx_remove_fixed. destruct (suffix_index sfx (last_seg p)); simpl; [apply look_inner_del|reflexivity].
Qed.

Lemma remove_name sfx st p n f :
  look (by_name (idx_remove sfx p st)) n f =
  if beq_bytes n (last_seg p) && beq_bytes f (last_seg p) then None else look (by_name st) n f.
Proof.
  unfold idx_remove. destruct (suffix_index sfx (last_seg p)); simpl; apply look_inner_del.
Qed.

Lemma remove_pre sfx st p n f :
  look (by_pre (idx_remove sfx p st)) n f =
  match suffix_index sfx (last_seg p) with
  | Some i => if beq_bytes n (firstn i (last_seg p)) && beq_bytes f (firstn i (last_seg p)) then None
              else look (by_pre st) n f
  | None => look (by_pre st) n f
  end.
Proof.
  unfold idx_remove. destruct (suffix_index sfx (last_seg p)); simpl; [apply look_inner_del|reflexivity].
Qed.

(* ---- refinement steps ---- *)
Definition index_is' (sfx : bool) (st : idx) (s : fset) : Prop :=
  forall n f, look (by_name st) n f = spec_name sfx s n f /\ look (by_pre st) n f = spec_pre sfx s n f.

Lemma index_is_iff sfx st s : index_is sfx st s <-> index_is' sfx st s.
Proof. unfold index_is, index_is'. split; intros H n f; exact (H n f). Qed.

Lemma index_is_empty sfx : index_is' sfx idx_empty [].
Proof. intros n f. split; reflexivity. Qed.

Lemma insert_refines sfx st s p : index_is' sfx st s -> index_is' sfx (idx_insert sfx p st) (fadd p s).
Proof.
  intros H n f. destruct (H n f) as [Hn Hp]. split.
  - rewrite insert_name, Hn. unfold spec_name. rewrite fmem_fadd.
    beq_cases f p Ef; simpl.
    + subst f. rewrite (beq_sym n). destruct (beq_bytes (last_seg p) n); simpl; [reflexivity|].
      rewrite andb_false_r. reflexivity.
    + rewrite andb_false_r. reflexivity.
  - rewrite insert_pre, Hp. unfold spec_pre. rewrite fmem_fadd.
    beq_cases f p Ef; simpl.
    + subst f. destruct (suffix_index sfx (last_seg p)) as [i|]; [|destruct (fmem p s); reflexivity].
      rewrite (beq_sym n). destruct (beq_bytes (firstn i (last_seg p)) n); simpl; [reflexivity|].
      destruct (fmem p s); reflexivity.
    + destruct (suffix_index sfx (last_seg p)); [rewrite andb_false_r|]; reflexivity.
Qed.

Lemma remove_fixed_refines sfx st s p : index_is' sfx st s -> index_is' sfx (idx_remove_fixed sfx p st) (fdel p s).
Proof.
  intros H n f. destruct (H n f) as [Hn Hp]. split.
  - rewrite remove_fixed_name, Hn. unfold spec_name. rewrite fmem_fdel.
    beq_cases f p Ef; simpl.
    + subst f. rewrite (beq_sym n). destruct (beq_bytes (last_seg p) n); simpl; [reflexivity|].
      rewrite andb_false_r. reflexivity.
    + rewrite andb_false_r. reflexivity.
  - rewrite remove_fixed_pre, Hp. unfold spec_pre. rewrite fmem_fdel.
    beq_cases f p Ef; simpl.
    + subst f. destruct (suffix_index sfx (last_seg p)) as [i|]; [|destruct (fmem p s); reflexivity].
      rewrite (beq_sym n). destruct (beq_bytes (firstn i (last_seg p)) n); simpl; [reflexivity|].
      destruct (fmem p s); reflexivity.
    + destruct (suffix_index sfx (last_seg p)); [rewrite andb_false_r|]; reflexivity.
Qed.

(* ---- whole histories ---- *)
Lemma fixed_refines_from sfx ops : forall st s, index_is' sfx st s ->
  index_is' sfx (fold_left (idx_step_fixed_g sfx) ops st) (fold_left files_step ops s).
Proof.
  induction ops as [|o ops IH]; intros st s H; simpl; [exact H|].
  apply IH. destruct o; simpl; [apply insert_refines|apply remove_fixed_refines]; exact H.
Qed.

Theorem fixed_refines sfx ops : index_is sfx (idx_run_fixed_g sfx ops) (files_after ops).
Proof. apply index_is_iff. apply fixed_refines_from. apply index_is_empty. Qed.

(* ---- the code as written ---- *)

Lemma split_on_nonempty c s : split_on c s <> [].
Proof.
  destruct s as [|x t]; simpl; [discriminate|].
  destruct (x =? c); [discriminate|]. destruct (split_on c t); discriminate.
Qed.

(* no element of Split(s, c) contains c *)
Lemma split_on_no_sep c s : forall seg, In seg (split_on c s) -> ~ In c seg.
Proof.
  induction s as [|x t IH]; simpl; intros seg Hin.
  - destruct Hin as [<-|[]]. intros [].
  - destruct (x =? c) eqn:E.
    + destruct Hin as [<-|Hin]; [intros []|]. apply IH. exact Hin.
    + destruct (split_on c t) as [|h r] eqn:Es.
      * destruct Hin as [<-|[]]. intros [Hx|[]]. subst. rewrite N.eqb_refl in E. discriminate.
      * destruct Hin as [<-|Hin].
        -- intros [Hx|Hx]; [subst; rewrite N.eqb_refl in E; discriminate|].
           apply (IH h); [left; reflexivity|exact Hx].
        -- apply IH. right. exact Hin.
Qed.

Lemma last_in {A} (l : list A) d : l <> [] -> In (last l d) l.
Proof.
  induction l as [|a l IH]; intros H; [contradiction|].
  destruct l as [|b l]; [left; reflexivity|].
  right. apply IH. discriminate.
Qed.

Lemma last_seg_no_slash p : ~ In slash (last_seg p).
Proof.
  unfold last_seg. apply (split_on_no_sep slash p). apply last_in. apply split_on_nonempty.
Qed.

Lemma abs_not_last_seg f p : abs_path f = true -> f <> last_seg p.
Proof.
  intros Ha E. destruct f as [|x t]; [discriminate|]. simpl in Ha. apply N.eqb_eq in Ha. subst x.
  apply (last_seg_no_slash p). rewrite <- E. left. reflexivity.
Qed.

Lemma firstn_in {A} n (l : list A) x : In x (firstn n l) -> In x l.
Proof.
  revert l; induction n as [|n IH]; intros [|a l] H; simpl in *; try contradiction.
  destruct H as [->|H]; [left; reflexivity|right; apply IH; exact H].
Qed.

Lemma abs_not_firstn_last_seg f p i : abs_path f = true -> f <> firstn i (last_seg p).
Proof.
  intros Ha E. destruct f as [|x t]; [discriminate|]. simpl in Ha. apply N.eqb_eq in Ha. subst x.
  apply (last_seg_no_slash p). apply (firstn_in i). rewrite <- E. left. reflexivity.
Qed.

Definition all_abs (s : fset) : Prop := forall f, fmem f s = true -> abs_path f = true.

(* on an index whose files are all absolute paths, RemoveOneFile changes no lookup at all *)
Lemma remove_noop sfx st s p : all_abs s -> index_is' sfx st s -> index_is' sfx (idx_remove sfx p st) s.
Proof.
  intros Habs H n f. destruct (H n f) as [Hn Hp]. split.
  - rewrite remove_name. destruct (beq_bytes n (last_seg p) && beq_bytes f (last_seg p)) eqn:E; [|exact Hn].
    apply andb_true_iff in E as [_ E2]. apply beq_bytes_eq in E2.
    unfold spec_name. destruct (fmem f s) eqn:Em; [|reflexivity].
    exfalso. apply (abs_not_last_seg f p); [apply Habs; exact Em|exact E2].
  - rewrite remove_pre. destruct (suffix_index sfx (last_seg p)) as [i|]; [|exact Hp].
    destruct (beq_bytes n (firstn i (last_seg p)) && beq_bytes f (firstn i (last_seg p))) eqn:E; [|exact Hp].
    apply andb_true_iff in E as [_ E2]. apply beq_bytes_eq in E2.
    unfold spec_pre. destruct (fmem f s) eqn:Em; [|reflexivity].
    exfalso. apply (abs_not_firstn_last_seg f p i); [apply Habs; exact Em|exact E2].
Qed.

Lemma all_abs_fadd p s : abs_path p = true -> all_abs s -> all_abs (fadd p s).
Proof.
  intros Hp Hs f Hf. rewrite fmem_fadd in Hf. apply orb_true_iff in Hf as [Hf|Hf].
  - apply beq_bytes_eq in Hf. subst. exact Hp.
  - apply Hs. exact Hf.
Qed.

Lemma unfixed_exact_from sfx ops : forall st s, abs_ops ops = true -> all_abs s -> index_is' sfx st s ->
  index_is' sfx (fold_left (idx_step_g sfx) ops st) (fold_left ever_step ops s).
Proof.
  induction ops as [|o ops IH]; intros st s Ha Hs H; simpl; [exact H|].
  simpl in Ha. apply andb_true_iff in Ha as [Ho Ha].
  destruct o as [p|p]; simpl in *.
  - apply IH; [exact Ha|apply all_abs_fadd; assumption|apply insert_refines; exact H].
  - apply IH; [exact Ha|exact Hs|apply remove_noop; assumption].
Qed.

(* exact behaviour of the unchanged code: the index of every file ever created *)
Theorem unfixed_exact sfx ops : abs_ops ops = true -> index_is sfx (idx_run_g sfx ops) (ever_inserted ops).
Proof.
  intros Ha. apply index_is_iff. apply unfixed_exact_from; [exact Ha| |apply index_is_empty].
  intros f Hf. discriminate.
Qed.


Lemma spec_ext sfx s s' : (forall f, fmem f s = fmem f s') ->
  forall n f, spec_name sfx s n f = spec_name sfx s' n f /\ spec_pre sfx s n f = spec_pre sfx s' n f.
Proof. intros H n f. unfold spec_name, spec_pre. rewrite (H f). split; reflexivity. Qed.

Lemma files_sub_ever_from ops : forall s e, (forall f, fmem f s = true -> fmem f e = true) ->
  forall f, fmem f (fold_left files_step ops s) = true -> fmem f (fold_left ever_step ops e) = true.
Proof.
  induction ops as [|o ops IH]; intros s e H f; simpl; [apply H|].
  apply IH. intros g. destruct o as [p|p]; unfold files_step, ever_step.
  - rewrite !fmem_fadd. intros Hg. apply orb_true_iff in Hg as [Hg|Hg]; apply orb_true_iff; [left|right; apply H]; exact Hg.
  - rewrite fmem_fdel. intros Hg. apply andb_true_iff in Hg as [_ Hg]. apply H. exact Hg.
Qed.

Lemma fmem_existsb_neg (P : list N -> bool) (l : fset) :
  existsb (fun f => negb (P f)) l = false -> (forall f g, beq_bytes f g = true -> P f = P g) ->
  forall f, fmem f l = true -> P f = true.
Proof.
  intros He Hext f Hf. unfold fmem in Hf. apply existsb_exists in Hf as [g [Hin Hg]].
  rewrite (Hext f g Hg).
  destruct (P g) eqn:E; [reflexivity|].
  assert (existsb (fun f => negb (P f)) l = true) as Ht.
  { apply existsb_exists. exists g. split; [exact Hin|]. rewrite E. reflexivity. }
  congruence.
Qed.

Theorem unfixed_refines_guarded sfx ops :
  abs_ops ops = true -> stale_remove ops = false -> index_is sfx (idx_run_g sfx ops) (files_after ops).
Proof.
  intros Ha Hs. pose proof (unfixed_exact sfx ops Ha) as H.
  intros n f. destruct (H n f) as [H1 H2]. rewrite H1, H2.
  apply spec_ext. intros g.
  destruct (fmem g (ever_inserted ops)) eqn:Ee.
  - symmetry. apply (fmem_existsb_neg (fun f => fmem f (files_after ops)) (ever_inserted ops)); [exact Hs| |exact Ee].
    intros a b Hab. apply beq_bytes_eq in Hab. subst. reflexivity.
  - destruct (fmem g (files_after ops)) eqn:Ef; [|reflexivity].
    pose proof (files_sub_ever_from ops [] [] (fun f H => H) g Ef) as Hsub.
    unfold ever_inserted in Ee. rewrite Hsub in Ee. discriminate.
Qed.

(* insert-only histories never have a stale entry *)

Lemma insert_only_from sfx ops : forall st s, no_removes ops = true -> index_is' sfx st s ->
  index_is' sfx (fold_left (idx_step_g sfx) ops st) (fold_left files_step ops s).
Proof.
  induction ops as [|o ops IH]; intros st s Hn H; simpl; [exact H|].
  simpl in Hn. apply andb_true_iff in Hn as [Ho Hn]. destruct o as [p|p]; [|discriminate].
  apply IH; [exact Hn|]. apply insert_refines. exact H.
Qed.

Theorem unfixed_refines_insert_only sfx ops : no_removes ops = true -> index_is sfx (idx_run_g sfx ops) (files_after ops).
Proof. intros Hn. apply index_is_iff. apply insert_only_from; [exact Hn|apply index_is_empty]. Qed.
