(* C08 - the concrete "toy analysis" the correspondence check instantiates the abstract analyses with, and the
   observation functions printed by ocaml/c08_run.ml. Executable definitions only (extracted); no proofs.

   A text is a list of statements, one per line (harness/legs_c08.go renders exactly these lines):
     SL  `local v = 1`      unused local            -> type 4 at its line (first pass, reported at scope end)
     SC  `print(1)`         clean
     SS  `)`                syntax error            -> type 1 at its line (parser recovers on the next line)
     SD k `g<k> = 1`        defines global g<k>
     SU k `print(g<k>)`     uses global g<k>        -> third pass: nothing when this file defines g<k> on an earlier line;
                                                       when it defines it only later: type 3 ("crcular reference or load
                                                       order error, ...") unless ANOTHER included file defines g<k> as well
                                                       (then nothing: fix 1d8cbd1, definedInOtherFile walks the first-pass
                                                       tables of the other included files); else nothing when some included
                                                       file defines it; else type 2 ("var not define: g<k>")
     SR f `require("<f>")`  requires the module of file f -> type 6 at its line (first pass) unless the index resolves it
     SF n `function gf(a) end` (n = 1) / `function gf(a, b) end` (n = 2)    defines the global function gf with n parameters
     SG   `gf(1, 2, 3)`     calls gf                -> the name gf is looked up like g<k> above (type 3 / type 2, tag gf_tag),
                                                       then type 10 "gf call func param num(3) > func define param num(<n>)"
                                                       where n belongs to the first definition of this file when that lies
                                                       on an earlier line, else to the definition the third pass's global
                                                       table holds: every included file offers its first definition, the
                                                       smallest line wins, ties go to the first file in path order (the
                                                       documents outside the workspace, directory o/, sort before w/)
     SK j `---@class T<j>`  declares the annotation class T<j> (j = 1, 2)
                                                    -> type 18 "duplicate annotate type: T<j>" at its line when the project-wide
                                                       type table (createTypeMap, merged from every analysed file) holds more
                                                       than one declaration of T<j> (in this file or in any other)
     ST j `---@type T<j>`   uses the annotation type -> type 18 "not define annotate type: T<j>" at its line when the table
                                                       holds no declaration of T<j>
   The table is part of the abstract cross-file analysis `cross`: it is recomputed from the texts of the files the pass
   includes (rebuidCreateTypeMap + checkAllAnnotate at the end of HandleCheck / HandleFileEventChanges). In the list of a
   file the annotation diagnostics come after the first-pass ones and before those of the third pass (GetAllFileErrorInfo);
   the "not define" ones by line (RankCheckError), then the "duplicate" ones - the real server appends these while ranging
   over the Go map createTypeMap, so their mutual order is not determined: harness/c08_server.go sorts that run by line, as
   the toy analysis does.
   The server is started with exactly the checks 1, 2, 3, 4, 6, 10, 18 enabled.

   The third component of an `err` (the tag) stands for everything the client is shown beyond type and start line: the
   columns and the message text. The toy analysis gives every distinct (columns, text) of a type its own tag:
     type 1, 4: 0      type 6: the required file      type 2, 3: k for g<k>, gf_tag for gf      type 10: n
     type 18: 10 + j (not define T<j>), 20 + j (duplicate T<j>)
   ocaml/c08_run.ml renders the tag back to "<start col>,<end line>,<end col>:<message>" and prints a hash of that string;
   the implementation leg prints the same hash of what the real server published, so the correspondence check compares
   columns and message texts on every case. *)
From Coq Require Import List NArith Bool.
From LH Require Import Model.Diag Model.Events Spec.FreshStart.
Import ListNotations.
Local Open Scope N_scope.

Inductive stmt := SL | SC | SS | SD (k : N) | SU (k : N) | SR (f : file) | SF (n : N) | SG | SK (j : N) | ST (j : N).

Definition stmt_eqb (a b : stmt) : bool :=
  match a, b with
  | SL, SL | SC, SC | SS, SS | SG, SG => true
  | SD x, SD y | SU x, SU y | SR x, SR y | SF x, SF y | SK x, SK y | ST x, ST y => x =? y
  | _, _ => false
  end.
Fixpoint stmts_eqb (a b : list stmt) : bool :=
  match a, b with
  | [], [] => true
  | x :: a', y :: b' => stmt_eqb x y && stmts_eqb a' b'
  | _, _ => false
  end.

(* statements paired with their line numbers *)
Fixpoint numbered (i : N) (t : list stmt) : list (N * stmt) :=
  match t with [] => [] | s :: r => (i, s) :: numbered (N.succ i) r end.

Definition toy_syn (t : list stmt) : list err :=
  flat_map (fun p => match snd p with SS => [(1, fst p, 0)] | _ => [] end) (numbered 0 t).

Definition toy_first (t : list stmt) : list item :=
  map Own (toy_syn t) ++
  flat_map (fun p => match snd p with SR f => [Req f (6, fst p, f)] | _ => [] end) (numbered 0 t) ++
  flat_map (fun p => match snd p with SL => [Own (4, fst p, 0)] | _ => [] end) (numbered 0 t).

Definition toy_defs (ps : list (file * list stmt * list (option file))) : list N :=
  flat_map (fun x => flat_map (fun s => match s with SD k => [k] | _ => [] end) (snd (fst x))) ps.

Definition gf_tag : N := 100.

(* the lines on which a text defines g<k> / the first definition of gf in a text: (line, number of parameters) *)
Definition def_lines (k : N) (t : list stmt) : list N :=
  flat_map (fun p => match snd p with SD j => if j =? k then [fst p] else [] | _ => [] end) (numbered 0 t).
Definition gf_first (t : list stmt) : option (N * N) :=
  match flat_map (fun p => match snd p with SF n => [(fst p, n)] | _ => [] end) (numbered 0 t) with
  | [] => None
  | d :: _ => Some d
  end.

(* generateAllGlobalMaps visits the files in path order: o/p.lua o/q.lua w/a.lua .. w/d.lua *)
Definition path_rank (f : file) : N := if f <? 4 then f + 2 else f - 4.

(* JudgeShouldInsertGlobalInfo + FindThirdGlobalGInfo: a later file's definition replaces the earlier ones only when
   its line is strictly smaller; the last one inserted is the one found *)
Definition gf_global (ps : list (file * list stmt * list (option file))) : option (N * N) :=
  fold_left (fun best x => match gf_first (snd (fst x)) with
                           | None => best
                           | Some (ln, n) =>
                             let key := ln * 8 + path_rank (fst (fst x)) in
                             match best with
                             | Some (key0, _) => if key <? key0 then Some (key, n) else best
                             | None => Some (key, n)
                             end
                           end) ps None.

(* the look-up of a global name used at line i of a text that defines it on the lines `own`; `elsewhere` = the third
   pass's global table has it; `other` = an included file other than this one defines it (definedInOtherFile) *)
Definition name_errs (i : N) (own : list N) (elsewhere other : bool) (tag : N) : list err :=
  if existsb (fun j => j <? i) own then []
  else if negb (is_nil own) then (if other then [] else [(3, i, tag)])
  else if elsewhere then [] else [(2, i, tag)].

(* some included file other than f defines g<k> / defines gf *)
Definition other_defines (ps : list (file * list stmt * list (option file))) (f : file) (k : N) : bool :=
  existsb (fun x => negb (fst (fst x) =? f) && negb (is_nil (def_lines k (snd (fst x))))) ps.
Definition other_defines_gf (ps : list (file * list stmt * list (option file))) (f : file) : bool :=
  existsb (fun x => negb (fst (fst x) =? f) && match gf_first (snd (fst x)) with Some _ => true | None => false end) ps.

(* ---- annotation types (check 18) ---- *)
Definition undef_tag (j : N) : N := 10 + j.
Definition dup_tag (j : N) : N := 20 + j.

(* the lines on which a text declares the class T<j>; createTypeMap[T<j>] = the declarations of all the files *)
Definition class_lines (j : N) (t : list stmt) : list N :=
  flat_map (fun p => match snd p with SK i => if i =? j then [fst p] else [] | _ => [] end) (numbered 0 t).
Definition class_decls (ps : list (file * list stmt * list (option file))) (j : N) : list N :=
  flat_map (fun x => class_lines j (snd (fst x))) ps.

(* checkAllAnnotate on one text against the table of ps *)
Definition toy_ann (ps : list (file * list stmt * list (option file))) (t : list stmt) : list err :=
  flat_map (fun p => match snd p with
                     | ST j => if is_nil (class_decls ps j) then [(18, fst p, undef_tag j)] else []
                     | _ => []
                     end) (numbered 0 t) ++
  flat_map (fun p => match snd p with
                     | SK j => match class_decls ps j with _ :: _ :: _ => [(18, fst p, dup_tag j)] | _ => [] end
                     | _ => []
                     end) (numbered 0 t).

Definition toy_cross (ps : list (file * list stmt * list (option file))) (f : file) : list err :=
  let defs := toy_defs ps in
  let gg := gf_global ps in
  match find (fun x => fst (fst x) =? f) ps with
  | Some x =>
    let t := snd (fst x) in
    let own_gf := match gf_first t with Some (ln, _) => [ln] | None => [] end in
    toy_ann ps t ++
    flat_map (fun p => match snd p with
                       | SU k => name_errs (fst p) (def_lines k t) (existsb (N.eqb k) defs) (other_defines ps f k) k
                       | SG => name_errs (fst p) own_gf (match gg with Some _ => true | None => false end)
                                         (other_defines_gf ps f) gf_tag ++
                               match gf_first t, gg with
                               | Some (ln, n), Some (_, m) => [(10, fst p, if ln <? fst p then n else m)]
                               | None, Some (_, m) => [(10, fst p, m)]
                               | _, None => []
                               end
                       | _ => []
                       end) (numbered 0 t)
  | None => []
  end.

(* files 0..3 = a b c d inside the workspace, 4 5 = p q outside *)
Definition toy_in_dir (f : file) : bool := f <? 4.
(* multi-root workspace (configuration letter f of the case format): the directory of p q is a second workspace folder *)
Definition toy_all_in (f : file) : bool := true.

(* the toy analysis over a given DirManager.IsInDir. The deployed code's IsInDir does not depend on whether the client sent
   the PluginPath option (fix: an empty plugin path matches nothing), so histories with and without that option are
   predicted by the same instance: toyA for the single-root workspace, toyA_all for the two-folder one *)
Definition toyA_of (ind : file -> bool) : analysis :=
  {| text := list stmt; teqb := stmts_eqb; tempty := @is_nil stmt; syn := toy_syn; first := toy_first;
     cross := toy_cross; in_dir := ind |}.
Definition toyA : analysis := toyA_of toy_in_dir.
Definition toyA_all : analysis := toyA_of toy_all_in.

(* ---- observation of a run, step by step ---- *)
Definition toyU : list file := [0; 1; 2; 3; 4; 5].

Definition nonempty_over (g : file -> list err) : list (file * list err) :=
  flat_map (fun f => match g f with [] => [] | l => [(f, l)] end) toyU.

Inductive mode := MAll | MEnd | MNone.

Section Obs.
  Variable fx : fixes.
  Variable ind : file -> bool.
  Local Notation TA := (toyA_of ind).

  Definition spec_list (w : world TA) (v : emap) : list (file * list err) :=
    nonempty_over (fun f => let m := vget v f in
                            if constrained TA w f
                            then (let d := demanded TA fx w f in if perm_eqb d m then m else d)
                            else m).

  Definition step_obs := (list (file * list err) * option (list (file * list err)) * list (file * list err))%type.

  (* what the harness does for the "fresh" part: a server started on the disk of w, then told (didOpen) about the open
     documents outside the workspace, in file order *)
  Definition fresh_run (w : world TA) : list (file * list err) :=
    let opens := filter (fun f => negb (ind f) && ahas (ebuf w) f) toyU in
    nonempty_over (view (snd (run TA fx (disk w) (map (@AOpen TA) opens)))).

  Fixpoint obs_steps (md : mode) (w : world TA) (v : emap) (h : list (action TA)) : list step_obs :=
    let last := is_nil h in
    let want := is_nil (dirty w) && match md with MAll => true | MEnd => last | MNone => false end in
    let here := (nonempty_over (vget v),
                 (if want then Some (fresh_run w) else None),
                 spec_list w v) in
    here :: match h with
            | [] => []
            | a :: h' => let '(w', ps) := act TA fx w a in obs_steps md w' (vapply v ps) h'
            end.

  Definition toy_obs (md : mode) (dk : amap (list stmt)) (h : list (action TA)) : list step_obs :=
    let '(w0, ps0) := init_world TA fx dk in obs_steps md w0 (vapply [] ps0) h.

  Definition toy_conformant (dk : amap (list stmt)) (h : list (action TA)) : bool := conformant TA fx dk h.
  Definition toy_classes (dk : amap (list stmt)) (h : list (action TA)) : list N := classes TA fx dk h.
End Obs.
