(* C08 - the concrete "toy analysis" the correspondence check instantiates the abstract analyses with, and the
   observation functions printed by ocaml/c08_run.ml. Executable definitions only (extracted); no proofs.

   A text is a list of statements, one per line (harness/legs_c08.go renders exactly these lines):
     SL  `local v = 1`      unused local            -> type 4 at its line (first pass, reported at scope end)
     SC  `print(1)`         clean
     SS  `)`                syntax error            -> type 1 at its line (parser recovers on the next line)
     SD k `g<k> = 1`        defines global g<k>
     SU k `print(g<k>)`     uses global g<k>        -> type 2 at its line (third pass) unless some included file defines it
     SR f `require("<f>")`  requires the module of file f -> type 6 at its line (first pass) unless the index resolves it
   The server is started with exactly the checks 1, 2, 4, 6 enabled. *)
From Coq Require Import List NArith Bool.
From LH Require Import Model.Diag Model.Events Spec.FreshStart.
Import ListNotations.
Local Open Scope N_scope.

Inductive stmt := SL | SC | SS | SD (k : N) | SU (k : N) | SR (f : file).

Definition stmt_eqb (a b : stmt) : bool :=
  match a, b with
  | SL, SL | SC, SC | SS, SS => true
  | SD x, SD y | SU x, SU y | SR x, SR y => x =? y
  | _, _ => false
  end.
Fixpoint stmts_eqb (a b : list stmt) : bool :=
  match a, b with
  | [], [] => true
  | x :: a', y :: b' => stmt_eqb x y && stmts_eqb a' b'
  | _, _ => false
  end.

(* statements paired with their line numbers *)
Fixpoint numbered (i : N) (t : list stmt) : list (N * stmt) :=
  match t with [] => [] | s :: r => (i, s) :: numbered (N.succ i) r end.

Definition toy_syn (t : list stmt) : list err :=
  flat_map (fun p => match snd p with SS => [(1, fst p, 0)] | _ => [] end) (numbered 0 t).

Definition toy_first (t : list stmt) : list item :=
  map Own (toy_syn t) ++
  flat_map (fun p => match snd p with SR f => [Req f (6, fst p, f)] | _ => [] end) (numbered 0 t) ++
  flat_map (fun p => match snd p with SL => [Own (4, fst p, 0)] | _ => [] end) (numbered 0 t).

Definition toy_defs (ps : list (file * list stmt * list (option file))) : list N :=
  flat_map (fun x => flat_map (fun s => match s with SD k => [k] | _ => [] end) (snd (fst x))) ps.

Definition toy_cross (ps : list (file * list stmt * list (option file))) (f : file) : list err :=
  let defs := toy_defs ps in
  match find (fun x => fst (fst x) =? f) ps with
  | Some x => flat_map (fun p => match snd p with
                                 | SU k => if existsb (N.eqb k) defs then [] else [(2, fst p, k)]
                                 | _ => []
                                 end) (numbered 0 (snd (fst x)))
  | None => []
  end.

(* files 0..3 = a b c d inside the workspace, 4 5 = p q outside *)
Definition toy_in_dir (f : file) : bool := f <? 4.

Definition toyA : analysis :=
  {| text := list stmt; teqb := stmts_eqb; tempty := @is_nil stmt; syn := toy_syn; first := toy_first;
     cross := toy_cross; in_dir := toy_in_dir |}.

(* ---- observation of a run, step by step ---- *)
Definition toyU : list file := [0; 1; 2; 3; 4; 5].

Definition nonempty_over (g : file -> list err) : list (file * list err) :=
  flat_map (fun f => match g f with [] => [] | l => [(f, l)] end) toyU.

Inductive mode := MAll | MEnd | MNone.

Section Obs.
  Variable fx : fixes.

  Definition spec_list (w : world toyA) (v : emap) : list (file * list err) :=
    nonempty_over (fun f => let m := vget v f in
                            if constrained toyA w f
                            then (let d := demanded toyA fx w f in if perm_eqb d m then m else d)
                            else m).

  Definition step_obs := (list (file * list err) * option (list (file * list err)) * list (file * list err))%type.

  (* what the harness does for the "fresh" part: a server started on the disk of w, then told (didOpen) about the open
     documents outside the workspace, in file order *)
  Definition fresh_run (w : world toyA) : list (file * list err) :=
    let opens := filter (fun f => negb (toy_in_dir f) && ahas (ebuf w) f) toyU in
    nonempty_over (view (snd (run toyA fx (disk w) (map (@AOpen toyA) opens)))).

  Fixpoint obs_steps (md : mode) (w : world toyA) (v : emap) (h : list (action toyA)) : list step_obs :=
    let last := is_nil h in
    let want := is_nil (dirty w) && match md with MAll => true | MEnd => last | MNone => false end in
    let here := (nonempty_over (vget v),
                 (if want then Some (fresh_run w) else None),
                 spec_list w v) in
    here :: match h with
            | [] => []
            | a :: h' => let '(w', ps) := act toyA fx w a in obs_steps md w' (vapply v ps) h'
            end.

  Definition toy_obs (md : mode) (dk : amap (list stmt)) (h : list (action toyA)) : list step_obs :=
    let '(w0, ps0) := init_world toyA fx dk in obs_steps md w0 (vapply [] ps0) h.

  Definition toy_conformant (dk : amap (list stmt)) (h : list (action toyA)) : bool := conformant toyA fx dk h.
  Definition toy_classes (dk : amap (list stmt)) (h : list (action toyA)) : list N := classes toyA fx dk h.
End Obs.
