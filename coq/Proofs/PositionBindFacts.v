(* Position resolver = Lua's binder, part 3: static facts that tie the reference binder (b_exp / b_stat / b_block),
   the skeleton (sk_exp ...) and the marks (m2_exp ...) of the same program together. *)
From Coq Require Import List NArith ZArith Bool Lia.
From LH Require Import Base.Bytes Model.Lexer Model.Ast Model.Scope Model.Globals Model.Resolve Spec.LuaScope
  Proofs.PositionBindBase.
Import ListNotations.
Local Open Scope Z_scope.

(* an environment entry of the reference binder = an entry of the scope tree *)
Definition ent (v : ventry) : list N * loc * bool := (v_name v, v_loc v, v_empty v).

Lemma push_decls_eq en nls empties : push_decls en nls empties = rev (combine nls empties) ++ en.
Proof.
  unfold push_decls. generalize (combine nls empties). intros l. revert en.
  induction l as [|x r IH]; intros en; [reflexivity|]. cbn [fold_left rev]. rewrite IH, <- app_assoc. reflexivity.
Qed.

Definition lastc (es : list exp) : bool := match rev es with ECall _ _ _ _ :: _ => true | _ => false end.
Definition is_call (e : exp) : bool := match e with ECall _ _ _ _ => true | _ => false end.
Definition is_rnone (r : refexp) : bool := match r with RNone => true | _ => false end.

Fixpoint emp (es : list exp) (ns : list (list N)) (b : bool) {struct ns} : list bool :=
  match ns with
  | [] => []
  | n :: ns' => match es with
                | [] => negb b :: emp [] ns' b
                | e :: es' => refer_empty n e :: emp es' ns' b
                end
  end.

Lemma index_map_emp es b : forall ns i,
  index_map (fun i n => match nth_error es i with Some e => refer_empty n e | None => negb b end) i ns
  = emp (skipn i es) ns b.
Proof.
  induction ns as [|n ns' IH]; intros i; [reflexivity|]. cbn [index_map emp]. rewrite IH.
  destruct (nth_error es i) as [e|] eqn:E.
  - assert (Hs : skipn i es = e :: skipn (S i) es).
    { clear -E. revert es E. induction i as [|i IHi]; intros [|x r] E; cbn in *; try discriminate.
      - injection E as ->. reflexivity.
      - apply IHi. exact E. }
    rewrite Hs. reflexivity.
  - assert (Hs : skipn i es = []) by (apply skipn_all2; apply nth_error_None; exact E).
    assert (Hs' : skipn (S i) es = []) by (apply skipn_all2; apply nth_error_None in E; lia).
    rewrite Hs, Hs'. reflexivity.
Qed.

Lemma lastc_cons e es : es <> [] -> lastc (e :: es) = lastc es.
Proof.
  unfold lastc. cbn [rev]. intros H. destruct (rev es) as [|x r] eqn:E.
  - exfalso. apply H. apply (f_equal (@rev exp)) in E. rewrite rev_involutive in E. exact E.
  - reflexivity.
Qed.

Lemma call_ref_not_none e : is_call e = true -> is_rnone (ref_of_exp e) = false.
Proof. destruct e; cbn; intros H; try discriminate; reflexivity. Qed.

Lemma local_vars_ent b il : forall es ns ls lc,
  length ns = length ls ->
  ((es = [] /\ is_rnone lc = negb b) \/ (es <> [] /\ b = lastc es)) ->
  map ent (local_vars es (combine ns ls) lc il) = combine (combine ns ls) (emp es ns b).
Proof.
  induction es as [|e es' IH]; intros ns ls lc Hlen Hb.
  - destruct Hb as [[_ Hb]|[Hb _]]; [|congruence]. cbn [local_vars].
    revert ls Hlen. induction ns as [|n ns' IHn]; intros [|l ls'] Hlen; cbn [length] in Hlen; try reflexivity; try discriminate.
    cbn [combine map emp]. f_equal; [|apply IHn; lia].
    unfold ent. cbn [v_name v_loc v_empty fst snd]. f_equal. exact Hb.
  - destruct Hb as [[Hb _]|[_ Hb]]; [discriminate|].
    destruct ns as [|n ns']; destruct ls as [|l ls']; cbn in Hlen; try discriminate; [reflexivity|].
    cbn [combine local_vars map emp]. unfold ent at 1. cbn [v_name v_loc v_empty]. f_equal.
    apply IH; [lia|]. destruct es' as [|e2 r].
    + left. split; [reflexivity|]. subst b. unfold lastc. cbn. destruct e; reflexivity.
    + right. split; [discriminate|]. rewrite Hb. apply lastc_cons. discriminate.
Qed.

Lemma local_env ns ls es il :
  length ns = length ls ->
  map ent (rev (local_vars es (combine ns ls) RNone il)) = rev (combine (combine ns ls) (local_empties ns es)).
Proof.
  intros Hlen. rewrite map_rev. f_equal. unfold local_empties. fold (lastc es).
  rewrite (index_map_emp es (lastc es) ns O). cbn [skipn].
  apply local_vars_ent; [exact Hlen|]. destruct es as [|e r]; [left; split; reflexivity|right; split; [discriminate|reflexivity]].
Qed.

(* ---- the environment after a statement / a block = the skeleton's new variables on top *)
Lemma seq_stats_env (fs : list (env -> bres)) (segs : list env) : forall en,
  Forall2 (fun f seg => forall en0, fst (f en0) = seg ++ en0) fs segs ->
  fst (seq_stats fs en) = concat (rev segs) ++ en.
Proof.
  unfold seq_stats. intros en H.
  assert (Hgen : forall en1 os, fst (fold_left (fun (acc : bres) (f : env -> bres) =>
                   let (en1, os) := acc in let (en2, os2) := f en1 in (en2, os ++ os2)) fs (en1, os))
                 = concat (rev segs) ++ en1).
  { induction H as [|f seg fs' segs' Hf Hr IH]; intros en1 os; [reflexivity|].
    cbn [fold_left rev]. pose proof (Hf en1) as Hf1. destruct (f en1) as [en2 os2]. cbn [fst] in Hf1. subst en2.
    rewrite IH. rewrite concat_app. cbn [concat]. rewrite app_nil_r, <- app_assoc. reflexivity. }
  apply Hgen.
Qed.

Lemma env_after :
  (forall e, core_e e -> True) /\
  (forall s, core_s s -> forall flv slv reg en, fst (b_stat flv slv reg s en) = map ent (fst (sk_stat s)) ++ en) /\
  (forall b, core_b b -> forall flv slv reg en, fst (b_block flv slv reg b en) = map ent (fst (sk_block b)) ++ en).
Proof.
  apply core_ind3; try (intros; exact I); try (intros; reflexivity).
  - (* repeat *) intros b e l _ _ _ _ flv slv reg en. cbn [b_stat sk_stat fst].
    destruct (b_block flv (slv + 1) l b en). reflexivity.
  - (* local *) intros ns ls at_ es l _ Hlen _ _ flv slv reg en. cbn [b_stat sk_stat fst].
    rewrite push_decls_eq, local_env by exact Hlen. reflexivity.
  - (* block *) intros ss ret l _ IH _ _ flv slv reg en. cbn [b_block sk_block fst].
    assert (H : fst (seq_stats (map (fun s => b_stat flv slv reg s) ss) en)
                = concat (rev (map (fun s => map ent (fst (sk_stat s))) ss)) ++ en).
    { apply seq_stats_env. induction IH as [|s r Hs Hr IHr]; cbn [map]; constructor; auto. }
    destruct (seq_stats (map (fun s => b_stat flv slv reg s) ss) en) as [en1 os]. cbn [fst] in H.
    assert (E : map ent (concat (rev (map (fun s => fst (sk_stat s)) ss)))
                = concat (rev (map (fun s => map ent (fst (sk_stat s))) ss))).
    { rewrite concat_map, map_rev, map_map. reflexivity. }
    rewrite E. destruct ret; exact H.
Qed.

(* ------------------------------------------------------------------ occurrences up to class tags *)
Definition retag (o0 o : socc) : Prop :=
  s_loc o = s_loc o0 /\ s_name o = s_name o0 /\ s_bind o = s_bind o0 /\ s_role o = s_role o0 /\
  s_flv o = s_flv o0 /\ s_env o = s_env o0 /\ (s_cls o = [] -> o = o0).

Lemma retag_refl o : retag o o.
Proof. unfold retag. tauto. Qed.
Lemma retag_trans a b c : retag a b -> retag b c -> retag a c.
Proof.
  unfold retag. intros (A1 & A2 & A3 & A4 & A5 & A6 & A7) (B1 & B2 & B3 & B4 & B5 & B6 & B7).
  repeat split; try congruence. intros Hc. pose proof (B7 Hc) as E. subst c. apply A7. exact Hc.
Qed.
Lemma retag_add_tag t o : retag o (add_tag t o).
Proof. unfold retag, add_tag. cbn. repeat split; auto. discriminate. Qed.

Lemma in_tag_if c t os o :
  In o (tag_if c t os) -> exists o0, In o0 os /\ retag o0 o /\ (s_cls o = [] -> c o0 = false).
Proof.
  unfold tag_if. intros H. apply in_map_iff in H. destruct H as (o0 & E & Hin). exists o0. split; [exact Hin|].
  destruct (c o0) eqn:Ec; subst o.
  - split; [apply retag_add_tag|]. cbn. discriminate.
  - split; [apply retag_refl|]. auto.
Qed.

Lemma in_concat_index_map {X Y} (f : nat -> X -> list Y) (y : Y) : forall l i,
  In y (concat (index_map f i l)) -> exists k x, nth_error l k = Some x /\ In y (f (i + k)%nat x).
Proof.
  induction l as [|x r IH]; intros i H; cbn in H; [contradiction|].
  apply in_app_or in H. destruct H as [H|H].
  - exists O, x. rewrite Nat.add_0_r. split; [reflexivity|exact H].
  - destruct (IH (S i) H) as (k & x' & Hk & Hy). exists (S k), x'. split; [exact Hk|].
    replace (i + S k)%nat with (S i + k)%nat by lia. exact Hy.
Qed.

(* the CB4 tagger of b_stat (SAssign ...) *)
Definition b4f (vars es : list exp) (en : env) (i : nat) (os : list socc) : list socc :=
  match nth_error vars i, nth_error es i with
  | Some (EName n _), Some e =>
    match env_find en n, ref_of_exp e with
    | Some (_, d, true), (RFunc _ | RName _ | RCall _) =>
      tag_if (fun o => binding_eqb (s_bind o) (BLocal d) && loc_contains (exp_loc e) (s_loc o)) CB4 os
    | _, _ => os
    end
  | _, _ => os
  end.

Lemma in_b4f vars es en i os o : In o (b4f vars es en i os) -> exists o0, In o0 os /\ retag o0 o.
Proof.
  unfold b4f. intros H.
  assert (Hid : In o os -> exists o0, In o0 os /\ retag o0 o) by (intros Hi; exists o; split; [exact Hi|apply retag_refl]).
  destruct (nth_error vars i) as [v|]; [|auto]. destruct v; auto.
  destruct (nth_error es i) as [e|]; [|auto].
  destruct (env_find en n) as [[[n' d] fl]|]; [|auto]. destruct fl; [|auto].
  destruct (ref_of_exp e); auto; apply in_tag_if in H; destruct H as (o0 & H1 & H2 & _); exists o0; split; assumption.
Qed.

Lemma b_assign_eq flv slv reg vars es l en :
  snd (b_stat flv slv reg (SAssign vars es l) en) =
  concat (index_map (fun i v => match v with
                                | EName n l0 => b4f vars es en i [mkS l0 n (resolve en n) RWrite flv slv reg false [] en]
                                | EIndex p k _ => b_exp flv slv reg p en ++ b_exp flv slv reg k en
                                | _ => []
                                end) O vars)
  ++ concat (index_map (fun i eo => b4f vars es en i (snd eo)) O (map (fun e => (e, b_exp flv slv reg e en)) es)).
Proof. reflexivity. Qed.

Lemma nth_error_map_some {X Y} (f : X -> Y) l k y : nth_error (map f l) k = Some y -> exists x, nth_error l k = Some x /\ y = f x.
Proof.
  revert k. induction l as [|a r IH]; intros [|k] H; cbn in H; try discriminate.
  - injection H as H. exists a. split; [reflexivity|symmetry; exact H].
  - apply IH. exact H.
Qed.

(* occurrences of an assignment: a target or an occurrence of a right-hand side *)
Lemma in_b_assign flv slv reg vars es l en o :
  Forall (fun v => exists n ln, v = EName n ln /\ frag_name n = true) vars ->
  In o (snd (b_stat flv slv reg (SAssign vars es l) en)) ->
  (exists n ln, In (EName n ln) vars /\ retag (mkS ln n (resolve en n) RWrite flv slv reg false [] en) o) \/
  (exists e o0, In e es /\ In o0 (b_exp flv slv reg e en) /\ retag o0 o).
Proof.
  intros Hv H. rewrite b_assign_eq in H. apply in_app_or in H. destruct H as [H|H].
  - left. apply in_concat_index_map in H. destruct H as (k & v & Hk & Hy).
    pose proof (nth_error_In _ _ Hk) as Hin. rewrite Forall_forall in Hv. destruct (Hv v Hin) as (n & ln & E & _). subst v.
    apply in_b4f in Hy. destruct Hy as (o0 & [Ho0|[]] & Hr). subst o0. eauto.
  - right. apply in_concat_index_map in H. destruct H as (k & eo & Hk & Hy).
    apply nth_error_map_some in Hk. destruct Hk as (e & Hk & E). subst eo. cbn [snd] in Hy.
    apply in_b4f in Hy. destruct Hy as (o0 & Ho0 & Hr). exists e, o0. split; [eapply nth_error_In; eauto|auto].
Qed.

(* occurrences of a local statement: an occurrence of initialiser i or a declared name *)
Lemma in_b_local flv slv reg ns ls at_ es l en o :
  In o (snd (b_stat flv slv reg (SLocal ns ls at_ es l) en)) ->
  (exists i e o0, nth_error es i = Some e /\ In o0 (b_exp flv slv reg e en) /\ retag o0 o) \/
  (exists nl b, In (nl, b) (combine (combine ns ls) (local_empties ns es)) /\ o = decl_occ en flv slv reg b nl).
Proof.
  cbn [b_stat snd]. intros H. apply in_app_or in H. destruct H as [H|H].
  - left. apply in_concat_index_map in H. destruct H as (k & eo & Hk & Hy).
    apply nth_error_map_some in Hk. destruct Hk as (e & Hk & E). subst eo. cbn [fst snd plus] in Hy.
    unfold tag_local_init in Hy.
    exists k, e, o. split; [exact Hk|]. split; [exact Hy|apply retag_refl].
  - right. apply in_map_iff in H. destruct H as ([nl b] & E & Hin). cbn [fst snd] in E. eauto.
Qed.

(* occurrences of a block: an occurrence of a statement, evaluated in the environment that the statements before it
   leave, or of the return list, evaluated in the final environment *)
Definition seq_step (acc : bres) (f : env -> bres) : bres :=
  match acc with (en1, os) => match f en1 with (en2, os2) => (en2, os ++ os2) end end.
Lemma seq_stats_fold fs en : seq_stats fs en = fold_left seq_step fs (en, []).
Proof. reflexivity. Qed.

Lemma seq_fold_fst pre : forall en a b, fst (fold_left seq_step pre (en, a)) = fst (fold_left seq_step pre (en, b)).
Proof.
  induction pre as [|h t IHt]; intros en a b; [reflexivity|].
  cbn [fold_left seq_step]. destruct (h en) as [en3 os3]. apply IHt.
Qed.

Lemma in_seq_stats (fs : list (env -> bres)) o : forall en,
  In o (snd (seq_stats fs en)) ->
  exists pre f post, fs = pre ++ f :: post /\ In o (snd (f (fst (seq_stats pre en)))).
Proof.
  assert (Hgen : forall en1 os,
    In o (snd (fold_left seq_step fs (en1, os))) ->
    In o os \/ exists pre f post, fs = pre ++ f :: post /\ In o (snd (f (fst (fold_left seq_step pre (en1, [])))))).
  { induction fs as [|f r IH]; intros en1 os H; [left; exact H|].
    cbn [fold_left seq_step] in H. destruct (f en1) as [en2 os2] eqn:Ef.
    destruct (IH en2 (os ++ os2) H) as [Hin|(pre & g & post & E & Hin)].
    - apply in_app_or in Hin. destruct Hin as [Hin|Hin]; [left; exact Hin|].
      right. exists [], f, r. split; [reflexivity|]. cbn [fold_left fst]. rewrite Ef. exact Hin.
    - right. exists (f :: pre), g, post. split; [rewrite E; reflexivity|].
      cbn [fold_left seq_step]. rewrite Ef. cbn [app].
      rewrite (seq_fold_fst pre en2 os2 []). exact Hin. }
  intros en H. rewrite seq_stats_fold in H. destruct (Hgen en [] H) as [[]|Hx]. exact Hx.
Qed.

(* ------------------------------------------------------------------ where the marks of the skeleton are *)
Definition idm (l : loc) (ms : list mark) : Prop := In (MIdS l) ms /\ In (MIdE l) ms.
Definition opm (l : loc) (ms : list mark) : Prop := In (MOpen l) ms /\ In (MClose l) ms.
Definition refm (r : refexp) (ms : list mark) : Prop :=
  match r with RNone => True | RFunc l | RCall l => opm l ms | RName l => idm l ms end.
Definition scm (ms : list mark) (x : scope) : Prop := opm (scope_loc x) ms.
(* the initialiser region of a declared variable is marked, and the variable has no table exemption (fragment) *)
Definition initm (v : ventry) (ms : list mark) : Prop :=
  v_tab v = None /\ match v_init v with Some il => opm il ms | None => True end.
Definition vm (ms : list mark) (v : ventry) : Prop := idm (v_loc v) ms /\ refm (v_ref v) ms /\ initm v ms.

Lemma idm_mono l ms ms' : incl ms ms' -> idm l ms -> idm l ms'.
Proof. intros H [A B]. split; apply H; assumption. Qed.
Lemma opm_mono l ms ms' : incl ms ms' -> opm l ms -> opm l ms'.
Proof. intros H [A B]. split; apply H; assumption. Qed.
Lemma refm_mono r ms ms' : incl ms ms' -> refm r ms -> refm r ms'.
Proof. intros H. destruct r; cbn; auto; try apply opm_mono; try apply idm_mono; assumption. Qed.
Lemma scm_mono ms ms' l : incl ms ms' -> Forall (scm ms) l -> Forall (scm ms') l.
Proof. intros H. apply Forall_impl. intros x. apply opm_mono. exact H. Qed.
Lemma vm_mono ms ms' l : incl ms ms' -> Forall (vm ms) l -> Forall (vm ms') l.
Proof.
  intros H. apply Forall_impl. intros x [A [B [C D]]]. split; [eapply idm_mono; eauto|]. split; [eapply refm_mono; eauto|].
  split; [exact C|]. destruct (v_init x) as [il|]; [|exact I]. eapply opm_mono; eauto.
Qed.

Lemma ref_marks e : refm (ref_of_exp e) (m2_exp e).
Proof.
  destruct e; cbn [ref_of_exp refm]; auto.
  - cbn [m2_exp]. split; [left; reflexivity|]. right. apply in_or_app. right. apply in_or_app. right. left. reflexivity.
  - cbn [m2_exp id_marks]. split; [left; reflexivity|right; left; reflexivity].
  - cbn [m2_exp]. split; [left; reflexivity|]. right. apply in_or_app. right. apply in_or_app. right. left. reflexivity.
Qed.

Lemma incl_flat_map_in {X Y} (f : X -> list Y) l x : In x l -> incl (f x) (flat_map f l).
Proof. intros H y Hy. apply in_flat_map. eauto. Qed.

Lemma id_marks_idm l : idm l (id_marks l).
Proof. split; [left; reflexivity|right; left; reflexivity]. Qed.

Lemma plain_vars_vm ns ls ms : incl (flat_map id_marks ls) ms -> Forall (vm ms) (plain_vars ns ls).
Proof.
  intros H. unfold plain_vars. apply Forall_forall. intros v Hv. apply in_map_iff in Hv. destruct Hv as ([n l] & E & Hin).
  subst v. split; [|split; [exact I|split; [reflexivity|exact I]]]. cbn [v_loc snd]. apply in_combine_r in Hin.
  eapply idm_mono; [|apply id_marks_idm]. intros y Hy. apply H. apply in_flat_map. eauto.
Qed.

Lemma frag_tab e : frag_exp e = true -> tab_of_exp e = None.
Proof. destruct e; cbn; intros H; try reflexivity; discriminate. Qed.

Lemma local_vars_vm ms il : forall es nls lc,
  (forall e, In e es -> incl (m2_exp e) ms) -> (forall e, In e es -> tab_of_exp e = None) ->
  match il with Some i => opm i ms | None => True end ->
  refm lc ms -> (forall nl, In nl nls -> idm (snd nl) ms) ->
  Forall (vm ms) (local_vars es nls lc il).
Proof.
  induction es as [|e r IH]; intros nls lc He Ht Hil Hlc Hn; cbn [local_vars].
  - apply Forall_forall. intros v Hv. apply in_map_iff in Hv. destruct Hv as (nl & E & Hin). subst v.
    split; [apply Hn; exact Hin|]. split; [exact Hlc|]. split; [reflexivity|exact Hil].
  - destruct nls as [|[n nl] nls']; [constructor|]. constructor.
    + split; [apply (Hn (n, nl)); left; reflexivity|]. cbn [v_ref]. split.
      * eapply refm_mono; [apply He; left; reflexivity|apply ref_marks].
      * split; [cbn [v_tab]; apply Ht; left; reflexivity|exact Hil].
    + apply IH.
      * intros e' He'. apply He. right. exact He'.
      * intros e' He'. apply Ht. right. exact He'.
      * exact Hil.
      * destruct e; try exact I. eapply refm_mono; [apply He; left; reflexivity|apply ref_marks].
      * intros nl0 H0. apply Hn. right. exact H0.
Qed.

Lemma Forall_flat_map_scm {X} (sk : X -> list scope) (m : X -> list mark) l :
  Forall (fun x => Forall (scm (m x)) (sk x)) l -> Forall (scm (flat_map m l)) (flat_map sk l).
Proof.
  intros H. apply Forall_forall. intros s Hs. apply in_flat_map in Hs. destruct Hs as (x & Hx & Hs).
  rewrite Forall_forall in H. pose proof (H x Hx) as Hx'. rewrite Forall_forall in Hx'.
  eapply opm_mono; [apply incl_flat_map_in; exact Hx|apply Hx'; exact Hs].
Qed.

Lemma incl_region_marks o ms : incl ms (region_marks o ms).
Proof. destruct o as [il|]; cbn [region_marks]; [|apply incl_refl]. intros y Hy. right. apply in_or_app. left. exact Hy. Qed.

Lemma incl_cons_app_mid {X} (x : X) a b c : incl b (x :: a ++ b ++ c).
Proof. intros y Hy. right. apply in_or_app. right. apply in_or_app. left. exact Hy. Qed.

Ltac inm := repeat (first [ left; reflexivity | assumption | apply in_or_app; (left; inm; fail) || right | right ]).

Lemma sk_marks :
  (forall e, core_e e -> Forall (scm (m2_exp e)) (sk_exp e)) /\
  (forall s, core_s s -> Forall (scm (m2_stat s)) (snd (sk_stat s)) /\ Forall (vm (m2_stat s)) (fst (sk_stat s))) /\
  (forall b, core_b b -> Forall (scm (m2_block b)) (snd (sk_block b)) /\ Forall (vm (m2_block b)) (fst (sk_block b))).
Proof.
  apply core_ind3.
  - intros e Ha _. destruct e; try contradiction; constructor.
  - intros o x l _ IH. exact IH.
  - intros o a b l _ _ IHa IHb. cbn [sk_exp m2_exp]. apply Forall_app. split; eapply scm_mono; eauto; [apply incl_appl|apply incl_appr]; apply incl_refl.
  - intros x l _ IH. exact IH.
  - intros n ln args l _ _ IH. cbn [sk_exp m2_exp app].
    eapply scm_mono; [|apply Forall_flat_map_scm; exact IH].
    intros y Hy. right. apply in_or_app. right. apply in_or_app. left. exact Hy.
  - intros f ps pl b l va _ _ [IHs IHv]. cbn [sk_exp m2_exp]. constructor; [|constructor].
    split; cbn [scope_loc]; [left; reflexivity|]. right. apply in_or_app. right. apply in_or_app. right. left. reflexivity.
  - split; constructor.
  - intros b l _ [IHs IHv]. cbn [sk_stat m2_stat fst snd]. split; [|constructor]. constructor; [|constructor].
    split; cbn [scope_loc]; [left; reflexivity|]. right. apply in_or_app. right. left. reflexivity.
  - intros n ln args l Hc IH. cbn [sk_stat m2_stat fst snd]. split; [exact IH|constructor].
  - (* if *)
    intros es bs l Hlen _ _ IHes IHbs. cbn [sk_stat m2_stat fst snd]. split; [|constructor].
    revert bs Hlen IHbs. induction IHes as [|e r He Hr IH]; intros bs Hlen IHbs; [constructor|].
    destruct IHbs as [|b rb Hb Hrb]; [cbn in Hlen; discriminate|].
    cbn [map zip_if]. apply Forall_app. split; [eapply scm_mono; [|exact He]; apply incl_appl; apply incl_refl|].
    apply Forall_app. split.
    + constructor; [|constructor]. split; cbn [scope_loc].
      * apply in_or_app. right. apply in_or_app. left. left. reflexivity.
      * apply in_or_app. right. apply in_or_app. left. right. apply in_or_app. right. left. reflexivity.
    + eapply scm_mono; [|apply IH; [cbn in Hlen; lia|exact Hrb]].
      apply incl_appr. apply incl_appr. apply incl_refl.
  - (* while *)
    intros e b l _ _ IHe [IHs IHv]. cbn [sk_stat m2_stat fst snd]. split; [|constructor].
    apply Forall_app. split.
    + eapply scm_mono; [|exact IHe]. intros y Hy. right. apply in_or_app. left. exact Hy.
    + constructor; [|constructor]. split; cbn [scope_loc]; [left; reflexivity|].
      right. apply in_or_app. right. apply in_or_app. right. left. reflexivity.
  - (* repeat *)
    intros b e l _ _ [IHs IHv] IHe. cbn [sk_stat m2_stat fst snd]. split; [|constructor].
    constructor; [|constructor]. split; cbn [scope_loc]; [left; reflexivity|].
    right. apply in_or_app. right. apply in_or_app. right. left. reflexivity.
  - (* fornum *)
    intros n vl e1 e2 e3 b l _ _ _ _ _ IH1 IH2 IH3 [IHs IHv]. cbn [sk_stat m2_stat fst snd]. split; [|constructor].
    constructor; [|constructor]. split; cbn [scope_loc]; [left; reflexivity|].
    right. do 5 (apply in_or_app; right). left. reflexivity.
  - (* forin *)
    intros ns ls es b l _ _ _ IHes [IHs IHv]. cbn [sk_stat m2_stat fst snd]. split; [|constructor].
    constructor; [|constructor]. split; cbn [scope_loc]; [left; reflexivity|].
    right. do 3 (apply in_or_app; right). left. reflexivity.
  - (* assign *)
    intros vars es l Hv _ IHes. cbn [sk_stat fst snd]. split; [|constructor].
    assert (Hgen : Forall (scm (flat_map m2_exp vars ++ flat_map m2_exp es)) (flat_map sk_exp es)).
    { eapply scm_mono; [|apply Forall_flat_map_scm; exact IHes]. apply incl_appr. apply incl_refl. }
    cbn [m2_stat].
    destruct vars as [|v0 [|v1 vr]]; try exact Hgen; destruct v0; try exact Hgen;
      destruct es as [|e0 [|e1 er]]; try exact Hgen; destruct e0; try exact Hgen; destruct fname; try exact Hgen.
    cbn [flat_map sk_exp app]. constructor; [|constructor].
    split; cbn [scope_loc]; [left; reflexivity|]. right. do 3 (apply in_or_app; right). left. reflexivity.
  - (* local *)
    intros ns ls at_ es l _ Hlen Hces IHes. cbn [sk_stat m2_stat fst snd]. split.
    + eapply scm_mono; [|apply Forall_flat_map_scm; exact IHes]. apply incl_appr. apply incl_region_marks.
    + apply Forall_rev. apply local_vars_vm.
      * intros e He. apply incl_appr. eapply incl_tran; [|apply incl_region_marks]. apply incl_flat_map_in. exact He.
      * intros e He. apply frag_tab. rewrite Forall_forall in Hces. exact (proj1 (Hces e He)).
      * destruct (init_loc ns ls es l) as [il|]; [|exact I]. cbn [region_marks]. split.
        -- apply in_or_app. right. left. reflexivity.
        -- apply in_or_app. right. right. apply in_or_app. right. left. reflexivity.
      * exact I.
      * intros [n nl] Hin. cbn [snd]. apply in_combine_r in Hin.
        eapply idm_mono; [|apply id_marks_idm]. apply incl_appl. apply incl_flat_map_in. exact Hin.
  - (* local function *)
    intros n nl f ps pl b lf va l _ _ IH. cbn [sk_stat m2_stat fst snd sk_exp ref_of_exp]. split.
    + constructor; [|constructor]. split; cbn [scope_loc]; [left; reflexivity|].
      right. do 3 (apply in_or_app; right). left. reflexivity.
    + constructor; [|constructor]. split; [|split; [|split; [reflexivity|exact I]]]; cbn [v_loc v_ref refm].
      * split; right; apply in_or_app; left; [left; reflexivity|right; left; reflexivity].
      * split; [left; reflexivity|]. right. do 3 (apply in_or_app; right). left. reflexivity.
  - (* block *)
    intros ss ret l _ IHss _ IHret. cbn [sk_block m2_block fst snd]. split.
    + apply Forall_app. split.
      * eapply scm_mono; [apply incl_appl; apply incl_refl|].
        apply (Forall_flat_map_scm (fun s => snd (sk_stat s)) m2_stat).
        eapply Forall_impl; [|exact IHss]. intros s [H _]. exact H.
      * eapply scm_mono; [apply incl_appr; apply incl_refl|].
        destruct ret as [es|]; [|constructor]. cbn [ret_exps] in IHret. apply Forall_flat_map_scm. exact IHret.
    + apply Forall_forall. intros v Hv. apply in_concat in Hv. destruct Hv as (vs & Hvs & Hv).
      apply in_rev in Hvs. apply in_map_iff in Hvs. destruct Hvs as (s & E & Hs). subst vs.
      rewrite Forall_forall in IHss. destruct (IHss s Hs) as [_ Hvm]. rewrite Forall_forall in Hvm.
      assert (Hi : incl (m2_stat s) (flat_map m2_stat ss ++ match ret with Some es => flat_map m2_exp es | None => [] end)).
      { apply incl_appl. apply incl_flat_map_in. exact Hs. }
      pose proof (vm_mono _ _ [v] Hi (Forall_cons _ (Hvm v Hv) (Forall_nil _))) as Hv1. inversion Hv1; assumption.
Qed.
