(* C03: the two levels composed. For every file (bytes_iff; the lexer as repaired, fx_escape = true - before the
   repair only for a file whose backslashes all start legal escapes, bytes_iff_guarded):
   no syntax diagnostic  <->  the bytes split into a lexically valid token sequence (Spec/LuaLex.v) and that
   sequence is a Chunk (Spec/LuaGrammar.v). *)
From Coq Require Import List NArith ZArith Bool Arith Lia.
From LH Require Import Base.Bytes Base.Res Model.Lexer Model.Ast Model.Parser Model.LuaFront
  Spec.LuaNumeral Spec.LuaLex Spec.LuaGrammar.
From LH Require Import Proofs.ParserGrammarFlagged Proofs.LexerGrammarStr Proofs.LexerGrammarMain.
Import ListNotations.

(* without a lexical error the parser sees the token list as it is *)
Lemma parser_view_clean ts : flat_map lerrs ts = [] -> parser_view ts = ts.
Proof.
  intros H. destruct ts as [|t1 r]; [reflexivity|]. cbn [parser_view].
  cbn [flat_map] in H. apply app_eq_nil in H as [H1 _].
  unfold is_unfinished_str. rewrite H1. destruct (tk (lt t1)); reflexivity.
Qed.

Lemma parser_view_errs ts : flat_map lerrs (parser_view ts) = [] -> flat_map lerrs ts = [].
Proof.
  intros H. destruct ts as [|t1 r]; [reflexivity|]. cbn [parser_view] in H.
  destruct (is_unfinished_str t1) eqn:E; [|exact H]. exfalso.
  unfold is_unfinished_str in E. destruct (tk (lt t1)); try discriminate.
  destruct (lost_run r [] []) as [[es cs] r']. cbn [flat_map lerrs] in H.
  apply app_eq_nil in H as [H _]. apply app_eq_nil in H as [H _]. rewrite H in E. discriminate.
Qed.

Section Compose.
  Variable classify : list N -> numcls.
  Variable gbk_runes : list N -> Z.

  (* the token list of the model agrees (kind; text of names, numerals, operators) with a lexically valid split of
     the bytes, and is a Chunk *)
  Definition ValidBytes (bs : list N) (ts : list ltok) : Prop :=
    exists body eof sts, ts = body ++ [eof] /\ tk (lt eof) = TkEOF /\ LexesTo bs sts /\ Forall2 tok_ok body sts /\
                         Chunk classify ts.

  Theorem bytes_iff_guarded bs ts r :
    lex_all gbk_runes bs = Ok ts -> parse_bytes gbk_runes classify bs = Ok r -> no_bad_escape bs = true ->
    (flagged r = false <-> ValidBytes bs ts).
  Proof.
    intros E H G. rewrite (flagged_iff classify gbk_runes bs ts r E H). split.
    - intros [HC HL]. pose proof (parser_view_errs _ HL) as HL'. rewrite (parser_view_clean _ HL') in HC.
      destruct (lex_all_sound_guarded gbk_runes bs ts E HL' G) as (body & eof & sts & -> & Hk & HX & HF).
      exists body, eof, sts. repeat split; assumption.
    - intros (body & eof & sts & -> & Hk & HX & HF & HC).
      destruct (lex_all_complete gbk_runes bs sts HX) as (body' & eof' & E' & _ & _ & HL).
      rewrite E in E'. injection E' as E'. rewrite <- E' in HL.
      rewrite (parser_view_clean _ HL). split; assumption.
  Qed.

  (* the deployed (repaired) code needs no guard: no syntax diagnostic <-> valid bytes *)
  Theorem bytes_iff bs ts r :
    lex_all gbk_runes bs = Ok ts -> parse_bytes gbk_runes classify bs = Ok r ->
    (flagged r = false <-> ValidBytes bs ts).
  Proof.
    intros E H. rewrite (flagged_iff classify gbk_runes bs ts r E H). split.
    - intros [HC HL]. pose proof (parser_view_errs _ HL) as HL'. rewrite (parser_view_clean _ HL') in HC.
      destruct (lex_all_sound_fixed gbk_runes bs ts E HL') as (body & eof & sts & -> & Hk & HX & HF).
      exists body, eof, sts. repeat split; assumption.
    - intros (body & eof & sts & -> & Hk & HX & HF & HC).
      destruct (lex_all_complete gbk_runes bs sts HX) as (body' & eof' & E' & _ & _ & HL).
      rewrite E in E'. injection E' as E'. rewrite <- E' in HL.
      rewrite (parser_view_clean _ HL). split; assumption.
  Qed.

  (* the completeness half: valid text is never flagged *)
  Theorem bytes_complete bs ts r :
    lex_all gbk_runes bs = Ok ts -> parse_bytes gbk_runes classify bs = Ok r ->
    ValidBytes bs ts -> flagged r = false.
  Proof.
    intros E H (body & eof & sts & -> & Hk & HX & HF & HC).
    rewrite (flagged_iff classify gbk_runes bs _ r E H).
    destruct (lex_all_complete gbk_runes bs sts HX) as (body' & eof' & E' & _ & _ & HL).
    rewrite E in E'. injection E' as E'. rewrite <- E' in HL.
    rewrite (parser_view_clean _ HL). split; assumption.
  Qed.
End Compose.
