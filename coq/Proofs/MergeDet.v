(* C09 after fixes/C09-deterministic-order.diff: the repaired visiting order (files sorted by name) and the repaired
   best-match choice (score ties broken by the path) are functions of the SET of files / candidates: every
   permutation gives the same answer, without any uniqueness guard.  The pre-repair variants (fx = false) keep
   their refutations. *)
From Coq Require Import List Arith PeanoNat NArith ZArith Bool Lia ZifyN ZifyNat ZifyBool Permutation.
From LH Require Import Base.Bytes Model.FileIndex Model.ModulePath Model.Merge Proofs.FileIndexProofs
  Proofs.MergeProofs.
Import ListNotations.

(* ------------------------------------------------------------------ Go's string order on byte strings *)
Lemma bytes_ltb_irrefl a : bytes_ltb a a = false.
Proof. induction a as [|x a IH]; [reflexivity|]. cbn [bytes_ltb]. rewrite N.ltb_irrefl. exact IH. Qed.

Lemma bytes_ltb_trans a : forall b c, bytes_ltb a b = true -> bytes_ltb b c = true -> bytes_ltb a c = true.
Proof.
  induction a as [|x a IH]; intros b c Hab Hbc.
  - destruct b as [|y b]; [discriminate|]. destruct c as [|z c]; [discriminate|]. reflexivity.
  - destruct b as [|y b]; [discriminate|]. destruct c as [|z c]; [discriminate|].
    cbn [bytes_ltb] in *.
    destruct (N.ltb_spec x y) as [Hxy|Hxy].
    + destruct (N.ltb_spec y z) as [Hyz|Hyz].
      * destruct (N.ltb_spec x z) as [_|Hxz]; [reflexivity|lia].
      * destruct (N.ltb_spec z y) as [Hzy|Hzy]; [discriminate|].
        destruct (N.ltb_spec x z) as [_|Hxz]; [reflexivity|lia].
    + destruct (N.ltb_spec y x) as [Hyx|Hyx]; [discriminate|].
      assert (x = y) as -> by lia.
      destruct (N.ltb_spec y z) as [Hyz|Hyz]; [reflexivity|].
      destruct (N.ltb_spec z y) as [Hzy|Hzy]; [discriminate|].
      apply (IH b c Hab Hbc).
Qed.

Lemma bytes_tricho a : forall b, bytes_ltb a b = true \/ a = b \/ bytes_ltb b a = true.
Proof.
  induction a as [|x a IH]; intros [|y b].
  - right. left. reflexivity.
  - left. reflexivity.
  - right. right. reflexivity.
  - cbn [bytes_ltb].
    destruct (N.ltb_spec x y) as [Hxy|Hxy]; [left; reflexivity|].
    destruct (N.ltb_spec y x) as [Hyx|Hyx]; [right; right; reflexivity|].
    assert (x = y) as -> by lia.
    destruct (IH b) as [H|[H|H]]; [left; exact H|right; left; f_equal; exact H|right; right; exact H].
Qed.

Lemma bytes_ltb_asym a b : bytes_ltb a b = true -> bytes_ltb b a = false.
Proof.
  intros H. destruct (bytes_ltb b a) eqn:E; [|reflexivity].
  pose proof (bytes_ltb_trans a b a H E) as Ht. pose proof (bytes_ltb_irrefl a) as Hi. congruence.
Qed.

(* a <= b < c *)
Lemma bytes_le_lt_trans a b c : bytes_ltb b a = false -> bytes_ltb b c = true -> bytes_ltb a c = true.
Proof.
  intros Hab Hbc. destruct (bytes_tricho a b) as [H|[H|H]].
  - exact (bytes_ltb_trans a b c H Hbc).
  - subst a. exact Hbc.
  - congruence.
Qed.

(* a < b <= c *)
Lemma bytes_lt_le_trans a b c : bytes_ltb a b = true -> bytes_ltb c b = false -> bytes_ltb a c = true.
Proof.
  intros Hab Hbc. destruct (bytes_tricho b c) as [H|[H|H]].
  - exact (bytes_ltb_trans a b c Hab H).
  - subst c. exact Hab.
  - congruence.
Qed.

(* a <= b <= c *)
Lemma bytes_le_trans a b c : bytes_ltb b a = false -> bytes_ltb c b = false -> bytes_ltb c a = false.
Proof.
  intros Hab Hbc. destruct (bytes_ltb c a) eqn:E; [|reflexivity].
  rewrite (bytes_lt_le_trans c a b E Hab) in Hbc. discriminate.
Qed.

Lemma bytes_le_antisym a b : bytes_ltb a b = false -> bytes_ltb b a = false -> a = b.
Proof. intros H1 H2. destruct (bytes_tricho a b) as [H|[H|H]]; [congruence|exact H|congruence]. Qed.

(* ------------------------------------------------------------------ sort.Strings: the result depends on the set only *)
Lemma insert_path_perm p l : Permutation (insert_path p l) (p :: l).
Proof.
  induction l as [|h t IH]; [apply Permutation_refl|]. cbn [insert_path].
  destruct (bytes_ltb h p); [|apply Permutation_refl].
  eapply Permutation_trans; [apply perm_skip; exact IH|apply perm_swap].
Qed.

Lemma sort_paths_perm l : Permutation (sort_paths l) l.
Proof.
  induction l as [|p l IH]; [constructor|]. unfold sort_paths. cbn [fold_right]. fold (sort_paths l).
  eapply Permutation_trans; [apply insert_path_perm|apply perm_skip; exact IH].
Qed.

Lemma insert_path_comm x y l : insert_path x (insert_path y l) = insert_path y (insert_path x l).
Proof.
  induction l as [|h t IH].
  - cbn [insert_path]. destruct (bytes_tricho x y) as [H|[H|H]].
    + rewrite H, (bytes_ltb_asym _ _ H). reflexivity.
    + subst y. reflexivity.
    + rewrite H, (bytes_ltb_asym _ _ H). reflexivity.
  - cbn [insert_path].
    destruct (bytes_ltb h y) eqn:Ehy; destruct (bytes_ltb h x) eqn:Ehx; cbn [insert_path];
      rewrite ?Ehy, ?Ehx.
    + f_equal. exact IH.
    + (* x <= h < y *)
      rewrite (bytes_le_lt_trans x h y Ehx Ehy). reflexivity.
    + (* y <= h < x *)
      rewrite (bytes_le_lt_trans y h x Ehy Ehx). reflexivity.
    + destruct (bytes_tricho x y) as [H|[H|H]].
      * rewrite H, (bytes_ltb_asym _ _ H). reflexivity.
      * subst y. reflexivity.
      * rewrite H, (bytes_ltb_asym _ _ H). reflexivity.
Qed.

Theorem sort_paths_perm_eq l l' : Permutation l l' -> sort_paths l = sort_paths l'.
Proof.
  induction 1 as [|x l l' _ IH|x y l|l l' l'' _ IH1 _ IH2].
  - reflexivity.
  - unfold sort_paths in *. cbn [fold_right]. rewrite IH. reflexivity.
  - unfold sort_paths. cbn [fold_right]. apply insert_path_comm.
  - congruence.
Qed.

(* ------------------------------------------------------------------ the repaired generateAllGlobalMaps *)
(* the outer map order does not matter at all: even the tables are equal *)
Theorem merge_ws_perm_table g files files' :
  Permutation files files' -> merge_ws true g files = merge_ws true g files'.
Proof. intros Hp. unfold merge_ws, visit_order. rewrite (sort_paths_perm_eq _ _ Hp). reflexivity. Qed.

Theorem merge_ws_perm_files g files files' :
  Permutation files files' -> forall n, winner (merge_ws true g files) n = winner (merge_ws true g files') n.
Proof. intros Hp n. rewrite (merge_ws_perm_table g _ _ Hp). reflexivity. Qed.

(* the inner map (one file's GlobalMaps, keyed by name) *)
Lemma vars_of_app n a b : vars_of n (a ++ b) = vars_of n a ++ vars_of n b.
Proof. unfold vars_of. rewrite filter_app, map_app. reflexivity. Qed.

Lemma vars_of_flat_map n (g : list N -> list (list N * gvar)) l :
  vars_of n (flat_map g l) = flat_map (fun k => vars_of n (g k)) l.
Proof.
  induction l as [|k l IH]; [reflexivity|]. cbn [flat_map]. rewrite vars_of_app, IH. reflexivity.
Qed.

Lemma vars_of_absent n l : ~ In n (map fst l) -> vars_of n l = [].
Proof.
  unfold vars_of. induction l as [|[m v] l IH]; intros Hn; [reflexivity|]. cbn [filter fst map] in *.
  destruct (beq_bytes m n) eqn:E.
  - apply beq_bytes_eq in E. exfalso. apply Hn. left. exact E.
  - apply IH. intros H. apply Hn. right. exact H.
Qed.

Lemma vars_of_nodup_le1 n l : NoDup (map fst l) -> (length (vars_of n l) <= 1)%nat.
Proof.
  induction l as [|[m v] l IH]; intros Hnd; [cbn; lia|].
  cbn [map fst] in Hnd. inversion Hnd as [|? ? Hnot Hnd']; subst.
  unfold vars_of. cbn [filter fst]. destruct (beq_bytes m n) eqn:E.
  - apply beq_bytes_eq in E. subst m. cbn [map snd length].
    fold (vars_of n l). rewrite (vars_of_absent n l Hnot). cbn. lia.
  - apply IH. exact Hnd'.
Qed.

Lemma vars_of_inner_perm n l l' : NoDup (map fst l) -> Permutation l l' -> vars_of n l = vars_of n l'.
Proof.
  intros Hnd Hp. pose proof (vars_of_perm n _ _ Hp) as Hv. pose proof (vars_of_nodup_le1 n l Hnd) as Hl.
  destruct (vars_of n l) as [|x [|y r]] eqn:E; [| |cbn in Hl; lia].
  - apply Permutation_nil in Hv. symmetry. exact Hv.
  - apply Permutation_length_1_inv in Hv. symmetry. exact Hv.
Qed.

Lemma flat_map_ext_in {A B} (f g : A -> list B) l : (forall x, In x l -> f x = g x) -> flat_map f l = flat_map g l.
Proof.
  induction l as [|a l IH]; intros H; [reflexivity|]. cbn [flat_map].
  rewrite (H a (or_introl eq_refl)), IH; [reflexivity|]. intros x Hx. apply H. right. exact Hx.
Qed.

(* boolean form of "the list is the content of a Go map keyed by name" *)
Lemma names_distinct_nodup l : names_distinct l = true -> NoDup (map fst l).
Proof.
  induction l as [|[m v] l IH]; intros H; [constructor|]. cbn [names_distinct] in H.
  apply andb_true_iff in H as [H1 H2]. cbn [map fst]. constructor; [|apply IH; exact H2].
  intros Hin. apply negb_true_iff in H1. apply not_true_iff_false in H1. apply H1.
  apply existsb_exists. apply in_map_iff in Hin as [[m' v'] [Hm Hin]]. cbn [fst] in Hm. subst m'.
  exists (m, v'). split; [exact Hin|]. cbn [fst]. apply beq_refl.
Qed.

Lemma map_shaped_nodup g files k : map_shaped g files = true -> In k files -> NoDup (map fst (g k)).
Proof.
  unfold map_shaped. intros H Hk. rewrite forallb_forall in H. apply names_distinct_nodup. apply H. exact Hk.
Qed.

(* both map levels at once: the files in any order AND every file's globals in any order *)
Theorem merge_ws_perm_full g g' files files' :
  Permutation files files' -> map_shaped g files = true ->
  (forall k, In k files -> Permutation (g k) (g' k)) ->
  forall n, winner (merge_ws true g files) n = winner (merge_ws true g' files') n.
Proof.
  intros Hp Hs Hg n. rewrite <- (merge_ws_perm_table g' _ _ Hp).
  unfold merge_ws, visit_order. rewrite !winner_run, !vars_of_flat_map. f_equal. f_equal.
  apply flat_map_ext_in. intros k Hk.
  assert (In k files) as Hk' by (apply (Permutation_in _ (sort_paths_perm files)); exact Hk).
  apply vars_of_inner_perm; [apply (map_shaped_nodup g files k Hs Hk')|apply Hg; exact Hk'].
Qed.

(* the inner order alone does not matter before the repair either *)
Theorem merge_ws_inner_perm fx g g' files :
  map_shaped g files = true -> (forall k, In k files -> Permutation (g k) (g' k)) ->
  forall n, winner (merge_ws fx g files) n = winner (merge_ws fx g' files) n.
Proof.
  intros Hs Hg n. unfold merge_ws. rewrite !winner_run, !vars_of_flat_map. f_equal. f_equal.
  apply flat_map_ext_in. intros k Hk.
  assert (In k files) as Hk'.
  { destruct fx; cbn [visit_order] in Hk; [apply (Permutation_in _ (sort_paths_perm files)); exact Hk|exact Hk]. }
  apply vars_of_inner_perm; [apply (map_shaped_nodup g files k Hs Hk')|apply Hg; exact Hk'].
Qed.

(* the repair keeps every preference rule: the repaired visit is ONE of the orders the old code could take *)
Lemma merge_ws_fixed_is_an_order g files :
  merge_ws true g files = merge_ws false g (sort_paths files) /\ Permutation (sort_paths files) files.
Proof. split; [reflexivity|apply sort_paths_perm]. Qed.

Lemma flat_map_perm {A B} (f : A -> list B) l l' : Permutation l l' -> Permutation (flat_map f l) (flat_map f l').
Proof. apply Permutation_flat_map. Qed.

(* ... so a least owner still wins *)
Theorem merge_ws_fixed_least g files n x :
  NoDup (map gv_file (vars_of n (flat_map g files))) -> least (vars_of n (flat_map g files)) x ->
  winner (merge_ws true g files) n = Some x.
Proof.
  intros Hnd Hl. unfold merge_ws, visit_order.
  assert (Permutation (flat_map g files) (flat_map g (sort_paths files))) as Hp
    by (apply flat_map_perm, Permutation_sym, sort_paths_perm).
  destruct (merge_perm_least _ _ n x Hp Hnd Hl) as [_ H]. exact H.
Qed.

(* ... and in general the repaired winner is a definition no other definition beats *)
Theorem merge_ws_fixed_minimal g files n x :
  NoDup (map gv_file (vars_of n (flat_map g files))) -> winner (merge_ws true g files) n = Some x ->
  In x (vars_of n (flat_map g files)) /\ forall w, In w (vars_of n (flat_map g files)) -> beats w x = false.
Proof.
  intros Hnd Hw. unfold merge_ws, visit_order in Hw.
  assert (Permutation (flat_map g (sort_paths files)) (flat_map g files)) as Hp
    by (apply flat_map_perm, sort_paths_perm).
  pose proof (vars_of_perm n _ _ Hp) as Hv.
  assert (NoDup (map gv_file (vars_of n (flat_map g (sort_paths files))))) as Hnd'.
  { apply (Permutation_NoDup (l := map gv_file (vars_of n (flat_map g files)))); [|exact Hnd].
    apply Permutation_map, Permutation_sym. exact Hv. }
  destruct (merge_winner_minimal _ n x Hnd' Hw) as [Hin Hmin]. split.
  - apply (Permutation_in _ Hv Hin).
  - intros w Hw'. apply Hmin. apply (Permutation_in _ (Permutation_sym Hv) Hw').
Qed.

(* ------------------------------------------------------------------ the repaired best match *)
Lemma min_path_spec cs : forall c0,
  (min_path c0 cs = c0 \/ In (min_path c0 cs) cs) /\
  bytes_ltb c0 (min_path c0 cs) = false /\
  forall c, In c cs -> bytes_ltb c (min_path c0 cs) = false.
Proof.
  induction cs as [|c r IH]; intros c0; cbn [min_path].
  - split; [left; reflexivity|]. split; [apply bytes_ltb_irrefl|intros c []].
  - destruct (IH (if bytes_ltb c c0 then c else c0)) as [Hin [Hle Hall]].
    set (m := min_path (if bytes_ltb c c0 then c else c0) r) in *.
    destruct (bytes_ltb c c0) eqn:E.
    + split; [right; destruct Hin as [->|Hin]; [left; reflexivity|right; exact Hin]|].
      split.
      * (* m <= c < c0 *)
        apply (bytes_ltb_asym m c0). apply (bytes_le_lt_trans m c c0 Hle E).
      * intros c' [<-|Hc']; [exact Hle|apply Hall; exact Hc'].
    + split; [destruct Hin as [->|Hin]; [left; reflexivity|right; right; exact Hin]|].
      split; [exact Hle|].
      intros c' [<-|Hc']; [|apply Hall; exact Hc'].
      (* m <= c0 <= c *)
      apply (bytes_le_trans m c0 c Hle E).
Qed.

Definition is_least_path (l : list (list N)) (m : list N) : Prop :=
  In m l /\ forall c, In c l -> bytes_ltb c m = false.

Lemma least_path_spec l m : least_path l = Some m -> is_least_path l m.
Proof.
  destruct l as [|c r]; [discriminate|]. cbn [least_path]. intros H. injection H as <-.
  destruct (min_path_spec r c) as [Hin [Hle Hall]]. split.
  - destruct Hin as [->|Hin]; [left; reflexivity|right; exact Hin].
  - intros c' [<-|Hc']; [exact Hle|apply Hall; exact Hc'].
Qed.

Lemma is_least_path_unique l m m' : is_least_path l m -> is_least_path l m' -> m = m'.
Proof. intros [Hin H] [Hin' H']. apply bytes_le_antisym; [apply H'; exact Hin|apply H; exact Hin']. Qed.

Lemma least_path_perm l l' : Permutation l l' -> least_path l = least_path l'.
Proof.
  intros Hp. destruct (least_path l) as [m|] eqn:E; destruct (least_path l') as [m'|] eqn:E'.
  - f_equal. apply least_path_spec in E as [Hin H]. apply least_path_spec in E'.
    apply (is_least_path_unique l' m m'); [|exact E']. split; [apply (Permutation_in _ Hp Hin)|].
    intros c Hc. apply H. apply (Permutation_in _ (Permutation_sym Hp) Hc).
  - destruct l' as [|? ?]; [|discriminate]. apply Permutation_sym, Permutation_nil in Hp. subst l. discriminate.
  - destruct l as [|? ?]; [|discriminate]. apply Permutation_nil in Hp. subst l'. discriminate.
  - reflexivity.
Qed.

(* FULL statement: no uniqueness guard, duplicates allowed *)
Theorem best_match_perm_full cur refer cs cs' :
  Permutation cs cs' -> best_match true cur refer cs' = best_match true cur refer cs.
Proof.
  intros Hp. unfold best_match. apply least_path_perm. apply Permutation_sym. apply argmax_perm. exact Hp.
Qed.

(* the repair keeps the score preference: the answer is one of the best-scored candidates *)
Theorem best_match_fixed_argmax cur refer cs c :
  best_match true cur refer cs = Some c -> In c (argmax_set cur refer cs).
Proof. unfold best_match. intros H. apply least_path_spec in H as [H _]. exact H. Qed.

Lemma least_path_none l : least_path l = None -> l = [].
Proof. destruct l; [reflexivity|discriminate]. Qed.

Theorem best_match_fixed_none cur refer cs : best_match true cur refer cs = None <-> cs = [].
Proof.
  unfold best_match. split.
  - intros H. apply least_path_none in H. destruct cs as [|c0 t]; [reflexivity|]. exfalso.
    pose proof (max_score_is_max cur refer c0 t) as [_ [c [Hc He]]].
    assert (In c (argmax_set cur refer (c0 :: t))) as Hin.
    { unfold argmax_set. apply filter_In. split; [exact Hc|]. apply Z.eqb_eq. exact He. }
    rewrite H in Hin. destruct Hin.
  - intros ->. reflexivity.
Qed.

Lemma argmax_sub_cs cur refer cs c : In c (argmax_set cur refer cs) -> In c cs.
Proof.
  unfold argmax_set. destruct cs as [|c0 t]; [intros []|]. intros H. apply filter_In in H as [H _]. exact H.
Qed.

(* whatever sort.Sort does with the repaired Less: the head of ANY arrangement of the candidates in which no later
   element is Less than the head is the model's answer *)
Theorem sort_head_fixed cur refer cs sorted h rest :
  Permutation sorted cs -> sorted = h :: rest ->
  (forall c, In c rest -> less_fx cur refer c h = false) ->
  best_match true cur refer cs = Some h.
Proof.
  intros Hp -> Hs.
  assert (forall c, In c rest -> (calc_score cur refer c <= calc_score cur refer h)%Z) as Hsc.
  { intros c Hc. specialize (Hs c Hc). unfold less_fx in Hs.
    destruct (Z.eqb_spec (calc_score cur refer c) (calc_score cur refer h)) as [He|Hne]; [lia|].
    apply Z.ltb_ge in Hs. exact Hs. }
  pose proof (sort_head_argmax cur refer cs (h :: rest) h rest Hp eq_refl Hsc) as Hh.
  destruct (best_match true cur refer cs) as [m|] eqn:E.
  - f_equal. unfold best_match in E. apply least_path_spec in E.
    apply (is_least_path_unique (argmax_set cur refer cs) m h E). split; [exact Hh|].
    intros c Hc.
    (* c is best-scored as h is; c = h or c is in rest where Less c h is false *)
    assert (calc_score cur refer c = calc_score cur refer h) as Heq.
    { destruct cs as [|c0 t]; [destruct Hc|]. unfold argmax_set in Hc, Hh.
      apply filter_In in Hc as [_ Hc]. apply filter_In in Hh as [_ Hh]. apply Z.eqb_eq in Hc, Hh. congruence. }
    assert (In c (h :: rest)) as Hin.
    { apply (Permutation_in _ (Permutation_sym Hp)). apply (argmax_sub_cs cur refer cs c Hc). }
    destruct Hin as [<-|Hin]; [apply bytes_ltb_irrefl|].
    specialize (Hs c Hin). unfold less_fx in Hs. rewrite Heq, Z.eqb_refl in Hs. exact Hs.
  - apply best_match_fixed_none in E. subst cs. apply Permutation_sym, Permutation_nil in Hp. discriminate.
Qed.
