From Coq Require Import List NArith Bool Lia ZifyN ZifyNat ZifyBool.
From LH Require Import Base.Bytes Base.Utf8 Model.Codec.
Import ListNotations.
Local Open Scope N_scope.

(* --- finite sweeps over byte ranges, lifted by forallb_forall --- *)
Lemma sweep (P : N -> bool) (n : nat) :
  forallb P (nrange_nat n) = true -> forall x, x < N.of_nat n -> P x = true.
Proof. intros H x Hx. eapply forallb_forall in H; [exact H|]. apply nrange_nat_in; exact Hx. Qed.

Lemma cont_byte x : x < 64 -> N.land (128 + x) 192 = 128.
Proof.
  intros H. apply N.eqb_eq.
  apply (sweep (fun x => N.land (128 + x) 192 =? 128) 64); [vm_compute; reflexivity|exact H].
Qed.

Lemma ascii_byte x : x < 128 -> N.land x 128 = 0.
Proof.
  intros H. apply N.eqb_eq.
  apply (sweep (fun x => N.land x 128 =? 0) 128); [vm_compute; reflexivity|exact H].
Qed.

Lemma lead3 x : x < 16 -> N.land (224 + x) 128 <> 0 /\ pre_num (224 + x) = 3.
Proof.
  intros H.
  assert (E : (negb (N.land (224 + x) 128 =? 0) && (pre_num (224 + x) =? 3)) = true).
  { apply (sweep (fun x => negb (N.land (224 + x) 128 =? 0) && (pre_num (224 + x) =? 3)) 16);
      [vm_compute; reflexivity|exact H]. }
  apply andb_true_iff in E as [E1 E2]. apply negb_true_iff, N.eqb_neq in E1. apply N.eqb_eq in E2. auto.
Qed.

Lemma lead4 x : x < 8 -> N.land (240 + x) 128 <> 0 /\ pre_num (240 + x) = 4.
Proof.
  intros H.
  assert (E : (negb (N.land (240 + x) 128 =? 0) && (pre_num (240 + x) =? 4)) = true).
  { apply (sweep (fun x => negb (N.land (240 + x) 128 =? 0) && (pre_num (240 + x) =? 4)) 8);
      [vm_compute; reflexivity|exact H]. }
  apply andb_true_iff in E as [E1 E2]. apply negb_true_iff, N.eqb_neq in E1. apply N.eqb_eq in E2. auto.
Qed.

Lemma lead2 x : x < 32 -> N.land (192 + x) 128 <> 0 /\ pre_num (192 + x) = 2.
Proof.
  intros H.
  assert (E : (negb (N.land (192 + x) 128 =? 0) && (pre_num (192 + x) =? 2)) = true).
  { apply (sweep (fun x => negb (N.land (192 + x) 128 =? 0) && (pre_num (192 + x) =? 2)) 32);
      [vm_compute; reflexivity|exact H]. }
  apply andb_true_iff in E as [E1 E2]. apply negb_true_iff, N.eqb_neq in E1. apply N.eqb_eq in E2. auto.
Qed.

(* continuation bytes of a well-formed sequence are consumed by the pending counter *)
Lemma step_cont p x t : x < 64 -> is_utf8_st (S p) ((128 + x) :: t) = is_utf8_st p t.
Proof. intros H. cbn [is_utf8_st]. rewrite (cont_byte x H). reflexivity. Qed.

Lemma m64 c : c mod 64 < 64. Proof. apply N.mod_lt; lia. Qed.

(* one scalar value that is not in the two-byte range is skipped as a whole *)
Lemma skip_char c rest :
  scalar c = true -> is_two_byte c = false ->
  is_utf8_st O (utf8_encode c ++ rest) = is_utf8_st O rest.
Proof.
  unfold scalar, is_two_byte, utf8_encode. intros Hs H2.
  destruct (c <? 128) eqn:E1.
  { cbn [app is_utf8_st]. rewrite ascii_byte by lia. reflexivity. }
  destruct (c <? 2048) eqn:E2; [lia|].
  destruct (c <? 65536) eqn:E3.
  { assert (Hq : c / 4096 < 16) by (apply N.div_lt_upper_bound; lia).
    destruct (lead3 _ Hq) as [Hn Hp].
    cbn [app is_utf8_st]. apply N.eqb_neq in Hn. rewrite Hn, Hp.
    change (2 <? 3) with true. change (N.to_nat 3 - 1)%nat with 2%nat.
    cbn [is_utf8_st]. rewrite !cont_byte by apply m64. reflexivity. }
  assert (Hq : c / 262144 < 8) by (apply N.div_lt_upper_bound; lia).
  destruct (lead4 _ Hq) as [Hn Hp].
  cbn [app is_utf8_st]. apply N.eqb_neq in Hn. rewrite Hn, Hp.
  change (2 <? 4) with true. change (N.to_nat 4 - 1)%nat with 3%nat.
  cbn [is_utf8_st]. rewrite !cont_byte by apply m64. reflexivity.
Qed.

Lemma is_utf8_no_two_byte cps :
  forallb scalar cps = true -> existsb is_two_byte cps = false ->
  is_utf8 (utf8_of cps) = true.
Proof.
  unfold is_utf8, utf8_of. induction cps as [|c cps IH]; intros Hs H2; [reflexivity|].
  cbn [forallb] in Hs. apply andb_true_iff in Hs as [Hc Hs].
  cbn [existsb] in H2. apply orb_false_iff in H2 as [H2c H2].
  cbn [flat_map]. rewrite skip_char by assumption. apply IH; assumption.
Qed.

(* a two-byte character makes the detector answer "not UTF-8", whatever surrounds it *)
Lemma two_byte_rejected c rest :
  scalar c = true -> is_two_byte c = true -> is_utf8_st O (utf8_encode c ++ rest) = false.
Proof.
  unfold is_two_byte, utf8_encode. intros _ H2.
  destruct (c <? 128) eqn:E1; [lia|]. destruct (c <? 2048) eqn:E2; [|lia].
  assert (Hq : c / 64 < 32) by (apply N.div_lt_upper_bound; lia).
  destruct (lead2 _ Hq) as [Hn Hp].
  cbn [app is_utf8_st]. apply N.eqb_neq in Hn. rewrite Hn, Hp. reflexivity.
Qed.

Lemma is_utf8_iff_no_two_byte cps :
  forallb scalar cps = true ->
  is_utf8 (utf8_of cps) = negb (existsb is_two_byte cps).
Proof.
  unfold is_utf8, utf8_of. induction cps as [|c cps IH]; intros Hs; [reflexivity|].
  cbn [forallb] in Hs. apply andb_true_iff in Hs as [Hc Hs].
  cbn [flat_map existsb]. destruct (is_two_byte c) eqn:E.
  - rewrite two_byte_rejected by assumption. reflexivity.
  - rewrite skip_char by assumption. cbn [orb]. apply IH; assumption.
Qed.

(* structural soundness: whatever is accepted consists of lead bytes followed by
   exactly the continuation bytes they announce *)
Inductive WellChunked : list N -> Prop :=
| WC_nil : WellChunked []
| WC_ascii b t : N.land b 128 = 0 -> WellChunked t -> WellChunked (b :: t)
| WC_multi b conts t :
    N.land b 128 <> 0 -> 2 < pre_num b -> length conts = (N.to_nat (pre_num b) - 1)%nat ->
    Forall (fun x => N.land x 192 = 128) conts -> WellChunked t -> WellChunked (b :: conts ++ t).

Lemma pend_split p l :
  is_utf8_st p l = true ->
  exists conts t, l = conts ++ t /\ length conts = p /\
                  Forall (fun x => N.land x 192 = 128) conts /\ is_utf8_st O t = true.
Proof.
  revert l; induction p as [|p IH]; intros l H.
  - exists [], l. repeat split; auto.
  - destruct l as [|b t]; [discriminate|]. cbn [is_utf8_st] in H.
    destruct (N.land b 192 =? 128) eqn:E; [|discriminate]. apply N.eqb_eq in E.
    destruct (IH _ H) as (conts & t' & -> & Hl & Hf & Ht).
    exists (b :: conts), t'. repeat split; auto. simpl; congruence.
Qed.

Lemma is_utf8_sound_aux n : forall l, (length l <= n)%nat -> is_utf8_st O l = true -> WellChunked l.
Proof.
  induction n as [|n IH]; intros l Hl H.
  - destruct l; [constructor|simpl in Hl; lia].
  - destruct l as [|b t]; [constructor|]. cbn [is_utf8_st] in H. simpl in Hl.
    destruct (N.land b 128 =? 0) eqn:E.
    + apply N.eqb_eq in E. apply WC_ascii; [exact E|]. apply IH; [lia|exact H].
    + apply N.eqb_neq in E. destruct (2 <? pre_num b) eqn:E2; [|discriminate].
      destruct (pend_split _ _ H) as (conts & t' & -> & Hlen & Hf & Ht).
      apply WC_multi; auto; [lia|]. apply IH; [|exact Ht]. rewrite app_length in Hl. lia.
Qed.

Lemma is_utf8_sound l : is_utf8 l = true -> WellChunked l.
Proof. apply (is_utf8_sound_aux (length l)); lia. Qed.

Section Conv.
  Variable gbk_decode : list N -> option (list N).
  Lemma convert_identity cps :
    forallb scalar cps = true -> existsb is_two_byte cps = false ->
    convert gbk_decode (utf8_of cps) = utf8_of cps.
  Proof.
    intros Hs H2. unfold convert. destruct (utf8_of cps) eqn:E; [reflexivity|].
    rewrite <- E. rewrite is_utf8_no_two_byte by assumption. reflexivity.
  Qed.
  (* with a two-byte character the text is handed to the GBK decoder *)
  Lemma convert_two_byte cps :
    forallb scalar cps = true -> existsb is_two_byte cps = true ->
    convert gbk_decode (utf8_of cps) =
      match gbk_decode (utf8_of cps) with Some r => r | None => utf8_of cps end.
  Proof.
    intros Hs H2. unfold convert. destruct (utf8_of cps) eqn:E.
    - destruct (gbk_decode []); [|reflexivity].
      exfalso. destruct cps as [|c cps]; [discriminate|].
      cbn [utf8_of flat_map] in E. unfold utf8_encode in E.
      destruct (c <? 128); [discriminate|]. destruct (c <? 2048); [discriminate|].
      destruct (c <? 65536); discriminate.
    - rewrite <- E. rewrite is_utf8_iff_no_two_byte by assumption. rewrite H2. reflexivity.
  Qed.
End Conv.
