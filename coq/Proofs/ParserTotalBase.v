(* C01, Lua parser model: the progress measure and the state lemmas.
   Measure  m st = length (rest st)  (tokens left, the sticky EOF included).
   Invariant wfst st: the rest is non-empty and its last token is EOF.  Under the invariant
     - next / expect / err never lengthen the rest;
     - next / expect strictly shorten it unless the look-ahead is EOF (the sticky end). *)
From Coq Require Import List NArith ZArith Bool Arith Lia ZifyNat.
From LH Require Import Base.Bytes Base.Res Model.Lexer Model.Ast Model.Parser Proofs.LexerTotalWf.
Import ListNotations.
Set Default Proof Using "Type".

Definition m (st : pst) : nat := length (rest st).

Definition wfr (r : list ltok) : Prop := r <> [] /\ tk (lt (last r dflt_ltok)) = TkEOF.
Definition wfst (st : pst) : Prop := wfr (rest st).

Lemma tk_eqb_true a b : tk_eqb a b = true -> a = b.
Proof. unfold tk_eqb. destruct (tkind_eq_dec a b); [auto|discriminate]. Qed.
Lemma tk_eqb_false a b : tk_eqb a b = false -> a <> b.
Proof. unfold tk_eqb. destruct (tkind_eq_dec a b); [discriminate|auto]. Qed.

Lemma rest_err e st : rest (err e st) = rest st.
Proof. reflexivity. Qed.
Lemma rest_expect k st : rest (expect k st) = rest (next st).
Proof. unfold expect. destruct (tk_eqb _ _); reflexivity. Qed.
Lemma la_err e st : la (err e st) = la st.
Proof. reflexivity. Qed.
Lemma la_expect k st : la (expect k st) = la (next st).
Proof. unfold la, ahead_tok. rewrite rest_expect. reflexivity. Qed.

Lemma m_err e st : m (err e st) = m st.
Proof. reflexivity. Qed.
Lemma m_expect k st : m (expect k st) = m (next st).
Proof. unfold m. rewrite rest_expect. reflexivity. Qed.

Lemma wfst_err e st : wfst st -> wfst (err e st).
Proof. auto. Qed.

Lemma wfst_next st : wfst st -> wfst (next st).
Proof.
  unfold wfst, wfr, next. destruct (rest st) as [|t [|t2 r]]; cbn [rest]; intros [Hne Hl].
  - congruence.
  - split; [discriminate|exact Hl].
  - split; [discriminate|exact Hl].
Qed.

Lemma wfst_expect k st : wfst st -> wfst (expect k st).
Proof. intros H. unfold wfst. rewrite rest_expect. apply wfst_next. exact H. Qed.

Lemma m_next_le st : m (next st) <= m st.
Proof. unfold m, next. destruct (rest st) as [|t [|t2 r]]; cbn [rest length]; lia. Qed.

Lemma m_next_lt st : wfst st -> la st <> TkEOF -> m (next st) < m st.
Proof.
  unfold wfst, wfr, m, la, ahead_tok, next. destruct (rest st) as [|t [|t2 r]]; cbn [rest length]; intros [Hne Hl] Hla.
  - congruence.
  - cbn in Hl. congruence.
  - lia.
Qed.

Lemma m_pos st : wfst st -> 1 <= m st.
Proof. unfold wfst, wfr, m. destruct (rest st); intros [Hne _]; [congruence|cbn; lia]. Qed.

(* when only the EOF token is left the look-ahead is EOF *)
Lemma la_eof_of_m1 st : wfst st -> m st <= 1 -> la st = TkEOF.
Proof.
  unfold wfst, wfr, m, la, ahead_tok. destruct (rest st) as [|t [|t2 r]]; cbn [length]; intros [Hne Hl] Hm.
  - congruence.
  - exact Hl.
  - lia.
Qed.

Lemma wf_tokens_wfr ts : wf_tokens ts -> wfr ts.
Proof. intros (H1 & H2 & _). split; assumption. Qed.

Lemma wfst_init ts : wf_tokens ts -> wfst (init_pst ts).
Proof. apply wf_tokens_wfr. Qed.

Lemma m_init ts : m (init_pst ts) = length ts.
Proof. reflexivity. Qed.

(* ---------------------------------------------------------------- result predicates *)
(* the call returns Ok, keeps the invariant, never lengthens the rest and shortens it when [c] holds *)
Definition okp {A} (c : Prop) (r : Res (A * pst)) (st : pst) : Prop :=
  exists a st', r = Ok (a, st') /\ wfst st' /\ m st' <= m st /\ (c -> m st' < m st).

Definition nofault {A} (r : Res A) : Prop := forall k, r <> Fault k.

Lemma nofault_ok {A} (a : A) : nofault (Ok a).
Proof. intros k; discriminate. Qed.
Lemma nofault_oof {A} : nofault (@OutOfFuel A).
Proof. intros k; discriminate. Qed.
Lemma nofault_bind {A B} (r : Res A) (f : A -> Res B) :
  nofault r -> (forall a, nofault (f a)) ->
  nofault (match r with Ok a => f a | Fault k => Fault k | OutOfFuel => OutOfFuel end).
Proof. intros Hr Hf. destruct r as [a|k|]; [apply Hf| |apply nofault_oof]. exfalso. exact (Hr k eq_refl). Qed.

(* ---------------------------------------------------------------- look-ahead classification facts *)
Lemma stat_start_not_eof k : stat_start_of k <> StOther -> k <> TkEOF.
Proof. intros H ->. apply H. reflexivity. Qed.
Lemma exp0_start_table k : exp0_start_of k = E0Table -> k = TkSepLcurly.
Proof. destruct k; cbn; congruence. Qed.
