(* C07, part 4: the undefined-variable diagnostics (types 2 and 3).
   The third pass of Model/Usage.v (findNameStr / findGlobalVar on every read the traversal binds to no local) reports
   exactly the list the reference `spec_undefined` of Spec/LuaUsage.v demands, under the boolean guards in_fragment,
   pos_clean, flags_ok (reads at the same Loc carry the same idiom flags).  The former guard `not later_elsewhere` is
   gone since fixes/C07-later-elsewhere.diff (the third pass asks the other files before it reports a load-order error). *)
From Coq Require Import List NArith ZArith Bool Lia.
From LH Require Import Base.Bytes Model.Lexer Model.Ast Spec.LuaUsage Model.Usage Proofs.TraverseBindDefs
  Proofs.UsageBindRun Proofs.UsageBindSim Proofs.UsageBind.
Import ListNotations.
Local Open Scope N_scope.

Section Undef.
  Variable c : cfg.
  Variable own : list gent.       (* the file's first-pass GlobalMaps *)
  Variable all : list name.       (* global names of every file *)
  Variable others : list name.    (* global names of the other files *)
  Variable suppf circf : loc -> bool.

  Fixpoint diag3_run (acts : list action) (st : stack) (sofar : list name) {struct acts} : list diag :=
    match acts with
    | [] => []
    | a :: r => step_diag3 true c own all others a st sofar
                ++ diag3_run r (step_stack true a st) (step_sofar true a st sofar)
    end.

  Lemma run3_fold : forall acts s,
    s3_diags (fold_left (step3 true c own all others) acts s) = s3_diags s ++ diag3_run acts (s3_stack s) (s3_sofar s).
  Proof.
    induction acts as [|a r IH]; intros s.
    - cbn. rewrite app_nil_r. reflexivity.
    - cbn [fold_left]. rewrite IH. cbn [step3 s3_diags s3_stack s3_sofar diag3_run]. rewrite <- app_assoc. reflexivity.
  Qed.

  Definition circ_of_own (n : name) (l : loc) : bool :=
    circf l && match ghead n own with Some (_, _, hl) => (sl l =? sl hl)%Z | None => false end.

  Definition flag_ok (a : action) : bool :=
    match a with
    | ARead _ l _ su ci => Bool.eqb su (suppf l) && Bool.eqb ci (circf l)
    | _ => true
    end.

  Variable own_names : list name.
  Hypothesis Hown : forall n, name_mem n own_names = negb (match ghead n own with Some _ => false | None => true end).
  Hypothesis Hall : forall n, ghead n own = None -> name_mem n all = name_mem n others.

  Lemma diag3_scan : forall acts st sofar,
    forallb flag_ok acts = true ->
    diag3_run acts st sofar = undef_scan c others suppf circ_of_own own_names sofar (log_run acts st).
  Proof.
    induction acts as [|a r IH]; intros st sofar Hfl; [reflexivity|].
    cbn [forallb] in Hfl. apply andb_true_iff in Hfl. destruct Hfl as [Hfa Hfr].
    cbn [diag3_run log_run]. destruct a as [| |v|n l flv su ci|n l flv slv rhs].
    - cbn [step_diag3 step_log step_sofar app]. apply IH; assumption.
    - cbn [step_diag3 step_log step_sofar app]. apply IH; assumption.
    - cbn [step_diag3 step_log step_sofar app]. apply IH; assumption.
    - (* ARead *)
      cbn [step_diag3 step_log step_sofar app].
      cbn [flag_ok] in Hfa. apply andb_true_iff in Hfa. destruct Hfa as [Hsu Hci].
      apply eqb_prop in Hsu. apply eqb_prop in Hci.
      destruct (find_st (hit true n l) st) as [v|] eqn:Ef; cbn [binding_of] in *.
      + cbn [undef_scan] in *. apply IH; assumption.
      + cbn [undef_scan] in *.
        rewrite (IH _ _ Hfr). f_equal.
        rewrite <- Hsu. unfold circ_of_own. rewrite <- Hci.
        pose proof (Hown n) as Ho. pose proof (Hall n) as Ha.
        destruct (name_mem n (c_ignored c)) eqn:Ei; [reflexivity|]. cbn [orb].
        destruct su; [reflexivity|]. cbn [orb].
        destruct (name_mem n (c_luain c)) eqn:El; [reflexivity|].
        destruct (flv =? 0) eqn:Eflv.
        * destruct (name_mem n sofar) eqn:Es; [reflexivity|].
          destruct (ghead n own) as [[[f0 s0] hl]|] eqn:Eg.
          -- cbn [negb] in Ho. rewrite Ho.
             destruct (ci && (sl l =? sl hl)%Z); [rewrite orb_true_r; reflexivity|]. rewrite orb_false_r.
             destruct (name_mem n others); reflexivity.
          -- cbn [negb] in Ho. rewrite Ho. rewrite (Ha eq_refl). reflexivity.
        * destruct (ghead n own) as [[[f0 s0] hl]|] eqn:Eg.
          -- cbn [negb] in Ho. rewrite Ho. reflexivity.
          -- cbn [negb] in Ho. rewrite Ho, (Ha eq_refl). reflexivity.
    - (* AWrite *)
      cbn [step_diag3 step_log step_sofar app].
      destruct (find_st (hit true n l) st) as [v|] eqn:Ef; cbn [binding_of undef_scan] in *;
        apply IH; assumption.
  Qed.
End Undef.

(* ------------------------------------------------------------------ the first-pass global table *)
Fixpoint gmap_run (acts : list action) (st : stack) (gm : list gent) {struct acts} : list gent :=
  match acts with
  | [] => gm
  | a :: r => gmap_run r (step_stack true a st) (step_gmap true a st gm)
  end.

Lemma run1_gmap c : forall acts s,
  s1_gmap (fold_left (step1 true c) acts s) = gmap_run acts (s1_stack s) (s1_gmap s).
Proof.
  induction acts as [|a r IH]; intros s; [reflexivity|]. cbn [fold_left]. rewrite IH. reflexivity.
Qed.

Lemma ghead_names n gm : name_mem n (map fst gm) = negb (match ghead n gm with Some _ => false | None => true end).
Proof.
  induction gm as [|[m x] r IH]; [reflexivity|]. cbn. rewrite (name_eqb_sym n m).
  destruct (name_eqb m n); [reflexivity|exact IH].
Qed.

Lemma gmap_run_names m : forall acts st gm,
  name_mem m (map fst (gmap_run acts st gm)) = name_mem m (map fst gm) || name_mem m (gdef_names (log_run acts st)).
Proof.
  induction acts as [|a r IH]; intros st gm.
  - cbn. rewrite orb_false_r. reflexivity.
  - cbn [gmap_run log_run]. rewrite IH. unfold gdef_names at 2. rewrite flat_map_app. fold (gdef_names (log_run r (step_stack true a st))).
    unfold name_mem at 4. rewrite existsb_app. fold (name_mem m (gdef_names (log_run r (step_stack true a st)))).
    rewrite orb_assoc. f_equal.
    destruct a as [| |v|n l flv su ci|n l flv slv rhs]; cbn [step_gmap step_log flat_map existsb app];
      try (rewrite orb_false_r; reflexivity).
    destruct (find_st (hit true n l) st) as [v|]; cbn [binding_of flat_map existsb app].
      * rewrite orb_false_r. reflexivity.
      * assert (Hadd : name_mem m (map fst ((n, (flv, slv, l)) :: gm))
                       = name_mem m (map fst gm) || (name_eqb m n || false)).
        { cbn. rewrite orb_false_r. apply orb_comm. }
        destruct (ghead n gm) as [x|] eqn:Eg.
        -- destruct (glimit_found x flv slv l); [|exact Hadd].
           rewrite orb_false_r.
           destruct (name_eqb m n) eqn:E; [|rewrite orb_false_r; reflexivity].
           apply name_eqb_eq in E. subst m. rewrite ghead_names, Eg. reflexivity.
        -- exact Hadd.
Qed.

(* ------------------------------------------------------------------ whole chunks *)
Definition flags_ok (b : block) : bool :=
  forallb (flag_ok (fun l => loc_mem l (supp_locs b)) (fun l => loc_mem l (circ_locs b))) (trace b).

Theorem usage_undefined_agree c b all others :
  in_fragment b = true -> pos_clean b = true -> flags_ok b = true ->
  (forall n, name_mem n all = name_mem n (gnames (s1_gmap (first_pass c b))) || name_mem n others) ->
  s3_diags (run3 true c (s1_gmap (first_pass c b)) all others (trace b))
  = spec_undefined c others (fun l => loc_mem l (supp_locs b)) (circ_ok b (s1_gmap (first_pass c b))) b.
Proof.
  intros Hf Hp Hfl Hall.
  pose proof (usage_bindings_agree c b Hf Hp) as Hlog.
  unfold first_pass, run1 in Hlog. destruct (run1_fold c (trace b) (mkSt1 [] [] [] [])) as [_ Hl].
  rewrite Hl in Hlog. cbn [s1_log s1_stack app] in Hlog.
  set (own := s1_gmap (first_pass c b)) in *.
  unfold run3. rewrite run3_fold. cbn [s3_diags s3_stack s3_sofar app].
  unfold spec_undefined. rewrite <- Hlog.
  assert (Hown : forall n, name_mem n (gdef_names (log_run (trace b) []))
                           = negb (match ghead n own with Some _ => false | None => true end)).
  { intros n. rewrite <- ghead_names. unfold own, first_pass, run1. rewrite run1_gmap. cbn [s1_stack s1_gmap].
    rewrite gmap_run_names. reflexivity. }
  rewrite (diag3_scan c own all others (fun l => loc_mem l (supp_locs b)) (fun l => loc_mem l (circ_locs b))
                      (gdef_names (log_run (trace b) [])) Hown).
  - reflexivity.
  - intros n Hn. rewrite Hall. unfold gnames. rewrite ghead_names, Hn. reflexivity.
  - exact Hfl.
Qed.
