(* C19 - flat invariant of the first-pass analysis model: every Loc stored in the symbol tables (VarInfo.Loc,
   FuncInfo.Loc, recursively through the member maps, in every scope, global and "nodefine" variable) is a Loc of the
   syntax tree. Stated for an arbitrary boolean predicate P on Locs: if every Loc of the AST satisfies P (and the zero
   Loc does), every Loc of the tables satisfies P. Instance used by Properties/C19.v: P = well_formed (start <= end). *)
From Coq Require Import List NArith ZArith Bool Lia.
From LH Require Import Base.Bytes Base.Res Model.Lexer Model.Ast Model.Symbols Spec.SymbolSpec Proofs.SymbolsRange.
Import ListNotations.

(* ------------------------------------------------------------------ generic helpers *)
Lemma rbind_ok : forall {A B} (r : Res A) (f : A -> Res B) b, rbind r f = Ok b -> exists a, r = Ok a /\ f a = Ok b.
Proof. intros A B r f b H. destruct r as [a| |]; cbn in H; try discriminate. exists a. auto. Qed.

Lemma Ok_inj : forall {A} (a b : A), Ok a = Ok b -> a = b.
Proof. intros A a b H. injection H as H. exact H. Qed.
(* what local_eval (Model/Symbols.v) returns for the expressions that have a name: one result per such expression, each
   satisfying Q *)
Fixpoint rs_match (Q : exp -> option finfo * pvar -> Prop) (names : list bytes) (locs : list loc) (es : list exp)
         (rs : list (option finfo * pvar)) {struct es} : Prop :=
  match es with
  | [] => rs = []
  | e :: es' =>
    match names, locs with
    | _ :: names', _ :: locs' => exists r rs', rs = r :: rs' /\ Q e r /\ rs_match Q names' locs' es' rs'
    | _, _ => rs = []
    end
  end.

Ltac ok_inj H := apply Ok_inj in H; rewrite <- H.

Ltac inv_bind H :=
  let a := fresh "a" in let H1 := fresh "Hb" in
  apply rbind_ok in H; destruct H as [a [H1 H]].

Lemma drop3_ok : forall r s, drop3 r = Ok s -> exists f p, r = Ok (s, f, p).
Proof. intros r s H. destruct r as [[[s0 f] p]| |]; cbn in H; try discriminate. injection H as <-. eauto. Qed.

Lemma iter_res_inv : forall {A S} (I : S -> Prop) (f : A -> S -> Res S) l s s',
    (forall a s0 s1, In a l -> I s0 -> f a s0 = Ok s1 -> I s1) -> I s -> iter_res f l s = Ok s' -> I s'.
Proof.
  intros A S I f l. induction l as [|a l IH]; intros s s' Hf Hs H; cbn [iter_res] in H.
  - injection H as <-. exact Hs.
  - inv_bind H. eapply IH; [| |exact H].
    + intros; eapply Hf; eauto. right; assumption.
    + eapply Hf; eauto. left; reflexivity.
Qed.

Lemma forallb_In : forall {A} (f : A -> bool) l x, forallb f l = true -> In x l -> f x = true.
Proof. intros A f l x H Hin. rewrite forallb_forall in H. auto. Qed.

Lemma assoc_get_in : forall {A} k (l : list (bytes * A)) a, assoc_get k l = Some a -> exists k', In (k', a) l.
Proof.
  intros A k l. induction l as [|[k' a'] l IH]; intros a H; cbn [assoc_get] in H; [discriminate|].
  destruct (beq_bytes k k').
  - injection H as <-. exists k'. left; reflexivity.
  - destruct (IH _ H) as [k0 H0]. exists k0. right; exact H0.
Qed.

Lemma assoc_get_Forall : forall {A} (Q : bytes * A -> Prop) (Q' : A -> Prop) k l a,
    (forall kv, Q kv -> Q' (snd kv)) -> Forall Q l -> assoc_get k l = Some a -> Q' a.
Proof.
  intros A Q Q' k l a HQ Hall H. destruct (assoc_get_in _ _ _ H) as [k' Hin].
  rewrite Forall_forall in Hall. apply (HQ _ (Hall _ Hin)).
Qed.

Lemma assoc_set_Forall : forall {A} (Q : A -> Prop) k a (l : list (bytes * A)),
    Forall (fun kv => Q (snd kv)) l -> Q a -> Forall (fun kv => Q (snd kv)) (assoc_set k a l).
Proof.
  intros A Q k a l. induction l as [|[k' a'] l IH]; intros Hall Ha; cbn [assoc_set].
  - constructor; [exact Ha | constructor].
  - inversion Hall as [|? ? H1 H2]; subst. destruct (beq_bytes k k').
    + constructor; [exact Ha | exact H2].
    + constructor; [exact H1 | apply IH; assumption].
Qed.

Lemma upd_nth_Forall : forall {A} (Q : A -> Prop) (f : A -> A) l i,
    (forall a, Q a -> Q (f a)) -> Forall Q l -> Forall Q (upd_nth i f l).
Proof.
  intros A Q f l. induction l as [|a l IH]; intros i Hf Hall; destruct i; cbn [upd_nth]; auto;
    inversion Hall as [|? ? H1 H2]; subst; constructor; auto.
Qed.

Lemma Forall_snoc : forall {A} (Q : A -> Prop) l a, Forall Q l -> Q a -> Forall Q (l ++ [a]).
Proof. intros A Q l a Hl Ha. apply Forall_app. split; [exact Hl | constructor; [exact Ha | constructor]]. Qed.


(* the key a table-constructor field contributes to the enclosing variable's member map *)
Definition tbl_key (pv : pvar) (ke : exp) : option (bytes * loc) :=
  match pv, ke with
  | Some _, EStr str l => match str with [] => None | _ => Some (str, l) end
  | _, _ => None
  end.
Definition tbl_next (pv : pvar) (ke v : exp) (ofn : option finfo) (sub : pvar) : pvar :=
  match tbl_key pv ke, pv with
  | Some (str, l), Some m =>
    if assoc_mem str m then pv else Some (m ++ [(str, VI l ofn (sub_of sub) false None (refk_of v) false)])
  | _, _ => pv
  end.
Lemma cg_table_some : forall ce ke ks v vs pv s,
    cg_table ce (Some ke :: ks) (v :: vs) pv s =
    (do s1 <- ce_nil ce ke s ;
     do (s2, ofn, sub) <- ce v (match tbl_key pv ke with Some _ => Some [] | None => None end) s1 ;
     cg_table ce ks vs (tbl_next pv ke v ofn sub) s2).
Proof. reflexivity. Qed.

(* ------------------------------------------------------------------ Locs of the syntax tree *)
Section Locs.
  Variable P : loc -> bool.

  Fixpoint locs_exp (e : exp) {struct e} : bool :=
    match e with
    | ENil l | EBad l | ETrue l | EFalse l | EVararg l | EInt _ l | EFloat _ l | EStr _ l | EName _ l => P l
    | EUnop _ e1 l | EParens e1 l => P l && locs_exp e1
    | EBinop _ e1 e2 l | EIndex e1 e2 l => P l && locs_exp e1 && locs_exp e2
    | ETable ks vs l =>
      P l && forallb (fun k => match k with Some ke => locs_exp ke | None => true end) ks && forallb locs_exp vs
    | EFunc _ _ _ plocs b l _ _ => P l && forallb P plocs && locs_block b
    | ECall p _ args l => P l && locs_exp p && forallb locs_exp args
    end
  with locs_stat (s : stat) {struct s} : bool :=
    match s with
    | SBreak | SLabel _ _ | SGoto _ _ => true
    | SDo b _ => locs_block b
    | SCall e => locs_exp e
    | SIf es bs _ => forallb locs_exp es && forallb locs_block bs
    | SWhile e b _ | SRepeat b e _ => locs_exp e && locs_block b
    | SForNum _ vl e1 e2 e3 b _ => P vl && locs_exp e1 && locs_exp e2 && locs_exp e3 && locs_block b
    | SForIn _ ls es b _ => forallb P ls && forallb locs_exp es && locs_block b
    | SAssign vars es _ => forallb locs_exp vars && forallb locs_exp es
    | SLocal _ ls _ es _ => forallb P ls && forallb locs_exp es
    | SLocalFunc _ nl f _ => P nl && locs_exp f
    end
  with locs_block (b : block) {struct b} : bool :=
    match b with
    | Block ss ret _ => forallb locs_stat ss && match ret with Some es => forallb locs_exp es | None => true end
    end.

  Hypothesis Hzero : P zero_loc = true.

  Lemma locs_exp_loc : forall e, locs_exp e = true -> P (exp_loc e) = true.
  Proof.
    intros e H. destruct e; cbn [locs_exp exp_loc] in *; try exact Hzero; try exact H;
      repeat (apply andb_prop in H; destruct H as [H ?]); exact H.
  Qed.

  Lemma locs_table_loc_list : forall e, locs_exp e = true -> Forall (fun l => P l = true) (table_loc_list e).
  Proof.
    fix IH 1. intros e H. destruct e; cbn [table_loc_list]; try (constructor; [exact Hzero | constructor]).
    - cbn [locs_exp] in H. constructor; [exact H | constructor].
    - cbn [locs_exp] in H. constructor; [exact H | constructor].
    - cbn [locs_exp] in H. apply andb_prop in H. destruct H as [_ H]. apply IH. exact H.
    - cbn [locs_exp] in H. apply andb_prop in H. destruct H as [H H2]. apply andb_prop in H. destruct H as [_ H1].
      apply Forall_app. split; apply IH; assumption.
  Qed.

  (* ---------------------------------------------------------------- the invariant on variables *)
  Definition fi_ok (f : option finfo) : Prop := match f with Some fi => P (f_loc fi) = true | None => True end.

  Fixpoint vi_ok (v : vinfo) {struct v} : Prop :=
    match v with
    | VI l f subs _ _ _ _ =>
      P l = true /\ fi_ok f /\
      (fix go (s : list (bytes * vinfo)) {struct s} : Prop :=
         match s with [] => True | kv :: s' => vi_ok (snd kv) /\ go s' end) subs
    end.

  Definition subs_ok (m : list (bytes * vinfo)) : Prop := Forall (fun kv => vi_ok (snd kv)) m.

  Lemma vi_ok_go : forall s,
      (fix go (s : list (bytes * vinfo)) {struct s} : Prop :=
         match s with [] => True | kv :: s' => vi_ok (snd kv) /\ go s' end) s <-> subs_ok s.
  Proof.
    induction s as [|x s IH]; cbn; split; intros H; auto.
    - constructor.
    - destruct H as [H1 H2]. constructor; [exact H1 | apply IH; exact H2].
    - inversion H as [|? ? H1 H2]; subst. split; [exact H1 | apply IH; exact H2].
  Qed.

  Lemma vi_ok_unfold : forall l f subs p g r e,
      vi_ok (VI l f subs p g r e) <-> P l = true /\ fi_ok f /\ subs_ok subs.
  Proof. intros. cbn [vi_ok]. rewrite vi_ok_go. tauto. Qed.

  Lemma vi_ok_intro : forall l f subs p g r e, P l = true -> fi_ok f -> subs_ok subs -> vi_ok (VI l f subs p g r e).
  Proof. intros. apply vi_ok_unfold. auto. Qed.

  Lemma vi_ok_loc : forall v, vi_ok v -> P (v_loc v) = true.
  Proof. intros [l f s p g r e] H. apply vi_ok_unfold in H. cbn. tauto. Qed.
  Lemma vi_ok_func : forall v, vi_ok v -> fi_ok (v_func v).
  Proof. intros [l f s p g r e] H. apply vi_ok_unfold in H. cbn. tauto. Qed.
  Lemma vi_ok_sub : forall v, vi_ok v -> subs_ok (v_sub v).
  Proof. intros [l f s p g r e] H. apply vi_ok_unfold in H. cbn. tauto. Qed.

  Lemma subs_ok_get : forall k m v, subs_ok m -> assoc_get k m = Some v -> vi_ok v.
  Proof. intros k m v Hm H. eapply (assoc_get_Forall (fun kv => vi_ok (snd kv)) vi_ok); eauto. Qed.

  Lemma nth_P : forall j locl l, Forall (fun l => P l = true) locl -> P l = true -> P (nth j locl l) = true.
  Proof.
    intros j locl l Hall Hl. destruct (nth_in_or_default j locl l) as [H|H].
    - rewrite Forall_forall in Hall. auto.
    - rewrite H. exact Hl.
  Qed.

  Lemma member_assign_ok : forall keys j locl l nw v,
      Forall (fun l => P l = true) locl -> P l = true -> fi_ok (nm_func nw) -> subs_ok (nm_sub nw) ->
      vi_ok v -> vi_ok (member_assign keys j locl l nw v).
  Proof.
    induction keys as [|k rest IH]; intros j locl l nw v Hlocl Hl Hf Hs Hv; cbn [member_assign]; [exact Hv|].
    destruct v as [vl vf vs vp vg vr ve]. apply vi_ok_unfold in Hv. destruct Hv as [Hvl [Hvf Hvs]].
    destruct (assoc_get k vs) as [sv|] eqn:Eg.
    - apply vi_ok_intro; auto. apply assoc_set_Forall; [exact Hvs|]. apply IH; auto.
      pose proof (subs_ok_get _ _ _ Hvs Eg) as Hsv.
      destruct rest; [|exact Hsv]. destruct (nm_exp nw); [|exact Hsv].
      destruct sv as [l1 f1 s1 p1 g1 r1 e1]. destruct (ref_empty_member e r1); [|exact Hsv].
      apply vi_ok_unfold in Hsv. destruct Hsv as [H1 [H2 H3]]. apply vi_ok_intro; auto.
      destruct (nm_func nw) as [fi|]; [|exact H2]. destruct (f_colon fi); [exact Hf | exact H2].
    - pose proof (nth_P j locl l Hlocl Hl) as Hn.
      destruct rest as [|k2 rest2].
      + apply vi_ok_intro; auto. apply Forall_snoc; [exact Hvs|]. cbn [snd]. apply vi_ok_intro; auto.
      + apply vi_ok_intro; auto. apply Forall_snoc; [exact Hvs|]. cbn [snd]. apply IH; auto.
        apply vi_ok_intro; cbn; auto. constructor.
  Qed.

  (* ---------------------------------------------------------------- the invariant on states *)
  Definition scope_ok : scope -> Prop := scope_all vi_ok.
  Record st_ok (s : state) : Prop :=
    mkStOk { ok_env : Forall scope_ok (env s); ok_globs : subs_ok (globs s); ok_nodefs : subs_ok (nodefs s) }.

  Definition pv_ok (pv : pvar) : Prop := subs_ok (sub_of pv).

  Lemma add_var_scope_ok : forall nm v fr, vi_ok v -> scope_ok fr -> scope_ok (add_var_scope nm v fr).
  Proof.
    intros nm v [f vars subs] Hv Hfr. unfold scope_ok in *. apply scope_all_unfold in Hfr. destruct Hfr as [H1 H2].
    cbn [add_var_scope]. apply scope_all_unfold. split; [|exact H2].
    apply (assoc_set_Forall (Forall vi_ok)); [exact H1|].
    destruct (assoc_get nm vars) as [vs|] eqn:E.
    - apply Forall_snoc; [|exact Hv].
      eapply (assoc_get_Forall (fun kv => Forall vi_ok (snd kv)) (Forall vi_ok)); eauto.
    - constructor; [exact Hv | constructor].
  Qed.

  Lemma add_loc_var_ok : forall nm v s, vi_ok v -> st_ok s -> st_ok (add_loc_var nm v s).
  Proof.
    intros nm v s Hv [He Hg Hn]. unfold add_loc_var. destruct (env s) as [|fr rest] eqn:E.
    - constructor; [rewrite E; exact He | exact Hg | exact Hn].
    - inversion He as [|? ? H1 H2]; subst. constructor; cbn [env globs nodefs]; auto.
      constructor; [apply add_var_scope_ok; assumption | exact H2].
  Qed.

  Lemma update_var_ok : forall r f s, (forall v, vi_ok v -> vi_ok (f v)) -> st_ok s -> st_ok (update_var r f s).
  Proof.
    intros r f s Hf [He Hg Hn]. destruct r as [d nm i|nm|nm]; cbn [update_var].
    - constructor; cbn [env globs nodefs]; auto.
      apply upd_nth_Forall; [|exact He]. intros [fid vars subs] Hfr. unfold scope_ok in *.
      apply scope_all_unfold in Hfr. destruct Hfr as [H1 H2]. apply scope_all_unfold. split; [|exact H2].
      destruct (assoc_get nm vars) as [vs|] eqn:E; [|exact H1].
      apply (assoc_set_Forall (Forall vi_ok)); [exact H1|]. apply upd_nth_Forall; [exact Hf|].
      eapply (assoc_get_Forall (fun kv => Forall vi_ok (snd kv)) (Forall vi_ok)); eauto.
    - constructor; cbn [env globs nodefs]; auto.
      destruct (assoc_get nm (globs s)) as [v|] eqn:E; [|exact Hg].
      apply (assoc_set_Forall vi_ok); [exact Hg|]. apply Hf. eapply subs_ok_get; [exact Hg | exact E].
    - constructor; cbn [env globs nodefs]; auto.
      destruct (assoc_get nm (nodefs s)) as [v|] eqn:E; [|exact Hn].
      apply (assoc_set_Forall vi_ok); [exact Hn|]. apply Hf. eapply subs_ok_get; [exact Hn | exact E].
  Qed.

  Lemma note_nodefine_ok : forall nm l s, P l = true -> st_ok s -> st_ok (note_nodefine nm l s).
  Proof.
    intros nm l s Hl Hs. unfold note_nodefine. destruct (find_loc_var (env s) nm l 0); [exact Hs|].
    destruct (assoc_mem nm (globs s) || assoc_mem nm (nodefs s)); [exact Hs|].
    destruct Hs as [He Hg Hn]. constructor; cbn [env globs nodefs]; auto.
    apply Forall_snoc; [exact Hn|]. cbn [snd]. apply vi_ok_intro; cbn; auto. constructor.
  Qed.

  Lemma note_G_ok : forall p k s, locs_exp k = true -> st_ok s -> st_ok (note_G p k s).
  Proof.
    intros p k s Hk Hs. unfold note_G. destruct p; try exact Hs. destruct k; try exact Hs.
    destruct (_ && _); [|exact Hs]. apply note_nodefine_ok; [|exact Hs]. cbn [locs_exp] in Hk. exact Hk.
  Qed.

  Lemma push_scope_ok : forall fid s, st_ok s -> st_ok (push_scope fid [] s).
  Proof.
    intros fid s [He Hg Hn]. constructor; cbn [push_scope env globs nodefs]; auto.
    constructor; [|exact He]. apply scope_all_unfold. split; constructor.
  Qed.

  Lemma pop_scope_ok : forall s s', st_ok s -> pop_scope s = Ok s' -> st_ok s'.
  Proof.
    intros s s' [He Hg Hn] H. unfold pop_scope in H. destruct (env s) as [|fr [|[fid vars subs] rest]]; try discriminate.
    injection H as <-. inversion He as [|? ? H1 H2]; subst. inversion H2 as [|? ? H3 H4]; subst.
    constructor; cbn [env globs nodefs]; auto. constructor; [|exact H4].
    unfold scope_ok in *. apply scope_all_unfold in H3. destruct H3 as [H5 H6]. apply scope_all_unfold. split; [exact H5|].
    apply Forall_snoc; assumption.
  Qed.

  Lemma scoped_ok : forall f s s',
      (forall s0 s1, st_ok s0 -> f s0 = Ok s1 -> st_ok s1) -> st_ok s -> scoped f s = Ok s' -> st_ok s'.
  Proof.
    intros f s s' Hf Hs H. unfold scoped in H. inv_bind H. eapply pop_scope_ok; [|exact H].
    eapply Hf; [|exact Hb]. apply push_scope_ok. exact Hs.
  Qed.


  (* ---------------------------------------------------------------- statements, for an abstract cgExp *)
  Definition ce_spec (ce : exp -> pvar -> state -> Res r3) : Prop :=
    forall e pv s s' ofn pv', locs_exp e = true -> st_ok s -> pv_ok pv -> ce e pv s = Ok (s', ofn, pv') ->
                              st_ok s' /\ fi_ok ofn /\ pv_ok pv'.

  Lemma pv_ok_None : pv_ok None.
  Proof. constructor. Qed.
  Lemma pv_ok_empty : pv_ok (Some []).
  Proof. constructor. Qed.

  Section StatOk.
    Variable ce : exp -> pvar -> state -> Res r3.
    Variable flv slv : N.
    Hypothesis Hce : ce_spec ce.

    Lemma ce_nil_ok : forall e s s', locs_exp e = true -> st_ok s -> ce_nil ce e s = Ok s' -> st_ok s'.
    Proof.
      intros e s s' He Hs H. unfold ce_nil in H. apply drop3_ok in H. destruct H as [f [p H]].
      eapply Hce in H; eauto using pv_ok_None. tauto.
    Qed.

    Lemma cg_table_ok : forall ks vs pv s s' pv',
        forallb (fun k => match k with Some ke => locs_exp ke | None => true end) ks = true ->
        forallb locs_exp vs = true -> st_ok s -> pv_ok pv ->
        cg_table ce ks vs pv s = Ok (s', pv') -> st_ok s' /\ pv_ok pv'.
    Proof.
      induction ks as [|k ks IH]; intros vs pv s s' pv' Hks Hvs Hs Hpv H.
      - cbn [cg_table] in H. injection H as <- <-. auto.
      - destruct vs as [|v vs]; [cbn [cg_table] in H; injection H as <- <-; auto|].
        cbn [forallb] in Hks, Hvs. apply andb_prop in Hks. destruct Hks as [Hk Hks].
        apply andb_prop in Hvs. destruct Hvs as [Hv Hvs].
        destruct k as [ke|].
        + rewrite cg_table_some in H. inv_bind H. pose proof (ce_nil_ok _ _ _ Hk Hs Hb) as Hs1.
          inv_bind H. destruct a0 as [[s2 ofn] sub].
          assert (Hpv0 : pv_ok (match tbl_key pv ke with Some _ => Some [] | None => None end))
            by (destruct (tbl_key pv ke); constructor).
          destruct (Hce _ _ _ _ _ _ Hv Hs1 Hpv0 Hb0) as [Hs2 [Hofn Hsub]].
          eapply IH; [exact Hks | exact Hvs | exact Hs2 | | exact H].
          unfold tbl_next. destruct (tbl_key pv ke) as [[str l]|] eqn:Ek; [|exact Hpv].
          destruct pv as [m|]; [|exact Hpv]. destruct (assoc_mem str m); [exact Hpv|].
          unfold pv_ok. cbn [sub_of]. apply Forall_snoc; [exact Hpv|]. cbn [snd].
          apply vi_ok_intro; [|exact Hofn|exact Hsub].
          unfold tbl_key in Ek. destruct ke; try discriminate. destruct s0; [discriminate|].
          injection Ek as _ <-. exact Hk.
        + cbn [cg_table] in H. inv_bind H. pose proof (ce_nil_ok _ _ _ Hv Hs Hb) as Hs1. eapply IH; eauto.
    Qed.

    Lemma add_plain_locals_ok : forall names locs r em s,
        Forall (fun l => P l = true) locs -> st_ok s -> st_ok (add_plain_locals names locs r em s).
    Proof.
      induction names as [|nm names IH]; intros locs r em s Hl Hs; cbn [add_plain_locals]; [exact Hs|].
      destruct locs as [|l locs]; [exact Hs|]. inversion Hl as [|? ? H1 H2]; subst.
      apply IH; [exact H2|]. apply add_loc_var_ok; [|exact Hs]. apply vi_ok_intro; cbn; auto. constructor.
    Qed.

    Lemma local_eval_ok : forall es names locs s s1 rs,
        forallb locs_exp es = true -> st_ok s ->
        local_eval ce names locs es s = Ok (s1, rs) ->
        st_ok s1 /\ rs_match (fun _ r => fi_ok (fst r) /\ subs_ok (sub_of (snd r))) names locs es rs.
    Proof.
      induction es as [|e es IH]; intros names locs s s1 rs Hes Hs H.
      - cbn [local_eval] in H. injection H as <- <-. split; [exact Hs|reflexivity].
      - cbn [forallb] in Hes. apply andb_prop in Hes. destruct Hes as [He Hes].
        cbn [local_eval] in H. inv_bind H. destruct a as [[s2 ofn] sub].
        destruct (Hce _ _ _ _ _ _ He Hs pv_ok_empty Hb) as [Hs2 [Hofn Hsub]].
        destruct names as [|nm names];
          [inv_bind H; destruct a as [s3 rs0]; injection H as <- <-;
           destruct (IH _ _ _ _ _ Hes Hs2 Hb0) as [Hs3 _]; split; [exact Hs3|reflexivity]|].
        destruct locs as [|l locs];
          [inv_bind H; destruct a as [s3 rs0]; injection H as <- <-;
           destruct (IH _ _ _ _ _ Hes Hs2 Hb0) as [Hs3 _]; split; [exact Hs3|reflexivity]|].
        inv_bind H. destruct a as [s3 rs0]. injection H as <- <-.
        destruct (IH _ _ _ _ _ Hes Hs2 Hb0) as [Hs3 Hrs]. split; [exact Hs3|].
        cbn [rs_match]. exists (ofn, sub), rs0. repeat split; auto.
    Qed.

    Lemma local_adds_ok : forall es names locs rs s s' rn rl flag,
        Forall (fun l => P l = true) locs -> st_ok s ->
        rs_match (fun _ r => fi_ok (fst r) /\ subs_ok (sub_of (snd r))) names locs es rs ->
        local_adds names locs es rs s = (s', rn, rl, flag) -> st_ok s' /\ Forall (fun l => P l = true) rl.
    Proof.
      induction es as [|e es IH]; intros names locs rs s s' rn rl flag Hl Hs Hrs H.
      - cbn [local_adds] in H. injection H as <- <- <- <-. auto.
      - cbn [local_adds rs_match] in H, Hrs.
        destruct names as [|nm names]; [subst rs; injection H as <- <- <- <-; auto|].
        destruct locs as [|l locs]; [subst rs; injection H as <- <- <- <-; auto|].
        destruct Hrs as [[ofn sub] [rs' [-> [[Hofn Hsub] Hrs']]]]. cbn [fst snd] in Hofn, Hsub.
        inversion Hl as [|? ? H1 H2]; subst.
        destruct (local_adds names locs es rs' _) as [[[s3 rn0] rl0] flag0] eqn:E.
        injection H as <- <- <- <-.
        eapply IH; [exact H2| |exact Hrs'|exact E].
        apply add_loc_var_ok; [|exact Hs]. apply vi_ok_intro; auto.
        destruct (is_func e); [exact Hofn | exact I].
    Qed.

    Lemma local_loop_ok : forall es names locs s s' rn rl flag,
        Forall (fun l => P l = true) locs -> forallb locs_exp es = true -> st_ok s ->
        local_loop ce names locs es s = Ok (s', rn, rl, flag) -> st_ok s' /\ Forall (fun l => P l = true) rl.
    Proof.
      intros es names locs s s' rn rl flag Hl Hes Hs H. unfold local_loop in H. inv_bind H. destruct a as [s1 rs].
      injection H as H. destruct (local_eval_ok _ _ _ _ _ _ Hes Hs Hb) as [Hs1 Hrs].
      eapply local_adds_ok; eauto.
    Qed.

    Lemma cg_local_ok : forall names locs es s s',
        Forall (fun l => P l = true) locs -> forallb locs_exp es = true -> st_ok s ->
        cg_local ce names locs es s = Ok s' -> st_ok s'.
    Proof.
      intros names locs es s s' Hl Hes Hs H. unfold cg_local in H. inv_bind H. destruct a as [[[s1 rn] rl] flag].
      injection H as <-. destruct (local_loop_ok _ _ _ _ _ _ _ _ Hl Hes Hs Hb) as [Hs1 Hrl].
      apply add_plain_locals_ok; assumption.
    Qed.

    Lemma assign_one_ok : forall t oe ofn sub lastcall s s',
        locs_exp t = true -> fi_ok ofn -> subs_ok sub -> st_ok s ->
        assign_one ce flv slv t oe ofn sub lastcall s = Ok s' -> st_ok s'.
    Proof.
      intros t oe ofn sub lastcall s s' Ht Hofn Hsub Hs H.
      assert (Hrefill : forall r (s0 : state) (fe : exp -> bool) (re : refk -> refk), st_ok s0 ->
                 st_ok (update_var r (fun v0 => match v0 with VI l f _ p g r0 _ => VI l f sub p g (re r0) (fe t) end) s0)).
      { intros r s0 fe re Hs0. apply update_var_ok; [|exact Hs0]. intros [l f s1 p g r0 e0] Hv.
        apply vi_ok_unfold in Hv. apply vi_ok_intro; tauto. }
      destruct t; try (cbn [assign_one] in H; injection H as <-; exact Hs).
      - (* EName *)
        cbn [assign_one] in H. cbn [locs_exp] in Ht.
        destruct (find_loc_var (env s) n l 0) as [[[d i] v]|].
        + ok_inj H. destruct (v_empty v && _); [|exact Hs].
          apply update_var_ok; [|exact Hs]. intros [l0 f s1 p g r0 e0] Hv.
          apply vi_ok_unfold in Hv. apply vi_ok_intro; tauto.
        + destruct (find_global n flv slv l (globs s)) as [v|].
          * ok_inj H. destruct (v_empty v && _); [|exact Hs].
            apply update_var_ok; [|exact Hs]. intros [l0 f s1 p g r0 e0] Hv.
            apply vi_ok_unfold in Hv. apply vi_ok_intro; tauto.
          * ok_inj H. destruct Hs as [He Hg Hn]. constructor; cbn [env globs nodefs]; auto.
            apply (assoc_set_Forall vi_ok); [exact Hg|]. apply vi_ok_intro; auto.
      - (* EIndex *)
        cbn [assign_one] in H. cbn [locs_exp] in Ht. apply andb_prop in Ht. destruct Ht as [Ht Hk].
        apply andb_prop in Ht. destruct Ht as [Hl Hp].
        inv_bind H. pose proof (ce_nil_ok _ _ _ Hp Hs Hb) as Hs1.
        inv_bind H. pose proof (ce_nil_ok _ _ _ Hk Hs1 Hb0) as Hs2.
        destruct (negb (simple_str (exp_name t2))); [ok_inj H; exact Hs2|].
        assert (Hkl : P (if loc_initial (exp_loc t2) then l else exp_loc t2) = true).
        { destruct (loc_initial (exp_loc t2)); [exact Hl | apply locs_exp_loc; exact Hk]. }
        destruct (beq_bytes (exp_name t1) (c_bang :: Symbols.s_G)).
        { (* _G.key = v *)
          destruct (find_global (exp_name t2) flv slv _ (globs a0)) as [v|].
          - ok_inj H. destruct (v_empty v && _); [|exact Hs2].
            apply update_var_ok; [|exact Hs2]. intros [l0 f s1 p g r0 e0] Hv.
            apply vi_ok_unfold in Hv. apply vi_ok_intro; tauto.
          - ok_inj H. destruct Hs2 as [He Hg Hn]. constructor; cbn [env globs nodefs]; auto.
            apply (assoc_set_Forall vi_ok); [exact Hg|]. apply vi_ok_intro; auto. }
        destruct (split_dot (exp_name t1)) as [|p0 ps]; [ok_inj H; exact Hs2|].
        destruct (negb (forallb simple_str ps)); [ok_inj H; exact Hs2|].
        assert (Hll : Forall (fun l0 => P l0 = true) (table_loc_list (EIndex t1 t2 l))).
        { apply locs_table_loc_list. cbn [locs_exp]. rewrite Hl, Hp, Hk. reflexivity. }
        assert (Hma : forall keys locl v, Forall (fun l0 => P l0 = true) locl -> vi_ok v ->
                   vi_ok (member_assign keys 1 locl
                                        (if loc_initial (exp_loc t2) then l else exp_loc t2) (mkNM ofn sub oe) v)).
        { intros keys locl v Hlocl Hv. apply member_assign_ok; auto. }
        destruct (if beq_bytes (trim_bang p0) Symbols.s_G then ps else []) as [|g0 gs].
        + destruct (find_loc_var (env a0) (trim_bang p0) _ 0) as [[[d i] v]|].
          * ok_inj H. apply update_var_ok; [|assumption]. intros v0 Hv0. apply Hma; assumption.
          * destruct (find_global (trim_bang p0) flv slv _ (globs a0)); ok_inj H;
              (apply update_var_ok; [|assumption]; intros v0 Hv0; apply Hma; assumption).
        + assert (Htl : Forall (fun l0 => P l0 = true) (List.tl (table_loc_list (EIndex t1 t2 l)))).
          { destruct (table_loc_list (EIndex t1 t2 l)); [constructor|]. inversion Hll; assumption. }
          destruct (find_global g0 flv slv _ (globs a0)); ok_inj H;
            (apply update_var_ok; [|assumption]; intros v0 Hv0; apply Hma; assumption).
    Qed.

    Lemma assign_loop_ok : forall vars i es lastcall s s',
        forallb locs_exp vars = true -> forallb locs_exp es = true -> st_ok s ->
        assign_loop ce flv slv i vars es lastcall s = Ok s' -> st_ok s'.
    Proof.
      induction vars as [|t vars IH]; intros i es lastcall s s' Hv Hes Hs H; cbn [assign_loop] in H.
      - injection H as <-. exact Hs.
      - cbn [forallb] in Hv. apply andb_prop in Hv. destruct Hv as [Ht Hv].
        inv_bind H. destruct a as [[s1 ofn] sub]. inv_bind H.
        assert (H1 : st_ok s1 /\ fi_ok ofn /\ pv_ok sub).
        { destruct (nth_error es i) as [e|] eqn:En.
          - apply (Hce _ _ _ _ _ _ (forallb_In _ _ _ Hes (nth_error_In _ _ En)) Hs pv_ok_empty Hb).
          - injection Hb as <- <- <-. split; [exact Hs | split; [exact I | constructor]]. }
        destruct H1 as [Hs1 [Hofn Hsub]].
        eapply IH; [exact Hv | exact Hes | | exact H].
        eapply assign_one_ok; [exact Ht | exact Hofn | exact Hsub | exact Hs1 | exact Hb0].
    Qed.

    Lemma cg_assign_ok : forall vars es s s',
        forallb locs_exp vars = true -> forallb locs_exp es = true -> st_ok s ->
        cg_assign ce flv slv vars es s = Ok s' -> st_ok s'.
    Proof.
      intros vars es s s' Hv Hes Hs H. unfold cg_assign in H. inv_bind H.
      pose proof (assign_loop_ok _ _ _ _ _ _ Hv Hes Hs Hb) as Hs1.
      eapply (iter_res_inv st_ok); [|exact Hs1|exact H].
      intros e s0 s1 Hin Hs0 He. eapply ce_nil_ok; [|exact Hs0|exact He].
      eapply forallb_In; [exact Hes|]. clear -Hin. revert es Hin. induction (length vars) as [|n IHn]; intros es Hin.
      - exact Hin.
      - destruct es as [|e0 es]; [destruct Hin|]. right. apply IHn. exact Hin.
    Qed.
  End StatOk.

  Lemma param_vars_ok : forall pars plocs acc,
      Forall (fun l => P l = true) plocs -> scope_ok acc -> scope_ok (param_vars pars plocs acc).
  Proof.
    induction pars as [|p pars IH]; intros plocs acc Hl Ha; cbn [param_vars]; [exact Ha|].
    destruct plocs as [|l plocs]; [exact Ha|]. inversion Hl as [|? ? H1 H2]; subst.
    apply IH; [exact H2|]. apply add_var_scope_ok; [|exact Ha]. apply vi_ok_intro; cbn; auto. constructor.
  Qed.

  (* ---------------------------------------------------------------- the whole analysis *)
  Definition exp_spec (n : nat) : Prop := forall flv slv, ce_spec (cg_exp n flv slv).
  Definition func_spec (n : nat) : Prop :=
    forall flv e s s' fi, locs_exp e = true -> st_ok s -> cg_func n flv e s = Ok (s', fi) -> st_ok s' /\ P (f_loc fi) = true.
  Definition stat_spec (n : nat) : Prop :=
    forall flv slv st s s', locs_stat st = true -> st_ok s -> cg_stat n flv slv st s = Ok s' -> st_ok s'.
  Definition block_spec (n : nat) : Prop :=
    forall flv slv b s s', locs_block b = true -> st_ok s -> cg_block n flv slv b s = Ok s' -> st_ok s'.

  Lemma all_spec : forall n, exp_spec n /\ func_spec n /\ stat_spec n /\ block_spec n.
  Proof.
    induction n as [|n [IHe [IHf [IHs IHb]]]].
    - repeat split; repeat intro; cbn in *; discriminate.
    - assert (Hnil : forall flv slv e s s', locs_exp e = true -> st_ok s ->
                                            drop3 (cg_exp n flv slv e None s) = Ok s' -> st_ok s').
      { intros flv slv e s s' He Hs H. apply drop3_ok in H. destruct H as [f [p H]].
        eapply IHe in H; eauto using pv_ok_None. tauto. }
      split; [|split; [|split]].
      + (* cg_exp *)
        intros flv slv e pv s s' ofn pv' He Hs Hpv H. cbn [cg_exp] in H.
        destruct e; cbn [locs_exp] in He;
          try (injection H as <- <- <-; split; [exact Hs | split; [exact I | exact Hpv]]).
        * (* EUnop *)
          apply andb_prop in He. destruct He as [_ He]. inv_bind H. injection H as <- <- <-.
          split; [eapply Hnil; eauto | split; [exact I | exact Hpv]].
        * (* EBinop *)
          apply andb_prop in He. destruct He as [He He2]. apply andb_prop in He. destruct He as [_ He1].
          inv_bind H. destruct a as [[s1 f1] pv1]. destruct (IHe _ _ _ _ _ _ _ _ He1 Hs Hpv Hb) as [Hs1 [_ Hpv1]].
          inv_bind H. destruct a as [[s2 f2] pv2]. destruct (IHe _ _ _ _ _ _ _ _ He2 Hs1 Hpv1 Hb0) as [Hs2 [_ Hpv2]].
          injection H as <- <- <-. split; [exact Hs2 | split; [exact I | exact Hpv2]].
        * (* ETable *)
          apply andb_prop in He. destruct He as [He Hvs]. apply andb_prop in He. destruct He as [_ Hks].
          inv_bind H. destruct a as [s1 pv1]. injection H as <- <- <-.
          destruct (cg_table_ok _ (IHe flv slv) _ _ _ _ _ _ Hks Hvs Hs Hpv Hb) as [Hs1 Hpv1].
          split; [exact Hs1 | split; [exact I | exact Hpv1]].
        * (* EFunc *)
          inv_bind H. destruct a as [s1 fi]. injection H as <- <- <-.
          assert (He' : locs_exp (EFunc cls fname pars parlocs b l vararg colon) = true) by exact He.
          destruct (IHf _ _ _ _ _ He' Hs Hb) as [Hs1 Hfi]. split; [exact Hs1 | split; [exact Hfi | exact Hpv]].
        * (* EName *)
          injection H as <- <- <-. split; [apply note_nodefine_ok; assumption | split; [exact I | exact Hpv]].
        * (* EParens *)
          apply andb_prop in He. destruct He as [_ He]. inv_bind H. destruct a as [[s1 f1] pv1].
          injection H as <- <- <-. destruct (IHe _ _ _ _ _ _ _ _ He Hs Hpv Hb) as [Hs1 [_ Hpv1]].
          split; [exact Hs1 | split; [exact I | exact Hpv1]].
        * (* EIndex *)
          apply andb_prop in He. destruct He as [He He2]. apply andb_prop in He. destruct He as [_ He1].
          inv_bind H. inv_bind H. injection H as <- <- <-.
          split; [apply note_G_ok; [exact He2|]; eapply Hnil; [exact He2| |exact Hb0]; eapply Hnil; [exact He1|exact Hs|exact Hb] | split; [exact I | exact Hpv]].
        * (* ECall *)
          apply andb_prop in He. destruct He as [He Hargs]. apply andb_prop in He. destruct He as [_ Hp].
          inv_bind H. inv_bind H. injection H as <- <- <-.
          split; [|split; [exact I | exact Hpv]].
          eapply (iter_res_inv st_ok); [| |exact Hb0].
          -- intros e0 s0 s1 Hin Hs0 H0. eapply Hnil; [|exact Hs0|exact H0]. eapply forallb_In; eauto.
          -- eapply Hnil; eauto.
      + (* cg_func *)
        intros flv e s s' fi He Hs H. cbn [cg_func] in H. destruct e; try discriminate.
        cbn [locs_exp] in He. apply andb_prop in He. destruct He as [He Hblk]. apply andb_prop in He. destruct He as [Hl Hpl].
        destruct (negb (Nat.eqb (length pars) (length parlocs))); [discriminate|].
        inv_bind H. inv_bind H. injection H as <- <-. cbn [f_loc]. split; [|exact Hl].
        eapply pop_scope_ok; [|exact Hb0]. eapply IHb; [exact Hblk| |exact Hb].
        destruct Hs as [Henv Hg Hn]. constructor; cbn [env globs nodefs]; auto.
        constructor; [|exact Henv]. apply param_vars_ok.
        -- apply Forall_forall. intros x Hx. eapply forallb_In; eauto.
        -- apply scope_all_unfold. split; constructor.
      + (* cg_stat *)
        intros flv slv st s s' Hst Hs H. cbn [cg_stat] in H.
        assert (Hblk1 : forall b s0 s1, locs_block b = true -> st_ok s0 -> cg_block n flv (N.succ slv) b s0 = Ok s1 -> st_ok s1)
          by (intros; eapply IHb; eauto).
        destruct st; cbn [locs_stat] in Hst; try (injection H as <-; exact Hs).
        * (* SDo *) eapply scoped_ok; [|exact Hs|exact H]. intros; eapply Hblk1; eauto.
        * (* SCall *) eapply Hnil; eauto.
        * (* SIf *)
          apply andb_prop in Hst. destruct Hst as [Hes Hbs].
          eapply (iter_res_inv st_ok); [|exact Hs|exact H].
          intros [e0 b0] s0 s1 Hin Hs0 H0. cbn [fst snd] in H0. inv_bind H0.
          pose proof (in_combine_l _ _ _ _ Hin) as Hin1. pose proof (in_combine_r _ _ _ _ Hin) as Hin2.
          eapply scoped_ok; [| |exact H0].
          -- intros; eapply Hblk1; eauto. eapply forallb_In; eauto.
          -- eapply Hnil; [|exact Hs0|exact Hb]. eapply forallb_In; eauto.
        * (* SWhile *)
          apply andb_prop in Hst. destruct Hst as [He Hblk]. inv_bind H.
          eapply scoped_ok; [| |exact H]; [intros; eapply Hblk1; eauto | eapply Hnil; eauto].
        * (* SRepeat *)
          apply andb_prop in Hst. destruct Hst as [He Hblk].
          eapply scoped_ok; [|exact Hs|exact H]. intros s0 s1 Hs0 H0. inv_bind H0.
          eapply Hnil; [exact He| |exact H0]. eapply Hblk1; eauto.
        * (* SForNum *)
          apply andb_prop in Hst. destruct Hst as [Hst Hblk]. apply andb_prop in Hst. destruct Hst as [Hst He3].
          apply andb_prop in Hst. destruct Hst as [Hst He2]. apply andb_prop in Hst. destruct Hst as [Hvl He1].
          eapply scoped_ok; [|exact Hs|exact H]. intros s0 s1 Hs0 H0. inv_bind H0. inv_bind H0. inv_bind H0.
          eapply Hblk1; [exact Hblk| |exact H0]. apply add_loc_var_ok.
          -- apply vi_ok_intro; cbn; auto. constructor.
          -- eapply Hnil; [exact He3| |exact Hb1]. eapply Hnil; [exact He2| |exact Hb0]. eapply Hnil; [exact He1|exact Hs0|exact Hb].
        * (* SForIn *)
          apply andb_prop in Hst. destruct Hst as [Hst Hblk]. apply andb_prop in Hst. destruct Hst as [Hls Hes].
          eapply scoped_ok; [|exact Hs|exact H]. intros s0 s1 Hs0 H0. inv_bind H0.
          eapply Hblk1; [exact Hblk| |exact H0]. apply add_plain_locals_ok.
          -- apply Forall_forall. intros x Hx. eapply forallb_In; eauto.
          -- eapply (iter_res_inv st_ok); [|exact Hs0|exact Hb].
             intros e0 s2 s3 Hin Hs2 H2. eapply Hnil; [|exact Hs2|exact H2]. eapply forallb_In; eauto.
        * (* SAssign *)
          apply andb_prop in Hst. destruct Hst as [Hv Hes].
          eapply cg_assign_ok; [apply IHe|exact Hv|exact Hes|exact Hs|exact H].
        * (* SLocal *)
          apply andb_prop in Hst. destruct Hst as [Hls Hes].
          eapply cg_local_ok; [apply IHe| |exact Hes|exact Hs|exact H].
          apply Forall_forall. intros x Hx. eapply forallb_In; eauto.
        * (* SLocalFunc *)
          apply andb_prop in Hst. destruct Hst as [Hnl Hf].
          destruct f; try discriminate. inv_bind H. destruct a as [s1 fi]. injection H as <-.
          eapply IHf in Hb; [destruct Hb as [Hb _]; exact Hb | exact Hf |].
          apply add_loc_var_ok; [|exact Hs]. apply vi_ok_intro; cbn; auto; [|constructor].
          cbn [locs_exp] in Hf. apply andb_prop in Hf. destruct Hf as [Hf _]. apply andb_prop in Hf. tauto.
      + (* cg_block *)
        intros flv slv b s s' Hblk Hs H. cbn [cg_block] in H. destruct b as [stats ret l].
        cbn [locs_block] in Hblk. apply andb_prop in Hblk. destruct Hblk as [Hss Hret].
        inv_bind H.
        assert (Hs1 : st_ok a).
        { eapply (iter_res_inv st_ok); [|exact Hs|exact Hb].
          intros st s0 s1 Hin Hs0 H0. eapply IHs; [|exact Hs0|exact H0]. eapply forallb_In; eauto. }
        destruct ret as [es|]; [|injection H as <-; exact Hs1].
        eapply (iter_res_inv st_ok); [|exact Hs1|exact H].
        intros e0 s0 s1 Hin Hs0 H0. eapply Hnil; [|exact Hs0|exact H0]. eapply forallb_In; eauto.
  Qed.
End Locs.
