(* C15: the executable specification (worklist closure `close`) computes exactly the declarative one
   (reach / members_spec / define_spec), and its fuel always suffices. *)
From Coq Require Import List NArith Bool Lia Relations Operators_Properties.
From LH Require Import Base.Res Model.Classes Spec.ClassClosure Proofs.ClassesTotal Proofs.ClassesClosure.
Import ListNotations.
Local Open Scope N_scope.

Section SpecExec.
  Variable tm : tmap.

  (* worklist invariant: whatever a seen name refers to is seen or still to do *)
  Definition WInv (todo seen : list name) : Prop :=
    forall n m, In n seen -> In m (succs tm n) -> In m seen \/ In m todo.

  Lemma close_spec fuel : forall todo seen R,
    close tm fuel todo seen = Some R ->
    incl seen R /\ incl todo R /\
    (forall n, In n R -> In n seen \/ exists n0, In n0 todo /\ reach tm n0 n) /\
    (WInv todo seen -> forall n m, In n R -> In m (succs tm n) -> In m R).
  Proof.
    induction fuel as [|k IH]; intros todo seen R H.
    - destruct todo as [|n rest]; [|discriminate]. simpl in H. injection H as <-.
      repeat split; try apply incl_refl.
      + intros n [].
      + intros n Hn. left. exact Hn.
      + intros HI n m Hn Hm. destruct (HI n m Hn Hm) as [X|[]]. exact X.
    - destruct todo as [|n rest].
      + simpl in H. injection H as <-. repeat split; try apply incl_refl.
        * intros n [].
        * intros n Hn. left. exact Hn.
        * intros HI n m Hn Hm. destruct (HI n m Hn Hm) as [X|[]]. exact X.
      + simpl in H. destruct (mem n seen) eqn:Hmem.
        * apply mem_true_iff in Hmem.
          destruct (IH rest seen R H) as [I1 [I2 [I3 I4]]]. repeat split.
          -- exact I1.
          -- intros x [<-|Hx]; [apply I1; exact Hmem|apply I2; exact Hx].
          -- intros x Hx. destruct (I3 x Hx) as [Hs|[n0 [Hn0 Hr]]]; [left; exact Hs|].
             right. exists n0. split; [right; exact Hn0|exact Hr].
          -- intros HI. apply I4. intros a b Ha Hb. destruct (HI a b Ha Hb) as [X|[<-|X]]; [left; exact X|left; exact Hmem|right; exact X].
        * destruct (IH (succs tm n ++ rest) (n :: seen) R H) as [I1 [I2 [I3 I4]]]. repeat split.
          -- intros x Hx. apply I1. right. exact Hx.
          -- intros x [<-|Hx]; [apply I1; left; reflexivity|apply I2; apply in_or_app; right; exact Hx].
          -- intros x Hx. destruct (I3 x Hx) as [[<-|Hs]|[n0 [Hn0 Hr]]].
             ++ right. exists n. split; [left; reflexivity|apply rt_refl].
             ++ left. exact Hs.
             ++ right. apply in_app_or in Hn0. destruct Hn0 as [Hn0|Hn0].
                ** exists n. split; [left; reflexivity|]. eapply rt_trans; [apply rt_step; exact Hn0|exact Hr].
                ** exists n0. split; [right; exact Hn0|exact Hr].
          -- intros HI. apply I4. intros a b [<-|Ha] Hb.
             ++ right. apply in_or_app. left. exact Hb.
             ++ destruct (HI a b Ha Hb) as [X|[<-|X]]; [left; right; exact X|left; left; reflexivity|right; apply in_or_app; right; exact X].
  Qed.

  Theorem reach_exec_correct t R :
    reach_exec tm t = Some R ->
    forall n, In n R <-> exists n0, In n0 (normal_names t) /\ reach tm n0 n.
  Proof.
    unfold reach_exec. intros H.
    destruct (close_spec _ _ _ _ H) as [_ [I2 [I3 I4]]].
    assert (HI : WInv (normal_names t) []) by (intros a b []).
    intros n. split.
    - intros Hn. destruct (I3 n Hn) as [[]|X]. exact X.
    - intros [n0 [Hn0 Hr]]. induction Hr using clos_refl_trans_ind_left.
      + apply I2. exact Hn0.
      + apply (I4 HI y z); assumption.
  Qed.

  Theorem members_exec_correct t L :
    members_exec tm t = Some L -> forall x, In x L <-> members_spec tm t x.
  Proof.
    unfold members_exec. destruct (reach_exec tm t) as [R|] eqn:E; [|discriminate].
    intros H. injection H as <-. intros x. unfold names_members, members_spec, reachable_def.
    rewrite in_flat_map. split.
    - intros [n [Hn Hx]]. apply in_flat_map in Hx. destruct Hx as [d [Hd Hx]].
      apply (reach_exec_correct t R E) in Hn. destruct Hn as [n0 [Hn0 Hr]].
      exists d. split; [exists n0, n; tauto|exact Hx].
    - intros [d [[n0 [n [Hn0 [Hr Hd]]]] Hx]]. exists n. split.
      + apply (reach_exec_correct t R E). exists n0. tauto.
      + apply in_flat_map. exists d. tauto.
  Qed.

  Theorem define_exec_correct t k L :
    define_exec tm t k = Some L -> forall loc, In loc L <-> define_spec tm t k loc.
  Proof.
    unfold define_exec. destruct (reach_exec tm t) as [R|] eqn:E; [|discriminate].
    intros H. injection H as <-. intros loc. unfold define_spec, reachable_def.
    rewrite in_flat_map. split.
    - intros [n [Hn Hx]]. apply in_flat_map in Hx. destruct Hx as [d [Hd Hx]].
      apply in_map_iff in Hx. destruct Hx as [fl [Hl Hf]]. apply filter_In in Hf. destruct Hf as [Hf Hk].
      apply N.eqb_eq in Hk.
      apply (reach_exec_correct t R E) in Hn. destruct Hn as [n0 [Hn0 Hr]].
      exists d, fl. split; [exists n0, n; tauto|]. split; [exact Hf|]. split; [exact Hk|symmetry; exact Hl].
    - intros [d [fl [[n0 [n [Hn0 [Hr Hd]]]] [Hf [Hk Hl]]]]]. exists n. split.
      + apply (reach_exec_correct t R E). exists n0. tauto.
      + apply in_flat_map. exists d. split; [exact Hd|].
        apply in_map_iff. exists fl. split; [symmetry; exact Hl|].
        apply filter_In. split; [exact Hf|apply N.eqb_eq; exact Hk].
  Qed.

  Theorem member_step_exec_correct t k L :
    member_step_exec tm t k = Some L -> forall s, In s L <-> member_step_spec tm t k s.
  Proof.
    unfold member_step_exec. destruct (reach_exec tm t) as [R|] eqn:E; [|discriminate].
    intros H. injection H as <-. intros s. unfold member_step_spec, reachable_def.
    rewrite in_flat_map. split.
    - intros [n [Hn Hx]]. apply in_flat_map in Hx. destruct Hx as [d [Hd Hx]].
      apply in_map_iff in Hx. destruct Hx as [fl [Hl Hf]]. apply filter_In in Hf. destruct Hf as [Hf Hk].
      apply N.eqb_eq in Hk.
      apply (reach_exec_correct t R E) in Hn. destruct Hn as [n0 [Hn0 Hr]].
      exists d, fl. split; [exists n0, n; tauto|]. split; [exact Hf|]. split; [exact Hk|symmetry; exact Hl].
    - intros [d [fl [[n0 [n [Hn0 [Hr Hd]]]] [Hf [Hk Hl]]]]]. exists n. split.
      + apply (reach_exec_correct t R E). exists n0. tauto.
      + apply in_flat_map. exists d. split; [exact Hd|].
        apply in_map_iff. exists fl. split; [symmetry; exact Hl|].
        apply filter_In. split; [exact Hf|apply N.eqb_eq; exact Hk].
  Qed.

  (* ---------- the fuel suffices ---------- *)
  Definition wdef (seen : list name) (d : def) : nat :=
    if mem (d_name d) seen || (d_name d =? n_any) then O else S (length (refs_of d)).
  Fixpoint weight (seen : list name) (ds : list def) : nat :=
    match ds with [] => O | d :: r => (wdef seen d + weight seen r)%nat end.

  Lemma weight_step n seen ds :
    mem n seen = false ->
    (length (flat_map refs_of (if n =? n_any then [] else filter (fun d => d_name d =? n) ds))
       + weight (n :: seen) ds <= weight seen ds)%nat.
  Proof.
    intros Hm. induction ds as [|d r IH].
    - simpl. destruct (n =? n_any); simpl; lia.
    - cbn [weight filter]. unfold wdef.
      change (mem (d_name d) (n :: seen)) with ((d_name d =? n) || mem (d_name d) seen).
      destruct (d_name d =? n) eqn:Ed.
      + apply N.eqb_eq in Ed. rewrite Ed. rewrite Hm.
        destruct (n =? n_any) eqn:Ea; cbn [orb flat_map app length] in *.
        * lia.
        * rewrite app_length. lia.
      + cbn [orb].
        destruct (n =? n_any) eqn:Ea; destruct (mem (d_name d) seen || (d_name d =? n_any)); cbn [flat_map length] in *; lia.
  Qed.

  Lemma succs_length n seen :
    mem n seen = false -> (length (succs tm n) + weight (n :: seen) tm <= weight seen tm)%nat.
  Proof. intros Hm. unfold succs, sdefs, global_defs. apply weight_step. exact Hm. Qed.

  Lemma close_total fuel : forall todo seen,
    (length todo + weight seen tm <= fuel)%nat -> close tm fuel todo seen <> None.
  Proof.
    induction fuel as [|k IH]; intros todo seen Hl.
    - destruct todo; simpl in *; [discriminate|lia].
    - destruct todo as [|n rest]; [simpl; discriminate|]. simpl.
      destruct (mem n seen) eqn:Hm.
      + apply IH. simpl in Hl. lia.
      + apply IH. rewrite app_length. pose proof (succs_length n seen Hm). simpl in Hl.
        unfold name in *. lia.
  Qed.

  Lemma weight_nil_le ds : (weight [] ds <= fold_right (fun d a => S (length (refs_of d)) + a) O ds)%nat.
  Proof.
    induction ds as [|d r IH]; [simpl; lia|]. cbn [weight fold_right]. unfold wdef. cbn [mem existsb orb].
    destruct (d_name d =? n_any); unfold name in *; lia.
  Qed.

  Theorem reach_exec_total t : reach_exec tm t <> None.
  Proof.
    unfold reach_exec, close_fuel. apply close_total. pose proof (weight_nil_le tm). unfold name in *. lia.
  Qed.

  Theorem members_exec_total t : exists L, members_exec tm t = Some L.
  Proof.
    unfold members_exec. destruct (reach_exec tm t) as [R|] eqn:E; [eexists; reflexivity|].
    exfalso. eapply reach_exec_total. exact E.
  Qed.
End SpecExec.
