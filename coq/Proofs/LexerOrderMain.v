(* C04, token order, part 2: the token list of an error-free file inside the guard is ordered.

   For every valid-UTF-8 file inside file_class_ok that lexes without lexical error, and every line width W that is at
   least the longest line of the file in bytes, every token of lex_all is recorded in the one-line form
   (lineStartPos <= tokenStartPos), starts before it ends, the EOF token is empty, and every token ends before the next
   one starts, positions being compared by  line * W + column  (tokens_ordered).

   The proof runs the ghost invariant Inv of LexerRangeMain.v (which gives the UTF-8 structure: a string token advances
   the column by the number of its characters, at most the number of its bytes) side by side with the byte-level
   invariant Fits of LexerOrderBase.v, and keeps the key of the lexer state  line * W + (pos - lineStartPos)
   non-decreasing: it grows by the width of every token and every blank, and a line end moves it from
   line * W + column (column <= W) to (line + 1) * W. *)
From Coq Require Import List NArith ZArith Bool Arith Lia ZifyN ZifyNat ZifyBool.
From LH Require Import Base.Bytes Base.Res Base.Utf8 Model.Codec Model.Lexer Spec.LspRange.
From LH Require Import Proofs.LexerRangeUtf8 Proofs.LexerRangePos Proofs.LexerRangeScan Proofs.LexerRangeMain.
From LH Require Import Proofs.LexerTotalProgress Proofs.LexerTotalMain Proofs.LexerOrderBase.
Import ListNotations.
Local Open Scope N_scope.

(* ------------------------------------------------------------------ the guard on the line width *)
Definition line_width_ok (W : Z) (cps : list N) : bool := (Z.of_nat (max_line_bytes (utf8_of cps)) <=? W)%Z.

(* ------------------------------------------------------------------ order of tokens (the shape of TokOrd in
   ParserLocKeys.v for key = line * W + column, spelled out on the token fields) *)
Definition tlo (W : Z) (t : tok) : Z := (tline t * W + (tfrom t - tlsp t))%Z.
Definition thi (W : Z) (t : tok) : Z := (tline t * W + (tto t - tlsp t))%Z.
Definition tok_fine (W : Z) (t : tok) : Prop :=
  (tlsp t <= tfrom t)%Z /\ (tlo W t <= thi W t)%Z /\ (tk t = TkEOF -> (thi W t <= tlo W t)%Z).
Fixpoint tchain (W : Z) (l : list tok) : Prop :=
  match l with
  | t :: ((t' :: _) as r) => (thi W t <= tlo W t')%Z /\ tchain W r
  | _ => True
  end.
(* the same on a reversed list (the accumulator of lex_loop) *)
Fixpoint rchain (W : Z) (l : list tok) : Prop :=
  match l with
  | t' :: ((t :: _) as r) => (thi W t <= tlo W t')%Z /\ rchain W r
  | _ => True
  end.

Lemma tchain_snoc W : forall l t, tchain W l ->
  match rev l with x :: _ => (thi W x <= tlo W t)%Z | [] => True end -> tchain W (l ++ [t]).
Proof.
  induction l as [|a l IH]; intros t Hc Hl; [exact I|].
  destruct l as [|b l].
  - cbn [rev app] in Hl |- *. split; [exact Hl|exact I].
  - change ((a :: b :: l) ++ [t]) with (a :: b :: (l ++ [t])).
    change (tchain W (a :: b :: l)) with ((thi W a <= tlo W b)%Z /\ tchain W (b :: l)) in Hc. destruct Hc as [Hab Hc].
    change ((thi W a <= tlo W b)%Z /\ tchain W ((b :: l) ++ [t])). split; [exact Hab|]. apply IH; [exact Hc|].
    change (rev (a :: b :: l)) with (rev (b :: l) ++ [a]) in Hl.
    destruct (rev (b :: l)) as [|x r] eqn:E; [|exact Hl].
    apply (f_equal (@length tok)) in E. rewrite rev_length in E. discriminate.
Qed.

Lemma rchain_rev W : forall l, rchain W l -> tchain W (rev l).
Proof.
  induction l as [|t' l IH]; intros H; [exact I|]. cbn [rev]. destruct l as [|t l].
  - exact I.
  - change ((thi W t <= tlo W t')%Z /\ rchain W (t :: l)) in H. destruct H as [Htt H].
    apply tchain_snoc; [apply IH, H|]. rewrite rev_involutive. exact Htt.
Qed.

Lemma utf8_len_ge : forall l, (length l <= length (utf8_of l))%nat.
Proof.
  induction l as [|c l IH]; [cbn; lia|]. rewrite utf8_of_cons, app_length. destruct (enc_cons c) as (b & t & ->).
  cbn [length]. lia.
Qed.

Section Main.
  Variable cps : list N.
  Hypothesis Hsc : forallb scalar cps = true.
  Hypothesis Hg : file_class_ok cps = true.
  Variable W : Z.

  (* no long-bracket opener at any byte offset of the rest of the file *)
  Lemma guard_clean pre post : cps = pre ++ post -> Clean (utf8_of post).
  Proof.
    intros Hc k.
    assert (Hgen : forall b, b < 128 -> test [91; b] (skipn k (utf8_of post)) = true -> has_pair 91 b cps = true).
    { intros b Hb E. apply test2 in E as [t E]. pose proof E as E0. apply skipn_cons_nth in E as [Hn _].
      destruct (split_at_ascii _ _ _ Hn ltac:(lia)) as (blk & post' & -> & _ & Es). rewrite E0 in Es.
      apply cons_eq in Es as [_ Es].
      apply (no_pair cps (pre ++ blk) (91 :: post') 91 b t); [rewrite <- app_assoc; exact Hc| |lia|exact Hb].
      rewrite utf8_of_cons, enc_ascii by lia. cbn [app]. rewrite Es. reflexivity. }
    destruct (guard_parts cps Hg) as (_ & H1 & H2 & _). apply orb_false_iff. split.
    - destruct (test [91; 91] _) eqn:E; [|reflexivity]. rewrite (Hgen 91) in H1; [discriminate|lia|exact E].
    - destruct (test [91; 61] _) eqn:E; [|reflexivity]. rewrite (Hgen 61) in H2; [discriminate|lia|exact E].
  Qed.

  Lemma inv_clean s pre post : Inv cps s pre post -> Clean (chunk s).
  Proof. intros (Hc & Hch & _). rewrite Hch. eapply guard_clean. exact Hc. Qed.

  Section Tokens.
  Context {fx : FxEscape}.
  Variable gbk : list N -> Z.

  Lemma tokA_moves s t s' : TokA s t s' -> exists n, Moves s s' n n /\ (1 <= n)%nat.
  Proof.
    intros (n & Hn & Hp & -> & _). exists n. split; [|exact Hn]. apply moves_adv, PlainTo_NoNl, Hp.
  Qed.

  (* a short string: the column advances by the number of characters + 2, the chunk by the number of bytes + 2 *)
  Lemma tokB_moves s pre post t s' : Inv cps s pre post -> TokB gbk s t s' -> exists m k, Moves s s' m k /\ (2 <= k)%nat.
  Proof.
    intros (Hc & Hch & _) (_ & d & j & Hj & H0 & Hd & Hjd & Hnl & ->).
    assert (Hd128 : d < 128) by (unfold plain in Hd; lia).
    assert (Hdn : is_newline d = false) by (unfold plain in Hd; destruct (is_newline d); [rewrite andb_false_r in Hd; discriminate|reflexivity]).
    assert (HN : NoNl (chunk s) (S j)).
    { intros i Hi. destruct (Nat.eq_dec i 0) as [->|Hi0]; [exists d; split; [exact H0|exact Hdn]|].
      destruct (Nat.eq_dec i j) as [->|Hij]; [exists d; split; [exact Hjd|exact Hdn]|].
      destruct (nth_error (chunk s) i) as [b|] eqn:Eb.
      - exists b. split; [reflexivity|]. apply (Hnl i b); [lia|exact Eb].
      - exfalso. apply nth_error_None in Eb.
        assert (Hs : nth_error (chunk s) j <> None) by congruence. apply nth_error_Some in Hs. lia. }
    assert (Hcount : exists n, conv_rune_count gbk (firstn (j - 1) (skipn 1 (chunk s))) = Z.of_nat n /\ (n <= j - 1)%nat).
    { rewrite Hch in H0, Hjd |- *.
      destruct (utf8_of post) as [|d' r1] eqn:Eu; [discriminate|]. cbn [nth_error] in H0. injection H0 as ->.
      destruct (utf8_head1 _ _ _ Eu Hd128) as (post1 & -> & ->).
      destruct j as [|j]; [lia|]. cbn [nth_error] in Hjd. cbn [skipn]. replace (S j - 1)%nat with j by lia.
      destruct (split_at_ascii _ _ _ Hjd Hd128) as (blk & post' & -> & Ef & Es).
      assert (Hin : forall x, In x blk -> In x cps).
      { intros x Hx. rewrite Hc. apply in_or_app. right. right. apply in_or_app. left. exact Hx. }
      assert (Hsb : forallb scalar blk = true) by (apply forallb_forall; intros x Hx; apply (cp_ok cps Hsc Hg), Hin, Hx).
      assert (H2b : existsb is_two_byte blk = false).
      { destruct (existsb is_two_byte blk) eqn:E; [|reflexivity]. apply existsb_exists in E as (x & Hx & E).
        destruct (cp_ok cps Hsc Hg x (Hin x Hx)) as (_ & E2 & _). congruence. }
      exists (length blk). rewrite <- Ef. split; [apply conv_rune_count_utf8; assumption|].
      pose proof (utf8_len_ge blk) as Hl. rewrite Ef, firstn_length in Hl. lia. }
    destruct Hcount as (n & -> & Hn).
    exists (S j), (n + 2)%nat. split; [|lia]. unfold Moves. cbn [chunk line lsp Lexer.pos].
    split; [reflexivity|]. split; [reflexivity|]. split; [reflexivity|]. split; [lia|]. split; [lia|exact HN].
  Qed.

  (* ---------------------------------------------------------------- one token *)
  Lemma token_order s1 pre1 post1 t s2 :
    Inv cps s1 pre1 post1 -> Fits W s1 -> scan_token gbk s1 = (t, s2, []) -> chunk s1 <> [] ->
    Fits W s2 /\ Clean (chunk s2) /\ tk t <> TkEOF /\
    (tlsp t <= tfrom t)%Z /\ tlo W t = skey W s1 /\ thi W t = skey W s2 /\ (skey W s1 < skey W s2)%Z.
  Proof.
    intros HI HF H Hne. pose proof HI as (Hc & Hch & _).
    destruct (chunk s1) as [|c rest] eqn:Ech; [congruence|].
    assert (H92 : no92 (chunk s1)) by (rewrite Ech, Hch; apply (no92_suffix cps Hg pre1), Hc).
    assert (Hlb : test [91; 91] (chunk s1) || test [91; 61] (chunk s1) = false)
      by (rewrite Ech, Hch; apply (no_lb cps Hg pre1), Hc).
    pose proof (scan_token_fields gbk s1 t s2 H ltac:(rewrite Ech; discriminate)) as (F1 & F2 & F3 & F4).
    destruct (scan_token_progress gbk s1 t s2 [] H ltac:(rewrite Ech; discriminate)) as [Hk _].
    assert (HM : exists m k, Moves s1 s2 m k /\ (1 <= k)%nat).
    { destruct (scan_token_cases gbk s1 c rest t s2 Ech H92 Hlb H) as [HA|HB].
      - destruct (tokA_moves _ _ _ HA) as (n & HM & Hn). exists n, n. split; assumption.
      - destruct (tokB_moves _ _ _ _ _ HI HB) as (m & k & HM & Hk2). exists m, k. split; [exact HM|lia]. }
    destruct HM as (m & k & HM & Hk1).
    destruct (moves_fits W _ _ _ _ HM HF) as [HF2 HK]. pose proof HM as (Hc2 & Hl2 & Hs2 & Hp2 & _).
    destruct HF as (H0 & _).
    split; [exact HF2|]. split; [rewrite Hc2; apply Clean_skipn, (inv_clean _ _ _ HI)|]. split; [exact Hk|].
    unfold tlo, thi, skey, col in *. rewrite F1, F2, F3, F4, Hl2, Hs2.
    split; [lia|]. split; [reflexivity|]. split; [reflexivity|]. rewrite Hl2, Hs2 in HK. lia.
  Qed.

  (* ---------------------------------------------------------------- the token loop *)
  Definition head_le (acc : list ltok) (s : lst) : Prop :=
    match acc with a :: _ => (thi W (lt a) <= skey W s)%Z | [] => True end.

  Lemma lex_loop_order : forall fuel p2 p1 s acc ts pre post,
    lex_loop gbk fuel p2 p1 s acc = Ok ts -> Forall noerr ts ->
    Inv cps s pre post -> Fits W s ->
    Forall (tok_fine W) (map lt acc) -> rchain W (map lt acc) -> head_le acc s ->
    Forall (tok_fine W) (map lt ts) /\ tchain W (map lt ts).
  Proof.
    induction fuel as [|f IH]; intros p2 p1 s acc ts pre post H Hno HI HF Hfine Hrc Hhd; [discriminate|].
    cbn [lex_loop] in H. destruct (next_token gbk p2 p1 s) as [lt1 s2] eqn:En.
    unfold next_token in En. destruct (skip_ws p2 p1 s) as [[s1 cms] es1] eqn:Ews.
    destruct (scan_token gbk s1) as [[t s2'] es2] eqn:Est. psplit En. subst lt1 s2'.
    cbn [lt] in H.
    destruct (skip_ws_inv cps Hg _ _ _ _ _ _ _ _ Ews HI) as (pre1 & post1 & HI1).
    destruct (skip_ws_fits W _ _ _ _ _ _ Ews (inv_clean _ _ _ HI) HF) as (_ & HF1 & HK1).
    assert (Hhd1 : head_le acc s1) by (unfold head_le in *; destruct acc; [exact I|lia]).
    destruct (chunk s1) as [|c0 r0] eqn:Ech.
    - (* end of file: the EOF token is empty *)
      unfold scan_token in Est. cbv zeta in Est. rewrite Ech in Est. psplit Est. subst t.
      cbn [tk] in H. injection H as <-.
      assert (Hfe : tok_fine W (mkTok TkEOF [69; 79; 70] (line s1) (lsp s1) (Lexer.pos s1) (Lexer.pos s1))).
      { destruct HF1 as (H0 & _). unfold tok_fine, tlo, thi, col in *. cbn [tlsp tfrom tto tline tk]. lia. }
      cbn [rev]. rewrite !map_app, !map_rev. cbn [map lt]. split.
      + apply Forall_app. split; [apply Forall_rev; exact Hfine|]. constructor; [exact Hfe|constructor].
      + apply tchain_snoc; [apply rchain_rev; exact Hrc|]. rewrite rev_involutive.
        unfold head_le in Hhd1. destruct acc as [|a acc']; [exact I|]. cbn [map].
        unfold tlo, skey, col in *. cbn [tlsp tfrom tto tline]. lia.
    - assert (Hne : chunk s1 <> []) by (rewrite Ech; discriminate).
      destruct (scan_token_progress gbk s1 t s2 es2 Est Hne) as [Hk _].
      rewrite (match_eof _ _ _ Hk) in H.
      assert (Hin : In (mkLtok t (es1 ++ es2) cms) ts) by (apply (lex_loop_incl _ _ _ _ _ _ _ H); left; reflexivity).
      pose proof Hno as Hno'. rewrite Forall_forall in Hno'. apply Hno' in Hin. unfold noerr in Hin. cbn [lerrs] in Hin.
      apply app_eq_nil in Hin as [_ ->].
      destruct (token_step cps Hsc Hg gbk _ _ _ _ _ HI1 Est Hk) as ((pre2 & post2 & HI2) & _).
      destruct (token_order _ _ _ _ _ HI1 HF1 Est Hne) as (HF2 & _ & _ & T1 & T2 & T3 & T4).
      eapply IH; [exact H|exact Hno|exact HI2|exact HF2| | |].
      + cbn [map lt]. constructor; [|exact Hfine]. split; [exact T1|]. split; [lia|]. intros Hke. congruence.
      + cbn [map lt]. destruct acc as [|a acc']; [exact I|]. cbn [map].
        change ((thi W (lt a) <= tlo W t)%Z /\ rchain W (map lt (a :: acc'))). split; [|exact Hrc].
        unfold head_le in Hhd1. lia.
      + unfold head_le. cbn [lt]. lia.
  Qed.

  (* every non-EOF token of the result was scanned, without error, from a state that satisfies both invariants *)
  Definition Scanned (t : tok) : Prop :=
    (tk t = TkEOF /\ tto t = tfrom t /\ (0 <= tfrom t - tlsp t <= W)%Z) \/
    exists s1 pre1 post1 s2, Inv cps s1 pre1 post1 /\ Fits W s1 /\ scan_token gbk s1 = (t, s2, []) /\ chunk s1 <> [].

  Lemma lex_loop_scanned : forall fuel p2 p1 s acc ts pre post,
    lex_loop gbk fuel p2 p1 s acc = Ok ts -> Forall noerr ts ->
    Inv cps s pre post -> Fits W s ->
    Forall Scanned (map lt acc) -> Forall Scanned (map lt ts).
  Proof.
    induction fuel as [|f IH]; intros p2 p1 s acc ts pre post H Hno HI HF Hacc; [discriminate|].
    cbn [lex_loop] in H. destruct (next_token gbk p2 p1 s) as [lt1 s2] eqn:En.
    unfold next_token in En. destruct (skip_ws p2 p1 s) as [[s1 cms] es1] eqn:Ews.
    destruct (scan_token gbk s1) as [[t s2'] es2] eqn:Est. psplit En. subst lt1 s2'.
    cbn [lt] in H.
    destruct (skip_ws_inv cps Hg _ _ _ _ _ _ _ _ Ews HI) as (pre1 & post1 & HI1).
    destruct (skip_ws_fits W _ _ _ _ _ _ Ews (inv_clean _ _ _ HI) HF) as (_ & HF1 & _).
    destruct (chunk s1) as [|c0 r0] eqn:Ech.
    - unfold scan_token in Est. cbv zeta in Est. rewrite Ech in Est. psplit Est. subst t.
      cbn [tk] in H. injection H as <-. cbn [rev]. rewrite !map_app, !map_rev. cbn [map lt].
      apply Forall_app. split; [apply Forall_rev; exact Hacc|]. constructor; [left|constructor].
      pose proof (Fits_col W s1 HF1) as Hcol. unfold col in Hcol. cbn [tk tto tfrom tlsp].
      split; [reflexivity|]. split; [reflexivity|exact Hcol].
    - assert (Hne : chunk s1 <> []) by (rewrite Ech; discriminate).
      destruct (scan_token_progress gbk s1 t s2 es2 Est Hne) as [Hk _].
      rewrite (match_eof _ _ _ Hk) in H.
      assert (Hin : In (mkLtok t (es1 ++ es2) cms) ts) by (apply (lex_loop_incl _ _ _ _ _ _ _ H); left; reflexivity).
      pose proof Hno as Hno'. rewrite Forall_forall in Hno'. apply Hno' in Hin. unfold noerr in Hin. cbn [lerrs] in Hin.
      apply app_eq_nil in Hin as [_ ->].
      destruct (token_step cps Hsc Hg gbk _ _ _ _ _ HI1 Est Hk) as ((pre2 & post2 & HI2) & _).
      destruct (token_order _ _ _ _ _ HI1 HF1 Est Hne) as (HF2 & _).
      eapply IH; [exact H|exact Hno|exact HI2|exact HF2|].
      cbn [map lt]. constructor; [|exact Hacc]. right. exists s1, pre1, post1, s2. split; [exact HI1|]. split; [exact HF1|]. split; [exact Est|exact Hne].
  Qed.

  End Tokens.

  (* ---------------------------------------------------------------- the start *)
  Lemma skip_first_line_fits : line_width_ok W cps = true -> Fits W (skip_first_line (utf8_of cps)).
  Proof.
    intros HW. unfold line_width_ok, max_line_bytes in HW. unfold skip_first_line. cbv zeta.
    assert (Hnb : forall t, utf8_of cps <> 239 :: 187 :: 191 :: t).
    { intros t E. destruct (guard_parts cps Hg) as (_ & _ & _ & _ & _ & _ & Hb). destruct cps as [|c cps']; [discriminate|].
      rewrite utf8_of_cons in E. apply enc_bom in E. subst c. discriminate. }
    rewrite (strip_bom _ Hnb).
    assert (HF0 : Fits W (mkLst (utf8_of cps) 1 0 0)).
    { unfold Fits, col. cbn [chunk lsp Lexer.pos]. split; [lia|]. exists 0%nat. split; lia. }
    destruct (utf8_of cps) as [|b0 r] eqn:Eu; [exact HF0|].
    destruct (N.eq_dec b0 35) as [->|Hb0]; [|rewrite (match_not35 b0 r _ _ Hb0); exact HF0].
    cbv iota beta.
    set (s0 := mkLst (35 :: r) 1 0 0) in *.
    assert (HM : Moves s0 (adv (adv s0 1) (until_newline (chunk (adv s0 1)))) (1 + until_newline r) (1 + until_newline r)).
    { unfold Moves, adv, s0. cbn [chunk line lsp Lexer.pos skipn].
      split; [reflexivity|]. split; [reflexivity|]. split; [reflexivity|]. split; [lia|]. split; [lia|].
      change (1 + until_newline r)%nat with (S (until_newline r)). apply NoNl_cons; [reflexivity|apply until_newline_NoNl]. }
    apply (moves_fits W _ _ _ _ HM HF0).
  Qed.
End Main.

(* ------------------------------------------------------------------ the theorem *)
Theorem tokens_ordered : forall W gbk cps ts,
  forallb scalar cps = true -> file_class_ok cps = true -> line_width_ok W cps = true ->
  lex_all gbk (utf8_of cps) = Ok ts -> cls_lexerr ts = false ->
  Forall (tok_fine W) (map lt ts) /\ tchain W (map lt ts).
Proof.
  intros W gbk cps ts Hsc Hg HW Hlex Herr. unfold lex_all in Hlex.
  destruct (skip_first_line_inv cps Hsc Hg) as (pre & post & HI).
  eapply (lex_loop_order cps Hsc Hg W gbk); [exact Hlex| |exact HI|apply skip_first_line_fits; assumption|constructor|exact I|exact I].
  apply Forall_forall. intros x Hx. unfold noerr. unfold cls_lexerr in Herr.
  destruct (lerrs x) eqn:E; [reflexivity|exfalso].
  assert (existsb (fun t => match lerrs t with [] => false | _ => true end) ts = true).
  { apply existsb_exists. exists x. split; [exact Hx|]. rewrite E. reflexivity. }
  congruence.
Qed.
Print Assumptions tokens_ordered.

Theorem tokens_scanned : forall W gbk cps ts (Hsc : forallb scalar cps = true) (Hg : file_class_ok cps = true),
  line_width_ok W cps = true -> lex_all gbk (utf8_of cps) = Ok ts -> cls_lexerr ts = false ->
  Forall (Scanned cps W gbk) (map lt ts).
Proof.
  intros W gbk cps ts Hsc Hg HW Hlex Herr. unfold lex_all in Hlex.
  destruct (skip_first_line_inv cps Hsc Hg) as (pre & post & HI).
  eapply (lex_loop_scanned cps Hsc Hg W gbk); [exact Hlex| |exact HI|apply skip_first_line_fits; assumption|constructor].
  apply Forall_forall. intros x Hx. unfold noerr. unfold cls_lexerr in Herr.
  destruct (lerrs x) eqn:E; [reflexivity|exfalso].
  assert (existsb (fun t => match lerrs t with [] => false | _ => true end) ts = true).
  { apply existsb_exists. exists x. split; [exact Hx|]. rewrite E. reflexivity. }
  congruence.
Qed.
