(* C20 - the traversal: what the model collects = the checks of the visited nodes; visited nodes are nodes of the
   tree; under [traversal_ok] every node of the tree (other than a bare assignment target) is visited. *)
From Coq Require Import List NArith ZArith Bool Arith Lia.
From LH Require Import Base.Bytes Model.Lexer Model.Ast Model.Parser Spec.PatternSpec Model.Patterns Proofs.PatternsLocal.
Import ListNotations.

(* ------------------------------------------------------------------ sizes *)
Lemma list_sum_in {A} (f : A -> nat) x l : In x l -> f x <= list_sum (map f l).
Proof.
  induction l as [|y t IH]; [cbn; tauto|].
  change (list_sum (map f (y :: t))) with (f y + list_sum (map f t)).
  intros [->|H]; [lia|]. specialize (IH H). lia.
Qed.
Lemma list_sum_cons {A} (f : A -> nat) y t : list_sum (map f (y :: t)) = f y + list_sum (map f t).
Proof. reflexivity. Qed.

Lemma esize_pos e : 1 <= esize e.
Proof. destruct e; cbn; lia. Qed.
Lemma ssize_pos s : 1 <= ssize s.
Proof. destruct s; cbn; lia. Qed.
Lemma bsize_pos b : 1 <= bsize b.
Proof. destruct b; cbn; lia. Qed.
Lemma nsize_pos n : 1 <= nsize n.
Proof. destruct n; cbn; [apply esize_pos|apply ssize_pos|apply bsize_pos]. Qed.

Definition ksize (o : option exp) : nat := match o with Some k => esize k | None => O end.

Lemma table_fields_size ks vs c :
  In c (table_fields ks vs) -> nsize c <= list_sum (map ksize ks) + list_sum (map esize vs).
Proof.
  revert vs; induction ks as [|[k|] kr IH]; intros [|v vr]; cbn [table_fields In]; try tauto.
  - rewrite !list_sum_cons. cbn [ksize]. intros [<-|[<-|H]]; cbn [nsize]; try lia. specialize (IH _ H). lia.
  - rewrite !list_sum_cons. cbn [ksize]. intros [<-|H]; cbn [nsize]; try lia. specialize (IH _ H). lia.
Qed.

Lemma if_branches_size es bs c :
  In c (if_branches es bs) -> nsize c <= list_sum (map esize es) + list_sum (map bsize bs).
Proof.
  revert bs; induction es as [|e er IH]; intros [|b br]; cbn [if_branches In]; try tauto.
  rewrite !list_sum_cons. intros [<-|[<-|H]]; cbn [nsize]; try lia. specialize (IH _ H). lia.
Qed.

Lemma in_map_NE_size es c : In c (map NE es) -> nsize c <= list_sum (map esize es).
Proof. intros H. apply in_map_iff in H as [e [<- He]]. cbn. apply list_sum_in; auto. Qed.
Lemma in_map_NS_size ss c : In c (map NS ss) -> nsize c <= list_sum (map ssize ss).
Proof. intros H. apply in_map_iff in H as [e [<- He]]. cbn. apply list_sum_in; auto. Qed.

Lemma children_all_smaller n c : In c (children_all n) -> nsize c < nsize n.
Proof.
  destruct n as [e|s|b].
  - destruct e; cbn [children_all In]; try tauto; cbn [nsize esize].
    + intros [<-|[]]; cbn; lia.
    + intros [<-|[<-|[]]]; cbn; lia.
    + intros H. apply table_fields_size in H. unfold ksize in H. lia.
    + intros [<-|[]]; cbn; lia.
    + intros [<-|[]]; cbn; lia.
    + intros [<-|[<-|[]]]; cbn; lia.
    + intros [<-|H]; [cbn; lia|]. apply in_map_NE_size in H. lia.
  - destruct s; cbn [children_all In]; try tauto; cbn [nsize ssize].
    + intros [<-|[]]; cbn; lia.
    + intros [<-|[]]; cbn; lia.
    + intros H. apply if_branches_size in H. lia.
    + intros [<-|[<-|[]]]; cbn; lia.
    + intros [<-|[<-|[]]]; cbn; lia.
    + intros [<-|[<-|[<-|[<-|[]]]]]; cbn; lia.
    + intros H. apply in_app_or in H as [H|[<-|[]]]; [apply in_map_NE_size in H; lia|cbn; lia].
    + intros H. apply in_app_or in H as [H|H]; apply in_map_NE_size in H; lia.
    + intros H. apply in_map_NE_size in H. lia.
    + intros [<-|[]]; cbn; lia.
  - destruct b as [stats ret l]. cbn [children_all nsize bsize]. intros H.
    apply in_app_or in H as [H|H]; [apply in_map_NS_size in H; lia|].
    destruct ret as [es|]; [apply in_map_NE_size in H; lia|destruct H].
Qed.

(* ------------------------------------------------------------------ visited children against all children *)
Lemma table_children_fields ks vs : table_children ks vs = table_fields ks vs.
Proof. revert vs; induction ks as [|[k|] kr IH]; intros [|v vr]; cbn; auto; rewrite IH; auto. Qed.
Lemma if_children_branches es bs : if_children es bs = if_branches es bs.
Proof. revert bs; induction es as [|e er IH]; intros [|b br]; cbn; auto; rewrite IH; auto. Qed.

Lemma assign_children_in vars es c :
  In c (assign_children vars es) <-> In c (map NE es) \/ exists v, In v vars /\ In c (target_children v).
Proof.
  revert es; induction vars as [|v vr IH]; intros es; cbn [assign_children].
  - split; [tauto|intros [H|[v [[] _]]]; auto].
  - destruct es as [|e er].
    + rewrite in_app_iff, IH. cbn [map In]. split.
      * intros [H|[[]|[w [Hw Hc]]]]; right; [exists v|exists w]; cbn; auto.
      * intros [[]|[w [[<-|Hw] Hc]]]; auto. right; right. exists w; auto.
    + cbn [In map]. rewrite in_app_iff, IH. split.
      * intros [H|[H|[H|[w [Hw Hc]]]]]; auto.
        -- right. exists v; cbn; auto.
        -- right. exists w; cbn; auto.
      * intros [[H|H]|[w [[<-|Hw] Hc]]]; auto. right; right; right. exists w; auto.
Qed.

Definition var_like (e : exp) : Prop := match e with EName _ _ | EIndex _ _ _ => True | _ => False end.
Definition node_ok (fx : fixes) (n : node) : Prop :=
  match n with
  | NS (SLocal names _ _ es _) => fx_surplus fx = true \/ length es <= S (length names)
  | NS (SAssign vars _ _) => Forall var_like vars
  | _ => True
  end.
(* the first pass reaches every part of the tree: no local declaration with two or more surplus values (before
   C20-local-surplus), assignment targets are names or table accesses (always so in an error-free parse) *)
Definition traversal_ok (fx : fixes) (root : node) : Prop := forall n, within children_all root n -> node_ok fx n.

Lemma within_trans ch a b c : within ch a b -> within ch b c -> within ch a c.
Proof. induction 1; auto. intros H2. eapply within_step; eauto. Qed.
Lemma within_child ch n c : In c (ch n) -> within ch n c.
Proof. intros H. eapply within_step; eauto. apply within_refl. Qed.

Lemma in_firstn {A} (x : A) n l : In x (firstn n l) -> In x l.
Proof. revert l; induction n as [|n IH]; intros [|y t]; cbn; try tauto. intros [H|H]; auto. Qed.

Section Vis.
Variable fx : fixes.

(* a visited child is a child, or (assignment target) a grandchild *)
Lemma children_vis_split n c :
  In c (children_vis fx n) -> exists c0, In c0 (children_all n) /\ within children_all c0 c.
Proof.
  intros Hin.
  assert (D : In c (children_all n) -> exists c0, In c0 (children_all n) /\ within children_all c0 c)
    by (intros H; exists c; split; [exact H|apply within_refl]).
  destruct n as [e|s|b].
  - destruct e; cbn [children_vis] in Hin; try (destruct Hin; fail); apply D; exact Hin.
  - destruct s; cbn [children_vis] in Hin; try (destruct Hin; fail); try (apply D; exact Hin).
    + apply assign_children_in in Hin as [Hin|[v [Hv Hc]]].
      * apply D. cbn [children_all]. apply in_or_app; auto.
      * exists (NE v). split; [cbn [children_all]; apply in_or_app; left; apply in_map; auto|].
        apply within_child. destruct v; cbn in Hc; try tauto. exact Hc.
    + apply D. cbn [children_all]. destruct (fx_surplus fx); [exact Hin|].
      apply in_map_iff in Hin as [e [<- He]]. apply in_map. eapply in_firstn; eauto.
  - destruct b as [stats ret l]. apply D. exact Hin.
Qed.

Lemma children_vis_within n c : In c (children_vis fx n) -> within children_all n c.
Proof. intros H. apply children_vis_split in H as [c0 [H0 W]]. eapply within_step; eauto. Qed.

Lemma within_all_size a b : within children_all a b -> nsize b <= nsize a.
Proof. induction 1 as [|a c0 b Hc Hw IH]; auto. apply children_all_smaller in Hc. lia. Qed.

Lemma children_vis_smaller n c : In c (children_vis fx n) -> nsize c < nsize n.
Proof.
  intros H. apply children_vis_split in H as [c0 [H0 W]].
  apply children_all_smaller in H0. apply within_all_size in W. lia.
Qed.

Lemma within_vis_all n m : within (children_vis fx) n m -> within children_all n m.
Proof.
  induction 1 as [|a c b Hc Hw IH]; [apply within_refl|].
  eapply within_trans; [apply children_vis_within; eauto|auto].
Qed.

(* ------------------------------------------------------------------ the fuelled traversals against [within] *)
Section Collect.
  Variable fclose : list N -> list N -> bool.
  Variable elses : list loc.

  Lemma collect_iff fuel n r :
    nsize n <= fuel ->
    (In r (collect fx fclose elses fuel n) <-> exists m, within (children_vis fx) n m /\ In r (local fx fclose elses m)).
  Proof.
    revert n; induction fuel as [|f IH]; intros n Hf.
    - pose proof (nsize_pos n). lia.
    - cbn [collect]. rewrite !in_app_iff, in_flat_map. unfold local. split.
      + intros [H|[[c [Hc Hr]]|H]].
        * exists n. split; [apply within_refl|apply in_or_app; auto].
        * apply IH in Hr; [|apply children_vis_smaller in Hc; lia].
          destruct Hr as [m [Hw Hm]]. exists m. split; auto. eapply within_step; eauto.
        * exists n. split; [apply within_refl|apply in_or_app; auto].
      + intros [m [Hw Hm]]. inversion Hw as [|a c b Hc Hw']; subst.
        * apply in_app_or in Hm as [Hm|Hm]; auto.
        * right; left. exists c. split; auto. apply IH; [apply children_vis_smaller in Hc; lia|].
          exists m; auto.
  Qed.

  Lemma report_eqb_eq a b : report_eqb a b = true <-> a = b.
  Proof.
    unfold report_eqb. rewrite !andb_true_iff, N.eqb_eq, loc_eqb_eq, beq_bytes_eq.
    destruct a, b; cbn. split; [intros [[? ?] ?]; subst; auto|intros H; inversion H; auto].
  Qed.
  Lemma mem_report_iff x l : mem_report x l = true <-> In x l.
  Proof.
    induction l as [|y t IH]; cbn; [split; [discriminate|tauto]|].
    rewrite orb_true_iff, IH, report_eqb_eq. split; intros [H|H]; auto.
  Qed.

  Lemma dedup_acc_in seen l r : In r (dedup_acc seen l) <-> In r l /\ ~ In r seen.
  Proof.
    revert seen; induction l as [|x t IH]; intros seen; cbn [dedup_acc]; [cbn; tauto|].
    destruct (mem_report x seen) eqn:E.
    - apply mem_report_iff in E. rewrite IH. cbn. split; [tauto|]. intros [[->|H] Hn]; tauto.
    - assert (Hn : ~ In x seen) by (rewrite <- mem_report_iff; congruence).
      cbn [In]. rewrite IH. cbn [In]. split.
      + intros [Hx|[H1 H2]]; [subst; tauto|]. split; [tauto|]. intros Hs; apply H2; right; exact Hs.
      + intros [[->|H] Hs]; auto.
        destruct (mem_report r (x :: seen)) eqn:E2.
        * apply mem_report_iff in E2 as [->|E2]; auto; contradiction.
        * right. split; auto. intros Hc.
          assert (Hm : mem_report r (x :: seen) = true) by (apply mem_report_iff; exact Hc). congruence.
  Qed.
  Lemma dedup_in l r : In r (dedup l) <-> In r l.
  Proof. unfold dedup. rewrite dedup_acc_in. cbn. tauto. Qed.

  Lemma dedup_acc_nodup seen l : NoDup (dedup_acc seen l).
  Proof.
    revert seen; induction l as [|x t IH]; intros seen; cbn [dedup_acc]; [constructor|].
    destruct (mem_report x seen) eqn:E; auto.
    constructor; auto. rewrite dedup_acc_in. cbn. tauto.
  Qed.
  Lemma dedup_nodup l : NoDup (dedup l).
  Proof. apply dedup_acc_nodup. Qed.

  (* the published reports = the checks of the visited nodes *)
  Lemma run_block_iff b r :
    In r (run_block fx fclose elses b) <-> exists m, within (children_vis fx) (NB b) m /\ In r (local fx fclose elses m).
  Proof. unfold run_block. rewrite dedup_in. apply collect_iff. lia. Qed.

  Lemma run_block_once b : NoDup (run_block fx fclose elses b).
  Proof. apply dedup_nodup. Qed.
End Collect.
End Vis.

Lemma subnodes_iff fuel n m : nsize n <= fuel -> (In m (subnodes fuel n) <-> within children_all n m).
Proof.
  revert n; induction fuel as [|f IH]; intros n Hf.
  - pose proof (nsize_pos n). lia.
  - cbn [subnodes In]. rewrite in_flat_map. split.
    + intros [->|[c [Hc Hm]]]; [apply within_refl|].
      apply IH in Hm; [|apply children_all_smaller in Hc; lia]. eapply within_step; eauto.
    + intros Hw. inversion Hw as [|a c b Hc Hw']; subst; auto.
      right. exists c. split; auto. apply IH; auto. apply children_all_smaller in Hc; lia.
Qed.

Lemma demanded_iff fclose elses b p :
  In p (demanded fclose elses b) <-> exists m, within children_all (NB b) m /\ In p (spec_node fclose elses m).
Proof.
  unfold demanded. rewrite in_flat_map. split; intros [m [H1 H2]]; exists m; split; auto.
  - apply subnodes_iff in H1; auto.
  - apply subnodes_iff; auto.
Qed.

(* ------------------------------------------------------------------ every node is visited (guarded) *)
(* the target expression of an assignment is itself never handed to cgExp (no check lives on a Name / TableAccess) *)
Definition target_shape (m : node) : Prop :=
  match m with NE (EName _ _) | NE (EIndex _ _ _) => True | _ => False end.

Lemma firstn_all_le {A} (l : list A) n : length l <= n -> firstn n l = l.
Proof. revert n; induction l as [|x t IH]; intros [|n]; cbn; auto; try lia. intros H. rewrite IH; auto; lia. Qed.

Section Complete.
Variable fx : fixes.

Lemma children_all_vis n c :
  node_ok fx n -> In c (children_all n) ->
  In c (children_vis fx n) \/ exists vars es l v, n = NS (SAssign vars es l) /\ c = NE v /\ In v vars /\ var_like v.
Proof.
  intros Hok Hin. destruct n as [e|s|b].
  - left. destruct e; cbn [children_all] in Hin; cbn [children_vis]; auto.
  - destruct s; cbn [children_all] in Hin; cbn [children_vis]; auto.
    + apply in_app_or in Hin as [Hin|Hin].
      * right. apply in_map_iff in Hin as [v [<- Hv]]. exists vars, es, l, v. repeat split; auto.
        cbn in Hok. rewrite Forall_forall in Hok. auto.
      * left. apply assign_children_in. auto.
    + left. cbn in Hok. destruct (fx_surplus fx); [exact Hin|].
      destruct Hok as [Hok|Hok]; [discriminate|]. rewrite firstn_all_le; auto.
  - left. destruct b as [stats ret l]. exact Hin.
Qed.

Lemma visited_complete root m :
  traversal_ok fx root -> within children_all root m -> ~ target_shape m -> within (children_vis fx) root m.
Proof.
  remember (nsize root) as k eqn:Hk. revert root Hk m.
  induction k as [k IH] using lt_wf_ind. intros root Hk m Hok Hw Hns.
  inversion Hw as [|a c b Hc Hw']; subst; [apply within_refl|].
  assert (Hokc : forall x, within children_all root x -> traversal_ok fx x).
  { intros x Hx y Hy. apply Hok. eapply within_trans; eauto. }
  destruct (children_all_vis root c (Hok root (within_refl _ _)) Hc) as [Hv|[vars [es [l [v [-> [-> [Hv Hvl]]]]]]]].
  - eapply within_step; eauto.
    apply (IH (nsize c)); auto.
    + apply children_all_smaller in Hc; lia.
    + apply Hokc. apply within_child; auto.
  - (* c is an assignment target: m lies strictly below it, under the prefix or the key of a table access *)
    destruct v; cbn in Hvl; try tauto.
    + inversion Hw' as [|a c2 b Hc2 Hw2]; subst; [exfalso; apply Hns; exact I|]. destruct Hc2.
    + inversion Hw' as [|a c2 b Hc2 Hw2]; subst; [exfalso; apply Hns; exact I|].
      assert (Hin2 : In c2 (children_vis fx (NS (SAssign vars es l)))).
      { cbn [children_vis]. apply assign_children_in. right. eexists; split; [exact Hv|]. exact Hc2. }
      eapply within_step; [exact Hin2|].
      apply (IH (nsize c2)); auto.
      * apply children_all_smaller in Hc2. apply children_all_smaller in Hc. lia.
      * apply Hokc. eapply within_step; [exact Hc|]. apply within_child; auto.
Qed.
End Complete.

(* with fixes/C20-local-surplus.diff in (true of [deployed]) the proviso about local declarations is gone: the first pass
   reaches every part of the tree as soon as the assignment targets are names or table accesses (always so in an
   error-free parse) *)
Definition targets_ok (root : node) : Prop :=
  forall n, within children_all root n -> match n with NS (SAssign vars _ _) => Forall var_like vars | _ => True end.

Lemma visited_complete_surplus fx root m :
  fx_surplus fx = true -> targets_ok root -> within children_all root m -> ~ target_shape m ->
  within (children_vis fx) root m.
Proof.
  intros Hfx Hok. apply visited_complete. intros n Hn. specialize (Hok n Hn).
  destruct n as [e|s|b]; try exact I. destruct s; try exact I; cbn [node_ok]; auto.
Qed.

Lemma visited_complete_deployed root m :
  targets_ok root -> within children_all root m -> ~ target_shape m -> within (children_vis deployed) root m.
Proof. exact (visited_complete_surplus deployed root m eq_refl). Qed.
