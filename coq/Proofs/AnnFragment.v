(* C16 line isolation: ParseCommentFragment reads every line on its own; the only coupling between lines is
   an alias continuation line ("-| 'x' # text").

   BEFORE the repair fixes/C16-cont-after-bad.diff (`frag_loop`, `parse_fragment_gen false`) a continuation line is
   appended to the LAST statement read so far: a block of lines whose continuation lines all follow a statement of
   the same block contributes the same statements / lines / errors whatever precedes it (isolation_general), a
   malformed line contributes exactly its own error (line_isolation_pre), and the model agrees with the per-unit
   spec outside the class cont_after_bad of Spec/AnnGrammar.v (fragment_spec_agrees_pre).

   AFTER the repair (`frag_loop_fx`, `parse_fragment_gen true` = the code as it is) a continuation line is appended
   to the alias of the line directly above it only: isolation holds for EVERY block (isolation_fx), a malformed
   line shields its neighbours whatever they are (line_isolation), and ParseCommentFragment IS the per-unit spec
   for all inputs (fragment_spec_full).

   clearEmpytAlias drops an alias without type together with its line: Stats and Lines stay aligned
   (Proofs/AnnTotal.v), so it is `clear_aligned`. *)
From Coq Require Import String Ascii List Arith NArith Bool Lia.
From LH Require Import Base.Bytes Base.Res Model.AnnLexer Model.AnnAst Model.AnnParser Spec.AnnGrammar
  Proofs.AnnLexFacts Proofs.AnnTotal.
Import ListNotations.

(* ------------------------------------------------------------------ frag_app *)
Lemma frag_app_empty_l a : frag_app frag_empty a = a.
Proof. destruct a. reflexivity. Qed.
Lemma frag_app_empty_r a : frag_app a frag_empty = a.
Proof. destruct a. unfold frag_app. cbn. rewrite !app_nil_r. reflexivity. Qed.
Lemma frag_app_assoc a b c : frag_app (frag_app a b) c = frag_app a (frag_app b c).
Proof. unfold frag_app. cbn. rewrite !app_assoc. reflexivity. Qed.

(* ------------------------------------------------------------------ one line *)
(* a continuation line only looks at the last statement *)
Lemma append_alias_last_app pre stats ct :
  stats <> [] -> append_alias_last (pre ++ stats) ct = pre ++ append_alias_last stats ct.
Proof.
  intros Hne. unfold append_alias_last. rewrite rev_app_distr.
  destruct (rev stats) as [|lst before] eqn:Er.
  - apply (f_equal (@rev _)) in Er. rewrite rev_involutive in Er. cbn in Er. contradiction.
  - cbn [app]. destruct (is_alias lst); [|reflexivity].
    rewrite rev_app_distr, rev_involutive. rewrite app_assoc. reflexivity.
Qed.

Lemma append_alias_last_nonempty stats ct : stats <> [] -> append_alias_last stats ct <> [].
Proof.
  intros Hne. unfold append_alias_last. destruct (rev stats) as [|lst before] eqn:Er; [exact Hne|].
  destruct (is_alias lst); [|exact Hne]. intros H. apply app_eq_nil in H as [_ H]. discriminate H.
Qed.

(* test "-|" *)
Definition cont_line (ln : N * bytes) : bool := is_cont_line ln.

Lemma check_head_alias_none text :
  test_prefix s_alias_head text = false -> check_head s_alias_head text = Ok None.
Proof. intros H. unfold check_head. rewrite H. reflexivity. Qed.

(* the effect of a line that is not a continuation line is an append *)
Lemma frag_step_append fr frx ln :
  is_cont_line ln = false ->
  frag_step (frag_app fr frx) ln = do frx' <- frag_step frx ln; Ok (frag_app fr frx').
Proof.
  destruct ln as [lno text]. unfold is_cont_line. cbn [snd]. intros Hc.
  unfold frag_step. rewrite (check_head_alias_none _ Hc). cbn [rbind].
  destruct (check_head s_head text) as [[c|]| |]; cbn [rbind]; try reflexivity.
  destruct (ann_parse_line (fuel_of c) c) as [[s|e]| |]; cbn [rbind]; try reflexivity.
  - destruct s; unfold frag_app; cbn [rbind f_stats f_lines f_errs]; rewrite <- ?app_assoc; reflexivity.
  - unfold frag_app; cbn [rbind f_stats f_lines f_errs]; rewrite <- ?app_assoc; reflexivity.
Qed.

(* a continuation line after at least one statement of the block *)
Lemma frag_step_cont fr frx ln :
  f_stats frx <> [] ->
  frag_step (frag_app fr frx) ln = do frx' <- frag_step frx ln; Ok (frag_app fr frx').
Proof.
  intros Hne. destruct (is_cont_line ln) eqn:Hc; [|apply frag_step_append; exact Hc].
  destruct ln as [lno text]. unfold frag_step.
  destruct (check_head s_alias_head text) as [[c|]| |]; cbn [rbind]; try reflexivity.
  - destruct (parse_extra_alias_line (mkLx c None)) as [[ct|] l'| | |]; try reflexivity.
    unfold frag_app. cbn [f_stats f_lines f_errs]. rewrite append_alias_last_app by exact Hne. reflexivity.
  - (* not a continuation line after all: same as frag_step_append *)
    destruct (check_head s_head text) as [[c|]| |]; cbn [rbind]; try reflexivity.
    destruct (ann_parse_line (fuel_of c) c) as [[s|e]| |]; cbn [rbind]; try reflexivity.
    + destruct s; unfold frag_app; cbn [rbind f_stats f_lines f_errs]; rewrite <- ?app_assoc; reflexivity.
    + unfold frag_app; cbn [rbind f_stats f_lines f_errs]; rewrite <- ?app_assoc; reflexivity.
Qed.

(* statements never disappear while the lines are read *)
Lemma frag_step_nonempty frx ln frx' :
  frag_step frx ln = Ok frx' -> f_stats frx <> [] -> f_stats frx' <> [].
Proof.
  destruct ln as [lno text]. unfold frag_step. intros H Hne.
  destruct (check_head s_alias_head text) as [[c|]| |]; cbn [rbind] in H; try discriminate H.
  - destruct (parse_extra_alias_line (mkLx c None)) as [[ct|] l'| | |]; try discriminate H;
      injection H as <-; [|exact Hne]. cbn [f_stats]. apply append_alias_last_nonempty. exact Hne.
  - destruct (check_head s_head text) as [[c|]| |]; cbn [rbind] in H; try discriminate H.
    + destruct (ann_parse_line (fuel_of c) c) as [[s|e]| |]; cbn [rbind] in H; try discriminate H.
      * destruct s; injection H as <-; cbn [f_stats]; try exact Hne;
          intros E; apply app_eq_nil in E as [_ E]; discriminate E.
      * injection H as <-. exact Hne.
    + injection H as <-. exact Hne.
Qed.

(* ------------------------------------------------------------------ blocks of lines *)
(* reading ls from the block-local fragment frx never meets a continuation line while frx has no statement *)
Fixpoint safe_from (frx : frag) (ls : list (N * bytes)) : bool :=
  match ls with
  | [] => true
  | ln :: r =>
    (negb (is_cont_line ln) || negb (is_nil (f_stats frx))) &&
    match frag_step frx ln with Ok frx' => safe_from frx' r | _ => false end
  end.
Definition self_contained (ls : list (N * bytes)) : bool := safe_from frag_empty ls.

Theorem isolation_general : forall ls fr frx,
  safe_from frx ls = true ->
  frag_loop (frag_app fr frx) ls = do r <- frag_loop frx ls; Ok (frag_app fr r).
Proof.
  induction ls as [|ln ls IH]; intros fr frx Hs; cbn [frag_loop]; [reflexivity|].
  cbn [safe_from] in Hs. apply andb_true_iff in Hs as [Hc Hs].
  assert (Hstep : frag_step (frag_app fr frx) ln = do frx' <- frag_step frx ln; Ok (frag_app fr frx')).
  { apply orb_true_iff in Hc as [Hc|Hc].
    - apply frag_step_append. apply negb_true_iff. exact Hc.
    - apply frag_step_cont. destruct (f_stats frx); [discriminate Hc|discriminate]. }
  rewrite Hstep. destruct (frag_step frx ln) as [frx'| |]; cbn [rbind]; try discriminate Hs.
  apply IH. exact Hs.
Qed.

Lemma frag_loop_app ls1 ls2 fr :
  frag_loop fr (ls1 ++ ls2) = do fr1 <- frag_loop fr ls1; frag_loop fr1 ls2.
Proof.
  revert fr. induction ls1 as [|ln ls1 IH]; intros fr; cbn [app frag_loop rbind]; [reflexivity|].
  destruct (frag_step fr ln); cbn [rbind]; [apply IH|reflexivity|reflexivity].
Qed.

(* clearEmpytAlias = dropping the (statement, line) pairs of the aliases without type *)
Lemma clear_empty_alias_aligned fr : aligned fr -> clear_empty_alias fr = Ok (clear_aligned fr).
Proof. intros Ha. unfold clear_empty_alias. rewrite (clear_loop_aligned _ _ Ha). reflexivity. Qed.

Lemma combine_app {A B} (a1 a2 : list A) (b1 b2 : list B) :
  length a1 = length b1 -> combine (a1 ++ a2) (b1 ++ b2) = combine a1 b1 ++ combine a2 b2.
Proof.
  revert b1. induction a1 as [|x a1 IH]; intros [|y b1] H; cbn in *; try discriminate; [reflexivity|].
  f_equal. apply IH. lia.
Qed.

Lemma clear_aligned_app a b : aligned a ->
  clear_aligned (frag_app a b) = frag_app (clear_aligned a) (clear_aligned b).
Proof.
  intros Ha. unfold clear_aligned, frag_app. cbn [f_stats f_lines f_errs].
  rewrite (combine_app _ _ _ _ Ha), filter_app, !map_app. reflexivity.
Qed.

Lemma frag_app_aligned a b : aligned a -> aligned b -> aligned (frag_app a b).
Proof. unfold aligned, frag_app. cbn [f_stats f_lines]. rewrite !app_length. lia. Qed.

Lemma parse_fragment_clear ls fr :
  frag_loop frag_empty ls = Ok fr -> parse_fragment_gen false ls = Ok (clear_aligned fr).
Proof.
  intros H. unfold parse_fragment_gen. change (mkFrag [] [] []) with frag_empty. rewrite H. cbn [rbind].
  apply clear_empty_alias_aligned. exact (frag_loop_aligned ls _ _ H eq_refl).
Qed.

(* before the repair: a malformed line (one that yields exactly an error) between two blocks of lines, the second
   of which must be self-contained *)
Theorem line_isolation_pre : forall ls1 bad ls2 p1 p2 e,
  parse_fragment_gen false ls1 = Ok p1 -> parse_fragment_gen false ls2 = Ok p2 ->
  is_cont_line bad = false -> frag_step frag_empty bad = Ok (mkFrag [] [] [e]) ->
  self_contained ls2 = true ->
  parse_fragment_gen false (ls1 ++ bad :: ls2) =
  Ok (mkFrag (f_stats p1 ++ f_stats p2) (f_lines p1 ++ f_lines p2) (f_errs p1 ++ e :: f_errs p2)).
Proof.
  intros ls1 bad ls2 p1 p2 e H1 H2 Hnc Hbad Hsc.
  destruct (frag_loop_no_fault ls1 frag_empty) as [fr1 E1]. destruct (frag_loop_no_fault ls2 frag_empty) as [fr2 E2].
  rewrite (parse_fragment_clear _ _ E1) in H1. rewrite (parse_fragment_clear _ _ E2) in H2.
  injection H1 as <-. injection H2 as <-.
  pose proof (frag_loop_aligned ls1 _ _ E1 eq_refl) as A1.
  assert (E : frag_loop frag_empty (ls1 ++ bad :: ls2) = Ok (frag_app (frag_app fr1 (mkFrag [] [] [e])) fr2)).
  { rewrite frag_loop_app, E1. cbn [rbind frag_loop].
    rewrite <- (frag_app_empty_r fr1) at 1. rewrite (frag_step_append fr1 frag_empty bad Hnc), Hbad. cbn [rbind].
    rewrite <- (frag_app_empty_r (frag_app fr1 _)).
    rewrite (isolation_general ls2 _ frag_empty Hsc), E2. cbn [rbind]. rewrite frag_app_empty_r. reflexivity. }
  rewrite (parse_fragment_clear _ _ E).
  rewrite clear_aligned_app by (apply frag_app_aligned; [exact A1|reflexivity]).
  rewrite clear_aligned_app by exact A1.
  unfold frag_app, clear_aligned. cbn [f_stats f_lines f_errs combine filter map app].
  rewrite !app_nil_r. rewrite <- app_assoc. reflexivity.
Qed.

(* ------------------------------------------------------------------ units *)
Definition head_plain (u : list (N * bytes)) : Prop := exists h r, u = h :: r /\ is_cont_line h = false.

Lemma units_props ls :
  concat (units ls) = ls /\ Forall head_plain (tl (units ls)) /\ Forall (fun u => u <> []) (units ls).
Proof.
  induction ls as [|ln r (IH1 & IH2 & IH3)]; [cbn; auto|].
  cbn [units]. destruct (units r) as [|u us] eqn:Eu.
  - cbn in IH1. subst r. cbn. repeat split; auto. constructor; [discriminate|constructor].
  - cbn [concat] in IH1. cbn [tl] in IH2.
    destruct (match u with h :: _ => is_cont_line h | [] => false end) eqn:Eh.
    + cbn [concat tl app]. rewrite IH1. repeat split; auto.
      inversion IH3; subst. constructor; [discriminate|assumption].
    + cbn [concat tl app]. rewrite IH1. repeat split; auto.
      * constructor; [|exact IH2]. inversion IH3 as [|? ? Hne _]; subst.
        destruct u as [|h u']; [contradiction|]. exists h, u'. auto.
      * constructor; [discriminate|exact IH3].
Qed.

Lemma safe_nonempty ls : forall frx, f_stats frx <> [] -> safe_from frx ls = true.
Proof.
  induction ls as [|ln ls IH]; intros frx Hne; cbn [safe_from]; [reflexivity|].
  destruct (frag_step_no_fault frx ln) as [frx' Hs]. rewrite Hs.
  apply andb_true_iff. split.
  - apply orb_true_iff. right. destruct (f_stats frx); [contradiction|reflexivity].
  - apply IH. eapply frag_step_nonempty; eassumption.
Qed.

Lemma shielded_safe u : head_plain u -> unit_shielded u = true -> safe_from frag_empty u = true.
Proof.
  intros (h & r & -> & Hh) Hs. cbn [safe_from]. rewrite Hh. cbn [negb orb andb].
  destruct (frag_step_no_fault frag_empty h) as [frx Hstep]. rewrite Hstep.
  unfold unit_shielded, head_yields_stat in Hs. rewrite Hstep in Hs.
  apply orb_true_iff in Hs as [Hs|Hs].
  - apply safe_nonempty. destruct (f_stats frx); [discriminate Hs|discriminate].
  - destruct r; [reflexivity|discriminate Hs].
Qed.

(* reading the units one after the other, each from an empty fragment *)
Fixpoint raw_units (us : list (list (N * bytes))) : Res frag :=
  match us with
  | [] => Ok frag_empty
  | u :: r => do a <- frag_loop frag_empty u; do b <- raw_units r; Ok (frag_app a b)
  end.

Lemma raw_units_compose us : Forall head_plain us -> forallb unit_shielded us = true ->
  forall fr, frag_loop fr (concat us) = do r <- raw_units us; Ok (frag_app fr r).
Proof.
  induction us as [|u us IH]; intros HF Hs fr; cbn [concat raw_units frag_loop rbind].
  - rewrite frag_app_empty_r. reflexivity.
  - inversion HF as [|? ? Hu HF']; subst. cbn [forallb] in Hs. apply andb_true_iff in Hs as [Hsu Hss].
    rewrite frag_loop_app.
    rewrite <- (frag_app_empty_r fr) at 1.
    rewrite (isolation_general u fr frag_empty (shielded_safe u Hu Hsu)).
    destruct (frag_loop frag_empty u) as [a| |]; cbn [rbind]; try reflexivity.
    rewrite (IH HF' Hss). destruct (raw_units us) as [b| |]; cbn [rbind]; try reflexivity.
    rewrite frag_app_assoc. reflexivity.
Qed.

Lemma raw_whole ls : frag_cont_after_bad ls = false -> frag_loop frag_empty ls = raw_units (units ls).
Proof.
  unfold frag_cont_after_bad. intros Hg. apply negb_false_iff in Hg.
  destruct (units_props ls) as (Hc & Ht & _).
  destruct (units ls) as [|u us] eqn:Eu.
  - cbn in Hc. subst ls. reflexivity.
  - cbn [concat] in Hc. cbn [tl] in Ht. cbn [forallb] in Hg. apply andb_true_iff in Hg as [_ Hgs].
    rewrite <- Hc. rewrite frag_loop_app. cbn [raw_units].
    destruct (frag_loop frag_empty u) as [a| |]; cbn [rbind]; try reflexivity.
    rewrite (raw_units_compose us Ht Hgs a). reflexivity.
Qed.

(* ------------------------------------------------------------------ clearEmpytAlias on aligned fragments *)
Lemma combine_fst {A B} (a : list A) (b : list B) : length a = length b -> map fst (combine a b) = a.
Proof.
  revert b. induction a as [|x a IH]; intros [|y b] H; cbn in *; try reflexivity; try discriminate.
  f_equal. apply IH. lia.
Qed.
Lemma combine_snd {A B} (a : list A) (b : list B) : length a = length b -> map snd (combine a b) = b.
Proof.
  revert b. induction a as [|x a IH]; intros [|y b] H; cbn in *; try reflexivity; try discriminate.
  f_equal. apply IH. lia.
Qed.

(* the per-unit spec = clearing the concatenation of the units read one by one *)
Lemma units_spec_raw us : forall fr, raw_units us = Ok fr -> parse_units_spec us = Ok (clear_aligned fr) /\ aligned fr.
Proof.
  induction us as [|u us IH]; intros fr H; cbn [raw_units parse_units_spec] in *.
  - injection H as <-. split; reflexivity.
  - unfold parse_unit_spec.
    destruct (frag_loop frag_empty u) as [a| |] eqn:Ea; cbn [rbind] in *; try discriminate H.
    destruct (raw_units us) as [b| |] eqn:Eb; cbn [rbind] in *; try discriminate H.
    injection H as <-. destruct (IH b eq_refl) as [-> Hb]. cbn [rbind].
    pose proof (frag_loop_aligned u _ _ Ea eq_refl) as Ha.
    split; [rewrite (clear_aligned_app a b Ha); reflexivity | apply frag_app_aligned; assumption].
Qed.

(* before the repair: outside the class cont_after_bad the model of ParseCommentFragment is the per-unit spec *)
Theorem fragment_spec_agrees_pre : forall ls,
  frag_cont_after_bad ls = false -> parse_fragment_gen false ls = parse_fragment_spec ls.
Proof.
  intros ls Hg. unfold parse_fragment_spec.
  pose proof (raw_whole ls Hg) as Hr.
  destruct (frag_loop_no_fault ls frag_empty) as [fr E].
  rewrite (parse_fragment_clear _ _ E). symmetry. apply units_spec_raw. rewrite <- Hr. exact E.
Qed.

(* ================================================================== the repaired loop (lastAliasState) *)
Definition last_is_alias (stats : list astat) : bool :=
  match rev stats with s :: _ => is_alias s | [] => false end.

Lemma append_alias_last_noalias stats ct : last_is_alias stats = false -> append_alias_last stats ct = stats.
Proof.
  unfold last_is_alias, append_alias_last. destruct (rev stats) as [|l b]; [reflexivity|]. intros ->. reflexivity.
Qed.

Lemma last_is_alias_nonempty stats : last_is_alias stats = true -> stats <> [].
Proof. intros H E. subst. discriminate H. Qed.

Lemma last_is_alias_app pre stats : stats <> [] -> last_is_alias (pre ++ stats) = last_is_alias stats.
Proof.
  intros Hne. unfold last_is_alias. rewrite rev_app_distr.
  destruct (rev stats) as [|l b] eqn:Er; [|reflexivity].
  apply (f_equal (@rev _)) in Er. rewrite rev_involutive in Er. cbn in Er. contradiction.
Qed.

(* appendAliasState keeps the statement an alias *)
Lemma append_alias_is_alias s ct : is_alias (append_alias s ct) = is_alias s.
Proof. destruct s as [| n [t|] c | | | | | | | | |]; try reflexivity. destruct t; reflexivity. Qed.

Lemma append_alias_last_keeps stats ct : last_is_alias (append_alias_last stats ct) = last_is_alias stats.
Proof.
  unfold append_alias_last. destruct (rev stats) as [|l b] eqn:Er; [reflexivity|].
  destruct (is_alias l) eqn:Ea; [|reflexivity].
  unfold last_is_alias. rewrite rev_app_distr, rev_involutive, Er. cbn [rev app].
  rewrite append_alias_is_alias. reflexivity.
Qed.

(* the invariant of the repaired loop: lastAliasState != nil  ->  it is the last statement of Stats *)
Definition fx_inv (st : frag * bool) : Prop := snd st = true -> last_is_alias (f_stats (fst st)) = true.

Lemma cont_check_head lno text : is_cont_line (lno, text) = true -> exists c, check_head s_alias_head text = Ok (Some c).
Proof.
  unfold is_cont_line. cbn [snd]. intros Hc.
  destruct (check_head_ok s_alias_head text eq_refl) as (ah & Hah & _).
  unfold check_head in *. rewrite Hc in Hah |- *.
  destruct (go_next text 2); cbn [rbind] in *; try discriminate Hah. eauto.
Qed.

(* a line that is not a continuation line: lastAliasState is reset, the effect is an append, and the new
   lastAliasState says whether an alias statement was appended *)
Lemma fx_step_head fr b ln : is_cont_line ln = false ->
  frag_step_fx (fr, b) ln = do fh <- frag_step frag_empty ln; Ok (frag_app fr fh, last_is_alias (f_stats fh)).
Proof.
  destruct ln as [lno text]. unfold is_cont_line. cbn [snd]. intros Hc.
  unfold frag_step_fx, frag_step. rewrite (check_head_alias_none _ Hc). cbn [rbind].
  destruct (check_head s_head text) as [[c|]| |]; cbn [rbind]; try reflexivity.
  - destruct (ann_parse_line (fuel_of c) c) as [[s|e]| |]; cbn [rbind]; try reflexivity.
    + destruct fr as [st li er].
      destruct s; unfold frag_app, frag_empty, last_is_alias;
        cbn [rbind f_stats f_lines f_errs app rev is_alias]; rewrite ?app_nil_r; reflexivity.
    + destruct fr as [st li er]. unfold frag_app, frag_empty, last_is_alias.
      cbn [rbind f_stats f_lines f_errs app rev]. rewrite ?app_nil_r. reflexivity.
  - rewrite frag_app_empty_r. reflexivity.
Qed.

(* a continuation line while lastAliasState is set: the step of the old loop *)
Lemma fx_step_cont_true fr ln : is_cont_line ln = true ->
  frag_step_fx (fr, true) ln = do fr' <- frag_step fr ln; Ok (fr', true).
Proof.
  destruct ln as [lno text]. intros Hc. destruct (cont_check_head lno text Hc) as [c Hch].
  unfold frag_step_fx, frag_step. rewrite Hch. cbn [rbind].
  destruct (parse_extra_alias_line (mkLx c None)) as [[ct|] l'| | |]; reflexivity.
Qed.

(* a continuation line while lastAliasState is nil: nothing happens *)
Lemma fx_step_cont_false fr ln : is_cont_line ln = true -> frag_step_fx (fr, false) ln = Ok (fr, false).
Proof.
  destruct ln as [lno text]. intros Hc. destruct (cont_check_head lno text Hc) as [c Hch].
  destruct (frag_step_fx_no_fault (fr, false) (lno, text)) as [st' Hst]. revert Hst.
  unfold frag_step_fx. rewrite Hch. cbn [rbind].
  destruct (parse_extra_alias_line (mkLx c None)) as [[ct|] l'| | |]; intros Hst; try discriminate Hst; reflexivity.
Qed.

(* ... and in the old loop nothing happens when the last statement is not an alias *)
Lemma step_cont_noalias fr ln : is_cont_line ln = true -> last_is_alias (f_stats fr) = false -> frag_step fr ln = Ok fr.
Proof.
  destruct ln as [lno text]. intros Hc Hl. destruct (cont_check_head lno text Hc) as [c Hch].
  destruct (frag_step_no_fault fr (lno, text)) as [fr' Hst]. revert Hst.
  unfold frag_step. rewrite Hch. cbn [rbind].
  destruct (parse_extra_alias_line (mkLx c None)) as [[ct|] l'| | |]; intros Hst; try discriminate Hst.
  - rewrite (append_alias_last_noalias _ _ Hl). destruct fr; reflexivity.
  - reflexivity.
Qed.

Lemma frag_step_keeps_last fr ln fr' : is_cont_line ln = true ->
  frag_step fr ln = Ok fr' -> last_is_alias (f_stats fr') = last_is_alias (f_stats fr).
Proof.
  destruct ln as [lno text]. intros Hc. destruct (cont_check_head lno text Hc) as [c Hch].
  unfold frag_step. rewrite Hch. cbn [rbind].
  destruct (parse_extra_alias_line (mkLx c None)) as [[ct|] l'| | |]; intros Hst; try discriminate Hst;
    injection Hst as <-; [|reflexivity]. cbn [f_stats]. apply append_alias_last_keeps.
Qed.

Lemma frag_step_fx_inv st ln st' : frag_step_fx st ln = Ok st' -> fx_inv st -> fx_inv st'.
Proof.
  destruct st as [fr b]. intros Hst Hinv. destruct (is_cont_line ln) eqn:Hc.
  - destruct b.
    + rewrite (fx_step_cont_true fr ln Hc) in Hst.
      destruct (frag_step fr ln) as [fr'| |] eqn:E; cbn [rbind] in Hst; try discriminate Hst. injection Hst as <-.
      intros _. cbn [fst]. rewrite (frag_step_keeps_last _ _ _ Hc E). exact (Hinv eq_refl).
    + rewrite (fx_step_cont_false fr ln Hc) in Hst. injection Hst as <-. exact Hinv.
  - rewrite (fx_step_head fr b ln Hc) in Hst.
    destruct (frag_step frag_empty ln) as [fh| |] eqn:E; cbn [rbind] in Hst; try discriminate Hst. injection Hst as <-.
    unfold fx_inv. cbn [fst snd]. intros Hl. unfold frag_app. cbn [f_stats].
    rewrite last_is_alias_app by (apply last_is_alias_nonempty; exact Hl). exact Hl.
Qed.

Lemma frag_loop_fx_inv ls : forall st st', frag_loop_fx st ls = Ok st' -> fx_inv st -> fx_inv st'.
Proof.
  induction ls as [|ln ls IH]; intros st st' H Hi; cbn [frag_loop_fx] in H.
  - injection H as <-. exact Hi.
  - destruct (frag_step_fx st ln) as [st1| |] eqn:E; cbn [rbind] in H; try discriminate H.
    eapply IH; [exact H|]. eapply frag_step_fx_inv; eassumption.
Qed.

Lemma frag_loop_fx_app ls1 ls2 st :
  frag_loop_fx st (ls1 ++ ls2) = do st1 <- frag_loop_fx st ls1; frag_loop_fx st1 ls2.
Proof.
  revert st. induction ls1 as [|ln ls1 IH]; intros st; cbn [app frag_loop_fx rbind]; [reflexivity|].
  destruct (frag_step_fx st ln); cbn [rbind]; [apply IH|reflexivity|reflexivity].
Qed.

(* ------------------------------------------------------------------ isolation, for every block of lines *)
(* what was read before does not matter: the block-local state (frx, b) must only satisfy the invariant *)
Lemma fx_step_iso fr frx b ln : fx_inv (frx, b) ->
  frag_step_fx (frag_app fr frx, b) ln = do r <- frag_step_fx (frx, b) ln; Ok (frag_app fr (fst r), snd r).
Proof.
  intros Hinv. destruct (is_cont_line ln) eqn:Hc.
  - destruct b.
    + rewrite !(fx_step_cont_true _ ln Hc).
      rewrite (frag_step_cont fr frx ln (last_is_alias_nonempty _ (Hinv eq_refl))).
      destruct (frag_step frx ln); reflexivity.
    + rewrite !(fx_step_cont_false _ ln Hc). reflexivity.
  - rewrite !(fx_step_head _ b ln Hc).
    destruct (frag_step frag_empty ln); cbn [rbind fst snd]; try reflexivity.
    rewrite frag_app_assoc. reflexivity.
Qed.

Theorem isolation_fx : forall ls fr frx b, fx_inv (frx, b) ->
  frag_loop_fx (frag_app fr frx, b) ls = do r <- frag_loop_fx (frx, b) ls; Ok (frag_app fr (fst r), snd r).
Proof.
  induction ls as [|ln ls IH]; intros fr frx b Hinv; cbn [frag_loop_fx]; [reflexivity|].
  rewrite (fx_step_iso fr frx b ln Hinv).
  destruct (frag_step_fx (frx, b) ln) as [[frx' b']| |] eqn:E; cbn [rbind fst snd]; try reflexivity.
  apply IH. exact (frag_step_fx_inv _ _ _ E Hinv).
Qed.

(* the form used below: any fragment read before, lastAliasState nil *)
Corollary isolation_fx_empty : forall ls fr,
  frag_loop_fx (fr, false) ls = do r <- frag_loop_fx (frag_empty, false) ls; Ok (frag_app fr (fst r), snd r).
Proof.
  intros ls fr. rewrite <- (frag_app_empty_r fr) at 1. apply isolation_fx. intros H. discriminate H.
Qed.

Lemma parse_fragment_fx_clear ls st :
  frag_loop_fx (frag_empty, false) ls = Ok st -> parse_fragment_gen true ls = Ok (clear_aligned (fst st)).
Proof.
  intros H. unfold parse_fragment_gen. change (mkFrag [] [] []) with frag_empty. rewrite H. cbn [rbind].
  apply clear_empty_alias_aligned. exact (frag_loop_fx_aligned ls _ _ H eq_refl).
Qed.

(* C16_line_isolation for the code as it is: a malformed line (one that yields exactly an error) between ANY two
   blocks of lines *)
Theorem line_isolation_fx : forall ls1 bad ls2 p1 p2 e,
  parse_fragment_gen true ls1 = Ok p1 -> parse_fragment_gen true ls2 = Ok p2 ->
  is_cont_line bad = false -> frag_step frag_empty bad = Ok (mkFrag [] [] [e]) ->
  parse_fragment_gen true (ls1 ++ bad :: ls2) =
  Ok (mkFrag (f_stats p1 ++ f_stats p2) (f_lines p1 ++ f_lines p2) (f_errs p1 ++ e :: f_errs p2)).
Proof.
  intros ls1 bad ls2 p1 p2 e H1 H2 Hnc Hbad.
  destruct (frag_loop_fx_no_fault ls1 (frag_empty, false)) as [[fr1 b1] E1].
  destruct (frag_loop_fx_no_fault ls2 (frag_empty, false)) as [[fr2 b2] E2].
  rewrite (parse_fragment_fx_clear _ _ E1) in H1. rewrite (parse_fragment_fx_clear _ _ E2) in H2.
  cbn [fst] in H1, H2. injection H1 as <-. injection H2 as <-.
  pose proof (frag_loop_fx_aligned ls1 _ _ E1 eq_refl) as A1. cbn [fst] in A1.
  assert (E : frag_loop_fx (frag_empty, false) (ls1 ++ bad :: ls2)
              = Ok (frag_app (frag_app fr1 (mkFrag [] [] [e])) fr2, b2)).
  { rewrite frag_loop_fx_app, E1. cbn [rbind frag_loop_fx].
    rewrite (fx_step_head fr1 b1 bad Hnc), Hbad. cbn [rbind f_stats].
    change (last_is_alias []) with false.
    rewrite isolation_fx_empty, E2. reflexivity. }
  rewrite (parse_fragment_fx_clear _ _ E). cbn [fst].
  rewrite clear_aligned_app by (apply frag_app_aligned; [exact A1|reflexivity]).
  rewrite clear_aligned_app by exact A1.
  unfold frag_app, clear_aligned. cbn [f_stats f_lines f_errs combine filter map app].
  rewrite !app_nil_r. rewrite <- app_assoc. reflexivity.
Qed.

(* ------------------------------------------------------------------ the repaired loop is the per-unit spec *)
(* the shape of the units: after its first line a unit has continuation lines only *)
Definition tail_conts (u : list (N * bytes)) : Prop := Forall (fun ln => is_cont_line ln = true) (tl u).

Lemma units_tail_conts ls : Forall tail_conts (units ls).
Proof.
  induction ls as [|ln r IH]; [constructor|].
  cbn [units]. destruct (units r) as [|u us] eqn:Eu.
  - constructor; [constructor|constructor].
  - inversion IH as [|? ? Hu Hus]; subst.
    destruct (match u with h :: _ => is_cont_line h | [] => false end) eqn:Eh.
    + constructor; [|exact Hus]. unfold tail_conts. cbn [tl].
      destruct u as [|h u']; [constructor|]. constructor; [exact Eh|exact Hu].
    + constructor; [constructor|]. constructor; assumption.
Qed.

(* continuation lines while lastAliasState is nil *)
Lemma conts_fx_false cs : Forall (fun ln => is_cont_line ln = true) cs ->
  forall fr, frag_loop_fx (fr, false) cs = Ok (fr, false).
Proof.
  induction 1 as [|ln cs Hc _ IH]; intros fr; cbn [frag_loop_fx]; [reflexivity|].
  rewrite (fx_step_cont_false fr ln Hc). cbn [rbind]. apply IH.
Qed.

Lemma conts_old_noalias cs : Forall (fun ln => is_cont_line ln = true) cs ->
  forall fr, last_is_alias (f_stats fr) = false -> frag_loop fr cs = Ok fr.
Proof.
  induction 1 as [|ln cs Hc _ IH]; intros fr Hl; cbn [frag_loop]; [reflexivity|].
  rewrite (step_cont_noalias fr ln Hc Hl). cbn [rbind]. apply IH. exact Hl.
Qed.

(* continuation lines while lastAliasState is set: the old loop on the block-local fragment *)
Lemma conts_fx_true cs : Forall (fun ln => is_cont_line ln = true) cs ->
  forall fr frx, f_stats frx <> [] ->
  frag_loop_fx (frag_app fr frx, true) cs = do a <- frag_loop frx cs; Ok (frag_app fr a, true).
Proof.
  induction 1 as [|ln cs Hc _ IH]; intros fr frx Hne; cbn [frag_loop_fx frag_loop rbind]; [reflexivity|].
  rewrite (fx_step_cont_true _ ln Hc). rewrite (frag_step_cont fr frx ln Hne).
  destruct (frag_step frx ln) as [frx'| |] eqn:E; cbn [rbind]; try reflexivity.
  apply IH. eapply frag_step_nonempty; eassumption.
Qed.

(* one unit whose first line is not a continuation line: the unit read on its own, appended *)
Lemma unit_fx u : head_plain u -> tail_conts u -> forall fr b,
  exists b', frag_loop_fx (fr, b) u = do a <- frag_loop frag_empty u; Ok (frag_app fr a, b').
Proof.
  intros (h & cs & -> & Hh) Ht fr b. unfold tail_conts in Ht. cbn [tl] in Ht.
  cbn [frag_loop_fx frag_loop]. rewrite (fx_step_head fr b h Hh).
  destruct (frag_step frag_empty h) as [fh| |] eqn:Eh; cbn [rbind]; try (exists false; reflexivity).
  destruct (last_is_alias (f_stats fh)) eqn:El.
  - exists true. apply conts_fx_true; [exact Ht|]. apply last_is_alias_nonempty. exact El.
  - exists false. rewrite (conts_fx_false cs Ht). rewrite (conts_old_noalias cs Ht fh El). reflexivity.
Qed.

Lemma units_fx us : Forall head_plain us -> Forall tail_conts us -> forall fr b,
  exists b', frag_loop_fx (fr, b) (concat us) = do r <- raw_units us; Ok (frag_app fr r, b').
Proof.
  induction us as [|u us IH]; intros HF HT fr b; cbn [concat raw_units frag_loop_fx rbind].
  - exists b. rewrite frag_app_empty_r. reflexivity.
  - inversion HF as [|? ? Hu HF']; subst. inversion HT as [|? ? Tu HT']; subst.
    rewrite frag_loop_fx_app. destruct (unit_fx u Hu Tu fr b) as [b1 ->].
    destruct (frag_loop frag_empty u) as [a| |]; cbn [rbind]; try (exists false; reflexivity).
    destruct (IH HF' HT' (frag_app fr a) b1) as [b2 ->].
    destruct (raw_units us) as [r| |]; cbn [rbind]; try (exists false; reflexivity).
    exists b2. rewrite frag_app_assoc. reflexivity.
Qed.

(* the whole fragment: the first unit may consist of continuation lines only *)
Lemma raw_whole_fx ls : exists b', frag_loop_fx (frag_empty, false) ls = do r <- raw_units (units ls); Ok (r, b').
Proof.
  destruct (units_props ls) as (Hc & Ht & Hne). pose proof (units_tail_conts ls) as HT.
  destruct (units ls) as [|u us] eqn:Eu.
  - cbn in Hc. subst ls. exists false. reflexivity.
  - cbn [concat] in Hc. cbn [tl] in Ht. inversion HT as [|? ? Tu HT']; subst. inversion Hne as [|? ? Hu _]; subst.
    rewrite frag_loop_fx_app. cbn [raw_units].
    destruct u as [|h cs]; [contradiction|].
    assert (H1 : exists b1, frag_loop_fx (frag_empty, false) (h :: cs)
                            = do a <- frag_loop frag_empty (h :: cs); Ok (a, b1)).
    { destruct (is_cont_line h) eqn:Hh.
      - exists false. assert (Hall : Forall (fun ln => is_cont_line ln = true) (h :: cs)) by (constructor; assumption).
        rewrite (conts_fx_false _ Hall). rewrite (conts_old_noalias _ Hall frag_empty eq_refl). reflexivity.
      - assert (Hp : head_plain (h :: cs)) by (exists h, cs; auto).
        destruct (unit_fx _ Hp Tu frag_empty false) as [b1 Hb1]. exists b1. rewrite Hb1.
        destruct (frag_loop frag_empty (h :: cs)); cbn [rbind]; try reflexivity. rewrite frag_app_empty_l. reflexivity. }
    destruct H1 as [b1 ->].
    destruct (frag_loop frag_empty (h :: cs)) as [a| |]; cbn [rbind]; try (exists false; reflexivity).
    destruct (units_fx us Ht HT' a b1) as [b2 ->]. exists b2. destruct (raw_units us); reflexivity.
Qed.

(* C16_fragment_spec_full for the code as it is: ParseCommentFragment = every unit (a line + its continuation
   lines) read on its own, for ALL lists of lines *)
Theorem fragment_spec_full : forall ls, parse_fragment_gen true ls = parse_fragment_spec ls.
Proof.
  intros ls. unfold parse_fragment_spec.
  destruct (raw_whole_fx ls) as [b' Hr].
  destruct (frag_loop_fx_no_fault ls (frag_empty, false)) as [st E].
  rewrite (parse_fragment_fx_clear _ _ E). symmetry. apply units_spec_raw.
  rewrite E in Hr. destruct (raw_units (units ls)) as [r| |]; cbn [rbind] in Hr; try discriminate Hr.
  injection Hr as ->. reflexivity.
Qed.

(* hence, outside the class cont_after_bad, the repair changes nothing *)
Corollary repair_conservative : forall ls,
  frag_cont_after_bad ls = false -> parse_fragment_gen true ls = parse_fragment_gen false ls.
Proof. intros ls Hg. rewrite fragment_spec_full, (fragment_spec_agrees_pre ls Hg). reflexivity. Qed.

(* Lines[i] is the line of Stats[i]: the result is the list of (statement, line) pairs of the lines that yield a
   statement, minus the aliases that never got a type -- for ALL inputs, before and after the repair *)
Theorem fragment_pairs_pre : forall ls, exists fr0,
  frag_loop frag_empty ls = Ok fr0 /\ length (f_stats fr0) = length (f_lines fr0) /\
  parse_fragment_gen false ls = Ok (clear_aligned fr0).
Proof.
  intros ls. destruct (frag_loop_no_fault ls frag_empty) as [fr E]. exists fr.
  split; [exact E|]. split; [exact (frag_loop_aligned ls _ _ E eq_refl)|]. apply parse_fragment_clear. exact E.
Qed.

Theorem fragment_pairs_fx : forall ls, exists fr0 b,
  frag_loop_fx (frag_empty, false) ls = Ok (fr0, b) /\ length (f_stats fr0) = length (f_lines fr0) /\
  parse_fragment_gen true ls = Ok (clear_aligned fr0).
Proof.
  intros ls. destruct (frag_loop_fx_no_fault ls (frag_empty, false)) as [[fr b] E]. exists fr, b.
  split; [exact E|]. split; [exact (frag_loop_fx_aligned ls _ _ E eq_refl)|].
  exact (parse_fragment_fx_clear _ _ E).
Qed.
