(* C16 line isolation: ParseCommentFragment reads every line on its own; the only coupling between lines is
   an alias continuation line ("-| 'x' # text"), which is appended to the LAST statement read so far.
   Hence: a block of lines whose continuation lines all follow a statement of the same block contributes the
   same statements / lines / errors whatever precedes it (isolation_general), a malformed line contributes
   exactly its own error (line_isolation), and the model agrees with the per-unit spec outside the two classes
   of Spec/AnnGrammar.v (fragment_spec_agrees). *)
From Coq Require Import String Ascii List Arith NArith Bool Lia.
From LH Require Import Base.Bytes Base.Res Model.AnnLexer Model.AnnAst Model.AnnParser Spec.AnnGrammar
  Proofs.AnnLexFacts Proofs.AnnTotal.
Import ListNotations.

(* ------------------------------------------------------------------ frag_app *)
Lemma frag_app_empty_l a : frag_app frag_empty a = a.
Proof. destruct a. reflexivity. Qed.
Lemma frag_app_empty_r a : frag_app a frag_empty = a.
Proof. destruct a. unfold frag_app. cbn. rewrite !app_nil_r. reflexivity. Qed.
Lemma frag_app_assoc a b c : frag_app (frag_app a b) c = frag_app a (frag_app b c).
Proof. unfold frag_app. cbn. rewrite !app_assoc. reflexivity. Qed.

(* ------------------------------------------------------------------ one line *)
(* a continuation line only looks at the last statement *)
Lemma append_alias_last_app pre stats ct :
  stats <> [] -> append_alias_last (pre ++ stats) ct = pre ++ append_alias_last stats ct.
Proof.
  intros Hne. unfold append_alias_last. rewrite rev_app_distr.
  destruct (rev stats) as [|lst before] eqn:Er.
  - apply (f_equal (@rev _)) in Er. rewrite rev_involutive in Er. cbn in Er. contradiction.
  - cbn [app]. destruct (is_alias lst); [|reflexivity].
    rewrite rev_app_distr, rev_involutive. rewrite app_assoc. reflexivity.
Qed.

Lemma append_alias_last_nonempty stats ct : stats <> [] -> append_alias_last stats ct <> [].
Proof.
  intros Hne. unfold append_alias_last. destruct (rev stats) as [|lst before] eqn:Er; [exact Hne|].
  destruct (is_alias lst); [|exact Hne]. intros H. apply app_eq_nil in H as [_ H]. discriminate H.
Qed.

(* test "-|" *)
Definition cont_line (ln : N * bytes) : bool := is_cont_line ln.

Lemma check_head_alias_none text :
  test_prefix s_alias_head text = false -> check_head s_alias_head text = Ok None.
Proof. intros H. unfold check_head. rewrite H. reflexivity. Qed.

(* the effect of a line that is not a continuation line is an append *)
Lemma frag_step_append fr frx ln :
  is_cont_line ln = false ->
  frag_step (frag_app fr frx) ln = do frx' <- frag_step frx ln; Ok (frag_app fr frx').
Proof.
  destruct ln as [lno text]. unfold is_cont_line. cbn [snd]. intros Hc.
  unfold frag_step. rewrite (check_head_alias_none _ Hc). cbn [rbind].
  destruct (check_head s_head text) as [[c|]| |]; cbn [rbind]; try reflexivity.
  destruct (ann_parse_line (fuel_of c) c) as [[s|e]| |]; cbn [rbind]; try reflexivity.
  - destruct s; unfold frag_app; cbn [rbind f_stats f_lines f_errs]; rewrite <- ?app_assoc; reflexivity.
  - unfold frag_app; cbn [rbind f_stats f_lines f_errs]; rewrite <- ?app_assoc; reflexivity.
Qed.

(* a continuation line after at least one statement of the block *)
Lemma frag_step_cont fr frx ln :
  f_stats frx <> [] ->
  frag_step (frag_app fr frx) ln = do frx' <- frag_step frx ln; Ok (frag_app fr frx').
Proof.
  intros Hne. destruct (is_cont_line ln) eqn:Hc; [|apply frag_step_append; exact Hc].
  destruct ln as [lno text]. unfold frag_step.
  destruct (check_head s_alias_head text) as [[c|]| |]; cbn [rbind]; try reflexivity.
  - destruct (parse_extra_alias_line (mkLx c None)) as [[ct|] l'| | |]; try reflexivity.
    unfold frag_app. cbn [f_stats f_lines f_errs]. rewrite append_alias_last_app by exact Hne. reflexivity.
  - (* not a continuation line after all: same as frag_step_append *)
    destruct (check_head s_head text) as [[c|]| |]; cbn [rbind]; try reflexivity.
    destruct (ann_parse_line (fuel_of c) c) as [[s|e]| |]; cbn [rbind]; try reflexivity.
    + destruct s; unfold frag_app; cbn [rbind f_stats f_lines f_errs]; rewrite <- ?app_assoc; reflexivity.
    + unfold frag_app; cbn [rbind f_stats f_lines f_errs]; rewrite <- ?app_assoc; reflexivity.
Qed.

(* statements never disappear while the lines are read *)
Lemma frag_step_nonempty frx ln frx' :
  frag_step frx ln = Ok frx' -> f_stats frx <> [] -> f_stats frx' <> [].
Proof.
  destruct ln as [lno text]. unfold frag_step. intros H Hne.
  destruct (check_head s_alias_head text) as [[c|]| |]; cbn [rbind] in H; try discriminate H.
  - destruct (parse_extra_alias_line (mkLx c None)) as [[ct|] l'| | |]; try discriminate H;
      injection H as <-; [|exact Hne]. cbn [f_stats]. apply append_alias_last_nonempty. exact Hne.
  - destruct (check_head s_head text) as [[c|]| |]; cbn [rbind] in H; try discriminate H.
    + destruct (ann_parse_line (fuel_of c) c) as [[s|e]| |]; cbn [rbind] in H; try discriminate H.
      * destruct s; injection H as <-; cbn [f_stats]; try exact Hne;
          intros E; apply app_eq_nil in E as [_ E]; discriminate E.
      * injection H as <-. exact Hne.
    + injection H as <-. exact Hne.
Qed.

(* ------------------------------------------------------------------ blocks of lines *)
(* reading ls from the block-local fragment frx never meets a continuation line while frx has no statement *)
Fixpoint safe_from (frx : frag) (ls : list (N * bytes)) : bool :=
  match ls with
  | [] => true
  | ln :: r =>
    (negb (is_cont_line ln) || negb (is_nil (f_stats frx))) &&
    match frag_step frx ln with Ok frx' => safe_from frx' r | _ => false end
  end.
Definition self_contained (ls : list (N * bytes)) : bool := safe_from frag_empty ls.

Theorem isolation_general : forall ls fr frx,
  safe_from frx ls = true ->
  frag_loop (frag_app fr frx) ls = do r <- frag_loop frx ls; Ok (frag_app fr r).
Proof.
  induction ls as [|ln ls IH]; intros fr frx Hs; cbn [frag_loop]; [reflexivity|].
  cbn [safe_from] in Hs. apply andb_true_iff in Hs as [Hc Hs].
  assert (Hstep : frag_step (frag_app fr frx) ln = do frx' <- frag_step frx ln; Ok (frag_app fr frx')).
  { apply orb_true_iff in Hc as [Hc|Hc].
    - apply frag_step_append. apply negb_true_iff. exact Hc.
    - apply frag_step_cont. destruct (f_stats frx); [discriminate Hc|discriminate]. }
  rewrite Hstep. destruct (frag_step frx ln) as [frx'| |]; cbn [rbind]; try discriminate Hs.
  apply IH. exact Hs.
Qed.

Lemma frag_loop_app ls1 ls2 fr :
  frag_loop fr (ls1 ++ ls2) = do fr1 <- frag_loop fr ls1; frag_loop fr1 ls2.
Proof.
  revert fr. induction ls1 as [|ln ls1 IH]; intros fr; cbn [app frag_loop rbind]; [reflexivity|].
  destruct (frag_step fr ln); cbn [rbind]; [apply IH|reflexivity|reflexivity].
Qed.

Lemma clear_empty_alias_app a b :
  clear_empty_alias (frag_app a b) = frag_app (clear_empty_alias a) (clear_empty_alias b).
Proof. unfold clear_empty_alias, frag_app. cbn [f_stats f_lines f_errs]. rewrite filter_app. reflexivity. Qed.

(* C16_line_isolation: a malformed line (one that yields exactly an error) between two blocks of lines *)
Theorem line_isolation : forall ls1 bad ls2 p1 p2 e,
  parse_fragment ls1 = Ok p1 -> parse_fragment ls2 = Ok p2 ->
  is_cont_line bad = false -> frag_step frag_empty bad = Ok (mkFrag [] [] [e]) ->
  self_contained ls2 = true ->
  parse_fragment (ls1 ++ bad :: ls2) =
  Ok (mkFrag (f_stats p1 ++ f_stats p2) (f_lines p1 ++ f_lines p2) (f_errs p1 ++ e :: f_errs p2)).
Proof.
  intros ls1 bad ls2 p1 p2 e H1 H2 Hnc Hbad Hsc.
  unfold parse_fragment in *. change (mkFrag [] [] []) with frag_empty in *.
  destruct (frag_loop frag_empty ls1) as [fr1| |] eqn:E1; cbn [rbind] in H1; try discriminate H1.
  destruct (frag_loop frag_empty ls2) as [fr2| |] eqn:E2; cbn [rbind] in H2; try discriminate H2.
  injection H1 as <-. injection H2 as <-.
  rewrite frag_loop_app, E1. cbn [rbind frag_loop].
  rewrite <- (frag_app_empty_r fr1) at 1. rewrite (frag_step_append fr1 frag_empty bad Hnc), Hbad. cbn [rbind].
  rewrite <- (frag_app_empty_r (frag_app fr1 _)).
  rewrite (isolation_general ls2 _ frag_empty Hsc), E2. cbn [rbind].
  rewrite !clear_empty_alias_app. unfold frag_app, clear_empty_alias. cbn [f_stats f_lines f_errs filter app].
  rewrite !app_nil_r. rewrite <- app_assoc. reflexivity.
Qed.

(* ------------------------------------------------------------------ units *)
Definition head_plain (u : list (N * bytes)) : Prop := exists h r, u = h :: r /\ is_cont_line h = false.

Lemma units_props ls :
  concat (units ls) = ls /\ Forall head_plain (tl (units ls)) /\ Forall (fun u => u <> []) (units ls).
Proof.
  induction ls as [|ln r (IH1 & IH2 & IH3)]; [cbn; auto|].
  cbn [units]. destruct (units r) as [|u us] eqn:Eu.
  - cbn in IH1. subst r. cbn. repeat split; auto. constructor; [discriminate|constructor].
  - cbn [concat] in IH1. cbn [tl] in IH2.
    destruct (match u with h :: _ => is_cont_line h | [] => false end) eqn:Eh.
    + cbn [concat tl app]. rewrite IH1. repeat split; auto.
      inversion IH3; subst. constructor; [discriminate|assumption].
    + cbn [concat tl app]. rewrite IH1. repeat split; auto.
      * constructor; [|exact IH2]. inversion IH3 as [|? ? Hne _]; subst.
        destruct u as [|h u']; [contradiction|]. exists h, u'. auto.
      * constructor; [discriminate|exact IH3].
Qed.

Lemma safe_nonempty ls : forall frx, f_stats frx <> [] -> safe_from frx ls = true.
Proof.
  induction ls as [|ln ls IH]; intros frx Hne; cbn [safe_from]; [reflexivity|].
  destruct (frag_step_no_fault frx ln) as [frx' Hs]. rewrite Hs.
  apply andb_true_iff. split.
  - apply orb_true_iff. right. destruct (f_stats frx); [contradiction|reflexivity].
  - apply IH. eapply frag_step_nonempty; eassumption.
Qed.

Lemma shielded_safe u : head_plain u -> unit_shielded u = true -> safe_from frag_empty u = true.
Proof.
  intros (h & r & -> & Hh) Hs. cbn [safe_from]. rewrite Hh. cbn [negb orb andb].
  destruct (frag_step_no_fault frag_empty h) as [frx Hstep]. rewrite Hstep.
  unfold unit_shielded, head_yields_stat in Hs. rewrite Hstep in Hs.
  apply orb_true_iff in Hs as [Hs|Hs].
  - apply safe_nonempty. destruct (f_stats frx); [discriminate Hs|discriminate].
  - destruct r; [reflexivity|discriminate Hs].
Qed.

(* reading the units one after the other, each from an empty fragment *)
Fixpoint raw_units (us : list (list (N * bytes))) : Res frag :=
  match us with
  | [] => Ok frag_empty
  | u :: r => do a <- frag_loop frag_empty u; do b <- raw_units r; Ok (frag_app a b)
  end.

Lemma raw_units_compose us : Forall head_plain us -> forallb unit_shielded us = true ->
  forall fr, frag_loop fr (concat us) = do r <- raw_units us; Ok (frag_app fr r).
Proof.
  induction us as [|u us IH]; intros HF Hs fr; cbn [concat raw_units frag_loop rbind].
  - rewrite frag_app_empty_r. reflexivity.
  - inversion HF as [|? ? Hu HF']; subst. cbn [forallb] in Hs. apply andb_true_iff in Hs as [Hsu Hss].
    rewrite frag_loop_app.
    rewrite <- (frag_app_empty_r fr) at 1.
    rewrite (isolation_general u fr frag_empty (shielded_safe u Hu Hsu)).
    destruct (frag_loop frag_empty u) as [a| |]; cbn [rbind]; try reflexivity.
    rewrite (IH HF' Hss). destruct (raw_units us) as [b| |]; cbn [rbind]; try reflexivity.
    rewrite frag_app_assoc. reflexivity.
Qed.

Lemma raw_whole ls : frag_cont_after_bad ls = false -> frag_loop frag_empty ls = raw_units (units ls).
Proof.
  unfold frag_cont_after_bad. intros Hg. apply negb_false_iff in Hg.
  destruct (units_props ls) as (Hc & Ht & _).
  destruct (units ls) as [|u us] eqn:Eu.
  - cbn in Hc. subst ls. reflexivity.
  - cbn [concat] in Hc. cbn [tl] in Ht. cbn [forallb] in Hg. apply andb_true_iff in Hg as [_ Hgs].
    rewrite <- Hc. rewrite frag_loop_app. cbn [raw_units].
    destruct (frag_loop frag_empty u) as [a| |]; cbn [rbind]; try reflexivity.
    rewrite (raw_units_compose us Ht Hgs a). reflexivity.
Qed.

(* ------------------------------------------------------------------ Stats and Lines stay aligned while reading *)
Lemma append_alias_last_length stats ct : length (append_alias_last stats ct) = length stats.
Proof.
  unfold append_alias_last. destruct (rev stats) as [|lst before] eqn:Er; [reflexivity|].
  destruct (is_alias lst); [|reflexivity].
  rewrite app_length, rev_length. cbn [length].
  rewrite <- (rev_length stats), Er. cbn [length]. lia.
Qed.

Definition aligned (fr : frag) : Prop := length (f_stats fr) = length (f_lines fr).

Lemma frag_step_aligned fr ln fr' : frag_step fr ln = Ok fr' -> aligned fr -> aligned fr'.
Proof.
  destruct ln as [lno text]. unfold frag_step, aligned. intros H Ha.
  destruct (check_head s_alias_head text) as [[c|]| |]; cbn [rbind] in H; try discriminate H.
  - destruct (parse_extra_alias_line (mkLx c None)) as [[ct|] l'| | |]; try discriminate H;
      injection H as <-; [|exact Ha]. cbn [f_stats f_lines]. rewrite append_alias_last_length. exact Ha.
  - destruct (check_head s_head text) as [[c|]| |]; cbn [rbind] in H; try discriminate H.
    + destruct (ann_parse_line (fuel_of c) c) as [[s|e]| |]; cbn [rbind] in H; try discriminate H.
      * destruct s; injection H as <-; cbn [f_stats f_lines]; try exact Ha; rewrite !app_length; cbn [length]; lia.
      * injection H as <-. exact Ha.
    + injection H as <-. exact Ha.
Qed.

Lemma frag_loop_aligned ls : forall fr fr', frag_loop fr ls = Ok fr' -> aligned fr -> aligned fr'.
Proof.
  induction ls as [|ln ls IH]; intros fr fr' H Ha; cbn [frag_loop] in H.
  - injection H as <-. exact Ha.
  - destruct (frag_step fr ln) as [fr1| |] eqn:E; cbn [rbind] in H; try discriminate H.
    eapply IH; [exact H|]. eapply frag_step_aligned; eassumption.
Qed.

Lemma combine_fst {A B} (a : list A) (b : list B) : length a = length b -> map fst (combine a b) = a.
Proof.
  revert b. induction a as [|x a IH]; intros [|y b] H; cbn in *; try reflexivity; try discriminate.
  f_equal. apply IH. lia.
Qed.
Lemma combine_snd {A B} (a : list A) (b : list B) : length a = length b -> map snd (combine a b) = b.
Proof.
  revert b. induction a as [|x a IH]; intros [|y b] H; cbn in *; try reflexivity; try discriminate.
  f_equal. apply IH. lia.
Qed.

Lemma filter_all {A} (p : A -> bool) l : forallb p l = true -> filter p l = l.
Proof.
  induction l as [|x l IH]; cbn; [reflexivity|]. intros H. apply andb_true_iff in H as [H1 H2].
  rewrite H1, IH by assumption. reflexivity.
Qed.

Lemma forallb_combine_fst {A B} (p : A -> bool) (a : list A) (b : list B) :
  forallb p a = true -> forallb (fun q => p (fst q)) (combine a b) = true.
Proof.
  revert b. induction a as [|x a IH]; intros [|y b] H; cbn in *; try reflexivity.
  apply andb_true_iff in H as [H1 H2]. rewrite H1. cbn. apply IH. exact H2.
Qed.

Lemma no_empty_forallb stats : existsb empty_alias stats = false -> forallb (fun s => negb (empty_alias s)) stats = true.
Proof.
  induction stats as [|s l IH]; cbn; [reflexivity|]. intros H. apply orb_false_iff in H as [H1 H2].
  rewrite H1, IH by assumption. reflexivity.
Qed.

Lemma clear_aligned_id fr : aligned fr -> existsb empty_alias (f_stats fr) = false -> clear_aligned fr = fr.
Proof.
  intros Ha Hn. unfold clear_aligned. rewrite filter_all.
  - rewrite combine_fst, combine_snd by exact Ha. destruct fr. reflexivity.
  - apply (forallb_combine_fst (fun s => negb (empty_alias s))). apply no_empty_forallb. exact Hn.
Qed.

Lemma clear_empty_alias_id fr : existsb empty_alias (f_stats fr) = false -> clear_empty_alias fr = fr.
Proof.
  intros Hn. unfold clear_empty_alias. rewrite filter_all by (apply no_empty_forallb; exact Hn).
  destruct fr. reflexivity.
Qed.

Lemma aligned_empty : aligned frag_empty.
Proof. reflexivity. Qed.

(* the per-unit spec on units without an alias that stays empty *)
Lemma units_spec_raw us : forall fr,
  raw_units us = Ok fr -> existsb empty_alias (f_stats fr) = false -> parse_units_spec us = Ok fr.
Proof.
  induction us as [|u us IH]; intros fr H Hn; cbn [raw_units parse_units_spec] in *; [exact H|].
  unfold parse_unit_spec.
  destruct (frag_loop frag_empty u) as [a| |] eqn:Ea; cbn [rbind] in *; try discriminate H.
  destruct (raw_units us) as [b| |] eqn:Eb; cbn [rbind] in *; try discriminate H.
  injection H as <-. unfold frag_app in Hn. cbn [f_stats] in Hn. rewrite existsb_app in Hn.
  apply orb_false_iff in Hn as [Hna Hnb].
  rewrite (clear_aligned_id a (frag_loop_aligned u _ _ Ea aligned_empty) Hna).
  rewrite (IH b eq_refl Hnb). reflexivity.
Qed.

(* outside the two classes the model of ParseCommentFragment is the per-unit spec *)
Theorem fragment_spec_agrees : forall ls,
  frag_cont_after_bad ls = false -> frag_lines_desync ls = false ->
  parse_fragment ls = parse_fragment_spec ls.
Proof.
  intros ls Hg Hd. unfold parse_fragment, parse_fragment_spec, frag_lines_desync in *.
  change (mkFrag [] [] []) with frag_empty.
  pose proof (raw_whole ls Hg) as Hr.
  destruct (frag_loop frag_empty ls) as [fr| |] eqn:E; cbn [rbind].
  - rewrite (clear_empty_alias_id fr Hd). symmetry. apply units_spec_raw; [symmetry; exact Hr | exact Hd].
  - destruct (frag_loop_no_fault ls frag_empty) as [x Hx]. congruence.
  - destruct (frag_loop_no_fault ls frag_empty) as [x Hx]. congruence.
Qed.
