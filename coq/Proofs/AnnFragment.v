(* C16 line isolation: ParseCommentFragment reads every line on its own; the only coupling between lines is
   an alias continuation line ("-| 'x' # text"), which is appended to the LAST statement read so far.
   Hence: a block of lines whose continuation lines all follow a statement of the same block contributes the
   same statements / lines / errors whatever precedes it (isolation_general), a malformed line contributes
   exactly its own error (line_isolation), and the model agrees with the per-unit spec outside the class
   cont_after_bad of Spec/AnnGrammar.v (fragment_spec_agrees).  clearEmpytAlias drops an alias without type
   together with its line: Stats and Lines stay aligned (Proofs/AnnTotal.v), so it is `clear_aligned`. *)
From Coq Require Import String Ascii List Arith NArith Bool Lia.
From LH Require Import Base.Bytes Base.Res Model.AnnLexer Model.AnnAst Model.AnnParser Spec.AnnGrammar
  Proofs.AnnLexFacts Proofs.AnnTotal.
Import ListNotations.

(* ------------------------------------------------------------------ frag_app *)
Lemma frag_app_empty_l a : frag_app frag_empty a = a.
Proof. destruct a. reflexivity. Qed.
Lemma frag_app_empty_r a : frag_app a frag_empty = a.
Proof. destruct a. unfold frag_app. cbn. rewrite !app_nil_r. reflexivity. Qed.
Lemma frag_app_assoc a b c : frag_app (frag_app a b) c = frag_app a (frag_app b c).
Proof. unfold frag_app. cbn. rewrite !app_assoc. reflexivity. Qed.

(* ------------------------------------------------------------------ one line *)
(* a continuation line only looks at the last statement *)
Lemma append_alias_last_app pre stats ct :
  stats <> [] -> append_alias_last (pre ++ stats) ct = pre ++ append_alias_last stats ct.
Proof.
  intros Hne. unfold append_alias_last. rewrite rev_app_distr.
  destruct (rev stats) as [|lst before] eqn:Er.
  - apply (f_equal (@rev _)) in Er. rewrite rev_involutive in Er. cbn in Er. contradiction.
  - cbn [app]. destruct (is_alias lst); [|reflexivity].
    rewrite rev_app_distr, rev_involutive. rewrite app_assoc. reflexivity.
Qed.

Lemma append_alias_last_nonempty stats ct : stats <> [] -> append_alias_last stats ct <> [].
Proof.
  intros Hne. unfold append_alias_last. destruct (rev stats) as [|lst before] eqn:Er; [exact Hne|].
  destruct (is_alias lst); [|exact Hne]. intros H. apply app_eq_nil in H as [_ H]. discriminate H.
Qed.

(* test "-|" *)
Definition cont_line (ln : N * bytes) : bool := is_cont_line ln.

Lemma check_head_alias_none text :
  test_prefix s_alias_head text = false -> check_head s_alias_head text = Ok None.
Proof. intros H. unfold check_head. rewrite H. reflexivity. Qed.

(* the effect of a line that is not a continuation line is an append *)
Lemma frag_step_append fr frx ln :
  is_cont_line ln = false ->
  frag_step (frag_app fr frx) ln = do frx' <- frag_step frx ln; Ok (frag_app fr frx').
Proof.
  destruct ln as [lno text]. unfold is_cont_line. cbn [snd]. intros Hc.
  unfold frag_step. rewrite (check_head_alias_none _ Hc). cbn [rbind].
  destruct (check_head s_head text) as [[c|]| |]; cbn [rbind]; try reflexivity.
  destruct (ann_parse_line (fuel_of c) c) as [[s|e]| |]; cbn [rbind]; try reflexivity.
  - destruct s; unfold frag_app; cbn [rbind f_stats f_lines f_errs]; rewrite <- ?app_assoc; reflexivity.
  - unfold frag_app; cbn [rbind f_stats f_lines f_errs]; rewrite <- ?app_assoc; reflexivity.
Qed.

(* a continuation line after at least one statement of the block *)
Lemma frag_step_cont fr frx ln :
  f_stats frx <> [] ->
  frag_step (frag_app fr frx) ln = do frx' <- frag_step frx ln; Ok (frag_app fr frx').
Proof.
  intros Hne. destruct (is_cont_line ln) eqn:Hc; [|apply frag_step_append; exact Hc].
  destruct ln as [lno text]. unfold frag_step.
  destruct (check_head s_alias_head text) as [[c|]| |]; cbn [rbind]; try reflexivity.
  - destruct (parse_extra_alias_line (mkLx c None)) as [[ct|] l'| | |]; try reflexivity.
    unfold frag_app. cbn [f_stats f_lines f_errs]. rewrite append_alias_last_app by exact Hne. reflexivity.
  - (* not a continuation line after all: same as frag_step_append *)
    destruct (check_head s_head text) as [[c|]| |]; cbn [rbind]; try reflexivity.
    destruct (ann_parse_line (fuel_of c) c) as [[s|e]| |]; cbn [rbind]; try reflexivity.
    + destruct s; unfold frag_app; cbn [rbind f_stats f_lines f_errs]; rewrite <- ?app_assoc; reflexivity.
    + unfold frag_app; cbn [rbind f_stats f_lines f_errs]; rewrite <- ?app_assoc; reflexivity.
Qed.

(* statements never disappear while the lines are read *)
Lemma frag_step_nonempty frx ln frx' :
  frag_step frx ln = Ok frx' -> f_stats frx <> [] -> f_stats frx' <> [].
Proof.
  destruct ln as [lno text]. unfold frag_step. intros H Hne.
  destruct (check_head s_alias_head text) as [[c|]| |]; cbn [rbind] in H; try discriminate H.
  - destruct (parse_extra_alias_line (mkLx c None)) as [[ct|] l'| | |]; try discriminate H;
      injection H as <-; [|exact Hne]. cbn [f_stats]. apply append_alias_last_nonempty. exact Hne.
  - destruct (check_head s_head text) as [[c|]| |]; cbn [rbind] in H; try discriminate H.
    + destruct (ann_parse_line (fuel_of c) c) as [[s|e]| |]; cbn [rbind] in H; try discriminate H.
      * destruct s; injection H as <-; cbn [f_stats]; try exact Hne;
          intros E; apply app_eq_nil in E as [_ E]; discriminate E.
      * injection H as <-. exact Hne.
    + injection H as <-. exact Hne.
Qed.

(* ------------------------------------------------------------------ blocks of lines *)
(* reading ls from the block-local fragment frx never meets a continuation line while frx has no statement *)
Fixpoint safe_from (frx : frag) (ls : list (N * bytes)) : bool :=
  match ls with
  | [] => true
  | ln :: r =>
    (negb (is_cont_line ln) || negb (is_nil (f_stats frx))) &&
    match frag_step frx ln with Ok frx' => safe_from frx' r | _ => false end
  end.
Definition self_contained (ls : list (N * bytes)) : bool := safe_from frag_empty ls.

Theorem isolation_general : forall ls fr frx,
  safe_from frx ls = true ->
  frag_loop (frag_app fr frx) ls = do r <- frag_loop frx ls; Ok (frag_app fr r).
Proof.
  induction ls as [|ln ls IH]; intros fr frx Hs; cbn [frag_loop]; [reflexivity|].
  cbn [safe_from] in Hs. apply andb_true_iff in Hs as [Hc Hs].
  assert (Hstep : frag_step (frag_app fr frx) ln = do frx' <- frag_step frx ln; Ok (frag_app fr frx')).
  { apply orb_true_iff in Hc as [Hc|Hc].
    - apply frag_step_append. apply negb_true_iff. exact Hc.
    - apply frag_step_cont. destruct (f_stats frx); [discriminate Hc|discriminate]. }
  rewrite Hstep. destruct (frag_step frx ln) as [frx'| |]; cbn [rbind]; try discriminate Hs.
  apply IH. exact Hs.
Qed.

Lemma frag_loop_app ls1 ls2 fr :
  frag_loop fr (ls1 ++ ls2) = do fr1 <- frag_loop fr ls1; frag_loop fr1 ls2.
Proof.
  revert fr. induction ls1 as [|ln ls1 IH]; intros fr; cbn [app frag_loop rbind]; [reflexivity|].
  destruct (frag_step fr ln); cbn [rbind]; [apply IH|reflexivity|reflexivity].
Qed.

(* clearEmpytAlias = dropping the (statement, line) pairs of the aliases without type *)
Lemma clear_empty_alias_aligned fr : aligned fr -> clear_empty_alias fr = Ok (clear_aligned fr).
Proof. intros Ha. unfold clear_empty_alias. rewrite (clear_loop_aligned _ _ Ha). reflexivity. Qed.

Lemma combine_app {A B} (a1 a2 : list A) (b1 b2 : list B) :
  length a1 = length b1 -> combine (a1 ++ a2) (b1 ++ b2) = combine a1 b1 ++ combine a2 b2.
Proof.
  revert b1. induction a1 as [|x a1 IH]; intros [|y b1] H; cbn in *; try discriminate; [reflexivity|].
  f_equal. apply IH. lia.
Qed.

Lemma clear_aligned_app a b : aligned a ->
  clear_aligned (frag_app a b) = frag_app (clear_aligned a) (clear_aligned b).
Proof.
  intros Ha. unfold clear_aligned, frag_app. cbn [f_stats f_lines f_errs].
  rewrite (combine_app _ _ _ _ Ha), filter_app, !map_app. reflexivity.
Qed.

Lemma frag_app_aligned a b : aligned a -> aligned b -> aligned (frag_app a b).
Proof. unfold aligned, frag_app. cbn [f_stats f_lines]. rewrite !app_length. lia. Qed.

Lemma parse_fragment_clear ls fr : frag_loop frag_empty ls = Ok fr -> parse_fragment ls = Ok (clear_aligned fr).
Proof.
  intros H. unfold parse_fragment. change (mkFrag [] [] []) with frag_empty. rewrite H. cbn [rbind].
  apply clear_empty_alias_aligned. exact (frag_loop_aligned ls _ _ H eq_refl).
Qed.

(* C16_line_isolation: a malformed line (one that yields exactly an error) between two blocks of lines *)
Theorem line_isolation : forall ls1 bad ls2 p1 p2 e,
  parse_fragment ls1 = Ok p1 -> parse_fragment ls2 = Ok p2 ->
  is_cont_line bad = false -> frag_step frag_empty bad = Ok (mkFrag [] [] [e]) ->
  self_contained ls2 = true ->
  parse_fragment (ls1 ++ bad :: ls2) =
  Ok (mkFrag (f_stats p1 ++ f_stats p2) (f_lines p1 ++ f_lines p2) (f_errs p1 ++ e :: f_errs p2)).
Proof.
  intros ls1 bad ls2 p1 p2 e H1 H2 Hnc Hbad Hsc.
  destruct (frag_loop_no_fault ls1 frag_empty) as [fr1 E1]. destruct (frag_loop_no_fault ls2 frag_empty) as [fr2 E2].
  rewrite (parse_fragment_clear _ _ E1) in H1. rewrite (parse_fragment_clear _ _ E2) in H2.
  injection H1 as <-. injection H2 as <-.
  pose proof (frag_loop_aligned ls1 _ _ E1 eq_refl) as A1.
  assert (E : frag_loop frag_empty (ls1 ++ bad :: ls2) = Ok (frag_app (frag_app fr1 (mkFrag [] [] [e])) fr2)).
  { rewrite frag_loop_app, E1. cbn [rbind frag_loop].
    rewrite <- (frag_app_empty_r fr1) at 1. rewrite (frag_step_append fr1 frag_empty bad Hnc), Hbad. cbn [rbind].
    rewrite <- (frag_app_empty_r (frag_app fr1 _)).
    rewrite (isolation_general ls2 _ frag_empty Hsc), E2. cbn [rbind]. rewrite frag_app_empty_r. reflexivity. }
  rewrite (parse_fragment_clear _ _ E).
  rewrite clear_aligned_app by (apply frag_app_aligned; [exact A1|reflexivity]).
  rewrite clear_aligned_app by exact A1.
  unfold frag_app, clear_aligned. cbn [f_stats f_lines f_errs combine filter map app].
  rewrite !app_nil_r. rewrite <- app_assoc. reflexivity.
Qed.

(* ------------------------------------------------------------------ units *)
Definition head_plain (u : list (N * bytes)) : Prop := exists h r, u = h :: r /\ is_cont_line h = false.

Lemma units_props ls :
  concat (units ls) = ls /\ Forall head_plain (tl (units ls)) /\ Forall (fun u => u <> []) (units ls).
Proof.
  induction ls as [|ln r (IH1 & IH2 & IH3)]; [cbn; auto|].
  cbn [units]. destruct (units r) as [|u us] eqn:Eu.
  - cbn in IH1. subst r. cbn. repeat split; auto. constructor; [discriminate|constructor].
  - cbn [concat] in IH1. cbn [tl] in IH2.
    destruct (match u with h :: _ => is_cont_line h | [] => false end) eqn:Eh.
    + cbn [concat tl app]. rewrite IH1. repeat split; auto.
      inversion IH3; subst. constructor; [discriminate|assumption].
    + cbn [concat tl app]. rewrite IH1. repeat split; auto.
      * constructor; [|exact IH2]. inversion IH3 as [|? ? Hne _]; subst.
        destruct u as [|h u']; [contradiction|]. exists h, u'. auto.
      * constructor; [discriminate|exact IH3].
Qed.

Lemma safe_nonempty ls : forall frx, f_stats frx <> [] -> safe_from frx ls = true.
Proof.
  induction ls as [|ln ls IH]; intros frx Hne; cbn [safe_from]; [reflexivity|].
  destruct (frag_step_no_fault frx ln) as [frx' Hs]. rewrite Hs.
  apply andb_true_iff. split.
  - apply orb_true_iff. right. destruct (f_stats frx); [contradiction|reflexivity].
  - apply IH. eapply frag_step_nonempty; eassumption.
Qed.

Lemma shielded_safe u : head_plain u -> unit_shielded u = true -> safe_from frag_empty u = true.
Proof.
  intros (h & r & -> & Hh) Hs. cbn [safe_from]. rewrite Hh. cbn [negb orb andb].
  destruct (frag_step_no_fault frag_empty h) as [frx Hstep]. rewrite Hstep.
  unfold unit_shielded, head_yields_stat in Hs. rewrite Hstep in Hs.
  apply orb_true_iff in Hs as [Hs|Hs].
  - apply safe_nonempty. destruct (f_stats frx); [discriminate Hs|discriminate].
  - destruct r; [reflexivity|discriminate Hs].
Qed.

(* reading the units one after the other, each from an empty fragment *)
Fixpoint raw_units (us : list (list (N * bytes))) : Res frag :=
  match us with
  | [] => Ok frag_empty
  | u :: r => do a <- frag_loop frag_empty u; do b <- raw_units r; Ok (frag_app a b)
  end.

Lemma raw_units_compose us : Forall head_plain us -> forallb unit_shielded us = true ->
  forall fr, frag_loop fr (concat us) = do r <- raw_units us; Ok (frag_app fr r).
Proof.
  induction us as [|u us IH]; intros HF Hs fr; cbn [concat raw_units frag_loop rbind].
  - rewrite frag_app_empty_r. reflexivity.
  - inversion HF as [|? ? Hu HF']; subst. cbn [forallb] in Hs. apply andb_true_iff in Hs as [Hsu Hss].
    rewrite frag_loop_app.
    rewrite <- (frag_app_empty_r fr) at 1.
    rewrite (isolation_general u fr frag_empty (shielded_safe u Hu Hsu)).
    destruct (frag_loop frag_empty u) as [a| |]; cbn [rbind]; try reflexivity.
    rewrite (IH HF' Hss). destruct (raw_units us) as [b| |]; cbn [rbind]; try reflexivity.
    rewrite frag_app_assoc. reflexivity.
Qed.

Lemma raw_whole ls : frag_cont_after_bad ls = false -> frag_loop frag_empty ls = raw_units (units ls).
Proof.
  unfold frag_cont_after_bad. intros Hg. apply negb_false_iff in Hg.
  destruct (units_props ls) as (Hc & Ht & _).
  destruct (units ls) as [|u us] eqn:Eu.
  - cbn in Hc. subst ls. reflexivity.
  - cbn [concat] in Hc. cbn [tl] in Ht. cbn [forallb] in Hg. apply andb_true_iff in Hg as [_ Hgs].
    rewrite <- Hc. rewrite frag_loop_app. cbn [raw_units].
    destruct (frag_loop frag_empty u) as [a| |]; cbn [rbind]; try reflexivity.
    rewrite (raw_units_compose us Ht Hgs a). reflexivity.
Qed.

(* ------------------------------------------------------------------ clearEmpytAlias on aligned fragments *)
Lemma combine_fst {A B} (a : list A) (b : list B) : length a = length b -> map fst (combine a b) = a.
Proof.
  revert b. induction a as [|x a IH]; intros [|y b] H; cbn in *; try reflexivity; try discriminate.
  f_equal. apply IH. lia.
Qed.
Lemma combine_snd {A B} (a : list A) (b : list B) : length a = length b -> map snd (combine a b) = b.
Proof.
  revert b. induction a as [|x a IH]; intros [|y b] H; cbn in *; try reflexivity; try discriminate.
  f_equal. apply IH. lia.
Qed.

(* the per-unit spec = clearing the concatenation of the units read one by one *)
Lemma units_spec_raw us : forall fr, raw_units us = Ok fr -> parse_units_spec us = Ok (clear_aligned fr) /\ aligned fr.
Proof.
  induction us as [|u us IH]; intros fr H; cbn [raw_units parse_units_spec] in *.
  - injection H as <-. split; reflexivity.
  - unfold parse_unit_spec.
    destruct (frag_loop frag_empty u) as [a| |] eqn:Ea; cbn [rbind] in *; try discriminate H.
    destruct (raw_units us) as [b| |] eqn:Eb; cbn [rbind] in *; try discriminate H.
    injection H as <-. destruct (IH b eq_refl) as [-> Hb]. cbn [rbind].
    pose proof (frag_loop_aligned u _ _ Ea eq_refl) as Ha.
    split; [rewrite (clear_aligned_app a b Ha); reflexivity | apply frag_app_aligned; assumption].
Qed.

(* outside the class cont_after_bad the model of ParseCommentFragment is the per-unit spec *)
Theorem fragment_spec_agrees : forall ls,
  frag_cont_after_bad ls = false -> parse_fragment ls = parse_fragment_spec ls.
Proof.
  intros ls Hg. unfold parse_fragment_spec.
  pose proof (raw_whole ls Hg) as Hr.
  destruct (frag_loop_no_fault ls frag_empty) as [fr E].
  rewrite (parse_fragment_clear _ _ E). symmetry. apply units_spec_raw. rewrite <- Hr. exact E.
Qed.

(* Lines[i] is the line of Stats[i]: the result is the list of (statement, line) pairs of the lines that yield a
   statement, minus the aliases that never got a type -- for ALL inputs *)
Theorem fragment_pairs : forall ls, exists fr0,
  frag_loop frag_empty ls = Ok fr0 /\ length (f_stats fr0) = length (f_lines fr0) /\
  parse_fragment ls = Ok (clear_aligned fr0).
Proof.
  intros ls. destruct (frag_loop_no_fault ls frag_empty) as [fr E]. exists fr.
  split; [exact E|]. split; [exact (frag_loop_aligned ls _ _ E eq_refl)|]. apply parse_fragment_clear. exact E.
Qed.
