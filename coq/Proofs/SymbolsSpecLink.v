(* C19 - link between the reference declaration list of Spec/SymbolSpec.v and the outline, for the top-level locals:
   every DLocal declaration of `decls_spec` is a top-level `local` / `local function` declaration of the main block
   (a member of `top_local_decls`), hence (C19_outline_complete_partial, C19_range_contains_decl) has an entry of the
   right kind whose range contains its declaring identifier.  No hypothesis on the program. *)
From Coq Require Import List NArith ZArith Bool Lia.
From LH Require Import Base.Bytes Base.Res Model.Lexer Model.Ast Model.Parser Model.LuaFront Model.Symbols Spec.SymbolSpec
  Proofs.SymbolsRange Proofs.SymbolsLocs Proofs.SymbolsMerge Proofs.SymbolsSig Proofs.SymbolsGlobals Proofs.SymbolsLexical
  Proofs.SymbolsJudge Proofs.SymbolsWitness Proofs.SymbolsOutline Proofs.SymbolsComplete.
Import ListNotations.

Definition is_olocal (o : occ) : bool := match o with OLocal _ _ => true | _ => false end.
Definition noL (os : list occ) : Prop := Forall (fun o => is_olocal o = false) os.

Lemma noL_nil : noL [].
Proof. constructor. Qed.

Lemma noL_app : forall a b, noL a -> noL b -> noL (a ++ b).
Proof. intros a b Ha Hb. apply Forall_app. split; assumption. Qed.

Lemma noL_iter : forall {A} (f : A -> list occ) l, (forall a, In a l -> noL (f a)) -> noL (iter_occ f l).
Proof.
  intros A f l. induction l as [|a l IH]; intros H; cbn [iter_occ]; [apply noL_nil|].
  apply noL_app; [apply H; left; reflexivity | apply IH; intros x Hx; apply H; right; exact Hx].
Qed.

Lemma noL_ctor_funcs : forall n b ks vs, noL (ctor_funcs n b ks vs).
Proof.
  induction n as [|n IH]; intros b ks vs; [apply noL_nil|]. cbn [ctor_funcs].
  destruct ks as [|k ks]; [apply noL_nil|]. destruct vs as [|v vs]; [destruct k as [[]|]; apply noL_nil|].
  destruct k as [ke|]; [|apply IH].
  destruct ke; try apply IH.
  apply noL_app; [destruct (is_efunc v); [constructor; [reflexivity | constructor] | apply noL_nil]|].
  apply noL_app; [destruct v; try apply noL_nil; apply IH | apply IH].
Qed.

Lemma noL_ctor_of : forall n b v, noL (ctor_of n b v).
Proof.
  intros n b v. unfold ctor_of. destruct v as [e|]; [|apply noL_nil]. destruct e; try apply noL_nil. apply noL_ctor_funcs.
Qed.

Lemma noL_member_occ : forall n b ks v, noL (member_occ n b ks v).
Proof.
  intros n b ks v. unfold member_occ. destruct (rev ks) as [|[k l] rpre]; [apply noL_nil|].
  apply noL_app; [|apply noL_ctor_of]. destruct v as [fv|]; [|apply noL_nil].
  destruct (is_efunc fv); [constructor; [reflexivity | constructor] | apply noL_nil].
Qed.

Lemma noL_local_fn_occs : forall nms ls es, noL (local_fn_occs nms ls es).
Proof.
  induction nms as [|nm nms IH]; intros ls es; [apply noL_nil|]. destruct ls as [|l ls]; [apply noL_nil|].
  destruct es as [|e es]; [apply noL_nil|]. cbn [local_fn_occs]. apply noL_app; [|apply IH].
  destruct (is_efunc e); [constructor; [reflexivity | constructor] | apply noL_nil].
Qed.

(* the occurrences of one assignment target (the body of the SAssign case of occ_stats) *)
Lemma noL_target : forall n env t (v : option exp),
    (forall env e, noL (occ_exp n env e)) ->
    noL (match target_path t with
         | Some (nm, []) =>
           match t, lookup nm env with
           | EName _ l, None => OGlobal nm l :: ctor_of n nm v
           | _, Some Top => ctor_of n nm v
           | _, _ => []
           end
         | Some (b, (k1, l1) :: ks) =>
           if beq_bytes b SymbolSpec.s_G && match lookup b env with None => true | Some _ => false end then
             match ks with
             | [] => OGlobal k1 l1 :: ctor_of n k1 v
             | _ => member_occ n k1 ks v
             end
           else
             match lookup b env with
             | Some Inner => []
             | _ => member_occ n b ((k1, l1) :: ks) v
             end
         | None => match t with EIndex p k _ => occ_exp n env p ++ occ_exp n env k | _ => [] end
         end).
Proof.
  intros n env t v IHe. destruct (target_path t) as [[nm [|[k1 l1] ks]]|].
  - destruct t; destruct (lookup nm env) as [[|]|]; try apply noL_nil; try apply noL_ctor_of.
    constructor; [reflexivity | apply noL_ctor_of].
  - destruct (_ && _).
    + destruct ks; [constructor; [reflexivity | apply noL_ctor_of] | apply noL_member_occ].
    + destruct (lookup nm env) as [[|]|]; try apply noL_nil; apply noL_member_occ.
  - destruct t; try apply noL_nil. apply noL_app; apply IHe.
Qed.

Lemma noL_in : forall os o, noL os -> In o os -> is_olocal o = true -> False.
Proof.
  intros os o H Hin Ho. unfold noL in H. rewrite Forall_forall in H. rewrite (H _ Hin) in Ho. discriminate.
Qed.

(* nothing below the main block declares a top-level local *)
Definition noL_exp (n : nat) : Prop := forall env e, noL (occ_exp n env e).
Definition noL_stats (n : nat) : Prop := forall env ss ret, noL (occ_stats n false env ss ret).
Definition noL_block (n : nat) : Prop := forall env b, noL (occ_block n false env b).

Ltac noL_tac :=
  repeat first [ apply noL_nil | apply noL_ctor_of | apply noL_app
               | match goal with |- noL (_ :: _) => constructor; [reflexivity|] end ].

Lemma noL_all : forall n, noL_exp n /\ noL_stats n /\ noL_block n.
Proof.
  induction n as [|n [IHe [IHs IHb]]].
  - repeat split; repeat intro; cbn; apply noL_nil.
  - assert (He : noL_exp (S n)).
    { intros env e. cbn [occ_exp]. destruct e; try apply noL_nil.
      - apply IHe.
      - apply noL_app; apply IHe.
      - apply noL_app; apply noL_iter; intros a _; [destruct a; [apply IHe | apply noL_nil] | apply IHe].
      - apply IHb.
      - apply IHe.
      - apply noL_app; apply IHe.
      - apply noL_app; [apply IHe | apply noL_iter; intros a _; apply IHe]. }
    split; [exact He|]. split.
    + intros env ss ret. cbn [occ_stats]. destruct ss as [|st ss].
      * destruct ret as [es|]; [apply noL_iter; intros a _; apply IHe | apply noL_nil].
      * destruct st as [|ln ll|gn gl|db dl|ce|ies ibs il|we wb wl|rb re rl|fn fvl fe1 fe2 fe3 fb fl|gns gls ges gb gl2|avars aes al|lnames llocs lattrs les ll2|fname fnl ff fl2].
        -- apply IHs.
        -- apply IHs.
        -- apply IHs.
        -- apply noL_app; [apply IHb | apply IHs].
        -- apply noL_app; [apply IHe | apply IHs].
        -- apply noL_app; [apply noL_iter; intros a _; apply IHe|].
           apply noL_app; [apply noL_iter; intros a _; apply IHb | apply IHs].
        -- apply noL_app; [apply IHe|]. apply noL_app; [apply IHb | apply IHs].
        -- apply noL_app; [|apply IHs]. destruct rb as [bs0 r0 l0]. apply IHb.
        -- repeat (apply noL_app; [first [apply IHe | apply IHb]|]). apply IHs.
        -- apply noL_app; [apply noL_iter; intros a _; apply IHe|]. apply noL_app; [apply IHb | apply IHs].
        -- (* SAssign *)
           apply noL_app; [apply noL_iter; intros a _; apply IHe|]. apply noL_app; [|apply IHs].
           apply noL_iter. intros [t v] _. cbn [fst snd]. apply noL_target. exact IHe.
        -- (* SLocal *)
           apply noL_app; [apply noL_iter; intros a _; apply IHe|]. cbn [app].
           apply noL_app; [|apply IHs]. apply noL_app; [apply noL_local_fn_occs | apply noL_nil].
        -- (* SLocalFunc *)
           cbn [app]. constructor; [reflexivity|]. apply noL_app; [apply IHe | apply IHs].
    + intros env b. cbn [occ_block]. destruct b as [ss ret l].
      (* occ_block (S n) = occ_stats n *)
      apply IHs.
Qed.

(* the OLocal occurrences of one statement of the main block *)
Definition olocals_of (st : stat) : list occ :=
  match st with
  | SLocal nms ls _ _ _ => map (fun nl => OLocal (fst nl) (snd nl)) (combine nms ls)
  | SLocalFunc nm nl _ _ => [OLocal nm nl]
  | _ => []
  end.

Lemma in_app_noL : forall o X Y, In o (X ++ Y) -> is_olocal o = true -> noL X -> In o Y.
Proof.
  intros o X Y Hin Ho HX. apply in_app_or in Hin. destruct Hin as [Hin|Hin]; [|exact Hin].
  exfalso. eapply noL_in; eauto.
Qed.

Lemma top_olocals : forall n env ss ret o,
    In o (occ_stats n true env ss ret) -> is_olocal o = true -> exists st, In st ss /\ In o (olocals_of st).
Proof.
  induction n as [|n IH]; intros env ss ret o Hin Ho; [destruct Hin|].
  destruct (noL_all n) as [IHe [IHs IHb]].
  cbn [occ_stats] in Hin. destruct ss as [|st ss].
  - exfalso. destruct ret as [es|]; [|destruct Hin].
    eapply noL_in; [|exact Hin|exact Ho]. apply noL_iter. intros a _. apply IHe.
  - assert (Htail : forall env', In o (occ_stats n true env' ss ret) -> exists st0, In st0 (st :: ss) /\ In o (olocals_of st0)).
    { intros env' H. destruct (IH _ _ _ _ H Ho) as [st0 [H1 H2]]. exists st0. split; [right; exact H1 | exact H2]. }
    destruct st as [|ln ll|gn gl|db dl|ce|ies ibs il|we wb wl|rb re rl|fn fvl fe1 fe2 fe3 fb fl|gns gls ges gb gl2|avars aes al|lnames llocs lattrs les ll2|fname fnl ff fl2].
    + eapply Htail; exact Hin.
    + eapply Htail; exact Hin.
    + eapply Htail; exact Hin.
    + apply in_app_noL in Hin; [|exact Ho|apply IHb]. eapply Htail; exact Hin.
    + apply in_app_noL in Hin; [|exact Ho|apply IHe]. eapply Htail; exact Hin.
    + apply in_app_noL in Hin; [|exact Ho|apply noL_iter; intros a _; apply IHe].
      apply in_app_noL in Hin; [|exact Ho|apply noL_iter; intros a _; apply IHb]. eapply Htail; exact Hin.
    + apply in_app_noL in Hin; [|exact Ho|apply IHe].
      apply in_app_noL in Hin; [|exact Ho|apply IHb]. eapply Htail; exact Hin.
    + apply in_app_noL in Hin; [|exact Ho|destruct rb as [bs0 r0 l0]; apply IHb]. eapply Htail; exact Hin.
    + apply in_app_noL in Hin; [|exact Ho|apply IHe].
      apply in_app_noL in Hin; [|exact Ho|apply IHe].
      apply in_app_noL in Hin; [|exact Ho|apply IHe].
      apply in_app_noL in Hin; [|exact Ho|apply IHb]. eapply Htail; exact Hin.
    + apply in_app_noL in Hin; [|exact Ho|apply noL_iter; intros a _; apply IHe].
      apply in_app_noL in Hin; [|exact Ho|apply IHb]. eapply Htail; exact Hin.
    + (* SAssign: as in noL_all *)
      apply in_app_noL in Hin; [|exact Ho|apply noL_iter; intros a _; apply IHe].
      apply in_app_noL in Hin; [eapply Htail; exact Hin|exact Ho|].
      apply noL_iter. intros [t v] _. cbn [fst snd]. apply noL_target. exact IHe.
    + (* SLocal *)
      apply in_app_noL in Hin; [|exact Ho|apply noL_iter; intros a _; apply IHe].
      apply in_app_or in Hin. destruct Hin as [Hin|Hin].
      * exists (SLocal lnames llocs lattrs les ll2). split; [left; reflexivity | exact Hin].
      * apply in_app_noL in Hin; [eapply Htail; exact Hin|exact Ho|].
        apply noL_app; [apply noL_local_fn_occs|].
        destruct lnames as [|b0 [|? ?]]; try apply noL_nil. destruct les as [|v0 [|? ?]]; try apply noL_nil. apply noL_ctor_of.
    + (* SLocalFunc *)
      cbn [app] in Hin. destruct Hin as [Hin|Hin].
      * exists (SLocalFunc fname fnl ff fl2). split; [left; reflexivity | left; exact Hin].
      * destruct Hin as [Hin|Hin]; [subst o; discriminate|].
        apply in_app_noL in Hin; [|exact Ho|apply IHe]. eapply Htail; exact Hin.
Qed.

(* an OLocal occurrence of a statement is one of its `local` declarations *)
Lemma olocal_local_sigs : forall nms ls es n l,
    In (OLocal n l) (map (fun nl => OLocal (fst nl) (snd nl)) (combine nms ls)) ->
    exists ofl, In (n, (l, false, ofl)) (local_sigs nms ls es).
Proof.
  induction nms as [|nm nms IH]; intros ls es n l H; [destruct H|].
  destruct ls as [|l0 ls]; [destruct H|]. cbn [combine map fst snd] in H. cbn [local_sigs].
  destruct H as [H|H].
  - injection H as <- <-. eexists. left. reflexivity.
  - destruct (IH ls (tl es) n l H) as [ofl Hofl]. exists ofl. right. exact Hofl.
Qed.

Lemma olocals_decl_locals : forall st n l, In (OLocal n l) (olocals_of st) -> exists ofl, In (n, (l, false, ofl)) (decl_locals st).
Proof.
  intros st n l H. destruct st; cbn [olocals_of] in H; try destruct H.
  - cbn [decl_locals]. apply olocal_local_sigs. exact H.
  - injection H as <- <-. cbn [decl_locals]. eexists. left. reflexivity.
  - destruct H.
Qed.

Theorem olocal_top_local_decls : forall fuel b n l,
    In (OLocal n l) (occs fuel b) -> exists ofl, In (l, false, ofl) (top_local_decls b n).
Proof.
  intros fuel b n l H. unfold occs in H. destruct fuel as [|fuel]; [destruct H|]. cbn [occ_block] in H.
  destruct b as [ss ret bl]. destruct (top_olocals _ _ _ _ _ H eq_refl) as [st [Hst Ho]].
  destruct (olocals_decl_locals _ _ _ Ho) as [ofl Hd]. exists ofl.
  unfold top_local_decls, decls_named, top_locals. cbn [block_stats].
  apply in_map_iff. exists (n, (l, false, ofl)). split; [reflexivity|]. apply filter_In. split.
  - apply in_flat_map. exists st. auto.
  - cbn [fst]. apply bb_refl.
Qed.

(* the DLocal declarations of the reference list are exactly built from OLocal occurrences *)
Lemma add_cand_local : forall kd key l ds d,
    kd <> DLocal -> In d (add_cand kd key l ds) -> d_kind d = DLocal -> In d ds.
Proof.
  intros kd key l ds. induction ds as [|d0 ds IH]; intros d Hkd Hin Hk; cbn [add_cand] in Hin.
  - destruct Hin as [<-|[]]. cbn in Hk. contradiction.
  - destruct (_ && beq_bytes (d_key d0) key).
    + destruct Hin as [<-|Hin]; [cbn in Hk; contradiction | right; exact Hin].
    + destruct Hin as [<-|Hin]; [left; reflexivity | right; apply IH; assumption].
Qed.

Lemma decls_of_local : forall os d,
    In d (decls_of os) -> d_kind d = DLocal -> exists n l, d = mkD DLocal n [l] /\ In (OLocal n l) os.
Proof.
  intros os d. unfold decls_of.
  assert (H : forall ds, (forall d0, In d0 ds -> d_kind d0 = DLocal -> exists n l, d0 = mkD DLocal n [l] /\ In (OLocal n l) os) ->
                         forall os', (forall o, In o os' -> In o os) ->
                         In d (fold_left (fun ds o => match o with
                                                       | OLocal n l => ds ++ [mkD DLocal n [l]]
                                                       | OGlobal n l => add_cand DGlobal n l ds
                                                       | OFunc b k l => add_cand DFunc (member_key b k) l ds
                                                       | OLocalFn n l => ds ++ [mkD DLocalFn n [l]]
                                                       end) os' ds) ->
                         d_kind d = DLocal -> exists n l, d = mkD DLocal n [l] /\ In (OLocal n l) os).
  { intros ds Hds os'. revert ds Hds. induction os' as [|o os' IH]; intros ds Hds Hsub Hin Hk; cbn [fold_left] in Hin.
    - apply Hds; assumption.
    - eapply IH; [| intros o' Ho'; apply Hsub; right; exact Ho' | exact Hin | exact Hk].
      intros d0 Hd0 Hk0. destruct o as [n l|n l|b k l|n l].
      + apply in_app_or in Hd0. destruct Hd0 as [Hd0|[<-|[]]]; [apply Hds; assumption|].
        exists n, l. split; [reflexivity | apply Hsub; left; reflexivity].
      + apply Hds; [|exact Hk0]. eapply add_cand_local; [|exact Hd0|exact Hk0]. discriminate.
      + apply Hds; [|exact Hk0]. eapply add_cand_local; [|exact Hd0|exact Hk0]. discriminate.
      + apply in_app_or in Hd0. destruct Hd0 as [Hd0|[<-|[]]]; [apply Hds; assumption|]. cbn in Hk0. discriminate. }
  intros Hin Hk. eapply (H [] ); [intros d0 []| intros o Ho; exact Ho | exact Hin | exact Hk].
Qed.

(* every top-level local of the reference list has an entry of the right kind whose range contains the declaring
   identifier *)
Theorem outline_covers_locals : forall bs b ss d,
    parse_bytes no_gbk classify_tok bs = Ok (PR b [] []) -> outline_of_bytes fx_all bs = Some ss ->
    In d (decls_spec (fuel_of_bytes bs) b) -> d_kind d = DLocal ->
    exists e l, In e (entries_of ss) /\ entry_for d e = true /\ d_locs d = [l] /\ contains (e_range e) l = true.
Proof.
  intros bs b ss d Hp Ho Hd Hk. unfold decls_spec in Hd.
  destruct (decls_of_local _ _ Hd Hk) as [n [l [-> Hocc]]].
  destruct (olocal_top_local_decls _ _ _ _ Hocc) as [ofl Htop].
  destruct (outline_complete_bytes bs b ss Hp Ho) as [H1 _].
  destruct (H1 n l ofl Htop) as [s [Hin [Hl [_ [Hkey [Hdecl _]]]]]].
  destruct (outline_contains_decl bs ss s Ho Hin) as [Hc _].
  exists (mkE (s_local s) false (s_key s) (s_loc s)), l. split; [|split; [|split]].
  - unfold entries_of. apply in_flat_map. exists s. split; [exact Hin | left; reflexivity].
  - unfold entry_for. cbn [e_key d_key d_kind e_local e_child]. rewrite Hkey, Hl, bb_refl. reflexivity.
  - reflexivity.
  - cbn [e_range]. rewrite <- Hdecl. exact Hc.
Qed.
