(* C13 - from the layout of a file (list of gaps with their line numbers) to the attachment sentence:
   the entries recorded for the gaps have pairwise distinct positive keys (attach_guard), and reading them with
   spec_attach = reading the table of comment lines with spec_comment (trailing comment, else the maximal block of
   comment-only lines ending on the line above). Pure list reasoning; no lexer here. *)
From Coq Require Import List NArith ZArith Bool Lia ZifyN ZifyNat ZifyBool.
From LH Require Import Base.Bytes Base.Res Model.Lexer Spec.CommentSpec.
Import ListNotations.
Local Open Scope Z_scope.

(* ------------------------------------------------------------------ strictly increasing lists of line numbers *)
Fixpoint zinc (lo : Z) (l : list Z) : Prop :=
  match l with [] => True | x :: t => lo < x /\ zinc x t end.

Lemma zinc_lt : forall l lo x, zinc lo l -> In x l -> lo < x.
Proof.
  induction l as [|y l IH]; intros lo x H Hin; [destruct Hin|].
  cbn [zinc] in H. destruct H as [H1 H2]. destruct Hin as [->|Hin]; [exact H1|].
  specialize (IH y x H2 Hin). lia.
Qed.

Lemma zinc_weaken : forall l lo lo', lo' <= lo -> zinc lo l -> zinc lo' l.
Proof. intros [|y l] lo lo' Hle H; [exact I|]. cbn [zinc] in *. destruct H as [H1 H2]. split; [lia|exact H2]. Qed.

Lemma zinc_app : forall a b lo mid, zinc lo a -> (forall x, In x a -> x <= mid) -> lo <= mid -> zinc mid b -> zinc lo (a ++ b).
Proof.
  induction a as [|y a IH]; intros b lo mid Ha Hle Hlm Hb.
  - cbn [app]. apply (zinc_weaken b mid lo Hlm Hb).
  - cbn [app zinc] in *. destruct Ha as [H1 H2]. split; [exact H1|].
    apply (IH b y mid H2); [intros x Hx; apply Hle; right; exact Hx| apply Hle; left; reflexivity | exact Hb].
Qed.

Lemma zinc_app_inv : forall a b lo, zinc lo (a ++ b) ->
  zinc lo a /\ zinc lo b /\ (forall x y, In x a -> In y b -> x < y).
Proof.
  induction a as [|z a IH]; intros b lo H.
  - cbn [app] in H. split; [exact I|]. split; [exact H|]. intros x y [].
  - cbn [app zinc] in H. destruct H as [H1 H2]. destruct (IH b z H2) as [Ha [Hb Hxy]].
    split; [split; assumption|]. split; [apply (zinc_weaken b z lo); [lia|exact Hb]|].
    intros x y [->|Hx] Hy; [apply (zinc_lt b x y Hb Hy)|apply Hxy; assumption].
Qed.

Definition lines (cs : list cline) : list Z := map cl_line cs.
Definition line_is (K : Z) (c : cline) : bool := (cl_line c =? K).
Definition lookup (cs : list cline) (K : Z) : option (list N) := option_map cl_str (find (line_is K) cs).

Lemma find_line_none : forall cs K, ~ In K (lines cs) -> find (line_is K) cs = None.
Proof.
  induction cs as [|c cs IH]; intros K H; [reflexivity|].
  cbn [find]. unfold line_is at 1. destruct (cl_line c =? K) eqn:E.
  - exfalso. apply H. left. lia.
  - apply IH. intros Hin. apply H. right. exact Hin.
Qed.

Lemma find_line_some : forall cs lo c, zinc lo (lines cs) -> In c cs -> find (line_is (cl_line c)) cs = Some c.
Proof.
  induction cs as [|d cs IH]; intros lo c H Hin; [destruct Hin|].
  cbn [lines map zinc] in H. destruct H as [H1 H2]. cbn [find]. unfold line_is at 1.
  destruct Hin as [->|Hin]; [rewrite Z.eqb_refl; reflexivity|].
  assert (cl_line d < cl_line c) by (apply (zinc_lt (lines cs)); [exact H2|apply in_map; exact Hin]).
  destruct (cl_line d =? cl_line c) eqn:E; [lia|]. apply (IH (cl_line d)); assumption.
Qed.

Lemma find_line_in : forall cs K c, find (line_is K) cs = Some c -> In c cs /\ cl_line c = K.
Proof. intros cs K c H. apply find_some in H. destruct H as [H1 H2]. unfold line_is in H2. split; [exact H1|lia]. Qed.

(* ------------------------------------------------------------------ the blocks computed by `runs` *)
Fixpoint consec (r : list cline) : Prop :=
  match r with
  | a :: t => match t with b :: _ => cl_line b = cl_line a + 1 /\ consec t | [] => True end
  | [] => True
  end.

Definition dfl : cline := mkCline [] 0 0.
Definition lastl (r : list cline) : Z := cl_line (last r dfl).
Definition hdl (r : list cline) : Z := cl_line (hd dfl r).

Lemma last_snoc : forall (A : Type) (l : list A) (x d : A), last (l ++ [x]) d = x.
Proof.
  intros A l x d. induction l as [|a l IH]; [reflexivity|].
  cbn [app]. destruct (l ++ [x]) eqn:E; [destruct l; discriminate E|]. cbn [last]. exact IH.
Qed.

Lemma consec_snoc : forall r c, consec r -> (r <> [] -> cl_line c = lastl r + 1) -> consec (r ++ [c]).
Proof.
  induction r as [|a r IH]; intros c Hr Hl; [exact I|].
  destruct r as [|b r].
  - cbn [app consec]. split; [|exact I]. apply Hl. discriminate.
  - cbn [consec] in Hr. destruct Hr as [H1 H2].
    change ((a :: b :: r) ++ [c]) with (a :: ((b :: r) ++ [c])).
    change (consec (a :: (b :: r) ++ [c])) with (cl_line b = cl_line a + 1 /\ consec ((b :: r) ++ [c])).
    split; [exact H1|]. apply IH; [exact H2|]. intros _. apply Hl. discriminate.
Qed.

(* concatenation of the blocks = the lines *)
Lemma runs_concat : forall cs cur last, concat (runs cs cur last) = cur ++ cs.
Proof.
  induction cs as [|c t IH]; intros cur last.
  - cbn [runs]. destruct cur; cbn [flush_run concat]; rewrite ?app_nil_r; reflexivity.
  - cbn [runs]. destruct cur as [|c0 cur]; [rewrite IH; reflexivity|].
    destruct (cl_line c =? last + 1).
    + rewrite IH. rewrite <- app_assoc. reflexivity.
    + cbn [concat]. rewrite IH. reflexivity.
Qed.

Lemma runs_nonempty : forall cs cur last r, In r (runs cs cur last) -> r <> [].
Proof.
  induction cs as [|c t IH]; intros cur last r Hin.
  - cbn [runs] in Hin. destruct cur; cbn [flush_run] in Hin; [destruct Hin|]. destruct Hin as [<-|[]]. discriminate.
  - cbn [runs] in Hin. destruct cur as [|c0 cur]; [apply (IH _ _ _ Hin)|].
    destruct (cl_line c =? last + 1); [apply (IH _ _ _ Hin)|].
    destruct Hin as [<-|Hin]; [discriminate|apply (IH _ _ _ Hin)].
Qed.

(* every block is a run of consecutive lines that cannot be extended upwards *)
Lemma runs_blocks : forall cs cur last lo,
  zinc lo (lines (cur ++ cs)) -> consec cur -> (cur <> [] -> last = lastl cur) ->
  forall r, In r (runs cs cur last) -> consec r /\ ~ In (hdl r - 1) (lines (cur ++ cs)).
Proof.
  induction cs as [|c t IH]; intros cur last lo Hz Hc Hl r Hin.
  - cbn [runs] in Hin. destruct cur as [|c0 cur]; cbn [flush_run] in Hin; [destruct Hin|]. destruct Hin as [<-|[]].
    split; [exact Hc|]. rewrite app_nil_r in *. intros Hx.
    cbn [lines map zinc] in Hz. destruct Hz as [Hz1 Hz2]. unfold hdl in Hx. cbn [hd lines map] in Hx.
    destruct Hx as [Hx|Hx]; [lia|]. apply (zinc_lt _ _ _ Hz2) in Hx. lia.
  - cbn [runs] in Hin. destruct cur as [|c0 cur].
    + cbn [app] in *. apply (IH [c] (cl_line c) lo); [exact Hz|exact I|intros _; reflexivity|exact Hin].
    + destruct (cl_line c =? last + 1) eqn:E.
      * replace ((c0 :: cur) ++ c :: t) with (((c0 :: cur) ++ [c]) ++ t) in * by (rewrite <- app_assoc; reflexivity).
        apply (IH ((c0 :: cur) ++ [c]) (cl_line c) lo); [exact Hz| |intros _; unfold lastl; rewrite last_snoc; reflexivity|exact Hin].
        apply consec_snoc; [exact Hc|]. intros Hne. rewrite <- (Hl Hne). lia.
      * unfold lines in Hz. rewrite map_app in Hz. apply zinc_app_inv in Hz. destruct Hz as [Hz1 [Hz2 Hz3]].
        assert (Hlast : last = lastl (c0 :: cur)) by (apply Hl; discriminate).
        assert (Hlastin : In last (map cl_line (c0 :: cur))).
        { rewrite Hlast. unfold lastl. apply in_map.
          destruct (@exists_last _ (c0 :: cur)) as [l' [x Hx]]; [discriminate|]. rewrite Hx, last_snoc. apply in_or_app. right. left. reflexivity. }
        assert (Hcur_le : forall x, In x (map cl_line (c0 :: cur)) -> x <= last).
        { intros x Hx. rewrite Hlast. unfold lastl.
          destruct (@exists_last _ (c0 :: cur)) as [l' [y Hy]]; [discriminate|]. rewrite Hy in *. rewrite last_snoc.
          rewrite map_app in Hx. apply in_app_or in Hx. destruct Hx as [Hx|Hx].
          - rewrite map_app in Hz1. apply zinc_app_inv in Hz1. destruct Hz1 as [_ [_ H3]].
            specialize (H3 x (cl_line y) Hx (or_introl eq_refl)). lia.
          - destruct Hx as [<-|[]]. lia. }
        assert (Hc_gt : last + 1 < cl_line c).
        { specialize (Hz3 last (cl_line c) Hlastin (or_introl eq_refl)). lia. }
        destruct Hin as [<-|Hin].
        -- split; [exact Hc|]. intros Hx. unfold lines in Hx. rewrite map_app in Hx. apply in_app_or in Hx. destruct Hx as [Hx|Hx].
           ++ cbn [map zinc] in Hz1. destruct Hz1 as [Hz1 Hz1']. unfold hdl in Hx. cbn [hd map] in Hx.
              destruct Hx as [Hx|Hx]; [lia|]. apply (zinc_lt _ _ _ Hz1') in Hx. lia.
           ++ assert (cl_line c0 <= last) by (apply Hcur_le; left; reflexivity).
              assert (cl_line c <= hdl (c0 :: cur) - 1).
              { destruct Hx as [Hx|Hx]; [lia|]. cbn [map zinc] in Hz2. destruct Hz2 as [_ Hz2]. apply (zinc_lt _ _ _ Hz2) in Hx. lia. }
              unfold hdl in *. cbn [hd] in *. lia.
        -- destruct (IH [c] (cl_line c) lo Hz2 I (fun _ => eq_refl) r Hin) as [H1 H2]. split; [exact H1|].
           intros Hx. unfold lines in Hx. rewrite map_app in Hx. apply in_app_or in Hx. destruct Hx as [Hx|Hx]; [|apply H2; exact Hx].
           apply Hcur_le in Hx.
           (* hd r is a line of c :: t, hence >= cl_line c *)
           assert (Hr : In r (runs t [c] (cl_line c))) by exact Hin.
           assert (Hne := runs_nonempty _ _ _ _ Hr).
           assert (Hsub : In (hd dfl r) ([c] ++ t)).
           { rewrite <- (runs_concat t [c] (cl_line c)). apply in_concat. exists r. split; [exact Hr|].
             destruct r; [congruence|left; reflexivity]. }
           cbn [app] in Hsub. assert (cl_line c <= hdl r).
           { unfold hdl. destruct Hsub as [<-|Hs]; [lia|]. cbn [map zinc] in Hz2. destruct Hz2 as [_ Hz2].
             assert (In (cl_line (hd dfl r)) (map cl_line t)) by (apply in_map; exact Hs).
             apply (zinc_lt _ _ _ Hz2) in H. lia. }
           lia.
Qed.

(* ------------------------------------------------------------------ walking upwards from a line *)
Fixpoint bu (lk : Z -> option (list N)) (fuel : nat) (L : Z) : list (list N) :=
  match fuel with
  | O => []
  | S f => match lk L with Some t => bu lk f (L - 1) ++ [t] | None => [] end
  end.

Lemma block_up_bu : forall T lk, (forall K, pure_at T K = lk K) -> forall fuel L, block_up T fuel L = bu lk fuel L.
Proof.
  intros T lk H. induction fuel as [|f IH]; intros L; [reflexivity|].
  cbn [block_up bu]. rewrite H. destruct (lk L); [rewrite IH; reflexivity|reflexivity].
Qed.

Lemma bu_none : forall lk fuel L, lk L = None -> bu lk fuel L = [].
Proof. intros lk [|f] L H; [reflexivity|]. cbn [bu]. rewrite H. reflexivity. Qed.

Lemma consec_snoc_inv : forall r c, consec (r ++ [c]) -> consec r /\ (r <> [] -> cl_line c = lastl r + 1).
Proof.
  induction r as [|a r IH]; intros c H; [split; [exact I|congruence]|].
  destruct r as [|b r].
  - cbn [app consec] in H. destruct H as [H _]. split; [exact I|]. intros _. exact H.
  - change ((a :: b :: r) ++ [c]) with (a :: b :: (r ++ [c])) in H. cbn [consec] in H. destruct H as [H1 H2].
    change (match r ++ [c] with | b0 :: _ => cl_line b0 = cl_line b + 1 /\ consec (r ++ [c]) | [] => True end)
      with (consec ((b :: r) ++ [c])) in H2.
    destruct (IH c H2) as [H3 H4]. split.
    + cbn [consec]. split; [exact H1|exact H3].
    + intros _. unfold lastl in *. change (last (a :: b :: r) dfl) with (last (b :: r) dfl). apply H4. discriminate.
Qed.

(* walking up from the last line of a block that cannot be extended upwards yields the block *)
Lemma bu_run : forall lk r fuel,
  r <> [] -> consec r -> (forall c, In c r -> lk (cl_line c) = Some (cl_str c)) -> lk (hdl r - 1) = None ->
  (length r <= fuel)%nat -> bu lk fuel (lastl r) = map cl_str r.
Proof.
  intros lk r. induction r as [|c r IH] using rev_ind; intros fuel Hne Hc Hlk Hhd Hf; [congruence|].
  rewrite app_length in Hf. cbn [length] in Hf. destruct fuel as [|f]; [lia|].
  unfold lastl. rewrite last_snoc. cbn [bu]. rewrite (Hlk c) by (apply in_or_app; right; left; reflexivity).
  rewrite map_app. cbn [map]. f_equal.
  apply consec_snoc_inv in Hc. destruct Hc as [Hc1 Hc2].
  destruct r as [|a r].
  - cbn [map]. apply bu_none. unfold hdl in Hhd. cbn [app hd] in Hhd. exact Hhd.
  - assert (Hl : cl_line c = lastl (a :: r) + 1) by (apply Hc2; discriminate).
    replace (cl_line c - 1) with (lastl (a :: r)) by lia.
    apply IH; [discriminate|exact Hc1| |exact Hhd|lia].
    intros d Hd. apply Hlk. apply in_or_app. left. exact Hd.
Qed.

(* inside a block, every line but the last has its successor in the block *)
Lemma consec_succ : forall r c, consec r -> In c r -> cl_line c <> lastl r -> exists c', In c' r /\ cl_line c' = cl_line c + 1.
Proof.
  induction r as [|a r IH]; intros c Hc Hin Hne; [destruct Hin|].
  destruct r as [|b r].
  - destruct Hin as [<-|[]]. exfalso. apply Hne. reflexivity.
  - cbn [consec] in Hc. destruct Hc as [H1 H2]. destruct Hin as [<-|Hin].
    + exists b. split; [right; left; reflexivity|exact H1].
    + destruct (IH c H2 Hin) as [c' [Hc' He]]; [exact Hne|]. exists c'. split; [right; exact Hc'|exact He].
Qed.

Lemma entry_text_block : forall r, entry_text (block_entry r) = join_nl_texts (map cl_str r).
Proof. reflexivity. Qed.

(* the core: reading the blocks of a strictly increasing list of comment lines = walking up the lines *)
Theorem runs_lookup : forall cs lo K fuel,
  zinc lo (lines cs) -> lookup cs (K + 1) = None -> (length cs <= fuel)%nat ->
  match find (is_block_ending K) (map block_entry (runs cs [] 0)) with Some e => entry_text e | None => [] end
  = join_nl_texts (bu (lookup cs) fuel K).
Proof.
  intros cs lo K fuel Hz HK Hf.
  assert (Hblocks := runs_blocks cs [] 0 lo Hz I (fun H => False_ind _ (H eq_refl))). cbn [app] in Hblocks.
  assert (Hcat := runs_concat cs [] 0). cbn [app] in Hcat.
  assert (Hlk : forall c, In c cs -> lookup cs (cl_line c) = Some (cl_str c)).
  { intros c Hc. unfold lookup. rewrite (find_line_some cs lo c Hz Hc). reflexivity. }
  destruct (find (is_block_ending K) (map block_entry (runs cs [] 0))) as [e|] eqn:E.
  - apply find_some in E. destruct E as [Hin Hk]. apply in_map_iff in Hin. destruct Hin as [r [<- Hr]].
    unfold is_block_ending, block_entry in Hk. cbn [fst snd ci_head andb] in Hk. apply Z.eqb_eq in Hk.
    rewrite entry_text_block. f_equal. rewrite <- Hk. change (cl_line (last r (mkCline [] 0 0))) with (lastl r).
    destruct (Hblocks r Hr) as [Hc Hhd].
    assert (Hsub : forall c, In c r -> In c cs).
    { intros c Hc'. rewrite <- Hcat. apply in_concat. exists r. split; assumption. }
    symmetry. apply bu_run.
    + apply (runs_nonempty _ _ _ _ Hr).
    + exact Hc.
    + intros c Hc'. apply Hlk. apply Hsub. exact Hc'.
    + unfold lookup. rewrite find_line_none; [reflexivity|exact Hhd].
    + assert (Hl : (length (concat (runs cs [] 0)) <= fuel)%nat) by (rewrite Hcat; exact Hf).
      clear - Hr Hl. revert Hr Hl. generalize (runs cs [] 0). intros rs. induction rs as [|x rs IH]; intros Hr Hl; [destruct Hr|].
      cbn [concat] in Hl. rewrite app_length in Hl. destruct Hr as [->|Hr]; [lia|apply IH; [exact Hr|lia]].
  - rewrite bu_none; [reflexivity|].
    unfold lookup. destruct (find (line_is K) cs) as [c|] eqn:Ec; [|reflexivity]. exfalso.
    apply find_line_in in Ec. destruct Ec as [Hc HcK].
    rewrite <- Hcat in Hc. apply in_concat in Hc. destruct Hc as [r [Hr Hcr]].
    assert (Hnb := find_none _ _ E (block_entry r) (in_map _ _ _ Hr)).
    unfold is_block_ending, block_entry in Hnb. cbn [fst snd ci_head andb] in Hnb.
    change (cl_line (last r (mkCline [] 0 0))) with (lastl r) in Hnb.
    destruct (Hblocks r Hr) as [Hcs _].
    destruct (consec_succ r c Hcs Hcr) as [c' [Hc' He]]; [lia|].
    assert (Hin' : In c' cs) by (rewrite <- Hcat; apply in_concat; exists r; split; assumption).
    specialize (Hlk c' Hin'). rewrite He, HcK in Hlk. rewrite HK in Hlk. discriminate Hlk.
Qed.

(* ------------------------------------------------------------------ blocks never continue across a separation *)
Lemma runs_nil_last : forall cs a b, runs cs [] a = runs cs [] b.
Proof. intros [|c cs] a b; reflexivity. Qed.

Lemma runs_app : forall cs1 cs2 cur last,
  (cur <> [] -> forall c2, In c2 cs2 -> last + 1 < cl_line c2) ->
  (forall c1 c2, In c1 cs1 -> In c2 cs2 -> cl_line c1 + 1 < cl_line c2) ->
  runs (cs1 ++ cs2) cur last = runs cs1 cur last ++ runs cs2 [] 0.
Proof.
  induction cs1 as [|c t IH]; intros cs2 cur last H1 H2.
  - cbn [app runs]. destruct cur as [|c0 cur]; [cbn [flush_run app]; apply runs_nil_last|].
    destruct cs2 as [|c2 t2]; [reflexivity|]. cbn [runs flush_run app].
    assert (last + 1 < cl_line c2) by (apply H1; [discriminate|left; reflexivity]).
    destruct (cl_line c2 =? last + 1) eqn:E; [lia|reflexivity].
  - cbn [app runs]. destruct cur as [|c0 cur].
    + apply IH; [intros _ c2 Hc2; apply (H2 c c2); [left; reflexivity|exact Hc2]|].
      intros c1 c2 Hc1 Hc2. apply H2; [right; exact Hc1|exact Hc2].
    + destruct (cl_line c =? last + 1).
      * apply IH; [intros _ c2 Hc2; apply (H2 c c2); [left; reflexivity|exact Hc2]|].
        intros c1 c2 Hc1 Hc2. apply H2; [right; exact Hc1|exact Hc2].
      * cbn [app]. f_equal.
        apply IH; [intros _ c2 Hc2; apply (H2 c c2); [left; reflexivity|exact Hc2]|].
        intros c1 c2 Hc1 Hc2. apply H2; [right; exact Hc1|exact Hc2].
Qed.

(* keys of the blocks of an increasing list are increasing and are lines of the list *)
Lemma lasts_zinc : forall (rs : list (list cline)) lo,
  (forall r, In r rs -> r <> []) -> zinc lo (lines (concat rs)) -> zinc lo (map lastl rs).
Proof.
  induction rs as [|r rs IH]; intros lo Hne Hz; [exact I|].
  cbn [concat] in Hz. unfold lines in Hz. rewrite map_app in Hz. apply zinc_app_inv in Hz. destruct Hz as [Hz1 [Hz2 Hz3]].
  cbn [map zinc].
  assert (Hr : r <> []) by (apply Hne; left; reflexivity).
  destruct (@exists_last _ r Hr) as [r' [x Hx]].
  assert (Hl : lastl r = cl_line x) by (unfold lastl; rewrite Hx, last_snoc; reflexivity).
  assert (Hin : In (cl_line x) (map cl_line r)) by (apply in_map; rewrite Hx; apply in_or_app; right; left; reflexivity).
  split; [rewrite Hl; apply (zinc_lt _ _ _ Hz1 Hin)|].
  apply IH; [intros r0 H0; apply Hne; right; exact H0|].
  (* every later line is above lastl r *)
  clear - Hz2 Hz3 Hl Hin. fold (lines (concat rs)) in *. revert Hz2 Hz3. generalize (lines (concat rs)). intros l Hz2 Hz3.
  destruct l as [|y l]; [exact I|]. cbn [zinc] in *. destruct Hz2 as [_ Hz2]. split; [|exact Hz2].
  rewrite Hl. apply Hz3; [exact Hin|left; reflexivity].
Qed.

Lemma runs_keys : forall cs lo, zinc lo (lines cs) ->
  zinc lo (map fst (map block_entry (runs cs [] 0))) /\
  forall k, In k (map fst (map block_entry (runs cs [] 0))) -> In k (lines cs).
Proof.
  intros cs lo Hz. rewrite map_map.
  assert (Hext : map (fun r => fst (block_entry r)) (runs cs [] 0) = map lastl (runs cs [] 0)) by reflexivity.
  rewrite Hext. assert (Hcat := runs_concat cs [] 0). cbn [app] in Hcat. split.
  - apply lasts_zinc; [intros r Hr; apply (runs_nonempty _ _ _ _ Hr)|rewrite Hcat; exact Hz].
  - intros k Hk. apply in_map_iff in Hk. destruct Hk as [r [<- Hr]]. rewrite <- Hcat.
    assert (Hne := runs_nonempty _ _ _ _ Hr). destruct (@exists_last _ r Hne) as [r' [x Hx]].
    unfold lastl. rewrite Hx, last_snoc. apply in_map. apply in_concat. exists r. split; [exact Hr|].
    rewrite Hx. apply in_or_app. right. left. reflexivity.
Qed.

(* ------------------------------------------------------------------ the comment lines of one gap *)
Definition gap_end (r : gaprec) : Z := gr_L r + Z.of_nat (length (g_rest (gr_g r))).
Definition is_tr (r : gaprec) : bool := (gr_p r =? gr_L r).
Definition first_cl (r : gaprec) : list cline := cline_of (gr_L r) (gr_c r) (g_first (gr_g r)).
Definition rest_cl (r : gaprec) : list cline := rest_clines (gr_L r) (g_rest (gr_g r)).
Definition gap_tr (r : gaprec) : list cline := if is_tr r then first_cl r else [].
Definition gap_pu (r : gaprec) : list cline := (if is_tr r then [] else first_cl r) ++ rest_cl r.
Definition gap_entries (r : gaprec) : list (Z * cinfo) := spec_entries (gr_p r) (gr_L r) (gr_c r) (gr_g r).

Lemma gap_entries_split : forall r,
  gap_entries r = map trailing_entry (gap_tr r) ++ map block_entry (runs (gap_pu r) [] 0).
Proof.
  intros r. unfold gap_entries, spec_entries, gap_tr, gap_pu, is_tr, first_cl, rest_cl.
  destruct (gr_p r =? gr_L r); reflexivity.
Qed.

Lemma rest_clines_lines : forall r L,
  zinc L (lines (rest_clines L r)) /\
  forall x, In x (lines (rest_clines L r)) ->
    x <= L + Z.of_nat (length r) /\ (gl_comment (last (map snd r) (mkGl [] (Some []))) = None -> x < L + Z.of_nat (length r)).
Proof.
  induction r as [|[k l] t IH]; intros L; [split; [exact I|intros x []]|].
  cbn [rest_clines]. destruct (IH (L + 1)) as [IH1 IH2]. unfold lines. rewrite map_app. fold (lines (rest_clines (L + 1) t)).
  assert (Hlen : L + Z.of_nat (length ((k, l) :: t)) = L + 1 + Z.of_nat (length t)) by (cbn [length]; lia).
  split.
  - unfold cline_of. destruct (gl_comment l); cbn [map app].
    + cbn [zinc cl_line]. split; [lia|exact IH1].
    + apply (zinc_weaken _ (L + 1)); [lia|exact IH1].
  - intros x Hx. apply in_app_or in Hx. rewrite Hlen. destruct Hx as [Hx|Hx].
    + unfold cline_of in Hx. destruct (gl_comment l) eqn:El; [|destruct Hx]. destruct Hx as [<-|[]]. cbn [cl_line].
      split; [lia|]. intros Hn. destruct t as [|kl t]; [cbn [map last snd] in Hn; congruence|cbn [length]; lia].
    + destruct (IH2 x Hx) as [H1 H2]. split; [exact H1|]. intros Hn. apply H2.
      destruct t as [|kl t]; [destruct Hx|]. exact Hn.
Qed.

Lemma last_dflt : forall (A : Type) (l : list A) d d', l <> [] -> last l d = last l d'.
Proof.
  induction l as [|a l IH]; intros d d' H; [congruence|]. destruct l as [|b l]; [reflexivity|].
  change (last (a :: b :: l) d) with (last (b :: l) d). change (last (a :: b :: l) d') with (last (b :: l) d'). apply IH. discriminate.
Qed.

(* all comment lines of a gap: increasing, inside the gap, and below its last line when that line has no comment *)
Lemma gap_lines : forall r,
  zinc (gr_L r - 1) (lines (first_cl r ++ rest_cl r)) /\
  (forall x, In x (lines (first_cl r)) -> x = gr_L r) /\
  zinc (gr_L r) (lines (rest_cl r)) /\
  forall x, In x (lines (first_cl r ++ rest_cl r)) ->
    x <= gap_end r /\ (gl_comment (last_gline (gr_g r)) = None -> x < gap_end r).
Proof.
  intros r. unfold first_cl, rest_cl, gap_end, last_gline.
  destruct (rest_clines_lines (g_rest (gr_g r)) (gr_L r)) as [H1 H2].
  assert (Hf : forall x, In x (lines (cline_of (gr_L r) (gr_c r) (g_first (gr_g r)))) -> x = gr_L r).
  { intros x Hx. unfold cline_of in Hx. destruct (gl_comment (g_first (gr_g r))); [|destruct Hx]. destruct Hx as [<-|[]]. reflexivity. }
  split; [|split; [exact Hf|split; [exact H1|]]].
  - unfold lines. rewrite map_app. apply (zinc_app _ _ _ (gr_L r)); [| |lia|exact H1].
    + unfold cline_of. destruct (gl_comment (g_first (gr_g r))); cbn [map zinc cl_line]; [split; [lia|exact I]|exact I].
    + intros x Hx. rewrite (Hf x Hx). lia.
  - intros x Hx. unfold lines in Hx. rewrite map_app in Hx. apply in_app_or in Hx. destruct Hx as [Hx|Hx].
    + rewrite (Hf x Hx). split; [lia|]. intros Hn.
      destruct (g_rest (gr_g r)) as [|kl t] eqn:Er; [|cbn [length]; lia].
      cbn [map last] in Hn. unfold lines, cline_of in Hx. rewrite Hn in Hx. destruct Hx.
    + destruct (H2 x Hx) as [H3 H4]. split; [exact H3|]. intros Hn. apply H4.
      destruct (g_rest (gr_g r)) as [|kl t] eqn:Er; [destruct Hx|].
      rewrite (last_dflt _ (map snd (kl :: t)) _ (g_first (gr_g r))); [exact Hn|discriminate].
Qed.

(* ------------------------------------------------------------------ the gaps of a file, in order *)
(* lo = the line the previous gap ended on: the token behind it starts there, ends on gr_p, and the next gap starts on
   gr_L; a gap that is followed by a token has no comment on its last line *)
Fixpoint chain_ok (lo : Z) (rs : list gaprec) : Prop :=
  match rs with
  | [] => True
  | r :: t => lo <= gr_p r /\ gr_p r <= gr_L r /\ 0 < gr_L r
              /\ (t = [] \/ gl_comment (last_gline (gr_g r)) = None) /\ chain_ok (gap_end r) t
  end.

Lemma gap_end_ge : forall r, gr_L r <= gap_end r.
Proof. intros r. unfold gap_end. lia. Qed.

Lemma map_fst_trailing : forall cs, map fst (map trailing_entry cs) = lines cs.
Proof. intros cs. rewrite map_map. reflexivity. Qed.

Lemma gap_keys : forall r,
  zinc (gr_L r - 1) (map fst (gap_entries r)) /\
  forall k, In k (map fst (gap_entries r)) -> In k (lines (first_cl r ++ rest_cl r)).
Proof.
  intros r. rewrite gap_entries_split. rewrite map_app, map_fst_trailing.
  destruct (gap_lines r) as [Hz [Hf [Hr _]]].
  unfold gap_tr, gap_pu. destruct (is_tr r).
  - cbn [app]. destruct (runs_keys (rest_cl r) (gr_L r) Hr) as [K1 K2]. split.
    + apply (zinc_app _ _ _ (gr_L r)); [| |lia|exact K1].
      * unfold lines in Hz. rewrite map_app in Hz. apply zinc_app_inv in Hz. apply Hz.
      * intros x Hx. rewrite (Hf x Hx). lia.
    + intros k Hk. unfold lines. rewrite map_app. apply in_or_app. apply in_app_or in Hk.
      destruct Hk as [Hk|Hk]; [left; exact Hk|right; apply K2; exact Hk].
  - cbn [app lines map]. destruct (runs_keys (first_cl r ++ rest_cl r) (gr_L r - 1) Hz) as [K1 K2]. split; assumption.
Qed.

Lemma gap_pu_lines : forall r lo, lo <= gr_p r -> gr_p r <= gr_L r ->
  zinc lo (lines (gap_pu r)) /\ forall x, In x (lines (gap_pu r)) -> In x (lines (first_cl r ++ rest_cl r)).
Proof.
  intros r lo H1 H2. destruct (gap_lines r) as [Hz [Hf [Hr _]]]. unfold gap_pu, is_tr.
  destruct (gr_p r =? gr_L r) eqn:E.
  - cbn [app]. split; [apply (zinc_weaken _ (gr_L r)); [lia|exact Hr]|].
    intros x Hx. unfold lines. rewrite map_app. apply in_or_app. right. exact Hx.
  - split; [apply (zinc_weaken _ (gr_L r - 1)); [lia|exact Hz]|]. intros x Hx. exact Hx.
Qed.

Lemma chain_keys : forall rs lo, chain_ok lo rs -> zinc (lo - 1) (map fst (flat_map gap_entries rs)).
Proof.
  induction rs as [|r t IH]; intros lo H; [exact I|].
  cbn [chain_ok] in H. destruct H as [H1 [H2 [H3 [H4 H5]]]]. cbn [flat_map]. rewrite map_app.
  destruct (gap_keys r) as [K1 K2]. destruct (gap_lines r) as [_ [_ [_ Hb]]].
  destruct H4 as [->|H4].
  - cbn [flat_map map]. rewrite app_nil_r. apply (zinc_weaken _ (gr_L r - 1)); [lia|exact K1].
  - apply (zinc_app _ _ _ (gap_end r - 1)).
    + apply (zinc_weaken _ (gr_L r - 1)); [lia|exact K1].
    + intros x Hx. apply K2 in Hx. destruct (Hb x Hx) as [_ Hlt]. specialize (Hlt H4). lia.
    + pose proof (gap_end_ge r). lia.
    + apply IH. exact H5.
Qed.

Lemma chain_keys_pos : forall rs lo, chain_ok lo rs -> forall k, In k (map fst (flat_map gap_entries rs)) -> 0 < k.
Proof.
  induction rs as [|r t IH]; intros lo H k Hk; [destruct Hk|].
  cbn [chain_ok] in H. destruct H as [H1 [H2 [H3 [H4 H5]]]]. cbn [flat_map] in Hk. rewrite map_app in Hk.
  apply in_app_or in Hk. destruct Hk as [Hk|Hk].
  - destruct (gap_keys r) as [K1 _]. apply (zinc_lt _ _ _ K1) in Hk. lia.
  - apply (IH _ H5 k Hk).
Qed.

Lemma chain_pures : forall rs lo, chain_ok lo rs -> zinc lo (lines (flat_map gap_pu rs)).
Proof.
  induction rs as [|r t IH]; intros lo H; [exact I|].
  cbn [chain_ok] in H. destruct H as [H1 [H2 [H3 [H4 H5]]]]. cbn [flat_map]. unfold lines. rewrite map_app.
  destruct (gap_pu_lines r lo H1 H2) as [P1 P2]. destruct (gap_lines r) as [_ [_ [_ Hb]]].
  destruct H4 as [->|H4].
  - cbn [flat_map map]. rewrite app_nil_r. exact P1.
  - apply (zinc_app _ _ _ (gap_end r)); [exact P1| | |apply IH; exact H5].
    + intros x Hx. apply P2 in Hx. destruct (Hb x Hx) as [Hle _]. exact Hle.
    + pose proof (gap_end_ge r). lia.
Qed.

Lemma chain_runs : forall rs lo, chain_ok lo rs ->
  flat_map (fun r => runs (gap_pu r) [] 0) rs = runs (flat_map gap_pu rs) [] 0.
Proof.
  induction rs as [|r t IH]; intros lo H; [reflexivity|].
  cbn [chain_ok] in H. destruct H as [H1 [H2 [H3 [H4 H5]]]]. cbn [flat_map].
  rewrite (IH _ H5). symmetry. apply runs_app; [intros Hne; congruence|].
  intros c1 c2 Hc1 Hc2. destruct H4 as [->|H4]; [destruct Hc2|].
  destruct (gap_pu_lines r lo H1 H2) as [_ P2]. destruct (gap_lines r) as [_ [_ [_ Hb]]].
  assert (Hx : In (cl_line c1) (lines (gap_pu r))) by (apply in_map; exact Hc1).
  apply P2 in Hx. destruct (Hb _ Hx) as [_ Hlt]. specialize (Hlt H4).
  assert (Hy : In (cl_line c2) (lines (flat_map gap_pu t))) by (apply in_map; exact Hc2).
  apply (zinc_lt _ _ _ (chain_pures t _ H5)) in Hy. lia.
Qed.

(* the line the token in front of a gap ends on is never a comment-only line *)
Lemma chain_lo : forall rs lo r, chain_ok lo rs -> In r rs -> lo <= gr_p r.
Proof.
  induction rs as [|h t IH]; intros lo r H Hin; [destruct Hin|].
  cbn [chain_ok] in H. destruct H as [H1 [H2 [H3 [H4 H5]]]]. destruct Hin as [<-|Hin]; [exact H1|].
  specialize (IH _ r H5 Hin). pose proof (gap_end_ge h). lia.
Qed.

Lemma lookup_none : forall cs K, ~ In K (lines cs) -> lookup cs K = None.
Proof. intros cs K H. unfold lookup. rewrite find_line_none; [reflexivity|exact H]. Qed.

Lemma chain_p_no_pure : forall rs lo, chain_ok lo rs ->
  forall K, In K (map gr_p rs) -> lookup (flat_map gap_pu rs) K = None.
Proof.
  intros rs lo H K HK. apply lookup_none. revert lo H K HK.
  induction rs as [|h t IH]; intros lo H K HK Hin; [destruct HK|].
  assert (Hc := H). cbn [chain_ok] in H. destruct H as [H1 [H2 [H3 [H4 H5]]]].
  cbn [flat_map] in Hin. unfold lines in Hin. rewrite map_app in Hin. apply in_app_or in Hin.
  destruct (gap_lines h) as [_ [_ [_ Hb]]].
  cbn [map] in HK. destruct HK as [<-|HK].
  - destruct Hin as [Hin|Hin].
    + destruct (gap_pu_lines h (gr_p h) (Z.le_refl _) H2) as [P1 _]. apply (zinc_lt _ _ _ P1) in Hin. lia.
    + apply (zinc_lt _ _ _ (chain_pures t _ H5)) in Hin. pose proof (gap_end_ge h). lia.
  - destruct Hin as [Hin|Hin]; [|apply (IH _ H5 K HK Hin)].
    apply in_map_iff in HK. destruct HK as [r [<- Hr]].
    assert (gap_end h <= gr_p r) by (apply (chain_lo t _ r H5 Hr)).
    destruct H4 as [->|H4]; [destruct Hr|].
    destruct (gap_pu_lines h lo H1 H2) as [_ P2]. apply P2 in Hin. destruct (Hb _ Hin) as [_ Hlt]. specialize (Hlt H4). lia.
Qed.

(* ------------------------------------------------------------------ searching entries / table rows *)
Lemma find_app : forall (A : Type) (f : A -> bool) a b,
  find f (a ++ b) = match find f a with Some x => Some x | None => find f b end.
Proof. intros A f a b. induction a as [|x a IH]; [reflexivity|]. cbn [app find]. destruct (f x); [reflexivity|exact IH]. Qed.

Lemma find_map_none : forall (A B : Type) (f : B -> bool) (g : A -> B) l, (forall x, f (g x) = false) -> find f (map g l) = None.
Proof. intros A B f g l H. induction l as [|x l IH]; [reflexivity|]. cbn [map find]. rewrite H. exact IH. Qed.

Lemma find_map_comm : forall (A B : Type) (f : B -> bool) (h : A -> bool) (g : A -> B) l,
  (forall x, f (g x) = h x) -> find f (map g l) = option_map g (find h l).
Proof.
  intros A B f h g l H. induction l as [|x l IH]; [reflexivity|]. cbn [map find]. rewrite H.
  destruct (h x); [reflexivity|exact IH].
Qed.

Lemma find_trailing_entries : forall rs L,
  find (is_trailing_for L) (flat_map gap_entries rs) = option_map trailing_entry (find (line_is L) (flat_map gap_tr rs)).
Proof.
  induction rs as [|r t IH]; intros L; [reflexivity|].
  cbn [flat_map]. rewrite gap_entries_split, <- app_assoc, !find_app, IH.
  rewrite (find_map_comm _ _ (is_trailing_for L) (line_is L) trailing_entry (gap_tr r)) by reflexivity.
  rewrite (find_map_none _ _ (is_trailing_for L) block_entry) by reflexivity.
  destruct (find (line_is L) (gap_tr r)); reflexivity.
Qed.

Lemma find_block_entries : forall rs K,
  find (is_block_ending K) (flat_map gap_entries rs)
  = find (is_block_ending K) (map block_entry (flat_map (fun r => runs (gap_pu r) [] 0) rs)).
Proof.
  induction rs as [|r t IH]; intros K; [reflexivity|].
  cbn [flat_map]. rewrite gap_entries_split, <- app_assoc, map_app, !find_app, IH.
  rewrite (find_map_none _ _ (is_block_ending K) trailing_entry) by reflexivity. reflexivity.
Qed.

Definition tl_of (b : bool) (c : cline) : tabline := mkTl (cl_line c) b (cl_str c).

Lemma lookup_app : forall a b K, lookup (a ++ b) K = match lookup a K with Some x => Some x | None => lookup b K end.
Proof. intros a b K. unfold lookup. rewrite find_app. destruct (find (line_is K) a); reflexivity. Qed.

Lemma lookup_cline_of : forall L c1 c2 l K, lookup (cline_of L c1 l) K = lookup (cline_of L c2 l) K.
Proof. intros L c1 c2 l K. unfold lookup, cline_of. destruct (gl_comment l); [|reflexivity]. cbn [find]. unfold line_is. cbn [cl_line]. destruct (L =? K); reflexivity. Qed.

Lemma trailing_at_app : forall A B L, trailing_at (A ++ B) L = match trailing_at A L with Some x => Some x | None => trailing_at B L end.
Proof. intros A B L. unfold trailing_at. rewrite find_app. destruct (find _ A); reflexivity. Qed.

Lemma pure_at_app : forall A B L, pure_at (A ++ B) L = match pure_at A L with Some x => Some x | None => pure_at B L end.
Proof. intros A B L. unfold pure_at. rewrite find_app. destruct (find _ A); reflexivity. Qed.

Lemma trailing_at_map : forall b cs L, trailing_at (map (tl_of b) cs) L = if b then lookup cs L else None.
Proof.
  intros b cs L. unfold trailing_at, lookup. destruct b.
  - rewrite (find_map_comm _ _ _ (line_is L) (tl_of true) cs) by reflexivity. destruct (find (line_is L) cs); reflexivity.
  - rewrite find_map_none by reflexivity. reflexivity.
Qed.

Lemma pure_at_map : forall b cs L, pure_at (map (tl_of b) cs) L = if b then None else lookup cs L.
Proof.
  intros b cs L. unfold pure_at, lookup. destruct b.
  - rewrite find_map_none by reflexivity. reflexivity.
  - rewrite (find_map_comm _ _ _ (line_is L) (tl_of false) cs) by reflexivity. destruct (find (line_is L) cs); reflexivity.
Qed.

Lemma gap_table_eq : forall r, gap_table (gr_p r) (gr_L r) (gr_g r)
  = map (tl_of (is_tr r)) (cline_of (gr_L r) 0 (g_first (gr_g r))) ++ map (tl_of false) (rest_cl r).
Proof. reflexivity. Qed.

Lemma trailing_at_gap : forall r L, trailing_at (gap_table (gr_p r) (gr_L r) (gr_g r)) L = lookup (gap_tr r) L.
Proof.
  intros r L. rewrite gap_table_eq, trailing_at_app, !trailing_at_map. unfold gap_tr, first_cl.
  rewrite (lookup_cline_of _ 0 (gr_c r)). destruct (is_tr r); [|reflexivity].
  destruct (lookup (cline_of (gr_L r) (gr_c r) (g_first (gr_g r))) L); reflexivity.
Qed.

Lemma pure_at_gap : forall r L, pure_at (gap_table (gr_p r) (gr_L r) (gr_g r)) L = lookup (gap_pu r) L.
Proof.
  intros r L. rewrite gap_table_eq, pure_at_app, !pure_at_map. unfold gap_pu, first_cl. rewrite lookup_app.
  rewrite (lookup_cline_of _ 0 (gr_c r)). destruct (is_tr r); reflexivity.
Qed.

Lemma trailing_at_gaps : forall rs L, trailing_at (table_of_gaps rs) L = lookup (flat_map gap_tr rs) L.
Proof.
  induction rs as [|r t IH]; intros L; [reflexivity|].
  unfold table_of_gaps in *. cbn [flat_map]. rewrite trailing_at_app, lookup_app, IH, trailing_at_gap. reflexivity.
Qed.

Lemma pure_at_gaps : forall rs L, pure_at (table_of_gaps rs) L = lookup (flat_map gap_pu rs) L.
Proof.
  induction rs as [|r t IH]; intros L; [reflexivity|].
  unfold table_of_gaps in *. cbn [flat_map]. rewrite pure_at_app, lookup_app, IH, pure_at_gap. reflexivity.
Qed.

Lemma pu_length : forall r, (length (gap_pu r) <= length (gap_table (gr_p r) (gr_L r) (gr_g r)))%nat.
Proof.
  intros r. rewrite gap_table_eq, !app_length, !map_length. unfold gap_pu, first_cl. rewrite app_length.
  assert (length (cline_of (gr_L r) (gr_c r) (g_first (gr_g r))) = length (cline_of (gr_L r) 0 (g_first (gr_g r))))
    by (unfold cline_of; destruct (gl_comment (g_first (gr_g r))); reflexivity).
  destruct (is_tr r); cbn [length]; lia.
Qed.

Lemma pures_length : forall rs, (length (flat_map gap_pu rs) <= length (table_of_gaps rs))%nat.
Proof.
  induction rs as [|r t IH]; [cbn; lia|].
  unfold table_of_gaps in *. cbn [flat_map]. rewrite !app_length. pose proof (pu_length r). lia.
Qed.

Lemma zinc_keys_nodup : forall es lo, zinc lo (map fst es) -> keys_nodup es = true.
Proof.
  induction es as [|e t IH]; intros lo H; [reflexivity|].
  cbn [map zinc] in H. destruct H as [H1 H2]. cbn [keys_nodup]. rewrite (IH _ H2), andb_true_r.
  apply negb_true_iff. destruct (existsb (fun x => fst x =? fst e) t) eqn:E; [|reflexivity].
  apply existsb_exists in E. destruct E as [x [Hx Hk]].
  assert (In (fst x) (map fst t)) by (apply in_map; exact Hx). apply (zinc_lt _ _ _ H2) in H. lia.
Qed.

(* ------------------------------------------------------------------ the theorem of this file *)
Theorem table_attach : forall rs lo, chain_ok lo rs ->
  attach_guard (flat_map gap_entries rs) = true /\
  forall L, pure_at (table_of_gaps rs) L = None ->
    spec_attach (flat_map gap_entries rs) L = spec_comment (table_of_gaps rs) L.
Proof.
  intros rs lo H. split.
  - unfold attach_guard. apply andb_true_iff. split.
    + unfold keys_pos. apply forallb_forall. intros e He.
      assert (0 < fst e) by (apply (chain_keys_pos rs lo H); apply in_map; exact He). lia.
    + apply (zinc_keys_nodup _ (lo - 1)). apply chain_keys. exact H.
  - intros L HL. unfold spec_attach, spec_comment.
    rewrite find_trailing_entries, trailing_at_gaps. unfold lookup.
    destruct (find (line_is L) (flat_map gap_tr rs)) as [c|]; cbn [option_map].
    + change (entry_text (trailing_entry c)) with (cl_str c). destruct (cl_str c); [|reflexivity].
      (* empty trailing comment: fall through to the block *)
      rewrite find_block_entries, (chain_runs rs lo H).
      rewrite (block_up_bu _ _ (pure_at_gaps rs)).
      apply (runs_lookup _ lo); [apply chain_pures; exact H| |apply pures_length].
      replace (L - 1 + 1) with L by lia. rewrite <- pure_at_gaps. exact HL.
    + rewrite find_block_entries, (chain_runs rs lo H).
      rewrite (block_up_bu _ _ (pure_at_gaps rs)).
      apply (runs_lookup _ lo); [apply chain_pures; exact H| |apply pures_length].
      replace (L - 1 + 1) with L by lia. rewrite <- pure_at_gaps. exact HL.
Qed.
Print Assumptions table_attach.
