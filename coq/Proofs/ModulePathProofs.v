(* CheckReferFile conforms to the documented module mapping (resolve_conforms), hence the type-6 diagnostic
   appears exactly when no workspace file matches (type6_iff), and definition / hover on the module string
   agree with the file the analysis loaded (features_agree). *)
From Coq Require Import List Arith PeanoNat NArith ZArith Bool Lia.
From LH Require Import Base.Bytes Model.FileIndex Model.ModulePath Spec.ModuleSpec
  Proofs.FileIndexProofs Proofs.ModulePathStr Proofs.MergeDet.
Import ListNotations.

(* ---- well-formed association lists: no duplicate keys (what a Go map is) ---- *)
Definition wf_amap {V} (m : amap V) : Prop := NoDup (map fst m).

Lemma aset_keys {V} k (v : V) m x : In x (map fst (aset k v m)) -> x = k \/ In x (map fst m).
Proof.
  induction m as [|[k0 v0] m IH]; simpl.
  - intros [H|[]]. left. congruence.
  - destruct (beq_bytes k k0) eqn:E; simpl.
    + apply beq_bytes_eq in E. subst. intros [H|H]; [left; congruence|right; right; exact H].
    + intros [H|H]; [right; left; exact H|]. destruct (IH H) as [H1|H1]; [left; exact H1|right; right; exact H1].
Qed.

Lemma wf_aset {V} k (v : V) m : wf_amap m -> wf_amap (aset k v m).
Proof.
  unfold wf_amap. induction m as [|[k0 v0] m IH]; simpl; intros H.
  - constructor; [intros []|constructor].
  - inversion H as [|a l Hn Hd]; subst. destruct (beq_bytes k k0) eqn:E; simpl.
    + apply beq_bytes_eq in E. subst. constructor; assumption.
    + constructor; [|apply IH; exact Hd].
      intros Hin. destruct (aset_keys _ _ _ _ Hin) as [H1|H1]; [|contradiction].
      subst. rewrite beq_refl in E. discriminate.
Qed.

Lemma adel_keys {V} k (m : amap V) x : In x (map fst (adel k m)) -> In x (map fst m).
Proof.
  induction m as [|[k0 v0] m IH]; simpl; [exact (fun H => H)|].
  destruct (beq_bytes k k0); simpl.
  - intros H. right. apply IH. exact H.
  - intros [H|H]; [left; exact H|right; apply IH; exact H].
Qed.

Lemma wf_adel {V} k (m : amap V) : wf_amap m -> wf_amap (adel k m).
Proof.
  unfold wf_amap. induction m as [|[k0 v0] m IH]; simpl; intros H; [constructor|].
  inversion H as [|a l Hn Hd]; subst. destruct (beq_bytes k k0); simpl.
  - apply IH. exact Hd.
  - constructor; [|apply IH; exact Hd]. intros Hin. apply Hn. apply (adel_keys k). exact Hin.
Qed.

Lemma wf_in_aget {V} (m : amap V) k v : wf_amap m -> (In (k, v) m <-> aget k m = Some v).
Proof.
  unfold wf_amap. induction m as [|[k0 v0] m IH]; simpl; intros H.
  - split; [intros []|discriminate].
  - inversion H as [|a l Hn Hd]; subst. destruct (beq_bytes k k0) eqn:E.
    + apply beq_bytes_eq in E. subst k0. split.
      * intros [Heq|Hin]; [congruence|]. exfalso. apply Hn. apply in_map_iff. exists (k, v). split; [reflexivity|exact Hin].
      * intros Heq. left. congruence.
    + split.
      * intros [Heq|Hin]; [injection Heq as -> ->; rewrite beq_refl in E; discriminate|]. apply IH; assumption.
      * intros Hg. right. apply IH; assumption.
Qed.

Definition wf_outer (o : amap (amap (list N))) : Prop := forall n m, aget n o = Some m -> wf_amap m.
Definition wf_idx (st : idx) : Prop := wf_outer (by_name st) /\ wf_outer (by_pre st).

Lemma wf_inner_set o name path pre : wf_outer o -> wf_outer (inner_set o name path pre).
Proof.
  intros H n m. unfold inner_set. destruct (aget name o) as [inner|] eqn:E; rewrite aget_aset;
    destruct (beq_bytes n name) eqn:En; try (apply H).
  - intros Hm. injection Hm as <-. apply wf_aset. exact (H name inner E).
  - intros Hm. injection Hm as <-. unfold wf_amap. simpl. constructor; [intros []|constructor].
Qed.

Lemma wf_inner_del o name key : wf_outer o -> wf_outer (inner_del o name key).
Proof.
  intros H n m. unfold inner_del. destruct (aget name o) as [inner|] eqn:E; [|apply H].
  rewrite aget_aset. destruct (beq_bytes n name); [|apply H].
  intros Hm. injection Hm as <-. apply wf_adel. exact (H name inner E).
Qed.

Lemma wf_step sfx st o : wf_idx st -> wf_idx (idx_step_g sfx st o).
Proof.
  intros [H1 H2]. destruct o as [p|p]; simpl.
  - unfold idx_insert. destruct (suffix_index sfx (last_seg p)); split; simpl;
      try apply wf_inner_set; assumption.
  - unfold idx_remove. destruct (suffix_index sfx (last_seg p)); split; simpl;
      try apply wf_inner_del; assumption.
Qed.

Lemma wf_step_fixed sfx st o : wf_idx st -> wf_idx (idx_step_fixed_g sfx st o).
Proof.
  intros [H1 H2]. destruct o as [p|p]; simpl.
  - unfold idx_insert. destruct (suffix_index sfx (last_seg p)); split; simpl;
      try apply wf_inner_set; assumption.
  - unfold idx_remove_fixed. destruct (suffix_index sfx (last_seg p)); split; simpl;
      try apply wf_inner_del; assumption.
Qed.

Lemma wf_empty : wf_idx idx_empty.
Proof. split; intros n m H; discriminate. Qed.

Lemma wf_run sfx ops : wf_idx (idx_run_g sfx ops).
Proof.
  unfold idx_run_g. assert (forall st, wf_idx st -> wf_idx (fold_left (idx_step_g sfx) ops st)) as H.
  { induction ops as [|o ops IH]; intros st Hs; simpl; [exact Hs|]. apply IH. apply wf_step. exact Hs. }
  apply H. apply wf_empty.
Qed.

Lemma wf_run_fixed sfx ops : wf_idx (idx_run_fixed_g sfx ops).
Proof.
  unfold idx_run_fixed_g. assert (forall st, wf_idx st -> wf_idx (fold_left (idx_step_fixed_g sfx) ops st)) as H.
  { induction ops as [|o ops IH]; intros st Hs; simpl; [exact Hs|]. apply IH. apply wf_step_fixed. exact Hs. }
  apply H. apply wf_empty.
Qed.

(* the index is a Go map (no duplicate keys) that answers like the index of the file set; sfx = which variant of the
   name cut the index was built with *)
Definition index_ok (sfx : bool) (st : idx) (files : fset) : Prop := wf_idx st /\ index_is sfx st files.

Lemma wf_get_name st n : wf_idx st -> wf_amap (get_name_map st n).
Proof.
  intros [H _]. unfold get_name_map. destruct (aget n (by_name st)) eqn:E; [exact (H n _ E)|constructor].
Qed.
Lemma wf_get_pre st n : wf_idx st -> wf_amap (get_pre_map st n).
Proof.
  intros [_ H]. unfold get_pre_map. destruct (aget n (by_pre st)) eqn:E; [exact (H n _ E)|constructor].
Qed.

(* ---- the candidate list of GetBestMatchReferFile ---- *)
(* every workspace file is one whose module name the variant sfx gets right (ModulePathStr.good_lua) *)
Definition all_good (sfx : bool) (files : fset) : Prop := forall g, In g files -> good_lua sfx g = true.
(* before fixes/C18-dotted-path.diff: the only '.' of every path is the one of its final ".lua" *)
Definition all_simple (files : fset) : Prop := forall g, In g files -> simple_lua g = true.

Lemma all_simple_good files : all_simple files <-> all_good false files.
Proof. split; intros H g Hg; exact (H g Hg). Qed.

(* after it: every path ends in ".lua" (the boolean guard Spec.all_lua) *)
Lemma all_lua_good files : all_lua files = true <-> all_good true files.
Proof. unfold all_lua, all_good. cbn [good_lua]. apply forallb_forall. Qed.

(* looked up by full file name, kept when "/refer" is a suffix of the path *)
Lemma cands_name_g sfx st files r c : index_ok sfx st files ->
  (In c (bm_candidates_g true r st) <-> In c files /\ path_suffix r c = true).
Proof.
  intros [Hwf His]. unfold bm_candidates_g. rewrite in_map_iff. split.
  - intros [[c' pre] [Hc Hin]]. simpl in Hc. subst c'. apply filter_In in Hin as [Hin Hs]. simpl in Hs.
    apply (wf_in_aget _ _ _ (wf_get_name st _ Hwf)) in Hin.
    destruct (His (last_seg r) c) as [Hn _]. rewrite Hn in Hin. unfold spec_name in Hin.
    destruct (fmem c files) eqn:Em; [|discriminate]. split; [apply fmem_In; exact Em|exact Hs].
  - intros [Hin Hs]. exists (c, complete_pre_fx sfx c). split; [reflexivity|]. apply filter_In. split; [|exact Hs].
    apply (wf_in_aget _ _ _ (wf_get_name st _ Hwf)).
    destruct (His (last_seg r) c) as [Hn _]. rewrite Hn. unfold spec_name.
    apply fmem_In in Hin. rewrite Hin. unfold path_suffix in Hs. rewrite (suffix_last_seg r c Hs), beq_refl. reflexivity.
Qed.

(* refer contains a '.': GetBestMatchReferFile looks it up by full file name *)
Lemma cands_name sfx st files r c : index_ok sfx st files -> has_dot r = true ->
  (In c (bm_candidates r st) <-> In c files /\ path_suffix r c = true).
Proof. intros Hok Hd. unfold bm_candidates. rewrite Hd. apply (cands_name_g sfx); exact Hok. Qed.

(* looked up by the name without suffix, kept when "/refer" is a suffix of the path without suffix; for good names
   that is "refer.lua is a path suffix" *)
Lemma cands_pre_g sfx st files r c : index_ok sfx st files -> all_good sfx files ->
  (In c (bm_candidates_g false r st) <-> In c files /\ path_suffix (r ++ lua_ext) c = true).
Proof.
  intros [Hwf His] Hgood. unfold bm_candidates_g. rewrite in_map_iff. split.
  - intros [[c' pre] [Hc Hin]]. simpl in Hc. subst c'. apply filter_In in Hin as [Hin Hs]. simpl in Hs.
    apply andb_true_iff in Hs as [_ Hs].
    apply (wf_in_aget _ _ _ (wf_get_pre st _ Hwf)) in Hin.
    destruct (His (last_seg r) c) as [_ Hp]. rewrite Hp in Hin. unfold spec_pre in Hin.
    destruct (fmem c files) eqn:Em; [|discriminate]. apply fmem_In in Em. split; [exact Em|].
    destruct (good_lua_spec sfx c (Hgood c Em)) as [b [Hc [Hi [Hf Hpre]]]].
    rewrite Hi, Hf, Hpre in Hin.
    destruct (beq_bytes (last_seg b) (last_seg r)); [|discriminate]. injection Hin as <-.
    subst c. unfold path_suffix.
    change (slash :: r ++ lua_ext) with ((slash :: r) ++ lua_ext). rewrite is_suffix_app_cancel. exact Hs.
  - intros [Hin Hs].
    destruct (good_lua_spec sfx c (Hgood c Hin)) as [b [Hc [Hi [Hf Hpre]]]].
    unfold path_suffix in Hs. rewrite Hc in Hs. change (slash :: r ++ lua_ext) with ((slash :: r) ++ lua_ext) in Hs.
    rewrite is_suffix_app_cancel in Hs.
    exists (c, b). split; [reflexivity|]. apply filter_In. split.
    + apply (wf_in_aget _ _ _ (wf_get_pre st _ Hwf)).
      destruct (His (last_seg r) c) as [_ Hp]. rewrite Hp. unfold spec_pre.
      apply fmem_In in Hin. rewrite Hin. rewrite Hi, Hf, Hpre.
      rewrite (suffix_last_seg r b Hs), beq_refl. reflexivity.
    + simpl. rewrite Hs. apply is_suffix_spec in Hs as [p Hp]. destruct b; [destruct p; discriminate|reflexivity].
Qed.

Lemma cands_pre sfx st files r c : index_ok sfx st files -> all_good sfx files -> has_dot r = false ->
  (In c (bm_candidates r st) <-> In c files /\ path_suffix (r ++ lua_ext) c = true).
Proof. intros Hok Hg Hd. unfold bm_candidates. rewrite Hd. apply (cands_pre_g sfx); assumption. Qed.

(* ---- the set of best-scored candidates ---- *)
Lemma argmax_sub cur r cs c : In c (argmax_set cur r cs) -> In c cs.
Proof.
  unfold argmax_set. destruct cs as [|c0 t]; [intros []|]. intros H. apply filter_In in H as [H _]. exact H.
Qed.

Lemma fold_max_attained cur r t : forall a,
  fold_left (fun m c => Z.max m (calc_score cur r c)) t a = a \/
  exists c, In c t /\ calc_score cur r c = fold_left (fun m c => Z.max m (calc_score cur r c)) t a.
Proof.
  induction t as [|x t IH]; intros a; simpl; [left; reflexivity|].
  destruct (IH (Z.max a (calc_score cur r x))) as [H|[c [Hc He]]].
  - destruct (Z.max_spec a (calc_score cur r x)) as [[_ Hm]|[_ Hm]].
    + right. exists x. split; [left; reflexivity|]. rewrite H. symmetry. exact Hm.
    + left. rewrite H. exact Hm.
  - right. exists c. split; [right; exact Hc|exact He].
Qed.

Lemma argmax_nonempty cur r cs : cs <> [] -> argmax_set cur r cs <> [].
Proof.
  destruct cs as [|c0 t]; [contradiction|]. intros _. unfold argmax_set.
  assert (exists c, In c (c0 :: t) /\ Z.eqb (calc_score cur r c) (max_score cur r c0 t) = true) as [c [Hc He]].
  { unfold max_score. destruct (fold_max_attained cur r t (calc_score cur r c0)) as [H|[c [Hc He]]].
    - exists c0. split; [left; reflexivity|]. rewrite H. apply Z.eqb_refl.
    - exists c. split; [right; exact Hc|]. rewrite He. apply Z.eqb_refl. }
  intros Hnil. assert (In c (filter (fun c => Z.eqb (calc_score cur r c) (max_score cur r c0 t)) (c0 :: t))) as Hin
    by (apply filter_In; split; assumption).
  rewrite Hnil in Hin. destruct Hin.
Qed.

Lemma argmax_single cur r c : argmax_set cur r [c] = [c].
Proof. unfold argmax_set, max_score. simpl. rewrite Z.eqb_refl. reflexivity. Qed.

(* the choice among a candidate list cs that is, as a set, the filter P of the file set *)
Lemma best_of_incl fx cur r cs c : In c (best_of fx cur r cs) -> In c (argmax_set cur r cs).
Proof.
  destruct fx; cbn [best_of]; [|intros H; exact H].
  destruct (best_match true cur r cs) as [m|] eqn:E; [|intros []].
  intros [<-|[]]. apply (best_match_fixed_argmax _ _ _ _ E).
Qed.

Lemma best_of_nil fx cur r cs : best_of fx cur r cs = [] <-> cs = [].
Proof.
  destruct fx; cbn [best_of].
  - destruct (best_match true cur r cs) as [m|] eqn:E.
    + split; [discriminate|]. intros ->. apply best_match_fixed_argmax in E. destruct E.
    + apply best_match_fixed_none in E. subst. split; reflexivity.
  - split; [|intros ->; reflexivity]. intros H. destruct cs as [|c0 t]; [reflexivity|].
    exfalso. apply (argmax_nonempty cur r (c0 :: t)); [discriminate|exact H].
Qed.

Lemma best_of_sub fx files cur r cs (P : list N -> bool) :
  (forall c, In c cs <-> In c files /\ P c = true) ->
  (forall c, In c (best_of fx cur r cs) -> In c (filter P files)) /\
  (best_of fx cur r cs = [] <-> filter P files = []).
Proof.
  intros H. split.
  - intros c Hc. apply best_of_incl, argmax_sub in Hc. apply filter_In. apply H. exact Hc.
  - rewrite best_of_nil. split.
    + intros ->. destruct (filter P files) as [|g l] eqn:Ef; [reflexivity|].
      assert (In g []) as Hg by (apply H; apply filter_In; rewrite Ef; left; reflexivity). destruct Hg.
    + intros He. destruct cs as [|g l]; [reflexivity|].
      assert (In g (filter P files)) as Hg by (apply filter_In; apply H; left; reflexivity).
      rewrite He in Hg. destruct Hg.
Qed.

(* ---- conformance of CheckReferFile ---- *)
Lemma subset_bytes_spec a b : (forall x, In x a -> In x b) -> subset_bytes a b = true.
Proof.
  intros H. unfold subset_bytes. apply forallb_forall. intros x Hx. apply mem_bytes_In. apply H. exact Hx.
Qed.

Lemma conforms_refl o : conforms o o = true.
Proof.
  unfold conforms. rewrite !eqb_reflx. simpl. rewrite subset_bytes_spec by (intros x H; exact H). reflexivity.
Qed.

Lemma conforms_found a b : a <> [] -> b <> [] -> (forall x, In x a -> In x b) ->
  conforms (found a) (found b) = true.
Proof.
  intros Ha Hb H. unfold conforms, found. simpl. rewrite (subset_bytes_spec a b H).
  destruct a; [contradiction|]. destruct b; [contradiction|]. reflexivity.
Qed.

Lemma has_dot_init s : has_dot (s ++ init_tail) = true.
Proof.
  apply has_dot_In. apply in_or_app. right. unfold init_tail, dot. simpl. tauto.
Qed.

Lemma conforms_choice fx files cur r cs (P : list N -> bool) :
  (forall c, In c cs <-> In c files /\ P c = true) ->
  conforms (match best_of fx cur r cs with [] => not_found | l => found l end)
           (match filter P files with [] => not_found | l => found l end) = true.
Proof.
  intros H. destruct (best_of_sub fx files cur r cs P H) as [Hsub Hnil].
  destruct (best_of fx cur r cs) as [|b bs] eqn:Eb.
  - rewrite (proj1 Hnil eq_refl). apply conforms_refl.
  - destruct (filter P files) as [|g gs] eqn:Ef.
    + destruct Hnil as [_ Hnil]. specialize (Hnil eq_refl). discriminate.
    + apply conforms_found; [discriminate|discriminate|exact Hsub].
Qed.

Section Conform.
  Variable disk : list N -> bool.
  Variable cfg : rcfg.
  Variable sfx : bool.
  Variable st : idx.
  Variable files : fset.
  Hypothesis Hok : index_ok sfx st files.

  (* literal references (dofile, loadfile, suffix-style imports): after fixes/C18-dofile-no-suffix.diff always, before it
     when the text contains a '.' *)
  Lemma conforms_suffix cur refer : lit_fixed cfg = true \/ has_dot (remove_pre_str refer) = true ->
    conforms (check_refer disk cfg st cur KSuffix refer) (spec_refer disk cfg files KSuffix refer) = true.
  Proof.
    intros Hd. unfold check_refer, spec_refer.
    destruct (mem_bytes (remove_pre_str refer) (ignore_refer cfg)); [apply conforms_refl|].
    destruct (disk (complete_path (main_dir cfg) (remove_pre_str refer))); [apply conforms_refl|].
    destruct (exact_mode cfg); [apply conforms_refl|].
    unfold best_set_lit, lit_candidates.
    assert (lit_fixed cfg || has_dot (remove_pre_str refer) = true) as ->
      by (destruct Hd as [-> | ->]; [reflexivity|apply orb_true_r]).
    apply conforms_choice. intros c. apply (cands_name_g sfx); exact Hok.
  Qed.

  (* require / suffix-less imports, every workspace file having a name the variant handles *)
  Lemma conforms_nosuffix cur k refer : k <> KSuffix -> all_good sfx files ->
    conforms (check_refer disk cfg st cur k refer) (spec_refer disk cfg files k refer) = true.
  Proof.
    intros Hk Hgood. unfold check_refer, spec_refer.
    destruct (mem_bytes (remove_pre_str refer) (ignore_refer cfg)); [apply conforms_refl|].
    set (s := remove_pre_str refer).
    assert (conforms
      (if (match k with KRequire => true | _ => false end) && mem_bytes s (ignore_modules cfg) then skipped else
       if disk (complete_path (main_dir cfg) (replace_byte dot slash s ++ so_ext)) then skipped else
       if exact_mode cfg then
         if disk (complete_path (main_dir cfg) (replace_byte dot slash s ++ lua_ext))
         then found [complete_path (main_dir cfg) (replace_byte dot slash s ++ lua_ext)]
         else if disk (complete_path (main_dir cfg) (replace_byte dot slash s ++ init_tail))
         then found [complete_path (main_dir cfg) (replace_byte dot slash s ++ init_tail)]
         else not_found
       else match best_set_fx (order_fixed cfg) cur (replace_byte dot slash s) st with
            | [] => match best_set_fx (order_fixed cfg) cur (replace_byte dot slash s ++ init_tail) st with
                    | [] => not_found | l => found l end
            | l => found l end)
      (if (match k with KRequire => true | _ => false end) && mem_bytes s (ignore_modules cfg) then skipped else
       if disk (complete_path (main_dir cfg) (doc_so s)) then skipped else
       if exact_mode cfg then
         if disk (complete_path (main_dir cfg) (doc_lua s)) then found [complete_path (main_dir cfg) (doc_lua s)]
         else if disk (complete_path (main_dir cfg) (doc_init s)) then found [complete_path (main_dir cfg) (doc_init s)]
         else not_found
       else match doc_candidates s files with [] => not_found | l => found l end) = true) as H.
    { destruct ((match k with KRequire => true | _ => false end) && mem_bytes s (ignore_modules cfg)); [apply conforms_refl|].
      unfold doc_so, doc_lua, doc_init, mod_path.
      destruct (disk (complete_path (main_dir cfg) (replace_byte dot slash s ++ so_ext))); [apply conforms_refl|].
      destruct (exact_mode cfg); [apply conforms_refl|].
      set (mp := replace_byte dot slash s).
      assert (has_dot mp = false) as Hnd by (apply has_dot_false; apply replace_no_dot).
      unfold best_set_fx.
      destruct (best_of_sub (order_fixed cfg) files cur mp (bm_candidates mp st) (path_suffix (mp ++ lua_ext))
                  (fun c => cands_pre sfx st files _ c Hok Hgood Hnd)) as [Hsub1 Hnil1].
      unfold doc_candidates, doc_lua, doc_init, mod_path. fold mp.
      destruct (best_of (order_fixed cfg) cur mp (bm_candidates mp st)) as [|b bs] eqn:Eb.
      - rewrite (proj1 Hnil1 eq_refl).
        apply conforms_choice. intros c. apply (cands_name sfx); [exact Hok|apply has_dot_init].
      - destruct (filter (path_suffix (mp ++ lua_ext)) files) as [|g gs] eqn:Ef.
        + destruct Hnil1 as [_ Hn]. specialize (Hn eq_refl). discriminate.
        + apply conforms_found; [discriminate|discriminate|exact Hsub1]. }
    destruct k; [exact H|contradiction|exact H].
  Qed.
End Conform.

(* the general statement: sfx = the variant the index was built with *)
Theorem resolve_conforms_g sfx disk cfg st files cur k refer :
  index_ok sfx st files ->
  (k <> KSuffix -> all_good sfx files) ->
  (k = KSuffix -> lit_fixed cfg = true \/ has_dot (remove_pre_str refer) = true) ->
  conforms (check_refer disk cfg st cur k refer) (spec_refer disk cfg files k refer) = true.
Proof.
  intros Hok H1 H2. destruct k.
  - apply (conforms_nosuffix disk cfg sfx); [exact Hok|discriminate|apply H1; discriminate].
  - apply (conforms_suffix disk cfg sfx); [exact Hok|apply H2; reflexivity].
  - apply (conforms_nosuffix disk cfg sfx); [exact Hok|discriminate|apply H1; discriminate].
Qed.

(* the code before fixes/C18-dotted-path.diff and fixes/C18-dofile-no-suffix.diff *)
Theorem resolve_conforms disk cfg st files cur k refer :
  index_ok false st files ->
  (k <> KSuffix -> all_simple files) ->
  (k = KSuffix -> has_dot (remove_pre_str refer) = true) ->
  conforms (check_refer disk cfg st cur k refer) (spec_refer disk cfg files k refer) = true.
Proof.
  intros Hok H1 H2. apply (resolve_conforms_g false); [exact Hok| |].
  - intros Hk. apply all_simple_good. apply H1. exact Hk.
  - intros Hk. right. apply H2. exact Hk.
Qed.

(* the repaired code: the only premise left is the domain of the documented mapping (".lua" files) for require-style
   references; none at all for literal ones *)
Theorem resolve_conforms_fixed disk cfg st files cur k refer :
  index_ok true st files -> lit_fixed cfg = true ->
  (k <> KSuffix -> all_lua files = true) ->
  conforms (check_refer disk cfg st cur k refer) (spec_refer disk cfg files k refer) = true.
Proof.
  intros Hok Hl H1. apply (resolve_conforms_g true); [exact Hok| |].
  - intros Hk. apply all_lua_good. apply H1. exact Hk.
  - intros _. left. exact Hl.
Qed.

(* boolean form of all_simple, used by the class predicate odd_name *)
Lemma odd_name_false files : odd_name files = false <-> all_simple files.
Proof.
  unfold odd_name, all_simple. split.
  - intros H g Hg. destruct (simple_lua g) eqn:E; [reflexivity|].
    assert (existsb (fun g => negb (simple_lua g)) files = true) as Ht.
    { apply existsb_exists. exists g. split; [exact Hg|]. rewrite E. reflexivity. }
    congruence.
  - intros H. destruct (existsb (fun g => negb (simple_lua g)) files) eqn:E; [|reflexivity].
    apply existsb_exists in E as [g [Hg Hn]]. rewrite (H g Hg) in Hn. discriminate.
Qed.

(* ---- the type-6 diagnostic ---- *)
Lemma doc_candidates_nil m files : doc_candidates m files = [] <-> doc_found m files = false.
Proof.
  unfold doc_candidates, doc_found, matches_doc. split.
  - intros H. destruct (existsb (fun g => path_suffix (doc_lua m) g || path_suffix (doc_init m) g) files) eqn:E; [|reflexivity].
    apply existsb_exists in E as [g [Hg Hm]]. apply orb_true_iff in Hm as [Hm|Hm].
    + assert (In g (filter (path_suffix (doc_lua m)) files)) as Hin by (apply filter_In; split; assumption).
      destruct (filter (path_suffix (doc_lua m)) files); [destruct Hin|discriminate].
    + destruct (filter (path_suffix (doc_lua m)) files); [|discriminate].
      assert (In g (filter (path_suffix (doc_init m)) files)) as Hin by (apply filter_In; split; assumption).
      rewrite H in Hin. destruct Hin.
  - intros H.
    assert (forall g, In g files -> path_suffix (doc_lua m) g = false /\ path_suffix (doc_init m) g = false) as Hall.
    { intros g Hg. destruct (path_suffix (doc_lua m) g || path_suffix (doc_init m) g) eqn:E.
      - assert (existsb (fun g => path_suffix (doc_lua m) g || path_suffix (doc_init m) g) files = true) as Ht
          by (apply existsb_exists; exists g; split; assumption). congruence.
      - apply orb_false_iff in E. exact E. }
    assert (forall P, (forall g, In g files -> P g = false) -> filter P files = []) as Hf.
    { intros P HP. destruct (filter P files) as [|g l] eqn:E; [reflexivity|].
      assert (In g (filter P files)) as Hin by (rewrite E; left; reflexivity).
      apply filter_In in Hin as [Hin Hp]. rewrite (HP g Hin) in Hp. discriminate. }
    rewrite (Hf (path_suffix (doc_lua m))) by (intros g Hg; apply (Hall g Hg)).
    apply Hf. intros g Hg. apply (Hall g Hg).
Qed.

(* require m, not on an ignore list, default (fuzzy) mode: the "not find file" diagnostic is reported iff there is
   no native m.so at the root and no workspace file matches the documented candidates *)
Theorem type6_iff_g sfx disk cfg st files cur m :
  index_ok sfx st files -> all_good sfx files ->
  exact_mode cfg = false ->
  mem_bytes (remove_pre_str m) (ignore_refer cfg) = false ->
  mem_bytes (remove_pre_str m) (ignore_modules cfg) = false ->
  (r_err6 (check_refer disk cfg st cur KRequire m) = true <->
   disk (complete_path (main_dir cfg) (doc_so (remove_pre_str m))) = false /\
   ~ exists g, In g files /\ matches_doc (remove_pre_str m) g = true).
Proof.
  intros Hok Hs He Hi1 Hi2.
  pose proof (resolve_conforms_g sfx disk cfg st files cur KRequire m Hok (fun _ => Hs) (fun H => ltac:(discriminate))) as Hc.
  unfold conforms in Hc. apply andb_true_iff in Hc as [Hc _]. apply andb_true_iff in Hc as [Hc _].
  apply andb_true_iff in Hc as [_ Hc]. apply eqb_prop in Hc. rewrite Hc.
  unfold spec_refer. rewrite Hi1, Hi2, He. simpl.
  destruct (disk (complete_path (main_dir cfg) (doc_so (remove_pre_str m)))).
  - simpl. split; [discriminate|]. intros [H _]. discriminate.
  - destruct (doc_candidates (remove_pre_str m) files) as [|g l] eqn:Ed.
    + simpl. split; [|reflexivity]. intros _. split; [reflexivity|].
      intros [g [Hg Hm]]. apply doc_candidates_nil in Ed. unfold doc_found in Ed.
      assert (existsb (matches_doc (remove_pre_str m)) files = true) as Ht
        by (apply existsb_exists; exists g; split; assumption). congruence.
    + simpl. split; [discriminate|]. intros [_ Hn]. exfalso. apply Hn.
      destruct (doc_found (remove_pre_str m) files) eqn:Ef.
      * unfold doc_found in Ef. apply existsb_exists in Ef. exact Ef.
      * apply doc_candidates_nil in Ef. congruence.
Qed.

Theorem type6_iff disk cfg st files cur m :
  index_ok false st files -> all_simple files ->
  exact_mode cfg = false ->
  mem_bytes (remove_pre_str m) (ignore_refer cfg) = false ->
  mem_bytes (remove_pre_str m) (ignore_modules cfg) = false ->
  (r_err6 (check_refer disk cfg st cur KRequire m) = true <->
   disk (complete_path (main_dir cfg) (doc_so (remove_pre_str m))) = false /\
   ~ exists g, In g files /\ matches_doc (remove_pre_str m) g = true).
Proof. intros Hok Hs. apply (type6_iff_g false); [exact Hok|apply all_simple_good; exact Hs]. Qed.

Theorem type6_iff_fixed disk cfg st files cur m :
  index_ok true st files -> all_lua files = true ->
  exact_mode cfg = false ->
  mem_bytes (remove_pre_str m) (ignore_refer cfg) = false ->
  mem_bytes (remove_pre_str m) (ignore_modules cfg) = false ->
  (r_err6 (check_refer disk cfg st cur KRequire m) = true <->
   disk (complete_path (main_dir cfg) (doc_so (remove_pre_str m))) = false /\
   ~ exists g, In g files /\ matches_doc (remove_pre_str m) g = true).
Proof. intros Hok Hs. apply (type6_iff_g true); [exact Hok|apply all_lua_good; exact Hs]. Qed.

(* ---- definition / hover on the module string vs. the file the analysis loaded ---- *)
Definition unique_match (r : list N) (files : fset) : Prop :=
  forall c1 c2, In c1 files -> In c2 files -> path_suffix r c1 = true -> path_suffix r c2 = true -> c1 = c2.

Lemma NoDup_map_fst_filter {V} (P : list N * V -> bool) (m : amap V) :
  NoDup (map fst m) -> NoDup (map fst (filter P m)).
Proof.
  induction m as [|[k v] m IH]; simpl; intros H; [constructor|].
  inversion H as [|a l Hn Hd]; subst. destruct (P (k, v)); simpl; [|apply IH; exact Hd].
  constructor; [|apply IH; exact Hd]. intros Hin. apply Hn.
  apply in_map_iff in Hin as [[k' v'] [Hk Hin]]. apply filter_In in Hin as [Hin _].
  apply in_map_iff. exists (k', v'). split; assumption.
Qed.

Lemma NoDup_all_eq {A} (l : list A) : NoDup l -> (forall a b, In a l -> In b l -> a = b) ->
  l = [] \/ exists c, l = [c].
Proof.
  intros Hnd Heq. destruct l as [|a [|b l]]; [left; reflexivity|right; exists a; reflexivity|].
  exfalso. inversion Hnd as [|x y Hn _]; subst. apply Hn.
  rewrite (Heq a b); [left; reflexivity|left; reflexivity|right; left; reflexivity].
Qed.

Lemma bm_candidates_g_nodup b r st : wf_idx st -> NoDup (bm_candidates_g b r st).
Proof.
  intros Hwf. unfold bm_candidates_g. destruct b; apply NoDup_map_fst_filter.
  - apply (wf_get_name st _ Hwf).
  - apply (wf_get_pre st _ Hwf).
Qed.

Lemma bm_candidates_nodup r st : wf_idx st -> NoDup (bm_candidates r st).
Proof. apply bm_candidates_g_nodup. Qed.

Lemma best_set_fx_unique fx st files cur r (P : list N -> bool) :
  wf_idx st ->
  (forall c, In c (bm_candidates r st) <-> In c files /\ P c = true) ->
  (forall c1 c2, In c1 files -> In c2 files -> P c1 = true -> P c2 = true -> c1 = c2) ->
  (best_set_fx fx cur r st = [] /\ forall c, In c files -> P c = false) \/
  (exists c, best_set_fx fx cur r st = [c] /\ In c files /\ P c = true).
Proof.
  intros Hwf H Hu. unfold best_set_fx.
  destruct (NoDup_all_eq (bm_candidates r st) (bm_candidates_nodup r st Hwf)) as [He|[c He]].
  - intros a b Ha Hb. apply H in Ha as [Ha1 Ha2]. apply H in Hb as [Hb1 Hb2]. apply Hu; assumption.
  - left. rewrite He. split; [apply best_of_nil; reflexivity|]. intros c Hc. destruct (P c) eqn:E; [|reflexivity].
    assert (In c (bm_candidates r st)) as Hin by (apply H; split; assumption). rewrite He in Hin. destruct Hin.
  - right. exists c. rewrite He. split; [|apply H; rewrite He; left; reflexivity].
    destruct (best_of fx cur r [c]) as [|x l] eqn:Eb.
    + apply best_of_nil in Eb. discriminate.
    + assert (forall y, In y (x :: l) -> y = c) as Hall.
      { intros y Hy. rewrite <- Eb in Hy. apply best_of_incl in Hy. rewrite argmax_single in Hy.
        destruct Hy as [<-|[]]. reflexivity. }
      assert (x = c) as -> by (apply Hall; left; reflexivity).
      destruct l as [|y l]; [reflexivity|]. exfalso.
      (* a second element: impossible, both variants return at most the candidates of maximal score without repeats *)
      destruct fx; cbn [best_of] in Eb.
      * destruct (best_match true cur r [c]); discriminate.
      * rewrite argmax_single in Eb. discriminate.
Qed.

Lemma so_not_lua x b : is_suffix (x ++ so_ext) (b ++ lua_ext) = false.
Proof.
  destruct (is_suffix (x ++ so_ext) (b ++ lua_ext)) eqn:E; [|reflexivity].
  apply is_suffix_spec in E as [p Hp]. rewrite app_assoc in Hp.
  apply (f_equal (fun l => last l 0%N)) in Hp.
  rewrite !last_app_ne in Hp by discriminate. discriminate.
Qed.

Lemma no_dot_not_lua s : ~ In dot s -> is_suffix lua_ext s = false.
Proof.
  intros H. destruct (is_suffix lua_ext s) eqn:E; [|reflexivity].
  apply is_suffix_spec in E as [p ->]. exfalso. apply H. apply in_or_app. right. left. reflexivity.
Qed.

(* the candidate list of definition / hover for require m; m' = the text the analysis works with *)
Lemma open_list_require cfg m : dotslash_fixed cfg = true \/ remove_pre_str m = m -> remove_pre_str m <> [] ->
  open_list cfg true false m =
  [mod_path (remove_pre_str m) ++ lua_ext; mod_path (remove_pre_str m) ++ so_ext; mod_path (remove_pre_str m) ++ init_tail].
Proof.
  intros Hds Hm. unfold open_list. cbn [andb].
  assert ((if dotslash_fixed cfg then remove_pre_str m else m) = remove_pre_str m) as ->.
  { destruct Hds as [-> | Hr]; [reflexivity|]. rewrite Hr. destruct (dotslash_fixed cfg); reflexivity. }
  fold (mod_path (remove_pre_str m)).
  rewrite (no_dot_not_lua (mod_path (remove_pre_str m)) (replace_no_dot (remove_pre_str m))).
  destruct (remove_pre_str m) as [|x t]; [contradiction|]. reflexivity.
Qed.

Theorem features_agree_g sfx disk cfg st files cur m :
  index_ok sfx st files -> all_good sfx files ->
  exact_mode cfg = false ->
  dotslash_fixed cfg = true \/ remove_pre_str m = m ->
  let m' := remove_pre_str m in
  m' <> [] ->
  mem_bytes m' (ignore_refer cfg) = false -> mem_bytes m' (ignore_modules cfg) = false ->
  disk (complete_path (main_dir cfg) (doc_so m')) = false ->
  unique_match (doc_lua m') files -> unique_match (doc_init m') files ->
  let out := check_refer disk cfg st cur KRequire m in
  let oo := open_outcomes cfg st (fun f => fmem f files) cur (open_list cfg true false m) in
  (r_resolved out = [] /\ oo = [None]) \/
  (exists it c, r_resolved out = [c] /\ oo = [Some (it, c)] /\ path_suffix it c = true /\
                (it = doc_lua m' \/ it = doc_init m')).
Proof.
  intros Hok Hgood He Hds. cbv zeta. intros Hm Hi1 Hi2 Hso Hu1 Hu2.
  rewrite (open_list_require cfg m Hds Hm). unfold check_refer. rewrite Hi1, Hi2, He. simpl andb. cbv iota.
  change (replace_byte dot slash (remove_pre_str m)) with (mod_path (remove_pre_str m)).
  unfold doc_so in Hso. rewrite Hso.
  unfold doc_lua, doc_init in *.
  set (mp := mod_path (remove_pre_str m)) in *.
  assert (has_dot mp = false) as Hnd by (apply has_dot_false; apply replace_no_dot).
  destruct Hok as [Hwf His].
  pose proof (conj Hwf His : index_ok sfx st files) as Hok.
  assert (has_dot (mp ++ lua_ext) = true) as Hdl by (apply has_dot_In; apply in_or_app; right; left; reflexivity).
  (* analysis, first lookup (pre map) and definition, first item (name map): same candidates *)
  destruct (best_set_fx_unique (order_fixed cfg) st files cur mp (path_suffix (mp ++ lua_ext)) Hwf
              (fun c => cands_pre sfx st files _ c Hok Hgood Hnd) Hu1) as [[Ea Hna]|[ca [Ea [Hca Hpa]]]];
  destruct (best_set_fx_unique (order_fixed cfg) st files cur (mp ++ lua_ext) (path_suffix (mp ++ lua_ext)) Hwf
              (fun c => cands_name sfx st files _ c Hok Hdl) Hu1)
    as [[Ed Hnd1]|[cd [Ed [Hcd Hpd]]]].
  - (* no name.lua anywhere: both go on to init.lua; the .so item finds nothing among ".lua" files *)
    simpl open_outcomes. rewrite Ed. simpl.
    assert (best_set_fx (order_fixed cfg) cur (mp ++ so_ext) st = []) as Es.
    { assert (has_dot (mp ++ so_ext) = true) as Hd by (apply has_dot_In; apply in_or_app; right; left; reflexivity).
      unfold best_set_fx.
      destruct (best_of_sub (order_fixed cfg) files cur (mp ++ so_ext) (bm_candidates (mp ++ so_ext) st)
                  (path_suffix (mp ++ so_ext)) (fun c => cands_name sfx st files _ c Hok Hd)) as [_ Hnil].
      apply Hnil. destruct (filter (path_suffix (mp ++ so_ext)) files) as [|g l] eqn:Ef; [reflexivity|].
      assert (In g (filter (path_suffix (mp ++ so_ext)) files)) as Hg by (rewrite Ef; left; reflexivity).
      apply filter_In in Hg as [Hg Hp]. destruct (good_lua_spec sfx g (Hgood g Hg)) as [b [-> _]].
      unfold path_suffix in Hp. change (slash :: mp ++ so_ext) with ((slash :: mp) ++ so_ext) in Hp.
      rewrite (so_not_lua (slash :: mp) b) in Hp. discriminate. }
    rewrite Es. simpl. rewrite Ea.
    destruct (best_set_fx_unique (order_fixed cfg) st files cur (mp ++ init_tail) (path_suffix (mp ++ init_tail)) Hwf
                (fun c => cands_name sfx st files _ c Hok (has_dot_init mp)) Hu2) as [[Ei Hni]|[ci [Ei [Hci Hpi]]]].
    + rewrite Ei. simpl. left. split; reflexivity.
    + rewrite Ei. simpl. apply fmem_In in Hci as Hci'. rewrite Hci'. simpl. right.
      exists (mp ++ init_tail), ci. repeat split; try reflexivity; [exact Hpi|right; reflexivity].
  - rewrite (Hna cd Hcd) in Hpd. discriminate.
  - rewrite (Hnd1 ca Hca) in Hpa. discriminate.
  - (* name.lua exists: both answer it *)
    assert (ca = cd) as -> by (apply Hu1; assumption).
    simpl open_outcomes. rewrite Ed, Ea. simpl. apply fmem_In in Hcd as Hcd'. rewrite Hcd'. simpl. right.
    exists (mp ++ lua_ext), cd. repeat split; try reflexivity; [exact Hpd|left; reflexivity].
Qed.

(* the code before fixes/C18-dotted-path.diff and fixes/C18-dot-slash-definition.diff *)
Theorem features_agree disk cfg st files cur m :
  index_ok false st files -> all_simple files ->
  exact_mode cfg = false ->
  remove_pre_str m = m -> m <> [] ->
  mem_bytes m (ignore_refer cfg) = false -> mem_bytes m (ignore_modules cfg) = false ->
  disk (complete_path (main_dir cfg) (doc_so m)) = false ->
  unique_match (doc_lua m) files -> unique_match (doc_init m) files ->
  let out := check_refer disk cfg st cur KRequire m in
  let oo := open_outcomes cfg st (fun f => fmem f files) cur (open_list cfg true false m) in
  (r_resolved out = [] /\ oo = [None]) \/
  (exists it c, r_resolved out = [c] /\ oo = [Some (it, c)] /\ path_suffix it c = true /\
                (it = doc_lua m \/ it = doc_init m)).
Proof.
  intros Hok Hs He Hpre Hm Hi1 Hi2 Hso Hu1 Hu2.
  pose proof (features_agree_g false disk cfg st files cur m Hok (proj1 (all_simple_good files) Hs) He (or_intror Hpre)) as H.
  cbv zeta in H. rewrite Hpre in H. exact (H Hm Hi1 Hi2 Hso Hu1 Hu2).
Qed.

(* the repaired code: every ".lua" workspace, every text (a leading "./" included) *)
Theorem features_agree_fixed disk cfg st files cur m :
  index_ok true st files -> all_lua files = true ->
  exact_mode cfg = false -> dotslash_fixed cfg = true ->
  let m' := remove_pre_str m in
  m' <> [] ->
  mem_bytes m' (ignore_refer cfg) = false -> mem_bytes m' (ignore_modules cfg) = false ->
  disk (complete_path (main_dir cfg) (doc_so m')) = false ->
  unique_match (doc_lua m') files -> unique_match (doc_init m') files ->
  let out := check_refer disk cfg st cur KRequire m in
  let oo := open_outcomes cfg st (fun f => fmem f files) cur (open_list cfg true false m) in
  (r_resolved out = [] /\ oo = [None]) \/
  (exists it c, r_resolved out = [c] /\ oo = [Some (it, c)] /\ path_suffix it c = true /\
                (it = doc_lua m' \/ it = doc_init m')).
Proof.
  intros Hok Hs He Hds.
  exact (features_agree_g true disk cfg st files cur m Hok (proj1 (all_lua_good files) Hs) He (or_introl Hds)).
Qed.

(* ---- the answers follow create/delete events ---- *)
Lemma index_ok_fixed sfx ops : index_ok sfx (idx_run_fixed_g sfx ops) (files_after ops).
Proof. split; [apply wf_run_fixed|apply fixed_refines]. Qed.

Lemma index_ok_unfixed sfx ops : abs_ops ops = true -> stale_remove ops = false ->
  index_ok sfx (idx_run_g sfx ops) (files_after ops).
Proof. intros Ha Hs. split; [apply wf_run|apply unfixed_refines_guarded; assumption]. Qed.

(* the deployed code (all repairs) *)
Theorem reacts_deployed disk cfg ops cur k refer : lit_fixed cfg = true ->
  (k <> KSuffix -> all_lua (files_after ops) = true) ->
  conforms (check_refer disk cfg (idx_run_fixed_g true ops) cur k refer) (spec_refer disk cfg (files_after ops) k refer) = true.
Proof. intros Hl H1. apply resolve_conforms_fixed; [apply index_ok_fixed|exact Hl|exact H1]. Qed.

(* RemoveOneFile repaired (ec76861), the rest as before *)
Theorem reacts_fixed disk cfg ops cur k refer :
  (k <> KSuffix -> all_simple (files_after ops)) ->
  (k = KSuffix -> has_dot (remove_pre_str refer) = true) ->
  conforms (check_refer disk cfg (idx_run_fixed_g false ops) cur k refer) (spec_refer disk cfg (files_after ops) k refer) = true.
Proof. intros H1 H2. apply resolve_conforms; [apply index_ok_fixed|exact H1|exact H2]. Qed.

Theorem reacts_unfixed disk cfg ops cur k refer :
  abs_ops ops = true -> stale_remove ops = false ->
  (k <> KSuffix -> all_simple (files_after ops)) ->
  (k = KSuffix -> has_dot (remove_pre_str refer) = true) ->
  conforms (check_refer disk cfg (idx_run_g false ops) cur k refer) (spec_refer disk cfg (files_after ops) k refer) = true.
Proof. intros Ha Hs H1 H2. apply resolve_conforms; [apply index_ok_unfixed; assumption|exact H1|exact H2]. Qed.
