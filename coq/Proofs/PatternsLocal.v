(* C20 - each check of Model/Patterns.v, taken at one node, against its pattern of Spec/PatternSpec.v *)
From Coq Require Import List NArith ZArith Bool Arith Lia.
From LH Require Import Base.Bytes Model.Lexer Model.Ast Model.Parser Spec.PatternSpec Model.Patterns.
Import ListNotations.
Local Open Scope N_scope.

(* ------------------------------------------------------------------ [reported] on list shapes *)
Lemma reported_nil ty L : ~ reported ty L [].
Proof. intros [r [H _]]; inversion H. Qed.

Lemma reported_app ty L a b : reported ty L (a ++ b) <-> reported ty L a \/ reported ty L b.
Proof.
  unfold reported; split.
  - intros [r [Hin Hr]]. apply in_app_or in Hin as [Hin|Hin]; [left|right]; exists r; auto.
  - intros [[r [Hin Hr]]|[r [Hin Hr]]]; exists r; split; auto; apply in_or_app; auto.
Qed.

Lemma reported_one ty L r : reported ty L [r] <-> r_ty r = ty /\ r_loc r = L.
Proof.
  unfold reported; split.
  - intros [r' [[Heq|[]] Hr]]; subst; auto.
  - intros H; exists r; split; [left; auto|auto].
Qed.

Lemma reported_cons ty L r rs : reported ty L (r :: rs) <-> (r_ty r = ty /\ r_loc r = L) \/ reported ty L rs.
Proof. change (r :: rs) with ([r] ++ rs). rewrite reported_app, reported_one. tauto. Qed.

Lemma reported_if ty L (c : bool) rs : reported ty L (if c then rs else []) <-> c = true /\ reported ty L rs.
Proof.
  destruct c; split; intros H; try tauto.
  - exfalso; eapply reported_nil; eauto.
  - destruct H; discriminate.
Qed.

Lemma tk_eqb_eq a b : tk_eqb a b = true <-> a = b.
Proof. unfold tk_eqb; destruct (tkind_eq_dec a b); split; congruence. Qed.

Lemma loc_eqb_eq a b : loc_eqb a b = true <-> a = b.
Proof.
  unfold loc_eqb; destruct a, b; cbn.
  rewrite !andb_true_iff, !Z.eqb_eq. split.
  - intros [[[? ?] ?] ?]; subst; auto.
  - intros H; inversion H; auto.
Qed.

(* ------------------------------------------------------------------ reflection of the small predicates *)
Lemma is_true_iff e : is_true e = true <-> IsTrue e.
Proof. unfold IsTrue; destruct e; cbn; split; try discriminate; eauto; intros [l0 H]; discriminate. Qed.
Lemma is_false_iff e : is_false e = true <-> IsFalse e.
Proof. unfold IsFalse; destruct e; cbn; split; try discriminate; eauto; intros [l0 H]; discriminate. Qed.
Lemma is_float_iff e : is_float e = true <-> IsFloat e.
Proof. unfold IsFloat; destruct e; cbn; split; try discriminate; eauto; intros [t0 [l0 H]]; discriminate. Qed.

Lemma cmp_op_iff op : cmp_op op = true <-> CmpOp op.
Proof.
  unfold CmpOp; split.
  - destruct op; cbn; try discriminate; intros _; tauto.
  - cbn. intros H. repeat (destruct H as [H|H]; [subst; reflexivity|]). destruct H.
Qed.

Lemma one_value_iff e : one_value e = true <-> OneValue e.
Proof. destruct e; cbn; split; auto; try discriminate; tauto. Qed.

Lemma forallb_one_value es : forallb one_value es = true <-> Forall OneValue es.
Proof.
  rewrite forallb_forall, Forall_forall. split; intros H x Hx; apply one_value_iff; auto.
Qed.

Section Local.
Variable fx : fixes.
Variable fclose : list N -> list N -> bool.

Lemma both_placed_iff e1 e2 : both_placed fx e1 e2 = true <-> has_place fx e1 /\ has_place fx e2.
Proof. unfold both_placed, has_place. rewrite andb_true_iff, !negb_true_iff. tauto. Qed.

(* ------------------------------------------------------------------ 21 15 16 *)
Lemma check21_types op e1 e2 l r : In r (check21 op e1 e2 l) -> r_ty r = 21.
Proof. unfold check21. destruct (_ && _); [intros [<-|[]]; reflexivity|intros []]. Qed.
Lemma check15_types op e1 e2 r : In r (check15 fx op e1 e2) -> r_ty r = 15.
Proof. unfold check15. destruct (_ && _); [intros [<-|[]]; reflexivity|intros []]. Qed.
Lemma check16_types op e1 e2 r : In r (check16 fx op e1 e2) -> r_ty r = 16.
Proof. unfold check16. destruct (_ && _); [intros [<-|[]]; reflexivity|intros []]. Qed.
Lemma check14_types op e1 e2 r : In r (check14 fx fclose op e1 e2) -> r_ty r = 14.
Proof.
  unfold check14. destruct (cmp_op op); [|intros []].
  destruct (has_hash (exp_name e1)); [intros []|].
  destruct (has_hash (exp_name e2)); [intros []|].
  destruct (_ && _ && _); [intros [<-|[]]; reflexivity|intros []].
Qed.

Lemma not_reported_other ty L rs t :
  (forall r, In r rs -> r_ty r = t) -> ty <> t -> ~ reported ty L rs.
Proof. intros Hall Hne [r [Hin [Hty _]]]. apply Hne. rewrite <- Hty. auto. Qed.

(* what binop_checks says about one type = what the check of that type says *)
Lemma binop_checks_21 op e1 e2 l L :
  reported 21 L (binop_checks fx fclose op e1 e2 l) <-> reported 21 L (check21 op e1 e2 l).
Proof.
  unfold binop_checks. rewrite !reported_app. split; [|tauto].
  intros [H|[H|[H|H]]]; auto; exfalso; revert H.
  - apply not_reported_other with (t := 15); [apply check15_types|discriminate].
  - apply not_reported_other with (t := 16); [apply check16_types|discriminate].
  - apply not_reported_other with (t := 14); [apply check14_types|discriminate].
Qed.
Lemma binop_checks_15 op e1 e2 l L :
  reported 15 L (binop_checks fx fclose op e1 e2 l) <-> reported 15 L (check15 fx op e1 e2).
Proof.
  unfold binop_checks. rewrite !reported_app. split; [|tauto].
  intros [H|[H|[H|H]]]; auto; exfalso; revert H.
  - apply not_reported_other with (t := 16); [apply check16_types|discriminate].
  - apply not_reported_other with (t := 21); [apply check21_types|discriminate].
  - apply not_reported_other with (t := 14); [apply check14_types|discriminate].
Qed.
Lemma binop_checks_16 op e1 e2 l L :
  reported 16 L (binop_checks fx fclose op e1 e2 l) <-> reported 16 L (check16 fx op e1 e2).
Proof.
  unfold binop_checks. rewrite !reported_app. split; [|tauto].
  intros [H|[H|[H|H]]]; auto; exfalso; revert H.
  - apply not_reported_other with (t := 15); [apply check15_types|discriminate].
  - apply not_reported_other with (t := 21); [apply check21_types|discriminate].
  - apply not_reported_other with (t := 14); [apply check14_types|discriminate].
Qed.
Lemma binop_checks_14 op e1 e2 l L :
  reported 14 L (binop_checks fx fclose op e1 e2 l) <-> reported 14 L (check14 fx fclose op e1 e2).
Proof.
  unfold binop_checks. rewrite !reported_app. split; [|tauto].
  intros [H|[H|[H|H]]]; auto; exfalso; revert H.
  - apply not_reported_other with (t := 15); [apply check15_types|discriminate].
  - apply not_reported_other with (t := 16); [apply check16_types|discriminate].
  - apply not_reported_other with (t := 21); [apply check21_types|discriminate].
Qed.

Lemma t21_iff op e1 e2 l L :
  reported 21 L (binop_checks fx fclose op e1 e2 l) <-> Pattern21 op e1 e2 /\ L = l.
Proof.
  rewrite binop_checks_21. unfold check21, Pattern21.
  rewrite reported_if, reported_one, andb_true_iff, !orb_true_iff, !tk_eqb_eq, !is_float_iff.
  cbn [r_ty r_loc t_floateq]. intuition congruence.
Qed.

Lemma t15_iff op e1 e2 l L :
  reported 15 L (binop_checks fx fclose op e1 e2 l)
  <-> Pattern15 op e1 e2 /\ has_place fx e1 /\ has_place fx e2 /\ L = operands_loc fx e1 e2.
Proof.
  rewrite binop_checks_15. unfold check15, Pattern15.
  rewrite reported_if, reported_one, !andb_true_iff, orb_true_iff, tk_eqb_eq, !is_true_iff, both_placed_iff.
  cbn [r_ty r_loc t_ortrue]. intuition congruence.
Qed.

Lemma t16_iff op e1 e2 l L :
  reported 16 L (binop_checks fx fclose op e1 e2 l)
  <-> Pattern16 op e1 e2 /\ has_place fx e1 /\ has_place fx e2 /\ L = operands_loc fx e1 e2.
Proof.
  rewrite binop_checks_16. unfold check16, Pattern16.
  rewrite reported_if, reported_one, !andb_true_iff, orb_true_iff, tk_eqb_eq, !is_false_iff, both_placed_iff.
  cbn [r_ty r_loc t_andfalse]. intuition congruence.
Qed.

(* the place: GetExpLoc = the node's own Loc except for nil / BadExpr *)
Definition located (e : exp) : Prop := get_exp_loc fx e = exp_loc e /\ exp_loc e <> zero_loc.
Lemma located_has_place e : located e -> has_place fx e.
Proof.
  intros [H1 H2]. unfold has_place, is_initial_loc. rewrite H1.
  destruct (loc_eqb (exp_loc e) zero_loc) eqn:E; auto. apply loc_eqb_eq in E. contradiction.
Qed.
Lemma located_operands e1 e2 : located e1 -> located e2 -> operands_loc fx e1 e2 = span (exp_loc e1) (exp_loc e2).
Proof. intros [H1 _] [H2 _]. unfold operands_loc, range_loc, span. rewrite H1, H2. reflexivity. Qed.

Lemma t15_iff_guarded op e1 e2 l L :
  located e1 -> located e2 ->
  (reported 15 L (binop_checks fx fclose op e1 e2 l) <-> Pattern15 op e1 e2 /\ L = span (exp_loc e1) (exp_loc e2)).
Proof.
  intros G1 G2. rewrite t15_iff, (located_operands _ _ G1 G2).
  pose proof (located_has_place _ G1). pose proof (located_has_place _ G2). tauto.
Qed.
Lemma t16_iff_guarded op e1 e2 l L :
  located e1 -> located e2 ->
  (reported 16 L (binop_checks fx fclose op e1 e2 l) <-> Pattern16 op e1 e2 /\ L = span (exp_loc e1) (exp_loc e2)).
Proof.
  intros G1 G2. rewrite t16_iff, (located_operands _ _ G1 G2).
  pose proof (located_has_place _ G1). pose proof (located_has_place _ G2). tauto.
Qed.

(* ------------------------------------------------------------------ 7 8 20 *)
Lemma t7_iff vars es l L :
  reported 7 L (assign_checks fx fclose vars es l) <-> Pattern7 vars es /\ L = l.
Proof.
  unfold assign_checks, Pattern7.
  destruct (Nat.ltb (length vars) (length es)) eqn:E1.
  - apply Nat.ltb_lt in E1. rewrite reported_one. cbn [r_ty r_loc t_assign]. intuition.
  - apply Nat.ltb_ge in E1. destruct (Nat.ltb (length es) (length vars)) eqn:E2.
    + apply Nat.ltb_lt in E2. rewrite reported_if, reported_one, forallb_one_value. cbn [r_ty r_loc t_assign].
      intuition; try lia.
    + apply Nat.ltb_ge in E2. rewrite reported_if, reported_one. cbn [r_ty r_loc t_selfassign].
      split; [intros [_ [H _]]; discriminate|intros [[H|[H _]] _]; lia].
Qed.

Lemma t8_iff names es l L :
  reported 8 L (local_checks names es l) <-> Pattern8 names es /\ L = l.
Proof.
  unfold local_checks, Pattern8.
  destruct (Nat.ltb (length names) (length es)) eqn:E1.
  - apply Nat.ltb_lt in E1. rewrite reported_one. cbn [r_ty r_loc t_local]. intuition.
  - apply Nat.ltb_ge in E1. rewrite reported_if, reported_one, !andb_true_iff, forallb_one_value, !Nat.ltb_lt.
    cbn [r_ty r_loc t_local].
    assert (Hne : (0 < length es)%nat <-> es <> []) by (destruct es; cbn; split; intros; try lia; congruence).
    rewrite Hne. intuition; lia.
Qed.

Lemma forallb2_Forall2 {A B} (f : A -> B -> bool) l1 l2 :
  forallb2 f l1 l2 = true <-> Forall2 (fun x y => f x y = true) l1 l2.
Proof.
  revert l2; induction l1 as [|x r IH]; intros [|y s]; cbn; split; intros H; try discriminate; try constructor;
    try solve [inversion H].
  - apply andb_true_iff in H; tauto.
  - apply IH. apply andb_true_iff in H; tauto.
  - inversion H; subst. apply andb_true_iff; split; auto. apply IH; auto.
Qed.

Lemma Forall2_len {A B} (R : A -> B -> Prop) l1 l2 : Forall2 R l1 l2 -> length l1 = length l2.
Proof. induction 1; cbn; auto. Qed.

Lemma t20_iff vars es l L :
  reported 20 L (assign_checks fx fclose vars es l)
  <-> Forall2 (fun v e => cmp fx fclose v e = true) vars es /\ L = l.
Proof.
  unfold assign_checks.
  destruct (Nat.ltb (length vars) (length es)) eqn:E1.
  - apply Nat.ltb_lt in E1. rewrite reported_one. cbn [r_ty r_loc t_assign].
    split; [intros [H _]; discriminate|intros [H _]; apply Forall2_len in H; lia].
  - destruct (Nat.ltb (length es) (length vars)) eqn:E2.
    + apply Nat.ltb_lt in E2. rewrite reported_if, reported_one. cbn [r_ty r_loc t_assign].
      split; [intros [_ [H _]]; discriminate|intros [H _]; apply Forall2_len in H; lia].
    + rewrite reported_if, reported_one, forallb2_Forall2. cbn [r_ty r_loc t_selfassign]. intuition.
Qed.

End Local.

(* ------------------------------------------------------------------ 13 *)
Lemma is_underscore_iff s : is_underscore s = true <-> s = [95].
Proof. unfold is_underscore. apply beq_bytes_eq. Qed.

Lemma param_later_iff x rest ty L :
  reported ty L (param_later x rest)
  <-> ty = 13 /\ exists j, nth_error rest j = Some (x, L) /\ x <> [95].
Proof.
  induction rest as [|[y l] r IH]; cbn [param_later flat_map].
  - split; [intros H; exfalso; eapply reported_nil; eauto|intros [_ [j [H _]]]; destruct j; discriminate].
  - fold (param_later x r). rewrite reported_app, IH. cbn [fst snd].
    rewrite reported_if, reported_one, andb_true_iff, negb_true_iff. cbn [r_ty r_loc t_param].
    split.
    + intros [[[Hu Hb] [Ht Hl]]|[Ht [j [Hj Hx]]]].
      * apply beq_bytes_eq in Hb. subst. split; auto. exists O. split; auto.
        intros Hc. rewrite <- is_underscore_iff in Hc. congruence.
      * split; auto. exists (S j). auto.
    + intros [Ht [[|j] [Hj Hx]]]; cbn in Hj.
      * inversion Hj; subst. left. repeat split; auto.
        -- destruct (is_underscore x) eqn:E; auto. apply is_underscore_iff in E. contradiction.
        -- apply beq_bytes_eq; auto.
      * right. split; auto. exists j; auto.
Qed.

Lemma param_pairs_iff ps ty L :
  reported ty L (param_pairs ps)
  <-> ty = 13 /\ exists i j x li, (i < j)%nat /\ nth_error ps i = Some (x, li) /\ nth_error ps j = Some (x, L) /\ x <> [95].
Proof.
  induction ps as [|[x l] r IH]; cbn [param_pairs].
  - split; [intros H; exfalso; eapply reported_nil; eauto|].
    intros [_ [i [j [x [li [_ [H _]]]]]]]; destruct i; discriminate.
  - rewrite reported_app, IH, param_later_iff. split.
    + intros [[Ht [j [Hj Hx]]]|[Ht [i [j [y [li [Hlt [Hi [Hj Hy]]]]]]]]]; split; auto.
      * exists O, (S j), x, l. repeat split; auto; lia.
      * exists (S i), (S j), y, li. repeat split; auto; lia.
    + intros [Ht [i [j [y [li [Hlt [Hi [Hj Hy]]]]]]]].
      destruct j as [|j]; [lia|]. destruct i as [|i]; cbn in Hi, Hj.
      * inversion Hi; subst. left. split; auto. exists j; auto.
      * right. split; auto. exists i, j, y, li. repeat split; auto; lia.
Qed.

Lemma nth_error_combine {A B} (l1 : list A) (l2 : list B) j x y :
  nth_error (combine l1 l2) j = Some (x, y) <-> nth_error l1 j = Some x /\ nth_error l2 j = Some y.
Proof.
  revert l2 j; induction l1 as [|a r IH]; intros [|b s] [|j]; cbn; try (split; [discriminate|intros [? ?]; discriminate]).
  - split; [intros H; inversion H; auto|intros [H1 H2]; inversion H1; inversion H2; auto].
  - apply IH.
Qed.

Lemma t13_iff pars plocs L :
  length pars = length plocs ->
  (reported 13 L (param_checks pars plocs) <-> exists j, Pattern13 pars j /\ nth_error plocs j = Some L).
Proof.
  intros Hlen. unfold param_checks, Pattern13. rewrite param_pairs_iff. split.
  - intros [_ [i [j [x [li [Hlt [Hi [Hj Hx]]]]]]]].
    apply nth_error_combine in Hi as [Hi _]. apply nth_error_combine in Hj as [Hj Hl].
    exists j. split; auto. exists x. repeat split; auto. exists i; auto.
  - intros [j [[x [Hj [Hx [i [Hlt Hi]]]]] Hl]]. split; auto.
    assert (Hil : exists li, nth_error plocs i = Some li).
    { destruct (nth_error plocs i) eqn:E; eauto. apply nth_error_None in E.
      assert (i < length pars)%nat by (apply nth_error_Some; congruence). lia. }
    destruct Hil as [li Hil].
    exists i, j, x, li. repeat split; auto; apply nth_error_combine; auto.
Qed.

(* ------------------------------------------------------------------ 19 (in terms of CompExp) *)
Section Local19.
Variable fx : fixes.
Variable fclose : list N -> list N -> bool.

Lemma if_later_iff x rest ty L :
  reported ty L (if_later fx fclose x rest)
  <-> ty = 19 /\ exists j c, nth_error rest j = Some c /\ cmp fx fclose x c = true /\ get_exp_loc fx c = L.
Proof.
  induction rest as [|y r IH]; cbn [if_later flat_map].
  - split; [intros H; exfalso; eapply reported_nil; eauto|intros [_ [j [c [H _]]]]; destruct j; discriminate].
  - fold (if_later fx fclose x r). rewrite reported_app, IH, reported_if, reported_one. cbn [r_ty r_loc t_dupif]. split.
    + intros [[Hc [Ht Hl]]|[Ht [j [c [Hj Hc]]]]]; split; auto.
      * exists O, y. auto.
      * exists (S j), c. auto.
    + intros [Ht [[|j] [c [Hj Hc]]]]; cbn in Hj.
      * inversion Hj; subst. left. tauto.
      * right. split; auto. exists j, c. auto.
Qed.

Lemma t19_iff es L :
  reported 19 L (if_checks fx fclose es)
  <-> exists j c, nth_error es j = Some c /\ get_exp_loc fx c = L /\
                  exists i c', (i < j)%nat /\ nth_error es i = Some c' /\ cmp fx fclose c' c = true.
Proof.
  induction es as [|x r IH]; cbn [if_checks].
  - split; [intros H; exfalso; eapply reported_nil; eauto|intros [j [c [H _]]]; destruct j; discriminate].
  - rewrite reported_app, IH, if_later_iff. split.
    + intros [[_ [j [c [Hj [Hc Hl]]]]]|[j [c [Hj [Hl [i [c' [Hlt [Hi Hc]]]]]]]]].
      * exists (S j), c. repeat split; auto. exists O, x. repeat split; auto; lia.
      * exists (S j), c. repeat split; auto. exists (S i), c'. repeat split; auto; lia.
    + intros [j [c [Hj [Hl [i [c' [Hlt [Hi Hc]]]]]]]].
      destruct j as [|j]; [lia|]. destruct i as [|i]; cbn in Hi, Hj.
      * inversion Hi; subst. left. split; auto. exists j, c. auto.
      * right. exists j, c. repeat split; auto. exists i, c'. repeat split; auto; lia.
Qed.

End Local19.

(* ------------------------------------------------------------------ 5 (in terms of the key strings of the code) *)
Section Local5.
Variable fx : fixes.

Lemma mem_bytes_iff x l : mem_bytes x l = true <-> In x l.
Proof.
  induction l as [|y t IH]; cbn; [split; [discriminate|tauto]|].
  rewrite orb_true_iff, IH, beq_bytes_eq. split; intros [H|H]; auto.
Qed.

(* the key string the code files key number i under, if any *)
Definition code_key (parent : loc) (k : option exp) : option (list N * loc) :=
  match k with
  | Some ke => match key_str fx ke parent with
               | Some (key, _, l) => match key with [] => None | _ => Some (key, l) end
               | None => None
               end
  | None => None
  end.

Lemma table_checks_iff ks parent seen ty L :
  reported ty L (table_checks fx ks parent seen)
  <-> ty = 5 /\ exists j key, option_map (code_key parent) (nth_error ks j) = Some (Some (key, L)) /\
                   (In key seen \/ exists i l', (i < j)%nat /\
                                           option_map (code_key parent) (nth_error ks i) = Some (Some (key, l'))).
Proof.
  revert seen; induction ks as [|k r IH]; intros seen; cbn [table_checks].
  - split; [intros H; exfalso; eapply reported_nil; eauto|intros [_ [j [key [H _]]]]; destruct j; discriminate].
  - (* one step: relate the head to code_key *)
    assert (Hskip : code_key parent k = None ->
                    (reported ty L (table_checks fx r parent seen) <->
                     ty = 5 /\ exists j key, option_map (code_key parent) (nth_error (k :: r) j) = Some (Some (key, L)) /\
                       (In key seen \/ exists i l', (i < j)%nat /\
                          option_map (code_key parent) (nth_error (k :: r) i) = Some (Some (key, l'))))).
    { intros Hk. rewrite IH. split.
      - intros [Ht [j [key [Hj Hor]]]]. split; auto. exists (S j), key. split; auto.
        destruct Hor as [Hs|[i [l' [Hlt Hi]]]]; auto. right. exists (S i), l'. split; auto; lia.
      - intros [Ht [j [key [Hj Hor]]]]. split; auto.
        destruct j as [|j]; cbn in Hj; [rewrite Hk in Hj; discriminate|].
        exists j, key. split; auto.
        destruct Hor as [Hs|[i [l' [Hlt Hi]]]]; auto. right.
        destruct i as [|i]; cbn in Hi; [rewrite Hk in Hi; discriminate|]. exists i, l'. split; auto; lia. }
    destruct k as [ke|]; [|apply Hskip; reflexivity].
    destruct (key_str fx ke parent) as [[[key show] l]|] eqn:Ek; [|apply Hskip; cbn; rewrite Ek; reflexivity].
    destruct key as [|c key']; [apply Hskip; cbn; rewrite Ek; reflexivity|].
    assert (Hck : code_key parent (Some ke) = Some (c :: key', l)) by (cbn; rewrite Ek; reflexivity).
    destruct (mem_bytes (c :: key') seen) eqn:Em.
    + apply mem_bytes_iff in Em. rewrite reported_cons, IH. cbn [r_ty r_loc t_dupkey]. split.
      * intros [[Ht Hl]|[Ht [j [key [Hj Hor]]]]]; split; auto.
        -- exists O, (c :: key'). cbn. rewrite Ek. subst. auto.
        -- exists (S j), key. split; auto.
           destruct Hor as [Hs|[i [l' [Hlt Hi]]]]; auto. right. exists (S i), l'. split; auto; lia.
      * intros [Ht [j [key [Hj Hor]]]].
        destruct j as [|j]; cbn [nth_error option_map] in Hj.
        -- rewrite Hck in Hj. inversion Hj; subst. left; auto.
        -- right. split; auto. exists j, key. split; auto.
           destruct Hor as [Hs|[i [l' [Hlt Hi]]]]; auto.
           destruct i as [|i]; cbn [nth_error option_map] in Hi.
           ++ rewrite Hck in Hi. inversion Hi; subst. auto.
           ++ right. exists i, l'. split; auto; lia.
    + assert (Hnin : ~ In (c :: key') seen) by (rewrite <- mem_bytes_iff; congruence).
      rewrite IH. split.
      * intros [Ht [j [key [Hj Hor]]]]. split; auto. exists (S j), key. split; auto.
        destruct Hor as [[Hs|Hs]|[i [l' [Hlt Hi]]]]; auto.
        -- right. exists O, l. split; [lia|]. cbn [nth_error option_map]. rewrite Hck. subst; auto.
        -- right. exists (S i), l'. split; auto; lia.
      * intros [Ht [j [key [Hj Hor]]]]. split; auto.
        destruct j as [|j]; cbn [nth_error option_map] in Hj.
        -- rewrite Hck in Hj. inversion Hj; subst. destruct Hor as [Hs|[i [l' [Hlt _]]]]; [contradiction|lia].
        -- exists j, key. split; auto.
           destruct Hor as [Hs|[i [l' [Hlt Hi]]]]; [left; right; auto|].
           destruct i as [|i]; cbn [nth_error option_map] in Hi.
           ++ rewrite Hck in Hi. inversion Hi; subst. left; left; auto.
           ++ right. exists i, l'. split; auto; lia.
Qed.

Lemma t5_iff ks parent L :
  reported 5 L (table_checks fx ks parent [])
  <-> exists j key, option_map (code_key parent) (nth_error ks j) = Some (Some (key, L)) /\
        exists i l', (i < j)%nat /\ option_map (code_key parent) (nth_error ks i) = Some (Some (key, l')).
Proof.
  rewrite table_checks_iff. split.
  - intros [_ [j [key [Hj [[]|H]]]]]. eauto.
  - intros [j [key [Hj H]]]. split; auto. exists j, key. auto.
Qed.
End Local5.
