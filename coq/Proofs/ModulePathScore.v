(* The score GetBestMatchReferFile gives a candidate does not depend on whether the reference is written "name"
   (the analysis: CheckReferFile looks the module up without suffix) or "name.lua" (definition / hover: the first item
   of GetOpenFileStr). Before fixes/C18-score-position.diff (calc_score_g false: strings.LastIndex(cand, name)) this
   failed for the six module names that occur inside the text "lua" itself (a, l, u, lu, ua, lua), where the search
   finds the name inside the suffix; the repaired score (calc_score = calc_score_g true: the occurrence of "/" + name)
   has no exception. Hence the two features choose the SAME file among equally named modules in several directories
   (features_agree_scored: no uniqueness premise, no excluded name). *)
From Coq Require Import List Arith PeanoNat NArith ZArith Bool Lia Permutation.
From LH Require Import Base.Bytes Model.FileIndex Model.ModulePath Spec.ModuleSpec
  Proofs.FileIndexProofs Proofs.ModulePathStr Proofs.MergeDet Proofs.ModulePathProofs Proofs.ModulePathEvents.
Import ListNotations.

(* ---- strings.LastIndex ---- *)
Lemma last_index_spec sub s :
  match last_index sub s with
  | Some i => (i <= length s)%nat /\ is_prefix sub (skipn i s) = true /\
              forall j, (j <= length s)%nat -> is_prefix sub (skipn j s) = true -> (j <= i)%nat
  | None => forall j, (j <= length s)%nat -> is_prefix sub (skipn j s) = false
  end.
Proof.
  induction s as [|x t IH]; cbn [last_index].
  - destruct (is_prefix sub []) eqn:E.
    + split; [cbn; lia|]. split; [exact E|]. intros j Hj _. cbn in Hj. lia.
    + intros j Hj. cbn in Hj. assert (j = O) as -> by lia. exact E.
  - destruct (last_index sub t) as [k|].
    + destruct IH as [Hk [Hp Hmax]]. split; [cbn; lia|]. split; [exact Hp|].
      intros [|j] Hj Hpj; [lia|]. cbn in Hj. cbn [skipn] in Hpj. specialize (Hmax j ltac:(lia) Hpj). lia.
    + destruct (is_prefix sub (x :: t)) eqn:E.
      * split; [cbn; lia|]. split; [exact E|].
        intros [|j] Hj Hpj; [lia|]. cbn in Hj. cbn [skipn] in Hpj. rewrite (IH j ltac:(lia)) in Hpj. discriminate.
      * intros [|j] Hj; [exact E|]. cbn in Hj. cbn [skipn]. apply IH. lia.
Qed.

Lemma is_prefix_refl_app p r : is_prefix p (p ++ r) = true.
Proof. induction p as [|x p IH]; [reflexivity|]. cbn. rewrite N.eqb_refl. exact IH. Qed.

(* a prefix match that runs over position |a| of (a ++ x :: r) contains x *)
Lemma is_prefix_crosses p a x r : is_prefix p (a ++ x :: r) = true -> (length a < length p)%nat -> In x p.
Proof.
  revert a; induction p as [|y p IH]; intros a H Hl; [cbn in Hl; lia|].
  destruct a as [|z a]; cbn in H.
  - apply andb_true_iff in H as [H _]. apply N.eqb_eq in H. left. exact H.
  - apply andb_true_iff in H as [_ H]. right. apply (IH a H). cbn in Hl. lia.
Qed.

Lemma is_prefix_length p s : is_prefix p s = true -> (length p <= length s)%nat.
Proof.
  revert s; induction p as [|x p IH]; intros s H; [cbn; lia|].
  destruct s as [|y s]; [discriminate|]. cbn in H. apply andb_true_iff in H as [_ H]. specialize (IH s H). cbn. lia.
Qed.

Lemma prefix_of_lua_overlap mp t : mp <> [] ->
  In t [[108; 117; 97]; [117; 97]; [97]; []]%N -> is_prefix mp t = true -> lua_overlap mp = true.
Proof.
  intros Hne Ht Hp.
  destruct Ht as [<-|[<-|[<-|[<-|[]]]]];
    destruct mp as [|a [|b [|c [|e mp']]]]; try contradiction; cbn in Hp;
    repeat (apply andb_true_iff in Hp as [? Hp]); try discriminate;
    repeat match goal with H : (_ =? _)%N = true |- _ => apply N.eqb_eq in H; subst end; reflexivity.
Qed.

(* the last occurrence of mp in X ++ mp ++ ".lua" is the one before the suffix *)
Lemma last_index_before_suffix X mp : mp <> [] -> ~ In dot mp -> lua_overlap mp = false ->
  last_index mp (X ++ mp ++ lua_ext) = Some (length X).
Proof.
  intros Hne Hnd Hov. pose proof (last_index_spec mp (X ++ mp ++ lua_ext)) as H.
  assert (is_prefix mp (skipn (length X) (X ++ mp ++ lua_ext)) = true) as Hocc.
  { rewrite skipn_app, skipn_all, Nat.sub_diag. cbn [skipn app]. apply is_prefix_refl_app. }
  assert (forall j, (j <= length (X ++ mp ++ lua_ext))%nat ->
            is_prefix mp (skipn j (X ++ mp ++ lua_ext)) = true -> (j <= length X)%nat) as Hmax.
  { intros j Hj Hp. destruct (Nat.le_gt_cases j (length X)) as [Hle|Hgt]; [exact Hle|]. exfalso.
    rewrite skipn_app in Hp. rewrite (skipn_all2 X) in Hp by lia. cbn [app] in Hp.
    set (k := (j - length X)%nat) in *. assert (k > 0)%nat as Hk by (subst k; lia).
    destruct (Nat.le_gt_cases k (length mp)) as [Hkm|Hkm].
    - (* starts inside mp, runs over the '.' *)
      rewrite skipn_app in Hp. replace (k - length mp)%nat with O in Hp by lia. cbn [skipn] in Hp.
      unfold lua_ext in Hp. change ([46; 108; 117; 97]%N) with (dot :: [108; 117; 97]%N) in Hp.
      apply Hnd. apply (is_prefix_crosses mp (skipn k mp) dot _ Hp). rewrite skipn_length.
      destruct mp as [|y mp']; [contradiction|]. cbn [length] in *. lia.
    - (* starts after the '.': inside "lua" *)
      rewrite skipn_app in Hp. rewrite (skipn_all2 mp) in Hp by lia. cbn [app] in Hp.
      set (d := (k - length mp)%nat) in *. assert (d > 0)%nat as Hd by (subst d; lia).
      assert (In (skipn d lua_ext) [[108; 117; 97]; [117; 97]; [97]; []]%N) as Hin.
      { unfold lua_ext. destruct d as [|[|[|[|d]]]]; [lia| | | |]; cbn [skipn].
        - left. reflexivity.
        - right. left. reflexivity.
        - right. right. left. reflexivity.
        - right. right. right. left. destruct d; reflexivity. }
      rewrite (prefix_of_lua_overlap mp _ Hne Hin Hp) in Hov. discriminate. }
  destruct (last_index mp (X ++ mp ++ lua_ext)) as [i|].
  - destruct H as [Hi [Hp Hm]]. f_equal.
    assert (length X <= length (X ++ mp ++ lua_ext))%nat as HX by (rewrite app_length; lia).
    specialize (Hm (length X) HX Hocc). specialize (Hmax i Hi Hp). lia.
  - assert (length X <= length (X ++ mp ++ lua_ext))%nat as HX by (rewrite app_length; lia).
    rewrite (H (length X) HX) in Hocc. discriminate.
Qed.

Lemma last_index_full_suffix X r : r <> [] -> last_index r (X ++ r) = Some (length X).
Proof.
  intros Hne. pose proof (last_index_spec r (X ++ r)) as H.
  assert (is_prefix r (skipn (length X) (X ++ r)) = true) as Hocc.
  { rewrite skipn_app, skipn_all, Nat.sub_diag. cbn [skipn app]. rewrite <- (app_nil_r r) at 2. apply is_prefix_refl_app. }
  assert (length X <= length (X ++ r))%nat as HX by (rewrite app_length; lia).
  destruct (last_index r (X ++ r)) as [i|].
  - destruct H as [Hi [Hp Hm]]. f_equal. specialize (Hm (length X) HX Hocc).
    apply is_prefix_length in Hp. rewrite skipn_length, app_length in Hp. rewrite app_length in Hi. lia.
  - rewrite (H (length X) HX) in Hocc. discriminate.
Qed.

(* ---- the score ---- *)
(* before fixes/C18-score-position.diff *)
Lemma calc_score_suffix_indep_before_fix cur mp c : mp <> [] -> ~ In dot mp -> lua_overlap mp = false ->
  path_suffix (mp ++ lua_ext) c = true ->
  calc_score_g false cur mp c = calc_score_g false cur (mp ++ lua_ext) c.
Proof.
  intros Hne Hnd Hov Hs. unfold path_suffix in Hs. apply is_suffix_spec in Hs as [P ->].
  unfold calc_score_g.
  replace (P ++ slash :: mp ++ lua_ext) with ((P ++ [slash]) ++ mp ++ lua_ext) by (rewrite <- app_assoc; reflexivity).
  rewrite (last_index_before_suffix (P ++ [slash]) mp Hne Hnd Hov).
  rewrite (last_index_full_suffix (P ++ [slash]) (mp ++ lua_ext)) by (destruct mp; [contradiction|discriminate]).
  reflexivity.
Qed.

(* the repaired score: the last occurrence of "/" + r in P ++ "/" ++ r ++ t (t without '/') is the one at |P|: a later
   one would have to hold as many '/' as "/" + r inside a proper suffix of r ++ t *)
Fixpoint nslash (s : list N) : nat :=
  match s with [] => O | x :: t => (if N.eqb x slash then 1 else 0) + nslash t end.

Lemma nslash_app a b : nslash (a ++ b) = (nslash a + nslash b)%nat.
Proof. induction a as [|x a IH]; [reflexivity|]. cbn [app nslash]. rewrite IH. lia. Qed.

Lemma nslash_skipn k s : (nslash (skipn k s) <= nslash s)%nat.
Proof.
  revert s; induction k as [|k IH]; intros s; [cbn; lia|]. destruct s as [|x s]; [cbn; lia|].
  cbn [skipn nslash]. specialize (IH s). lia.
Qed.

Lemma nslash_prefix p s : is_prefix p s = true -> (nslash p <= nslash s)%nat.
Proof.
  revert s; induction p as [|x p IH]; intros s H; [cbn; lia|].
  destruct s as [|y s]; [discriminate|]. cbn in H. apply andb_true_iff in H as [Hx H]. apply N.eqb_eq in Hx. subst y.
  cbn [nslash]. specialize (IH s H). lia.
Qed.

Lemma nslash_none t : ~ In slash t -> nslash t = O.
Proof.
  induction t as [|x t IH]; intros H; [reflexivity|]. cbn [nslash].
  destruct (N.eqb_spec x slash) as [->|_]; [exfalso; apply H; left; reflexivity|].
  rewrite IH; [reflexivity|]. intros Hi. apply H. right. exact Hi.
Qed.

Lemma last_index_slash_occ P r t : ~ In slash t ->
  last_index (slash :: r) (P ++ slash :: r ++ t) = Some (length P).
Proof.
  intros Ht. set (whole := P ++ slash :: r ++ t). pose proof (last_index_spec (slash :: r) whole) as H.
  assert (is_prefix (slash :: r) (skipn (length P) whole) = true) as Hocc.
  { subst whole. rewrite skipn_app, skipn_all, Nat.sub_diag. cbn [skipn app].
    change (slash :: r ++ t) with ((slash :: r) ++ t). apply is_prefix_refl_app. }
  assert (length P <= length whole)%nat as HX by (subst whole; rewrite app_length; lia).
  assert (forall j, (j <= length whole)%nat -> is_prefix (slash :: r) (skipn j whole) = true -> (j <= length P)%nat) as Hmax.
  { intros j Hj Hp. destruct (Nat.le_gt_cases j (length P)) as [Hle|Hgt]; [exact Hle|]. exfalso.
    subst whole. rewrite skipn_app in Hp. rewrite (skipn_all2 P) in Hp by lia. cbn [app] in Hp.
    destruct (j - length P)%nat as [|k] eqn:Ek; [lia|]. cbn [skipn] in Hp.
    apply nslash_prefix in Hp. pose proof (nslash_skipn k (r ++ t)) as Hk.
    rewrite nslash_app, (nslash_none t Ht) in Hk. cbn [nslash] in Hp. rewrite N.eqb_refl in Hp. lia. }
  destruct (last_index (slash :: r) whole) as [i|].
  - destruct H as [Hi [Hp Hm]]. f_equal. specialize (Hm (length P) HX Hocc). specialize (Hmax i Hi Hp). lia.
  - rewrite (H (length P) HX) in Hocc. discriminate.
Qed.

Lemma lua_ext_no_slash : ~ In slash lua_ext.
Proof. unfold lua_ext, slash. cbn. intros [H|[H|[H|[H|[]]]]]; discriminate. Qed.

(* no exception left *)
Lemma calc_score_suffix_indep cur mp c :
  path_suffix (mp ++ lua_ext) c = true ->
  calc_score cur mp c = calc_score cur (mp ++ lua_ext) c.
Proof.
  intros Hs. unfold path_suffix in Hs. apply is_suffix_spec in Hs as [P ->].
  unfold calc_score, score_deployed, calc_score_g.
  rewrite (last_index_slash_occ P mp lua_ext lua_ext_no_slash).
  pose proof (last_index_slash_occ P (mp ++ lua_ext) [] (fun H => H)) as H2. rewrite app_nil_r in H2. rewrite H2.
  reflexivity.
Qed.

Lemma fold_left_ext_in {A B} (f g : A -> B -> A) l : (forall a b, In b l -> f a b = g a b) ->
  forall a, fold_left f l a = fold_left g l a.
Proof.
  induction l as [|x l IH]; intros H a; [reflexivity|]. cbn [fold_left].
  rewrite (H a x (or_introl eq_refl)). apply IH. intros a' b Hb. apply H. right. exact Hb.
Qed.

Lemma argmax_score_ext cur r1 r2 cs : (forall c, In c cs -> calc_score cur r1 c = calc_score cur r2 c) ->
  argmax_set cur r1 cs = argmax_set cur r2 cs.
Proof.
  intros H. destruct cs as [|c0 t]; [reflexivity|]. unfold argmax_set.
  assert (max_score cur r1 c0 t = max_score cur r2 c0 t) as Hm.
  { unfold max_score. rewrite (H c0 (or_introl eq_refl)). apply fold_left_ext_in.
    intros a b Hb. rewrite (H b (or_intror Hb)). reflexivity. }
  rewrite Hm. apply filter_ext_in. intros c Hc. rewrite (H c Hc). reflexivity.
Qed.

Lemma best_of_score_ext cur r1 r2 cs cs' : Permutation cs cs' ->
  (forall c, In c cs -> calc_score cur r1 c = calc_score cur r2 c) ->
  best_of true cur r1 cs = best_of true cur r2 cs'.
Proof.
  intros Hp H. rewrite <- (best_of_perm cur r2 cs cs' Hp). cbn [best_of]. unfold best_match.
  rewrite (argmax_score_ext cur r1 r2 cs H). reflexivity.
Qed.

(* ---- definition / hover = analysis, duplicates allowed ---- *)
Theorem features_agree_scored disk cfg st files cur m :
  index_ok true st files -> all_lua files = true ->
  exact_mode cfg = false -> dotslash_fixed cfg = true -> order_fixed cfg = true ->
  let m' := remove_pre_str m in
  m' <> [] ->
  mem_bytes m' (ignore_refer cfg) = false -> mem_bytes m' (ignore_modules cfg) = false ->
  disk (complete_path (main_dir cfg) (doc_so m')) = false ->
  let out := check_refer disk cfg st cur KRequire m in
  let oo := open_outcomes cfg st (fun f => fmem f files) cur (open_list cfg true false m) in
  (r_resolved out = [] /\ oo = [None]) \/
  (exists it c, r_resolved out = [c] /\ oo = [Some (it, c)] /\ path_suffix it c = true /\ In c files /\
                (it = doc_lua m' \/ it = doc_init m')).
Proof.
  intros Hok Hlua He Hds Hfx. cbv zeta. intros Hm Hi1 Hi2 Hso.
  apply all_lua_good in Hlua.
  rewrite (open_list_require cfg m (or_introl Hds) Hm). unfold check_refer. rewrite Hi1, Hi2, He, Hfx. simpl andb. cbv iota.
  change (replace_byte dot slash (remove_pre_str m)) with (mod_path (remove_pre_str m)).
  unfold doc_so in Hso. rewrite Hso. unfold doc_lua, doc_init in *.
  set (mp := mod_path (remove_pre_str m)) in *.
  assert (~ In dot mp) as Hnodot by apply replace_no_dot.
  assert (mp <> []) as Hmp.
  { subst mp. unfold mod_path, replace_byte. destruct (remove_pre_str m); [contradiction|discriminate]. }
  assert (has_dot mp = false) as Hnd by (apply has_dot_false; exact Hnodot).
  assert (has_dot (mp ++ lua_ext) = true) as Hdl by (apply has_dot_In; apply in_or_app; right; left; reflexivity).
  destruct Hok as [Hwf His]. pose proof (conj Hwf His : index_ok true st files) as Hok.
  (* same candidate set, same scores: the same choice *)
  assert (best_set_fx true cur mp st = best_set_fx true cur (mp ++ lua_ext) st) as Hsame.
  { unfold best_set_fx. apply best_of_score_ext.
    - apply NoDup_Permutation; [apply bm_candidates_nodup; exact Hwf|apply bm_candidates_nodup; exact Hwf|].
      intros c. rewrite (cands_pre true st files mp c Hok Hlua Hnd), (cands_name true st files (mp ++ lua_ext) c Hok Hdl).
      reflexivity.
    - intros c Hc. apply (cands_pre true st files mp c Hok Hlua Hnd) in Hc as [_ Hs].
      apply calc_score_suffix_indep; exact Hs. }
  (* the .so item finds nothing among ".lua" files *)
  assert (best_set_fx true cur (mp ++ so_ext) st = []) as Es.
  { assert (has_dot (mp ++ so_ext) = true) as Hd by (apply has_dot_In; apply in_or_app; right; left; reflexivity).
    unfold best_set_fx.
    destruct (best_of_sub true files cur (mp ++ so_ext) (bm_candidates (mp ++ so_ext) st)
                (path_suffix (mp ++ so_ext)) (fun c => cands_name true st files _ c Hok Hd)) as [_ Hnil].
    apply Hnil. destruct (filter (path_suffix (mp ++ so_ext)) files) as [|g l] eqn:Ef; [reflexivity|].
    assert (In g (filter (path_suffix (mp ++ so_ext)) files)) as Hg by (rewrite Ef; left; reflexivity).
    apply filter_In in Hg as [Hg Hp]. destruct (good_lua_spec true g (Hlua g Hg)) as [b [-> _]].
    unfold path_suffix in Hp. change (slash :: mp ++ so_ext) with ((slash :: mp) ++ so_ext) in Hp.
    rewrite (so_not_lua (slash :: mp) b) in Hp. discriminate. }
  (* a singleton answer is a workspace file with the right suffix *)
  assert (forall r P, (forall c, In c (bm_candidates r st) <-> In c files /\ P c = true) ->
            best_set_fx true cur r st = [] \/
            exists c, best_set_fx true cur r st = [c] /\ In c files /\ P c = true) as Hone.
  { intros r P HP. unfold best_set_fx. cbn [best_of].
    destruct (best_match true cur r (bm_candidates r st)) as [c|] eqn:E; [right|left; reflexivity].
    exists c. split; [reflexivity|]. apply HP. apply best_match_fixed_argmax, argmax_sub in E. exact E. }
  simpl open_outcomes. rewrite Hfx, <- Hsame.
  destruct (Hone mp (path_suffix (mp ++ lua_ext)) (fun c => cands_pre true st files mp c Hok Hlua Hnd))
    as [Ea|[c [Ea [Hc Hp]]]].
  - rewrite Ea, Es.
    destruct (Hone (mp ++ init_tail) (path_suffix (mp ++ init_tail))
                (fun c => cands_name true st files _ c Hok (has_dot_init mp))) as [Ei|[ci [Ei [Hci Hpi]]]]; rewrite Ei.
    + left. split; reflexivity.
    + simpl. apply fmem_In in Hci as Hci'. rewrite Hci'. simpl. right.
      exists (mp ++ init_tail), ci. repeat split; try reflexivity; [exact Hpi|exact Hci|right; reflexivity].
  - rewrite Ea. simpl. apply fmem_In in Hc as Hc'. rewrite Hc'. simpl. right.
    exists (mp ++ lua_ext), c. repeat split; try reflexivity; [exact Hp|exact Hc|left; reflexivity].
Qed.
