(* C04, part (b1): the LSP position reached after a prefix of the document (`walk`), its place in the position
   table of Spec/LspText.v, and the characterisation of `covers` for a block of code points between two such
   positions on one line. *)
From Coq Require Import List NArith ZArith Bool Lia ZifyN ZifyNat ZifyBool Sorted.
From LH Require Import Base.Bytes Base.Res Base.Utf8 Model.TextSync Spec.LspText Model.Lexer Spec.LspRange.
From LH Require Import Proofs.TextSyncScan Proofs.LexerRangeUtf8.
Import ListNotations.
Local Open Scope N_scope.

(* state of `positions`: (after_cr, line, col) *)
Definition wst := (bool * N * N)%type.
Definition wstep (st : wst) (c : N) : wst :=
  match st with
  | (ac, l, col) =>
    if ac && (c =? 10) then (false, l, col)
    else if c =? 10 then (false, l + 1, 0)
    else if c =? 13 then (true, l + 1, 0)
    else (false, l, col + utf16_len c)
  end.
Definition walk (d : list N) (st : wst) : wst := fold_left wstep d st.

Lemma walk_app a b st : walk (a ++ b) st = walk b (walk a st).
Proof. apply fold_left_app. Qed.

Lemma walk_cons x d st : walk (x :: d) st = walk d (wstep st x).
Proof. reflexivity. Qed.

(* the table of the rest of the document, started in the state reached after `pre`, is a part of the whole table *)
Lemma positions_walk_incl : forall pre post ac l c idx ac' l' c',
  walk pre (ac, l, c) = (ac', l', c') ->
  incl (positions post ac' l' c' (idx + N.of_nat (length pre))) (positions (pre ++ post) ac l c idx).
Proof.
  induction pre as [|x pre IH]; intros post ac l c idx ac' l' c' Hw.
  - cbn [walk fold_left] in Hw. injection Hw as <- <- <-. cbn [length app]. replace (idx + N.of_nat 0) with idx by lia.
    apply incl_refl.
  - rewrite walk_cons in Hw. cbn [app positions length].
    replace (idx + N.of_nat (S (length pre))) with (idx + 1 + N.of_nat (length pre)) by lia.
    cbn [wstep] in Hw. destruct (ac && (x =? 10)).
    { apply IH, Hw. }
    apply incl_tl. destruct (x =? 10); [apply IH, Hw|]. destruct (x =? 13); apply IH, Hw.
Qed.

Lemma positions_head_in post ac l c idx :
  ac && next_is_lf post = false -> In (l, c, idx) (positions post ac l c idx).
Proof.
  destruct post as [|x post]; cbn [positions next_is_lf]; intros H; [left; reflexivity|].
  rewrite H. left. reflexivity.
Qed.

Lemma sorted_lookup tab : StronglySorted entry_lt tab ->
  forall l c i, In (l, c, i) tab -> lookup l c tab = Some i.
Proof.
  induction 1 as [|[[l0 c0] i0] tab Hs IH Hall]; intros l c i Hin; [destruct Hin|].
  cbn [lookup]. destruct Hin as [E|Hin].
  - injection E as -> -> ->. rewrite !N.eqb_refl. reflexivity.
  - rewrite Forall_forall in Hall. pose proof (Hall _ Hin) as Hlt. unfold entry_lt, plt in Hlt. cbn [fst snd] in Hlt.
    replace ((l0 =? l) && (c0 =? c)) with false by lia. apply IH, Hin.
Qed.

Theorem pos_index_walk cps pre post ac l c :
  cps = pre ++ post -> walk pre (false, 0, 0) = (ac, l, c) -> ac && next_is_lf post = false ->
  pos_index cps (mkpos l c) = Some (N.of_nat (length pre)).
Proof.
  intros -> Hw Hac. unfold pos_index. cbn [p_line p_ch].
  apply sorted_lookup; [apply positions_increasing|].
  apply (positions_walk_incl pre post false 0 0 0 ac l c Hw). cbn [N.add].
  replace (0 + N.of_nat (length pre)) with (N.of_nat (length pre)) by lia.
  apply positions_head_in, Hac.
Qed.

(* ------------------------------------------------------------------ blocks inside one line *)
(* a code point that is no line end and one UTF-16 unit *)
Definition inl (c : N) : bool := negb (c =? 10) && negb (c =? 13) && (c <? 65536).

Lemma wstep_inl ac l col x : inl x = true -> wstep (ac, l, col) x = (false, l, col + 1).
Proof.
  unfold inl, wstep, utf16_len. intros H.
  replace (x =? 10) with false by lia. replace (x =? 13) with false by lia. rewrite andb_false_r.
  replace (x <? 65536) with true by lia. reflexivity.
Qed.

Lemma walk_inl_false : forall blk l col, forallb inl blk = true ->
  walk blk (false, l, col) = (false, l, col + N.of_nat (length blk)).
Proof.
  induction blk as [|x blk IH]; intros l col Hf.
  - cbn [walk fold_left length]. f_equal. lia.
  - cbn [forallb] in Hf. apply andb_true_iff in Hf as [Hx Hf]. rewrite walk_cons, wstep_inl by exact Hx.
    rewrite IH by exact Hf. cbn [length]. f_equal. lia.
Qed.

Lemma walk_inl blk ac l col : forallb inl blk = true -> blk <> [] ->
  walk blk (ac, l, col) = (false, l, col + N.of_nat (length blk)).
Proof.
  destruct blk as [|x blk]; [congruence|]. intros Hf _. cbn [forallb] in Hf. apply andb_true_iff in Hf as [Hx Hf].
  rewrite walk_cons, wstep_inl by exact Hx. rewrite walk_inl_false by exact Hf. cbn [length]. f_equal. lia.
Qed.

(* the line is kept by any block without line ends (whatever its characters' widths) *)
Definition nonl (c : N) : bool := negb (c =? 10) && negb (c =? 13).

Lemma walk_nonl_false : forall blk l col, forallb nonl blk = true ->
  exists col', walk blk (false, l, col) = (false, l, col').
Proof.
  induction blk as [|x blk IH]; intros l col Hf; [eexists; reflexivity|].
  cbn [forallb] in Hf. apply andb_true_iff in Hf as [Hx Hf]. rewrite walk_cons. unfold nonl in Hx. cbn [wstep andb].
  replace (x =? 10) with false by lia. replace (x =? 13) with false by lia. apply IH, Hf.
Qed.

Lemma walk_nonl blk ac l col : forallb nonl blk = true -> blk <> [] ->
  exists col', walk blk (ac, l, col) = (false, l, col').
Proof.
  destruct blk as [|x blk]; [congruence|]. intros Hf _. cbn [forallb] in Hf. apply andb_true_iff in Hf as [Hx Hf].
  rewrite walk_cons. unfold nonl in Hx. cbn [wstep].
  replace (x =? 10) with false by lia. replace (x =? 13) with false by lia. rewrite andb_false_r.
  apply walk_nonl_false, Hf.
Qed.

Lemma plain_inl blk : forallb plain blk = true -> forallb inl blk = true.
Proof.
  intros H. apply forallb_forall. intros x Hx. rewrite forallb_forall in H. apply H in Hx.
  unfold plain, is_newline, inl in *. lia.
Qed.

Lemma inl_nonl blk : forallb inl blk = true -> forallb nonl blk = true.
Proof.
  intros H. apply forallb_forall. intros x Hx. rewrite forallb_forall in H. apply H in Hx.
  unfold inl, nonl in *. lia.
Qed.

(* line ends *)
Lemma walk_lf l col : walk [10] (false, l, col) = (false, l + 1, 0).
Proof. reflexivity. Qed.

Lemma walk_crlf ac l col : walk [13; 10] (ac, l, col) = (false, l + 1, 0).
Proof. cbn [walk fold_left wstep]. change (13 =? 10) with false. rewrite andb_false_r. reflexivity. Qed.

Lemma walk_cr ac l col : walk [13] (ac, l, col) = (true, l + 1, 0).
Proof. cbn [walk fold_left wstep]. change (13 =? 10) with false. rewrite andb_false_r. reflexivity. Qed.

(* ------------------------------------------------------------------ covers *)
Theorem covers_block cps pre blk post l c1 c2 ac1 ac2 ln a b :
  cps = pre ++ blk ++ post ->
  walk pre (false, 0, 0) = (ac1, l, c1) -> ac1 && next_is_lf (blk ++ post) = false ->
  walk (pre ++ blk) (false, 0, 0) = (ac2, l, c2) -> ac2 && next_is_lf post = false ->
  ln = (Z.of_N l + 1)%Z -> a = Z.of_N c1 -> b = Z.of_N c2 ->
  covers cps (mkLoc ln a ln b) (utf8_of blk) = true.
Proof.
  intros Hc Hw1 Ha1 Hw2 Ha2 -> -> ->.
  pose proof (pos_index_walk cps pre (blk ++ post) ac1 l c1 Hc Hw1 Ha1) as Hi.
  assert (Hc2 : cps = (pre ++ blk) ++ post) by (rewrite <- app_assoc; exact Hc).
  pose proof (pos_index_walk cps (pre ++ blk) post ac2 l c2 Hc2 Hw2 Ha2) as Hj.
  unfold covers, loc_to_range. cbn [sl sc el ec].
  replace ((Z.of_N l + 1 >=? 1)%Z && (Z.of_N c1 >=? 0)%Z && (Z.of_N l + 1 >=? 1)%Z && (Z.of_N c2 >=? 0)%Z)
    with true by lia.
  replace (Z.to_N (Z.of_N l + 1 - 1)) with l by lia. rewrite !N2Z.id.
  unfold slice_lsp, range_index. cbn [r_start r_end]. rewrite Hi, Hj. rewrite app_length.
  replace (N.of_nat (length pre) <=? N.of_nat (length pre + length blk)) with true by lia.
  replace (N.to_nat (N.of_nat (length pre + length blk) - N.of_nat (length pre))) with (length blk) by lia.
  rewrite Nat2N.id. rewrite Hc, skipn_app, skipn_all, Nat.sub_diag. cbn [skipn app].
  rewrite firstn_app, firstn_all, Nat.sub_diag. cbn [firstn]. rewrite app_nil_r.
  apply beq_bytes_eq. reflexivity.
Qed.
