(* C03, lexical level: the model lexer recognises exactly the lexical grammar of Spec/LuaLex.v.
   Generic in the variant fx of the code (Model/Lexer.v FxEscape; EscFx fx = the escapes it accepts without an error):
     lex_all_complete_fx / lex_all_sound_fx : no lexical error <=> Lex with the escapes EscFx fx, the same tokens
     lex_all_sound_code    : (both variants) no lexical error => Lex with the code's old escapes EscCode
     lex_all_complete      : (both variants) LexesTo (the manual's escapes) => no lexical error, these tokens
     lex_all_sound_guarded : (both variants) no lexical error + no_bad_escape => LexesTo
   The repaired code (fx = true):   lex_all_sound_fixed, lex_all_iff_fixed : no lexical error <=> LexesTo, NO guard.
   The code before (fx = false):    lex_all_complete_code : Lex with EscCode => no lexical error (its exact language). *)
From Coq Require Import List NArith ZArith Bool Arith Lia ZifyNat ZifyN ZifyBool.
From LH Require Import Base.Bytes Base.Res Model.Codec Model.Lexer Spec.LuaNumeral Spec.LuaLex.
From LH Require Import Proofs.LexerTotalFuel Proofs.LexerTotalProgress Proofs.LexerTotalMain
  Proofs.LexerGrammarBase Proofs.LexerGrammarSep Proofs.LexerGrammarTok Proofs.LexerGrammarStr Proofs.LexerGrammarEsc.
Import ListNotations.
Local Open Scope N_scope.

(* a model token agrees with a token of the grammar: same kind, and the same text unless it is a string
   (the model keeps the decoded value of a string, the grammar its lexeme) *)
Definition tok_ok (t : ltok) (s : stok) : Prop :=
  tk (lt t) = sk s /\ (sk s <> TkString -> tstr (lt t) = stxt s).

(* ------------------------------------------------------------------ tokens of the grammar are never EOF *)
Lemma name_kind_not_eof w : name_kind w <> TkEOF.
Proof.
  unfold name_kind. destruct (find _ lx_keywords) as [p|] eqn:E; [|discriminate].
  apply find_some in E as [Hin _]. cbn in Hin.
  repeat (destruct Hin as [<-|Hin]; [discriminate|]). contradiction.
Qed.

Lemma op_match_not_eof bs w k : op_match bs = Some (w, k) -> k <> TkEOF.
Proof.
  unfold op_match. intros E. apply find_some in E as [Hin _]. cbn in Hin.
  repeat (destruct Hin as [Hin|Hin]; [injection Hin as <- <-; discriminate|]). contradiction.
Qed.

Lemma token_not_eof Esc t bs r : Token Esc t bs r -> sk t <> TkEOF.
Proof.
  intros [c body r0 _ _ _|bs0 _|bs0 w k H1 _|q bs0 r0 _ _|bs0 r0 _]; cbn [sk]; try discriminate.
  - apply name_kind_not_eof.
  - exact (op_match_not_eof _ _ _ H1).
Qed.

Section WithOracle.
  Context {fx : FxEscape}.
  Variable gbk_runes : list N -> Z.

  (* ---------------------------------------------------------------- dispatch on the first byte *)
  Lemma scan_token_noop s c rest : chunk s = c :: rest -> op_start c = false ->
    scan_token gbk_runes s =
    if (c =? 39) || (c =? 34) then long_or_short gbk_runes s false else number_or_rest gbk_runes s c.
  Proof.
    intros Hch Hop. rewrite (scan_token_cons gbk_runes s c rest Hch). cbv zeta.
    destruct (op_start_chain c Hop) as
      (H1&H2&H3&H4&H5&H6&H7&H8&H9&H10&H11&H12&H13&H14&H15&H16&H17&H18&H19&H20&H21&H22&H23).
    rewrite H1, H2, H3, H4, H5, H6, H7, H8, H9, H10, H11, H12, H13, H14, H15, H16, H17, H18, H19, H20, H21, H22, H23.
    reflexivity.
  Qed.

  Lemma scan_token_long s c1 rest : chunk s = 91 :: c1 :: rest -> (c1 =? 91) || (c1 =? 61) = true ->
    scan_token gbk_runes s = long_or_short gbk_runes s true.
  Proof.
    intros Hch Hc. rewrite (scan_token_cons gbk_runes s 91 (c1 :: rest) Hch). cbv zeta.
    cbn [N.eqb Pos.eqb test andb]. cbv iota. rewrite !andb_true_r, Hc. reflexivity.
  Qed.

  Lemma op_match_start bs w k : op_match bs = Some (w, k) -> exists c rest, bs = c :: rest /\ op_start c = true.
  Proof.
    intros H. destruct bs as [|c rest]; [discriminate|]. exists c, rest. split; [reflexivity|].
    destruct (op_start c) eqn:Hop; [reflexivity|]. exfalso.
    destruct (op_start_chain c Hop) as
      (H1&H2&H3&H4&H5&H6&H7&H8&H9&H10&H11&H12&H13&H14&H15&H16&H17&H18&H19&H20&H21&H22&H23).
    unfold op_match in H. rewrite lx_operators_eq in H. cbn [find startsb fst] in H.
    rewrite H1, H2, H3, H4, H5, H6, H7, H8, H9, H10, H11, H12, H13, H14, H15, H16, H17, H18, H19, H20, H21, H22, H23 in H.
    cbn in H. discriminate.
  Qed.

  (* ---------------------------------------------------------------- one token *)
  Lemma scan_token_complete s t bs r :
    Token (EscFx fx) t bs r -> chunk s = bs ->
    exists tok s', scan_token gbk_runes s = (tok, s', []) /\
                   tk tok = sk t /\ (sk t <> TkString -> tstr tok = stxt t) /\ chunk s' = r.
  Proof.
    intros HT Hch. destruct HT as [c body r0 H1 H2 H3|bs0 H|bs0 w k H1 H2|q bs0 r0 Hq HS|bs0 r0 HL].
    - destruct (scan_token_name gbk_runes s c (body ++ r0) Hch H1) as (tok & s' & E & Hk & Hs & Hc).
      rewrite (ident_len_app _ _ H2 H3) in Hk, Hs, Hc.
      rewrite firstn_app, Nat.sub_diag, firstn_all in Hk, Hs. cbn [firstn] in Hk, Hs. rewrite app_nil_r in Hk, Hs.
      rewrite skipn_app, Nat.sub_diag, skipn_all in Hc. cbn [skipn app] in Hc.
      exists tok, s'. repeat split; [exact E|exact Hk|intros _; exact Hs|exact Hc].
    - destruct bs0 as [|c rest]; [discriminate|].
      destruct (scan_token_number gbk_runes s c rest Hch H) as (tok & s' & E & Hk & Hs & Hc).
      exists tok, s'. repeat split; [exact E|exact Hk|intros _; exact Hs|exact Hc].
    - destruct (op_match_start _ _ _ H1) as (c & rest & -> & Hop).
      destruct (scan_token_op gbk_runes s c rest Hch Hop H2) as (w' & k' & E1 & E2).
      rewrite H1 in E1. injection E1 as <- <-. rewrite E2. unfold simple.
      eexists _, _. split; [reflexivity|]. cbn [mk tk tstr chunk adv sk stxt]. rewrite Hch.
      repeat split. intros _.
      unfold op_match in H1. apply find_some in H1 as [_ H1]. cbn [fst] in H1. apply startsb_iff in H1.
      apply starts_firstn. exact H1.
    - assert (Hop : op_start q = false) by (destruct Hq; subst q; reflexivity).
      rewrite (scan_token_noop s q bs0 Hch Hop).
      assert (Hqq : (q =? 39) || (q =? 34) = true) by (destruct Hq; subst q; reflexivity). rewrite Hqq.
      unfold long_or_short.
      assert (Hq92 : q <> 92) by (destruct Hq; subst q; discriminate).
      destruct (scan_short_complete gbk_runes s q bs0 r0 Hch Hq92 HS) as (str & s' & E & Hc). rewrite E.
      eexists _, _. split; [reflexivity|]. cbn [mk tk tstr sk]. repeat split; [congruence|exact Hc].
    - destruct HL as [n body r0 Hfirst] eqn:EL.
      assert (Hhd : exists c1 rest, lb_open n ++ body ++ lb_close n ++ r0 = 91 :: c1 :: rest /\ (c1 =? 91) || (c1 =? 61) = true).
      { rewrite lb_open_app. destruct n as [|n]; cbn [repeat app]; eexists _, _; split; reflexivity. }
      destruct Hhd as (c1 & rest & Ehd & Hc1). rewrite Ehd in Hch.
      rewrite (scan_token_long s c1 rest Hch Hc1). unfold long_or_short.
      rewrite <- Ehd in Hch.
      destruct (scan_long_complete s _ _ (LB n body r0 Hfirst) Hch) as (str & s' & E & Hc). rewrite E.
      eexists _, _. split; [reflexivity|]. cbn [mk tk tstr sk]. repeat split; [congruence|exact Hc].
  Qed.

  Lemma not_op_cases c rest : not_an_operator (c :: rest) = true ->
    num_starts (c :: rest) = true \/ (exists c1 rest', c = 91 /\ rest = c1 :: rest' /\ (c1 =? 91) || (c1 =? 61) = true) \/
    starts [45; 45] (c :: rest).
  Proof.
    cbn [not_an_operator]. destruct rest as [|d rest']; [discriminate|]. intros H.
    apply orb_true_iff in H as [H|H]; [apply orb_true_iff in H as [H|H]|].
    - left. cbn [num_starts hd_is]. lia.
    - right. left. apply andb_true_iff in H as [H1 H2]. apply N.eqb_eq in H1. subst c. eexists _, _. repeat split. exact H2.
    - right. right. apply andb_true_iff in H as [H1 H2]. apply N.eqb_eq in H1, H2. subst c d. exists rest'. reflexivity.
  Qed.

  Lemma scan_token_sound s c rest tok s' :
    chunk s = c :: rest -> ~ starts [45; 45] (c :: rest) -> scan_token gbk_runes s = (tok, s', []) ->
    exists t, Token (EscFx fx) t (c :: rest) (chunk s') /\ tk tok = sk t /\ (sk t <> TkString -> tstr tok = stxt t).
  Proof.
    intros Hch Hnc H.
    destruct (lx_alpha c) eqn:Ea.
    { destruct (scan_token_name gbk_runes s c rest Hch Ea) as (tok' & s'' & E & Hk & Hs & Hc).
      rewrite E in H. injection H as <- <-. destruct (ident_len_spec rest) as [A B].
      exists (mkS (name_kind (c :: firstn (ident_len rest) rest)) (c :: firstn (ident_len rest) rest)).
      split; [|split; [exact Hk|intros _; exact Hs]]. rewrite Hc.
      replace (c :: rest) with (c :: firstn (ident_len rest) rest ++ skipn (ident_len rest) rest)
        by (rewrite firstn_skipn; reflexivity).
      apply Tk_name; assumption. }
    destruct (num_starts (c :: rest)) eqn:En.
    { destruct (scan_token_number gbk_runes s c rest Hch En) as (tok' & s'' & E & Hk & Hs & Hc).
      rewrite E in H. injection H as <- <-.
      exists (mkS TkNumber (firstn (num_len (c :: rest)) (c :: rest))).
      split; [|split; [exact Hk|intros _; exact Hs]]. rewrite Hc. apply Tk_number. exact En. }
    assert (Hlong : forall c1 rest', c = 91 -> rest = c1 :: rest' -> (c1 =? 91) || (c1 =? 61) = true ->
              exists t, Token (EscFx fx) t (c :: rest) (chunk s') /\ tk tok = sk t /\ (sk t <> TkString -> tstr tok = stxt t)).
    { intros c1 rest' -> -> Hc1. rewrite (scan_token_long s c1 rest' Hch Hc1) in H. unfold long_or_short in H.
      destruct (scan_long_string s) as [[[str s1] es] ov] eqn:E. injection H as <- <- ->.
      apply scan_long_sound in E. rewrite Hch in E.
      eexists. split; [apply Tk_long; exact E|]. cbn [mk tk sk]. split; [reflexivity|congruence]. }
    destruct (op_start c) eqn:Hop.
    { destruct (not_an_operator (c :: rest)) eqn:Hno.
      - destruct (not_op_cases _ _ Hno) as [A|[(c1 & rest' & E1 & E2 & E3)|A]]; [congruence| |contradiction].
        exact (Hlong c1 rest' E1 E2 E3).
      - destruct (scan_token_op gbk_runes s c rest Hch Hop Hno) as (w & k & E1 & E2).
        rewrite E2 in H. unfold simple in H. injection H as <- <-.
        exists (mkS k w). split; [|cbn [mk tk tstr sk stxt]; split; [reflexivity|]].
        + cbn [chunk adv]. rewrite Hch. apply Tk_op; assumption.
        + intros _. rewrite Hch. unfold op_match in E1. apply find_some in E1 as [_ E1]. cbn [fst] in E1.
          apply startsb_iff in E1. apply starts_firstn. exact E1. }
    rewrite (scan_token_noop s c rest Hch Hop) in H.
    destruct ((c =? 39) || (c =? 34)) eqn:Eq.
    { unfold long_or_short in H.
      destruct (scan_short_string gbk_runes s) as [[[str s1] es] ov] eqn:E. injection H as <- <- ->.
      apply (scan_short_sound gbk_runes s c rest) in E; [|exact Hch].
      exists (mkS TkString (consumed (c :: rest) (chunk s1))).
      split; [apply Tk_short; [lia|exact E]|]. cbn [mk tk sk]. split; [reflexivity|congruence]. }
    exfalso.
    assert (Hd : lx_digit c = false) by (cbn [num_starts] in En; apply orb_false_iff in En as [En _]; exact En).
    destruct (scan_token_illegal gbk_runes s c rest Hch Hop Eq Ea Hd) as (t0 & s0 & E).
    rewrite (scan_token_noop s c rest Hch Hop), Eq in E. congruence.
  Qed.

  (* ---------------------------------------------------------------- next_token *)
  Lemma next_token_complete_eof prev2 prev1 s :
    Sep (chunk s) [] ->
    exists lt1 s1, next_token gbk_runes prev2 prev1 s = (lt1, s1) /\ tk (lt lt1) = TkEOF /\ lerrs lt1 = [].
  Proof.
    intros HS. unfold next_token.
    destruct (skip_ws_complete prev2 prev1 s [] HS) as (s1 & cms & E & Hc). rewrite E.
    unfold scan_token. rewrite Hc. eexists _, _. split; [reflexivity|]. split; reflexivity.
  Qed.

  Lemma next_token_complete prev2 prev1 s r1 t r :
    Sep (chunk s) r1 -> Token (EscFx fx) t r1 r ->
    exists lt1 s1, next_token gbk_runes prev2 prev1 s = (lt1, s1) /\ tok_ok lt1 t /\ lerrs lt1 = [] /\ chunk s1 = r.
  Proof.
    intros HS HT. unfold next_token.
    destruct (skip_ws_complete prev2 prev1 s r1 HS) as (s1 & cms & E & Hc). rewrite E.
    destruct (scan_token_complete s1 t r1 r HT Hc) as (tok & s' & E2 & Hk & Hs & Hc2). rewrite E2.
    eexists _, _. split; [reflexivity|]. cbn [lt lerrs]. repeat split; assumption.
  Qed.

  Lemma next_token_sound prev2 prev1 s lt1 s1 :
    next_token gbk_runes prev2 prev1 s = (lt1, s1) -> lerrs lt1 = [] ->
    (tk (lt lt1) = TkEOF /\ Sep (chunk s) []) \/
    (tk (lt lt1) <> TkEOF /\ exists r1 t, Sep (chunk s) r1 /\ Token (EscFx fx) t r1 (chunk s1) /\ tok_ok lt1 t).
  Proof.
    unfold next_token.
    destruct (skip_ws prev2 prev1 s) as [[s' cms] es1] eqn:Hw.
    destruct (scan_token gbk_runes s') as [[t s2] es2] eqn:Ht.
    intros H He. injection H as <- <-. cbn [lerrs lt] in *. apply app_eq_nil in He as [-> ->].
    apply skip_ws_sound in Hw. destruct (chunk s') as [|c rest] eqn:Hch.
    - left. unfold scan_token in Ht. rewrite Hch in Ht. injection Ht as <- _. split; [reflexivity|exact Hw].
    - right. destruct (sep_rest _ _ Hw) as [_ Hnc].
      destruct (scan_token_sound s' c rest t s2 Hch Hnc Ht) as (st & HT & Hk & Hs).
      split; [rewrite Hk; exact (token_not_eof _ _ _ _ HT)|].
      exists (c :: rest), st. repeat split; assumption.
  Qed.

  (* ---------------------------------------------------------------- the loop *)
  Lemma lex_loop_complete : forall bs ts, Lex (EscFx fx) bs ts ->
    forall f prev2 prev1 s acc, chunk s = bs -> (clen s < f)%nat ->
    exists body eof, lex_loop gbk_runes f prev2 prev1 s acc = Ok (rev acc ++ body ++ [eof]) /\
                     Forall2 tok_ok body ts /\ tk (lt eof) = TkEOF /\ flat_map lerrs (body ++ [eof]) = [].
  Proof.
    induction 1 as [bs HS|bs r1 t r ts HS HT _ IH]; intros f prev2 prev1 s acc Hch Hf.
    - destruct f as [|f]; [lia|]. cbn [lex_loop]. rewrite <- Hch in HS.
      destruct (next_token_complete_eof prev2 prev1 s HS) as (lt1 & s1 & E & Hk & He). rewrite E, Hk.
      exists [], lt1. cbn [rev app flat_map]. rewrite He. repeat split; [constructor|exact Hk].
    - destruct f as [|f]; [lia|]. cbn [lex_loop]. rewrite <- Hch in HS.
      destruct (next_token_complete prev2 prev1 s r1 t r HS HT) as (lt1 & s1 & E & Hok & He & Hc). rewrite E.
      pose proof (next_token_progress gbk_runes _ _ _ _ _ E) as [_ Hlt].
      assert (Hne : tk (lt lt1) <> TkEOF).
      { destruct Hok as [Hk _]. rewrite Hk. exact (token_not_eof _ _ _ _ HT). }
      specialize (Hlt Hne). rewrite (match_eof _ _ _ Hne).
      destruct (IH f prev1 (Some (lt lt1)) s1 (lt1 :: acc) Hc ltac:(lia)) as (body & eof & E2 & HF & Hk & Hnil).
      exists (lt1 :: body), eof. rewrite E2. cbn [rev app flat_map]. rewrite <- !app_assoc. cbn [app].
      repeat split; [constructor; assumption|exact Hk|]. rewrite He. exact Hnil.
  Qed.

  Lemma lex_loop_sound : forall f prev2 prev1 s acc ts,
    lex_loop gbk_runes f prev2 prev1 s acc = Ok ts ->
    exists more, ts = rev acc ++ more /\
      (flat_map lerrs more = [] ->
       exists body eof sts, more = body ++ [eof] /\ tk (lt eof) = TkEOF /\ Lex (EscFx fx) (chunk s) sts /\
                            Forall2 tok_ok body sts).
  Proof.
    induction f as [|f IH]; intros prev2 prev1 s acc ts H; cbn [lex_loop] in H; [discriminate|].
    destruct (next_token gbk_runes prev2 prev1 s) as [lt1 s1] eqn:Hn.
    destruct (tkind_eq_dec (tk (lt lt1)) TkEOF) as [He|Hne].
    - rewrite He in H. injection H as <-. exists [lt1]. cbn [rev]. split; [reflexivity|].
      cbn [flat_map]. rewrite app_nil_r. intros Hl.
      destruct (next_token_sound _ _ _ _ _ Hn Hl) as [[_ HS]|[Hne _]]; [|congruence].
      exists [], lt1, []. repeat split; [exact He|apply Lex_end; exact HS|constructor].
    - rewrite (match_eof _ _ _ Hne) in H. apply IH in H as (more & -> & Hm).
      exists (lt1 :: more). cbn [rev]. rewrite <- app_assoc. split; [reflexivity|].
      cbn [flat_map]. intros Hl. apply app_eq_nil in Hl as [Hl1 Hl2].
      destruct (Hm Hl2) as (body & eof & sts & -> & Hk & HL & HF).
      destruct (next_token_sound _ _ _ _ _ Hn Hl1) as [[He _]|[_ (r1 & t & HS & HT & Hok)]]; [congruence|].
      exists (lt1 :: body), eof, (t :: sts). repeat split; [exact Hk| |constructor; assumption].
      eapply Lex_token; eassumption.
  Qed.

  (* ---------------------------------------------------------------- the first line *)
  Lemma skipn_until_newline l : skipn (until_newline l) l = drop_line l.
  Proof.
    induction l as [|c t IH]; cbn [until_newline drop_line]; [reflexivity|]. rewrite cls_newline.
    destruct (lx_newline c); [reflexivity|]. cbn [skipn]. exact IH.
  Qed.

  Lemma skip_first_line_chunk bs : chunk (skip_first_line bs) = strip_first_line (strip_bom bs).
  Proof.
    unfold skip_first_line. change (match bs with 239 :: 187 :: 191 :: t => t | _ => bs end) with (strip_bom bs).
    generalize (strip_bom bs). intros l. unfold strip_first_line. destruct l as [|c t]; [reflexivity|].
    destruct (c =? 35) eqn:E.
    - apply N.eqb_eq in E. subst c. cbn [chunk adv skipn]. apply skipn_until_newline.
    - destruct c as [|p]; [reflexivity|].
      do 6 (try (destruct p as [p|p|]; try reflexivity)). discriminate.
  Qed.

  (* ---------------------------------------------------------------- whole files *)
  (* both variants of the code: no lexical error <-> lexically valid with the escapes that variant accepts silently *)
  Theorem lex_all_complete_fx bs sts :
    LexesToWith (EscFx fx) bs sts ->
    exists body eof, lex_all gbk_runes bs = Ok (body ++ [eof]) /\ Forall2 tok_ok body sts /\
                     tk (lt eof) = TkEOF /\ flat_map lerrs (body ++ [eof]) = [].
  Proof.
    intros HL. unfold lex_all. pose proof (skip_first_line_le bs) as Hle.
    destruct (lex_loop_complete _ _ HL (S (S (length bs))) None None (skip_first_line bs) []
                (skip_first_line_chunk bs) ltac:(lia)) as (body & eof & E & HF & Hk & Hn).
    exists body, eof. rewrite E. repeat split; assumption.
  Qed.

  Theorem lex_all_sound_fx bs ts :
    lex_all gbk_runes bs = Ok ts -> flat_map lerrs ts = [] ->
    exists body eof sts, ts = body ++ [eof] /\ tk (lt eof) = TkEOF /\ LexesToWith (EscFx fx) bs sts /\
                         Forall2 tok_ok body sts.
  Proof.
    unfold lex_all. intros H Hl. apply lex_loop_sound in H as (more & -> & Hm). cbn [rev app] in Hl |- *.
    destruct (Hm Hl) as (body & eof & sts & -> & Hk & HL & HF). exists body, eof, sts.
    repeat split; [exact Hk| |exact HF]. unfold LexesToWith. rewrite <- skip_first_line_chunk. exact HL.
  Qed.

  (* hence, for both variants: no lexical error => valid with the code's old escapes (EscCode) *)
  Theorem lex_all_sound_code bs ts :
    lex_all gbk_runes bs = Ok ts -> flat_map lerrs ts = [] ->
    exists body eof sts, ts = body ++ [eof] /\ tk (lt eof) = TkEOF /\ LexesToWith EscCode bs sts /\
                         Forall2 tok_ok body sts.
  Proof.
    intros H Hl. destruct (lex_all_sound_fx bs ts H Hl) as (body & eof & sts & E & Hk & HL & HF).
    exists body, eof, sts. repeat split; try assumption. exact (lex_fx_code _ _ _ HL).
  Qed.

  (* for both variants: valid text (the manual's escapes) is never flagged *)
  Theorem lex_all_complete bs sts :
    LexesTo bs sts ->
    exists body eof, lex_all gbk_runes bs = Ok (body ++ [eof]) /\ Forall2 tok_ok body sts /\
                     tk (lt eof) = TkEOF /\ flat_map lerrs (body ++ [eof]) = [].
  Proof. intros HL. apply lex_all_complete_fx. apply lex_lua_fx. exact HL. Qed.

  Theorem lex_all_sound_guarded bs ts :
    lex_all gbk_runes bs = Ok ts -> flat_map lerrs ts = [] -> no_bad_escape bs = true ->
    exists body eof sts, ts = body ++ [eof] /\ tk (lt eof) = TkEOF /\ LexesTo bs sts /\ Forall2 tok_ok body sts.
  Proof.
    intros H Hl Hg. destruct (lex_all_sound_code bs ts H Hl) as (body & eof & sts & E & Hk & HL & HF).
    exists body, eof, sts. repeat split; try assumption.
    destruct (strip_nbe bs Hg) as [p Hp]. exact (lex_code_lua _ _ HL p Hp).
  Qed.

  (* kinds only *)
  Lemma tok_ok_kinds body sts : Forall2 tok_ok body sts -> map (fun t => tk (lt t)) body = map sk sts.
  Proof. induction 1 as [|t s body sts [Hk _] _ IH]; cbn [map]; [reflexivity|]. rewrite Hk, IH. reflexivity. Qed.

  Theorem lex_all_complete_kinds bs sts :
    LexesTo bs sts ->
    exists ts, lex_all gbk_runes bs = Ok ts /\ map (fun t => tk (lt t)) ts = map sk sts ++ [TkEOF] /\
               flat_map lerrs ts = [].
  Proof.
    intros H. destruct (lex_all_complete bs sts H) as (body & eof & E & HF & Hk & Hl).
    exists (body ++ [eof]). split; [exact E|]. split; [|exact Hl].
    rewrite map_app, (tok_ok_kinds _ _ HF). cbn [map]. rewrite Hk. reflexivity.
  Qed.
End WithOracle.

(* ------------------------------------------------------------------ the two variants by name *)
(* the REPAIRED code (fx_escape = true): no lexical error => lexically valid Lua. No guard. *)
Theorem lex_all_sound_fixed gbk_runes bs ts :
  lex_all (fx := true) gbk_runes bs = Ok ts -> flat_map lerrs ts = [] ->
  exists body eof sts, ts = body ++ [eof] /\ tk (lt eof) = TkEOF /\ LexesTo bs sts /\ Forall2 tok_ok body sts.
Proof.
  intros H Hl. destruct (lex_all_sound_fx (fx := true) gbk_runes bs ts H Hl) as (body & eof & sts & E & Hk & HL & HF).
  exists body, eof, sts. repeat split; try assumption. exact (lex_fx_lua _ _ HL).
Qed.

(* ... both directions in one statement: the repaired lexer raises no error exactly on the lexically valid texts *)
Theorem lex_all_iff_fixed gbk_runes bs :
  (exists ts, lex_all (fx := true) gbk_runes bs = Ok ts /\ flat_map lerrs ts = []) <-> (exists sts, LexesTo bs sts).
Proof.
  split.
  - intros (ts & H & Hl). destruct (lex_all_sound_fixed gbk_runes bs ts H Hl) as (_ & _ & sts & _ & _ & HL & _).
    exists sts. exact HL.
  - intros (sts & HL). destruct (lex_all_complete (fx := true) gbk_runes bs sts HL) as (body & eof & E & _ & _ & Hl).
    exists (body ++ [eof]). split; assumption.
Qed.

(* the code BEFORE the repair (fx_escape = false): its exact language is the grammar with the escapes EscCode *)
Theorem lex_all_complete_code gbk_runes bs sts :
  LexesToWith EscCode bs sts ->
  exists body eof, lex_all (fx := false) gbk_runes bs = Ok (body ++ [eof]) /\ Forall2 tok_ok body sts /\
                   tk (lt eof) = TkEOF /\ flat_map lerrs (body ++ [eof]) = [].
Proof. intros HL. apply (lex_all_complete_fx (fx := false)). exact (lex_code_fx _ _ HL). Qed.

Theorem lexes_lua_code bs sts : LexesTo bs sts -> LexesToWith EscCode bs sts.
Proof. apply lex_lua_code. Qed.
