(* Wide layer of the binder family run from file BYTES inside Coq: the glue of ocaml/c05_run.ml for the wide functions,
   a witness workspace, and the link to the narrow request models of Proofs/ResolveRun.v (whenever the wide request
   model answers on a narrow workspace, the narrow model gives the same answer). *)
From Coq Require Import List NArith ZArith Bool.
From LH Require Import Base.Bytes Base.Res Model.Lexer Model.Ast Model.Parser Model.Number Model.LuaFront
  Model.Scope Model.Globals Model.Resolve Model.ResolveWide Spec.LuaScope Spec.LuaScopeWide
  Proofs.ResolveRun Proofs.WideNarrow.
Import ListNotations.
Local Open Scope N_scope.

Definition mws_of_wide (files : list (list N * block)) : mws := map (fun x => (fst x, analyse_wide (snd x))) files.
Definition sws_of_wide (files : list (list N * block)) : sws := map (fun x => (fst x, bind_file_wide (snd x))) files.

(* the identifier a position request is about: (written `_G.name`, name); None = no prediction; Some None = the
   server answers nothing *)
Definition request_name_wide (strs : list (list N * loc)) (bs : list N) (line0 col : N) (docend_empty : bool)
  : option (option (bool * list N)) :=
  match offset_of bs line0 col 0 with
  | None => None
  | Some off =>
    if docend_empty && (N.of_nat (length bs) <=? off) then Some None
    else match cut_name_wide bs off with
         | WName s => if near_str strs s (zl line0) (Z.of_N col) then None else Some (Some (false, s))
         | WGName s => Some (Some (true, s))
         | WInvalid => Some None
         | WUnsupported => None
         end
  end.

Section OneQueryWide.
  Variable files : list (list N * list N).

  (* the string nodes of the WHOLE workspace: the member re-reading of getVarCommonFuncParam compares key positions
     without the file name *)
  Definition strs_of (ps : list (list N * block)) (f : list N) : list (list N * loc) :=
    flat_map (fun x => strs_block (snd x)) ps.

  Definition run_define_wide (f : list N) (line0 col : N) : answer :=
    match parse_all files with
    | None => ASkip
    | Some ps =>
      let w := mws_of_wide ps in
      match ws_file w f, request_name_wide (strs_of ps f) (bytes_of files f) line0 col false with
      | Some fi, Some (Some (g, s)) =>
        match define_at_wide g w f fi s (zl line0) (Z.of_N col) with Some l => ALocs l | None => ASkip end
      | Some _, Some None => ALocs []
      | _, _ => ASkip
      end
    end.

  Definition run_refs_wide (mode : refmode) (f : list N) (line0 col : N) : answer :=
    match parse_all files with
    | None => ASkip
    | Some ps =>
      let w := mws_of_wide ps in
      match ws_file w f, request_name_wide (strs_of ps f) (bytes_of files f) line0 col false with
      | Some fi, Some (Some (g, s)) =>
        match references_at_wide mode g w f fi s (zl line0) (Z.of_N col) with Some l => ALocs l | None => ASkip end
      | Some _, Some None => ALocs []
      | _, _ => ASkip
      end
    end.

  Definition run_hover_wide (f : list N) (line0 col : N) : hoverres :=
    match parse_all files with
    | None => HSkip
    | Some ps =>
      let w := mws_of_wide ps in
      match ws_file w f, request_name_wide (strs_of ps f) (bytes_of files f) line0 col false with
      | Some fi, Some (Some (g, s)) => hover_at_wide g w f fi s (zl line0) (Z.of_N col)
      | _, _ => HSkip
      end
    end.

  Definition spec_occ_wide (f : list N) (line0 col : N) : option socc :=
    match parse_all files with
    | None => None
    | Some ps => occ_at (file_occs (sws_of_wide ps) f) (zl line0) (Z.of_N col)
    end.

  Definition all_in_wide : bool :=
    match parse_all files with Some ps => forallb (fun x => in_wide (snd x)) ps | None => false end.
  Definition all_text_ok : bool := forallb (fun x => text_ok (snd x)) files.
End OneQueryWide.

(* ------------------------------------------------------------------ witness: `_G.x` under a local x; names inside a
   table constructor, an index expression, a method call, `function t.f()` / `function t:m()` *)
(* local x = 1
   _G.x = 2
   use(_G.x, x, { x, k = x }, t.x, o:m(x))
   function t.f(a) return a + x end
   function t:m(b) return b + _G.x end *)
Definition src_wide : list N :=
  [108; 111; 99; 97; 108; 32; 120; 32; 61; 32; 49; 10; 95; 71; 46; 120; 32; 61; 32; 50; 10; 117; 115; 101; 40; 95; 71; 46; 120; 44; 32; 120; 44; 32; 123; 32; 120; 44; 32; 107; 32; 61; 32; 120; 32; 125; 44; 32; 116; 46; 120; 44; 32; 111; 58; 109; 40; 120; 41; 41; 10; 102; 117; 110; 99; 116; 105; 111; 110; 32; 116; 46; 102; 40; 97; 41; 32; 114; 101; 116; 117; 114; 110; 32; 97; 32; 43; 32; 120; 32; 101; 110; 100; 10; 102; 117; 110; 99; 116; 105; 111; 110; 32; 116; 58; 109; 40; 98; 41; 32; 114; 101; 116; 117; 114; 110; 32; 98; 32; 43; 32; 95; 71; 46; 120; 32; 101; 110; 100; 10].
Definition w_wide : list (list N * list N) := [(a_lua, src_wide)].
Definition name_x : list N := [120].
Definition g_def : floc := (a_lua, mk_loc 2 3 2 4).        (* the x of `_G.x = 2`: the defining assignment of the global *)
Definition l_def : floc := (a_lua, mk_loc 1 6 1 7).        (* the x of `local x` *)

Example wide_witness_in_wide : all_in_wide w_wide = true /\ all_in_fragment w_wide = false.
Proof. vm_compute. split; reflexivity. Qed.

(* the reference: every `_G.x` is the global, every plain x the local *)
Example wide_witness_spec :
  option_map s_bind (spec_occ_wide w_wide a_lua 1 3) = Some (BGlobal name_x) /\
  option_map s_bind (spec_occ_wide w_wide a_lua 2 7) = Some (BGlobal name_x) /\
  option_map s_bind (spec_occ_wide w_wide a_lua 4 30) = Some (BGlobal name_x) /\
  option_map s_bind (spec_occ_wide w_wide a_lua 2 10) = Some (BLocal (snd l_def)) /\
  option_map s_bind (spec_occ_wide w_wide a_lua 2 15) = Some (BLocal (snd l_def)) /\
  option_map s_bind (spec_occ_wide w_wide a_lua 2 22) = Some (BLocal (snd l_def)) /\
  option_map s_bind (spec_occ_wide w_wide a_lua 2 36) = Some (BLocal (snd l_def)) /\
  option_map s_bind (spec_occ_wide w_wide a_lua 3 27) = Some (BLocal (snd l_def)).
Proof. vm_compute. repeat split; reflexivity. Qed.

(* the request model agrees with it at every one of these cursors (both ends of the identifier) *)
Example wide_witness_define :
  run_define_wide w_wide a_lua 1 3 = ALocs [g_def] /\ run_define_wide w_wide a_lua 1 4 = ALocs [g_def] /\
  run_define_wide w_wide a_lua 2 7 = ALocs [g_def] /\ run_define_wide w_wide a_lua 4 30 = ALocs [g_def] /\
  run_define_wide w_wide a_lua 2 10 = ALocs [l_def] /\ run_define_wide w_wide a_lua 2 15 = ALocs [l_def] /\
  run_define_wide w_wide a_lua 2 22 = ALocs [l_def] /\ run_define_wide w_wide a_lua 2 36 = ALocs [l_def] /\
  run_define_wide w_wide a_lua 3 27 = ALocs [l_def].
Proof. vm_compute. repeat split; reflexivity. Qed.

Example wide_witness_refs :
  ans_is (run_refs_wide w_wide MRefs a_lua 2 7)
         [g_def; (a_lua, mk_loc 3 7 3 8); (a_lua, mk_loc 5 30 5 31)] = true /\
  ans_is (run_refs_wide w_wide MRefs a_lua 2 10)
         [l_def; (a_lua, mk_loc 3 10 3 11); (a_lua, mk_loc 3 15 3 16); (a_lua, mk_loc 3 22 3 23);
          (a_lua, mk_loc 3 36 3 37); (a_lua, mk_loc 4 27 4 28)] = true /\
  run_refs_wide w_wide MRename a_lua 2 7 = run_refs_wide w_wide MRefs a_lua 2 7.
Proof. vm_compute. repeat split; reflexivity. Qed.

Example wide_witness_hover :
  run_hover_wide w_wide a_lua 2 7 = HGlobal /\ run_hover_wide w_wide a_lua 2 10 = HLocal.
Proof. vm_compute. split; reflexivity. Qed.

(* no prediction on field and method names *)
Example wide_witness_skips :
  run_define_wide w_wide a_lua 2 29 = ASkip /\ run_define_wide w_wide a_lua 4 11 = ASkip /\
  run_define_wide w_wide a_lua 2 34 = ASkip.
Proof. vm_compute. repeat split; reflexivity. Qed.

(* ------------------------------------------------------------------ narrow workspaces: the wide and the narrow request
   models never give two different answers (each may decline where the other answers: the wide one next to a
   same-named string literal, the narrow one on a `_G.name` spelled inside a comment) *)
Definition answers_agree (a b : answer) : Prop :=
  match a, b with ALocs l, ALocs l' => l = l' | _, _ => True end.
Definition hovers_agree (a b : hoverres) : Prop :=
  match a, b with HSkip, _ | _, HSkip => True | x, y => x = y end.

Lemma mws_of_wide_narrow ps : forallb (fun x => in_fragment (snd x)) ps = true -> mws_of_wide ps = mws_of ps.
Proof.
  intros H. unfold mws_of_wide, mws_of. apply map_ext_in. intros x Hx.
  rewrite (analyse_wide_narrow (snd x)); [reflexivity|]. apply (forallb_true_in _ _ H x Hx).
Qed.

Lemma sws_of_wide_narrow ps : forallb (fun x => in_fragment (snd x)) ps = true -> sws_of_wide ps = sws_of ps.
Proof.
  intros H. unfold sws_of_wide, sws_of. apply map_ext_in. intros x Hx.
  rewrite (bind_file_wide_narrow (snd x)); [reflexivity|]. apply (forallb_true_in _ _ H x Hx).
Qed.

Lemma bytes_of_text_ok files f : all_text_ok files = true -> text_ok (bytes_of files f) = true.
Proof.
  intros H. unfold bytes_of. destruct (find (fun x => beq_bytes (fst x) f) files) as [[n bs]|] eqn:E; [|reflexivity].
  apply find_some in E. destruct E as [Hin _]. exact (forallb_true_in _ _ H (n, bs) Hin).
Qed.

(* the two name cuts on a text without square brackets *)
Lemma request_name_link strs bs line0 col d : text_ok bs = true ->
  match request_name_wide strs bs line0 col d, request_name bs line0 col d with
  | Some (Some (g, s)), Some (Some s') => g = false /\ s = s'
  | Some (Some _), Some None | Some None, Some (Some _) => False
  | _, _ => True
  end.
Proof.
  intros Hok. unfold request_name_wide, request_name. destruct (offset_of bs line0 col 0) as [off|]; [|exact I].
  destruct (d && (N.of_nat (length bs) <=? off)); [exact I|].
  pose proof (cut_name_wide_narrow bs off Hok) as Hc.
  destruct (cut_name_wide bs off) as [s|s| |]; cbn [cut_of_wcut] in Hc; try rewrite <- Hc.
  - destruct (near_str strs s (zl line0) (Z.of_N col)); [exact I | split; reflexivity].
  - exact I.
  - exact I.
  - exact I.
Qed.

Theorem run_define_wide_narrow : forall files f line0 col,
  all_in_fragment files = true -> all_text_ok files = true ->
  answers_agree (run_define_wide files f line0 col) (run_define files f line0 col).
Proof.
  intros files f line0 col Hf Ht. unfold run_define_wide, run_define, all_in_fragment in *.
  destruct (parse_all files) as [ps|]; [|exact I]. rewrite (mws_of_wide_narrow ps Hf).
  destruct (ws_file (mws_of ps) f) as [fi|]; [|exact I].
  pose proof (request_name_link (strs_of ps f) (bytes_of files f) line0 col false (bytes_of_text_ok files f Ht)) as HL.
  destruct (request_name_wide (strs_of ps f) (bytes_of files f) line0 col false) as [[[g s]|]|];
    destruct (request_name (bytes_of files f) line0 col false) as [[s'|]|]; try exact I; try contradiction.
  - destruct HL as [-> ->]. rewrite define_at_wide_narrow.
    destruct (define_at (mws_of ps) f fi s' (zl line0) (Z.of_N col)); [reflexivity | exact I].
  - destruct (define_at_wide g (mws_of ps) f fi s (zl line0) (Z.of_N col)); exact I.
  - reflexivity.
Qed.

Theorem run_refs_wide_narrow : forall files mode f line0 col,
  all_in_fragment files = true -> all_text_ok files = true ->
  answers_agree (run_refs_wide files mode f line0 col) (run_refs files mode f line0 col).
Proof.
  intros files mode f line0 col Hf Ht. unfold run_refs_wide, run_refs, all_in_fragment in *.
  destruct (parse_all files) as [ps|]; [|exact I]. rewrite (mws_of_wide_narrow ps Hf).
  destruct (ws_file (mws_of ps) f) as [fi|]; [|exact I].
  pose proof (request_name_link (strs_of ps f) (bytes_of files f) line0 col false (bytes_of_text_ok files f Ht)) as HL.
  destruct (request_name_wide (strs_of ps f) (bytes_of files f) line0 col false) as [[[g s]|]|];
    destruct (request_name (bytes_of files f) line0 col false) as [[s'|]|]; try exact I; try contradiction.
  - destruct HL as [-> ->]. rewrite references_at_wide_narrow.
    destruct (references_at mode (mws_of ps) f fi s' (zl line0) (Z.of_N col)); [reflexivity | exact I].
  - destruct (references_at_wide mode g (mws_of ps) f fi s (zl line0) (Z.of_N col)); exact I.
  - reflexivity.
Qed.

Theorem run_hover_wide_narrow : forall files f line0 col,
  all_in_fragment files = true -> all_text_ok files = true ->
  hovers_agree (run_hover_wide files f line0 col) (run_hover files f line0 col).
Proof.
  intros files f line0 col Hf Ht. unfold run_hover_wide, run_hover, all_in_fragment in *.
  destruct (parse_all files) as [ps|]; [|exact I]. rewrite (mws_of_wide_narrow ps Hf).
  destruct (ws_file (mws_of ps) f) as [fi|]; [|exact I].
  pose proof (request_name_link (strs_of ps f) (bytes_of files f) line0 col false (bytes_of_text_ok files f Ht)) as HL.
  destruct (request_name_wide (strs_of ps f) (bytes_of files f) line0 col false) as [[[g s]|]|];
    destruct (request_name (bytes_of files f) line0 col false) as [[s'|]|]; try exact I; try contradiction.
  - destruct HL as [-> ->]. rewrite hover_at_wide_narrow.
    destruct (hover_at (mws_of ps) f fi s' (zl line0) (Z.of_N col)); try exact I; reflexivity.
  - destruct (hover_at_wide g (mws_of ps) f fi s (zl line0) (Z.of_N col)); exact I.
Qed.

(* the reference binder of a narrow workspace is the narrow one at every cursor *)
Theorem spec_occ_wide_narrow : forall files f line0 col,
  all_in_fragment files = true -> spec_occ_wide files f line0 col = spec_occ files f line0 col.
Proof.
  intros files f line0 col Hf. unfold spec_occ_wide, spec_occ, all_in_fragment in *.
  destruct (parse_all files) as [ps|]; [|reflexivity]. rewrite (sws_of_wide_narrow ps Hf). reflexivity.
Qed.

(* ------------------------------------------------------------------ witness: a member assignment disables class B4.
   local f / f.x = 1 / f = function() return f() end / local g / g = function() return g() end
   the recursive call f() (line 2) finds `local f`: f got a member before, so the assignment does not re-point it;
   the recursive call g() (line 4) finds nothing (class B4_forward_decl, as in the narrow model) *)
Definition src_member : list N :=
  [108; 111; 99; 97; 108; 32; 102; 10; 102; 46; 120; 32; 61; 32; 49; 10; 102; 32; 61; 32; 102; 117; 110; 99; 116; 105; 111; 110; 40; 41; 32; 114; 101; 116; 117; 114; 110; 32; 102; 40; 41; 32; 101; 110; 100; 10; 108; 111; 99; 97; 108; 32; 103; 10; 103; 32; 61; 32; 102; 117; 110; 99; 116; 105; 111; 110; 40; 41; 32; 114; 101; 116; 117; 114; 110; 32; 103; 40; 41; 32; 101; 110; 100; 10].
Example wide_witness_member :
  all_in_wide [(a_lua, src_member)] = true /\
  run_define_wide [(a_lua, src_member)] a_lua 2 22 = ALocs [(a_lua, mk_loc 1 6 1 7)] /\
  run_define_wide [(a_lua, src_member)] a_lua 4 22 = ALocs [] /\
  run_define [(a_lua, src_member)] a_lua 2 22 = ALocs [].
Proof. vm_compute. repeat split; reflexivity. Qed.

(* marking a variable as having members touches nothing but v_empty flags: same frames up to that flag, same globals,
   same occurrences *)
Theorem mark_members_only_flags : forall n l st,
  t_globals (mark_members n l st) = t_globals st /\ t_occs (mark_members n l st) = t_occs st /\
  map f_loc (t_frames (mark_members n l st)) = map f_loc (t_frames st) /\
  map f_subs (t_frames (mark_members n l st)) = map f_subs (t_frames st).
Proof.
  intros n l st. unfold mark_members. cbn [t_globals t_occs t_frames]. repeat split.
  - induction (t_frames st) as [|fr r IH]; [reflexivity|]. cbn [upd_frames].
    destruct (upd_first (var_hit n l) _ (f_vars fr)); cbn [map f_loc]; [reflexivity | rewrite IH; reflexivity].
  - induction (t_frames st) as [|fr r IH]; [reflexivity|]. cbn [upd_frames].
    destruct (upd_first (var_hit n l) _ (f_vars fr)); cbn [map f_subs]; [reflexivity | rewrite IH; reflexivity].
Qed.
