(* C03, token level, soundness: step lemmas  sound_at n -> C_X (S n)  for blocks and statements. *)
From Coq Require Import List NArith ZArith Bool Lia.
From LH Require Import Base.Bytes Base.Res Model.Lexer Model.Ast Model.Parser Spec.LuaGrammar.
From LH Require Import Proofs.ParserGrammarBase Proofs.ParserGrammarMono Proofs.ParserGrammarFlat
     Proofs.ParserGrammarComplete Proofs.ParserGrammarPost Proofs.ParserGrammarCompleteMain
     Proofs.ParserGrammarSoundBase Proofs.ParserGrammarSoundDefs.
Import ListNotations.
#[local] Opaque expect next err la.

Section Steps.
  Variable classify : list N -> numcls.
  Lemma S_block n : sound_at classify n -> C_block classify (S n).
  Proof.
    intros IH st v st' H O Hec. spread IH. rewrite block_eq in H. dhv H; unstick H; inv_ok H; chain classify n; done.
  Qed.
  Lemma S_block_loc n : sound_at classify n -> C_block_loc classify (S n).
  Proof.
    intros IH st v st' H O Hec. spread IH. rewrite block_loc_eq in H. dhv H; unstick H; inv_ok H; chain classify n.
    split; assumption.
  Qed.
  Lemma S_block_loc_excl n : sound_at classify n -> C_block_loc_excl classify (S n).
  Proof.
    intros IH st v st' H O Hec. spread IH. rewrite block_loc_excl_eq in H. dhv H; unstick H; inv_ok H; chain classify n.
    split; assumption.
  Qed.
  Lemma S_stats n : sound_at classify n -> C_stats classify (S n).
  Proof.
    intros IH st acc v st' H O Hec. spread IH. rewrite stats_eq in H. dhv H; unstick H; try inv_ok H; chain classify n; done.
  Qed.

  Lemma attnamelist_intro ts r1 c r2 m r a :
    T TkIdentifier ts r1 -> Attrib c r1 r2 -> AttTail m r2 r -> (c = 1 <-> a = AttrClose) -> c <= 1 -> m <= 1 ->
    (match a with AttrClose => true | _ => false end = true -> m = 0) ->
    AttNameList (c + m) ts r /\ c + m <= 1.
  Proof.
    intros H1 H2 H3 Hc Hc1 Hm Hm0. split; [exists c, m, r1, r2; auto|].
    destruct a; try (assert (c <> 1) by (intros X; apply Hc in X; discriminate X); lia).
    specialize (Hm0 eq_refl). lia.
  Qed.

  Ltac local_case classify n :=
    norm_la; monos classify n;
    match goal with
    | Heqp : p_local_attr ?s0 = (?a, ?p), Heqr : p_local_namelist_tail _ ?p _ _ _ _ = Ok (_, ?p1) |- _ =>
      final ltac:(fun s => ecf s); try (exfalso; lia);
      walk s0;
      let c := fresh "c" in let HA := fresh "HA" in let HOp := fresh "HOp" in let Hc := fresh "Hc" in
      let Hc1 := fresh "Hc1" in
      destruct (s_local_attr _ _ _ Heqp ltac:(assumption) ltac:(lia)) as (c & HA & HOp & Hc & Hc1);
      let m := fresh "m" in let HM := fresh "HM" in let HOp1 := fresh "HOp1" in let Hm1 := fresh "Hm1" in
      let Hm2 := fresh "Hm2" in
      destruct (s_local_namelist_tail _ _ _ _ _ _ _ _ Heqr HOp ltac:(lia)) as (m & HM & HOp1 & Hm1 & Hm2);
      final ltac:(fun s => walk s);
      match goal with HT : T TkIdentifier _ (rest s0) |- _ =>
        destruct (attnamelist_intro _ _ _ _ _ _ _ HT HA HM Hc Hc1 Hm1 Hm2) as [HAN HAle]
      end
    end.

  Lemma S_stat n : sound_at classify n -> C_stat classify (S n).
  Proof.
    intros IH st v st' H O Hec. spread IH. rewrite stat_eq in H. dhv H; unstick H; try inv_ok H.
    all: try solve [chain classify n; done].
    - local_case classify n. done.
    - local_case classify n. done.
    - exfalso. norm_la. apply (la_legal st O). assumption.
    - eapply I6; eauto.
  Qed.
End Steps.
