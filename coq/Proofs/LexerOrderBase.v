(* C04, token order, part 1 (byte level): how far the lexer's position (line, pos - lsp) can move.

   - lw / max_line_bytes : the longest line of a byte text, lines ending at CR or LF, measured in BYTES.  (Bytes, not
     characters: after a short comment and after the `#` first line the lexer's column counts bytes, and an EOF token
     that follows sits at that column.)
   - Fits W s : the column of state s is >= 0, and at most `cur`, where the rest of the text read from column `cur`
     has no line longer than W.
   - Moves s s' m k : s' is s after m bytes without line end, on the same line, with the column advanced by k <= m.
   - scan_token_fields : a token scanned without lexical error is recorded with line / lineStartPos / end = those of
     the state after it and start = the position before it.
   - skip_ws_f_fits : white space, line ends and short comments keep Fits and never decrease the key line * W + column. *)
From Coq Require Import List NArith ZArith Bool Arith Lia ZifyN ZifyNat ZifyBool.
From LH Require Import Base.Bytes Base.Res Model.Codec Model.Lexer.
From LH Require Import Proofs.LexerRangeUtf8 Proofs.LexerRangeScan.
Import ListNotations.
Local Open Scope N_scope.

(* ------------------------------------------------------------------ the longest line, in bytes *)
Fixpoint lw (bs : list N) (cur : nat) {struct bs} : nat :=
  match bs with
  | [] => cur
  | b :: t => if is_newline b then Nat.max cur (lw t 0) else lw t (S cur)
  end.
Definition max_line_bytes (bs : list N) : nat := lw bs 0.

Lemma lw_ge_cur : forall bs cur, (cur <= lw bs cur)%nat.
Proof.
  induction bs as [|b t IH]; intros cur; cbn [lw]; [lia|].
  destruct (is_newline b); [lia|]. specialize (IH (S cur)). lia.
Qed.

Lemma lw_mono : forall bs c1 c2, (c1 <= c2)%nat -> (lw bs c1 <= lw bs c2)%nat.
Proof.
  induction bs as [|b t IH]; intros c1 c2 H; cbn [lw]; [exact H|].
  destruct (is_newline b); [lia|]. apply IH. lia.
Qed.

(* m bytes, none of them a line end *)
Definition NoNl (ch : list N) (m : nat) : Prop :=
  forall i, (i < m)%nat -> exists b, nth_error ch i = Some b /\ is_newline b = false.

Lemma NoNl_le ch m n : NoNl ch m -> (n <= m)%nat -> NoNl ch n.
Proof. intros H Hle i Hi. apply H. lia. Qed.

Lemma NoNl_cons b ch m : is_newline b = false -> NoNl ch m -> NoNl (b :: ch) (S m).
Proof.
  intros Hb H i Hi. destruct i as [|i]; [exists b; split; [reflexivity|exact Hb]|]. cbn [nth_error]. apply H. lia.
Qed.

Lemma NoNl_0 ch : NoNl ch 0.
Proof. intros i Hi. lia. Qed.

Lemma PlainTo_NoNl ch n : PlainTo ch n -> NoNl ch n.
Proof.
  intros H i Hi. destruct (H i Hi) as (b & Hb & Hp). exists b. split; [exact Hb|].
  unfold plain in Hp. destruct (is_newline b); [|reflexivity]. rewrite andb_false_r in Hp. discriminate.
Qed.

Lemma until_newline_NoNl : forall r, NoNl r (until_newline r).
Proof.
  induction r as [|c r IH]; cbn [until_newline]; [apply NoNl_0|].
  destruct (is_newline c) eqn:E; [apply NoNl_0|]. apply NoNl_cons; assumption.
Qed.

Lemma lw_skip : forall m ch cur, NoNl ch m -> lw (skipn m ch) (cur + m) = lw ch cur.
Proof.
  induction m as [|m IH]; intros ch cur H.
  - cbn [skipn]. f_equal. lia.
  - destruct (H 0%nat ltac:(lia)) as (b & Hb & Hn). destruct ch as [|b' t]; [discriminate|].
    cbn [nth_error] in Hb. injection Hb as ->. cbn [skipn lw]. rewrite Hn.
    replace (cur + S m)%nat with (S cur + m)%nat by lia. apply IH.
    intros i Hi. destruct (H (S i) ltac:(lia)) as (x & Hx & Hxn). cbn [nth_error] in Hx. eauto.
Qed.

(* ------------------------------------------------------------------ states *)
Definition col (s : lst) : Z := (Lexer.pos s - lsp s)%Z.
Definition skey (W : Z) (s : lst) : Z := (line s * W + col s)%Z.

Definition Fits (W : Z) (s : lst) : Prop :=
  (0 <= col s)%Z /\ exists cur, (col s <= Z.of_nat cur)%Z /\ (Z.of_nat (lw (chunk s) cur) <= W)%Z.

Lemma Fits_col W s : Fits W s -> (0 <= col s <= W)%Z.
Proof. intros (H0 & cur & Hc & Hw). pose proof (lw_ge_cur (chunk s) cur). lia. Qed.

Definition Moves (s s' : lst) (m k : nat) : Prop :=
  chunk s' = skipn m (chunk s) /\ line s' = line s /\ lsp s' = lsp s /\
  Lexer.pos s' = (Lexer.pos s + Z.of_nat k)%Z /\ (k <= m)%nat /\ NoNl (chunk s) m.

Lemma moves_fits W s s' m k : Moves s s' m k -> Fits W s ->
  Fits W s' /\ skey W s' = (skey W s + Z.of_nat k)%Z.
Proof.
  intros (Hc & Hl & Hs & Hp & Hk & Hn) (H0 & cur & Hcur & Hw). unfold Fits, skey, col in *. rewrite Hl, Hs, Hp, Hc.
  split; [|lia]. split; [lia|]. exists (cur + m)%nat. rewrite lw_skip by exact Hn. split; lia.
Qed.

Lemma moves_adv s n : NoNl (chunk s) n -> Moves s (adv s n) n n.
Proof.
  intros H. unfold Moves, adv. cbn [chunk line lsp Lexer.pos].
  split; [reflexivity|]. split; [reflexivity|]. split; [reflexivity|]. split; [reflexivity|]. split; [lia|exact H].
Qed.

(* a line end of n = 1 or 2 bytes: the next line starts at column 0 *)
Lemma newline_fits W s n b t :
  chunk s = b :: t -> is_newline b = true ->
  (n = 1%nat \/ (n = 2%nat /\ exists b1 t1, t = b1 :: t1 /\ is_newline b1 = true)) ->
  Fits W s ->
  let s1 := adv s n in
  let s' := mkLst (chunk s1) (line s1 + 1)%Z (Lexer.pos s1) (Lexer.pos s1) in
  Fits W s' /\ (skey W s <= skey W s')%Z.
Proof.
  intros Hch Hb Hn HF. pose proof (Fits_col W s HF) as Hcol. destruct HF as (H0 & cur & Hcur & Hw).
  cbv zeta. unfold Fits, skey, col. cbn [chunk line lsp Lexer.pos adv]. rewrite Hch in *. cbn [lw] in Hw. rewrite Hb in Hw.
  split; [|unfold col in Hcol; lia]. split; [lia|]. exists 0%nat. split; [lia|].
  destruct Hn as [->|(-> & b1 & t1 & -> & Hb1)]; cbn [skipn]; [lia|]. cbn [lw] in Hw. rewrite Hb1 in Hw. lia.
Qed.

(* ------------------------------------------------------------------ no long-bracket opener anywhere in the rest *)
Definition Clean (ch : list N) : Prop :=
  forall k, test [91; 91] (skipn k ch) || test [91; 61] (skipn k ch) = false.

Lemma skipn_skipn {A} : forall a b (l : list A), skipn a (skipn b l) = skipn (b + a) l.
Proof.
  intros a b; revert a. induction b as [|b IH]; intros a l; [reflexivity|].
  destruct l as [|x l]; [destruct a; reflexivity|]. cbn [skipn Nat.add]. apply IH.
Qed.

Lemma Clean_skipn ch n : Clean ch -> Clean (skipn n ch).
Proof. intros H k. rewrite skipn_skipn. apply H. Qed.

(* ------------------------------------------------------------------ the recorded fields of an error-free token *)
Ltac pinj H := repeat (let H2 := fresh "Hp" in apply pair_equal_spec in H; destruct H as [H H2]); subst.

Section Fields.
  Context {fx : FxEscape}.
  Variable gbk : list N -> Z.

  Definition fields (s : lst) (t : tok) (s' : lst) : Prop :=
    tline t = line s' /\ tlsp t = lsp s' /\ tto t = Lexer.pos s' /\ tfrom t = Lexer.pos s.

  Lemma scan_short_f_ov : forall fuel d ch i ss acc ln ls p0 errs str s' ov,
    scan_short_f gbk fuel d ch i ss acc ln ls p0 errs = (str, s', [], ov) -> ov = None.
  Proof.
    induction fuel as [|f IH]; intros d ch i ss acc ln ls p0 errs str s' ov H.
    - cbn [scan_short_f] in H. cbv zeta in H. psplit H. apply app_eq_nil in Hp0 as [_ Hp0]. discriminate.
    - cbn [scan_short_f] in H. cbv zeta in H.
      destruct (i <? length ch)%nat; [|psplit H; apply app_eq_nil in Hp0 as [_ Hp0]; discriminate].
      destruct (nth_byte ch i) as [c|]; [|psplit H; apply app_eq_nil in Hp0 as [_ Hp0]; discriminate].
      destruct (c =? d); [psplit H; symmetry; exact Hp|].
      destruct ((length ch <=? S i)%nat || is_newline c); [psplit H; symmetry; exact Hp|].
      destruct (negb (c =? 92)); [eapply IH; exact H|].
      destruct (read_escape ch (S i) ln ls p0) as [[[[piece i2] ln'] ls'] es]. eapply IH; exact H.
  Qed.

  Lemma scan_long_string_ov s str s1 ov : scan_long_string s = (str, s1, [], ov) -> ov = None.
  Proof.
    unfold scan_long_string. destruct (match_long_bracket (chunk s)) as [lb count].
    destruct lb as [|x lb]; [intros H; psplit H; discriminate|].
    destruct (index_of_sub _ _); cbv zeta; intros H; psplit H; [symmetry; exact Hp|discriminate].
  Qed.

  Section Leaves.
    Variable s : lst.

    Lemma f_simple k n t s' es : simple k n s (Lexer.pos s) = (t, s', es) -> fields s t s'.
    Proof. unfold simple. intros H. pinj H. repeat split. Qed.

    Lemma f_number t s' es0 :
      (let '(str, s1, es) := scan_number s in (mk TkNumber str (Lexer.pos s) s1, s1, es)) = (t, s', es0) -> fields s t s'.
    Proof. intros H. destruct (scan_number s) as [[str s1] es1]. pinj H. repeat split. Qed.

    Lemma f_ident t s' es0 :
      (let '(str, s1) := scan_identifier s in
       (mk (match lookup_kw str keywords with Some k => k | None => TkIdentifier end) str (Lexer.pos s) s1, s1,
        @nil lexerr)) = (t, s', es0) -> fields s t s'.
    Proof. intros H. destruct (scan_identifier s) as [str s1]. pinj H. repeat split. Qed.

    Lemma f_illegal t s' :
      (let '(lf, str, s1) := scan_illegal gbk s in
       let t := mk IKIllegal str (Lexer.pos s) s1 in
       let s2 := if lf then mkLst (chunk s1) (line s1 + 1)%Z (Lexer.pos s1) (Lexer.pos s1) else s1 in
       (t, s2, [LeIllegal])) = (t, s', []) -> fields s t s'.
    Proof.
      intros H. destruct (scan_illegal gbk s) as [[lf str] s1]. cbv zeta in H.
      apply pair_equal_spec in H as [_ H]. discriminate.
    Qed.

    Lemma f_short t s' :
      (let '(str, s1, es, ov) := scan_short_string gbk s in
       (mk TkString str (match ov with Some p => p | None => Lexer.pos s end) s1, s1, es)) = (t, s', []) ->
      fields s t s'.
    Proof.
      intros H. destruct (scan_short_string gbk s) as [[[str s1] es1] ov] eqn:Hn. pinj H.
      assert (ov = None) as ->.
      { unfold scan_short_string in Hn. destruct (chunk s); [pinj Hn; reflexivity|].
        eapply scan_short_f_ov; exact Hn. }
      repeat split.
    Qed.

    Lemma f_long t s' :
      (let '(str, s1, es, ov) := scan_long_string s in
       (mk TkString str (match ov with Some p => p | None => Lexer.pos s end) s1, s1, es)) = (t, s', []) ->
      fields s t s'.
    Proof.
      intros H. destruct (scan_long_string s) as [[[str s1] es1] ov] eqn:Hn. pinj H.
      rewrite (scan_long_string_ov _ _ _ _ Hn). repeat split.
    Qed.
  End Leaves.

  Ltac fin H :=
    first [ solve [eapply f_simple; exact H]
          | solve [eapply f_number; exact H]
          | solve [eapply f_ident; exact H]
          | solve [eapply f_illegal; exact H]
          | solve [eapply f_short; exact H]
          | solve [eapply f_long; exact H] ].

  Lemma scan_token_fields s t s' : scan_token gbk s = (t, s', []) -> chunk s <> [] -> fields s t s'.
  Proof.
    intros H Hne. unfold scan_token in H.
    destruct (chunk s) as [|c rest] eqn:Hch; [congruence|]. rewrite <- Hch in H. cbv zeta in H.
    repeat match type of H with
           | context [if ?b then _ else _] => destruct b eqn:?
           end;
      try (destruct rest as [|c1 rest'];
           [|repeat match type of H with
                    | context [if ?b then _ else _] => destruct b eqn:?
                    end]);
      try fin H.
  Qed.
End Fields.

(* ------------------------------------------------------------------ white space, line ends, short comments *)
Section SkipWs.
  Variable W : Z.

  Lemma skip_ws_f_fits : forall fuel p2 p1 s cs errs s1 cs1 errs1,
    skip_ws_f fuel p2 p1 s cs errs = (s1, cs1, errs1) -> Clean (chunk s) -> Fits W s ->
    Clean (chunk s1) /\ Fits W s1 /\ (skey W s <= skey W s1)%Z.
  Proof.
    induction fuel as [|f IH]; intros p2 p1 s cs errs s1 cs1 errs1 H HC HF.
    { cbn [skip_ws_f] in H. psplit H. subst s1. split; [exact HC|]. split; [exact HF|lia]. }
    cbn [skip_ws_f] in H. destruct (chunk s) as [|c0 rest] eqn:Hch.
    { psplit H. subst s1. split; [rewrite Hch; exact HC|]. split; [exact HF|lia]. }
    cbv zeta in H. rewrite <- Hch in HC.
    assert (Hstep : forall s' cs' errs', Clean (chunk s') -> Fits W s' -> (skey W s <= skey W s')%Z ->
              skip_ws_f f p2 p1 s' cs' errs' = (s1, cs1, errs1) ->
              Clean (chunk s1) /\ Fits W s1 /\ (skey W s <= skey W s1)%Z).
    { intros s' cs' errs' HC' HF' HK H'. destruct (IH _ _ _ _ _ _ _ _ H' HC' HF') as (A & B & C). split; [exact A|]. split; [exact B|lia]. }
    destruct (match rest with c1 :: _ => (c0 =? 13) && (c1 =? 10) || (c0 =? 10) && (c1 =? 13) | [] => false end) eqn:Ewrap.
    { destruct rest as [|c1 rest']; [discriminate|].
      destruct (newline_fits W s 2 c0 (c1 :: rest') Hch) as [HF' HK]; [unfold is_newline; lia| |exact HF|].
      { right. split; [reflexivity|]. exists c1, rest'. split; [reflexivity|unfold is_newline; lia]. }
      cbv zeta in HF', HK. apply Hstep in H; [exact H| |exact HF'|exact HK].
      cbn [chunk adv]. apply Clean_skipn. exact HC. }
    destruct (is_newline c0) eqn:Enl.
    { destruct (newline_fits W s 1 c0 rest Hch Enl) as [HF' HK]; [left; reflexivity|exact HF|].
      cbv zeta in HF', HK. apply Hstep in H; [exact H| |exact HF'|exact HK].
      cbn [chunk adv]. apply Clean_skipn. exact HC. }
    destruct (is_white c0) eqn:Ewh.
    { assert (HM : Moves s (adv s 1) 1 1).
      { apply moves_adv. rewrite Hch. apply NoNl_cons; [exact Enl|apply NoNl_0]. }
      destruct (moves_fits W _ _ _ _ HM HF) as [HF' HK].
      apply Hstep in H; [exact H| |exact HF'|lia]. cbn [chunk adv]. apply Clean_skipn. exact HC. }
    destruct (negb (match rest with c1 :: _ => (c0 =? 45) && (c1 =? 45) | [] => false end)) eqn:Epre.
    { psplit H. subst s1. split; [exact HC|]. split; [exact HF|lia]. }
    destruct rest as [|c1 r]; [discriminate|].
    assert (c0 = 45 /\ c1 = 45) as [-> ->] by lia.
    assert (Hlb : test [91; 91] r || test [91; 61] r = false).
    { specialize (HC 2%nat). rewrite Hch in HC. exact HC. }
    rewrite (skip_comment_short s r Hch Hlb) in H.
    set (s' := adv (adv s 2) (until_newline r)) in *.
    assert (HM : Moves s s' (2 + until_newline r) (2 + until_newline r)).
    { unfold Moves, s', adv. cbn [chunk line lsp Lexer.pos]. rewrite Hch. cbn [skipn].
      repeat split; try reflexivity; [lia|].
      change (2 + until_newline r)%nat with (S (S (until_newline r))).
      apply NoNl_cons; [reflexivity|]. apply NoNl_cons; [reflexivity|]. apply until_newline_NoNl. }
    destruct (moves_fits W _ _ _ _ HM HF) as [HF' HK].
    apply Hstep in H; [exact H| |exact HF'|lia].
    destruct HM as (Hc & _). rewrite Hc. apply Clean_skipn. exact HC.
  Qed.

  Lemma skip_ws_fits p2 p1 s s1 cms es :
    skip_ws p2 p1 s = (s1, cms, es) -> Clean (chunk s) -> Fits W s ->
    Clean (chunk s1) /\ Fits W s1 /\ (skey W s <= skey W s1)%Z.
  Proof.
    unfold skip_ws. intros H HC HF.
    destruct (skip_ws_f (S (length (chunk s))) p2 p1 s (mkCst None 0 []) []) as [[s1' cs] errs] eqn:E.
    psplit H. subst s1. eapply skip_ws_f_fits; [exact E|exact HC|exact HF].
  Qed.
End SkipWs.
