(* C07, part 5 (types 4 and 17), trace level: what the sweeps on scope exit report.
   For ANY action list run on the scope machine, provided the declaration Locs of the variables are pairwise distinct:
   the diagnostics of the run (plus the sweep of what is still open at the end) are, as a set, the union over every
   variable v that was on the stack or is added by the list of  sweep_var (v evolved by the logged occurrences that are
   bound to v's declaration Loc). *)
From Coq Require Import List NArith ZArith Bool Lia Permutation.
From LH Require Import Base.Bytes Model.Lexer Model.Ast Spec.LuaUsage Model.Usage Proofs.UsageBindRun.
Import ListNotations.
Local Open Scope N_scope.

Lemma uloc_eqb_eq a b : loc_eqb a b = true <-> a = b.
Proof.
  unfold loc_eqb. split.
  - intros H. repeat (apply andb_true_iff in H; destruct H as [H ?]).
    destruct a, b. cbn in *. f_equal; apply Z.eqb_eq; assumption.
  - intros ->. rewrite !Z.eqb_refl. reflexivity.
Qed.
Lemma uloc_eqb_refl a : loc_eqb a a = true.
Proof. apply uloc_eqb_eq. reflexivity. Qed.
Lemma uloc_eqb_neq a b : a <> b -> loc_eqb a b = false.
Proof. intros H. destruct (loc_eqb a b) eqn:E; [|reflexivity]. apply uloc_eqb_eq in E. contradiction. Qed.

Lemma nodup_app_l {A} (a b : list A) : NoDup (a ++ b) -> NoDup a.
Proof.
  induction a as [|x r IH]; intros H; [constructor|]. cbn in H. inversion H as [|? ? Hn Hr]; subst.
  constructor; [|apply IH; exact Hr]. intros Hin. apply Hn. apply in_or_app. left. exact Hin.
Qed.
Lemma nodup_app_r {A} (a b : list A) : NoDup (a ++ b) -> NoDup b.
Proof. induction a as [|x r IH]; intros H; [exact H|]. cbn in H. inversion H; subst. apply IH. assumption. Qed.
Lemma nodup_app_disj {A} (a b : list A) : NoDup (a ++ b) -> forall x, In x a -> In x b -> False.
Proof.
  induction a as [|y r IH]; intros H x Ha Hb; [destruct Ha|]. cbn in H. inversion H as [|? ? Hn Hr]; subst.
  destruct Ha as [->|Ha]; [apply Hn; apply in_or_app; right; exact Hb|exact (IH Hr x Ha Hb)].
Qed.

Definition adds_of (tr : list action) : list var :=
  flat_map (fun a => match a with AAdd v => [v] | _ => [] end) tr.

Lemma adds_of_app a b : adds_of (a ++ b) = adds_of a ++ adds_of b.
Proof. unfold adds_of. apply flat_map_app. Qed.

Section Sweep.
  Variable c : cfg.

  Fixpoint diag1_run (tr : list action) (st : stack) {struct tr} : list diag :=
    match tr with
    | [] => []
    | a :: r => step_diag1 c a st ++ diag1_run r (step_stack true a st)
    end.

  Lemma run1_diags : forall tr s,
    s1_diags (fold_left (step1 true c) tr s) = s1_diags s ++ diag1_run tr (s1_stack s).
  Proof.
    induction tr as [|a r IH]; intros s.
    - cbn. rewrite app_nil_r. reflexivity.
    - cbn [fold_left]. rewrite IH. cbn [step1 s1_diags s1_stack diag1_run]. rewrite <- app_assoc. reflexivity.
  Qed.

  Definition bound_to (d : loc) (o : occ) : bool :=
    match o with ORead _ _ b _ | OWrite _ _ b _ _ _ => binds_to d b end.
  Definition occ_name (o : occ) : name := match o with ORead n _ _ _ | OWrite n _ _ _ _ _ => n end.
  Definition apply_occ (o : occ) (v : var) : var :=
    match o with ORead _ _ _ _ => mark v | OWrite _ l _ _ _ rhs => assign_to l rhs v end.
  Definition evolve_at (d : loc) (v : var) (os : list occ) : var :=
    fold_left (fun v o => if bound_to d o then apply_occ o v else v) os v.

  Lemma apply_occ_loc o v : v_loc (apply_occ o v) = v_loc v.
  Proof. destruct o; reflexivity. Qed.

  Lemma evolve_nohit d v os : (forall o, In o os -> bound_to d o = false) -> evolve_at d v os = v.
  Proof.
    revert v. induction os as [|o r IH]; intros v H; [reflexivity|]. cbn [evolve_at fold_left].
    rewrite (H o (or_introl eq_refl)). apply IH. intros o' Ho'. apply H. right. exact Ho'.
  Qed.

  Definition locs (vs : list var) : list loc := map v_loc vs.

  (* ---- updating the first hit = updating the variable with that Loc *)
  Lemma upd_sc_app_hit p f a b : existsb p a = true -> upd_sc p f (a ++ b) = upd_sc p f a ++ b.
  Proof.
    induction a as [|v r IH]; intros H; [discriminate|]. cbn in *. destruct (p v); [reflexivity|].
    cbn in H. rewrite IH by exact H. reflexivity.
  Qed.
  Lemma upd_sc_app_nohit p f a b : existsb p a = false -> upd_sc p f (a ++ b) = a ++ upd_sc p f b.
  Proof.
    induction a as [|v r IH]; intros H; [reflexivity|]. cbn in *. destruct (p v); [discriminate|].
    cbn in H. rewrite IH by exact H. reflexivity.
  Qed.
  Lemma upd_st_concat p f st : concat (upd_st p f st) = upd_sc p f (concat st).
  Proof.
    induction st as [|sc r IH]; [reflexivity|]. cbn. destruct (existsb p sc) eqn:E.
    - cbn. rewrite upd_sc_app_hit by exact E. reflexivity.
    - cbn. rewrite upd_sc_app_nohit by exact E. rewrite IH. reflexivity.
  Qed.

  Lemma upd_sc_by_loc p f vs :
    NoDup (locs vs) -> (forall v, v_loc (f v) = v_loc v) ->
    upd_sc p f vs = match find p vs with
                    | Some vh => map (fun v => if loc_eqb (v_loc vh) (v_loc v) then f v else v) vs
                    | None => vs
                    end.
  Proof.
    intros Hnd Hf. induction vs as [|v r IH]; [reflexivity|].
    cbn [locs map] in Hnd. inversion Hnd as [|? ? Hni Hnd']; subst.
    cbn [upd_sc find]. destruct (p v) eqn:Ep.
    - cbn [map]. rewrite uloc_eqb_refl. f_equal.
      rewrite <- (map_id r) at 1. apply map_ext_in. intros v' Hv'.
      rewrite uloc_eqb_neq; [reflexivity|]. intros E. apply Hni. rewrite E. apply in_map. exact Hv'.
    - rewrite (IH Hnd'). destruct (find p r) as [vh|] eqn:Efi; [|reflexivity].
      cbn [map]. apply find_some in Efi. destruct Efi as [Hin _].
      rewrite uloc_eqb_neq; [reflexivity|]. intros E. apply Hni. rewrite <- E. apply in_map. exact Hin.
  Qed.

  (* the variables of the stack after a read / write, in terms of the logged occurrence *)
  Lemma step_vars_read n l flv su ci st :
    NoDup (locs (concat st)) ->
    concat (step_stack true (ARead n l flv su ci) st)
    = map (fun v => if bound_to (v_loc v) (ORead n l (binding_of (find_st (hit true n l) st)) flv)
                    then mark v else v) (concat st).
  Proof.
    intros Hnd. cbn [step_stack]. rewrite upd_st_concat, (upd_sc_by_loc _ _ _ Hnd) by reflexivity.
    rewrite find_st_concat. destruct (find (hit true n l) (concat st)) as [vh|]; cbn [binding_of bound_to binds_to].
    - reflexivity.
    - rewrite map_id. reflexivity.
  Qed.
  Lemma step_vars_write n l flv slv rhs st :
    NoDup (locs (concat st)) ->
    concat (step_stack true (AWrite n l flv slv rhs) st)
    = map (fun v => if bound_to (v_loc v) (OWrite n l (binding_of (find_st (hit true n l) st)) flv slv rhs)
                    then assign_to l rhs v else v) (concat st).
  Proof.
    intros Hnd. cbn [step_stack]. rewrite upd_st_concat, (upd_sc_by_loc _ _ _ Hnd) by reflexivity.
    rewrite find_st_concat. destruct (find (hit true n l) (concat st)) as [vh|]; cbn [binding_of bound_to binds_to].
    - reflexivity.
    - rewrite map_id. reflexivity.
  Qed.

  Lemma concat_add_var v st : concat (add_var v st) = v :: concat st.
  Proof. destruct st; reflexivity. Qed.

  (* ---- a logged binding points at a variable of the stack or at one added by the list, with the same name *)
  Lemma locs_step_eq a st :
    match a with ARead _ _ _ _ _ | AWrite _ _ _ _ _ | APush => True | _ => False end ->
    locs (concat (step_stack true a st)) = locs (concat st).
  Proof.
    destruct a; try contradiction; intros _.
    - reflexivity.
    - cbn [step_stack]. rewrite upd_st_concat. unfold locs.
      induction (concat st) as [|v r IH]; [reflexivity|]. cbn. destruct (hit true n l v); cbn; [reflexivity|].
      rewrite IH. reflexivity.
    - cbn [step_stack]. rewrite upd_st_concat. unfold locs.
      induction (concat st) as [|v r IH]; [reflexivity|]. cbn. destruct (hit true n l v); cbn; [reflexivity|].
      rewrite IH. reflexivity.
  Qed.

  Definition nl_of (vs : list var) : list (name * loc) := map proj vs.

  Lemma nl_step_eq a st :
    match a with ARead _ _ _ _ _ | AWrite _ _ _ _ _ | APush => True | _ => False end ->
    nl_of (concat (step_stack true a st)) = nl_of (concat st).
  Proof.
    destruct a; try contradiction; intros _.
    - reflexivity.
    - cbn [step_stack]. rewrite upd_st_concat. unfold nl_of.
      induction (concat st) as [|v r IH]; [reflexivity|]. cbn. destruct (hit true n l v); cbn; [reflexivity|].
      rewrite IH. reflexivity.
    - cbn [step_stack]. rewrite upd_st_concat. unfold nl_of.
      induction (concat st) as [|v r IH]; [reflexivity|]. cbn. destruct (hit true n l v); cbn; [reflexivity|].
      rewrite IH. reflexivity.
  Qed.

  Lemma head_binding n l st d b :
    b = binding_of (find_st (hit true n l) st) -> binds_to d b = true -> In (n, d) (nl_of (concat st)).
  Proof.
    intros -> H. rewrite find_st_concat in H. destruct (find (hit true n l) (concat st)) as [vh|] eqn:E; [|discriminate].
    apply find_some in E. destruct E as [Hin Hh]. cbn in H. apply uloc_eqb_eq in H. subst d.
    unfold hit in Hh. apply andb_true_iff in Hh. destruct Hh as [Hn _]. apply name_eqb_eq in Hn. subst n.
    unfold nl_of. apply (in_map proj) in Hin. exact Hin.
  Qed.

  Lemma log_bind_src : forall tr st o d,
    In o (log_run tr st) -> bound_to d o = true -> In (occ_name o, d) (nl_of (concat st ++ adds_of tr)).
  Proof.
    induction tr as [|a r IH]; intros st o d Hin Hb; [destruct Hin|].
    cbn [log_run] in Hin. apply in_app_or in Hin. unfold nl_of in *. rewrite map_app.
    destruct Hin as [Hin|Hin].
    - apply in_or_app. left. destruct a as [| |v|n l flv su ci|n l flv slv rhs]; cbn [step_log] in Hin.
      + destruct Hin.
      + destruct Hin.
      + destruct Hin.
      + destruct Hin as [Hin|[]]. subst o. eapply head_binding; [reflexivity|exact Hb].
      + destruct Hin as [Hin|[]]. subst o. eapply head_binding; [reflexivity|exact Hb].
    - specialize (IH _ _ _ Hin Hb). rewrite map_app in IH. apply in_app_or in IH.
      destruct a as [| |v|n l flv su ci|n l flv slv rhs]; cbn [adds_of flat_map app].
      + apply in_or_app. exact IH.
      + destruct IH as [IH|IH]; apply in_or_app; [left|right; exact IH].
        destruct st as [|sc st']; [exact IH|]. cbn [step_stack tl concat] in *. rewrite map_app.
        apply in_or_app. right. exact IH.
      + cbn [step_stack] in IH. rewrite concat_add_var in IH. fold (adds_of r). cbn [map].
        destruct IH as [[IH|IH]|IH]; apply in_or_app.
        * right. left. exact IH.
        * left. exact IH.
        * right. right. exact IH.
      + fold (adds_of r). change (map proj (concat (step_stack true (ARead n l flv su ci) st)))
          with (nl_of (concat (step_stack true (ARead n l flv su ci) st))) in IH.
        rewrite (nl_step_eq (ARead n l flv su ci) st I) in IH. apply in_or_app. exact IH.
      + fold (adds_of r). change (map proj (concat (step_stack true (AWrite n l flv slv rhs) st)))
          with (nl_of (concat (step_stack true (AWrite n l flv slv rhs) st))) in IH.
        rewrite (nl_step_eq (AWrite n l flv slv rhs) st I) in IH. apply in_or_app. exact IH.
  Qed.

  Lemma in_nl_locs n d vs : In (n, d) (nl_of vs) -> In d (locs vs).
  Proof.
    unfold nl_of, locs. intros H. apply in_map_iff in H. destruct H as [v [Hp Hv]].
    injection Hp as _ Hl. subst d. apply in_map. exact Hv.
  Qed.

  (* ---- the characterisation *)
  Definition total (tr : list action) (st : stack) : list diag :=
    diag1_run tr st ++ flat_map (sweep c) (stack_run tr st).

  Definition reported (x : diag) (vs : list var) (os : list occ) : Prop :=
    exists v, In v vs /\ In x (sweep_var c (evolve_at (v_loc v) v os)).

  Lemma in_sweeps x st : In x (flat_map (sweep c) st) <-> exists v, In v (concat st) /\ In x (sweep_var c v).
  Proof.
    split.
    - intros H. apply in_flat_map in H. destruct H as [sc [Hsc H]]. unfold sweep in H.
      apply in_flat_map in H. destruct H as [v [Hv H]]. exists v. split; [|exact H].
      apply in_concat. exists sc. split; assumption.
    - intros [v [Hv H]]. apply in_concat in Hv. destruct Hv as [sc [Hsc Hv]].
      apply in_flat_map. exists sc. split; [exact Hsc|]. unfold sweep. apply in_flat_map. exists v. split; assumption.
  Qed.

  Lemma reported_perm x vs vs' os : Permutation vs vs' -> reported x vs os -> reported x vs' os.
  Proof. intros Hp [v [Hv H]]. exists v. split; [eapply Permutation_in; eauto|exact H]. Qed.

  Lemma total_char : forall tr st x,
    NoDup (locs (concat st ++ adds_of tr)) ->
    (In x (total tr st) <-> reported x (concat st ++ adds_of tr) (log_run tr st)).
  Proof.
    induction tr as [|a r IH]; intros st x Hnd.
    - unfold total. cbn [diag1_run stack_run fold_left log_run adds_of flat_map app]. rewrite app_nil_r.
      rewrite in_sweeps. unfold reported. cbn [evolve_at fold_left]. reflexivity.
    - destruct a as [| |v0|n l flv su ci|n l flv slv rhs].
      + (* APush *)
        unfold total in *. cbn [diag1_run step_diag1 stack_run fold_left log_run step_log adds_of flat_map app] in *.
        exact (IH ([] :: st) x Hnd).
      + (* APop *)
        unfold total in *. cbn [diag1_run stack_run fold_left log_run step_log adds_of flat_map app] in *.
        fold (stack_run r (step_stack true APop st)). fold (adds_of r) in *.
        destruct st as [|sc st'].
        * cbn [step_diag1 step_stack tl app concat] in *. exact (IH [] x Hnd).
        * cbn [step_diag1 step_stack tl concat] in *.
          assert (Hnd2 : NoDup (locs (sc ++ (concat st' ++ adds_of r)))) by (rewrite app_assoc; exact Hnd).
          assert (Hnd' : NoDup (locs (concat st' ++ adds_of r))).
          { unfold locs in *. rewrite map_app in Hnd2. apply nodup_app_r in Hnd2. exact Hnd2. }
          assert (Hfrozen : forall v, In v sc -> evolve_at (v_loc v) v (log_run r st') = v).
          { intros v Hv. apply evolve_nohit. intros o Ho.
            destruct (bound_to (v_loc v) o) eqn:Eb; [|reflexivity]. exfalso.
            pose proof (in_nl_locs _ _ _ (log_bind_src r st' o (v_loc v) Ho Eb)) as Hin.
            unfold locs in Hnd2. rewrite map_app in Hnd2.
            apply (nodup_app_disj _ _ Hnd2 (v_loc v)); [apply in_map; exact Hv|exact Hin]. }
          rewrite <- (app_assoc (sweep c sc)), in_app_iff, (IH st' x Hnd'). split.
          -- intros [H|[v [Hv H]]].
             ++ unfold sweep in H. apply in_flat_map in H. destruct H as [v [Hv H]]. exists v. split.
                ** apply in_or_app. left. apply in_or_app. left. exact Hv.
                ** rewrite (Hfrozen v Hv). exact H.
             ++ exists v. split; [|exact H]. apply in_app_or in Hv.
                destruct Hv as [Hv|Hv]; apply in_or_app; [left; apply in_or_app; right|right]; exact Hv.
          -- intros [v [Hv H]]. apply in_app_or in Hv.
             destruct Hv as [Hv|Hv]; [apply in_app_or in Hv; destruct Hv as [Hv|Hv]|].
             ++ left. unfold sweep. apply in_flat_map. exists v. split; [exact Hv|].
                rewrite (Hfrozen v Hv) in H. exact H.
             ++ right. exists v. split; [apply in_or_app; left; exact Hv|exact H].
             ++ right. exists v. split; [apply in_or_app; right; exact Hv|exact H].
      + (* AAdd *)
        unfold total in *. cbn [diag1_run step_diag1 stack_run fold_left log_run step_log adds_of flat_map app] in *.
        fold (stack_run r (step_stack true (AAdd v0) st)). fold (adds_of r) in *.
        assert (Hperm : Permutation (concat st ++ v0 :: adds_of r) (concat (step_stack true (AAdd v0) st) ++ adds_of r)).
        { cbn [step_stack]. rewrite concat_add_var. cbn [app]. apply Permutation_sym, Permutation_middle. }
        assert (Hnd' : NoDup (locs (concat (step_stack true (AAdd v0) st) ++ adds_of r))).
        { unfold locs in *. eapply Permutation_NoDup; [apply Permutation_map; exact Hperm|exact Hnd]. }
        rewrite (IH _ x Hnd'). split; apply reported_perm; [apply Permutation_sym|]; exact Hperm.
      + (* ARead *)
        unfold total in *. cbn [diag1_run step_diag1 stack_run fold_left log_run step_log adds_of flat_map app] in *.
        fold (stack_run r (step_stack true (ARead n l flv su ci) st)). fold (adds_of r) in *.
        set (o := ORead n l (binding_of (find_st (hit true n l) st)) flv).
        assert (Hnds : NoDup (locs (concat st))).
        { unfold locs in *. rewrite map_app in Hnd. apply nodup_app_l in Hnd. exact Hnd. }
        assert (Hnd' : NoDup (locs (concat (step_stack true (ARead n l flv su ci) st) ++ adds_of r))).
        { unfold locs in *. rewrite map_app in *. fold (locs (concat (step_stack true (ARead n l flv su ci) st))).
          rewrite (locs_step_eq (ARead n l flv su ci) st I). exact Hnd. }
        rewrite (IH _ x Hnd'). rewrite (step_vars_read n l flv su ci st Hnds). fold o.
        unfold reported. cbn [evolve_at fold_left]. split.
        * intros [v' [Hv' H]]. apply in_app_or in Hv'. destruct Hv' as [Hv'|Hv'].
          -- apply in_map_iff in Hv'. destruct Hv' as [v [Hvv Hv]]. exists v. split; [apply in_or_app; left; exact Hv|].
             subst v'. destruct (bound_to (v_loc v) o); exact H.
          -- exists v'. split; [apply in_or_app; right; exact Hv'|].
             assert (Hb : bound_to (v_loc v') o = false).
             { destruct (bound_to (v_loc v') o) eqn:Eb; [|reflexivity]. exfalso.
               pose proof (head_binding n l st (v_loc v') _ eq_refl Eb) as Hin. apply in_nl_locs in Hin.
               unfold locs in Hnd. rewrite map_app in Hnd.
               apply (nodup_app_disj _ _ Hnd (v_loc v')); [exact Hin|apply in_map; exact Hv']. }
             rewrite Hb. exact H.
        * intros [v [Hv H]]. apply in_app_or in Hv. destruct Hv as [Hv|Hv].
          -- exists (if bound_to (v_loc v) o then mark v else v). split.
             ++ apply in_or_app. left. apply in_map_iff. exists v. split; [reflexivity|exact Hv].
             ++ destruct (bound_to (v_loc v) o); exact H.
          -- exists v. split; [apply in_or_app; right; exact Hv|].
             assert (Hb : bound_to (v_loc v) o = false).
             { destruct (bound_to (v_loc v) o) eqn:Eb; [|reflexivity]. exfalso.
               pose proof (head_binding n l st (v_loc v) _ eq_refl Eb) as Hin. apply in_nl_locs in Hin.
               unfold locs in Hnd. rewrite map_app in Hnd.
               apply (nodup_app_disj _ _ Hnd (v_loc v)); [exact Hin|apply in_map; exact Hv]. }
             rewrite Hb in H. exact H.
      + (* AWrite *)
        unfold total in *. cbn [diag1_run step_diag1 stack_run fold_left log_run step_log adds_of flat_map app] in *.
        fold (stack_run r (step_stack true (AWrite n l flv slv rhs) st)). fold (adds_of r) in *.
        set (o := OWrite n l (binding_of (find_st (hit true n l) st)) flv slv rhs).
        assert (Hnds : NoDup (locs (concat st))).
        { unfold locs in *. rewrite map_app in Hnd. apply nodup_app_l in Hnd. exact Hnd. }
        assert (Hnd' : NoDup (locs (concat (step_stack true (AWrite n l flv slv rhs) st) ++ adds_of r))).
        { unfold locs in *. rewrite map_app in *. fold (locs (concat (step_stack true (AWrite n l flv slv rhs) st))).
          rewrite (locs_step_eq (AWrite n l flv slv rhs) st I). exact Hnd. }
        rewrite (IH _ x Hnd'). rewrite (step_vars_write n l flv slv rhs st Hnds). fold o.
        unfold reported. cbn [evolve_at fold_left]. split.
        * intros [v' [Hv' H]]. apply in_app_or in Hv'. destruct Hv' as [Hv'|Hv'].
          -- apply in_map_iff in Hv'. destruct Hv' as [v [Hvv Hv]]. exists v. split; [apply in_or_app; left; exact Hv|].
             subst v'. destruct (bound_to (v_loc v) o); exact H.
          -- exists v'. split; [apply in_or_app; right; exact Hv'|].
             assert (Hb : bound_to (v_loc v') o = false).
             { destruct (bound_to (v_loc v') o) eqn:Eb; [|reflexivity]. exfalso.
               pose proof (head_binding n l st (v_loc v') _ eq_refl Eb) as Hin. apply in_nl_locs in Hin.
               unfold locs in Hnd. rewrite map_app in Hnd.
               apply (nodup_app_disj _ _ Hnd (v_loc v')); [exact Hin|apply in_map; exact Hv']. }
             rewrite Hb. exact H.
        * intros [v [Hv H]]. apply in_app_or in Hv. destruct Hv as [Hv|Hv].
          -- exists (if bound_to (v_loc v) o then assign_to l rhs v else v). split.
             ++ apply in_or_app. left. apply in_map_iff. exists v. split; [reflexivity|exact Hv].
             ++ destruct (bound_to (v_loc v) o); exact H.
          -- exists v. split; [apply in_or_app; right; exact Hv|].
             assert (Hb : bound_to (v_loc v) o = false).
             { destruct (bound_to (v_loc v) o) eqn:Eb; [|reflexivity]. exfalso.
               pose proof (head_binding n l st (v_loc v) _ eq_refl Eb) as Hin. apply in_nl_locs in Hin.
               unfold locs in Hnd. rewrite map_app in Hnd.
               apply (nodup_app_disj _ _ Hnd (v_loc v)); [exact Hin|apply in_map; exact Hv]. }
             rewrite Hb in H. exact H.
  Qed.
End Sweep.
