(* C03, token level, soundness: a run of a parser function that adds no parse error consumed a derivation of the
   grammar.  This file: the invariant on remainders (well formed, no illegal token), inversion of the state
   primitives under "no new error", the proof automation (error-count chain, forward walk along the states of one
   unfolding), and the helper loops outside the mutual block. *)
From Coq Require Import List NArith ZArith Bool Lia.
From LH Require Import Base.Bytes Base.Res Model.Lexer Model.Ast Model.Parser Spec.LuaGrammar.
From LH Require Import Proofs.ParserGrammarBase Proofs.ParserGrammarMono Proofs.ParserGrammarFlat.
Import ListNotations.

(* ------------------------------------------------------------------ remainders without illegal tokens *)
Definition legal (l : list ltok) : Prop := Forall (fun t => kd t <> IKIllegal) l.
Definition okl (l : list ltok) : Prop := wfl l /\ legal l.

Lemma okl_tail t r : okl (t :: r) -> kd t <> TkEOF -> okl r.
Proof. intros [W L] N. split; [eapply wfl_tail; eauto | inversion L; assumption]. Qed.
Lemma okl_hd_legal t r : okl (t :: r) -> kd t <> IKIllegal.
Proof. intros [_ L]. inversion L; assumption. Qed.

Lemma next_inv' st :
  okl (rest st) -> la st <> TkEOF ->
  exists t, rest st = t :: rest (next st) /\ kd t = la st /\ okl (rest (next st)) /\ now_tok (next st) = lt t.
Proof.
  intros [W L] N. destruct (next_inv st W N) as (t & E & K & W' & Nw).
  exists t. repeat split; auto. rewrite E in L. inversion L; assumption.
Qed.

Lemma expect_inv' st k :
  okl (rest st) -> k <> TkEOF -> ec (expect k st) = ec st ->
  exists t, rest st = t :: rest (expect k st) /\ kd t = k /\ okl (rest (expect k st)) /\
            now_tok (expect k st) = lt t.
Proof.
  intros [W L] N Hec. destruct (expect_inv st k W N Hec) as ((t0 & E0 & K0) & W' & Ex & t & E & Nw).
  rewrite Ex in *. exists t. rewrite E in E0. injection E0 as <-.
  repeat split; auto. rewrite E in L. inversion L; assumption.
Qed.

Lemma la_legal st : okl (rest st) -> la st <> IKIllegal.
Proof.
  intros [W L]. destruct (wfl_hd _ W) as (t & r & E). rewrite la_hdk, E. simpl. rewrite E in L.
  inversion L; assumption.
Qed.

Lemma T_intro t r k : kd t = k -> T k (t :: r) r.
Proof. intros K. exists t. auto. Qed.

(* ------------------------------------------------------------------ look-ahead tests as equations *)
Lemma stat_start_la k s : stat_start_of k = s -> s <> StOther ->
  match s with
  | StSemi => k = TkSepSemi | StBreak => k = TkKwBreak | StLabel => k = TkSepLabel | StGoto => k = TkKwGoto
  | StDo => k = TkKwDo | StWhile => k = TkKwWhile | StRepeat => k = TkKwRepeat | StIf => k = TkKwIf
  | StFor => k = TkKwFor | StFunction => k = TkKwFunction | StLocal => k = TkKwLocal | StIllegal => k = IKIllegal
  | StOther => True
  end.
Proof. intros <- _. apply stat_start_inv. Qed.

Ltac norm_la :=
  repeat match goal with
         | H : tk_eqb _ _ = true |- _ => apply tk_eqb_eq in H
         | H : tk_eqb _ _ = false |- _ => apply tk_eqb_neq in H
         | H : negb _ = true |- _ => apply negb_true_iff in H
         | H : negb _ = false |- _ => apply negb_false_iff in H
         | H : stat_start_of ?k = ?s |- _ =>
           lazymatch s with
           | StOther => fail
           | _ => let X := fresh "Hla" in
                  pose proof (stat_start_inv k) as X; rewrite H in X; clear H
           end
         | H : exp0_start_of ?k = ?s |- _ =>
           lazymatch s with
           | E0Other => fail
           | _ => let X := fresh "Hla" in
                  pose proof (exp0_start_inv k) as X; rewrite H in X; clear H
           end
         | H : suffix_start_of ?k = ?s |- _ =>
           let X := fresh "Hla" in
           pose proof (suffix_start_inv k) as X; rewrite H in X; clear H
         end.

(* la s0 <> TkEOF from what is known about la s0 *)
Ltac ne_eof s0 :=
  first
    [ assumption
    | let X := fresh "X" in
      intro X;
      match goal with
      | H : la s0 = _ |- _ => rewrite X in H; discriminate H
      | H : _ (la s0) = _ |- _ => rewrite X in H; discriminate H
      | H : la s0 = _ \/ _ |- _ => rewrite X in H; decompose [or] H; discriminate
      | H : context [la s0] |- _ =>
        lazymatch type of H with
        | _ = true => rewrite X in H; vm_compute in H; discriminate H
        | _ = false => rewrite X in H; vm_compute in H; discriminate H
        end
      end ].

(* ------------------------------------------------------------------ the error-count chain *)
(* all facts  ec a <= ec b  along the states that lead to s *)
Ltac ecf s :=
  lazymatch s with
  | expect ?k ?s0 => pose proof (ec_expect_ge k s0); ecf s0
  | next ?s0 => pose proof (ec_next s0); ecf s0
  | err ?e ?s0 => pose proof (ec_err e s0); ecf s0
  | _ => tryif is_var s then
           (match goal with
            | L : le_st ?a s |- _ => pose proof (proj1 L); ecf a
            | _ => idtac
            end)
         else idtac
  end.

Ltac have_okl s := lazymatch goal with _ : okl (rest s) |- _ => idtac end.

Ltac split_all :=
  repeat match goal with
         | H : _ /\ _ |- _ => destruct H
         | H : exists _, _ |- _ => destruct H
         end.

(* use the hypothesis about the call that produced state s, by the induction hypothesis that fits *)
Ltac use_call s :=
  match goal with
  | Hc : _ = Ok (_, s) |- _ =>
    let Hc' := fresh "Hc" in
    pose proof Hc as Hc';
    match goal with
    | I : _ |- _ =>
      lazymatch type of I with forall _, _ => idtac end;
      apply I in Hc'; [ | first [assumption | lia | reflexivity] ..]
    end;
    split_all
  end.

Ltac walk s :=
  tryif have_okl s then idtac else
  lazymatch s with
  | expect ?k ?s0 =>
      walk s0;
      let Hx := fresh "Hx" in
      assert (Hx : ec (expect k s0) = ec s0) by lia;
      let t := fresh "t" in let E := fresh "E" in let K := fresh "K" in let HO := fresh "HO" in
      let Nw := fresh "Nw" in let HT := fresh "HT" in
      destruct (expect_inv' s0 k ltac:(assumption) ltac:(discriminate) Hx) as (t & E & K & HO & Nw);
      pose proof (T_intro t (rest (expect k s0)) k K) as HT; rewrite <- E in HT
  | next ?s0 =>
      walk s0;
      let t := fresh "t" in let E := fresh "E" in let K := fresh "K" in let HO := fresh "HO" in
      let Nw := fresh "Nw" in
      destruct (next_inv' s0 ltac:(assumption) ltac:(ne_eof s0)) as (t & E & K & HO & Nw);
      try match goal with Hl : la s0 = _ |- _ => rewrite Hl in K end;
      let HT := fresh "HT" in
      pose proof (T_intro t (rest (next s0)) _ K) as HT; rewrite <- E in HT
  | _ =>
      match goal with
      | L : le_st ?a s |- _ => walk a; use_call s
      end
  end.

(* le_st facts for the helper calls *)
Ltac mono_ext :=
  repeat match goal with
         | Hc : ?call = Ok (_, ?s) |- _ =>
           lazymatch goal with _ : le_st _ s |- _ => fail | _ => idtac end;
           let L := fresh "L" in
           pose proof Hc as L;
           first [ apply le_namelist_tail in L | apply le_local_namelist_tail in L | apply le_parlist_tail in L
                 | apply le_parlist in L | apply le_funcname_dots in L | apply le_funcname in L ]
         | Hc : p_local_attr _ = (_, ?s) |- _ =>
           lazymatch goal with _ : le_st _ s |- _ => fail | _ => idtac end;
           let L := fresh "L" in
           pose proof Hc as L; apply le_local_attr in L
         end.

#[local] Opaque expect next err la.

(* ------------------------------------------------------------------ helper loops outside the mutual block *)
Lemma s_namelist_tail n : forall st names locs v st',
  p_namelist_tail n st names locs = Ok (v, st') -> okl (rest st) -> ec st' = ec st ->
  NameTail (rest st) (rest st') /\ okl (rest st').
Proof.
  induction n as [|n IH]; intros st names locs v st' H O Hec; [discriminate|].
  rewrite namelist_tail_eq in H. dhv H; norm_la.
  - mono_ext. ecf st'. walk st'. split; [|assumption]. eapply NT_cons; eauto.
  - inv_ok H. split; [|assumption]. apply NT_end. rewrite <- la_hdk. assumption.
Qed.

Lemma now_str_tok st t : now_tok st = lt t -> now_str st = tstr (lt t).
Proof. unfold now_str. intros ->. reflexivity. Qed.

Lemma s_local_attr st a st' :
  p_local_attr st = (a, st') -> okl (rest st) -> ec st' = ec st ->
  exists c, Attrib c (rest st) (rest st') /\ okl (rest st') /\ (c = 1 <-> a = AttrClose) /\ c <= 1.
Proof.
  unfold p_local_attr. intros H O Hec. dhv H; norm_la; inv_ok H.
  - ecf (expect TkOpGt (expect TkIdentifier (next st))). walk (expect TkOpGt (expect TkIdentifier (next st))).
    exists 1. split; [|split; [assumption | split; [tauto | lia]]].
    apply beq_bytes_eq in Heqb0. rewrite (now_str_tok _ _ Nw0) in Heqb0.
    eapply At_close; eauto.
  - ecf (expect TkOpGt (expect TkIdentifier (next st))). walk (expect TkOpGt (expect TkIdentifier (next st))).
    exists 0. split; [|split; [assumption | split; [split; [lia | discriminate] | lia]]].
    apply beq_bytes_eq in Heqb1. rewrite (now_str_tok _ _ Nw0) in Heqb1.
    eapply At_const; eauto.
  - exfalso. ecf (expect TkOpGt (err PeBadAttr (expect TkIdentifier (next st)))). lia.
  - exists 0. split; [|split; [assumption | split; [split; [lia | discriminate] | lia]]].
    apply At_none. rewrite <- la_hdk. assumption.
Qed.

Lemma s_local_namelist_tail n : forall st sc names locs attrs v st',
  p_local_namelist_tail n st sc names locs attrs = Ok (v, st') -> okl (rest st) -> ec st' = ec st ->
  exists m, AttTail m (rest st) (rest st') /\ okl (rest st') /\ m <= 1 /\ (sc = true -> m = 0).
Proof.
  induction n as [|n IH]; intros st sc names locs attrs v st' H O Hec; [discriminate|].
  rewrite local_namelist_tail_eq in H. dhv H; norm_la.
  - match goal with Hp : p_local_attr _ = (_, ?p) |- _ => rename p into st2; rename Hp into Heqp end.
    destruct ((match a with AttrClose => true | _ => false end) && sc) eqn:Hm.
    + exfalso. mono_ext. ecf st'. lia.
    + mono_ext. ecf st'. walk (expect TkIdentifier (next st)).
      assert (Hp : ec st2 = ec (expect TkIdentifier (next st))) by lia.
      destruct (s_local_attr _ _ _ Heqp HO0 Hp) as (c & HA & HO1 & Hc & Hc1).
      assert (Hq : ec st' = ec st2) by lia.
      destruct (IH _ _ _ _ _ _ _ H HO1 Hq) as (m & HM & HO2 & Hm1 & Hm2).
      assert (Hcm : c + m <= 1 /\ (sc = true -> c + m = 0)).
      { destruct a; cbn [andb orb] in *;
          try (assert (c = 0) by (destruct c as [|[|c]]; [reflexivity | exfalso; assert (X : 1 = 1) by reflexivity;
                                    apply Hc in X; discriminate X | lia]); subst c;
               split; [lia | intros X; rewrite X in Hm2; specialize (Hm2 eq_refl); lia]).
        assert (c = 1) by (apply Hc; reflexivity). subst c. rewrite orb_true_r in Hm2. specialize (Hm2 eq_refl).
        subst m. split; [lia|]. intros X. rewrite X in Hm. discriminate Hm. }
      exists (c + m). split; [|split; [assumption | exact Hcm]].
      eapply AT_cons; eauto.
  - inv_ok H. exists 0. split; [|split; [assumption | split; [lia | auto]]].
    apply AT_end. rewrite <- la_hdk. assumption.
Qed.

Lemma s_parlist_tail n : forall st names locs v st',
  p_parlist_tail n st names locs = Ok (v, st') -> okl (rest st) -> ec st' = ec st ->
  ParTail (rest st) (rest st') /\ okl (rest st').
Proof.
  induction n as [|n IH]; intros st names locs v st' H O Hec; [discriminate|].
  rewrite parlist_tail_eq in H. dhv H; norm_la.
  - mono_ext. ecf st'. walk st'. split; [|assumption]. eapply PT_name; eauto.
  - inv_ok H. ecf (expect TkVararg (next st)). walk (expect TkVararg (next st)). split; [|assumption].
    eapply PT_vararg; eauto.
  - inv_ok H. split; [|assumption]. apply PT_end. rewrite <- la_hdk. assumption.
Qed.

Lemma s_parlist n st v st' :
  p_parlist n st = Ok (v, st') -> okl (rest st) -> ec st' = ec st ->
  ParList (rest st) (rest st') /\ okl (rest st').
Proof.
  unfold p_parlist. intros H O Hec. destruct (la st) eqn:Hla;
    try (pose proof s_parlist_tail as IH; mono_ext; ecf st'; walk st'; split; [|assumption]; eapply PL_names; eauto; fail).
  - inv_ok H. assert (Hn : la st <> TkEOF) by (rewrite Hla; discriminate).
    walk (next st). split; [|assumption]. eapply PL_vararg; eauto.
  - inv_ok H. split; [|assumption]. apply PL_empty. rewrite <- la_hdk. assumption.
Qed.

Lemma s_funcname_dots n : forall st b f e c fn v st',
  p_funcname_dots n st b f e c fn = Ok (v, st') -> okl (rest st) -> ec st' = ec st ->
  DotNames (rest st) (rest st') /\ okl (rest st').
Proof.
  induction n as [|n IH]; intros st b f e c fn v st' H O Hec; [discriminate|].
  rewrite funcname_dots_eq in H. dhv H; norm_la.
  - mono_ext. ecf st'. walk st'. split; [|assumption]. eapply DN_cons; eauto.
  - inv_ok H. split; [|assumption]. apply DN_end. rewrite <- la_hdk. assumption.
Qed.

Lemma s_funcname n st v st' :
  p_funcname n st = Ok (v, st') -> okl (rest st) -> ec st' = ec st ->
  FuncName (rest st) (rest st') /\ okl (rest st').
Proof.
  unfold p_funcname. intros H O Hec. pose proof s_funcname_dots as IH. dhv H; norm_la; inv_ok H; mono_ext.
  - match goal with |- context [rest ?s'] => lazymatch s' with expect _ _ => ecf s'; walk s' end end.
    split; [|assumption]. eexists; eexists. split; [eassumption|]. split; [eassumption|].
    eapply OM_some; eauto.
  - ecf st'. walk st'. split; [|assumption]. eexists; eexists. split; [eassumption|]. split; [eassumption|].
    apply OM_none. rewrite <- la_hdk. assumption.
Qed.
