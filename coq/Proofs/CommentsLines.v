(* C13 support, Lua lexer: the token scanner never moves the line counter backwards.  For every token produced by
   scan_token, the line of the state before the scan <= the token's line <= the line of the state after the scan. *)
From Coq Require Import List NArith ZArith Bool Lia ZifyN ZifyNat ZifyBool.
From LH Require Import Base.Bytes Base.Res Model.Codec Model.Lexer.
From LH Require Import Proofs.LexerTotalFuel Proofs.LexerTotalProgress.
Import ListNotations.
Set Default Proof Using "Type".

Local Open Scope Z_scope.

(* ------------------------------------------------------------------ basic facts *)
Lemma adv_line s n : line (adv s n) = line s.
Proof. reflexivity. Qed.

Lemma count_nl_nonneg l : 0 <= count_nl l.
Proof. unfold count_nl. lia. Qed.

(* ------------------------------------------------------------------ long strings *)
Lemma scan_long_string_line s str s' es ov :
  scan_long_string s = (str, s', es, ov) -> line s <= line s'.
Proof.
  unfold scan_long_string. destruct (match_long_bracket (chunk s)) as [lb count].
  destruct lb as [|b lb'].
  - intros H; pinj H. rewrite adv_line. lia.
  - destruct (index_of_sub _ _) as [idx|].
    + intros H; pinj H. cbn [line]. rewrite adv_line.
      match goal with |- context [count_nl ?l] => pose proof (count_nl_nonneg l) end. lia.
    + intros H; pinj H.
      destruct (_ >? _)%Z eqn:Hnl; cbn [line]; rewrite adv_line; lia.
Qed.

(* ------------------------------------------------------------------ short strings *)
Lemma consume_eol_line ch i ln ls p0 ok i' ln' ls' :
  consume_eol ch i ln ls p0 = (ok, i', ln', ls') -> ln <= ln'.
Proof.
  unfold consume_eol. destruct (nth_byte ch i) as [c|].
  - destruct (is_newline c); intros H; pinj H; lia.
  - intros H; pinj H; lia.
Qed.

Lemma skip_z_f_line : forall f ch i ln ls p0 i' ln' ls',
  skip_z_f f ch i ln ls p0 = (i', ln', ls') -> ln <= ln'.
Proof.
  induction f as [|f IH]; intros ch i ln ls p0 i' ln' ls' H; cbn [skip_z_f] in H.
  - pinj H. lia.
  - destruct (nth_byte ch i) as [c|]; [|pinj H; lia].
    destruct (is_new_white c).
    + apply IH in H. exact H.
    + destruct (consume_eol ch i ln ls p0) as [[[ok i1] ln1] ls1] eqn:He.
      apply consume_eol_line in He.
      destruct ok; [apply IH in H; lia|pinj H; lia].
Qed.

Lemma read_escape_line {fx : FxEscape} ch i ln ls p0 piece i2 ln' ls' es :
  read_escape ch i ln ls p0 = (piece, i2, ln', ls', es) -> ln <= ln'.
Proof.
  unfold read_escape. destruct (nth_byte ch i) as [c|]; [|intros H; pinj H; lia].
  repeat match goal with
         | |- context [if ?b then _ else _] =>
           lazymatch b with
           | is_hex_digit _ && is_hex_digit _ => fail
           | _ => destruct b
           end
         end;
    try (intros H; pinj H; lia).
  - (* x *)
    destruct (nth_byte ch (S i)) as [h1|]; [destruct (nth_byte ch (S (S i))) as [h2|]|];
      [destruct (is_hex_digit h1 && is_hex_digit h2)| |];
      intros H; pinj H; lia.
  - (* newline *)
    destruct (consume_eol ch i ln ls p0) as [[[ok i1] ln1] ls1] eqn:He.
    apply consume_eol_line in He.
    intros H; pinj H; lia.
  - (* z *)
    destruct (skip_z_f (S (length ch)) ch (S i) ln ls p0) as [[i1 ln1] ls1] eqn:Hz.
    apply skip_z_f_line in Hz. intros H; pinj H; lia.
Qed.

(* ------------------------------------------------------------------ scanners independent of the oracle *)
Lemma scan_number_line s str s1 es : scan_number s = (str, s1, es) -> line s1 = line s.
Proof.
  unfold scan_number. destruct (chunk s) as [|b0 t]; [intros H; pinj H; reflexivity|]. intros H.
  destruct (if (b0 =? 46)%N then _ else _) as [[beginCh i] errs].
  pinj H. apply adv_line.
Qed.

Lemma scan_identifier_line s str s1 : scan_identifier s = (str, s1) -> line s1 = line s.
Proof. unfold scan_identifier. intros H. pinj H. apply adv_line. Qed.

Lemma lines_simple s k n start t s' es :
  simple k n s start = (t, s', es) -> line s <= tline t /\ tline t <= line s'.
Proof. unfold simple. intros H. pinj H. cbn [mk tline]. rewrite adv_line. lia. Qed.

Lemma lines_number s t s' es :
  (let '(str, s1, es) := scan_number s in (mk TkNumber str (pos s) s1, s1, es)) = (t, s', es) ->
  line s <= tline t /\ tline t <= line s'.
Proof.
  intros H. destruct (scan_number s) as [[str s1] es1] eqn:Hn.
  apply scan_number_line in Hn. pinj H. cbn [mk tline]. lia.
Qed.

Lemma lines_ident s t s' es :
  (let '(str, s1) := scan_identifier s in
   (mk (match lookup_kw str keywords with Some k => k | None => TkIdentifier end) str (pos s) s1, s1,
    @nil lexerr)) = (t, s', es) ->
  line s <= tline t /\ tline t <= line s'.
Proof.
  intros H. destruct (scan_identifier s) as [str s1] eqn:Hn.
  apply scan_identifier_line in Hn. pinj H. cbn [mk tline]. lia.
Qed.

Lemma lines_long s t s' es :
  (let '(str, s1, es, ov) := scan_long_string s in
   (mk TkString str (match ov with Some p => p | None => pos s end) s1, s1, es)) = (t, s', es) ->
  line s <= tline t /\ tline t <= line s'.
Proof.
  intros H. destruct (scan_long_string s) as [[[str s1] es1] ov] eqn:Hn.
  apply scan_long_string_line in Hn. pinj H. cbn [mk tline]. lia.
Qed.

Section WithOracle.
  Context {fx : FxEscape}.
  Variable gbk_runes : list N -> Z.

  Lemma scan_short_f_line : forall f delim ch i ss acc ln ls p0 errs str s' es ov,
    scan_short_f gbk_runes f delim ch i ss acc ln ls p0 errs = (str, s', es, ov) -> ln <= line s'.
  Proof.
    induction f as [|f IH]; intros delim ch i ss acc ln ls p0 errs str s' es ov H; cbn [scan_short_f] in H.
    - pinj H. cbn [line]. lia.
    - destruct (i <? length ch)%nat; [|pinj H; cbn [line]; lia].
      destruct (nth_byte ch i) as [c|]; [|pinj H; cbn [line]; lia].
      destruct (c =? delim)%N; [pinj H; cbn [line]; lia|].
      destruct ((length ch <=? S i)%nat || is_newline c); [pinj H; cbn [line]; lia|].
      destruct (negb (c =? 92)%N).
      + apply IH in H. exact H.
      + destruct (read_escape ch (S i) ln ls p0) as [[[[piece i2] ln1] ls1] es1] eqn:Hre.
        apply read_escape_line in Hre. apply IH in H. lia.
  Qed.

  Lemma scan_short_string_line s str s' es ov :
    scan_short_string gbk_runes s = (str, s', es, ov) -> line s <= line s'.
  Proof.
    unfold scan_short_string. destruct (chunk s) as [|d t].
    - intros H; pinj H. lia.
    - intros H. apply scan_short_f_line in H. exact H.
  Qed.

  (* ---------------------------------------------------------------- the other scanners keep the line *)
  Lemma scan_illegal_line s lf str s1 : scan_illegal gbk_runes s = (lf, str, s1) -> line s1 = line s.
  Proof.
    unfold scan_illegal. destruct (illegal_len (chunk s) 0) as [[i lf'] b].
    intros H. pinj H. reflexivity.
  Qed.

  (* ---------------------------------------------------------------- leaves of scan_token *)
  Lemma lines_short s t s' es :
    (let '(str, s1, es, ov) := scan_short_string gbk_runes s in
     (mk TkString str (match ov with Some p => p | None => pos s end) s1, s1, es)) = (t, s', es) ->
    line s <= tline t /\ tline t <= line s'.
  Proof.
    intros H. destruct (scan_short_string gbk_runes s) as [[[str s1] es1] ov] eqn:Hn.
    apply scan_short_string_line in Hn. pinj H. cbn [mk tline]. lia.
  Qed.

  Lemma lines_illegal s t s' es :
    (let '(lf, str, s1) := scan_illegal gbk_runes s in
     let t := mk IKIllegal str (pos s) s1 in
     let s2 := if lf then mkLst (chunk s1) (line s1 + 1)%Z (pos s1) (pos s1) else s1 in
     (t, s2, [LeIllegal])) = (t, s', es) ->
    line s <= tline t /\ tline t <= line s'.
  Proof.
    intros H. destruct (scan_illegal gbk_runes s) as [[lf str] s1] eqn:Hn.
    apply scan_illegal_line in Hn. cbv zeta in H. pinj H. cbn [mk tline].
    destruct lf; cbn [line]; lia.
  Qed.

  Ltac fin H :=
    first [ solve [eapply lines_simple in H; exact H]
          | solve [eapply lines_number in H; exact H]
          | solve [eapply lines_ident in H; exact H]
          | solve [eapply lines_illegal in H; exact H]
          | solve [eapply lines_short in H; exact H]
          | solve [eapply lines_long in H; exact H] ].

  Lemma scan_token_lines_sec s t s' es :
    scan_token gbk_runes s = (t, s', es) -> line s <= tline t /\ tline t <= line s'.
  Proof.
    intros H. unfold scan_token in H.
    destruct (chunk s) as [|c rest] eqn:Hch.
    { pinj H. cbn [tline]. lia. }
    rewrite <- Hch in H. cbv zeta in H.
    repeat match type of H with
           | context [if ?b then _ else _] => destruct b eqn:?
           end;
      try (destruct rest as [|c1 rest'];
           [|repeat match type of H with
                    | context [if ?b then _ else _] => destruct b eqn:?
                    end]);
      fin H.
  Qed.
End WithOracle.

Theorem scan_token_lines : forall (gbk : list N -> Z) s t s' es,
  scan_token gbk s = (t, s', es) -> (line s <= tline t)%Z /\ (tline t <= line s')%Z.
Proof. exact scan_token_lines_sec. Qed.

Print Assumptions scan_token_lines.
