(* Binder family: the model and the reference binder run from file BYTES inside Coq (witnesses of the refuted classes,
   non-vacuity examples).  Same glue as ocaml/c05_run.ml, single-file workspace "a.lua". *)
From Coq Require Import List NArith ZArith Bool.
From LH Require Import Base.Bytes Base.Res Model.Lexer Model.Ast Model.Parser Model.Number Model.LuaFront
  Model.Scope Model.Globals Model.Resolve Spec.LuaScope.
Import ListNotations.
Local Open Scope N_scope.

Definition a_lua : list N := [97; 46; 108; 117; 97].
Definition b_lua : list N := [98; 46; 108; 117; 97].

Definition parse_ok (bs : list N) : option block :=
  match parse_bytes (fun _ => 0%Z) classify_tok bs with
  | Ok (PR b [] []) => Some b
  | _ => None
  end.

(* a workspace of parsed files *)
Definition mws_of (files : list (list N * block)) : mws := map (fun x => (fst x, analyse (snd x))) files.
Definition sws_of (files : list (list N * block)) : sws := map (fun x => (fst x, bind_file (snd x))) files.

Inductive answer := ALocs (l : list floc) | ASkip.

(* the name a position request is about (GetVarStruct); None = the server answers nothing.  docend_empty = the handler
   gives up at offset >= len(contents): hover never did; definition / references / highlight / rename did before
   fixes/C05-doc-end.diff (the `_fx` handlers of Proofs/ResolveFixes.v keep that variant), now they pass false *)
Definition request_name (bs : list N) (line0 col : N) (docend_empty : bool) : option (option (list N)) :=
  match offset_of bs line0 col 0 with
  | None => None
  | Some off =>
    if docend_empty && (N.of_nat (length bs) <=? off) then Some None
    else match cut_name bs off with
         | CutName s => Some (Some s)
         | CutInvalid => Some None
         | CutUnsupported => None
         end
  end.

Definition zl (line0 : N) : Z := (Z.of_N line0 + 1)%Z.

Section OneQuery.
  Variable files : list (list N * list N).         (* name, bytes *)

  Fixpoint parse_all (fs : list (list N * list N)) : option (list (list N * block)) :=
    match fs with
    | [] => Some []
    | (n, bs) :: r => match parse_ok bs, parse_all r with
                      | Some b, Some r' => Some ((n, b) :: r')
                      | _, _ => None
                      end
    end.

  Definition bytes_of (f : list N) : list N :=
    match find (fun x => beq_bytes (fst x) f) files with Some (_, bs) => bs | None => [] end.

  (* textDocument/definition at (file f, line0, col) *)
  Definition run_define (f : list N) (line0 col : N) : answer :=
    match parse_all files with
    | None => ASkip
    | Some ps =>
      let w := mws_of ps in
      match ws_file w f, request_name (bytes_of f) line0 col false with
      | Some fi, Some (Some s) =>
        match define_at w f fi s (zl line0) (Z.of_N col) with Some l => ALocs l | None => ASkip end
      | Some _, Some None => ALocs []
      | _, _ => ASkip
      end
    end.

  Definition run_refs (mode : refmode) (f : list N) (line0 col : N) : answer :=
    match parse_all files with
    | None => ASkip
    | Some ps =>
      let w := mws_of ps in
      match ws_file w f, request_name (bytes_of f) line0 col false with
      | Some fi, Some (Some s) =>
        match references_at mode w f fi s (zl line0) (Z.of_N col) with Some l => ALocs l | None => ASkip end
      | Some _, Some None => ALocs []
      | _, _ => ASkip
      end
    end.

  Definition run_hover (f : list N) (line0 col : N) : hoverres :=
    match parse_all files with
    | None => HSkip
    | Some ps =>
      let w := mws_of ps in
      match ws_file w f, request_name (bytes_of f) line0 col false with
      | Some fi, Some (Some s) => hover_at w f fi s (zl line0) (Z.of_N col)
      | _, _ => HSkip
      end
    end.

  Definition run_complete (f : list N) (line0 col : N) : option (list (list N)) :=
    match parse_all files with
    | None => None
    | Some ps =>
      let w := mws_of ps in
      match ws_file w f, offset_of (bytes_of f) line0 col 0 with
      | Some fi, Some off =>
        match complete_prefix (bytes_of f) off with
        | CutName pre => Some (complete_at w fi pre (zl line0) (Z.of_N col))
        | CutInvalid => Some []
        | CutUnsupported => None
        end
      | _, _ => None
      end
    end.

  (* the occurrence under the cursor according to the reference binder *)
  Definition spec_occ (f : list N) (line0 col : N) : option socc :=
    match parse_all files with
    | None => None
    | Some ps => occ_at (file_occs (sws_of ps) f) (zl line0) (Z.of_N col)
    end.

  Definition spec_ws : sws := match parse_all files with Some ps => sws_of ps | None => [] end.

  Definition all_in_fragment : bool :=
    match parse_all files with Some ps => forallb (fun x => in_fragment (snd x)) ps | None => false end.
End OneQuery.

(* set equality of location lists (the features return sets; the server output is sorted by the harness) *)
Definition same_locs (a b : list floc) : bool := flocs_eqb a b.

Definition ans_is (a : answer) (l : list floc) : bool := match a with ALocs x => same_locs x l | ASkip => false end.

Definition mk_loc (l1 c1 l2 c2 : Z) : loc := mkLoc l1 c1 l2 c2.
